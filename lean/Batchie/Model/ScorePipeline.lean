/-
  The CONCRETE scoring pipeline, composed from the executable models of its stages (C04 / C06):

    screen, posterior samples
      → `theta.predict_viability(screen)` for every sample                    (`Batchie.Model.Predict`, C09)
      → `calculate_pairwise_distance_matrix_on_predictions` per distance chunk with `MSEDistance()`,
        `ChunkedDistanceMatrix.concat`, `to_dense()`                          (`Batchie.Model.Chunks`, C07)
      → per score chunk: `score_chunk` — plates to score, batch conditioning  (`Batchie.Model.Scores`, C06)
          → `GaussianDBALScorer.score`: `predict_mean_all` / `predict_variance_all` per plate,
            sub-groups of `max_chunk` plates, the vectorised DBAL kernel      (`Batchie.Model.Dbal`, C05)
            on the triples `get_combination_at_sorted_index` makes of the recorded `rng.choice` draw
                                                                              (`Batchie.Model.UnrankCallsite`, C15)
          → `ChunkedScoresHolder` of the chunk
      → `save_h5` / `load_h5` / `ChunkedScoresHolder.concat` → `select_next_plate`.

  Import-free, executable, generic over the numeric type `α` (driver: `Float`, `Model/ScorePipelineIO.lean`).
  Nothing here is new numerics: every stage is the definition the owning property proves its theorems about.

  Deliberate simplifications (documented, exercised by the correspondence run only on valid input):
  * every sample's viability prediction is computed once, up front (the code recomputes it for every pair);
  * `GaussianDBALScorer.score` predicts group by group, the model predicts for all plates of the chunk first — the
    two differ only in WHICH error surfaces first on invalid θ;
  * a score that is NaN or +∞ is outside the scores model (`Batchie.Scores.Score`): `Err.other`.
-/
import Batchie.Model.Scores
import Batchie.Model.Predict
import Batchie.Model.Chunks
import Batchie.Model.Dbal
import Batchie.Model.UnrankCallsite

namespace Batchie.ScorePipeline
open Batchie.Proto Batchie.Screen Batchie.Scores

/-- what the composition needs from the number type besides its operators -/
structure Num (α : Type) where
  /-- `np.isnan` -/
  nan : α → Bool
  /-- conversion of an element count (`np.mean` divides by it) -/
  cast : Nat → α
  /-- the exact value of a finite number, `−∞`; `none` for NaN and `+∞` -/
  toScore : α → Option Score

section generic
variable {α : Type} [Add α] [Sub α] [Mul α] [Div α] [Neg α] [Zero α] [One α] [OfNat α 0] [OfNat α 1] [OfScientific α]
  [LT α] [DecidableLT α] [Max α] [Predict.ExpLog α] [Dbal.ExpLog α]

/-- what the prediction methods read from the whole screen -/
def pscreenOf (s : Screen) : Predict.PScreen := { arity := s.arity, sids := s.sids, tids := s.tids }

/-- … and from a `ScreenSubset` / `Plate` of it -/
def pscreenOfView (s : Screen) (v : View) : Predict.PScreen :=
  { arity := s.arity, sids := maskFilter s.sids v.sel, tids := maskFilter s.tids v.sel }

/-! ### distance matrix -/

/-- `theta.predict_viability(data)` for every sample of the holder -/
def viabilities (thetas : List (Predict.Theta α)) (s : Screen) : Except Err (List (List α)) :=
  thetas.mapM (fun θ => θ.predictViabilityM (pscreenOf s))

/-- `MSEDistance().distance(pred_i, pred_j)` (`sigmoid=True`: `expit` of both arguments) -/
def metric (num : Num α) (viabs : List (List α)) (i j : Int) : α :=
  Chunks.mseDist num.cast Predict.expit (viabs.getD i.toNat []) (viabs.getD j.toNat [])

/-- every chunk `0 … k-1` through `calculate_pairwise_distance_matrix_on_predictions`, then `concat` in that order -/
def distanceMatrix (num : Num α) (thetas : List (Predict.Theta α)) (s : Screen) (k : Nat) : Except Err (Chunks.CDM α) := do
  let viabs ← viabilities thetas s
  Chunks.assemble (thetas.length : Int) (k : Int) (metric num viabs) ((List.range k).map Int.ofNat)

/-- `dense[i, j]` -/
def lookupD (d : List (List α)) (i j : Nat) : α := (d.getD i []).getD j 0

/-! ### `GaussianDBALScorer.score` on the plates `score_chunk` hands over -/

/-- `predict_mean_all(plate, thetas)` and `predict_variance_all(plate, thetas)`, as the experiments of the plate -/
def plateOfView (num : Num α) (thetas : List (Predict.Theta α)) (s : Screen) (v : View) : Except Err (Dbal.Plate α) := do
  let psc := pscreenOfView s v
  let means ← Predict.predictAll num.nan (fun θ => θ.predictConditionalMean psc) thetas.length thetas
  let vars ← Predict.predictVarianceAll num.nan (fun θ => θ.predictConditionalVariance psc) thetas.length thetas
  if means.map List.length != vars.map List.length then .error .valueError
  else pure (Dbal.plateOfArrays means vars)

/-- the scores as numbers: dict of plates in, dict of scores out (insertion order).  The dict keys are unique; the
    model keys the plates by their POSITION in the dict and re-attaches the ids afterwards. -/
def dbalRaw (num : Num α) (thetas : List (Predict.Theta α)) (D : Nat → Nat → α) (maxChunk : Nat)
    (tripless : Nat → List Dbal.Triple) (s : Screen) (inp : List (Int × View)) : Except Err (List (Int × α)) :=
  if inp.isEmpty then .ok []                                   -- `if not len(plates): return {}`
  else do
    let ps ← inp.mapM (fun e => plateOfView num thetas s e.2)
    if UnrankCallsite.comb3 thetas.length == 0 then .error .valueError      -- fewer than 3 samples
    else
      let out := Dbal.scorerScore thetas.length D maxChunk tripless ((List.range ps.length).zip ps)
      if out.length != inp.length then .error .valueError      -- "Expected {} plates to be scored, got {}"
      else pure ((inp.map Prod.fst).zip (out.map Prod.snd))

/-- the same with the scores in the representation of the scores model -/
def dbalScore (num : Num α) (thetas : List (Predict.Theta α)) (D : Nat → Nat → α) (maxChunk : Nat)
    (tripless : Nat → List Dbal.Triple) (s : Screen) (inp : List (Int × View)) : Except Err (List (Int × Score)) := do
  let raw ← dbalRaw num thetas D maxChunk tripless s inp
  raw.mapM (fun kv => match num.toScore kv.2 with
    | some x => .ok (kv.1, x)
    | none => .error .other)

/-- `GaussianDBALScorer` as a plug-in of the C06 model (`Batchie.Scores.Scorer`); where the scorer raises, the plug-in
    returns nothing (the chunk function below keeps the error instead) -/
def dbalScorer (num : Num α) (thetas : List (Predict.Theta α)) (D : Nat → Nat → α) (maxChunk : Nat)
    (tripless : Nat → List Dbal.Triple) (s : Screen) : Scorer :=
  fun inp => match dbalScore num thetas D maxChunk tripless s inp with
    | .ok out => out
    | .error _ => []

/-- `score_chunk(scorer=GaussianDBALScorer(max_chunk), …, n_chunks, chunk_index, batch_plate_ids)`:
    the numbers and the holder -/
def scoreChunkDbal (num : Num α) (thetas : List (Predict.Theta α)) (D : Nat → Nat → α) (maxChunk : Nat)
    (tripless : Nat → List Dbal.Triple) (s : Screen) (batch : List Int) (n idx : Nat) :
    Except Err (List (Int × α) × Holder) := do
  let inp ← scoreInputs s 0 batch n idx
  let raw ← dbalRaw num thetas D maxChunk tripless s inp
  let out ← dbalScore num thetas D maxChunk tripless s inp
  let h ← out.foldlM (fun h e => h.add e.1 e.2) (Holder.new inp.length)
  pure (raw, h)

/-! ### the whole run -/

structure Result (α : Type) where
  dense : List (List α)
  /-- per score chunk: `(plate id, score)` as numbers, in holder order -/
  raw : List (List (Int × α))
  holders : List Holder
  combined : Holder
  selected : Option Int

/-- `draws idx g`: the indices `rng.choice` returned in the `g`-th kernel call of score chunk `idx` -/
def run (num : Num α) (s : Screen) (thetas : List (Predict.Theta α)) (kDist kScore : Nat) (batch : List Int)
    (maxChunk : Nat) (draws : Nat → Nat → List Nat) (policy : Option Policy) : Except Err (Result α) := do
  let cdm ← distanceMatrix num thetas s kDist
  let dense ← cdm.toDense
  let chunks ← (List.range kScore).mapM (fun idx =>
    scoreChunkDbal num thetas (lookupD dense) maxChunk
      (fun g => UnrankCallsite.triplesOf thetas.length (draws idx g)) s batch kScore idx)
  let holders := chunks.map Prod.snd
  let combined ← Holder.concat (holders.map (fun h => Holder.load h.save))
  let selected ← selectNextPlate combined s policy batch
  pure { dense := dense, raw := chunks.map Prod.fst, holders := holders, combined := combined, selected := selected }

end generic

end Batchie.ScorePipeline
