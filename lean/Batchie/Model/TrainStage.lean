/-
  The TRAINING stage of the simulation as `batchie.cli.train_model.main()` runs it (C03, clause 4's premise "the ids
  used when training"):

      data = Screen.load_h5(args.data)
      observed_subset = data.subset_observed()        # a ScreenSubset VIEW: it carries the parent's ids
      model.add_observations(observed_subset)

  `trainRows s` is what the model receives for screen `s`: the observed rows of `s`, in row order, each with the sample
  id and the treatment ids OF `s`.  `trainRowsMaterialised s` is the same stage with the view promoted through
  `ScreenSubset.to_screen()` first -- a fresh `Screen(...)` WITHOUT the carried mappings, so the ids are re-encoded from
  the observed rows alone.  That is the code of seeded change S7-C03; it is kept only as the regression definition.

  Import-free and executable; tied to /repo by the train_model stream of harness/c03.py (driver op `trainrows`).
-/
import Batchie.Model.Screen

namespace Batchie.TrainStage
open Batchie.Proto Batchie.Screen

/-- one experiment as the model sees it -/
structure TrainRow where
  sname : Name
  tnames : List Name
  tdoses : List Dose
  obs : Nat
  sid : Int
  tids : List Int
deriving Repr, BEq, DecidableEq

/-- row `i` of a screen with the ids the screen itself carries -/
def rowAt (s : Screen) (i : Nat) : TrainRow :=
  { sname := s.snames[i]!, tnames := s.tnames[i]!, tdoses := s.tdoses[i]!, obs := s.obs[i]!, sid := s.sids[i]!,
    tids := s.tids[i]! }

/-- the indices of the observed rows, in row order (`subset_observed()` selects with the observation mask) -/
def observedIdx (s : Screen) : List Nat := (List.range s.size).filter (fun i => s.mask[i]!)

/-- what `train_model.main()` hands to `model.add_observations` for screen `s`
    (no observed row: `subset_observed()` is `None` and nothing is handed over) -/
def trainRows (s : Screen) : List TrainRow := (observedIdx s).map (rowAt s)

/-- the same stage with `subset_observed().to_screen()` (seeded change S7-C03): every row of the promoted screen,
    with the ids of THAT screen -/
def trainRowsMaterialised (s : Screen) : Except Err (List TrainRow) :=
  match s.subsetObserved 0 with
  | none => .ok []
  | some v => do
    let t ← s.viewToScreen v
    pure ((List.range t.size).map (rowAt t))

end Batchie.TrainStage
