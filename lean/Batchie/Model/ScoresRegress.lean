/-
  REGRESSION definitions for C06 (seeded changes that are NOT in /repo), next to the model they vary (`Model/Scores.lean`):
    S7-C06  `ChunkedScoresHolder.load_h5` keeping only FINITE scores (a genuinely scored plate with score -inf is lost on load)
    S5-C06  the command line writing `-1` when `not selected_plate_id` (plate id 0 is falsy)
  and the text the real wrapper writes (`cliText`).  Import-free, executable.
-/
import Batchie.Model.Scores

namespace Batchie.Scores

/-- what `select_next_plate.main` writes into the output file -/
def cliText (r : Option Int) : String :=
  match r with
  | some p => toString p
  | none => "-1"

/-- REGRESSION (S5-C06): `if not next_plate_id: write(-1)` -/
def cliTextOld (r : Option Int) : String :=
  match r with
  | some p => if p == 0 then "-1" else toString p
  | none => "-1"

def Score.isFinite : Score → Bool
  | .negInf => false
  | .fin _ => true

/-- REGRESSION (S7-C06): `load_h5` that drops the cells whose score is not finite -/
def Holder.loadFinite (f : ScoreFile) : Holder :=
  let cells := (f.plateIds.zip f.scores).filter (fun e => e.2.isFinite)
  { size := cells.length, scores := cells.map Prod.snd, plateIds := cells.map Prod.fst, cur := cells.length }

/-- REGRESSION (S8-C06): a "reproducible tie-break" that returns the LOWEST plate id among the allowed cells whose score is within a
    tolerance of the best score (`np.isclose`), instead of the exact minimiser -/
def Holder.lowestIdWithinTol (h : Holder) (allowed : List Int) (tol : Rat) : Option Int :=
  let E := h.entries.filter (fun e => allowed.contains e.1)
  match (h.plateIdWithMinimumScore (some allowed)).toOption with
  | none => none
  | some p =>
    match E.find? (fun e => e.1 == p) with
    | some (_, .fin best) =>
      let close := E.filter (fun e => match e.2 with
        | .fin x => decide (x ≤ best + tol)
        | .negInf => true)
      some ((close.map Prod.fst).foldl min p)
    | _ => some p

end Batchie.Scores
