/-
  Hand model of the training-data path (C04):
    `cli/train_model.py:main`            `data.subset_observed()` → `model.add_observations(subset)`
    `core.py:BayesianModel.add_observations`   refuse any masked row
    `models/sparse_combo.py:SparseDrugCombo._add_observations`
    `models/sparse_combo_interaction.py:SparseDrugComboInteraction._add_observations`
    `data.py:create_single_treatment_effect_map`
  and of the fact that scoring / selection never see the observation column (`ScreenShape`).

  Observation values are 64-bit IEEE patterns (`Nat`), only *moved* by the structural code; the
  numeric transform of a model (`logit(clip(float32(y), .01, .99))` resp. `logit(float32(y))`)
  is an uninterpreted pointwise function `transform : Nat → τ`, `np.isnan` on transformed values an
  uninterpreted predicate `nanT`; `np.mean` of the single-agent observations is left as the list
  of averaged patterns (`Effect.meanOf`).  Import-free and executable; tied to /repo by `harness/c04.py`.
-/
import Batchie.Model.Scores

namespace Batchie.Train
open Batchie.Proto Batchie.Screen Batchie.Scores

/-! ### bit-level predicates on binary64 patterns -/

/-- exponent all ones and non-zero fraction -/
def isNaN (b : Nat) : Bool := (b / 2 ^ 52) % 2048 == 2047 && b % 2 ^ 52 != 0

def signSet (b : Nat) : Bool := (b / 2 ^ 63) % 2 == 1

/-- `-0.0` -/
def isNegZero (b : Nat) : Bool := b % 2 ^ 64 == 2 ^ 63

/-- numpy's `x >= 0.0`: false for NaN and for every negative value, true for `-0.0` -/
def geZero (b : Nat) : Bool := !isNaN b && (!signSet b || isNegZero b)

/-! ### rows -/

structure Row where
  obs : Nat
  sid : Int
  tids : List Int
  mask : Bool
deriving Repr, DecidableEq

/-- the rows of a screen: observation, and everything that is not an observation -/
def screenRows (s : Screen) : List Row :=
  List.zipWith (fun (o : Nat) (r : Bool × Int × List Int) => { obs := o, sid := r.2.1, tids := r.2.2, mask := r.1 })
    s.obs (s.mask.zip (s.sids.zip s.tids))

/-- the arrays a `ScreenSubset` exposes -/
def viewRows (s : Screen) (v : View) : List Row := maskFilter (screenRows s) v.sel

/-! ### what a model records -/

/-- value of `single_effect_lookup`: `1.0` for the control, else `np.mean` of these observations -/
inductive Effect where
  | one
  | meanOf (vals : List Nat)
deriving Repr, DecidableEq

/-- the training data held by the wrapped sampler after `add_observations`:
    `wrapped_model.y/cline/dd1/dd2` (one tuple per `_update`, in call order) and `single_effect_lookup` -/
structure Trained (τ : Type) where
  tuples : List (τ × Int × Int × Int)
  single : List ((Int × Int) × Effect)

instance {τ : Type} [DecidableEq τ] : DecidableEq (Trained τ) := fun a b =>
  match a, b with
  | ⟨t1, s1⟩, ⟨t2, s2⟩ =>
    if h : t1 = t2 ∧ s1 = s2 then isTrue (by cases h.1; cases h.2; rfl)
    else isFalse (fun e => h (by cases e; exact ⟨rfl, rfl⟩))

inductive ModelKind where
  | sparseDrugCombo
  | sparseDrugComboInteraction
deriving Repr, DecidableEq

def sortedUniqueInts (l : List Int) : List Int := (l.eraseDups).mergeSort intLe

def countControl (t : List Int) : Nat := (t.filter (· == -1)).length

def rowMax (t : List Int) : Int := t.foldl max (t.headD 0)

/-- `create_single_treatment_effect_map(sample_ids, treatment_ids, observation)` (arity ≥ 2 checked by the caller) -/
def singleEffectMap (rows : List Row) (arity : Nat) : List ((Int × Int) × Effect) :=
  let singles := rows.filter (fun r => countControl r.tids == arity - 1)
  let us := sortedUniqueInts (rows.map (·.sid))
  let ut := sortedUniqueInts (rows.flatMap (·.tids))
  us.flatMap (fun sid => ut.filterMap (fun t =>
    if t == -1 then some ((sid, t), Effect.one)
    else
      let vals := (singles.filter (fun r => rowMax r.tids == t && r.sid == sid)).map (·.obs)
      if vals.isEmpty then none else some ((sid, t), Effect.meanOf vals)))

/-- `dd[0], dd[1]` -/
def firstTwo (t : List Int) : Except Err (Int × Int) :=
  match t with
  | d1 :: d2 :: _ => .ok (d1, d2)
  | _ => .error .indexError

/-- `SparseDrugCombo._add_observations` -/
def addSparseDrugCombo {τ : Type} (transform : Nat → τ) (nanT : τ → Bool) (rows : List Row) : Except Err (Trained τ) :=
  if !(rows.all (fun r => geZero r.obs)) then .error .valueError
  else if (rows.map (fun r => transform r.obs)).any nanT then .error .valueError
  else do
    let tuples ← (rows.filter (·.mask)).mapM (fun r => do
      let d ← firstTwo r.tids
      pure (transform r.obs, r.sid, d.1, d.2))
    pure { tuples := tuples, single := [] }

/-- `SparseDrugComboInteraction._add_observations` (on a fresh model: `single_effect_lookup` starts empty) -/
def addInteraction {τ : Type} (transform : Nat → τ) (arity : Nat) (rows : List Row) : Except Err (Trained τ) :=
  if arity != 2 then .error .valueError
  else if !(rows.all (fun r => geZero r.obs)) then .error .valueError
  else do
    let tuples ← ((rows.filter (fun r => countControl r.tids == 0)).filter (·.mask)).mapM (fun r => do
      let d ← firstTwo r.tids
      pure (transform r.obs, r.sid, d.1, d.2))
    pure { tuples := tuples, single := singleEffectMap rows arity }

/-- `BayesianModel.add_observations(data)` for the two shipped MCMC models -/
def addObservations {τ : Type} (m : ModelKind) (transform : Nat → τ) (nanT : τ → Bool) (arity : Nat) (rows : List Row) :
    Except Err (Trained τ) :=
  if !(rows.all (·.mask)) then .error .valueError
  else match m with
    | .sparseDrugCombo => addSparseDrugCombo transform nanT rows
    | .sparseDrugComboInteraction => addInteraction transform arity rows

/-- what `train_model.main` hands to the model: nothing when no experiment is observed, else the observed subset -/
def trainRows {τ : Type} (m : ModelKind) (transform : Nat → τ) (nanT : τ → Bool) (s : Screen) : Except Err (Trained τ) :=
  match s.subsetObserved 0 with
  | none => .ok { tuples := [], single := [] }
  | some v => addObservations m transform nanT s.arity (viewRows s v)

/-! ### the screen without its observation column -/

structure ScreenShape where
  ctrl : Name
  arity : Nat
  tnames : List (List Name)
  tdoses : List (List Dose)
  snames : List Name
  pnames : List Name
  mask : List Bool
  tids : List (List Int)
  sids : List Int
  pids : List Int
  tmap : TMap
  smap : SMap
  pmap : SMap

def shape (s : Screen) : ScreenShape :=
  { ctrl := s.ctrl, arity := s.arity, tnames := s.tnames, tdoses := s.tdoses, snames := s.snames, pnames := s.pnames,
    mask := s.mask, tids := s.tids, sids := s.sids, pids := s.pids, tmap := s.tmap, smap := s.smap, pmap := s.pmap }

def ScreenShape.withObs (sh : ScreenShape) (obs : List Nat) : Screen :=
  { ctrl := sh.ctrl, arity := sh.arity, tnames := sh.tnames, tdoses := sh.tdoses, snames := sh.snames, pnames := sh.pnames,
    obs := obs, mask := sh.mask, tids := sh.tids, sids := sh.sids, pids := sh.pids, tmap := sh.tmap, smap := sh.smap, pmap := sh.pmap }

/-- scoring, conditioning and selection as functions of the shape alone -/
def shCandidates (sh : ScreenShape) (batch : List Int) : List Int := candidates (sh.withObs []) batch
def shScoreInputs (sh : ScreenShape) (pid : Nat) (batch : List Int) (n idx : Nat) : Except Err (List (Int × View)) :=
  scoreInputs (sh.withObs []) pid batch n idx
def shScoreChunk (sh : ScreenShape) (pid : Nat) (batch : List Int) (n idx : Nat) (sc : Scorer) : Except Err Holder :=
  scoreChunk (sh.withObs []) pid batch n idx sc
def shEligible (sh : ScreenShape) (policy : Option Policy) (batch : List Int) : List Int :=
  eligible (sh.withObs []) policy batch
def shSelectNextPlate (h : Holder) (sh : ScreenShape) (policy : Option Policy) (batch : List Int) : Except Err (Option Int) :=
  selectNextPlate h (sh.withObs []) policy batch

end Batchie.Train
