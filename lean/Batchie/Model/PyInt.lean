/-
  Python integer idioms used by the translated kernels (import-free, executable).
-/
namespace Batchie.PyInt

/-- `list(range(start, stop, step))` for `step ≠ 0` (Python raises for `step = 0`; the
    translator only emits literal non-zero steps).  Fuel-free: the length is computed first. -/
def pyRangeLen (start stop step : Int) : Nat :=
  if step > 0 then
    if start < stop then ((stop - start + step - 1) / step).toNat else 0
  else if step < 0 then
    if start > stop then ((start - stop + (-step) - 1) / (-step)).toNat else 0
  else 0

def pyRange (start stop step : Int) : List Int :=
  (List.range (pyRangeLen start stop step)).map (fun (i : Nat) => start + (i : Int) * step)

end Batchie.PyInt
