/-
  Hand model of `batchie.core.ThetaHolder` (core.py:100-263), of the parameter dictionaries of
  the two shipped MCMC sample types (models/sparse_combo.py:59-64,
  models/sparse_combo_interaction.py:78-106) and of the chain-id labelling of
  `cli/evaluate_model.py:57-82`.  Import-free and executable; tied to /repo by harness/c10.py.

  Conventions:
    * a parameter value `Val` is only ever *moved*: dtype tag (0 = float64, 1 = float32,
      2 = int64, 3 = bool; opaque), shape (`none` = Python/numpy scalar, stored as an HDF5
      attribute; `some dims` = numpy array, stored as a dataset) and the list of its elements as
      integers (IEEE bit patterns for floats, the value for ints);
    * a Python `dict` is an association list in insertion order (`List.lookup` = `d[k]`);
    * an HDF5 file is the record of what `save_h5` creates; `load` makes **no** assumption on the
      order in which the container lists the children of a group or the attributes/datasets of a
      group (HDF5 lists names alphabetically: "0","1","10","11","2",...): it sorts the children
      of `private_params` the way the code does, `sorted(keys, key=int)`.
-/
import Batchie.Model.Proto

namespace Batchie.Thetas
open Batchie.Proto

structure Val where
  dtype : Nat
  shape : Option (List Nat)
  bits : List Int
deriving DecidableEq, Repr, Inhabited

abbrev Dict := List (String × Val)

/-- `single_effect_lookup`: `(sample id, treatment id) -> value` in insertion order -/
abbrev Table := List ((Int × Int) × Int)

inductive Cls where
  | combo | inter
deriving DecidableEq, Repr, Inhabited

/-- the two shipped sample types (dataclass fields in declaration order) -/
inductive Sample where
  | combo (W W0 V2 V1 V0 alpha precision : Val)
  | inter (W V2 precision : Val) (table : Table)
deriving DecidableEq, Repr, Inhabited

def Sample.cls : Sample → Cls
  | .combo .. => .combo
  | .inter .. => .inter

def Sample.table : Sample → Table
  | .combo .. => []
  | .inter _ _ _ t => t

def comboFields : List String := ["W", "W0", "V2", "V1", "V0", "alpha", "precision"]
def interFields : List String := ["W", "V2", "precision"]

def K1 : String := "single_effect_lookup_keys1"
def K2 : String := "single_effect_lookup_keys2"
def KV : String := "single_effect_lookup_vals"

/-- `private_parameters_dict`: `self.__dict__` for the combo sample, an explicit dict for the
interaction sample -/
def Sample.privDict : Sample → Dict
  | .combo w w0 v2 v1 v0 a p =>
    [("W", w), ("W0", w0), ("V2", v2), ("V1", v1), ("V0", v0), ("alpha", a), ("precision", p)]
  | .inter w v2 p _ => [("W", w), ("V2", v2), ("precision", p)]

/-- `np.array([...])` of a list of Python ints (int64) -- of an empty list it is float64 -/
def intArray (xs : List Int) : Val := ⟨if xs.isEmpty then 0 else 2, some [xs.length], xs⟩
/-- `np.array([...])` of a list of floats -/
def floatArray (xs : List Int) : Val := ⟨0, some [xs.length], xs⟩

/-- `shared_parameters_dict`: `{}` (base class) / the three arrays of the lookup table -/
def Sample.sharedDict : Sample → Dict
  | .combo .. => []
  | .inter _ _ _ t =>
    [(K1, intArray (t.map (·.1.1))), (K2, intArray (t.map (·.1.2))), (KV, floatArray (t.map (·.2)))]

/-- `d[k] = v` on an insertion-ordered dict -/
def tableInsert (d : Table) (k : Int × Int) (v : Int) : Table :=
  if d.any (fun e => e.1 == k) then d.map (fun e => if e.1 == k then (k, v) else e)
  else d ++ [(k, v)]

/-- `dict(zip(keys, vals))` -/
def tableOfPairs (ps : List ((Int × Int) × Int)) : Table :=
  ps.foldl (fun d p => tableInsert d p.1 p.2) []

/-- `cls(**private_params)`: TypeError on an unexpected or a missing keyword -/
def kwargsOk (fields : List String) (d : Dict) : Bool :=
  d.all (fun e => fields.contains e.1) && fields.all (fun k => (d.lookup k).isSome)

/-- `ThetaClass.from_dicts(private_params, shared_params)` -/
def fromDicts (c : Cls) (priv shared : Dict) : Except Err Sample :=
  match c with
  | .combo =>
    if !kwargsOk comboFields priv then .error .typeError else
    match priv.lookup "W", priv.lookup "W0", priv.lookup "V2", priv.lookup "V1", priv.lookup "V0",
          priv.lookup "alpha", priv.lookup "precision" with
    | some w, some w0, some v2, some v1, some v0, some a, some p => .ok (.combo w w0 v2 v1 v0 a p)
    | _, _, _, _, _, _, _ => .error .typeError
  | .inter =>
    match shared.lookup K1, shared.lookup K2, shared.lookup KV with
    | some k1, some k2, some vs =>
      let table := tableOfPairs ((k1.bits.zip k2.bits).zip vs.bits)
      if !kwargsOk interFields priv then .error .typeError else
      match priv.lookup "W", priv.lookup "V2", priv.lookup "precision" with
      | some w, some v2, some p => .ok (.inter w v2 p table)
      | _, _, _ => .error .typeError
    | _, _, _ => .error .keyError

/-! ### the container -/

structure Holder where
  size : Nat
  thetas : List Sample
deriving DecidableEq, Repr, Inhabited

def Holder.empty (n : Nat) : Holder := ⟨n, []⟩

def Holder.isComplete (h : Holder) : Bool := h.thetas.length == h.size

/-- `add_theta` -/
def addTheta (h : Holder) (t : Sample) : Except Err Holder :=
  if h.thetas.length ≥ h.size then .error .valueError else .ok { h with thetas := h.thetas ++ [t] }

/-- `get_theta(step_index)`; the index is a Python int -/
def getTheta (h : Holder) (i : Int) : Except Err Sample :=
  if i > (h.thetas.length : Int) - 1 ∨ i < 0 then .error .valueError
  else match h.thetas[i.toNat]? with
    | some t => .ok t
    | none => .error .indexError

/-- REGRESSION definition (seeded change S7-C10, not the code): `get_theta` with Python list
indexing -- only `step_index < -len` is refused on the negative side, `-len .. -1` are served from
the end -/
def getThetaOld (h : Holder) (i : Int) : Except Err Sample :=
  if i > (h.thetas.length : Int) - 1 ∨ i < -(h.thetas.length : Int) then .error .valueError
  else match h.thetas[(if i < 0 then i + h.thetas.length else i).toNat]? with
    | some t => .ok t
    | none => .error .indexError

/-- `combine` (both operands are plain `ThetaHolder`s) -/
def combine (a b : Holder) : Holder := ⟨a.size + b.size, a.thetas ++ b.thetas⟩

/-- `ThetaHolder.concat` -/
def concat : List Holder → Except Err Holder
  | [] => .error .valueError
  | [h] => .ok h
  | h :: rest => .ok (rest.foldl combine h)

/-! ### a collection filled by one model instance (sampling.py:56-62) -/

/-- one model instance, as far as the samples it emits are concerned: the sample class, and --
for the interaction model -- the insertions that built its `single_effect_lookup` dict so far
(`_add_observations` does `self.single_effect_lookup.update(...)`; `get_model_state` hands the
dict itself to every sample, so all samples of one instance carry the instance's CURRENT table) -/
structure Inst where
  cls : Cls
  inserts : List ((Int × Int) × Int)

def Inst.table (m : Inst) : Table :=
  match m.cls with
  | .combo => []
  | .inter => tableOfPairs m.inserts

/-- `t` is a `get_model_state()` of `m` -/
def Inst.emits (m : Inst) (t : Sample) : Prop := t.cls = m.cls ∧ t.table = m.table

/-- `for …: results.add_theta(model.get_model_state())` on a new `ThetaHolder(n_thetas=N)` -/
def fill (N : Nat) (ts : List Sample) : Except Err Holder := ts.foldlM addTheta (Holder.empty N)

/-! ### persistence -/

structure Group where
  attrs : Dict
  dsets : Dict
deriving DecidableEq, Repr, Inhabited

structure H5 where
  nThetas : Nat
  cls : Cls
  shared : Group
  /-- children of `private_params`: (group name, group) -/
  priv : List (String × Group)
deriving DecidableEq, Repr, Inhabited

def Val.isArray (v : Val) : Bool := v.shape.isSome

/-- `isinstance(val, ArrayType)` -> dataset, else attribute -/
def splitDict (d : Dict) : Group :=
  ⟨d.filter (fun e => !e.2.isArray), d.filter (fun e => e.2.isArray)⟩

/-- h5py refuses `create_dataset(..., compression="gzip")` for a 0-d array (TypeError) -/
def Val.zeroDim (v : Val) : Bool := v.shape == some []

def dictStorable (d : Dict) : Bool := d.all (fun e => !e.2.zeroDim)

/-- `save_h5`: shared parameters and class of the FIRST sample only; one group per sample keyed by
`str(i)` -/
def save (h : Holder) : Except Err H5 :=
  match h.thetas with
  | [] => .error .valueError
  | t0 :: _ =>
    if !(dictStorable t0.sharedDict && h.thetas.all (fun t => dictStorable t.privDict)) then
      .error .typeError
    else
      .ok { nThetas := h.size, cls := t0.cls, shared := splitDict t0.sharedDict,
            priv := h.thetas.zipIdx.map (fun p => (toString p.2, splitDict p.1.privDict)) }

/-- `int(key)` of a group name (ValueError when it is not a decimal number) -/
def intKey {α : Type} (e : String × α) : Except Err (Nat × α) :=
  match e.1.toNat? with
  | some n => .ok (n, e.2)
  | none => .error .valueError

/-- `sorted(list(keys), key=int)` followed by `private_grp[key]`: every key is converted first
(ValueError otherwise), then a stable sort on the integer; returns the groups in sorted order -/
def sortByInt {α : Type} (l : List (String × α)) : Except Err (List α) := do
  let keyed ← l.mapM intKey
  .ok ((keyed.mergeSort (fun a b => decide (a.1 ≤ b.1))).map (·.2))

/-- REGRESSION definition (seeded change S5-C10, not the code): `sorted(list(keys))` -- the group
names ordered as STRINGS (character by character), which is also the order in which HDF5 lists them -/
def strLe (a b : String) : Bool := !(List.lt b.toList a.toList)

def insertStr {α : Type} (e : String × α) : List (String × α) → List (String × α)
  | [] => [e]
  | x :: xs => if strLe e.1 x.1 then e :: x :: xs else x :: insertStr e xs

def sortByStringOld {α : Type} (l : List (String × α)) : List α :=
  (l.foldr insertStr []).map (·.2)

/-- the dict `load_h5` rebuilds for one group: attributes first, then datasets -/
def Group.dict (g : Group) : Dict := g.attrs ++ g.dsets

/-- one iteration of the loop of `load_h5`: `from_dicts`, then `add_theta` -/
def loadStep (c : Cls) (shared : Dict) (h : Holder) (g : Group) : Except Err Holder := do
  let t ← fromDicts c g.dict shared
  addTheta h t

/-- `load_h5` -/
def load (f : H5) : Except Err Holder := do
  let sorted ← sortByInt f.priv
  sorted.foldlM (loadStep f.cls f.shared.dict) (Holder.empty f.nThetas)

/-! ### evaluate_model -/

/-- `for i, t in enumerate(theta_holders): chain_ids.extend([i] * t.n_thetas)` -/
def chainIds (hs : List Holder) : List Nat :=
  hs.zipIdx.flatMap (fun p => List.replicate p.1.size p.2)

/-- `predict_viability_all`: one row per `range(thetas.n_thetas)` through `get_theta` -/
def columns (h : Holder) : Except Err (List Sample) :=
  (List.range h.size).mapM (fun (j : Nat) => getTheta h (Int.ofNat j))

/-- the labelled columns of the `ModelEvaluation` that `evaluate_model.main` writes, given the
loaded per-file holders in command-line order -/
def evaluate (hs : List Holder) : Except Err (List (Nat × Sample)) := do
  let all ← concat hs
  let ids := chainIds hs
  let cols ← columns all
  if ids.length ≠ cols.length then .error .valueError else .ok (ids.zip cols)

/-- `evaluate_model.main` from the files -/
def evaluateFiles (fs : List H5) : Except Err (List (Nat × Sample)) := do
  let hs ← fs.mapM load
  evaluate hs

end Batchie.Thetas
