/-
  Driver handlers for C16 (import-free).

    elig <k> <batch plates> <unobserved plates>   -> eligible plate ids (comma separated | -) | err:ValueError
    select <k> <screen plates> <batch ids>        -> eligible plate ids computed by select_next_plate's plumbing | err:ValueError

    selectraw <k> <screen plates> <batch ids as Python ints, -1 placeholders allowed>
                                                  -> eligible plate ids of select_next_plate with the raw id list
    argmin <table id:score;... (storage order, scores as integers)> <allowed ids>
                                                  -> the plate id plate_id_with_minimum_score returns | none
    rounds <k> <screen plates at the start> <finished batches b1/b2/.. (ids comma separated) | -> <batch ids>
                                                  -> eligible plate ids after the finished batches were marked observed (set_observed)

  plates: `;`-separated `id:s1.s2...:o` (unique sample ids of the plate joined by `.`, `_` if none; o = 0/1 observed),
  `-` for the empty list.
-/
import Batchie.Model.Proto
import Batchie.Model.Policy

namespace Batchie.PolicyIO

open Batchie.Proto
open Batchie.Policy

def parsePlate? (s : String) : Option Plate :=
  match s.splitOn ":" with
  | [i, ss, o] => do
    let i ← parseNat? i
    let ss ← if ss == "_" then some [] else (ss.splitOn ".").mapM parseNat?
    let o ← parseBool? o
    some { id := i, samples := ss, observed := o }
  | _ => none

def parsePlates? (s : String) : Option (List Plate) :=
  if s == "-" then some [] else (s.splitOn ";").mapM parsePlate?

def showResult : Except Err (List Plate) → String
  | .ok l => showNatList (l.map (·.id))
  | .error e => showErr e

def handle : List String → Option String
  | ["elig", k, b, u] => do
    let k ← parseNat? k
    let b ← parsePlates? b
    let u ← parsePlates? u
    some (showResult (filterEligible k b u))
  | ["select", k, scr, ids] => do
    let k ← parseNat? k
    let scr ← parsePlates? scr
    let ids ← parseNatList? ids
    some (showResult (eligibleOf k scr ids))
  | ["selectraw", k, scr, ids] => do
    let k ← parseNat? k
    let scr ← parsePlates? scr
    let ids ← parseIntList? ids
    some (showResult (selectNext k scr ids))
  | ["argmin", table, allowed] => do
    let rows ← if table == "-" then some [] else (table.splitOn ";").mapM (fun t => match t.splitOn ":" with
      | [a, b] => do
        let a ← parseNat? a
        let b ← parseInt? b
        some (a, b)
      | _ => none)
    let allowed ← parseNatList? allowed
    match argminAllowed rows allowed with
    | some i => some (toString i)
    | none => some "none"
  | ["rounds", k, scr, done, ids] => do
    let k ← parseNat? k
    let scr ← parsePlates? scr
    let done ← if done == "-" then some [] else (done.splitOn "/").mapM parseNatList?
    let ids ← parseNatList? ids
    some (showResult (eligibleOf k (afterRounds scr done) ids))
  | _ => none

end Batchie.PolicyIO
