/-
  Driver side of the composed scoring pipeline at `α := Float`.

  pipe.dbal <kDist> <kScore> <batch> <maxChunk> <draws> <allowed> <thetas> <raw screen…>
      draws    per score chunk (joined by `|`) the kernel calls (joined by `/`), each the comma separated indices that
               `rng.choice` returned (`-` = no call in that chunk)
      allowed  `none` or the id list a filtering policy keeps
      thetas   `W|W0|V2|V1|V0|alpha|precision` per sample, joined by `/` (floats as IEEE bit patterns)
    → `ok dense=<matrix bits>#scores=<pid:bits,…;…>#combined=<ids>#sel=<id | -1>`   or the error
-/
import Batchie.Model.ScorePipeline
import Batchie.Model.DbalIO
import Batchie.Model.ScoresIO

namespace Batchie.ScorePipelineIO
open Batchie.Proto Batchie.Screen Batchie.ScreenIO Batchie.Scores Batchie.ScorePipeline

/-- exact rational value of a finite binary64, `−∞`; `none` for NaN and `+∞` -/
def floatToScore (x : Float) : Option Score :=
  if x.isNaN then none
  else
    let b : Nat := x.toBits.toNat
    let neg := (b / 2 ^ 63) % 2 == 1
    let e : Nat := (b / 2 ^ 52) % 2048
    let f : Nat := b % 2 ^ 52
    if e == 2047 then (if neg then some .negInf else none)
    else
      let m : Nat := if e == 0 then f else f + 2 ^ 52
      let ex : Int := (if e == 0 then 1 else (e : Int)) - 1075
      let mag : Rat := if ex ≥ 0 then ((m * 2 ^ ex.toNat : Nat) : Rat) else mkRat (m : Int) (2 ^ (-ex).toNat)
      some (.fin (if neg then -mag else mag))

def numFloat : Num Float := { nan := Float.isNaN, cast := Nat.toFloat, toScore := floatToScore }

def parseDraws? (s : String) : Option (List (List (List Nat))) :=
  (s.splitOn "|").mapM (fun c => if c == "-" then some [] else (c.splitOn "/").mapM parseNatList?)

def showRaw (r : List (Int × Float)) : String :=
  if r.isEmpty then "-" else ",".intercalate (r.map (fun kv => s!"{kv.1}:{Predict.IO.showF kv.2}"))

def handle : List String → Option String
  | "pipe.dbal" :: kd :: ks :: batch :: mc :: draws :: allowed :: thetas :: rest => do
      let kd ← parseNat? kd
      let ks ← parseNat? ks
      let batch ← parseIntList? batch
      let mc ← parseNat? mc
      let draws ← parseDraws? draws
      let pol ← ScoresIO.parseAllowed? allowed
      let thetas ← Predict.IO.parseList? Predict.IO.parseTheta? thetas
      let r ← parseRaw? rest
      match mk? r with
      | .error e => pure ("parent-" ++ showErr e)
      | .ok s =>
        match run numFloat s thetas kd ks batch mc (fun idx g => (draws.getD idx []).getD g []) pol with
        | .error e => pure (showErr e)
        | .ok res =>
          pure ("ok dense=" ++ Predict.IO.showMat res.dense ++ "#scores=" ++ ";".intercalate (res.raw.map showRaw)
            ++ "#combined=" ++ showIntList res.combined.plateIds
            ++ "#sel=" ++ (match res.selected with | some p => toString p | none => "-1"))
  | _ => none

end Batchie.ScorePipelineIO
