/-
  Driver operations for C14: evaluate an expression tree of view operations (`Model/ViewExpr.lean`) on a screen.

  `vexpr <rpn> <raw screen…>`     value of the tree: selection vector and every per-experiment attribute of the view
  `vscreen <rpn> <raw screen…>`   `to_screen()` of the value: the new screen and its rows
  `vderived <rpn> <raw screen…>`  the derived `ScreenBase` properties of the value (size, arity, plates, unique ids, counts, is_observed,
                                  space sizes), `Plate.plate_id` (or its ValueError) and whether `single_treatment_effects` is None / an array / raises
  `vexprm <mask> <rpn> <raw…>` / `vscreenm <mask> <rpn> <raw…>`  the same on a parent whose observation mask is `<mask>` (possibly NOT plate-uniform)
  `uniq <col> <col> …`             `select_unique_zipped_numpy_arrays([col, col, …])`: the first-occurrence mask of the zipped rows
                                  (`err:ValueError` for no column or columns of different lengths)

  `<rpn>`: tokens joined by `+` (`-` = no token):  `S<mask>` screen.subset, `F<mask>` subset of a foreign screen,
  `o` observed, `u` unobserved, `p<id>` plate, `s<mask>` nested subset of the top, `i` invert, `c` combine (second.combine(top)),
  `q` unique filter, `n<k>` concat of the top k (in push order).
-/
import Batchie.Model.ViewExpr
import Batchie.Model.ScreenIO
import Batchie.Model.ScreenApi

namespace Batchie.ViewsIO
open Batchie.Proto Batchie.Screen Batchie.Views Batchie.ScreenIO Batchie.ScreenApi

def parseRpn : List String → List ViewExpr → Option ViewExpr
  | [], [e] => some e
  | [], _ => none
  | op :: ops, st =>
    let c := op.take 1 |>.toString
    let arg := op.drop 1 |>.toString
    match c, st with
    | "S", st => (parseSel? arg).bind fun m => parseRpn ops (.base 0 m :: st)
    | "F", st => (parseSel? arg).bind fun m => parseRpn ops (.base 1 m :: st)
    | "o", st => parseRpn ops (.observed :: st)
    | "u", st => parseRpn ops (.unobserved :: st)
    | "p", st => (parseInt? arg).bind fun p => parseRpn ops (.plate p :: st)
    | "s", e :: st => (parseSel? arg).bind fun m => parseRpn ops (.sub e m :: st)
    | "i", e :: st => parseRpn ops (.inv e :: st)
    | "c", a :: b :: st => parseRpn ops (.comb b a :: st)
    | "q", e :: st => parseRpn ops (.uniq e :: st)
    | "n", st => (parseNat? arg).bind fun k =>
        if k > st.length then none else parseRpn ops (.cat (st.take k).reverse :: st.drop k)
    | _, _ => none

def showViewRows (r : Rows) : String :=
  "tn=" ++ showList (showList showName ",") ";" r.tnames ++ "|td=" ++ showList (showList showDose ",") ";" r.tdoses
    ++ "|sn=" ++ showList showName "," r.snames ++ "|pn=" ++ showList showName "," r.pnames
    ++ "|obs=" ++ showList toString "," r.obs ++ "|mask=" ++ showList showBool "," r.mask
    ++ "|tids=" ++ showList showIds ";" r.tids ++ "|sids=" ++ showIds r.sids ++ "|pids=" ++ showIds r.pids

def showViewDerived (d : Derived) : String :=
  s!"size={d.size}|arity={d.arity}|np={d.nPlates}|up={showIds d.uniquePlateIds}|us={showIds d.uniqueSampleIds}|ut={showIds d.uniqueTreatments}" ++
  s!"|nus={d.nUniqueSamples}|nut={d.nUniqueTreatments}|obs={showBool d.isObserved}|sss={d.sampleSpaceSize}|tss={d.treatmentSpaceSize}"

def handle : List String → Option String
  | "vderived" :: rpn :: rest => do
      let r ← parseRaw? rest
      let e ← parseRpn (if rpn == "-" then [] else rpn.splitOn "+") []
      match mk? r with
      | .error err => pure ("parent-" ++ showErr err)
      | .ok s => match eval s e with
        | .error err => pure (showErr err)
        | .ok v =>
          let pid := match viewPlateId s v.sel with | .ok i => toString i | .error err => showErr err
          let ste := match viewSte s v.sel with | .error err => showErr err | .ok none => "none" | .ok (some _) => "arr"
          pure ("ok " ++ showViewDerived (viewDerived s v.sel) ++ "|pid=" ++ pid ++ "|ste=" ++ ste)
  | "uniq" :: cols => do
      let cs ← cols.mapM parseIntList?
      match selectUnique cs with
      | .error err => pure (showErr err)
      | .ok m => pure ("ok " ++ showList showBool "," m)
  | "vexpr" :: rpn :: rest => do
      let r ← parseRaw? rest
      let e ← parseRpn (if rpn == "-" then [] else rpn.splitOn "+") []
      match mk? r with
      | .error err => pure ("parent-" ++ showErr err)
      | .ok s => match eval s e with
        | .error err => pure (showErr err)
        | .ok v => pure ("ok sel=" ++ showList showBool "," v.sel ++ "|" ++ showViewRows (viewRows s v.sel))
  | "vscreen" :: rpn :: rest => do
      let r ← parseRaw? rest
      let e ← parseRpn (if rpn == "-" then [] else rpn.splitOn "+") []
      match mk? r with
      | .error err => pure ("parent-" ++ showErr err)
      | .ok s => match eval s e with
        | .error err => pure ("view-" ++ showErr err)
        | .ok v => match s.viewToScreen v with
          | .error err => pure (showErr err)
          | .ok t => pure (showScreen t ++ "|" ++ showRows t)
  -- parents with PARTLY observed plates (reachable through `set_observed` / `Plate.merge`, refused by `Screen(...)`): the raw screen is
  -- given with a plate-uniform placeholder mask, the real mask separately; ids and mappings do not depend on the mask
  | "vexprm" :: m :: rpn :: rest => do
      let mask ← parseSel? m
      let r ← parseRaw? rest
      let e ← parseRpn (if rpn == "-" then [] else rpn.splitOn "+") []
      match mk? r with
      | .error err => pure ("parent-" ++ showErr err)
      | .ok s0 =>
        let s : Screen := { s0 with mask := mask }
        match eval s e with
        | .error err => pure (showErr err)
        | .ok v => pure ("ok sel=" ++ showList showBool "," v.sel ++ "|" ++ showViewRows (viewRows s v.sel))
  | "vscreenm" :: m :: rpn :: rest => do
      let mask ← parseSel? m
      let r ← parseRaw? rest
      let e ← parseRpn (if rpn == "-" then [] else rpn.splitOn "+") []
      match mk? r with
      | .error err => pure ("parent-" ++ showErr err)
      | .ok s0 =>
        let s : Screen := { s0 with mask := mask }
        match eval s e with
        | .error err => pure ("view-" ++ showErr err)
        | .ok v => match s.viewToScreen v with
          | .error err => pure (showErr err)
          | .ok t => pure (showScreen t ++ "|" ++ showRows t)
  | _ => none

end Batchie.ViewsIO
