/-
  Line-protocol encoding of screens for the driver.

  name      code points joined by `.`; the empty name is `e`
  names     names joined by `,`; the empty list is `-`
  table     rows joined by `;`
  dose      `num/den`
  tmap      entries `name:num/den:id` joined by `,` ; `none` when absent
  smap      entries `name:id` joined by `,` ; `none` when absent
  obs       decimal 64-bit patterns joined by `,` ; `none` when absent
  mask      `0`/`1` joined by `,` ; `none` when absent
-/
import Batchie.Model.Screen

namespace Batchie.ScreenIO
open Batchie.Proto Batchie.Screen

def parseName? (s : String) : Option Name :=
  if s == "e" then some [] else (s.splitOn ".").mapM parseNat?

def showName (n : Name) : String := if n.isEmpty then "e" else ".".intercalate (n.map toString)

def parseList? {α : Type} (f : String → Option α) (sep : String) (s : String) : Option (List α) :=
  if s == "-" then some [] else (s.splitOn sep).mapM f

def showList {α : Type} (f : α → String) (sep : String) (l : List α) : String :=
  if l.isEmpty then "-" else sep.intercalate (l.map f)

def parseDose? (s : String) : Option Dose :=
  match s.splitOn "/" with
  | [a, b] => do
    let n ← parseInt? a
    let d ← parseNat? b
    if d == 0 then none else some (mkRat n d)
  | _ => none

def showDose (d : Dose) : String := s!"{d.num}/{d.den}"

def parseOpt? {α : Type} (f : String → Option α) (s : String) : Option (Option α) :=
  if s == "none" then some none else (f s).map some

def parseTEntry? (s : String) : Option (Name × Dose × Int) :=
  match s.splitOn ":" with
  | [a, b, c] => do
    let n ← parseName? a; let d ← parseDose? b; let i ← parseInt? c
    pure (n, d, i)
  | _ => none

def parseSEntry? (s : String) : Option (Name × Int) :=
  match s.splitOn ":" with
  | [a, c] => do
    let n ← parseName? a; let i ← parseInt? c
    pure (n, i)
  | _ => none

def showTMap (m : TMap) : String := showList (fun e => s!"{showName e.1}:{showDose e.2.1}:{e.2.2}") "," m
def showSMap (m : SMap) : String := showList (fun e => s!"{showName e.1}:{e.2}") "," m

/-- `<ctrl> <arity> <tnames> <tdoses> <snames> <pnames> <obs> <mask> <tmap> <smap>` -/
def parseRaw? : List String → Option Raw
  | [ctrl, arity, tn, td, sn, pn, obs, mask, tmap, smap] => do
    let ctrl ← parseName? ctrl
    let arity ← parseNat? arity
    let tn ← parseList? (parseList? parseName? ",") ";" tn
    let td ← parseList? (parseList? parseDose? ",") ";" td
    let sn ← parseList? parseName? "," sn
    let pn ← parseList? parseName? "," pn
    let obs ← parseOpt? (parseList? parseNat? ",") obs
    let mask ← parseOpt? (parseList? parseBool? ",") mask
    let tmap ← parseOpt? (parseList? parseTEntry? ",") tmap
    let smap ← parseOpt? (parseList? parseSEntry? ",") smap
    pure { ctrl, arity, tnames := tn, tdoses := td, snames := sn, pnames := pn, obs, mask, tmap, smap }
  | _ => none

def showIds (l : List Int) : String := showList toString "," l

def showScreen (s : Screen) : String :=
  "ok tids=" ++ showList showIds ";" s.tids ++ "|sids=" ++ showIds s.sids ++ "|pids=" ++ showIds s.pids
    ++ "|tmap=" ++ showTMap s.tmap ++ "|smap=" ++ showSMap s.smap ++ "|pmap=" ++ showSMap s.pmap
    ++ "|obs=" ++ showList toString "," s.obs ++ "|mask=" ++ showList showBool "," s.mask

/-- rows of a screen, for row-level comparisons -/
def showRows (s : Screen) : String :=
  "tn=" ++ showList (showList showName ",") ";" s.tnames ++ "|td=" ++ showList (showList showDose ",") ";" s.tdoses
    ++ "|sn=" ++ showList showName "," s.snames ++ "|pn=" ++ showList showName "," s.pnames

def showResult : Except Err Screen → String
  | .error e => showErr e
  | .ok s => showScreen s

def showView : Except Err View → String
  | .error e => showErr e
  | .ok v => "ok " ++ showList showBool "," v.sel

def parseSel? (s : String) : Option (List Bool) := parseList? parseBool? "," s

/-- a tree of view operations, in reverse polish tokens separated by `,`:
    `S<mask>` subset of the screen, `s<mask>` subset of the top view, `i` invert, `c` combine top two,
    `o` observed view, `u` unobserved view, `p<id>` plate, `q` unique filter, `n<k>` concat top k,
    `F<mask>` subset of a *foreign* screen (parent id 1) -/
def evalViewOps (s : Screen) : List String → List View → Except Err (List View)
  | [], st => .ok st
  | op :: ops, st => do
    let c := op.take 1 |>.toString
    let arg := op.drop 1 |>.toString
    let st' ← match c, st with
      | "S", st => match parseSel? arg with
          | some m => do let v ← s.subset 0 m; pure (v :: st)
          | none => .error .other
      | "F", st => match parseSel? arg with
          | some m => do let v ← s.subset 1 m; pure (v :: st)
          | none => .error .other
      | "s", v :: st => match parseSel? arg with
          | some m => do let w ← v.subset m; pure (w :: v :: st)
          | none => .error .other
      | "i", v :: st => pure (v.invert :: st)
      | "c", a :: b :: st => do let w ← b.combine a; pure (w :: st)
      | "o", st => match s.subsetObserved 0 with
          | some v => pure (v :: st)
          | none => .error .keyError
      | "u", st => match s.subsetUnobserved 0 with
          | some v => pure (v :: st)
          | none => .error .keyError
      | "p", st => match parseInt? arg with
          | some p => pure (s.getPlate 0 p :: st)
          | none => .error .other
      | "q", v :: st => do let w ← s.uniqueFilter v; pure (w :: st)
      | "n", st => match parseNat? arg with
          | some k => do
              if k > st.length then .error .other
              let w ← View.concat (st.take k).reverse
              pure (w :: st.drop k)
          | none => .error .other
      | _, _ => .error .other
    evalViewOps s ops st'

def handle : List String → Option String
  | "mkscreen" :: rest => do
      let r ← parseRaw? rest
      pure (showResult (mk? r))
  | "toscreen" :: sel :: rest => do
      let r ← parseRaw? rest
      let sel ← parseSel? sel
      match mk? r with
      | .error e => pure ("parent-" ++ showErr e)
      | .ok s => match s.subset 0 sel with
        | .error e => pure (showErr e)
        | .ok v => match s.viewToScreen v with
          | .error e => pure (showErr e)
          | .ok t => pure (showScreen t ++ "|" ++ showRows t)
  | "saveload" :: cycles :: rest => do
      let r ← parseRaw? rest
      let k ← parseNat? cycles
      match mk? r with
      | .error e => pure ("parent-" ++ showErr e)
      | .ok s =>
        let rec go : Nat → Screen → Except Err Screen
          | 0, s => .ok s
          | n + 1, s => do let t ← load s.save; go n t
        pure (showResult (go k s))
  | "views" :: ops :: rest => do
      let r ← parseRaw? rest
      match mk? r with
      | .error e => pure ("parent-" ++ showErr e)
      | .ok s =>
        let ops := if ops == "-" then [] else ops.splitOn "+"
        match evalViewOps s ops [] with
        | .error e => pure (showErr e)
        | .ok st => pure ("ok " ++ showList (fun v => showList showBool "," v.sel) ";" st)
  | _ => none

end Batchie.ScreenIO
