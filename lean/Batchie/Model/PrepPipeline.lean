/-
  `batchie.cli.prepare_retrospective_simulation.main()` as a composition of the preparation model (C11 / C13 extension).

      screen   = Screen.load_h5(--data)                                   (the argument `s`; loading is C02's business)
      filtered = filter_dataset_to_treatments_that_appear_in_at_least_one_combo(screen)
      rng      = get_prng_from_seed_argument(args)                        (ONE generator, consumed in the order below)
      init     = initial_plate_generator.generate_and_unmask_initial_plate(filtered, rng)   if --initial-plate-generator
                 mask_screen(filtered)                                                      otherwise
      gen      = plate_generator.generate_plates(init, rng)               if --plate-generator, else `init`
      revealed = reveal_plates(gen, [rng.choice(unobserved plates of gen).plate_id])        only WITHOUT an initial generator
      smoothed = plate_smoother.smooth_plates(revealed, rng)              if --plate-smoother (then `size / n_plates` is logged:
                                                                          ZeroDivisionError on an empty result), else `revealed`
      training, test = create_plate_balanced_holdout_set_among_masked_plates(smoothed, --holdout-fraction, rng)

  The choice log is the configuration: the initial generator's recorded choices, the `Generator` / `Smoother` values of
  `Model/PrepShipped.lean` (each carrying parameters and its own recorded log), the id of the plate `rng.choice` returned,
  and the hold-out choices -- in the order in which the single generator object is consumed (cover, generator, first
  plate, smoother, hold-out).  `mask_screen` / `reveal_plates` are the shared `Model/Retro.lean` (C03 / C12).
  Import-free and executable.
-/
import Batchie.Model.PrepShipped
import Batchie.Model.Retro

namespace Batchie.Prep
open Batchie.Proto Batchie.Screen

structure PrepConfig where
  /-- `SparseCoverPlateGenerator(reveal_single_treatment_experiments)` and the rows its `rng.choice` calls returned -/
  initial : Option (Bool × List Nat)
  generator : Option Generator
  /-- `plate_id` of the plate `rng.choice([... unobserved plates ...])` returned (consumed only without an initial generator) -/
  firstPlate : Int
  smoother : Option Smoother
  holdoutLog : List (List Nat)

/-- every intermediate screen of the run -/
structure Prepared where
  filtered : Screen
  initialized : Screen
  generated : Screen
  revealed : Screen
  smoothed : Screen
  training : Screen
  test : Screen

/-- `[plate for plate in screen.plates if not plate.is_observed]`, as plate ids -/
def unobservedPlateIds (s : Screen) : List Int :=
  (uniqueSorted s.pids).filter (fun p => !plateObserved ((rowsOf s).map (·.mask)) (idxOfId s.pids p))

def initialStage : Option (Bool × List Nat) → Screen → Except Err Screen
  | some (reveal, log), f => sparseCover reveal log f
  | none, f => Retro.maskScreen f

def generatorStage : Option Generator → Screen → Except Err Screen
  | some g, i => g.wrapped i
  | none, i => .ok i

/-- only without an initial generator: `rng.choice` of an empty list raises ValueError; the recorded plate must be one of
    the candidates (generator contract) -/
def firstPlateStage (initial : Option (Bool × List Nat)) (first : Int) (g : Screen) : Except Err Screen :=
  match initial with
  | some _ => .ok g
  | none =>
    let cands := unobservedPlateIds g
    if cands.isEmpty then .error .valueError
    else if !cands.contains first then .error .other
    else Retro.revealPlates g [first]

def smoothStage : Option Smoother → Screen → Except Err Screen
  | none, r => .ok r
  | some sm, r => do
    let t ← sm.wrapped r
    if t.pids.isEmpty then .error .zeroDivision else pure t

def prepare (kf : Nat → Nat) (cfg : PrepConfig) (s : Screen) : Except Err Prepared := do
  let f ← comboFilter s
  let i ← initialStage cfg.initial f
  let g ← generatorStage cfg.generator i
  let r ← firstPlateStage cfg.initial cfg.firstPlate g
  let sm ← smoothStage cfg.smoother r
  let (tr, te) ← holdoutBalanced kf cfg.holdoutLog sm
  pure { filtered := f, initialized := i, generated := g, revealed := r, smoothed := sm, training := tr, test := te }

end Batchie.Prep
