/-
  Driver operations for the preparation model (`Model/Prep.lean`), properties C11 / C13.

  Every line ends with the 10 tokens of a raw screen (`ScreenIO.parseRaw?`).  Choice logs:
    nat list        `a,b,c`          (`-` or `_` = empty)
    list of lists   inner lists joined by `;`, empty inner list `_`, empty outer list `-`
    names           name tokens joined by `,`
  Answers: `ok <rows>|obs=..|mask=..|pids=..`, or `err:<Class>`; `parent-err:<Class>` when the input screen itself is rejected.
  Hold-outs answer `ok <training>#<holdout>` with ids and mappings of both halves.

  The hold-out fraction arrives as the IEEE bit pattern; `k_p = ceil(fl(size_p × fraction))` is computed here at `Float`
  exactly as `math.ceil(plate.size * fraction)`.
-/
import Batchie.Model.Prep
import Batchie.Model.ScreenIO

namespace Batchie.PrepIO
open Batchie.Proto Batchie.Screen Batchie.ScreenIO Batchie.Prep

def parseNatLL? (s : String) : Option (List (List Nat)) :=
  if s == "-" then some [] else (s.splitOn ";").mapM parseNatList?

def parseIntLL? (s : String) : Option (List (List Int)) :=
  if s == "-" then some [] else (s.splitOn ";").mapM parseIntList?

def parseNames? (s : String) : Option (List Name) :=
  if s == "-" || s == "_" then some [] else (s.splitOn ",").mapM parseName?

def parseNamesLL? (s : String) : Option (List (List Name)) :=
  if s == "-" then some [] else (s.splitOn ";").mapM parseNames?

def showOut (t : Screen) : String :=
  "ok " ++ showRows t ++ "|obs=" ++ showList toString "," t.obs ++ "|mask=" ++ showList showBool "," t.mask
    ++ "|pids=" ++ showIds t.pids

def showRes : Except Err Screen → String
  | .error e => showErr e
  | .ok t => showOut t

def showPair : Except Err (Screen × Screen) → String
  | .error e => showErr e
  | .ok (a, b) => showScreen a ++ "|" ++ showRows a ++ "#" ++ (showScreen b).drop 3 ++ "|" ++ showRows b

def withScreen (rest : List String) (f : Screen → String) : Option String := do
  let r ← parseRaw? rest
  match mk? r with
  | .error e => pure ("parent-" ++ showErr e)
  | .ok s => pure (f s)

def floatOfBits? (s : String) : Option Float := do
  let n ← parseNat? s
  pure (Float.ofBits n.toUInt64)

/-- `math.ceil(size * fraction)` -/
def ceilMul (size : Nat) (f : Float) : Nat := (Float.ceil (size.toFloat * f)).toUInt64.toNat

def handle : List String → Option String
  | "gen-perm" :: force :: perm :: rest => do
      let force ← parseNames? force
      let perm ← parseNames? perm
      withScreen rest (fun s => showRes (wrap (genPermutation force perm) s))
  | "gen-seg" :: mx :: perms :: rest => do
      let mx ← parseInt? mx
      let perms ← parseNatLL? perms
      withScreen rest (fun s => showRes (wrap (genSegregating mx perms) s))
  | "gen-seg-old" :: mx :: perms :: rest => do
      let mx ← parseInt? mx
      let perms ← parseNatLL? perms
      withScreen rest (fun s => showRes (wrap (genSegregatingOld mx perms) s))
  | "gen-pair" :: sub :: anc :: anchor :: perms :: assign :: rest => do
      let sub ← parseInt? sub
      let anc ← parseInt? anc
      let anchor ← parseIntList? anchor
      let perms ← parseIntLL? perms
      let assign ← parseNamesLL? assign
      withScreen rest (fun s => showRes (wrap (genPairwise sub anc anchor perms assign) s))
  | "sm-fixed" :: k :: choices :: rest => do
      let k ← parseInt? k
      let choices ← parseNatLL? choices
      withScreen rest (fun s => showRes (wrap (fixedSize k choices) s))
  | "sm-opt" :: choices :: rest => do
      let choices ← parseNatLL? choices
      withScreen rest (fun s => showRes (wrap (optimalSizeSmoother choices) s))
  | "sm-nplate" :: k :: rest => do
      let k ← parseInt? k
      withScreen rest (fun s => showRes (wrap (nPlate k) s))
  | "sm-nplate-old" :: k :: rest => do
      let k ← parseInt? k
      withScreen rest (fun s => showRes (wrap (nPlateOld k) s))
  | "sm-mergemin" :: k :: pops :: rest => do
      let k ← parseInt? k
      let pops ← parseNatList? pops
      withScreen rest (fun s => showRes (wrap (mergeMin k pops) s))
  | "sm-topbottom" :: k :: rest => do
      let k ← parseInt? k
      withScreen rest (fun s => showRes (wrap (mergeTopBottom k) s))
  | "sm-ensemble" :: a :: b :: c :: pops :: choices :: rest => do
      let a ← parseInt? a
      let b ← parseInt? b
      let c ← parseInt? c
      let pops ← parseNatList? pops
      let choices ← parseNatLL? choices
      withScreen rest (fun s => showRes (wrap (ensemble a b c pops choices) s))
  | "cover" :: reveal :: log :: rest => do
      let reveal ← parseBool? reveal
      let log ← parseNatList? log
      withScreen rest (fun s => showRes (sparseCover reveal log s))
  | "combofilter" :: rest =>
      withScreen rest (fun s => showRes (comboFilter s))
  | "ho-bal" :: frac :: choices :: rest => do
      let f ← floatOfBits? frac
      let choices ← parseNatLL? choices
      withScreen rest (fun s =>
        if f < 0 || f > 1 then showErr .valueError
        else showPair (holdoutBalanced (fun n => ceilMul n f) choices s))
  | "ho-rand" :: frac :: choice :: rest => do
      let f ← floatOfBits? frac
      let choice ← parseNatList? choice
      withScreen rest (fun s =>
        if f < 0 || f > 1 then showErr .valueError
        else showPair (holdoutRandom (fun n => ceilMul n f) choice s))
  | _ => none

end Batchie.PrepIO
