/-
  Hand model of the evaluation metrics and synergy values (C20):
    `models/main.py:15-142`   ModelEvaluation: mse, mse_variance, inter_chain_mse_variance, mean_predictions
    `models/main.py:272-342`  combination_count, generate_full_combinatoric_space, correlation_matrix
    `data.py:148-228`         create_single_treatment_effect_map / _array
    `synergy.py`              calculate_synergy
    `retrospective.py:751-764` calculate_mse

  Import-free (core Lean + the C09 prediction model), executable, generic over the numeric type.
  Every function appears twice: as the code computes it (numpy's flatten / axis / mask semantics made
  explicit on lists of rows) and, suffixed `Def`, as the loop-by-loop definition the property states.
  `Props/C20.lean` proves them equal over every field.
-/
import Batchie.Model.Proto
import Batchie.Model.Predict
import Batchie.Model.Persist
import Batchie.Model.ScreenIO

namespace Batchie.Metrics
open Batchie.Proto
open Batchie.Predict (sumL OfCount maskFilter)

/-! ### numpy reductions -/

section reductions
variable {α : Type} [Add α] [Sub α] [Mul α] [Div α] [OfNat α 0] [OfCount α]

def sq (x : α) : α := x * x

/-- `np.mean` of a 1-d array -/
def mean (l : List α) : α := sumL l / OfCount.ofCount l.length

/-- `.mean()` of a 2-d array: the mean of the flattened array -/
def meanAll (m : List (List α)) : α := mean m.flatten

/-- `.mean(axis=1)` of a 2-d array given as a list of rows: one value per ROW -/
def meanAxis1 (m : List (List α)) : List α := m.map mean

/-- column `k` of a list of rows -/
def column (m : List (List α)) (k : Nat) : List α := m.map (fun r => r.getD k 0)

/-- `.mean(axis=0)`: one value per COLUMN (width taken from the first row) -/
def meanAxis0 (m : List (List α)) : List α :=
  match m with
  | [] => []
  | r :: _ => (List.range r.length).map (fun k => mean (column m k))

/-- `np.var` (ddof = 0): `mean(abs(x - x.mean()) ** 2)` -/
def npVar (l : List α) : α :=
  let mu := mean l
  mean (l.map (fun x => sq (x - mu)))

end reductions

/-! ### `ModelEvaluation` -/

/-- `np.unique` of an integer array: sorted, duplicates removed -/
def uniqueSorted (ids : List Int) : List Int := (ids.eraseDups).mergeSort (fun a b => decide (a ≤ b))

section evaluation
variable {α : Type} [Add α] [Sub α] [Mul α] [Div α] [OfNat α 0] [OfCount α]

/-- `(self.predictions - self.observations[:, None]) ** 2`; predictions has one ROW per experiment and
    one column per posterior sample -/
def sqErr (preds : List (List α)) (obs : List α) : List (List α) :=
  List.zipWith (fun row o => row.map (fun p => sq (p - o))) preds obs

def mse (preds : List (List α)) (obs : List α) : α := meanAll (sqErr preds obs)

def mseVariance (preds : List (List α)) (obs : List α) : α := npVar (meanAxis1 (sqErr preds obs))

/-- `predictions[:, selection_vector]` -/
def selectCols (m : List (List α)) (sel : List Bool) : List (List α) := m.map (fun r => maskFilter r sel)

/-- the MSE of the columns of one chain, as the loop body computes it -/
def chainMse (preds : List (List α)) (obs : List α) (chains : List Int) (c : Int) : α :=
  meanAll (sqErr (selectCols preds (chains.map (fun x => x == c))) obs)

def interChainMseVariance (preds : List (List α)) (obs : List α) (chains : List Int) : α :=
  npVar ((uniqueSorted chains).map (chainMse preds obs chains))

def meanPredictions (preds : List (List α)) : List α := meanAxis1 preds

/-- the constructor's shape checks (`ValueError`) -/
def evalShapeOk (preds : List (List α)) (obs : List α) (chains : List Int) (nNames : Nat) (K : Nat) : Bool :=
  preds.length == obs.length && nNames == obs.length && chains.length == K && preds.all (fun r => r.length == K)

/-! the definitions: sums over index pairs `(e, k)`, `e < E` experiments, `k < K` posterior samples -/

def entry (m : List (List α)) (e k : Nat) : α := (m.getD e []).getD k 0

def sumRange (n : Nat) (f : Nat → α) : α := sumL ((List.range n).map f)

/-- squared error of experiment `e` under posterior sample `k` -/
def se (preds : List (List α)) (obs : List α) (e k : Nat) : α := sq (entry preds e k - obs.getD e 0)

/-- mean squared error over all (experiment, posterior sample) pairs -/
def mseDef (E K : Nat) (preds : List (List α)) (obs : List α) : α :=
  sumRange E (fun e => sumRange K (fun k => se preds obs e k)) / OfCount.ofCount (E * K)

/-- the MSE of ONE experiment (over the posterior samples) -/
def experimentMse (K : Nat) (preds : List (List α)) (obs : List α) (e : Nat) : α :=
  sumRange K (fun k => se preds obs e k) / OfCount.ofCount K

/-- variance ACROSS EXPERIMENTS of the per-experiment MSE, around the overall MSE -/
def mseVarianceDef (E K : Nat) (preds : List (List α)) (obs : List α) : α :=
  sumRange E (fun e => sq (experimentMse K preds obs e - mseDef E K preds obs)) / OfCount.ofCount E

/-- the posterior samples (column indices) of chain `c` -/
def chainCols (chains : List Int) (c : Int) : List Nat :=
  (List.range chains.length).filter (fun k => chains.getD k 0 == c)

/-- MSE of chain `c`: over all experiments and the chain's own samples -/
def chainMseDef (E : Nat) (preds : List (List α)) (obs : List α) (chains : List Int) (c : Int) : α :=
  sumRange E (fun e => sumL ((chainCols chains c).map (fun k => se preds obs e k)))
    / OfCount.ofCount (E * (chainCols chains c).length)

/-- population variance of a finite family, by index -/
def varDef (xs : List α) : α :=
  let n := xs.length
  let mu := sumRange n (fun i => xs.getD i 0) / OfCount.ofCount n
  sumRange n (fun i => sq (xs.getD i 0 - mu)) / OfCount.ofCount n

def interChainDef (E : Nat) (preds : List (List α)) (obs : List α) (chains : List Int) : α :=
  varDef ((uniqueSorted chains).map (chainMseDef E preds obs chains))

def meanPredictionsDef (E K : Nat) (preds : List (List α)) : List α :=
  (List.range E).map (fun e => sumRange K (fun k => entry preds e k) / OfCount.ofCount K)

/-- `retrospective.calculate_mse`: `np.mean((avg_predictions - observations) ** 2)` -/
def calculateMse (avg obs : List α) : α := mean (List.zipWith (fun p o => sq (p - o)) avg obs)

end evaluation

/-! ### the evaluation file (`ModelEvaluation.save_h5 / load_h5`, `models/main.py:119-142`)

  Three numeric datasets are handed to h5py as they are (float64 / int64: modelled as the identity,
  like every numeric dataset of `Model/Persist.lean`); `sample_names` goes through
  `np.char.encode` -> an `S<w>` table -> `np.char.decode(..., "utf-8")`, i.e. the string-table codec of
  `Model/Persist.lean` (UTF-8, zero padding to the common width, trailing zero bytes stripped on
  reading; an EMPTY table comes back as float64 and `np.char.decode` raises TypeError).  `load_h5`
  passes the four arrays to the constructor, whose shape checks run again. -/

open Batchie.Screen (Name) in
/-- the four arrays of a `ModelEvaluation`; `K` is `predictions.shape[1]` -/
structure EvalRec (α : Type) where
  K : Nat
  preds : List (List α)
  obs : List α
  chains : List Int
  names : List Batchie.Screen.Name

/-- the four datasets of the file -/
structure EvalFile (α : Type) where
  K : Nat
  preds : List (List α)
  obs : List α
  chains : List Int
  names : Batchie.Persist.STable

/-- the constructor's shape checks -/
def EvalRec.shapeOk {α : Type} (r : EvalRec α) : Bool :=
  r.preds.length == r.obs.length && r.names.length == r.obs.length && r.chains.length == r.K
    && r.preds.all (fun row => row.length == r.K)

def saveEval {α : Type} (r : EvalRec α) : EvalFile α :=
  { K := r.K, preds := r.preds, obs := r.obs, chains := r.chains, names := Batchie.Persist.encodeTable r.names }

def loadEval {α : Type} (f : EvalFile α) : Except Err (EvalRec α) := do
  let names ← Batchie.Persist.decodeTable f.names
  let r : EvalRec α := { K := f.K, preds := f.preds, obs := f.obs, chains := f.chains, names := names }
  if r.shapeOk then .ok r else .error .valueError

/-! #### one path, several saves

  `save_h5` opens the path with mode "w": the file is truncated and the four datasets are written
  anew, so what a path holds is the LAST evaluation saved to it.  A path is `Option (EvalFile α)`
  (`none` = no file). -/

def savePath {α : Type} (_old : Option (EvalFile α)) (r : EvalRec α) : Option (EvalFile α) := some (saveEval r)

def savesTo {α : Type} (p : Option (EvalFile α)) (rs : List (EvalRec α)) : Option (EvalFile α) := rs.foldl savePath p

def loadPath {α : Type} (p : Option (EvalFile α)) : Except Err (EvalRec α) :=
  match p with
  | none => .error .other          -- FileNotFoundError
  | some f => loadEval f

/-- do two files have datasets of the same shapes (what `require_dataset` compares)? -/
def EvalFile.sameLayout {α : Type} (f g : EvalFile α) : Bool :=
  f.K == g.K && f.preds.length == g.preds.length && f.obs.length == g.obs.length && f.chains.length == g.chains.length
    && f.names.width == g.names.width && f.names.cells.length == g.names.cells.length

/-- REGRESSION definition (seeded change S7-C20, NOT in /repo): the path is opened in append mode and
    every dataset goes through `require_dataset`, which hands back the EXISTING dataset when shape and
    dtype agree (the new data are not written) and raises -- leaving the old file -- when they do not -/
def savePathKeep {α : Type} (old : Option (EvalFile α)) (r : EvalRec α) : Option (EvalFile α) :=
  match old with
  | none => some (saveEval r)
  | some f => some f

def savesKeep {α : Type} (p : Option (EvalFile α)) (rs : List (EvalRec α)) : Option (EvalFile α) := rs.foldl savePathKeep p

/-! ### single-agent effects (`data.py:148-228`) -/

/-- `np.sort(row)[-1]` of a non-empty row -/
def rowMax : List Int → Int
  | [] => 0
  | [x] => x
  | x :: xs => max x (rowMax xs)

/-- "all but one treatment ids are control": `np.sum(row == -1) == arity - 1` -/
def isSingle (arity : Nat) (row : List Int) : Bool := row.count (-1) == arity - 1

section effects
variable {α : Type} [Add α] [Sub α] [Mul α] [Div α] [OfNat α 0] [OfNat α 1] [OfCount α]

/-- `create_single_treatment_effect_map`; the dict as an association list in insertion order
    (samples ascending, then treatment ids ascending) -/
def singleEffectMap (arity : Nat) (sids : List Int) (tids : List (List Int)) (obs : List α) :
    Except Err (List ((Int × Int) × α)) :=
  if arity < 2 then .error .valueError
  else
    let mask := tids.map (isSingle arity)
    let sObs := maskFilter obs mask
    let sT := (maskFilter tids mask).map rowMax      -- np.sort(tids[mask], axis=1)[:, -1]
    let sS := maskFilter sids mask
    .ok ((uniqueSorted sids).flatMap (fun s =>
      (uniqueSorted tids.flatten).filterMap (fun t =>
        if t == -1 then some ((s, t), (1 : α))
        else
          let m := List.zipWith (fun t' s' => t' == t && s' == s) sT sS
          if !(m.any id) then none
          else some ((s, t), mean (maskFilter sObs m)))))

/-- `create_single_treatment_effect_array`: one cell per (experiment, column); KeyError if the map has
    no entry -/
def singleEffectArray (arity : Nat) (sids : List Int) (tids : List (List Int)) (obs : List α) :
    Except Err (List (List α)) := do
  let map ← singleEffectMap arity sids tids obs
  (List.zip sids tids).mapM (fun (s, row) =>
    row.mapM (fun t => match map.lookup (s, t) with
      | some v => .ok v
      | none => .error .keyError))

/-! the definition -/

/-- row `ts` is a single-agent measurement of `t`: every cell but one is control, and `t` is in it -/
def isSingleOf (ts : List Int) (t : Int) : Bool := (ts.count (-1) + 1 == ts.length) && ts.contains t

/-- the observations of sample `s` treated with `t` alone (in whichever column), in row order -/
def singleObsOf (sids : List Int) (tids : List (List Int)) (obs : List α) (s t : Int) : List α :=
  ((List.zip sids (List.zip tids obs)).filter (fun r => r.1 == s && isSingleOf r.2.1 t)).map (fun r => r.2.2)

/-- single-agent effect of `(s, t)`: `1` for control, else the MEAN of the single-agent observations,
    undefined when there is none -/
def singleEffectDef (sids : List Int) (tids : List (List Int)) (obs : List α) (s t : Int) : Option α :=
  if t == -1 then some 1
  else
    let xs := singleObsOf sids tids obs s t
    if xs.isEmpty then none else some (sumL xs / OfCount.ofCount xs.length)

/-! ### Bliss synergy (`synergy.py`) -/

/-- `np.prod` of a list -/
def prodL (l : List α) : α := l.foldl (· * ·) 1

/-- one iteration of the inner loop: an unmeasured agent is refused (`strict`) or skipped -/
def collectStep (map : List ((Int × Int) × α)) (strict : Bool) (s : Int) (effs : List α) (t : Int) :
    Except Err (List α) :=
  match map.lookup (s, t) with
  | none => if strict then .error .valueError else .ok effs
  | some e => .ok (effs ++ [e])

/-- the inner loop: collect the single effects of the non-control treatments -/
def collectEffects (map : List ((Int × Int) × α)) (strict : Bool) (s : Int) (cur : List Int) : Except Err (List α) :=
  cur.foldlM (collectStep map strict s) []

/-- one iteration of the outer loop over the non-single rows `(sample, treatment row, observation)` -/
def synergyStep (map : List ((Int × Int) × α)) (strict : Bool) (acc : List (Int × List Int × α))
    (r : Int × List Int × α) : Except Err (List (Int × List Int × α)) := do
  let cur := r.2.1.filter (fun t => t != -1)
  let effs ← collectEffects map strict r.1 cur
  if cur.length != effs.length then pure acc
  else pure (acc ++ [(r.1, cur, prodL effs - r.2.2)])

/-- `calculate_synergy`: `(sample id, non-control treatment ids, synergy)` per reported combination -/
def synergy (arity : Nat) (sids : List Int) (tids : List (List Int)) (obs : List α) (strict : Bool) :
    Except Err (List (Int × List Int × α)) :=
  if arity < 2 then .error .valueError
  else if sids.length != tids.length then .error .valueError
  else if sids.length != obs.length then .error .valueError
  else do
    let map ← singleEffectMap arity sids tids obs
    let notSingle := tids.map (fun r => !(isSingle arity r))
    let mObs := maskFilter obs notSingle
    let mT := maskFilter tids notSingle
    let mS := maskFilter sids notSingle
    (List.zip mS (List.zip mT mObs)).foldlM (synergyStep map strict) []

/-! the definition -/

/-- the rows that are not single-agent measurements, in order -/
def multiRows (arity : Nat) (sids : List Int) (tids : List (List Int)) (obs : List α) : List (Int × List Int × α) :=
  (List.zip sids (List.zip tids obs)).filter (fun r => !(isSingle arity r.2.1))

/-- Bliss synergy of one combination given the single-agent effect table `E`: product of the single
    effects minus the observation; undefined if some effect is unmeasured -/
def blissDef (E : Int → Int → Option α) (r : Int × List Int × α) : Option (Int × List Int × α) :=
  let cur := r.2.1.filter (fun t => t != -1)
  if cur.all (fun t => (E r.1 t).isSome) then
    some (r.1, cur, prodL (cur.map (fun t => (E r.1 t).getD 1)) - r.2.2)
  else none

end effects

/-! #### regression definitions (seeded changes, NOT in /repo) -/

/-- S6-C20: `mse()` rewritten as the unweighted mean of the per-chain MSEs (`labels` = the distinct chain labels) -/
def mseChainMeans {α : Type} [Add α] [Sub α] [Mul α] [Div α] [OfNat α 0] [OfCount α]
    (preds : List (List α)) (obs : List α) (chains labels : List Int) : α :=
  mean (labels.map (chainMse preds obs chains))

/-- S5-C20: the "all single-agent effects available?" decision of `calculate_synergy` kept in a flag
    that is reassigned for every treatment of the row, i.e. remembers only the LAST one (lenient mode) -/
def lastFlagStep {α : Type} (map : List ((Int × Int) × α)) (s : Int) (st : Bool × List α) (t : Int) : Bool × List α :=
  match map.lookup (s, t) with
  | none => (false, st.2)
  | some e => (true, st.2 ++ [e])

def synergyStepLastFlag {α : Type} [Sub α] [Mul α] [OfNat α 1] (map : List ((Int × Int) × α))
    (acc : List (Int × List Int × α)) (r : Int × List Int × α) : List (Int × List Int × α) :=
  let cur := r.2.1.filter (fun t => t != -1)
  let st := cur.foldl (lastFlagStep map r.1) (true, [])
  if st.1 then acc ++ [(r.1, cur, prodL st.2 - r.2.2)] else acc

/-! ### the combinatoric space and the between-sample similarity matrix -/

/-- `itertools.combinations(xs, k)`: all `k`-element sub-sequences, lexicographic in positions -/
def combos {β : Type} : Nat → List β → List (List β)
  | 0, _ => [[]]
  | _ + 1, [] => []
  | k + 1, x :: xs => (combos k xs).map (x :: ·) ++ combos (k + 1) xs

def factorial : Nat → Nat
  | 0 => 1
  | n + 1 => (n + 1) * factorial n

/-- `combination_count(n, k)`; `math.factorial` of a negative number raises ValueError -/
def combinationCount (n k : Nat) : Except Err Nat :=
  if k > n then .error .valueError else .ok (factorial n / (factorial k * factorial (n - k)))

open Batchie.Predict (PScreen)

/-- `generate_full_combinatoric_space(sample_id, screen)`: what the prediction path reads of the
    artificial screen.  `tmapIds` is the id column of the screen's treatment mapping (control rows
    included, in mapping order), `smapIds` the id column of the sample mapping.  The new Screen is
    built WITH the screen's mappings, so every cell's id is the mapping id of its row. -/
def fullSpace (arity : Nat) (tmapIds smapIds : List Int) (sampleId : Int) : Except Err PScreen := do
  let cnt ← combinationCount tmapIds.length arity
  if cnt > 10000000 then .error .valueError
  else if !(smapIds.contains sampleId) then .error .keyError
  else
    let rows := combos arity tmapIds
    .ok { arity := arity, sids := List.replicate rows.length sampleId, tids := rows }

/-- the refusal logic of `generate_full_combinatoric_space` alone (same guards, in the same order, as
    `fullSpace`; `Props/C20.lean` proves the two agree) -- lets the driver answer for mappings whose
    space is within the budget but far too large to enumerate in a test -/
def fullSpaceGuard (arity nMap : Nat) (smapIds : List Int) (sampleId : Int) : Except Err Unit := do
  let cnt ← combinationCount nMap arity
  if cnt > 10000000 then .error .valueError
  else if !(smapIds.contains sampleId) then .error .keyError
  else .ok ()

class Sqrt (α : Type) where
  sqrt : α → α

instance instSqrtFloat : Sqrt Float := ⟨Float.sqrt⟩

section corr
variable {α : Type} [Add α] [Sub α] [Mul α] [Div α] [OfNat α 0] [OfCount α] [Sqrt α]

/-- `X = predictions - np.mean(predictions, axis=0, keepdims=True)` -/
def center (P : List (List α)) : List (List α) :=
  let mu := meanAxis0 P
  P.map (fun r => List.zipWith (· - ·) r mu)

/-- `X / np.sqrt(np.sum(np.square(X), axis=1, keepdims=True))` -/
def normalizeRows (X : List (List α)) : List (List α) :=
  X.map (fun r => let nrm := Sqrt.sqrt (sumL (r.map sq)); r.map (· / nrm))

def dot (a b : List α) : α := sumL (List.zipWith (· * ·) a b)

/-- `np.einsum("ik, jk->ij", X_, X_)` -/
def gram (X : List (List α)) : List (List α) := X.map (fun a => X.map (fun b => dot a b))

/-- the numeric core of `correlation_matrix`: from the stacked average predictions (one row per
    sample, one column per treatment combination) to the similarity matrix -/
def corrOfPredictions (P : List (List α)) : List (List α) := gram (normalizeRows (center P))

end corr

section corrfull
variable {α Θ : Type} [Add α] [Sub α] [Mul α] [Div α] [OfNat α 0] [OfCount α] [Sqrt α]

/-- one loop iteration of `correlation_matrix`: the averaged viability prediction of sample `s` over
    its full combinatoric space -/
def samplePrediction (nan : α → Bool) (viab : Θ → PScreen → Except Err (List α)) (declared : Nat) (thetas : List Θ)
    (arity : Nat) (tmapIds smapIds : List Int) (s : Int) : Except Err (List α) := do
  let space ← fullSpace arity tmapIds smapIds s
  Predict.predictAvg nan (fun θ => viab θ space) space.size declared thetas

/-- `correlation_matrix(screen, thetas)`: for every sample id present in the screen (ascending), the
    averaged viability prediction over the full combinatoric space; then `corrOfPredictions`.
    (`np.stack` of an empty list raises ValueError.) -/
def correlationMatrix (nan : α → Bool) (viab : Θ → PScreen → Except Err (List α)) (declared : Nat) (thetas : List Θ)
    (arity : Nat) (tmapIds smapIds : List Int) (screenSids : List Int) : Except Err (List (List α)) := do
  let preds ← (uniqueSorted screenSids).mapM (samplePrediction nan viab declared thetas arity tmapIds smapIds)
  if preds.isEmpty then .error .valueError else pure (corrOfPredictions preds)

end corrfull

/-! ### driver protocol (α := Float) -/

namespace IO
open Batchie.Predict.IO

def showMap (m : List ((Int × Int) × Float)) : String :=
  if m.isEmpty then "-" else ",".intercalate (m.map (fun e => s!"{e.1.1}:{e.1.2}:{showF e.2}"))

def showSyn (l : List (Int × List Int × Float)) : String :=
  if l.isEmpty then "-"
  else ";".intercalate (l.map (fun e => s!"{e.1}|{if e.2.1.isEmpty then "_" else showIntList e.2.1}|{showF e.2.2}"))

def showE {β : Type} (sh : β → String) (r : Except Err β) : String :=
  match r with
  | .ok v => "ok " ++ sh v
  | .error e => showErr e

def parseTids? (a : String) (s : String) (n : Nat) : Option (Nat × List (List Int)) := do
  let ar ← parseNat? a
  let t ← parseIntListList? s
  if t.length == n && t.all (fun r => r.length == ar) then some (ar, t) else none

def handle (toks : List String) : Option String :=
  match toks with
  | ["c20.eval", what, p, o, c, k] => do
    let preds ← parseMat? p
    let obs ← parseVec? o
    let chains ← parseIntList? c
    let K ← parseNat? k
    if !(evalShapeOk preds obs chains obs.length K) then some (showErr .valueError)
    else if what == "mse" then some ("ok " ++ showF (mse preds obs))
    else if what == "msevar" then some ("ok " ++ showF (mseVariance preds obs))
    else if what == "interchain" then some ("ok " ++ showF (interChainMseVariance preds obs chains))
    else if what == "meanpred" then some ("ok " ++ showVec (meanPredictions preds))
    else none
  | ["c20.sem", a, s, t, o] => do
    let sids ← parseIntList? s
    let (ar, tids) ← parseTids? a t sids.length
    let obs ← parseVec? o
    pure (showE showMap (singleEffectMap ar sids tids obs))
  | ["c20.sea", a, s, t, o] => do
    let sids ← parseIntList? s
    let (ar, tids) ← parseTids? a t sids.length
    let obs ← parseVec? o
    pure (showE showMat (singleEffectArray ar sids tids obs))
  | ["c20.syn", st, a, s, t, o] => do
    let strict ← parseBool? st
    let sids ← parseIntList? s
    let ar ← parseNat? a
    let tids ← parseIntListList? t
    if !(tids.all (fun r => r.length == ar)) then none
    else
      let obs ← parseVec? o
      pure (showE showSyn (synergy ar sids tids obs strict))
  | ["c20.cmse", a, o] => do
    let avg ← parseVec? a
    let obs ← parseVec? o
    pure ("ok " ++ showF (calculateMse avg obs))
  | ["c20.space", a, tm, sm, sid] => do
    let r := fullSpace (← parseNat? a) (← parseIntList? tm) (← parseIntList? sm) (← parseInt? sid)
    pure (showE (fun sc => s!"{showIntList sc.sids} {showIntListList sc.tids}") r)
  | ["c20.spaceok", a, n, sm, sid] => do
    match fullSpaceGuard (← parseNat? a) (← parseNat? n) (← parseIntList? sm) (← parseInt? sid) with
    | .ok _ => pure "ok"
    | .error e => pure (showErr e)
  | ["c20.reload", k, p, o, c, nm] => do
    let names ← Batchie.ScreenIO.parseList? Batchie.ScreenIO.parseName? "," nm
    let r : EvalRec Float := { K := ← parseNat? k, preds := ← parseMat? p, obs := ← parseVec? o, chains := ← parseIntList? c, names := names }
    match loadEval (saveEval r) with
    | .error e => pure (showErr e)
    | .ok r' => pure ("ok " ++ showMat r'.preds ++ " " ++ showVec r'.obs ++ " " ++ showIntList r'.chains ++ " "
        ++ Batchie.ScreenIO.showList Batchie.ScreenIO.showName "," r'.names)
  | ["c20.corrp", p] => do
    let P ← parseMat? p
    pure ("ok " ++ showMat (corrOfPredictions P))
  | ["c20.corr", "sdc", n, ths, a, tm, sm, ss] => do
    let thetas ← parseList? parseTheta? ths
    pure (showResM (correlationMatrix Float.isNaN Predict.Theta.predictViabilityM (← parseNat? n) thetas
      (← parseNat? a) (← parseIntList? tm) (← parseIntList? sm) (← parseIntList? ss)))
  | ["c20.corr", "sdci", n, ths, a, tm, sm, ss] => do
    let thetas ← parseList? parseThetaI? ths
    pure (showResM (correlationMatrix Float.isNaN Predict.ThetaI.predictViabilityM (← parseNat? n) thetas
      (← parseNat? a) (← parseIntList? tm) (← parseIntList? sm) (← parseIntList? ss)))
  | _ => none

end IO

end Batchie.Metrics
