/-
  Model of the command-line glue every batchie command shares (src/batchie/cli/argument_parsing.py):
  `KVAppendAction` (lines 6-23: `values[0].split("=", 2)`, unpacked into exactly `(k, v)`, stored with
  `d[k] = v`), `str_to_bool` (26-37) and the converter choice of `cast_dict_to_type` (40-58).
  Import-free so that the driver can be compiled.  Strings are lists of characters.
-/
namespace Batchie.ArgParse

/-- cut at the first occurrence of `sep` (Python `s.split(sep, 1)` when `sep` occurs) -/
def cut (sep : Char) : List Char → Option (List Char × List Char)
  | [] => none
  | c :: cs =>
    if c = sep then some ([], cs)
    else match cut sep cs with
      | some (a, r) => some (c :: a, r)
      | none => none

/-- Python `s.split(sep, maxsplit)` for a one-character separator: at most `maxsplit` cuts, from the left -/
def splitMax (sep : Char) : Nat → List Char → List (List Char)
  | 0, cs => [cs]
  | n + 1, cs =>
    match cut sep cs with
    | none => [cs]
    | some (a, rest) => a :: splitMax sep n rest

/-- argument_parsing.py:15-20: `(k, v) = values[0].split("=", 2)`; anything but exactly two parts raises
ValueError, which the action turns into `argparse.ArgumentError` (the parser then exits with status 2) -/
def kvParse (s : List Char) : Option (List Char × List Char) :=
  match splitMax '=' 2 s with
  | [k, v] => some (k, v)
  | _ => none

/-- a Python dict as an association list in insertion order; `d[k] = v` keeps the position of a present key -/
def dictSet (d : List (List Char × List Char)) (k v : List Char) : List (List Char × List Char) :=
  if d.any (fun p => p.1 == k) then d.map (fun p => if p.1 == k then (k, v) else p) else d ++ [(k, v)]

/-- one `--model-param KEY=VALUE` occurrence (argument_parsing.py:21-23) -/
def kvStep (d : List (List Char × List Char)) (a : List Char) : Option (List (List Char × List Char)) :=
  match kvParse a with
  | some (k, v) => some (dictSet d k v)
  | none => none

/-- all occurrences of one KEY=VALUE option on a command line, left to right; the first ill-formed one ends the command -/
def kvAppendAll (args : List (List Char)) : Option (List (List Char × List Char)) :=
  args.foldlM kvStep []

/-- the value a key ends up with, read off the command line directly: the LAST well-formed occurrence of the key -/
def lastValue (k : List Char) (args : List (List Char)) : Option (List Char) :=
  args.reverse.findSome? (fun a => match kvParse a with
    | some (k', v) => if k' == k then some v else none
    | none => none)

def lower (s : List Char) : List Char := s.map Char.toLower

/-- argument_parsing.py:26-37 -/
def strToBool (s : List Char) : Option Bool :=
  let l := String.ofList (lower s)
  if l ∈ ["true", "t", "yes", "y", "1"] then some true
  else if l ∈ ["false", "f", "no", "n", "0"] then some false
  else none

/-! line protocol: every argument is one token with a leading `:` (so that the empty string is a token) -/

def unTok (t : String) : Option (List Char) :=
  match t.toList with
  | ':' :: cs => some cs
  | _ => none

def showDict (d : List (List Char × List Char)) : String :=
  if d.isEmpty then "-" else " ".intercalate (d.map (fun p => ":" ++ String.ofList p.1 ++ "=" ++ String.ofList p.2))

def handle : List String → Option String
  | "args.kv" :: toks => do
    let args ← toks.mapM unTok
    match kvAppendAll args with
    | some d => some (showDict d)
    | none => some "err"
  | ["args.bool", t] => do
    let s ← unTok t
    match strToBool s with
    | some true => some "1"
    | some false => some "0"
    | none => some "err"
  | _ => none

end Batchie.ArgParse
