/-
  C19 -- model of `nextflow/scripts/batchie.py` (whole file) and of the publishing order of the three
  nextflow workflows it launches.  Import-free, executable.

  The only persistent state of the script is its output directory
      <outdir>/iter_<i>/plate_<j>/<name>/{screen_metadata.json, advanced_screen.h5, training.screen.h5,
                                          test.screen.h5, thetas*.h5, distance_matrix_chunk*.h5, selected_plate, ...}
  modelled as a tree  iteration directory → plate directory → optional `<name>` sub-directory → list of
  published files (kind + content).  File *contents* are natural numbers: `screen_metadata.json` carries
  `n_unobserved_plates`, `selected_plate` the selected plate id, every other content is opaque.

  * `examine`   = `examine_output_dir_to_determine_current_iteration` (as it is NOW, with the
                  `if not plate_dirs: continue` repair); `examineOld` = the same without the repair.
  * `planStep`  = the part of `run_next_retrospective_step` / `run_next_prospective_step` that decides
                  which workflow to launch with which inputs (the *launch record*).
  * `invoke`    = one call of the step function, as the list of its atomic filesystem mutations
                  (`mkdir outdir`; `rmtree` = one unlink per file, `rmdir <name>`, `rmdir plate`;
                  `mkdir iter`; `mkdir plate`) followed by the pipeline's publications (`mkdir <name>`, then one
                  file at a time, in the order `cfg.pubs launch` -- an UNINTERPRETED function of the launch
                  record); an interruption truncates that list after `k` actions.
  * `runSched`  = any number of invocations, each with its own interruption point (or none); when `examine`
                  raises naming a directory, that directory is removed (by the user, atomically) and the
                  script is started again.  `main`'s `while True` loop is the same thing as a restart, because
                  every call of the step function starts again at `makedirs(outdir); examine`.
-/
namespace Batchie.Orchestrator

/-! ## the output directory -/

inductive Kind where
  | marker               -- screen_metadata.json (the completion marker)
  | advanced             -- advanced_screen.h5
  | training             -- training.screen.h5
  | test                 -- test.screen.h5
  | thetas (c : Nat)     -- thetas<c>.h5
  | dist (c : Nat)       -- distance_matrix_chunk<c>.h5
  | selected             -- selected_plate
  | extra (c : Nat)      -- anything else the workflows publish (model evaluation, score chunks, ...)
deriving DecidableEq, Repr, Inhabited

structure File where
  kind : Kind
  content : Nat
deriving DecidableEq, Repr, Inhabited

/-- `plate_<idx>`; `sub = none`: the directory is empty; `sub = some fs`: `<name>/` exists and holds `fs` -/
structure PlateDir where
  idx : Nat
  sub : Option (List File)
deriving DecidableEq, Repr, Inhabited

structure IterDir where
  idx : Nat
  plates : List PlateDir
deriving DecidableEq, Repr, Inhabited

/-- `out = false`: the output directory does not exist yet -/
structure Tree where
  out : Bool
  iters : List IterDir
deriving DecidableEq, Repr, Inhabited

def Tree.empty : Tree := ⟨false, []⟩

def PlateDir.files (p : PlateDir) : List File := p.sub.getD []

/-- first match of `glob(<plate>/*/<file of kind k>)` -/
def findKind (k : Kind) (fs : List File) : Option File := fs.find? (fun f => f.kind = k)

/-- `validate_job_dir_and_return_meta`: `None` when no `screen_metadata.json`, else its `n_unobserved_plates` -/
def metaOf (p : PlateDir) : Option Nat := (findKind .marker p.files).map (·.content)

/-- `get_screen_from_job_output`: the advanced screen when there is one, else the training screen -/
def screenOf (p : PlateDir) : Option File :=
  match findKind .advanced p.files with
  | some f => some f
  | none => findKind .training p.files

/-- `get_test_screen_from_job_output` (it globs `training.screen.h5` -- sic) -/
def testScreenOf (p : PlateDir) : Option File := findKind .training p.files

def Kind.isThetas : Kind → Bool
  | .thetas _ => true
  | _ => false

def Kind.isDist : Kind → Bool
  | .dist _ => true
  | _ => false

/-! ## stable sort by the numeric suffix (`sorted(..., key=dir_sort_key)`) -/

def insertBy {α : Type} (key : α → Nat) (x : α) : List α → List α
  | [] => [x]
  | y :: ys => if key x ≤ key y then x :: y :: ys else y :: insertBy key x ys

def sortBy {α : Type} (key : α → Nat) (l : List α) : List α := l.foldr (insertBy key) []

/-! ## `examine_output_dir_to_determine_current_iteration` -/

/-- a reference to a published file: `iter_<iter>/plate_<plate>/<name>/<file>` together with what it held when read -/
structure FileRef where
  iter : Nat
  plate : Nat
  file : File
deriving DecidableEq, Repr, Inhabited

/-- the two `RuntimeError`s that name a directory (`Consider deleting this directory ...`) -/
inductive ExErr where
  | invalid (iter plate : Nat)       -- no `screen_metadata.json` under the plate directory
  | noAncestor (iter plate : Nat)    -- plate index ≠ its position
deriving DecidableEq, Repr, Inhabited

def ExErr.dir : ExErr → Nat × Nat
  | .invalid i j => (i, j)
  | .noAncestor i j => (i, j)

inductive Res (ε α : Type) where
  | ok (a : α)
  | err (e : ε)
deriving DecidableEq, Repr, Inhabited

/-- the local variables of the scan that survive the loops -/
structure ExSt where
  curIter : Option Nat := none
  curPlate : Option Nat := none
  lastMeta : Option Nat := none
  /-- the loop variable `plate_dir` after the loops (last plate directory iterated) -/
  lastPlate : Option (Nat × PlateDir) := none
deriving DecidableEq, Repr, Inhabited

/-- the inner `for idx, plate_dir in enumerate(plate_dirs)` -/
def scanPlates (it : Nat) : Nat → List PlateDir → ExSt → Res ExErr ExSt
  | _, [], st => .ok st
  | pos, p :: ps, _ =>
    match metaOf p with
    | none => .err (.invalid it p.idx)
    | some m =>
      if p.idx ≠ pos then .err (.noAncestor it p.idx)
      else scanPlates it (pos + 1) ps
        { curIter := some it, curPlate := some p.idx, lastMeta := some m, lastPlate := some (it, p) }

/-- the outer `for iter_dir in iter_dirs` of the script as it is now -/
def scanIters : List IterDir → ExSt → Res ExErr ExSt
  | [], st => .ok st
  | it :: its, st =>
    let ps := sortBy PlateDir.idx it.plates
    if ps.isEmpty then scanIters its st          -- `if not plate_dirs: continue`
    else
      match scanPlates it.idx 0 ps { st with curPlate := some 0 } with
      | .err e => .err e
      | .ok st' => scanIters its st'

/-- the outer loop before the repair: `current_plate_idx = 0` also for a plate-less iteration directory -/
def scanItersOld : List IterDir → ExSt → Res ExErr ExSt
  | [], st => .ok st
  | it :: its, st =>
    let ps := sortBy PlateDir.idx it.plates
    match scanPlates it.idx 0 ps { st with curPlate := some 0 } with
    | .err e => .err e
    | .ok st' => scanItersOld its st'

/-- `(next_iter_index, next_plate_index, last_successful_run_meta, get_screen_from_job_output(plate_dir))` -/
structure Next where
  iter : Nat
  plate : Nat
  lastMeta : Option Nat
  screen : Option FileRef
deriving DecidableEq, Repr, Inhabited

/-- the arithmetic after the loops; `current_plate_idx >= batch_size - 1` is written `B ≤ j + 1`
    (the same over the integers for every `B`) -/
def nextOf (B : Nat) (st : ExSt) : Next :=
  match st.lastMeta with
  | none => ⟨0, 0, none, none⟩
  | some m =>
    let i := st.curIter.getD 0
    let j := st.curPlate.getD 0
    let scr := match st.lastPlate with
      | some (pi, p) => (screenOf p).map (fun f => ⟨pi, p.idx, f⟩)
      | none => none
    if B ≤ j + 1 then ⟨i + 1, 0, some m, scr⟩ else ⟨i, j + 1, some m, scr⟩

def examine (B : Nat) (t : Tree) : Res ExErr Next :=
  match scanIters (sortBy IterDir.idx t.iters) {} with
  | .err e => .err e
  | .ok st => .ok (nextOf B st)

def examineOld (B : Nat) (t : Tree) : Res ExErr Next :=
  match scanItersOld (sortBy IterDir.idx t.iters) {} with
  | .err e => .err e
  | .ok st => .ok (nextOf B st)

/-! ## which workflow is launched with which inputs -/

inductive Mode where
  | retrospective | prospective
deriving DecidableEq, Repr, Inhabited

inductive Workflow where
  | initial        -- `--mode retrospective --initialize true  --screen <input>`
  | firstBatch     -- `--mode retrospective --initialize false --training_screen .. --test_screen ..`
  | nextPlate      -- `--mode next_plate --reveal true --screen .. --thetas .. --distance_matrix .. [--excludes=..]`
  | prospFirst     -- `--mode prospective --screen <input>`
deriving DecidableEq, Repr, Inhabited

/-- what the pipeline is launched with.  `screen = none` is the user's input screen; file references carry
    the content read at launch time, `chains` is the expansion of the two globs under `plate_0` of the
    iteration, `excludes` what `get_selected_plates` read (`none` = no `--excludes`). -/
structure Launch where
  wf : Workflow
  iter : Nat
  plate : Nat
  screen : Option FileRef
  test : Option FileRef
  chains : List File
  excludes : Option (List Nat)
deriving DecidableEq, Repr, Inhabited

def findIter (i : Nat) (its : List IterDir) : Option IterDir := its.find? (fun it => it.idx = i)

def findPlate (j : Nat) (ps : List PlateDir) : Option PlateDir := ps.find? (fun p => p.idx = j)

/-- `get_selected_plates(<outdir>/iter_<i>)`: contents of every `plate_*/*/selected_plate`, `None` if there is none -/
def selectedPlates (i : Nat) (t : Tree) : Option (List Nat) :=
  let l := match findIter i t.iters with
    | none => []
    | some it => it.plates.filterMap (fun p => (findKind .selected p.files).map (·.content))
  if l.isEmpty then none else some l

/-- errors of the step function that do NOT name a directory -/
inductive StepErr where
  | noTestScreen      -- RuntimeError "Could not find test screen in ..."
  | noChains          -- ValueError "No thetas or dist_chunks found"
  | noScreen          -- `current_screen is None` reaches the command line (TypeError in `' '.join`)
deriving DecidableEq, Repr, Inhabited

/-- `get_theta_and_dist_chunks(<outdir>/iter_<i>/plate_0)`; the globs are expanded by the pipeline at launch -/
def chainsOf (i : Nat) (t : Tree) : Res StepErr (List File) :=
  let fs := match findIter i t.iters with
    | none => []
    | some it => match findPlate 0 it.plates with
      | none => []
      | some p => p.files
  let th := fs.filter (fun f => f.kind.isThetas)
  let di := fs.filter (fun f => f.kind.isDist)
  if th.isEmpty || di.isEmpty then .err .noChains else .ok (th ++ di)

/-- the choice of workflow and inputs, evaluated on the directory as it is AFTER `rmtree; makedirs` of the
    job directory (those touch only the job directory, which none of these reads look into) -/
def launchOf (mode : Mode) (t : Tree) (nx : Next) (excl : Option (List Nat)) : Res StepErr Launch :=
  match mode with
  | .retrospective =>
    if nx.iter = 0 ∧ nx.plate = 0 then .ok ⟨.initial, 0, 0, none, none, [], none⟩
    else if nx.plate = 0 then
      let first := match findIter 0 t.iters with
        | none => none
        | some it => findPlate 0 it.plates
      match first.bind testScreenOf with
      | none => .err .noTestScreen
      | some tf =>
        match nx.screen with
        | none => .err .noScreen
        | some s => .ok ⟨.firstBatch, nx.iter, 0, some s, some ⟨0, 0, tf⟩, [], none⟩
    else
      match chainsOf nx.iter t with
      | .err e => .err e
      | .ok ch =>
        match nx.screen with
        | none => .err .noScreen
        | some s => .ok ⟨.nextPlate, nx.iter, nx.plate, some s, none, ch, excl⟩
  | .prospective =>
    if nx.plate = 0 then .ok ⟨.prospFirst, nx.iter, 0, none, none, [], none⟩
    else
      match chainsOf nx.iter t with
      | .err e => .err e
      | .ok ch => .ok ⟨.nextPlate, nx.iter, nx.plate, none, none, ch, excl⟩

/-! ## atomic actions -/

inductive Action where
  | mkdirOut
  | unlink (i j : Nat) (k : Kind)      -- rmtree: one file of `iter_i/plate_j/<name>/`
  | rmdirName (i j : Nat)              -- rmtree: `rmdir iter_i/plate_j/<name>`
  | rmdirPlate (i j : Nat)             -- rmtree: `rmdir iter_i/plate_j`
  | mkdirIter (i : Nat)
  | mkdirPlate (i j : Nat)
  | mkdirName (i j : Nat)              -- the pipeline creates `<name>/`
  | publish (i j : Nat) (f : File)     -- the pipeline publishes one file
deriving DecidableEq, Repr, Inhabited

def modIter (i : Nat) (f : IterDir → IterDir) (its : List IterDir) : List IterDir :=
  its.map (fun it => if it.idx = i then f it else it)

def modPlate (i j : Nat) (f : PlateDir → PlateDir) (its : List IterDir) : List IterDir :=
  modIter i (fun it => ⟨it.idx, it.plates.map (fun p => if p.idx = j then f p else p)⟩) its

def rmdirNameSub : Option (List File) → Option (List File)
  | some [] => none
  | s => s

def Action.apply (a : Action) (t : Tree) : Tree :=
  match a with
  | .mkdirOut => { t with out := true }
  | .unlink i j k =>
    { t with iters := modPlate i j (fun p => ⟨p.idx, p.sub.map (fun fs => fs.filter (fun f => f.kind ≠ k))⟩) t.iters }
  | .rmdirName i j =>
    { t with iters := modPlate i j (fun p => ⟨p.idx, rmdirNameSub p.sub⟩) t.iters }
  | .rmdirPlate i j =>
    { t with iters := modIter i (fun it => ⟨it.idx, it.plates.filter (fun p => ¬ (p.idx = j ∧ p.sub = none))⟩) t.iters }
  | .mkdirIter i =>
    if (findIter i t.iters).isSome then t else { t with iters := t.iters ++ [⟨i, []⟩] }
  | .mkdirPlate i j =>
    { t with iters := modIter i (fun it =>
        if (findPlate j it.plates).isSome then it else ⟨it.idx, it.plates ++ [⟨j, none⟩]⟩) t.iters }
  | .mkdirName i j =>
    { t with iters := modPlate i j (fun p => ⟨p.idx, some p.files⟩) t.iters }
  | .publish i j f =>
    { t with iters := modPlate i j (fun p => ⟨p.idx, some (p.files ++ [f])⟩) t.iters }

def applyAll (as : List Action) (t : Tree) : Tree := as.foldl (fun t a => a.apply t) t

/-- `shutil.rmtree(job_dir, ignore_errors=True)` as atomic actions (nothing when the directory is absent) -/
def rmtreeActions (i j : Nat) (t : Tree) : List Action :=
  match (findIter i t.iters).bind (fun it => findPlate j it.plates) with
  | none => []
  | some p =>
    (match p.sub with
     | none => []
     | some fs => fs.map (fun f => Action.unlink i j f.kind) ++ [.rmdirName i j]) ++ [.rmdirPlate i j]

/-- `os.makedirs(job_dir, exist_ok=True)` as atomic actions -/
def makedirsActions (i j : Nat) (t : Tree) : List Action :=
  (if (findIter i t.iters).isSome then [] else [Action.mkdirIter i]) ++
  (if ((findIter i t.iters).bind (fun it => findPlate j it.plates)).isSome then [] else [Action.mkdirPlate i j])

/-! ## one call of the step function -/

structure Cfg where
  mode : Mode
  B : Nat
  /-- the publications of a pipeline run, in publication order: an uninterpreted function of the launch record -/
  pubs : Launch → List File

/-- what a call of the step function is going to do on directory `t` (no interruption) -/
inductive Step where
  | named (i j : Nat)                          -- `examine` raises naming `iter_i/plate_j`
  | finished                                   -- retrospective: `n_unobserved_plates <= 0`
  | failed (pre : List Action) (e : StepErr)   -- another exception, after the job directory was (re)made
  | go (pre : List Action) (l : Launch)        -- launch `l` after `pre`, then `mkdir <name>` and the publications
deriving Repr, Inhabited

def planStep (cfg : Cfg) (t : Tree) : Step :=
  match examine cfg.B t with
  | .err e => .named e.dir.1 e.dir.2
  | .ok nx =>
    if cfg.mode = .retrospective ∧ nx.lastMeta = some 0 then .finished
    else
      let excl := selectedPlates nx.iter t
      let rm := rmtreeActions nx.iter nx.plate t
      let t1 := applyAll rm t
      let mk := makedirsActions nx.iter nx.plate t1
      let t2 := applyAll mk t1
      match launchOf cfg.mode t2 nx excl with
      | .err e => .failed (rm ++ mk) e
      | .ok l => .go (rm ++ mk) l

def pubActions (cfg : Cfg) (l : Launch) : List Action :=
  Action.mkdirName l.iter l.plate :: (cfg.pubs l).map (fun f => Action.publish l.iter l.plate f)

inductive Event where
  | launched (l : Launch)          -- `subprocess.check_call` was reached with this command
  | completed (l : Launch)         -- ... and the pipeline published everything
  | scriptRemoved (i j : Nat)      -- the script's `rmtree` removed something under `iter_i/plate_j`
  | userRemoved (i j : Nat)        -- the user removed the directory the script named
  | failed (e : StepErr)
  | finished
deriving DecidableEq, Repr, Inhabited

def Action.removes : Action → Option (Nat × Nat)
  | .unlink i j _ => some (i, j)
  | .rmdirName i j => some (i, j)
  | .rmdirPlate i j => some (i, j)
  | _ => none

def removalEvents (as : List Action) : List Event :=
  as.filterMap (fun a => a.removes.map (fun ij => Event.scriptRemoved ij.1 ij.2))

/-- the user's `rm -rf iter_i/plate_j` (atomic) -/
def userRemove (i j : Nat) (t : Tree) : Tree :=
  { t with iters := modIter i (fun it => ⟨it.idx, it.plates.filter (fun p => p.idx ≠ j)⟩) t.iters }

structure InvRes where
  tree : Tree
  events : List Event
  /-- `main`'s loop ended by itself (not by an interruption or an exception) -/
  halted : Bool
deriving Repr, Inhabited

/-- the part of `as` that a budget of `k` atomic actions allows (`none` = unlimited) -/
def takeB {α : Type} (k : Option Nat) (as : List α) : List α :=
  match k with
  | none => as
  | some k => as.take k

/-- every action of `as` fits into the budget -/
def doneB {α : Type} (k : Option Nat) (as : List α) : Bool :=
  match k with
  | none => true
  | some k => decide (as.length ≤ k)

/-- the budget left after `as` -/
def restB {α : Type} (k : Option Nat) (as : List α) : Option Nat := k.map (fun k => k - as.length)

/-- the step function after `os.makedirs(output_dir, exist_ok=True)`, with a budget of `k` atomic actions -/
def invokeCore (cfg : Cfg) (k : Option Nat) (t : Tree) : InvRes :=
  match planStep cfg t with
  | .named i j => ⟨userRemove i j t, [.userRemoved i j], false⟩
  | .finished => ⟨t, [.finished], true⟩
  | .failed pre e =>
    ⟨applyAll (takeB k pre) t, removalEvents (takeB k pre) ++ (if doneB k pre then [.failed e] else []), false⟩
  | .go pre l =>
    let t1 := applyAll (takeB k pre) t
    let rem := removalEvents (takeB k pre)
    if !doneB k pre then ⟨t1, rem, false⟩
    else
      let k1 := restB k pre
      let t2 := applyAll (takeB k1 (pubActions cfg l)) t1
      if !doneB k1 (pubActions cfg l) then ⟨t2, rem ++ [.launched l], false⟩
      else ⟨t2, rem ++ [.launched l, .completed l], cfg.mode = .prospective ∧ ¬ (l.plate + 1 < cfg.B)⟩

/-- one call of the step function, interrupted after `k` atomic actions (`none`: not interrupted; an
    interruption "after" the last action is the same as no interruption followed by an interruption
    at action 0 of the next call) -/
def invoke (cfg : Cfg) (k : Option Nat) (t : Tree) : InvRes :=
  if t.out then invokeCore cfg k t
  else if doneB k [Action.mkdirOut] then invokeCore cfg (restB k [Action.mkdirOut]) (Action.mkdirOut.apply t)
  else ⟨t, [], false⟩

/-- any number of calls, each with its own interruption point; stops when `main`'s loop ends by itself
    (`halted`); `tr` is the trace so far -/
def runSched (cfg : Cfg) : List (Option Nat) → Tree → List Event → InvRes
  | [], t, tr => ⟨t, tr, false⟩
  | k :: ks, t, tr =>
    let r := invoke cfg k t
    if r.halted then ⟨r.tree, tr ++ r.events, true⟩ else runSched cfg ks r.tree (tr ++ r.events)

/-- several process runs one after the other, each with its own schedule (prospective mode: `main`'s loop ends
    after the last plate of an iteration and the user starts the script again for the next iteration) -/
def runProcs (cfg : Cfg) : List (List (Option Nat)) → Tree → List Event → Tree × List Event
  | [], t, tr => (t, tr)
  | s :: ss, t, tr =>
    let r := runSched cfg s t tr
    runProcs cfg ss r.tree r.events

def launchedOf (tr : List Event) : List Launch :=
  tr.filterMap (fun e => match e with | .launched l => some l | _ => none)

def completedOf (tr : List Event) : List Launch :=
  tr.filterMap (fun e => match e with | .completed l => some l | _ => none)

end Batchie.Orchestrator
