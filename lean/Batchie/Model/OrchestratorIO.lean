/-
  C19 -- driver side of the orchestrator model: the concrete fake pipeline (`fakePubs`, mirrored line by line by
  `harness/c19.py`), the text encoding of directory trees / launch records / events, and the driver operations

    examine <B> <old:0|1> <tree>                                   -> ok i j meta screen | named:invalid i j | named:noanc i j
    run <mode:r|p> <B> <P> <nch> <nck> <variant> <mfirst> <pre> <sched> -> <events> <final tree>
-/
import Batchie.Model.Orchestrator
import Batchie.Model.Proto

namespace Batchie.Orchestrator
open Batchie.Proto

/-! ## the fake pipeline -/

def hashM : Nat := 2147483647

def hashList (xs : List Nat) : Nat := xs.foldl (fun h x => (h * 1000003 + x + 1) % hashM) 7

def Kind.enc : Kind → List Nat
  | .marker => [0, 0]
  | .advanced => [1, 0]
  | .training => [2, 0]
  | .test => [3, 0]
  | .thetas c => [4, c]
  | .dist c => [5, c]
  | .selected => [6, 0]
  | .extra c => [7, c]

def fileKey (f : File) : Nat :=
  match f.kind.enc with
  | [a, b] => a * 100000 + b
  | _ => 0

def encRef : Option FileRef → List Nat
  | none => [0]
  | some r => [1, r.iter, r.plate] ++ r.file.kind.enc ++ [r.file.content]

def Workflow.code : Workflow → Nat
  | .initial => 0
  | .firstBatch => 1
  | .nextPlate => 2
  | .prospFirst => 3

def Launch.enc (l : Launch) : List Nat :=
  [l.wf.code, l.iter, l.plate] ++ encRef l.screen ++ encRef l.test ++ [l.chains.length] ++
  (sortBy fileKey l.chains).flatMap (fun f => f.kind.enc ++ [f.content]) ++
  (match l.excludes with
   | none => [0]
   | some e => [1, e.length] ++ sortBy id e)

structure Fake where
  P : Nat          -- unobserved plates of the input screen
  nch : Nat        -- chains
  nck : Nat        -- distance / score chunks
  variant : Nat    -- which dependency-compatible publication order
  mfirst : Bool    -- prospective workflow publishes the completion marker before the step's outputs (as main.nf does)

/-- remaining unobserved plates of a screen file: screen contents are `remaining * hashM + hash` -/
def remOf (c : Nat) : Nat := c / hashM

def fakePubs (fk : Fake) (l : Launch) : List File :=
  let base := fun (k : Kind) => hashList (l.enc ++ k.enc)
  let rin := match l.screen with
    | none => fk.P
    | some r => remOf r.file.content
  let mk := fun (k : Kind) => (⟨k, base k⟩ : File)
  let odd := fk.variant % 2 = 1
  let ord := fun (xs : List File) => if odd then xs.reverse else xs
  let th := ord ((List.range fk.nch).map (fun c => mk (.thetas c)))
  let di := ord ((List.range fk.nck).map (fun c => mk (.dist c)))
  let sc := ord ((List.range fk.nck).map (fun c => mk (.extra (c + 1))))
  let ex0 := [mk (.extra 0)]
  let sel : File := ⟨.selected, base .selected % 1000⟩
  let adv : File := ⟨.advanced, (rin - 1) * hashM + base .advanced⟩
  let mrk : File := ⟨.marker, rin - 1⟩
  let prep := ord [⟨.training, rin * hashM + base .training⟩, mk .test]
  let body :=
    if fk.variant % 3 = 2 then th ++ di ++ sc ++ [sel] ++ ex0
    else if odd then th ++ di ++ ex0 ++ sc ++ [sel]
    else th ++ ex0 ++ di ++ sc ++ [sel]
  match l.wf with
  | .initial => prep ++ body ++ [adv, mrk]
  | .firstBatch => body ++ [adv, mrk]
  | .nextPlate => sc ++ [sel, adv, mrk]
  | .prospFirst =>
    let m : File := ⟨.marker, rin⟩
    if fk.mfirst then (if fk.variant % 3 = 2 then th ++ [m] ++ di ++ sc ++ [sel] ++ ex0 else [m] ++ body)
    else body ++ [m]

/-! ## text encoding -/

def showFile (f : File) : String :=
  match f.kind.enc with
  | [a, b] => s!"{a}.{b}.{f.content}"
  | _ => "?"

def parseKind? (a b : Nat) : Option Kind :=
  match a with
  | 0 => some .marker
  | 1 => some .advanced
  | 2 => some .training
  | 3 => some .test
  | 4 => some (.thetas b)
  | 5 => some (.dist b)
  | 6 => some .selected
  | 7 => some (.extra b)
  | _ => none

def parseFile? (s : String) : Option File :=
  match s.splitOn "." with
  | [a, b, c] => do
    let a ← parseNat? a; let b ← parseNat? b; let c ← parseNat? c
    let k ← parseKind? a b
    pure ⟨k, c⟩
  | _ => none

def showSub : Option (List File) → String
  | none => "!"
  | some [] => "_"
  | some fs => ",".intercalate ((sortBy fileKey fs).map showFile)

def parseSub? (s : String) : Option (Option (List File)) :=
  if s == "!" then some none
  else if s == "_" then some (some [])
  else (s.splitOn ",").mapM parseFile? |>.map some

def showPlate (p : PlateDir) : String := s!"{p.idx}={showSub p.sub}"

def parsePlate? (s : String) : Option PlateDir :=
  match s.splitOn "=" with
  | [a, b] => do
    let a ← parseNat? a
    let b ← parseSub? b
    pure ⟨a, b⟩
  | _ => none

def showIter (it : IterDir) : String :=
  s!"{it.idx}:" ++ (if it.plates.isEmpty then "_" else ";".intercalate ((sortBy PlateDir.idx it.plates).map showPlate))

def parseIter? (s : String) : Option IterDir :=
  match s.splitOn ":" with
  | [a, b] => do
    let a ← parseNat? a
    let ps ← if b == "_" then some [] else (b.splitOn ";").mapM parsePlate?
    pure ⟨a, ps⟩
  | _ => none

/-- `#` = no output directory, `-` = empty output directory -/
def showTree (t : Tree) : String :=
  if !t.out then "#"
  else if t.iters.isEmpty then "-"
  else "|".intercalate ((sortBy IterDir.idx t.iters).map showIter)

def parseTree? (s : String) : Option Tree :=
  if s == "#" then some ⟨false, []⟩
  else if s == "-" then some ⟨true, []⟩
  else (s.splitOn "|").mapM parseIter? |>.map (fun its => ⟨true, its⟩)

def showRef : Option FileRef → String
  | none => "-"
  | some r => s!"{r.iter}.{r.plate}.{showFile r.file}"

def showLaunch (l : Launch) : String :=
  let ch := if l.chains.isEmpty then "-" else "+".intercalate ((sortBy fileKey l.chains).map showFile)
  let ex := match l.excludes with
    | none => "-"
    | some e => "+".intercalate ((sortBy id e).map toString)
  s!"{l.wf.code}/{l.iter}/{l.plate}/{showRef l.screen}/{showRef l.test}/{ch}/{ex}"

def StepErr.show : StepErr → String
  | .noTestScreen => "RuntimeError"
  | .noChains => "ValueError"
  | .noScreen => "TypeError"

def showEvent : Event → String
  | .launched l => "L" ++ showLaunch l
  | .completed l => "C" ++ showLaunch l
  | .scriptRemoved i j => s!"R{i}.{j}"
  | .userRemoved i j => s!"U{i}.{j}"
  | .failed e => "F" ++ e.show
  | .finished => "D"

def showEvents (es : List Event) : String :=
  if es.isEmpty then "-" else ";".intercalate (es.map showEvent)

def showNext (r : Res ExErr Next) : String :=
  match r with
  | .err (.invalid i j) => s!"named:invalid {i} {j}"
  | .err (.noAncestor i j) => s!"named:noanc {i} {j}"
  | .ok nx =>
    let m := match nx.lastMeta with
      | none => "-"
      | some m => toString m
    s!"ok {nx.iter} {nx.plate} {m} {showRef nx.screen}"

def parseSched? (s : String) : Option (List (Option Nat)) :=
  if s == "-" then some []
  else (s.splitOn ",").mapM (fun x => if x == "n" then some none else (parseNat? x).map some)

def handle : List String → Option String
  | ["examine", b, old, t] => do
    let b ← parseNat? b; let old ← parseBool? old; let t ← parseTree? t
    pure (showNext (if old then examineOld b t else examine b t))
  | ["run", mode, b, p, nch, nck, v, mf, pre, sched] => do
    let mode ← if mode == "r" then some Mode.retrospective else if mode == "p" then some Mode.prospective else none
    let b ← parseNat? b; let p ← parseNat? p; let nch ← parseNat? nch; let nck ← parseNat? nck
    let v ← parseNat? v; let mf ← parseBool? mf; let pre ← parseNat? pre; let sched ← parseSched? sched
    let cfg : Cfg := ⟨mode, b, fakePubs ⟨p, nch, nck, v, mf⟩⟩
    -- `pre` uninterrupted process runs first (prospective mode: the earlier iterations)
    let t0 := (List.range pre).foldl (fun t _ => (runSched cfg (List.replicate (b + 2) none) t []).tree) Tree.empty
    let r := runSched cfg sched t0 []
    pure s!"{showEvents r.events} {showTree r.tree}"
  | _ => none

end Batchie.Orchestrator
