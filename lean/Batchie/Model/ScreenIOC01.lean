/-
  Driver operation of C01 for the experiment-space sizes (`ExperimentSpace.n_unique_treatments`,
  `ExperimentSpace.n_unique_samples`, `Screen.treatment_space_size`, `Screen.sample_space_size`), so that the
  definitions `C01_space_bounds` speaks about are the ones executed against the real `ExperimentSpace`.

  `espace <raw screen…>`  ->  `ok nt=<n_unique_treatments> ns=<n_unique_samples> tss=<len treatment mapping> sss=<len sample mapping>`
-/
import Batchie.Model.ScreenIO

namespace Batchie.ScreenIOC01
open Batchie.Proto Batchie.Screen Batchie.ScreenIO

def showSpace (s : Screen) : String :=
  s!"ok nt={nUniqueTreatments s.tmap} ns={nUniqueSamples s.smap} tss={s.treatmentSpaceSize} sss={s.sampleSpaceSize}"

def handle : List String → Option String
  | "espace" :: rest => do
      let r ← parseRaw? rest
      match mk? r with
      | .error e => pure (showErr e)
      | .ok s => pure (showSpace s)
  | _ => none

end Batchie.ScreenIOC01
