/-
  Driver operations of C01 beyond `mkscreen` (Model/ScreenIO.lean):

  `espace <raw screen…>`   `ok nt=<n_unique_treatments> ns=<n_unique_samples> tss=<len treatment mapping> sss=<len sample mapping>`
  `spaceapi <ctrl> <tmap> <smap> <queries>`   the `ExperimentSpace` query API on an arbitrary pair of mappings (not necessarily accepted by
                           `Screen(...)`): counts, then one answer per query joined by `|`; queries joined by `,` (`-` = none):
                           `t<name>` -> `ids=<treatment_ids_from_treatment_name>;doses=<doses_for_treatment>`,
                           `s<name>` -> `sample_id_from_sample_name` or `err:ValueError`, `i<int>` -> `sample_name_from_sample_id` or `err:ValueError`
  `derived <raw screen…>`  the derived `ScreenBase` properties of the screen
  `combine <raw A> <raw B>` / `concat <k> <raw 1> … <raw k>`   `Screen.combine` / `Screen.concat` of screens built from the raws
  `ste <raw screen…>`      which rows `single_treatment_effects` averages per cell (`none` = property is None)
-/
import Batchie.Model.ScreenIO
import Batchie.Model.ScreenApi

namespace Batchie.ScreenIOC01
open Batchie.Proto Batchie.Screen Batchie.ScreenIO Batchie.ScreenApi

def showSpace (s : Screen) : String :=
  s!"ok nt={nUniqueTreatments s.tmap} ns={nUniqueSamples s.smap} tss={s.treatmentSpaceSize} sss={s.sampleSpaceSize}"

def showDerived (d : Derived) : String :=
  s!"size={d.size}|arity={d.arity}|np={d.nPlates}|up={showIds d.uniquePlateIds}|us={showIds d.uniqueSampleIds}|ut={showIds d.uniqueTreatments}" ++
  s!"|nus={d.nUniqueSamples}|nut={d.nUniqueTreatments}|obs={showBool d.isObserved}|sss={d.sampleSpaceSize}|tss={d.treatmentSpaceSize}"

def showSupport : Except Err (Option (List (List (Option (List Nat))))) → String
  | .error e => showErr e
  | .ok none => "none"
  | .ok (some t) => "ok " ++ showList (showList (fun c => match c with
      | none => "c"
      | some idxs => if idxs.isEmpty then "x" else ".".intercalate (idxs.map toString)) ",") ";" t

def steStatus : Except Err (Option (List (List (Option (List Nat))))) → String
  | .error e => showErr e
  | .ok none => "none"
  | .ok (some _) => "arr"

def answer (sp : Space) (q : String) : Option String :=
  let c := q.take 1 |>.toString
  let arg := q.drop 1 |>.toString
  match c with
  | "t" => do
      let n ← parseName? arg
      pure ("ids=" ++ showIds (sp.treatmentIdsFromName n) ++ ";doses=" ++ showList showDose "," (sp.dosesForTreatment n))
  | "s" => do
      let n ← parseName? arg
      pure (match sp.sampleIdFromName n with | .ok i => toString i | .error e => showErr e)
  | "i" => do
      let i ← parseInt? arg
      pure (match sp.sampleNameFromId i with | .ok n => showName n | .error e => showErr e)
  | _ => none

/-- split a token list into `k` raws of 10 tokens each -/
def takeRaws : Nat → List String → Option (List Raw)
  | 0, [] => some []
  | 0, _ => none
  | k + 1, toks => do
      let r ← parseRaw? (toks.take 10)
      let rest ← takeRaws k (toks.drop 10)
      pure (r :: rest)

def showScreenRows : Except Err Screen → String
  | .error e => showErr e
  | .ok t => showScreen t ++ "|" ++ showRows t

def handle : List String → Option String
  | "espace" :: rest => do
      let r ← parseRaw? rest
      match mk? r with
      | .error e => pure (showErr e)
      | .ok s => pure (showSpace s)
  | ["spaceapi", ctrl, tmap, smap, queries] => do
      let ctrl ← parseName? ctrl
      let tm ← parseList? parseTEntry? "," tmap
      let sm ← parseList? parseSEntry? "," smap
      let sp : Space := { tmap := tm, smap := sm, ctrl := ctrl }
      let qs := if queries == "-" then [] else queries.splitOn ","
      let ans ← qs.mapM (answer sp)
      pure (s!"ok nt={nUniqueTreatments tm} ns={nUniqueSamples sm} ntt={sp.nUniqueTreatmentTypes} nd={sp.nUniqueDoses}" ++
        String.join (ans.map (fun a => "|" ++ a)))
  | "derived" :: rest => do
      let r ← parseRaw? rest
      match mk? r with
      | .error e => pure ("parent-" ++ showErr e)
      | .ok s => pure ("ok " ++ showDerived (screenDerived s))
  | "ste" :: rest => do
      let r ← parseRaw? rest
      match mk? r with
      | .error e => pure ("parent-" ++ showErr e)
      | .ok s => pure (showSupport (screenSte s))
  | "combine" :: rest => do
      let rs ← takeRaws 2 rest
      match rs.mapM mk? with
      | .error e => pure ("parent-" ++ showErr e)
      | .ok [a, b] => pure (showScreenRows (combine a b))
      | .ok _ => none
  | "concat" :: k :: rest => do
      let k ← parseNat? k
      let rs ← takeRaws k rest
      match rs.mapM mk? with
      | .error e => pure ("parent-" ++ showErr e)
      | .ok ss => pure (showScreenRows (concat ss))
  | _ => none

end Batchie.ScreenIOC01
