/-
  Hand model of `distance_calculation.py` around the translated kernels
  (`Batchie.Generated.Chunks`): the recognised tail idiom of
  `get_lower_triangular_indices_chunk`, `ChunkedDistanceMatrix` and
  `calculate_pairwise_distance_matrix_on_predictions`.  Import-free, executable.
-/
import Batchie.Model.Proto
import Batchie.Generated.Chunks

namespace Batchie.Chunks
open Batchie.Gen Batchie.Proto

/-- `list(lower_triangular_indices(n))` -/
def lowerTri (n : Int) : List (Int × Int) := (LowerTri.run n).out

/-- `get_number_of_lower_triangular_indices(n)` -/
def numLowerTri (n : Int) : Int := (NumLowerTri.run n).ret

def chunkStart (n c k : Int) : Int := (ChunkBounds.run n c k).start_index
def chunkEnd (n c k : Int) : Int := (ChunkBounds.run n c k).end_index
def chunkErr (n c k : Int) : Bool := (ChunkBounds.run n c k).err

/-- the slice `islice(consume(g, start), end - start)` of the enumeration, as a total function -/
def chunkPairs (n c k : Int) : List (Int × Int) :=
  ((lowerTri n).drop (chunkStart n c k).toNat).take (chunkEnd n c k - chunkStart n c k).toNat

/-- the tail idiom `g = lower_triangular_indices(n); consume(g, start); list(islice(g, end-start))`.
    `islice` with a negative count raises `ValueError`; the bounds theorem shows that never
    happens on valid input, the model keeps the branch. -/
def chunk (n c k : Int) : Except Err (List (Int × Int)) :=
  if chunkErr n c k then .error .assertion
  else
    let s := chunkStart n c k
    let e := chunkEnd n c k
    if s < 0 || e - s < 0 then .error .valueError
    else .ok (chunkPairs n c k)

/-- `ChunkedDistanceMatrix`: the filled prefix of the three storage arrays.  The storage beyond
    `current_index` is always zero (it is only ever written at `current_index`), so the three
    "already calculated" tests of `add_value` are vacuous and the arrays are not modelled. -/
structure CDM (α : Type) where
  size : Int
  entries : List (Int × Int × α)
deriving Repr

variable {α : Type}

def CDM.empty (size : Int) : CDM α := { size := size, entries := [] }

def CDM.addValue (m : CDM α) (i j : Int) (v : α) : Except Err (CDM α) :=
  if i ≥ m.size || j ≥ m.size then .error .valueError
  else if i < j then .error .valueError
  else .ok { m with entries := m.entries ++ [(i, j, v)] }

def CDM.isComplete (m : CDM α) : Bool := (m.entries.length : Int) == numLowerTri m.size

def CDM.keys (m : CDM α) : List (Int × Int) := m.entries.map (fun e => (e.1, e.2.1))

/-- `to_dense()[r][c]` as a function: the last entry written at `(r,c)` or `(c,r)`; zero otherwise -/
def denseAt [OfNat α 0] (entries : List (Int × Int × α)) (r c : Int) : α :=
  entries.foldl (fun acc e => if (e.1 == r && e.2.1 == c) || (e.2.1 == r && e.1 == c) then e.2.2 else acc) 0

def CDM.toDense [OfNat α 0] (m : CDM α) : Except Err (List (List α)) :=
  if !m.isComplete then .error .valueError
  else
    let idx := (List.range m.size.toNat).map (fun (i : Nat) => (i : Int))
    .ok (idx.map (fun r => idx.map (fun c => denseAt m.entries r c)))

/-- `combine`: keep all of `self`, then every entry of `other` whose `(row, col)` is not yet present -/
def CDM.combine (a b : CDM α) : Except Err (CDM α) :=
  if a.size != b.size then .error .valueError
  else
    b.entries.foldlM (fun (acc : CDM α) e =>
      if acc.keys.contains (e.1, e.2.1) then .ok acc else acc.addValue e.1 e.2.1 e.2.2) a

def CDM.concat (ms : List (CDM α)) : Except Err (CDM α) :=
  match ms with
  | [] => .error .valueError
  | [m] => .ok m
  | m :: rest => rest.foldlM (fun acc x => if acc.size != x.size then .error .valueError else acc.combine x) m

/-! ### save / load -/

/-- the content of a chunk file: the filled prefixes of the three arrays and the size -/
structure CDMFile (α : Type) where
  rows : List Int
  cols : List Int
  vals : List α
  size : Int
deriving Repr

/-- `ChunkedDistanceMatrix.save`: `row_indices[:current_index]`, `col_indices[:current_index]`, `values[:current_index]`, `size`,
    the indices written as the int64 they are -/
def CDM.save (m : CDM α) : CDMFile α :=
  { rows := m.entries.map (fun e => e.1), cols := m.entries.map (fun e => e.2.1), vals := m.entries.map (fun e => e.2.2), size := m.size }

/-- `ChunkedDistanceMatrix.load`: the three arrays copied back side by side -/
def CDM.load (f : CDMFile α) : CDM α :=
  { size := f.size, entries := List.zip f.rows (List.zip f.cols f.vals) }

/-- `np.int64(x).astype(np.int8)`: the value modulo 256 in `[-128, 128)` -/
def toInt8 (x : Int) : Int := Int.emod (x + 128) 256 - 128

/-- REGRESSION DEFINITION (seeded change S5-C07, not the code in /repo): `save` stores the indices in "the smallest dtype that
    fits", chosen as int8 whenever `size ≤ 256` (forgetting the sign bit) -/
def CDM.saveInt8 (m : CDM α) : CDMFile α :=
  if m.size ≤ 256 then
    { rows := m.entries.map (fun e => toInt8 e.1), cols := m.entries.map (fun e => toInt8 e.2.1),
      vals := m.entries.map (fun e => e.2.2), size := m.size }
  else m.save

/-- `calculate_pairwise_distance_matrix_on_predictions` with `metric i j` standing for
    `distance_metric.distance(theta_i.predict_viability(data), theta_j.predict_viability(data))` -/
def calcChunk (n c k : Int) (metric : Int → Int → α) : Except Err (CDM α) := do
  let idx ← chunk n c k
  idx.foldlM (fun (acc : CDM α) p => acc.addValue p.1 p.2 (metric p.1 p.2)) (CDM.empty n)

/-- the whole pipeline of the CLI + `concat`: every listed chunk index is computed independently
    (`calculate_distance_matrix --chunk-index c --n-chunks k`, saved, loaded -- identity on the filled
    prefix) and the loaded matrices are concatenated in the listed order. -/
def assemble (n k : Int) (metric : Int → Int → α) (cs : List Int) : Except Err (CDM α) :=
  match cs.mapM (fun c => calcChunk n c k metric) with
  | .error e => .error e
  | .ok ms => CDM.concat ms

/-- `MSEDistance.distance(a, b)`: `np.mean((f(a) - f(b)) ** 2)` where `f` is `expit` applied pointwise
    (`sigmoid=True`) or the identity; `cast` is the conversion of the element count into `α`.
    Generic over the number type: `Float` in the driver, `ℝ` in the theorems. -/
def mseDist [Add α] [Sub α] [Mul α] [Div α] [OfNat α 0] (cast : Nat → α) (f : α → α) (a b : List α) : α :=
  let d := List.zipWith (fun x y => (f x - f y) * (f x - f y)) a b
  d.foldl (· + ·) 0 / cast d.length

def expitF (x : Float) : Float := 1.0 / (1.0 + Float.exp (-x))

/-! ### driver -/

def showEntries (l : List (Int × Int × Int)) : String :=
  if l.isEmpty then "-" else ";".intercalate (l.map (fun e => s!"{e.1},{e.2.1},{e.2.2}"))

def parseEntries? (s : String) : Option (List (Int × Int × Int)) :=
  if s == "-" then some []
  else (s.splitOn ";").mapM (fun t => match (t.splitOn ",").mapM parseInt? with
    | some [a, b, c] => some (a, b, c) | _ => none)

def showCDM : Except Err (CDM Int) → String
  | .error e => showErr e
  | .ok m => s!"{m.size} {showEntries m.entries}"

/-- stub metric used by the correspondence: encodes the pair in the value; `zmod` makes some
    distances exactly zero -/
def stubMetric (zmod : Int) (i j : Int) : Int :=
  let v := i * 1000 + j + 1
  if zmod > 0 && v % zmod == 0 then 0 else v

/-- parse a list of matrices: `size|entries` separated by `/` -/
def parseCDMs? (s : String) : Option (List (CDM Int)) :=
  if s == "-" then some []
  else (s.splitOn "/").mapM (fun t => match t.splitOn "|" with
    | [a, b] => do
        let sz ← parseInt? a
        let es ← parseEntries? b
        pure { size := sz, entries := es }
    | _ => none)

/-- a matrix built by hand: `m = ChunkedDistanceMatrix(n)` followed by `m.add_value(i, j, v)` for every listed entry, in order
    (the first refused entry raises).  Only meaningful for `n ≥ 2`: for `n ≤ 1` the storage of the real object has length 0 and
    `add_value` dies with an `IndexError` in `_expand_storage`'s wake -- a state the pipeline never reaches and the model does not cover. -/
def buildFrom {α : Type} (n : Int) (es : List (Int × Int × α)) : Except Err (CDM α) :=
  es.foldlM (fun (acc : CDM α) e => acc.addValue e.1 e.2.1 e.2.2) (CDM.empty n)

def handle : List String → Option String
  | ["roundtrip", ms] => do
      let ms ← parseCDMs? ms
      pure ("/".intercalate (ms.map (fun m => showCDM (.ok (CDM.load (CDM.save m))))))
  | ["build", n, es] => do
      let n ← parseInt? n; let es ← parseEntries? es
      pure (showCDM (buildFrom n es))
  | ["numlowertri", n] => do
      let n ← parseInt? n
      pure (toString (numLowerTri n))
  | ["lowertri", n] => do
      let n ← parseInt? n
      pure (showPairs (lowerTri n))
  | ["chunkbounds", n, c, k] => do
      let n ← parseInt? n; let c ← parseInt? c; let k ← parseInt? k
      if chunkErr n c k then pure "err" else pure s!"{chunkStart n c k} {chunkEnd n c k}"
  | ["chunk", n, c, k] => do
      let n ← parseInt? n; let c ← parseInt? c; let k ← parseInt? k
      match chunk n c k with
      | .error _ => pure "err"
      | .ok l => pure (showPairs l)
  | ["calc", n, c, k, z] => do
      let n ← parseInt? n; let c ← parseInt? c; let k ← parseInt? k; let z ← parseInt? z
      match calcChunk n c k (stubMetric z) with
      | .error _ => pure "err"
      | .ok m => pure (showCDM (.ok m))
  | ["concat", ms] => do
      let ms ← parseCDMs? ms
      pure (showCDM (CDM.concat ms))
  | ["dense", ms] => do
      let ms ← parseCDMs? ms
      match CDM.concat ms with
      | .error e => pure (showErr e)
      | .ok m => match m.toDense with
        | .error e => pure (showErr e)
        | .ok d => pure (showIntListList d)
  | ["assemble", n, k, z, cs] => do
      let n ← parseInt? n; let k ← parseInt? k; let z ← parseInt? z; let cs ← parseIntList? cs
      match assemble n k (stubMetric z) cs with
      | .error e => pure (showErr e)
      | .ok m => match m.toDense with
        | .error e => pure (showErr e)
        | .ok d => pure (showIntListList d)
  | ["mse", sig, a, b] => do
      let sig ← parseBool? sig; let a ← parseNatList? a; let b ← parseNatList? b
      let fa := a.map (fun x => Float.ofBits x.toUInt64)
      let fb := b.map (fun x => Float.ofBits x.toUInt64)
      let r := mseDist (fun n => n.toFloat) (if sig then expitF else id) fa fb
      pure (toString r.toBits.toNat)
  | _ => none

end Batchie.Chunks
