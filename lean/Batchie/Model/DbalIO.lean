/-
  Driver side of the C05 model: `ExpLog Float`, the line protocol and the shape checks of the
  Python entry points (`ValueError`s).  Import-free, executable.

  Encoding (all floats travel as decimal IEEE-754 bit patterns):
    row      `b,b,b`        (`_` = empty row)
    matrix   `row;row`      (`-` = no rows)
    3-d      `matrix|matrix`
    triples  `a,b,c;a,b,c`  (`-` = none); per-call triple lists are joined by `/`
-/
import Batchie.Model.Proto
import Batchie.Model.Dbal

namespace Batchie.Dbal
open Batchie.Proto

instance : ExpLog Float := ⟨Float.exp, Float.log, fun x => x == 0⟩

def parseF? (s : String) : Option Float := do
  let n ← s.toNat?
  if n < 2 ^ 64 then pure (Float.ofBits (UInt64.ofNat n)) else none

def parseRow? (s : String) : Option (List Float) :=
  if s == "_" || s == "-" then some [] else (s.splitOn ",").mapM parseF?

def parseMat? (s : String) : Option (List (List Float)) :=
  if s == "-" then some [] else (s.splitOn ";").mapM parseRow?

def parse3? (s : String) : Option (List (List (List Float))) :=
  if s == "" then some [] else (s.splitOn "|").mapM parseMat?

def parseTriples? (s : String) : Option (List Triple) :=
  if s == "-" then some []
  else (s.splitOn ";").mapM (fun t => do
    match ← parseNatList? t with
    | [a, b, c] => pure (a, b, c)
    | _ => none)

def showF (x : Float) : String := toString x.toBits.toNat

def showRow (r : List Float) : String := if r.isEmpty then "_" else ",".intercalate (r.map showF)

def showMat (m : List (List Float)) : String := if m.isEmpty then "-" else ";".intercalate (m.map showRow)

def show3 (a : List (List (List Float))) : String := "|".intercalate (a.map showMat)

def lookupD (d : List (List Float)) (i j : Nat) : Float := (rowAt d i).getD j 0

/-- NaN cells of a dense variance array are the padding -/
def optArray (a : List (List Float)) : List (List (Option Float)) :=
  a.map (fun r => r.map (fun x => if x.isNaN then none else some x))

def shapes {β : Type} (a : List (List (List β))) : List (List Nat) := a.map (fun m => m.map List.length)

def choose3 (n : Nat) : Nat := n * (n - 1) * (n - 2) / 6

/-- the `ValueError`s of `dbal_fast_gauss_scoring_vectorized` (shape checks, `< 3` thetas) -/
def vectorisedChecked (d : List (List Float)) (factor : Float) (triples : List Triple)
    (preds : List (List (List Float))) (vars : List (List (List (Option Float)))) : Except Err (List Float) :=
  if shapes preds != shapes vars then .error .valueError
  else if d.any (fun r => r.length != d.length) then .error .valueError
  else if preds.any (fun m => m.length != d.length) then .error .valueError
  else if choose3 d.length == 0 then .error .valueError
  else .ok (scoreVectorised (lookupD d) factor triples preds vars)

def showRes : Except Err (List Float) → String
  | .error e => showErr e
  | .ok l => showRow l

def handle : List String → Option String
  | ["dbal.split", len, n] => do
      let len ← parseNat? len; let n ← parseNat? n
      pure (showNatList ((arraySplit (List.range len) n).map List.length))
  | ["dbal.alltriples", n] => do
      let n ← parseNat? n
      let ts := allTriples n
      pure (if ts.isEmpty then "-" else ";".intercalate (ts.map (fun t => s!"{t.1},{t.2.1},{t.2.2}")))
  | ["dbal.pad", pad, arrs] => do
      let pad ← parseF? pad; let arrs ← parse3? arrs
      pure (show3 (padRagged pad arrs))
  | ["dbal.direct", f, d, ts, m, v] => do
      let f ← parseF? f; let d ← parseMat? d; let ts ← parseTriples? ts
      let m ← parse3? m; let v ← parse3? v
      pure (showRow (List.zipWith (fun pm pv => scoreDirect (lookupD d) f (plateOfArrays pm pv) ts) m v))
  | ["dbal.vec", f, d, ts, m, v] => do
      let f ← parseF? f; let d ← parseMat? d; let ts ← parseTriples? ts
      let m ← parse3? m; let v ← parse3? v
      pure (showRes (vectorisedChecked d f ts m (v.map optArray)))
  | ["dbal.het", f, d, ts, m, v] => do
      let f ← parseF? f; let d ← parseMat? d; let ts ← parseTriples? ts
      let m ← parse3? m; let v ← parse3? v
      if shapes m != shapes v then pure (showErr .valueError)
      else pure (showRes (vectorisedChecked d f ts (padRagged 0 m) (padRagged none (v.map someArray))))
  | ["dbal.hom", f, d, ts, m, v] => do
      let f ← parseF? f; let d ← parseMat? d; let ts ← parseTriples? ts
      let m ← parse3? m; let v ← parseMat? v
      if m.length != v.length then pure (showErr .valueError)
      else if (List.zipWith (fun pm pv => pm.length != pv.length) m v).any id then pure (showErr .valueError)
      else pure (showRes (vectorisedChecked d f ts (padRagged 0 m)
              (padRagged none ((homoscedasticRagged m v).map someArray))))
  | ["dbal.scorer", n, maxChunk, d, tss, ids, m, v] => do
      let n ← parseNat? n; let maxChunk ← parseNat? maxChunk; let d ← parseMat? d
      let tss ← (tss.splitOn "/").mapM parseTriples?
      let ids ← parseNatList? ids
      let m ← parse3? m; let v ← parse3? v
      if ids.length != m.length || ids.length != v.length then none
      else
        let plates := ids.zip (List.zipWith plateOfArrays m v)
        let out := scorerScore n (lookupD d) maxChunk (fun g => tss.getD g []) plates
        pure (if out.isEmpty then "-" else ";".intercalate (out.map (fun kv => s!"{kv.1}:{showF kv.2}")))
  | _ => none

end Batchie.Dbal
