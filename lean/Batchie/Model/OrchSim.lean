/-
  C19 -- a concrete instance of the abstract pipeline `Cfg.pubs` of `Model/Orchestrator.lean`: the retrospective
  simulation "reveal one unobserved plate per step" over plates `0 .. N-1`.

  A screen file's content is the BITMASK of its unobserved plates (bit `q` set = plate `q` not yet observed).  A step
  reads its input screen (the user's screen for the first step: mask `M0`, otherwise the file reference of the launch
  record), selects a plate with an arbitrary selection function `sel` of (unobserved mask, excludes), publishes
  `selected_plate`, the advanced screen (that bit cleared) and `screen_metadata.json` carrying the number of unobserved
  plates left -- what `select_next_plate`, `reveal_plate`, `extract_screen_metadata` do (validated at system level by
  `harness/c19_system.py` on the real command line tools).
-/
import Batchie.Model.Orchestrator

namespace Batchie.Orchestrator

structure SimCfg where
  /-- plates are `0 .. N-1` -/
  N : Nat
  /-- unobserved plates of the first training screen -/
  M0 : Nat
  /-- `select_next_plate`: (mask of unobserved plates, excluded plate ids) ↦ selected plate id -/
  sel : Nat → List Nat → Nat

/-- number of unobserved plates of a screen (`n_unobserved_plates`) -/
def cntBits (N m : Nat) : Nat := ((List.range N).filter (fun q => m.testBit q)).length

/-- the unobserved mask of the screen a launch starts from -/
def mIn (sc : SimCfg) (l : Launch) : Nat :=
  match l.screen with
  | none => sc.M0
  | some r => r.file.content

def selOf (sc : SimCfg) (l : Launch) : Nat := sc.sel (mIn sc l) (l.excludes.getD [])

/-- `reveal_plate`: the selected plate becomes observed -/
def mOut (sc : SimCfg) (l : Launch) : Nat :=
  if (mIn sc l).testBit (selOf sc l) then mIn sc l ^^^ 2 ^ selOf sc l else mIn sc l

def simCore (sc : SimCfg) (l : Launch) : List File :=
  [⟨.selected, selOf sc l⟩, ⟨.advanced, mOut sc l⟩, ⟨.marker, cntBits sc.N (mOut sc l)⟩]

def simPubs (sc : SimCfg) (l : Launch) : List File :=
  match l.wf with
  | .initial => [⟨.training, mIn sc l⟩, ⟨.test, 0⟩, ⟨.thetas 0, 0⟩, ⟨.dist 0, 0⟩] ++ simCore sc l
  | .firstBatch => [⟨.thetas 0, 0⟩, ⟨.dist 0, 0⟩] ++ simCore sc l
  | _ => simCore sc l

def simCfg (B : Nat) (sc : SimCfg) : Cfg := ⟨.retrospective, B, simPubs sc⟩

end Batchie.Orchestrator
