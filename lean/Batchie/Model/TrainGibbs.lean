/-
  Training data → Gibbs sampler → posterior samples → scoring pipeline, composed (C04).

    `train_model.main`:  `model.add_observations(data.subset_observed())`     (`Batchie.Model.Train`, C04)
    `sampling.sample`:   `n_burnin` sweeps, then `n_thetas * thin` sweeps, a sample exported after every `thin`-th one
                          (`Batchie.Model.Gibbs`, C08: `mcmcStep`, `exportState`)
    the exported samples feed the concrete scoring pipeline                   (`Batchie.Model.ScorePipeline`)

  Randomness is explicit as in the Gibbs model: the VALUE every draw returns is an argument (`ωs`, one choice log per
  sweep), so "same seed" is "same drawn values".  The sampler's initial state (`reset_model`) and its hyper-parameters
  are arguments too: they are functions of the experiment space (`n_unique_samples`, `n_unique_treatments`: read from
  the screen's mappings, never from observations) and of constants.  Only the default-option `SparseDrugCombo` sampler
  has a model (C08); `SparseDrugComboInteraction`'s sampler has none.  Import-free, generic over the number type.
-/
import Batchie.Model.Train
import Batchie.Model.Gibbs
import Batchie.Model.ScorePipeline

namespace Batchie.TrainGibbs
open Batchie.Proto Batchie.Screen Batchie.Scores Batchie.Train

section
variable {α : Type} [Add α] [Mul α] [Sub α] [Neg α] [Div α] [Max α] [Min α] [Gibbs.HasSqrt α]
  [OfNat α 0] [OfNat α 1] [OfNat α 2] [OfNat α 3] [OfNat α 1000] [OfNat α 1000000]

/-- the sampler's view of the recorded training rows (`wrapped_model.y / cline / dd1 / dd2`) -/
def gibbsData (nC nT D : Nat) (a0 b0 : α) (t : Trained α) : Gibbs.Data α :=
  { nC := nC, nT := nT, D := D, N := t.tuples.length,
    y := fun n => ((t.tuples[n]?).map (fun e => e.1)).getD 0,
    cline := fun n => ((t.tuples[n]?).map (fun e => e.2.1.toNat)).getD 0,
    dd1 := fun n => ((t.tuples[n]?).map (fun e => e.2.2.1)).getD (-1),
    dd2 := fun n => ((t.tuples[n]?).map (fun e => e.2.2.2)).getD (-1),
    a0 := a0, b0 := b0 }

/-- the state after every sweep, exported -/
def sweepThetas (dt : Gibbs.Data α) : List (Gibbs.Draws α) → Gibbs.State α → List (Gibbs.Theta α)
  | [], _ => []
  | ω :: rest, st =>
    let st' := Gibbs.mcmcStep dt ω st
    Gibbs.exportState st' :: sweepThetas dt rest st'

/-- `sampling.sample`: drop the burn-in sweeps, keep every `thin`-th of the rest -/
def keepThinned {β : Type} (burnin thin : Nat) (l : List β) : List β :=
  ((l.drop burnin).zipIdx.filter (fun e => (e.2 + 1) % thin == 0)).map Prod.fst

/-- `train_model.main` for `SparseDrugCombo`: the posterior samples written to the thetas file -/
def posterior (transform : Nat → α) (nanT : α → Bool) (D : Nat) (a0 b0 : α) (st0 : Gibbs.State α)
    (ωs : List (Gibbs.Draws α)) (burnin thin : Nat) (s : Screen) : Except Err (List (Gibbs.Theta α)) :=
  (trainRows .sparseDrugCombo transform nanT s).map (fun t =>
    keepThinned burnin thin
      (sweepThetas (gibbsData (nUniqueSamples s.smap) (nUniqueTreatments s.tmap) D a0 b0 t) ωs st0))

/-- `get_model_state()` as the arrays the prediction code indexes -/
def toPredict (nC nT D : Nat) (θ : Gibbs.Theta α) : Predict.Theta α :=
  { W := (List.range nC).map (fun c => (List.range D).map (θ.W c)),
    W0 := (List.range nC).map θ.W0,
    V2 := (List.range nT).map (fun m => (List.range D).map (θ.V2 m)),
    V1 := (List.range nT).map (fun m => (List.range D).map (θ.V1 m)),
    V0 := (List.range nT).map θ.V0,
    alpha := θ.alpha, precision := θ.precision }

end

section
variable {α : Type} [Add α] [Mul α] [Sub α] [Neg α] [Div α] [Max α] [Min α] [Gibbs.HasSqrt α]
  [OfNat α 0] [OfNat α 1] [OfNat α 2] [OfNat α 3] [OfNat α 1000] [OfNat α 1000000]
  [Zero α] [One α] [OfScientific α] [LT α] [DecidableLT α] [Predict.ExpLog α] [Dbal.ExpLog α]

/-- screen file → trained model → posterior samples → distance matrix → DBAL scores per chunk → holders → selected plate:
    the whole retrospective step on the models of its stages -/
def endToEnd (num : ScorePipeline.Num α) (transform : Nat → α) (nanT : α → Bool) (D : Nat) (a0 b0 : α) (st0 : Gibbs.State α)
    (ωs : List (Gibbs.Draws α)) (burnin thin : Nat) (kDist kScore : Nat) (batch : List Int) (maxChunk : Nat)
    (draws : Nat → Nat → List Nat) (policy : Option Policy) (s : Screen) : Except Err (ScorePipeline.Result α) := do
  let thetas ← posterior transform nanT D a0 b0 st0 ωs burnin thin s
  ScorePipeline.run num s (thetas.map (toPredict (nUniqueSamples s.smap) (nUniqueTreatments s.tmap) D))
    kDist kScore batch maxChunk draws policy

end

end Batchie.TrainGibbs
