/-
  Hand model of batchie's retrospective *preparation* layer (properties C11, C13):

    * `core.py`  `RetrospectivePlateGenerator.generate_plates`, `RetrospectivePlateSmoother.smooth_plates`
      (split by mask, `to_screen`, operate, recombine) and the initial-plate wrapper,
    * `retrospective.py`  PlatePermutation / SampleSegregatingPermutation / Pairwise generators, SparseCover initial plate,
      FixedSize / OptimalSize / NPlatePerCellLine / MergeMin / MergeTopBottom / BatchieEnsemble smoothers, both hold-out splits,
    * `data.py`  `Plate.merge` (in-place relabel + re-encoding of the plate ids), `Screen.combine`,
      `filter_dataset_to_treatments_that_appear_in_at_least_one_combo`.

  Built on the shared `Model/Screen.lean` (`mk?` = `Screen.__init__`: every screen the code constructs is constructed
  here by `mk?`, so ids are re-encoded exactly where the code re-encodes them).

  Conventions
    * an experiment is a `Row` (sample name, treatment names, doses, observation bits, plate name, mask);
      `rowsOf s` are the rows of a screen, `build` constructs a screen from rows (no mappings, like `to_screen`/`combine`).
    * randomness is an explicit *choice log* argument holding the values the generator returned; every operation
      checks the generator contract on the log (`permutation(xs)` is a permutation of `xs`, `choice(xs,k,replace=False)`
      returns `k` distinct members of `xs`, `heappop` returns a plate of minimal size) and answers `err:Other` when the
      log violates it -- so "the operation returned `.ok`" includes "the log satisfies the contract".
    * import-free and executable.
-/
import Batchie.Model.Screen

namespace Batchie.Prep
open Batchie.Proto Batchie.Screen

/-! ### rows -/

structure Row where
  sample : Name
  tn : List Name
  td : List Dose
  obs : Nat
  plate : Name
  mask : Bool
deriving Repr, BEq, DecidableEq, Inhabited

/-- the experiment of a row: what C11 conserves -/
def Row.exp (r : Row) : Name × List Name × List Dose × Nat := (r.sample, r.tn, r.td, r.obs)

def mkRow (x : ((((Name × List Name) × List Dose) × Nat) × Name) × Bool) : Row :=
  ⟨x.1.1.1.1.1, x.1.1.1.1.2, x.1.1.1.2, x.1.1.2, x.1.2, x.2⟩

def rowsOf (s : Screen) : List Row :=
  (((((s.snames.zip s.tnames).zip s.tdoses).zip s.obs).zip s.pnames).zip s.mask).map mkRow

def rawOfRows (ctrl : Name) (arity : Nat) (rows : List Row) (tmap : Option TMap) (smap : Option SMap) : Raw :=
  { ctrl := ctrl, arity := arity, tnames := rows.map (·.tn), tdoses := rows.map (·.td), snames := rows.map (·.sample),
    pnames := rows.map (·.plate), obs := some (rows.map (·.obs)), mask := some (rows.map (·.mask)), tmap := tmap, smap := smap }

/-- `Screen(...)` from rows without mappings (what `to_screen`, `combine` and every generator do) -/
def build (ctrl : Name) (arity : Nat) (rows : List Row) : Except Err Screen := mk? (rawOfRows ctrl arity rows none none)

/-- `screen.subset(sel).to_screen()` -/
def select (s : Screen) (sel : List Bool) : Except Err Screen := build s.ctrl s.arity (maskFilter (rowsOf s) sel)

/-- `Screen.combine` -/
def combine (a b : Screen) : Except Err Screen :=
  if a.ctrl != b.ctrl then .error .valueError else build a.ctrl a.arity (rowsOf a ++ rowsOf b)

def setPlates (rows : List Row) (pn : List Name) : List Row := List.zipWith (fun r p => { r with plate := p }) rows pn

def clearMask (rows : List Row) : List Row := rows.map (fun r => { r with mask := false })

def observedRows (s : Screen) : List Row := (rowsOf s).filter (·.mask)
def unobservedRows (s : Screen) : List Row := (rowsOf s).filter (fun r => !r.mask)

/-! ### numpy idioms -/

/-- `np.unique` of an integer array -/
def uniqueSorted (ids : List Int) : List Int := (ids.eraseDups).mergeSort (fun a b => decide (a ≤ b))

/-- `np.arange(n)[ids == x]` -/
def idxOfId (ids : List Int) (x : Int) : List Nat := (List.range ids.length).filter (fun i => ids[i]! == x)

/-- `np.arange(n)[sel]` -/
def idxOfSel (sel : List Bool) : List Nat := (List.range sel.length).filter (fun i => sel[i]!)

/-- `np.isin(np.arange(n), chosen)` -/
def selOfIdx (n : Nat) (chosen : List Nat) : List Bool := (List.range n).map (fun i => chosen.contains i)

def ceilDiv (a b : Nat) : Nat := (a + b - 1) / b

/-- section sizes of `np.array_split(arr, k)` -/
def splitSizes (len k : Nat) : List Nat := (List.range k).map (fun i => if i < len % k then len / k + 1 else len / k)

def takeChunks {α : Type} : List α → List Nat → List (List α)
  | _, [] => []
  | l, n :: ns => l.take n :: takeChunks (l.drop n) ns

def arraySplit {α : Type} (l : List α) (k : Nat) : List (List α) := takeChunks l (splitSizes l.length k)

/-- decimal digits (code points) of `n`; `fuel` bounds the number of digits -/
def decDigitsF : Nat → Nat → List Nat
  | 0, n => [48 + n % 10]
  | f + 1, n => if n < 10 then [48 + n] else decDigitsF f (n / 10) ++ [48 + n % 10]

def decDigits (n : Nat) : List Nat := decDigitsF n n

/-- `"generated_plate_"` -/
def genPrefix : Name := [103, 101, 110, 101, 114, 97, 116, 101, 100, 95, 112, 108, 97, 116, 101, 95]

/-- `f"generated_plate_{i}"` -/
def genName (i : Nat) : Name := genPrefix ++ decDigits i

/-- `"initial_plate"` -/
def initialPlateName : Name := [105, 110, 105, 116, 105, 97, 108, 95, 112, 108, 97, 116, 101]
/-- `"unobserved_plate"` written into a `<U13` array: numpy truncates it to `"unobserved_pl"` -/
def unobservedPlateName : Name := [117, 110, 111, 98, 115, 101, 114, 118, 101, 100, 95, 112, 108]

/-- the plates of a screen as index lists, in plate-id order (`screen.plates`) -/
def plateIdx (s : Screen) : List (List Nat) := (uniqueSorted s.pids).map (idxOfId s.pids)

/-- the generator contract of `choice(p, k, replace=False)` on a returned value `c` -/
def validChoice (p : List Nat) (k : Nat) (c : List Nat) : Bool :=
  c.length == k && decide c.Nodup && c.all (fun i => p.contains i)

/-! ### the wrappers of `core.py` -/

/-- `generate_plates` / `smooth_plates`: split by mask, `to_screen`, operate on the unobserved part, recombine -/
def wrap (op : Screen → Except Err Screen) (s : Screen) : Except Err Screen :=
  let m := (rowsOf s).map (·.mask)
  if !(m.any (!·)) then .ok s
  else do
    let u ← select s (m.map (!·))
    let nu ← op u
    if !(m.any id) then pure nu
    else do
      let o ← select s m
      combine nu o

/-! ### PlatePermutationPlateGenerator -/

def genPermutation (force : List Name) (perm : List Name) (u : Screen) : Except Err Screen := do
  let rows := rowsOf u
  let sel := if force.isEmpty then rows.map (fun _ => true) else rows.map (fun r => !force.contains r.plate)
  let tp ← select u sel
  let tpRows := rowsOf tp
  if !(perm.isPerm (tpRows.map (·.plate))) then throw .other
  let permuted ← build u.ctrl u.arity (clearMask (setPlates tpRows perm))
  if sel.any (!·) then do
    let np ← select u (sel.map (!·))
    combine permuted np
  else pure permuted

/-! ### SampleSegregatingPermutationPlateGenerator -/

/-- the loop over `unique_sample_ids`: one recorded permutation per sample, split into `ceil(len/max)` sections -/
def segChunks (sids : List Int) (maxSize : Int) : List Int → List (List Nat) → Except Err (List (List Nat))
  | [], _ => .ok []
  | x :: xs, log =>
    if maxSize == 0 then .error .zeroDivision
    else if maxSize < 0 then .error .valueError
    else match log with
      | [] => .error .other
      | perm :: rest =>
        let idx := idxOfId sids x
        if !(perm.isPerm idx) then .error .other
        else do
          let more ← segChunks sids maxSize xs rest
          pure (arraySplit perm (ceilDiv idx.length maxSize.toNat) ++ more)

/-- `plate_names[indices] = f"generated_plate_{idx}"` for every chunk in turn: the last chunk holding `i` names it -/
def labelOf (chunks : List (List Nat)) (i : Nat) : Name :=
  match chunks.zipIdx.reverse.find? (fun c => c.1.contains i) with
  | some c => genName c.2
  | none => []

def genSegregating (maxSize : Int) (perms : List (List Nat)) (u : Screen) : Except Err Screen := do
  let rows := rowsOf u
  let chunks ← segChunks u.sids maxSize (uniqueSorted u.sids) perms
  build u.ctrl u.arity (setPlates rows ((List.range rows.length).map (labelOf chunks)))

/-- the generator as it was before commit f545492 (regression model): only samples **above** the limit get plates -/
def segChunksOld (sids : List Int) (maxSize : Int) : List Int → List (List Nat) → Except Err (List (List Nat))
  | [], _ => .ok []
  | x :: xs, log =>
    let idx := idxOfId sids x
    if (idx.length : Int) > maxSize then
      if maxSize == 0 then .error .zeroDivision
      else if maxSize < 0 then .error .valueError
      else match log with
        | [] => .error .other
        | perm :: rest =>
          if !(perm.isPerm idx) then .error .other
          else do
            let more ← segChunksOld sids maxSize xs rest
            pure (arraySplit perm (ceilDiv idx.length maxSize.toNat) ++ more)
    else segChunksOld sids maxSize xs log

def genSegregatingOld (maxSize : Int) (perms : List (List Nat)) (u : Screen) : Except Err Screen := do
  let rows := rowsOf u
  let chunks ← segChunksOld u.sids maxSize (uniqueSorted u.sids) perms
  build u.ctrl u.arity (setPlates rows ((List.range rows.length).map (labelOf chunks)))

/-! ### FixedSizeSmoother / OptimalSizeSmoother -/

/-- the loop over `screen.plates`: drop small plates, keep exact ones, subsample large ones with a recorded choice -/
def sizeLoop (k : Nat) : List (List Nat) → List (List Nat) → Except Err (List Nat)
  | [], _ => .ok []
  | p :: ps, log =>
    if p.length < k then sizeLoop k ps log
    else if p.length == k then (p ++ ·) <$> sizeLoop k ps log
    else match log with
      | [] => .error .other
      | c :: rest => if !(validChoice p k c) then .error .other else (c ++ ·) <$> sizeLoop k ps rest

def fixedSize (k : Int) (choices : List (List Nat)) (u : Screen) : Except Err Screen :=
  let rows := rowsOf u
  if k < 0 then (if rows.isEmpty then select u [] else .error .valueError)
  else do
    let chosen ← sizeLoop k.toNat (plateIdx u) choices
    select u (selOfIdx rows.length chosen)

/-- index of the first maximum (`np.argmax`) -/
def argmaxGo : Nat → Nat → Nat → List Nat → Nat
  | _, bestI, _, [] => bestI
  | i, bestI, best, v :: vs => if v > best then argmaxGo (i + 1) i v vs else argmaxGo (i + 1) bestI best vs

def argmaxFirst : List Nat → Nat
  | [] => 0
  | v :: vs => argmaxGo 1 0 v vs

/-- `plate_sizes[np.argmax(plate_sizes * (len - arange(len)))]` over the sorted sizes -/
def optimalSize (sizes : List Nat) : Nat :=
  let srt := sizes.mergeSort (fun a b => decide (a ≤ b))
  let vals := srt.zipIdx.map (fun p => p.1 * (srt.length - p.2))
  srt[argmaxFirst vals]!

def optimalSizeSmoother (choices : List (List Nat)) (u : Screen) : Except Err Screen :=
  let rows := rowsOf u
  let plates := plateIdx u
  if plates.isEmpty then .error .valueError
  else do
    let k := optimalSize (plates.map (·.length))
    let chosen ← sizeLoop k plates choices
    select u (selOfIdx rows.length chosen)

/-! ### NPlatePerCellLineSmoother -/

/-- `_get_plate_sample_id` -/
def plateSampleId (sids : List Int) (idx : List Nat) : Except Err Int :=
  let us := (idx.map (fun i => sids[i]!)).eraseDups
  if us.length > 1 then .error .valueError
  else match us with
    | x :: _ => .ok x
    | [] => .error .indexError

def nPlate (minN : Int) (u : Screen) : Except Err Screen := do
  let psids ← (plateIdx u).mapM (plateSampleId u.sids)
  let drop := (psids.eraseDups).filter (fun x => decide ((psids.count x : Int) < minN))
  if drop.isEmpty then pure u
  else select u (u.sids.map (fun x => !drop.contains x))

/-- the smoother as it was before commit 71ddddc (regression model): drops one sample at a time through
    `subset(sample_ids != id).to_screen()`, comparing the ids decided on the *input* with re-encoded ids -/
def nPlateOldLoop : List Int → Screen → Except Err Screen
  | [], s => .ok s
  | x :: xs, s => do
    let t ← select s (s.sids.map (fun y => y != x))
    nPlateOldLoop xs t

def nPlateOld (minN : Int) (u : Screen) : Except Err Screen := do
  let psids ← (plateIdx u).mapM (plateSampleId u.sids)
  let drop := (psids.eraseDups).filter (fun x => decide ((psids.count x : Int) < minN))
  nPlateOldLoop drop u

/-! ### Plate.merge and the merge smoothers

  `Plate.merge` mutates `screen.plate_names` in place and re-encodes `screen._plate_ids` from the names; nothing else of
  the screen changes.  The mutable part is therefore the plate-name column `pn`; plate ids are always `encode(pn)`. -/

def encIds (pn : List Name) : Except Err (List Int) := (·.1) <$> encode1d pn none

/-- `current_screen.plates` as selection vectors, from the current names -/
def selsOf (pn : List Name) : Except Err (List (List Bool)) := do
  let ids ← encIds pn
  pure ((uniqueSorted ids).map (fun x => ids.map (· == x)))

def selSize (v : List Bool) : Nat := v.count true

/-- `a.merge(b)`: `a.sel |= b.sel; names[a.sel] = names[a.sel][0]`; returns the new names and `a`'s new selection -/
def mergeSel (pn : List Name) (a b : List Bool) : List Name × List Bool :=
  let u := List.zipWith (· || ·) a b
  let nm := (maskFilter pn u).head!
  (List.zipWith (fun p m => if m then nm else p) pn u, u)

/-- `_get_plate_sample_id` on a selection vector -/
def selSampleId (sids : List Int) (v : List Bool) : Except Err Int :=
  let us := (maskFilter sids v).eraseDups
  if us.length > 1 then .error .valueError
  else match us with
    | x :: _ => .ok x
    | [] => .error .indexError

/-- `[p for p in current_screen.plates if self._get_plate_sample_id(p) == sample_id]` (raises for a multi-sample plate) -/
def platesOfSample (sids : List Int) (pn : List Name) (x : Int) : Except Err (List (List Bool)) := do
  let sels ← selsOf pn
  let ids ← sels.mapM (selSampleId sids)
  pure ((sels.zip ids).filter (fun p => p.2 == x) |>.map (·.1))

/-- identity of a plate in the recorded heap log: its first row index -/
def firstTrue (v : List Bool) : Nat := v.idxOf true

/-- contract of `heapq.heappop`: the returned plate (named by the log) is in the heap and no plate is smaller -/
def popMin (heap : List (List Bool)) (id : Nat) : Except Err (List Bool × List (List Bool)) :=
  match heap.find? (fun v => firstTrue v == id) with
  | none => .error .other
  | some v => if heap.all (fun w => selSize v ≤ selSize w) then .ok (v, heap.erase v) else .error .other

/-- the `while True` loop of `MergeMinPlateSmoother` for one sample; `fuel` is the heap length (each round shrinks the heap) -/
def mmLoop (minSize : Int) : Nat → List (List Bool) → List Nat → List Name → Except Err (List Name × List Nat)
  | 0, heap, pops, pn => if heap.length ≤ 1 then .ok (pn, pops) else .error .other
  | fuel + 1, heap, pops, pn =>
    if heap.length ≤ 1 then .ok (pn, pops)
    else match pops with
      | a :: b :: rest => do
        let (pa, h1) ← popMin heap a
        let (pb, h2) ← popMin h1 b
        if ((selSize pa + selSize pb : Nat) : Int) > minSize then pure (pn, rest)
        else
          let (pn', merged) := mergeSel pn pb pa
          mmLoop minSize fuel (merged :: h2) rest pn'
      | _ => .error .other

def mmSamples (sids : List Int) (minSize : Int) : List Int → List Nat → List Name → Except Err (List Name)
  | [], _, pn => .ok pn
  | x :: xs, pops, pn => do
    let heap ← platesOfSample sids pn x
    let (pn', pops') ← mmLoop minSize heap.length heap pops pn
    mmSamples sids minSize xs pops' pn'

/-- the screen after in-place merging: only `plate_names` and `_plate_ids` changed (`_plate_mapping` is left stale) -/
def relabel (u : Screen) (pn : List Name) : Except Err Screen := do
  let ids ← encIds pn
  pure { u with pnames := pn, pids := ids }

def mergeMin (minSize : Int) (pops : List Nat) (u : Screen) : Except Err Screen := do
  let pn ← mmSamples u.sids minSize (uniqueSorted u.sids) pops u.pnames
  relabel u pn

/-- one iteration of the inner loop of `MergeTopBottomPlateSmoother` on the plates of one sample (`none` = `break`) -/
def tbStep (sids : List Int) (pn : List Name) (x : Int) : Except Err (Option (List Name)) := do
  let plates ← platesOfSample sids pn x
  if plates.length ≤ 1 then pure none
  else
    let srt := plates.mergeSort (fun a b => decide (selSize a ≤ selSize b))
    let half := srt.length / 2
    let pairs := (srt.take half).zip (srt.reverse.take half)
    pure (some (pairs.foldl (fun acc p => (mergeSel acc p.2 p.1).1) pn))

def tbIter (sids : List Int) (x : Int) : Nat → List Name → Except Err (List Name)
  | 0, pn => .ok pn
  | n + 1, pn => do
    match ← tbStep sids pn x with
    | none => pure pn
    | some pn' => tbIter sids x n pn'

def tbSamples (sids : List Int) (nIter : Nat) : List Int → List Name → Except Err (List Name)
  | [], pn => .ok pn
  | x :: xs, pn => do
    let pn' ← tbIter sids x nIter pn
    tbSamples sids nIter xs pn'

def mergeTopBottom (nIter : Int) (u : Screen) : Except Err Screen := do
  let pn ← tbSamples u.sids nIter.toNat (uniqueSorted u.sids) u.pnames
  relabel u pn

/-! ### BatchieEnsemblePlateSmoother: four *wrapped* smoothers in sequence -/

def ensemble (minSize nIter minN : Int) (pops : List Nat) (choices : List (List Nat)) (u : Screen) : Except Err Screen := do
  let a ← wrap (mergeMin minSize pops) u
  let b ← wrap (mergeTopBottom nIter) a
  let c ← wrap (optimalSizeSmoother choices) b
  wrap (nPlate minN) c

/-! ### hold-out splits -/

/-- both halves are rebuilt **with** the input's mappings; the hold-out half is marked fully observed -/
def holdoutSplit (s : Screen) (chosen : List Nat) : Except Err (Screen × Screen) := do
  let rows := rowsOf s
  let sel := selOfIdx rows.length chosen
  let keep ← mk? (rawOfRows s.ctrl s.arity (maskFilter rows (sel.map (!·))) (some s.tmap) (some s.smap))
  let hold ← mk? (rawOfRows s.ctrl s.arity ((maskFilter rows sel).map (fun r => { r with mask := true })) (some s.tmap) (some s.smap))
  pure (keep, hold)

/-- `plate.is_observed` for a plate given by its row indices -/
def plateObserved (mask : List Bool) (p : List Nat) : Bool := p.all (fun i => mask[i]!)

/-- the loop over `screen.plates` of the plate-balanced hold-out: skip observed plates, take the recorded choice of
    `kf size` rows from every unobserved one.  `kf` is the count as a function of the plate size: the caller passes
    `fun n => ceil(fl(n × fraction))` computed at IEEE double; the theorems hold for every `kf`. -/
def balancedLoop (kf : Nat → Nat) (mask : List Bool) : List (List Nat) → List (List Nat) → Except Err (List Nat)
  | [], _ => .ok []
  | p :: ps, log =>
    if plateObserved mask p then balancedLoop kf mask ps log
    else match log with
      | c :: rest => if !(validChoice p (kf p.length) c) then .error .other else (c ++ ·) <$> balancedLoop kf mask ps rest
      | [] => .error .other

def holdoutBalanced (kf : Nat → Nat) (choices : List (List Nat)) (s : Screen) : Except Err (Screen × Screen) := do
  let chosen ← balancedLoop kf ((rowsOf s).map (·.mask)) (plateIdx s) choices
  holdoutSplit s chosen

def holdoutRandom (kf : Nat → Nat) (choice : List Nat) (s : Screen) : Except Err (Screen × Screen) :=
  let n := (rowsOf s).length
  if !(validChoice (List.range n) (kf n) choice) then .error .other
  else holdoutSplit s choice

/-! ### filter_dataset_to_treatments_that_appear_in_at_least_one_combo -/

def comboRow (t : List Int) : Bool := t.all (· != -1)

def comboFilterSel (tids : List (List Int)) : List Bool :=
  let sel := (maskFilter tids (tids.map comboRow)).flatten
  tids.map (fun t => t.all (fun x => x == -1 || sel.contains x))

def comboFilter (s : Screen) : Except Err Screen :=
  if s.arity < 2 then .error .valueError else select s (comboFilterSel s.tids)

/-! ### SparseCoverPlateGenerator -/

structure CoverSt where
  covered : List Int
  chosen : List Nat
deriving Repr

/-- per-sample phase: prefer a row of the sample with a not-yet-covered treatment id, else any row of the sample -/
def coverSamples (sids : List Int) (tids : List (List Int)) : List Int → List Nat → CoverSt → Except Err (CoverSt × List Nat)
  | [], log, st => .ok (st, log)
  | x :: xs, log, st =>
    let own := idxOfId sids x
    let fresh := own.filter (fun i => (tids[i]!).any (fun t => !st.covered.contains t))
    let cand := if fresh.isEmpty then own else fresh
    match log with
    | [] => .error .other
    | c :: rest =>
      if !cand.contains c then .error .other
      else coverSamples sids tids xs rest { covered := st.covered ++ tids[c]!, chosen := st.chosen ++ [c] }

/-- `np.setdiff1d(treatment_ids, covered)` -/
def remaining (tids : List (List Int)) (covered : List Int) : List Int :=
  (uniqueSorted tids.flatten).filter (fun t => !covered.contains t)

/-- greedy phase: while some id is uncovered choose a row holding an uncovered id (recursion on the log) -/
def coverGreedy (tids : List (List Int)) : List Nat → CoverSt → Except Err CoverSt
  | log, st =>
    let rem := remaining tids st.covered
    if rem.isEmpty then .ok st
    else match log with
      | [] => .error .other
      | c :: rest =>
        let cand := (List.range tids.length).filter (fun i => (tids[i]!).any (fun t => rem.contains t))
        if !cand.contains c then .error .other
        else coverGreedy tids rest { covered := st.covered ++ tids[c]!, chosen := st.chosen ++ [c] }

def coverSel (s : Screen) (revealSingle : Bool) (log : List Nat) : Except Err (List Bool) := do
  let (st, log') ← coverSamples s.sids s.tids (uniqueSorted s.sids) log { covered := [], chosen := [] }
  let st' ← coverGreedy s.tids log' st
  let sel := selOfIdx s.tids.length st'.chosen
  pure (if revealSingle then List.zipWith (fun b t => b || t.any (· == -1)) sel s.tids else sel)

def sparseCover (revealSingle : Bool) (log : List Nat) (s : Screen) : Except Err Screen :=
  let rows := rowsOf s
  if !(rows.all (·.mask)) then .error .valueError
  else do
    let sel ← coverSel s revealSingle log
    build s.ctrl s.arity (List.zipWith (fun r b => { r with plate := if b then initialPlateName else unobservedPlateName, mask := b }) rows sel)

/-! ### PairwisePlateGenerator -/

def lexLe (a b : List Int) : Bool := decide (a ≤ b)

/-- contract of `unique[np.argsort(-counts)[:k]]` on the value `anchor` the code went on with: `k` distinct members of
    `uniq`, in non-increasing order of count, none of the left-out ids having a larger count than a chosen one.
    (numpy's default sort is not stable, so *which* of several equally frequent ids is taken comes from the log.) -/
def validAnchor (uniq : List Int) (counts : List Nat) (k : Nat) (anchor : List Int) : Bool :=
  let cnt := fun (t : Int) => counts[uniq.idxOf t]!
  anchor.length == min k uniq.length && anchor.eraseDups.length == anchor.length && anchor.all (fun t => uniq.contains t)
    && (anchor.zip (anchor.drop 1)).all (fun p => cnt p.2 ≤ cnt p.1)
    && (uniq.filter (fun t => !anchor.contains t)).all (fun t => anchor.all (fun a => cnt t ≤ cnt a))

def pyFloorDiv (a : Nat) (b : Int) : Except Err Int := if b == 0 then .error .zeroDivision else .ok (Int.fdiv a b)

/-- `np.array_split(perm, n)` where `perm` is the recorded permutation of `xs` -/
def splitPerm (xs perm : List Int) (n : Int) : Except Err (List (List Int)) :=
  if !(perm.isPerm xs) then .error .other
  else if n ≤ 0 then .error .valueError
  else .ok (arraySplit perm n.toNat)

def pairwiseGroups (subsetSize anchorSize : Int) (uniq : List Int) (counts : List Nat) (anchor : List Int)
    (perms : List (List Int)) : Except Err (List (List Int)) :=
  if anchorSize > 0 then do
    let na ← pyFloorDiv (min anchorSize.toNat uniq.length) subsetSize
    if !(validAnchor uniq counts anchorSize.toNat anchor) then throw .other
    let ag ← splitPerm anchor (perms.getD 0 []) na
    let remain := uniq.filter (fun t => !anchor.contains t)
    let nr ← pyFloorDiv remain.length subsetSize
    let rg ← splitPerm remain (perms.getD 1 []) nr
    pure (ag ++ rg)
  else do
    let n ← pyFloorDiv uniq.length subsetSize
    splitPerm uniq (perms.getD 0 []) n

/-- group id of a treatment id: the *last* group listing it (dict insertion order) -/
def groupOf (groups : List (List Int)) (t : Int) : Int :=
  match groups.zipIdx.reverse.find? (fun g => g.1.contains t) with
  | some g => g.2
  | none => -1

/-- single-treatment rows of every sample (sorted sample names) receive a recorded assignment among the combo plates
    of the same sample name -/
def pairwiseSingles (comboRows singleRows : List Row) : List Name → List (List Name) → Except Err (List (Name × List Name))
  | [], _ => .ok []
  | sname :: rest, log =>
    let n := (singleRows.filter (·.sample == sname)).length
    let eligible := ((comboRows.filter (·.sample == sname)).map (·.plate)).eraseDups
    if eligible.isEmpty then .error .valueError
    else match log with
      | [] => .error .other
      | a :: log' =>
        if !(a.length == n && a.all (fun p => eligible.contains p)) then .error .other
        else do
          let more ← pairwiseSingles comboRows singleRows rest log'
          pure ((sname, a) :: more)

/-- `new_plate_names[sample_names == name] = assignments`, in row order -/
def assignSingles : List Row → List (Name × List Name) → List Row
  | [], _ => []
  | r :: rs, asg =>
    match asg.find? (fun a => a.1 == r.sample) with
    | some (_, p :: ps) =>
      { r with plate := p, mask := false } :: assignSingles rs (asg.map (fun a => if a.1 == r.sample then (a.1, ps) else a))
    | _ => { r with plate := [], mask := false } :: assignSingles rs asg

def genPairwise (subsetSize anchorSize : Int) (anchor : List Int) (perms : List (List Int)) (assign : List (List Name))
    (u : Screen) : Except Err Screen := do
  let comboMask := u.tids.map comboRow
  let combo ← select u comboMask
  let single ← if comboMask.any (!·) then (some <$> select u (comboMask.map (!·))) else pure none
  let flat := combo.tids.flatten
  let uniq := uniqueSorted flat
  let counts := uniq.map (fun t => flat.count t)
  let groups ← pairwiseGroups subsetSize anchorSize uniq counts anchor perms
  let tuples := (combo.sids.zip combo.tids).map (fun p =>
    p.1 :: (p.2.map (groupOf groups)).mergeSort (fun a b => decide (a ≤ b)))
  let ut := (tuples.eraseDups).mergeSort lexLe
  let names := tuples.map (fun t => genName (ut.idxOf t))
  let comboGen ← build combo.ctrl combo.arity (clearMask (setPlates (rowsOf combo) names))
  match single with
  | none => pure comboGen
  | some sg =>
    let sRows := rowsOf sg
    let snames := ((sRows.map (·.sample)).eraseDups).mergeSort nameLe
    let asg ← pairwiseSingles (rowsOf comboGen) sRows snames assign
    let singleGen ← build sg.ctrl sg.arity (assignSingles sRows asg)
    combine comboGen singleGen

end Batchie.Prep
