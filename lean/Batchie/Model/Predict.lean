/-
  Hand model of the prediction path (C09):
    `common.py:9-14`            copy_array_with_control_treatments_set_to_zero
    `models/sparse_combo.py`    SparseDrugComboMCMCSample.predict_*, predict, predict_single_drug
    `models/sparse_combo_interaction.py`  SparseDrugComboInteractionMCMCSample.predict_*
    `models/main.py:145-269`    predict_{viability,mean,variance}_all, predict_{mean,viability}_avg

  Import-free, executable, generic over the numeric type `α` (driver: `Float`; theorems: any
  commutative ring / ordered field, `Props/C09.lean`).  Arrays are lists, a 2-d array is a list of
  rows.  Integer indexing follows numpy: a negative index wraps once (`-1` = LAST row), anything
  outside `[-len, len)` is an `IndexError` (`none`).

  Shape precondition (not checked by the model, the sampler guarantees it and the harness only
  builds such θ): `W : S×D`, `W0 : S`, `V2, V1 : T×D`, `V0 : T`.  `List.zipWith` truncates where
  numpy would refuse to broadcast.
-/
import Batchie.Model.Proto

namespace Batchie.Predict
open Batchie.Proto

/-! ### numpy indexing idioms -/

/-- `arr[mask]` for a boolean mask (same definition as `Batchie.Screen.maskFilter`; repeated here so
    that this file depends on nothing that other properties edit) -/
def maskFilter {β : Type} : List β → List Bool → List β
  | a :: as, m :: ms => if m then a :: maskFilter as ms else maskFilter as ms
  | _, _ => []

/-- is `t` a legal numpy index into an axis of length `n` -/
def inRange (n : Nat) (t : Int) : Bool := decide (-(n : Int) ≤ t) && decide (t < (n : Int))

/-- position addressed by the legal index `t` (negative wraps once) -/
def pos (n : Nat) (t : Int) : Nat := if 0 ≤ t then t.toNat else ((n : Int) + t).toNat

/-- `arr[t]` for one integer: `none` = IndexError -/
def pyIndex? {β : Type} (arr : List β) (t : Int) : Option β :=
  if inRange arr.length t then arr[pos arr.length t]? else none

/-- `arr[ts]` (integer-array indexing; the result is a NEW array) -/
def gather? {β : Type} (arr : List β) (ts : List Int) : Option (List β) := ts.mapM (pyIndex? arr)

/-- `results[treatment_array == -1, ...] = 0.0` -/
def maskedZero {β : Type} (zero : β → β) (res : List β) (ts : List Int) : List β :=
  List.zipWith (fun r t => if t == -1 then zero r else r) res ts

/-- `copy_array_with_control_treatments_set_to_zero(arr, ts)`: first `arr[ts]` -- the sentinel `-1`
    fetches the LAST row --, then the fetched copy is zeroed where the index was `-1` -/
def gatherCopyZero {β : Type} (zero : β → β) (arr : List β) (ts : List Int) : Option (List β) :=
  (gather? arr ts).map (fun res => maskedZero zero res ts)

/-! #### the same function over an explicit memory of buffers (who aliases whom)

  numpy fact modelled here, not verified: integer-array indexing allocates a fresh buffer, a basic
  slice is a view on the same buffer.  `gczMem` is the code; `gczMemView` is the mutant that takes a
  slice view instead of the fancy-indexed copy. -/

structure Mem (β : Type) where
  bufs : List (List β)

def Mem.read {β : Type} (m : Mem β) (i : Nat) : List β := m.bufs.getD i []

/-- allocate: returns the new memory and the id of the new buffer -/
def Mem.alloc {β : Type} (m : Mem β) (b : List β) : Mem β × Nat := ({ bufs := m.bufs ++ [b] }, m.bufs.length)

/-- in-place masked assignment into buffer `dst` -/
def Mem.maskedZeroAt {β : Type} (m : Mem β) (zero : β → β) (dst : Nat) (ts : List Int) : Mem β :=
  { bufs := m.bufs.set dst (maskedZero zero (m.read dst) ts) }

def gczMem {β : Type} (zero : β → β) (m : Mem β) (src : Nat) (ts : List Int) : Option (Mem β × Nat) :=
  match gather? (m.read src) ts with
  | none => none
  | some res =>
    let (m1, id) := m.alloc res
    some (m1.maskedZeroAt zero id ts, id)

/-- the mutant: `results = arr[0:len(ts)]` is a view, the masked write goes through to `arr` -/
def gczMemView {β : Type} (zero : β → β) (m : Mem β) (src : Nat) (ts : List Int) : Mem β × Nat :=
  let buf := m.read src
  ({ bufs := m.bufs.set src (maskedZero zero (buf.take ts.length) ts ++ buf.drop ts.length) }, src)

/-! ### numeric helpers -/

section numeric
variable {α : Type}

/-- `np.sum(row)` (order of additions is not part of the model, see DESIGN 6.3) -/
def sumL [Add α] [OfNat α 0] (l : List α) : α := l.foldr (· + ·) 0

def vmul [Mul α] (a b : List α) : List α := List.zipWith (· * ·) a b
def vadd [Add α] (a b : List α) : List α := List.zipWith (· + ·) a b

def zeroRow [OfNat α 0] (r : List α) : List α := r.map (fun _ => 0)
def zeroCell [OfNat α 0] (_ : α) : α := 0

/-- the two functions numpy/scipy supply -/
class ExpLog (α : Type) where
  exp : α → α
  log : α → α

instance instExpLogFloat : ExpLog Float := ⟨Float.exp, Float.log⟩

/-- `np.clip(x, lo, hi)` = `minimum(maximum(x, lo), hi)`; NaN passes through -/
def clip [LT α] [DecidableLT α] (lo hi x : α) : α :=
  if x < lo then lo else if hi < x then hi else x

/-- `scipy.special.expit` -/
def expit [Add α] [Neg α] [Div α] [OfNat α 1] [ExpLog α] (x : α) : α := 1 / (1 + ExpLog.exp (-x))

def clipLo [OfScientific α] : α := 0.01
def clipHi [OfScientific α] : α := 0.99

/-- `np.clip(expit(Mu), a_min=0.01, a_max=0.99)` for one cell -/
def viabilityOfMu [Add α] [Neg α] [Div α] [OfNat α 1] [ExpLog α] [LT α] [DecidableLT α] [OfScientific α]
    (mu : α) : α := clip clipLo clipHi (expit mu)

end numeric

/-! ### `SparseDrugComboMCMCSample` -/

structure Theta (α : Type) where
  W : List (List α)
  W0 : List α
  V2 : List (List α)
  V1 : List (List α)
  V0 : List α
  alpha : α
  precision : α

/-- one experiment of an arity-2 screen: `(sample_ids[i], treatment_ids[i,0], treatment_ids[i,1])` -/
structure Row where
  s : Int
  t0 : Int
  t1 : Int
deriving Repr, DecidableEq

/-- one experiment of an arity-1 screen -/
structure Row1 where
  s : Int
  t : Int
deriving Repr, DecidableEq

section sdc
variable {α : Type} [Add α] [Mul α] [OfNat α 0]

/-- module-level `predict(mcmc_sample, data, viability=False)` as the code computes it: whole-column
    gathers, element-wise products and sums over the last axis -/
def predictMean (θ : Theta α) (rows : List Row) : Option (List α) := do
  let sids := rows.map (·.s)
  let c0 := rows.map (·.t0)
  let c1 := rows.map (·.t1)
  -- interaction2 = np.sum(W[sids] * cz(V2, c0) * cz(V2, c1), -1)
  let w ← gather? θ.W sids
  let a2 ← gatherCopyZero zeroRow θ.V2 c0
  let b2 ← gatherCopyZero zeroRow θ.V2 c1
  let interaction2 := (List.zipWith vmul (List.zipWith vmul w a2) b2).map sumL
  -- interaction1 = np.sum(W[sids] * (cz(V1, c0) + cz(V1, c1)), -1)
  let w' ← gather? θ.W sids
  let a1 ← gatherCopyZero zeroRow θ.V1 c0
  let b1 ← gatherCopyZero zeroRow θ.V1 c1
  let interaction1 := (List.zipWith vmul w' (List.zipWith vadd a1 b1)).map sumL
  -- intercept = alpha + W0[sids] + cz(V0, c0) + cz(V0, c1)
  let w0 ← gather? θ.W0 sids
  let a0 ← gatherCopyZero zeroCell θ.V0 c0
  let b0 ← gatherCopyZero zeroCell θ.V0 c1
  let intercept := List.zipWith (· + ·) (List.zipWith (· + ·) (w0.map (θ.alpha + ·)) a0) b0
  pure (List.zipWith (· + ·) (List.zipWith (· + ·) intercept interaction1) interaction2)

/-- `predict_single_drug(mcmc_sample, data, viability=False)` -/
def predictSingleMean (θ : Theta α) (rows : List Row1) : Option (List α) := do
  let sids := rows.map (·.s)
  let c0 := rows.map (·.t)
  let w ← gather? θ.W sids
  let a1 ← gatherCopyZero zeroRow θ.V1 c0
  let interaction1 := (List.zipWith vmul w a1).map sumL
  let w0 ← gather? θ.W0 sids
  let a0 ← gatherCopyZero zeroCell θ.V0 c0
  let intercept := List.zipWith (· + ·) (w0.map (θ.alpha + ·)) a0
  pure (List.zipWith (· + ·) intercept interaction1)

/-! the per-experiment definitions the property talks about -/

/-- the cell a treatment id selects: zero for control, the table row otherwise -/
def czRow (arr : List (List α)) (t : Int) : List α :=
  let r := (pyIndex? arr t).getD []
  if t == -1 then zeroRow r else r

def czCell (arr : List α) (t : Int) : α :=
  let r := (pyIndex? arr t).getD 0
  if t == -1 then zeroCell r else r

def rowOk (θ : Theta α) (r : Row) : Bool :=
  inRange θ.W.length r.s && inRange θ.V2.length r.t0 && inRange θ.V2.length r.t1
    && inRange θ.V1.length r.t0 && inRange θ.V1.length r.t1
    && inRange θ.W0.length r.s && inRange θ.V0.length r.t0 && inRange θ.V0.length r.t1

def predictRowVal (θ : Theta α) (r : Row) : α :=
  let w := (pyIndex? θ.W r.s).getD []
  let w0 := (pyIndex? θ.W0 r.s).getD 0
  ((θ.alpha + w0) + czCell θ.V0 r.t0 + czCell θ.V0 r.t1)
    + sumL (vmul w (vadd (czRow θ.V1 r.t0) (czRow θ.V1 r.t1)))
    + sumL (vmul (vmul w (czRow θ.V2 r.t0)) (czRow θ.V2 r.t1))

/-- prediction of ONE experiment; `none` = some id is not an index of θ's tables -/
def predictRow? (θ : Theta α) (r : Row) : Option α :=
  if rowOk θ r then some (predictRowVal θ r) else none

def row1Ok (θ : Theta α) (r : Row1) : Bool :=
  inRange θ.W.length r.s && inRange θ.V1.length r.t && inRange θ.W0.length r.s && inRange θ.V0.length r.t

def predictSingleRowVal (θ : Theta α) (r : Row1) : α :=
  let w := (pyIndex? θ.W r.s).getD []
  let w0 := (pyIndex? θ.W0 r.s).getD 0
  ((θ.alpha + w0) + czCell θ.V0 r.t) + sumL (vmul w (czRow θ.V1 r.t))

def predictSingleRow? (θ : Theta α) (r : Row1) : Option α :=
  if row1Ok θ r then some (predictSingleRowVal θ r) else none

end sdc

section sdcv
variable {α : Type} [Add α] [Mul α] [OfNat α 0] [Neg α] [Div α] [OfNat α 1] [ExpLog α] [LT α] [DecidableLT α]
  [OfScientific α]

/-- `predict(..., viability=True)` -/
def predictViability (θ : Theta α) (rows : List Row) : Option (List α) :=
  (predictMean θ rows).map (fun mu => mu.map viabilityOfMu)

def predictSingleViability (θ : Theta α) (rows : List Row1) : Option (List α) :=
  (predictSingleMean θ rows).map (fun mu => mu.map viabilityOfMu)

end sdcv

/-- `np.repeat(1 / self.precision, repeats=data.size)` -/
def varianceVec {α : Type} [Div α] [OfNat α 1] (precision : α) (size : Nat) : List α :=
  List.replicate size (1 / precision)

/-! ### `SparseDrugComboInteractionMCMCSample` -/

structure ThetaI (α : Type) where
  W : List (List α)
  V2 : List (List α)
  precision : α
  /-- `single_effect_lookup`: a dict keyed by `(sample_id, treatment_id)` -/
  lookup : List ((Int × Int) × α)

section sdci
variable {α : Type} [Add α] [Mul α] [OfNat α 0]

/-- `predict_conditional_mean` (arity 2) -/
def interactionMean (θ : ThetaI α) (rows : List Row) : Option (List α) := do
  let w ← gather? θ.W (rows.map (·.s))
  let a2 ← gatherCopyZero zeroRow θ.V2 (rows.map (·.t0))
  let b2 ← gatherCopyZero zeroRow θ.V2 (rows.map (·.t1))
  pure ((List.zipWith vmul (List.zipWith vmul w a2) b2).map sumL)

def rowOkI (θ : ThetaI α) (r : Row) : Bool :=
  inRange θ.W.length r.s && inRange θ.V2.length r.t0 && inRange θ.V2.length r.t1

def interactionRowVal (θ : ThetaI α) (r : Row) : α :=
  sumL (vmul (vmul ((pyIndex? θ.W r.s).getD []) (czRow θ.V2 r.t0)) (czRow θ.V2 r.t1))

def interactionRow? (θ : ThetaI α) (r : Row) : Option α :=
  if rowOkI θ r then some (interactionRowVal θ r) else none

/-- `self.single_effect_lookup[c, dd1] * self.single_effect_lookup[c, dd2]`; `none` = KeyError -/
def singleProduct? (θ : ThetaI α) (r : Row) : Option α := do
  let x ← θ.lookup.lookup (r.s, r.t0)
  let y ← θ.lookup.lookup (r.s, r.t1)
  pure (x * y)

end sdci

section sdciv
variable {α : Type} [Add α] [Mul α] [OfNat α 0] [ExpLog α] [LT α] [DecidableLT α] [OfScientific α]

/-- one cell of `predict_viability`:
    `clip(exp(interaction + log(clip(single product, .01, .99))), .01, .99)` -/
def interactionViabilityCell (inter prod : α) : α :=
  clip clipLo clipHi (ExpLog.exp (inter + ExpLog.log (clip clipLo clipHi prod)))

/-- `predict_viability` (arity 2): the mean is computed first (IndexError), then the list
    comprehension over the lookup (KeyError) -/
def interactionViability (θ : ThetaI α) (rows : List Row) : Except Err (List α) :=
  match interactionMean θ rows with
  | none => .error .indexError
  | some inter =>
    match rows.mapM (singleProduct? θ) with
    | none => .error .keyError
    | some prods => .ok (List.zipWith interactionViabilityCell inter prods)

def interactionViabilityRow? (θ : ThetaI α) (r : Row) : Option α := do
  let i ← interactionRow? θ r
  let p ← singleProduct? θ r
  pure (interactionViabilityCell i p)

end sdciv

/-! ### `models/main.py`: stacked and averaged predictions over a `ThetaHolder` -/

section holder
variable {α Θ : Type}

/-- `thetas.get_theta(i)` on a holder `(declared n_thetas, list)`: ValueError beyond the list -/
def getTheta (thetas : List Θ) (i : Nat) : Except Err Θ :=
  match thetas[i]? with
  | some θ => .ok θ
  | none => .error .valueError

/-- one loop iteration of `predict_*_all` / `predict_*_avg`: fetch θ, predict, refuse NaN -/
def predictChecked (nan : α → Bool) (f : Θ → Except Err (List α)) (thetas : List Θ) (i : Nat) :
    Except Err (List α) := do
  let θ ← getTheta thetas i
  let p ← f θ
  if p.any nan then .error .valueError else pure p

/-- `predict_viability_all` / `predict_mean_all`: row `i` of the result is θ_i's prediction -/
def predictAll (nan : α → Bool) (f : Θ → Except Err (List α)) (declared : Nat) (thetas : List Θ) :
    Except Err (List (List α)) :=
  (List.range declared).mapM (predictChecked nan f thetas)

/-- `predict_variance_all`: collects, then `np.stack` (which refuses an empty list) -/
def predictVarianceAll (nan : α → Bool) (f : Θ → Except Err (List α)) (declared : Nat) (thetas : List Θ) :
    Except Err (List (List α)) := do
  let rs ← predictAll nan f declared thetas
  if rs.isEmpty then .error .valueError else pure rs

/-- conversion of the loop count to the numeric type (`result / thetas.n_thetas`) -/
class OfCount (α : Type) where
  ofCount : Nat → α

instance instOfCountFloat : OfCount Float := ⟨Float.ofNat⟩

/-- `predict_mean_avg` / `predict_viability_avg`: `result = zeros(size)`; `result = result + sub_result`
    per θ in holder order; `result / n_thetas` -/
def predictAvg [Add α] [Div α] [OfNat α 0] [OfCount α] (nan : α → Bool) (f : Θ → Except Err (List α))
    (size declared : Nat) (thetas : List Θ) : Except Err (List α) := do
  let acc ← (List.range declared).foldlM
    (fun acc i => do
      let p ← predictChecked nan f thetas i
      pure (vadd acc p))
    (List.replicate size (0 : α))
  pure (acc.map (· / OfCount.ofCount declared))

end holder

/-! ### block-wise averaging (regression definition, seeded change S6-C09 -- NOT in /repo)

  The seeded change reduced the per-sample predictions in blocks of 16 and returned the mean of the
  block means.  `blockMean b xs` is that computation for one experiment (the list of the samples'
  predictions for it); `Props/C09.lean` proves when it is the mean and refutes it on 17 samples. -/

section blockmean
variable {α : Type}

/-- the first `q` consecutive blocks of size `b` -/
def chunksN : Nat → Nat → List α → List (List α)
  | 0, _, _ => []
  | q + 1, b, xs => xs.take b :: chunksN q b (xs.drop b)

/-- consecutive blocks of size `b` (the last one may be shorter): `ceil (len / b)` of them -/
def chunks (b : Nat) (xs : List α) : List (List α) := chunksN ((xs.length + b - 1) / b) b xs

variable [Add α] [Div α] [OfNat α 0] [OfCount α]

/-- the arithmetic mean, as `sum / count` -/
def meanL (xs : List α) : α := sumL xs / OfCount.ofCount xs.length

/-- the mean of the block means -/
def blockMean (b : Nat) (xs : List α) : α := meanL ((chunks b xs).map meanL)

end blockmean

/-! ### the `Theta` methods: dispatch on the screen's arity -/

/-- what the prediction methods read from a screen: arity, sample ids, treatment-id rows -/
structure PScreen where
  arity : Nat
  sids : List Int
  tids : List (List Int)
deriving Repr

def PScreen.size (sc : PScreen) : Nat := sc.sids.length

def PScreen.rows2 (sc : PScreen) : List Row :=
  List.zipWith (fun s ts => { s := s, t0 := ts.getD 0 0, t1 := ts.getD 1 0 }) sc.sids sc.tids

def PScreen.rows1 (sc : PScreen) : List Row1 :=
  List.zipWith (fun s ts => { s := s, t := ts.getD 0 0 }) sc.sids sc.tids

def optIdx {β : Type} (o : Option β) : Except Err β :=
  match o with
  | some x => .ok x
  | none => .error .indexError

section methods
variable {α : Type} [Add α] [Mul α] [OfNat α 0] [Neg α] [Div α] [OfNat α 1] [ExpLog α] [LT α] [DecidableLT α]
  [OfScientific α]

def Theta.predictConditionalMean (θ : Theta α) (sc : PScreen) : Except Err (List α) :=
  if sc.arity = 1 then optIdx (predictSingleMean θ sc.rows1)
  else if sc.arity = 2 then optIdx (predictMean θ sc.rows2)
  else .error .other   -- NotImplementedError

def Theta.predictViabilityM (θ : Theta α) (sc : PScreen) : Except Err (List α) :=
  if sc.arity = 1 then optIdx (predictSingleViability θ sc.rows1)
  else if sc.arity = 2 then optIdx (predictViability θ sc.rows2)
  else .error .other

def Theta.predictConditionalVariance (θ : Theta α) (sc : PScreen) : Except Err (List α) :=
  .ok (varianceVec θ.precision sc.size)

def ThetaI.predictConditionalMean (θ : ThetaI α) (sc : PScreen) : Except Err (List α) :=
  if sc.arity = 2 then optIdx (interactionMean θ sc.rows2) else .error .valueError

def ThetaI.predictViabilityM (θ : ThetaI α) (sc : PScreen) : Except Err (List α) :=
  if sc.arity = 2 then interactionViability θ sc.rows2 else .error .valueError

def ThetaI.predictConditionalVariance (θ : ThetaI α) (sc : PScreen) : Except Err (List α) :=
  .ok (varianceVec θ.precision sc.size)

end methods

/-! ### driver protocol (α := Float; floats travel as 64-bit patterns) -/

namespace IO

def fOfBits (n : Nat) : Float := Float.ofBits (UInt64.ofNat n)

def parseF? (s : String) : Option Float := (parseNat? s).map fOfBits

def parseVec? (s : String) : Option (List Float) :=
  if s == "-" || s == "_" then some [] else (s.splitOn ",").mapM parseF?

def parseMat? (s : String) : Option (List (List Float)) :=
  if s == "-" then some [] else (s.splitOn ";").mapM parseVec?

def showF (x : Float) : String := if x.isNaN then "nan" else toString x.toBits.toNat

def showVec (l : List Float) : String := if l.isEmpty then "-" else ",".intercalate (l.map showF)

def showMat (m : List (List Float)) : String :=
  if m.isEmpty then "-" else ";".intercalate (m.map (fun r => if r.isEmpty then "_" else showVec r))

def showRes (r : Except Err (List Float)) : String :=
  match r with
  | .ok v => "ok " ++ showVec v
  | .error e => showErr e

def showResM (r : Except Err (List (List Float))) : String :=
  match r with
  | .ok v => "ok " ++ showMat v
  | .error e => showErr e

/-- `W|W0|V2|V1|V0|alpha|precision` -/
def parseTheta? (s : String) : Option (Theta Float) :=
  match s.splitOn "|" with
  | [w, w0, v2, v1, v0, a, p] => do
    pure { W := ← parseMat? w, W0 := ← parseVec? w0, V2 := ← parseMat? v2, V1 := ← parseMat? v1,
           V0 := ← parseVec? v0, alpha := ← parseF? a, precision := ← parseF? p }
  | _ => none

def parseLookup? (s : String) : Option (List ((Int × Int) × Float)) :=
  if s == "-" then some []
  else (s.splitOn ",").mapM (fun e =>
    match e.splitOn ":" with
    | [a, b, v] => do pure ((← parseInt? a, ← parseInt? b), ← parseF? v)
    | _ => none)

/-- `W|V2|precision|lookup` -/
def parseThetaI? (s : String) : Option (ThetaI Float) :=
  match s.splitOn "|" with
  | [w, v2, p, l] => do
    pure { W := ← parseMat? w, V2 := ← parseMat? v2, precision := ← parseF? p, lookup := ← parseLookup? l }
  | _ => none

def parseList? {β : Type} (p : String → Option β) (s : String) : Option (List β) :=
  if s == "-" then some [] else (s.splitOn "/").mapM p

def parseScreen? (a s t : String) : Option PScreen := do
  let sc : PScreen := { arity := ← parseNat? a, sids := ← parseIntList? s, tids := ← parseIntListList? t }
  -- ill-formed screens are refused, never defaulted
  if sc.tids.length == sc.sids.length && sc.tids.all (fun r => r.length == sc.arity) then some sc else none

def methodSdc (what : String) : Option (Theta Float → PScreen → Except Err (List Float)) :=
  if what == "mean" then some Theta.predictConditionalMean
  else if what == "viab" then some Theta.predictViabilityM
  else if what == "var" then some Theta.predictConditionalVariance
  else none

def methodSdci (what : String) : Option (ThetaI Float → PScreen → Except Err (List Float)) :=
  if what == "mean" then some ThetaI.predictConditionalMean
  else if what == "viab" then some ThetaI.predictViabilityM
  else if what == "var" then some ThetaI.predictConditionalVariance
  else none

/-- `all`/`avg` for a holder of either sample type -/
def runHolder {Θ : Type} (agg what : String) (m : Θ → PScreen → Except Err (List Float)) (declared : Nat)
    (thetas : List Θ) (sc : PScreen) : Option String :=
  if agg == "all" then
    if what == "var" then some (showResM (predictVarianceAll Float.isNaN (fun θ => m θ sc) declared thetas))
    else some (showResM (predictAll Float.isNaN (fun θ => m θ sc) declared thetas))
  else if agg == "avg" then
    some (showRes (predictAvg Float.isNaN (fun θ => m θ sc) sc.size declared thetas))
  else none

def handle (toks : List String) : Option String :=
  match toks with
  | ["c09.gcz1", arr, ts] => do
    let a ← parseVec? arr
    let t ← parseIntList? ts
    pure (showRes (optIdx (gatherCopyZero zeroCell a t)))
  | ["c09.gcz2", arr, ts] => do
    let a ← parseMat? arr
    let t ← parseIntList? ts
    pure (showResM (optIdx (gatherCopyZero zeroRow a t)))
  | ["c09.sdc", what, th, a, s, t] => do
    let m ← methodSdc what
    let θ ← parseTheta? th
    let sc ← parseScreen? a s t
    pure (showRes (m θ sc))
  | ["c09.sdci", what, th, a, s, t] => do
    let m ← methodSdci what
    let θ ← parseThetaI? th
    let sc ← parseScreen? a s t
    pure (showRes (m θ sc))
  | ["c09.hold", "sdc", agg, what, n, ths, a, s, t] => do
    let m ← methodSdc what
    let thetas ← parseList? parseTheta? ths
    let sc ← parseScreen? a s t
    runHolder agg what m (← parseNat? n) thetas sc
  | ["c09.hold", "sdci", agg, what, n, ths, a, s, t] => do
    let m ← methodSdci what
    let thetas ← parseList? parseThetaI? ths
    let sc ← parseScreen? a s t
    runHolder agg what m (← parseNat? n) thetas sc
  | _ => none

end IO

end Batchie.Predict
