/-
  Driver operations for C02 / C12 / C03 (line protocol, see Model/ScreenIO.lean for the screen encoding).

  hist <ops> <raw>            ops: `+`-separated list (`-` = no op) of
                                 m            mask_screen
                                 u            unmask_screen
                                 r<ids>       reveal_plates (ids comma separated, `r-` = empty list)
                                 s            save_h5 + load_h5
                                 h<sel>       hold-out with selection vector <sel>, continue with the training half
                                 H<sel>       hold-out, continue with the held-out half
                              answer: the prepared screen and the screen after every step, joined by ` # `;
                              a failing step prints its error and ends the history
  histold <ops> <raw>         the same with the constructors as before commit 141f07a (regression witness only)
  setobs <sel> <vals> <raw>   Screen.set_observed
  codec <names>               the `S<w>` table of np.char.encode(names) and its decoding
  saveloadb <cycles> <raw>    byte-level save/load cycles
  space <cycles> <ctrl> <tmap> <smap>   ExperimentSpace save/load cycles
  concat <k> <raw> ... <raw>  Screen.concat of k constructed screens (k = 2: Screen.combine); a raw that does not
                              construct answers `parent-<err>`
-/
import Batchie.Model.ScreenIO
import Batchie.Model.Retro
import Batchie.Model.Persist

namespace Batchie.RetroIO
open Batchie.Proto Batchie.Screen Batchie.ScreenIO Batchie.Retro Batchie.Persist

def parseOp? (tok : String) : Option Op :=
  let c := tok.take 1 |>.toString
  let arg := tok.drop 1 |>.toString
  match c with
  | "m" => if arg == "" then some .mask else none
  | "u" => if arg == "" then some .unmask else none
  | "s" => if arg == "" then some .saveLoad else none
  | "r" => (parseList? parseInt? "," arg).map .reveal
  | "h" => (parseSel? arg).map .holdKeep
  | "H" => (parseSel? arg).map .holdTest
  | _ => none

def parseOps? (s : String) : Option (List Op) :=
  if s == "-" then some [] else (s.splitOn "+").mapM parseOp?

/-- everything the harness compares about one stage -/
def showStage (s : Screen) : String :=
  showScreen s ++ "|" ++ showRows s ++ "|ctrl=" ++ showName s.ctrl ++ "|arity=" ++ toString s.arity
    ++ "|nunobs=" ++ toString (nUnobservedPlates s) ++ "|nobs=" ++ toString (nObservedPlates s)
    ++ "|nplates=" ++ toString (nPlates s)

/-- print the trace of a history; stops at the first failing step -/
def showHist (st : Op → Screen → Except Err Screen) : List Op → Screen → List String
  | [], _ => []
  | op :: ops, s =>
    match st op s with
    | .error e => [showErr e]
    | .ok t => showStage t :: showHist st ops t

def histWith (st : Op → Screen → Except Err Screen) (ops : String) (rest : List String) : Option String := do
  let r ← parseRaw? rest
  let ops ← parseOps? ops
  match mk? r with
  | .error e => pure ("parent-" ++ showErr e)
  | .ok s => pure (" # ".intercalate (showStage s :: showHist st ops s))

def showBytes (bs : List Nat) : String := showList toString "." bs

def showSpace (e : Space) : String :=
  "ok tn=" ++ showList showName "," e.tnames ++ "|td=" ++ showList showDose "," e.tdoses ++ "|ti=" ++ showIds e.tids
    ++ "|sn=" ++ showList showName "," e.snames ++ "|si=" ++ showIds e.sids ++ "|ctrl=" ++ showName e.ctrl
    ++ "|nt=" ++ toString e.nUniqueTreatments ++ "|ns=" ++ toString e.nUniqueSamples

/-- split a token list into `k` raws of ten tokens each -/
def parseRaws? : Nat → List String → Option (List Raw)
  | 0, [] => some []
  | 0, _ => none
  | k + 1, toks => do
    if toks.length < 10 then none
    let r ← parseRaw? (toks.take 10)
    let rest ← parseRaws? k (toks.drop 10)
    pure (r :: rest)

def handle : List String → Option String
  | "hist" :: ops :: rest => histWith step ops rest
  | "concat" :: k :: rest => do
      let k ← parseNat? k
      let raws ← parseRaws? k rest
      match raws.mapM mk? with
      | .error e => pure ("parent-" ++ showErr e)
      | .ok ss => match concat ss with
        | .error e => pure (showErr e)
        | .ok t => pure (showStage t)
  | "histold" :: ops :: rest => histWith stepOld ops rest
  | "setobs" :: sel :: vals :: rest => do
      let r ← parseRaw? rest
      let sel ← parseSel? sel
      let vals ← parseList? parseNat? "," vals
      match mk? r with
      | .error e => pure ("parent-" ++ showErr e)
      | .ok s => match setObserved s sel vals with
        | .error e => pure (showErr e)
        | .ok t => pure (showStage t)
  | ["codec", names] => do
      let ns ← parseList? parseName? "," names
      let t := encodeTable ns
      let dec := match decodeTable t with
        | .error e => showErr e
        | .ok l => showList showName "," l
      pure ("w=" ++ toString t.width ++ "|cells=" ++ showList showBytes "," t.cells ++ "|dec=" ++ dec)
  | "saveloadb" :: k :: rest => do
      let r ← parseRaw? rest
      let k ← parseNat? k
      match mk? r with
      | .error e => pure ("parent-" ++ showErr e)
      | .ok s => match cyclesB k s with
        | .error e => pure (showErr e)
        | .ok t => pure (showStage t)
  | ["space", k, ctrl, tmap, smap] => do
      let k ← parseNat? k
      let ctrl ← parseName? ctrl
      let tm ← parseList? parseTEntry? "," tmap
      let sm ← parseList? parseSEntry? "," smap
      let e : Space := { tnames := tm.map (·.1), tdoses := tm.map (·.2.1), tids := tm.map (·.2.2),
                         snames := sm.map (·.1), sids := sm.map (·.2), ctrl := ctrl }
      match spaceCycles k e with
      | .error e => pure (showErr e)
      | .ok t => pure (showSpace t)
  | _ => none

end Batchie.RetroIO
