/-
  Driver operation `pipeline` for `Model/PrepPipeline.lean`:

    pipeline <init> <rev> <coverlog>  <gen> <g1> <g2> <g3> <g4> <g5>  <first>  <sm> <s1> <s2> <s3> <s4> <s5>  <fracbits> <holdoutlog>  <raw screen: 10 tokens>

    init  none | cover                      gen  none | perm (force perm) | seg (max perms) | pair (sub anc anchor perms assign)
    sm    none | mergemin (k pops) | topbottom (k) | fixed (k choices) | opt (choices) | nplate (k) | ensemble (a b c pops choices)

  unused slots hold `-`.  Answer: `ok <training>#<test>` as for the hold-outs (ids, mappings, rows of both saved screens).
-/
import Batchie.Model.PrepPipeline
import Batchie.Model.PrepIO

namespace Batchie.PrepPipelineIO
open Batchie.Proto Batchie.Screen Batchie.ScreenIO Batchie.Prep Batchie.PrepIO

def parseInit? (kind rev log : String) : Option (Option (Bool × List Nat)) :=
  if kind == "none" then some none
  else if kind == "cover" then do
    let r ← parseBool? rev
    let l ← parseNatList? log
    pure (some (r, l))
  else none

def parseGen? (kind a b c d e : String) : Option (Option Generator) :=
  if kind == "none" then some none
  else if kind == "perm" then do
    let force ← parseNames? a
    let perm ← parseNames? b
    pure (some (.permutation force perm))
  else if kind == "seg" then do
    let mx ← parseInt? a
    let perms ← parseNatLL? b
    pure (some (.segregating mx perms))
  else if kind == "pair" then do
    let sub ← parseInt? a
    let anc ← parseInt? b
    let anchor ← parseIntList? c
    let perms ← parseIntLL? d
    let assign ← parseNamesLL? e
    pure (some (.pairwise sub anc anchor perms assign))
  else none

def parseSm? (kind a b c d e : String) : Option (Option Smoother) :=
  if kind == "none" then some none
  else if kind == "mergemin" then do
    let k ← parseInt? a
    let pops ← parseNatList? b
    pure (some (.mergeMin k pops))
  else if kind == "topbottom" then do
    let k ← parseInt? a
    pure (some (.mergeTopBottom k))
  else if kind == "fixed" then do
    let k ← parseInt? a
    let ch ← parseNatLL? b
    pure (some (.fixedSize k ch))
  else if kind == "opt" then do
    let ch ← parseNatLL? a
    pure (some (.optimalSize ch))
  else if kind == "nplate" then do
    let k ← parseInt? a
    pure (some (.nPlate k))
  else if kind == "ensemble" then do
    let x ← parseInt? a
    let y ← parseInt? b
    let z ← parseInt? c
    let pops ← parseNatList? d
    let ch ← parseNatLL? e
    pure (some (.ensemble x y z pops ch))
  else none

def showPrepared : Except Err Prepared → String
  | .error e => showErr e
  | .ok p => showPair (.ok (p.training, p.test))

def handle : List String → Option String
  | "pipeline" :: ik :: irev :: ilog :: gk :: g1 :: g2 :: g3 :: g4 :: g5 :: first :: sk :: s1 :: s2 :: s3 :: s4 :: s5 ::
      frac :: holog :: rest => do
    let initial ← parseInit? ik irev ilog
    let gen ← parseGen? gk g1 g2 g3 g4 g5
    let first ← parseInt? first
    let sm ← parseSm? sk s1 s2 s3 s4 s5
    let f ← floatOfBits? frac
    let holog ← parseNatLL? holog
    withScreen rest (fun s =>
      if f < 0 || f > 1 then "bad-fraction"   -- the harness only sends fractions in [0,1] (the hold-out's own check is C11's `ho-bal`)
      else showPrepared (prepare (fun n => ceilMul n f)
        { initial := initial, generator := gen, firstPlate := first, smoother := sm, holdoutLog := holog } s))
  | _ => none

end Batchie.PrepPipelineIO
