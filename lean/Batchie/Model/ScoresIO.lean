/-
  Line protocol of the scoring / selection model (driver side of `harness/c06.py`).

  score        `ninf` or `num/den`
  batch, ids   comma separated integers, `-` when empty
  scorer       `S` (SizeScorer) | `R<score,…>` (RandomScorer, the recorded draws; every chunk uses a
               generator seeded identically, i.e. the same stream) | `T<pid:score,…>` (harness scorer
               returning the prescribed score of every plate listed, nothing for the others; `T-` = empty table)
  allowed      `none` (no policy) or the id list a filtering policy keeps

  split <len> <n>                                     → section sizes of `np.array_split`
  inputs <batch> <n> <idx> <raw screen…>              → `ok pid:sel;…` (the dict handed to the scorer)
  chunk <batch> <n> <idx> <scorer> <raw screen…>      → the holder `score_chunk` returns
  pipeline <batch> <n> <order> <scorer> <allowed> <raw screen…>
        every chunk 0..n-1 through `cliCalculateScores`, the files named in `order` (chunk indices, any
        sequence) through `cliSelectNextPlate`  → `ok <combined holder> sel=<text written>`
  pipeline2 <scoreBatch> <batch> <n> <order> <scorer> <allowed> <raw screen…>
        as `pipeline`, but the chunk files were computed for `scoreBatch` (an earlier batch) and the selection runs
        with `batch` (stale score files)
-/
import Batchie.Model.Scores
import Batchie.Model.ScreenIO

namespace Batchie.ScoresIO
open Batchie.Proto Batchie.Screen Batchie.ScreenIO Batchie.Scores

def parseScore? (s : String) : Option Score :=
  if s == "ninf" then some .negInf else (parseDose? s).map Score.fin

def showScore : Score → String
  | .negInf => "ninf"
  | .fin q => showDose q

def parsePair? (s : String) : Option (Int × Score) :=
  match s.splitOn ":" with
  | [a, b] => do
    let p ← parseInt? a
    let x ← parseScore? b
    pure (p, x)
  | _ => none

def tableScorer (t : List (Int × Score)) : Scorer :=
  fun inp => inp.filterMap (fun e => (t.find? (fun r => r.1 == e.1)).map (fun r => (e.1, r.2)))

def parseScorer? (s : String) : Option Scorer :=
  let c := s.take 1 |>.toString
  let arg := s.drop 1 |>.toString
  if c == "S" && arg == "" then some sizeScorer
  else if c == "R" then do
    let d ← parseList? parseDose? "," arg
    pure (randomScorer (fun i => d.getD i 0))
  else if c == "T" then do
    let t ← parseList? parsePair? "," arg
    pure (tableScorer t)
  else none

def parseAllowed? (s : String) : Option (Option Policy) :=
  if s == "none" then some none
  else do
    let a ← parseIntList? s
    pure (some (fun _ unobs => unobs.filter (fun p => a.contains p)))

def showHolder (h : Holder) : String :=
  "size=" ++ toString h.size ++ "|ids=" ++ showIntList h.plateIds ++ "|scores=" ++ showList showScore "," h.scores
    ++ "|cur=" ++ toString h.cur

def showExcept {α : Type} (f : α → String) : Except Err α → String
  | .error e => showErr e
  | .ok a => "ok " ++ f a

def handle : List String → Option String
  | ["split", len, n] => do
      let len ← parseNat? len
      let n ← parseNat? n
      if n == 0 then pure (showErr .valueError)
      else
        let parts := arraySplit (List.range len) n
        pure ("ok " ++ showNatList (parts.map List.length) ++ (if parts.flatten == List.range len then " flat" else " NOTFLAT"))
  | "inputs" :: batch :: n :: idx :: rest => do
      let batch ← parseIntList? batch
      let n ← parseNat? n
      let idx ← parseNat? idx
      let r ← parseRaw? rest
      match mk? r with
      | .error e => pure ("parent-" ++ showErr e)
      | .ok s =>
        pure (showExcept (showList (fun e => s!"{e.1}:{showList showBool "," e.2.sel}") ";") (scoreInputs s 0 batch n idx))
  | "chunk" :: batch :: n :: idx :: scorer :: rest => do
      let batch ← parseIntList? batch
      let n ← parseNat? n
      let idx ← parseNat? idx
      let sc ← parseScorer? scorer
      let r ← parseRaw? rest
      match mk? r with
      | .error e => pure ("parent-" ++ showErr e)
      | .ok s => pure (showExcept showHolder (scoreChunk s 0 batch n idx sc))
  | "pipeline" :: batch :: n :: order :: scorer :: allowed :: rest => do
      let batch ← parseIntList? batch
      let n ← parseNat? n
      let order ← parseNatList? order
      let sc ← parseScorer? scorer
      let pol ← parseAllowed? allowed
      let r ← parseRaw? rest
      match mk? r with
      | .error e => pure ("parent-" ++ showErr e)
      | .ok s =>
        let file := s.save
        match (List.range n).mapM (fun i => cliCalculateScores file batch n i sc) with
        | .error e => pure ("score-" ++ showErr e)
        | .ok files =>
          match order.mapM (fun i => files[i]?) with
          | none => none
          | some chosen =>
            let combined := Holder.concat (chosen.map Holder.load)
            let sel := cliSelectNextPlate file chosen pol batch
            pure (showExcept showHolder combined ++ " sel=" ++ showExcept id sel)
  | "pipeline2" :: scoreBatch :: batch :: n :: order :: scorer :: allowed :: rest => do
      -- score files computed for an EARLIER batch (`scoreBatch`), selection run with the current `batch`
      let scoreBatch ← parseIntList? scoreBatch
      let batch ← parseIntList? batch
      let n ← parseNat? n
      let order ← parseNatList? order
      let sc ← parseScorer? scorer
      let pol ← parseAllowed? allowed
      let r ← parseRaw? rest
      match mk? r with
      | .error e => pure ("parent-" ++ showErr e)
      | .ok s =>
        let file := s.save
        match (List.range n).mapM (fun i => cliCalculateScores file scoreBatch n i sc) with
        | .error e => pure ("score-" ++ showErr e)
        | .ok files =>
          match order.mapM (fun i => files[i]?) with
          | none => none
          | some chosen =>
            let combined := Holder.concat (chosen.map Holder.load)
            let sel := cliSelectNextPlate file chosen pol batch
            pure (showExcept showHolder combined ++ " sel=" ++ showExcept id sel)
  | _ => none

end Batchie.ScoresIO
