/-
  Line protocol for the Gibbs model (C08 driver).  Floats travel as IEEE-754 bit patterns
  (decimal `UInt64`), never as text.

  `c08sweep nC nT D N cline dd1 dd2 failW failV2 failV1 floats`
     floats (one comma separated token, fixed order):
       a0 b0 | y[N] | alpha prec tau0 eta0 | W[nC*D] W0[nC] V2[nT*D] V1[nT*D] V0[nT] tau[D] gam[D]
       eta2[D] eta1[D] phi2[nT*D] phi1[nT*D] phi0[nT] Mu[N]
       | draws: w0[nC] v0[nT] w[nC*D] v2[nT*D] v1[nT*D] tau0 phi0aux[nT] phi0[nT] eta0aux eta0 prec
         phi2aux[nT*D] phi2[nT*D] eta2aux[D] eta2[D] phi1aux[nT*D] phi1[nT*D] eta1aux[D] eta1[D] gam[D]
     answer: `<log> <Mu after each of the 13 stages> <final state> <predict(export) on the rows> <variance>`
  `c08mvn D floats`   floats = Q[D*D] b[D] z[D];  answer: the D entries of `sampleMvn`
-/
import Batchie.Model.Proto
import Batchie.Model.Gibbs

namespace Batchie.GibbsIO
open Batchie.Proto Batchie.Gibbs


def parseFloats? (s : String) : Option (Array Float) :=
  if s == "-" then some #[]
  else ((s.splitOn ",").mapM (fun (t : String) => t.toNat?.map (fun n => Float.ofBits (UInt64.ofNat n)))).map List.toArray

def showF (x : Float) : String := toString x.toBits.toNat

def showFs (l : List Float) : String := if l.isEmpty then "-" else ",".intercalate (l.map showF)

structure Cur where
  a : Array Float
  pos : Nat

def Cur.vec (c : Cur) (n : Nat) : (Nat → Float) × Cur :=
  let sub := c.a.extract c.pos (c.pos + n)
  (fun i => sub.getD i 0, { c with pos := c.pos + n })

def Cur.mat (c : Cur) (n m : Nat) : (Nat → Nat → Float) × Cur :=
  let sub := c.a.extract c.pos (c.pos + n * m)
  (fun i j => if j < m then sub.getD (i * m + j) 0 else 0, { c with pos := c.pos + n * m })

def Cur.one (c : Cur) : Float × Cur := (c.a.getD c.pos 0, { c with pos := c.pos + 1 })

def siteTok : Site → String
  | .alpha => "alpha" | .W0 c => s!"W0.{c}" | .V0 m => s!"V0.{m}" | .W c => s!"W.{c}" | .V2 m => s!"V2.{m}"
  | .V1 m => s!"V1.{m}" | .tau0 => "tau0" | .phi0aux => "phi0aux" | .phi0 => "phi0" | .eta0aux => "eta0aux"
  | .eta0 => "eta0" | .prec => "prec" | .phi2aux => "phi2aux" | .phi2 => "phi2" | .eta2aux => "eta2aux"
  | .eta2 => "eta2" | .phi1aux => "phi1aux" | .phi1 => "phi1" | .eta1aux => "eta1aux" | .eta1 => "eta1"
  | .gam d => s!"gam.{d}"

def kindTok : Kind → String
  | .det => "det" | .normal => "normal" | .normalVec => "normalVec" | .mvn => "mvn" | .gamma => "gamma"

def showRec (r : Rec Float) : String := s!"{siteTok r.site}:{kindTok r.kind}:{showFs r.args}"

def optRows (fail : List Bool) (m : Nat → Nat → Float) : Nat → Option (Nat → Float) := fun i =>
  if fail.getD i false then none else some (m i)

def stateFloats (dt : Data Float) (st : State Float) : List Float :=
  [st.alpha, st.prec, st.tau0, st.eta0] ++ flatMat dt.nC dt.D st.W ++ flatVec dt.nC st.W0
    ++ flatMat dt.nT dt.D st.V2 ++ flatMat dt.nT dt.D st.V1 ++ flatVec dt.nT st.V0 ++ flatVec dt.D st.tau
    ++ flatVec dt.D st.gam ++ flatVec dt.D st.eta2 ++ flatVec dt.D st.eta1 ++ flatMat dt.nT dt.D st.phi2
    ++ flatMat dt.nT dt.D st.phi1 ++ flatVec dt.nT st.phi0 ++ flatVec dt.N st.Mu

def sweep (nC nT D N : Nat) (cl : List Nat) (d1 d2 : List Int) (fW fV2 fV1 : List Bool) (fl : Array Float) :
    Option String :=
  let need := 2 + N + 4 + nC * D + nC + 2 * (nT * D) + nT + 4 * D + 2 * (nT * D) + nT + N
    + (nC + nT + nC * D + 2 * (nT * D) + 1 + 2 * nT + 3 + 2 * (nT * D) + 2 * D + 2 * (nT * D) + 2 * D + D)
  if fl.size != need || cl.length != N || d1.length != N || d2.length != N then none else
  let c : Cur := ⟨fl, 0⟩
  let (a0, c) := c.one
  let (b0, c) := c.one
  let (y, c) := c.vec N
  let cla := cl.toArray
  let d1a := d1.toArray
  let d2a := d2.toArray
  let dt : Data Float := { nC := nC, nT := nT, D := D, N := N, y := y, cline := (fun n => cla.getD n 0), dd1 := (fun n => d1a.getD n (-1)), dd2 := (fun n => d2a.getD n (-1)), a0 := a0, b0 := b0 }
  let (alpha, c) := c.one
  let (prec, c) := c.one
  let (tau0, c) := c.one
  let (eta0, c) := c.one
  let (W, c) := c.mat nC D
  let (W0, c) := c.vec nC
  let (V2, c) := c.mat nT D
  let (V1, c) := c.mat nT D
  let (V0, c) := c.vec nT
  let (tau, c) := c.vec D
  let (gam, c) := c.vec D
  let (eta2, c) := c.vec D
  let (eta1, c) := c.vec D
  let (phi2, c) := c.mat nT D
  let (phi1, c) := c.mat nT D
  let (phi0, c) := c.vec nT
  let (Mu, c) := c.vec N
  let st : State Float := { W := W, W0 := W0, V2 := V2, V1 := V1, V0 := V0, alpha := alpha, prec := prec, tau := tau, tau0 := tau0, gam := gam, phi2 := phi2, phi1 := phi1, phi0 := phi0, eta2 := eta2, eta1 := eta1, eta0 := eta0, Mu := Mu, log := [] }
  let (w0, c) := c.vec nC
  let (v0, c) := c.vec nT
  let (w, c) := c.mat nC D
  let (v2, c) := c.mat nT D
  let (v1, c) := c.mat nT D
  let (dtau0, c) := c.one
  let (phi0aux, c) := c.vec nT
  let (dphi0, c) := c.vec nT
  let (eta0aux, c) := c.one
  let (deta0, c) := c.one
  let (dprec, c) := c.one
  let (phi2aux, c) := c.mat nT D
  let (dphi2, c) := c.mat nT D
  let (eta2aux, c) := c.vec D
  let (deta2, c) := c.vec D
  let (phi1aux, c) := c.mat nT D
  let (dphi1, c) := c.mat nT D
  let (eta1aux, c) := c.vec D
  let (deta1, c) := c.vec D
  let (dgam, _) := c.vec D
  let ω : Draws Float := { w0 := w0, v0 := v0, w := optRows fW w, v2 := optRows fV2 v2, v1 := optRows fV1 v1, tau0 := dtau0, phi0aux := phi0aux, phi0 := dphi0, eta0aux := eta0aux, eta0 := deta0, prec := dprec, phi2aux := phi2aux, phi2 := dphi2, eta2aux := eta2aux, eta2 := deta2, phi1aux := phi1aux, phi1 := dphi1, eta1aux := eta1aux, eta1 := deta1, gam := dgam }
  let tr := mcmcTrace dt ω st
  let fin := mcmcStep dt ω st
  let th := exportState fin
  let logS := if fin.log.isEmpty then "-" else ";".intercalate (fin.log.map showRec)
  let musS := ";".intercalate (tr.map (fun s => showFs (flatVec N s.Mu)))
  let predS := showFs (flatVec N (fun n => predict D th (dt.cline n) (dt.dd1 n) (dt.dd2 n)))
  some s!"{logS} {musS} {showFs (stateFloats dt fin)} {predS} {showF (predictVariance th)}"

def mvn (D : Nat) (fl : Array Float) : Option String :=
  if fl.size != D * D + 2 * D then none else
  let c : Cur := ⟨fl, 0⟩
  let (Q, c) := c.mat D D
  let (b, c) := c.vec D
  let (z, _) := c.vec D
  some (showFs (flatVec D (sampleMvn D Q b z)))

def handle : List String → Option String
  | ["c08sweep", nC, nT, D, N, cl, d1, d2, fW, fV2, fV1, fl] => do
    let nC ← parseNat? nC
    let nT ← parseNat? nT
    let D ← parseNat? D
    let N ← parseNat? N
    let cl ← parseNatList? cl
    let d1 ← parseIntList? d1
    let d2 ← parseIntList? d2
    let fW ← parseBoolList? fW
    let fV2 ← parseBoolList? fV2
    let fV1 ← parseBoolList? fV1
    let fl ← parseFloats? fl
    sweep nC nT D N cl d1 d2 fW fV2 fV1 fl
  | ["c08mvn", D, fl] => do
    let D ← parseNat? D
    let fl ← parseFloats? fl
    mvn D fl
  | _ => none

end Batchie.GibbsIO
