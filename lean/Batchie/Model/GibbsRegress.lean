/-
  Variants of pieces of `Model/Gibbs.lean`:
  * `addRows` — a further instalment of observations appended to the data held by the sampler (what a second
    `add_observations` does to the row lists);
  * REGRESSION definitions: code that is NOT in /repo, kept so that the property can be refuted on them
    (seeded changes S5-C08, S6-C08, S7-C08).
-/
import Batchie.Model.Gibbs

namespace Batchie.Gibbs

section
variable {α : Type} [Add α] [Mul α] [Sub α] [Neg α] [Div α] [Max α] [Min α] [HasSqrt α]
  [OfNat α 0] [OfNat α 1] [OfNat α 2] [OfNat α 3] [OfNat α 1000] [OfNat α 1000000]

/-- `_update` called for `k` more rows: the row lists grow at the end, everything held so far stays -/
def addRows (dt : Data α) (k : Nat) (y : Nat → α) (cline : Nat → Nat) (dd1 dd2 : Nat → Int) : Data α :=
  { dt with N := dt.N + k,
            y := fun n => if n < dt.N then dt.y n else y (n - dt.N),
            cline := fun n => if n < dt.N then dt.cline n else cline (n - dt.N),
            dd1 := fun n => if n < dt.N then dt.dd1 n else dd1 (n - dt.N),
            dd2 := fun n => if n < dt.N then dt.dd2 n else dd2 (n - dt.N) }

/-- REGRESSION (S6-C08): `_W_step` looping over the samples that HAVE observations (`for c in sorted(self.cline_idxs)` with a
    dict that only holds samples with data): a sample without data is skipped instead of being drawn from its prior -/
def wStepDataOnly (dt : Data α) (ω : Draws α) (st : State α) : State α :=
  iter dt.nC (fun c s => if (wBlk dt s c).has then wBlock dt ω c s else s) st

/-- REGRESSION (S7-C08): scalar fast path of `sample_mvn_from_precision` for a 1×1 precision matrix with the noise divided by
    `q` instead of `√q` -/
def sampleMvnFast1 (Q : Nat → Nat → α) (b z : Nat → α) : Nat → α := fun _ => z 0 / Q 0 0 + b 0 / Q 0 0

/-- REGRESSION (S5-C08): `_alpha_step` with the mean of `y` memoised at the first call (`cached`), not recomputed from the rows
    held now -/
def alphaStepCached (cached : α) (dt : Data α) (st : State α) : State α :=
  if dt.N = 0 then st.push ⟨.alpha, .det, [st.alpha]⟩
  else ({ st with alpha := cached, Mu := fun n => st.Mu n + (cached - st.alpha) }).push ⟨.alpha, .det, [cached]⟩

end

end Batchie.Gibbs
