/-
  Model of `scoring/gaussian_dbal.py:57-337` (ragged-to-dense padding, the vectorised DBAL
  kernel, the homoscedastic / heteroscedastic wrappers, `GaussianDBALScorer.score`) and of
  `models/main.py` `predict_mean_all` / `predict_variance_all` as array builders.

  Import-free and executable.  Every numeric definition is written once, generically over a
  type `α` carrying `+ - * / -x 0 1` and the small class `ExpLog α` (`exp`, `log`, `== 0`).
  The driver instantiates `α := Float` (`Model/DbalIO.lean`); `Lemmas/Dbal.lean` and
  `Props/C05.lean` instantiate `α := ℝ`.

  Conventions
  * a posterior-sample triple is `(idx1, idx2, idx3)`; the list of triples the code draws
    (`rng.choice` + `get_combination_at_sorted_index`) is an ARGUMENT of every function here
    (C15 proves what that list is when the budget covers `C(n,3)`).
  * the distance matrix is a lookup function `D i j` (`distance_matrix[i, j]`).
  * a dense array is a list of rows; the plate axis of the 3-d arrays is the outer list.  numpy
    never reduces over the plate axis in this file (`sum(axis=-1)`, `logsumexp(axis=1)`), so the
    per-plate value is computed by `zipWith` over that axis.
  * NaN does not exist in `ℝ`: a NaN-padded variance cell is `none : Option α`;
    `~np.isnan` is `Option.isSome`, `np.nan_to_num(nan=1.0)` is `Option.getD · 1`.
  * `np.log(0) = -inf` (`errstate(divide="ignore")`): `log_triple_dists` is `Option α` with
    `none = -inf`; adding to `-inf` stays `-inf` and `exp(-inf) = 0`, i.e. a triple whose three
    distances sum to zero contributes `0` to the sum inside `logsumexp`.  (Faithful for
    `distance_factor > 0` only: `0 * -inf` is NaN and a negative factor gives `+inf`; the
    scorer always uses the default `1.0`.)
  * `scipy.special.logsumexp` is modelled as implemented (`logSumExpShifted`: subtract the row
    maximum, `0` when that is `-inf`); `Lemmas/Dbal.lean` proves it equal to the plain
    `log (Σ exp xᵢ)` (`logSumExp`) over the reals for every row.
-/
namespace Batchie.Dbal

/-- the transcendental part of the numeric interface -/
class ExpLog (α : Type) where
  exp : α → α
  log : α → α
  /-- `x == 0` -/
  isZero : α → Bool

abbrev Triple := Nat × Nat × Nat

/-- every 3-subset of `{0..n-1}` once, as a descending tuple, in the order of
    `get_combination_at_sorted_index(ind, n, 3)` for `ind = 0, 1, …, C(n,3)-1` -/
def allTriples (n : Nat) : List Triple :=
  (List.range n).flatMap (fun a => (List.range a).flatMap (fun b => (List.range b).map (fun c => (a, b, c))))

/-! ### numpy `array_split` (sizes: the first `len % n` chunks get one extra element) -/

def splitSizes (len n : Nat) : List Nat :=
  List.replicate (len % n) (len / n + 1) ++ List.replicate (n - len % n) (len / n)

def splitBySizes {β : Type} : List Nat → List β → List (List β)
  | [], _ => []
  | s :: ss, l => l.take s :: splitBySizes ss (l.drop s)

/-- `np.array_split(l, n)` for `n ≥ 1` (numpy raises for `n = 0`; the model returns `[]`) -/
def arraySplit {β : Type} (l : List β) (n : Nat) : List (List β) :=
  splitBySizes (splitSizes l.length n) l

/-- `np.ceil(a / b)` on non-negative integers -/
def ceilDiv (a b : Nat) : Nat := (a + b - 1) / b

/-! ### `pad_ragged_arrays_to_dense_array` -/

def maxL (l : List Nat) : Nat := l.foldr max 0

/-- `array.shape[1]` of a rectangular 2-d array given as a list of rows -/
def shape1 {β : Type} (a : List (List β)) : Nat := maxL (a.map List.length)

def padRow {β : Type} (pad : β) (w : Nat) (r : List β) : List β :=
  r ++ List.replicate (w - r.length) pad

/-- `result[i, :array.shape[0], :array.shape[1]] = array` into a `pad`-filled `(h, w)` block -/
def padArray {β : Type} (pad : β) (h w : Nat) (a : List (List β)) : List (List β) :=
  a.map (padRow pad w) ++ List.replicate (h - a.length) (List.replicate w pad)

/-- `pad_ragged_arrays_to_dense_array(arrays, pad_value)`: `max_sizes` is the elementwise
    maximum of the shapes -/
def padRagged {β : Type} (pad : β) (arrays : List (List (List β))) : List (List (List β)) :=
  arrays.map (padArray pad (maxL (arrays.map List.length)) (maxL (arrays.map shape1)))

section generic

variable {α : Type} [Add α] [Sub α] [Mul α] [Div α] [Neg α] [Zero α] [One α] [ExpLog α]

/-- `0.5` -/
def half : α := 1 / (1 + 1)

/-- `np.square` -/
def sq (x : α) : α := x * x

def prodL (l : List α) : α := l.foldr (· * ·) 1

/-! ### the reference: direct, unpadded, loop-by-loop evaluation of the documented estimator -/

/-- one experiment of a plate: predicted mean and variance under every posterior sample -/
structure Experiment (α : Type) where
  m : Nat → α
  v : Nat → α

abbrev Plate (α : Type) := List (Experiment α)

/-- the experiment seen after renaming posterior sample `σ i` to `i` -/
def Experiment.relabel (σ : Nat → Nat) (e : Experiment α) : Experiment α :=
  { m := fun i => e.m (σ i), v := fun i => e.v (σ i) }

/-- `D i j + D j l + D i l` -/
def distSum (D : Nat → Nat → α) (t : Triple) : α :=
  D t.1 t.2.1 + D t.2.1 t.2.2 + D t.1 t.2.2

/-- `a = v1 v2 + v2 v3 + v1 v3` -/
def tripleA (v1 v2 v3 : α) : α := v1 * v2 + v2 * v3 + v1 * v3

/-- `a^(-1/2)` -/
def invSqrt (a : α) : α := ExpLog.exp (-(half * ExpLog.log a))

/-- the Gaussian triple term of one experiment:
    `a^(-1/2) · exp(-(v1 v2 v3)/(2 a²) · (v3 (m1-m2)² + v2 (m1-m3)² + v1 (m2-m3)²))` -/
def gaussTerm (e : Experiment α) (t : Triple) : α :=
  let m1 := e.m t.1; let m2 := e.m t.2.1; let m3 := e.m t.2.2
  let v1 := e.v t.1; let v2 := e.v t.2.1; let v3 := e.v t.2.2
  let a := tripleA v1 v2 v3
  invSqrt a *
    ExpLog.exp (-(((v1 * v2 * v3) / ((1 + 1) * (a * a))) *
      (v3 * sq (m1 - m2) + v2 * sq (m1 - m3) + v1 * sq (m2 - m3))))

/-- weight of one triple for one plate: `(summed distance)^factor · Π_e gaussTerm`; a triple
    with zero summed distance weighs `0` -/
def tripleWeight (D : Nat → Nat → α) (factor : α) (p : Plate α) (t : Triple) : α :=
  if ExpLog.isZero (distSum D t) then 0
  else ExpLog.exp (factor * ExpLog.log (distSum D t)) * prodL (p.map (fun e => gaussTerm e t))

/-- the direct estimator: `log Σ_triples w` -/
def scoreDirect (D : Nat → Nat → α) (factor : α) (p : Plate α) (triples : List Triple) : α :=
  ExpLog.log ((triples.map (tripleWeight D factor p)).sum)

/-! ### what the code does -/

/-- `predict_mean_all(plate, thetas)`: array of shape `(n_thetas, plate.size)` -/
def meansArray (n : Nat) (p : Plate α) : List (List α) :=
  (List.range n).map (fun t => p.map (fun e => e.m t))

/-- `predict_variance_all(plate, thetas)` -/
def varsArray (n : Nat) (p : Plate α) : List (List α) :=
  (List.range n).map (fun t => p.map (fun e => e.v t))

/-- the columns of a pair of `(n_thetas, n_experiments)` arrays as experiments (the inverse of
    `meansArray` / `varsArray` on rectangular arrays) -/
def plateOfArrays (means vars : List (List α)) : Plate α :=
  (List.range (shape1 means)).map (fun e =>
    { m := fun t => (means.getD t []).getD e 0, v := fun t => (vars.getD t []).getD e 0 })

/-- a finite array seen as an array that may contain NaN -/
def someArray (a : List (List α)) : List (List (Option α)) := a.map (fun r => r.map some)

def rowAt {β : Type} (arr : List (List β)) (i : Nat) : List β := arr.getD i []

def vAdd (a b : List α) : List α := List.zipWith (· + ·) a b
def vSub (a b : List α) : List α := List.zipWith (· - ·) a b
def vMul (a b : List α) : List α := List.zipWith (· * ·) a b
def vDiv (a b : List α) : List α := List.zipWith (· / ·) a b

/-- `mask = ~np.isnan(variances)` used as a 0/1 factor -/
def maskOf (vars : List (List (Option α))) : List (List α) :=
  vars.map (fun r => r.map (fun o => if o.isSome then (1 : α) else 0))

/-- `padded_variances = np.nan_to_num(variances, nan=1.0)` -/
def nanToNum (vars : List (List (Option α))) : List (List α) :=
  vars.map (fun r => r.map (fun o => o.getD 1))

/-- `log_triple_dists[c]`; `none` is `-inf` -/
def logTripleDist (D : Nat → Nat → α) (factor : α) (t : Triple) : Option α :=
  if ExpLog.isZero (distSum D t) then none else some (factor * ExpLog.log (distSum D t))

/-- `(log_norm_factor + ll + log_triple_dists)[plate, c]` for the triple `c = t`, lines 227-255
    of `dbal_fast_gauss_scoring_vectorized`, one elementwise numpy operation per `v…`/`map` -/
def comboTerm (D : Nat → Nat → α) (factor : α) (preds mask pv : List (List α)) (t : Triple) : Option α :=
  let p1 := rowAt preds t.1; let p2 := rowAt preds t.2.1; let p3 := rowAt preds t.2.2
  let v1 := rowAt pv t.1; let v2 := rowAt pv t.2.1; let v3 := rowAt pv t.2.2
  let alpha := vAdd (vAdd (vMul v1 v2) (vMul v2 v3)) (vMul v1 v3)
  let expFactor := vDiv ((vMul (vMul v1 v2) v3).map (fun x => half * x)) (alpha.map sq)
  let logNorm := (vMul ((rowAt mask t.1).map (fun k => k * half))
                      (alpha.map (fun a => ExpLog.log (1 / a)))).sum
  let d12 := vMul v3 ((vSub p1 p2).map sq)
  let d13 := vMul v2 ((vSub p1 p3).map sq)
  let d23 := vMul v1 ((vSub p2 p3).map sq)
  let ll := (vMul (expFactor.map (fun x => -x)) (vAdd (vAdd d12 d13) d23)).sum
  (logTripleDist D factor t).map (fun ltd => logNorm + ll + ltd)

/-- `exp` of one entry of a `logsumexp` row: `exp(-inf) = 0` -/
def expOrZero (o : Option α) : α :=
  match o with
  | none => 0
  | some x => ExpLog.exp x

/-- `log Σ exp` over one row; `none = -inf` contributes `exp(-inf) = 0`.  The specification of
    `logsumexp`, without the max-shift. -/
def logSumExp (xs : List (Option α)) : α :=
  ExpLog.log ((xs.map expOrZero).sum)

/-- `np.amax` over one row; `none = -inf` -/
def rowMax [Max α] : List (Option α) → Option α
  | [] => none
  | o :: os =>
    match o, rowMax os with
    | none, r => r
    | some x, none => some x
    | some x, some y => some (max x y)

/-- `scipy.special.logsumexp` as implemented: `a_max = amax(a)`, `a_max[~isfinite(a_max)] = 0`,
    `log(sum(exp(a - a_max))) + a_max` -/
def logSumExpShifted [Max α] (xs : List (Option α)) : α :=
  let aMax : α := (rowMax xs).getD 0
  ExpLog.log ((xs.map (fun o => expOrZero (o.map (fun x => x - aMax)))).sum) + aMax

/-- the score of one plate of the dense arrays -/
def scorePlateDense [Max α] (D : Nat → Nat → α) (factor : α) (triples : List Triple)
    (preds : List (List α)) (vars : List (List (Option α))) : α :=
  logSumExpShifted (triples.map (comboTerm D factor preds (maskOf vars) (nanToNum vars)))

/-- `dbal_fast_gauss_scoring_vectorized(predictions, variances, distance_matrix, …)` on valid
    shapes: `predictions`, `variances` of shape `(n_plates, n_thetas, width)` -/
def scoreVectorised [Max α] (D : Nat → Nat → α) (factor : α) (triples : List Triple)
    (preds : List (List (List α))) (vars : List (List (List (Option α)))) : List α :=
  List.zipWith (scorePlateDense D factor triples) preds vars

/-- `dbal_fast_gaussian_scoring_heteroscedastic(per_plate_predictions, variances, …)` -/
def scoreHeteroscedastic [Max α] (D : Nat → Nat → α) (factor : α) (triples : List Triple)
    (preds vars : List (List (List α))) : List α :=
  scoreVectorised D factor triples (padRagged 0 preds) (padRagged none (vars.map someArray))

/-- `variances_ragged_array` of the homoscedastic wrapper:
    `plate_variances[:, None] * np.ones((n_thetas, n_experiments))` -/
def homoscedasticRagged (preds : List (List (List α))) (vars : List (List α)) : List (List (List α)) :=
  List.zipWith (fun pp pv => pv.map (fun v => List.replicate (shape1 pp) (v * 1))) preds vars

/-- `dbal_fast_gaussian_scoring_homoscedastic(per_plate_predictions, variances (n_plates × n_thetas), …)` -/
def scoreHomoscedastic [Max α] (D : Nat → Nat → α) (factor : α) (triples : List Triple)
    (preds : List (List (List α))) (vars : List (List α)) : List α :=
  scoreVectorised D factor triples (padRagged 0 preds)
    (padRagged none ((homoscedasticRagged preds vars).map someArray))

/-- the three kernels applied to a group of plates given as experiments (`predict_*_all` build
    the arrays): what one iteration of the scorer's loop computes -/
def scoreGroup [Max α] (n : Nat) (D : Nat → Nat → α) (factor : α) (triples : List Triple)
    (group : List (Plate α)) : List α :=
  scoreVectorised D factor triples
    (padRagged 0 (group.map (meansArray n)))
    (padRagged none (group.map (fun p => someArray (varsArray n p))))

/-- `GaussianDBALScorer.score(plates, distance_matrix, samples, rng, …)`.
    `plates` is the dict in insertion order (keys are unique); `tripless g` is the triple list
    drawn by the `g`-th call of the kernel (each sub-group draws afresh from `rng`).
    The returned association list is the returned dict in insertion order. -/
def scorerScore [Max α] (n : Nat) (D : Nat → Nat → α) (maxChunk : Nat) (tripless : Nat → List Triple)
    (plates : List (Nat × Plate α)) : List (Nat × α) :=
  if plates.isEmpty then []
  else
    let groups := arraySplit (plates.map Prod.fst) (ceilDiv plates.length maxChunk)
    (groups.mapIdx (fun g grp =>
      let current := grp.map (fun k => (plates.lookup k).getD [])
      grp.zip (scoreGroup n D 1 (tripless g) current))).flatten

end generic

end Batchie.Dbal
