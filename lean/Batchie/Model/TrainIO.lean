/-
  Line protocol of the training-data model (driver side of `harness/c04.py`).

  train <combo|interaction> <raw screen…>
      → `ok tuples=<obs:sid:dd1:dd2;…>|single=<sid:t:one;sid:t:bits,bits;…>`  (the transform is the identity
        here: the tuple carries the observation's bit pattern, the harness applies the documented transform)
  add <combo|interaction> <sel> <raw screen…>
      → `BayesianModel.add_observations(screen.subset(sel))` (refusals)
  addpriv <combo|interaction> <sel> <raw screen…>
      → the model's own `_add_observations(screen.subset(sel))`, i.e. without the public mask check
-/
import Batchie.Model.Train
import Batchie.Model.ScreenIO

namespace Batchie.TrainIO
open Batchie.Proto Batchie.Screen Batchie.ScreenIO Batchie.Train

def parseKind? (s : String) : Option ModelKind :=
  if s == "combo" then some .sparseDrugCombo
  else if s == "interaction" then some .sparseDrugComboInteraction
  else none

def showEffect : Effect → String
  | .one => "one"
  | .meanOf v => showNatList v

def showTrained (t : Trained Nat) : String :=
  "tuples=" ++ showList (fun e => s!"{e.1}:{e.2.1}:{e.2.2.1}:{e.2.2.2}") ";" t.tuples
    ++ "|single=" ++ showList (fun e => s!"{e.1.1}:{e.1.2}:{showEffect e.2}") ";" t.single

def showRes : Except Err (Trained Nat) → String
  | .error e => showErr e
  | .ok t => "ok " ++ showTrained t

def handle : List String → Option String
  | "train" :: kind :: rest => do
      let k ← parseKind? kind
      let r ← parseRaw? rest
      match mk? r with
      | .error e => pure ("parent-" ++ showErr e)
      | .ok s => pure (showRes (trainRows k id (fun _ => false) s))
  | "add" :: kind :: sel :: rest => do
      let k ← parseKind? kind
      let sel ← parseSel? sel
      let r ← parseRaw? rest
      match mk? r with
      | .error e => pure ("parent-" ++ showErr e)
      | .ok s => match s.subset 0 sel with
        | .error e => pure (showErr e)
        | .ok v => pure (showRes (addObservations k id (fun _ => false) s.arity (viewRows s v)))
  | "addpriv" :: kind :: sel :: rest => do
      let k ← parseKind? kind
      let sel ← parseSel? sel
      let r ← parseRaw? rest
      match mk? r with
      | .error e => pure ("parent-" ++ showErr e)
      | .ok s => match s.subset 0 sel with
        | .error e => pure (showErr e)
        | .ok v => pure (showRes (match k with
            | .sparseDrugCombo => addSparseDrugCombo id (fun _ => false) (viewRows s v)
            | .sparseDrugComboInteraction => addInteraction id s.arity (viewRows s v)))
  | _ => none

end Batchie.TrainIO
