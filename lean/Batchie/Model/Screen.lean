/-
  Hand model of `batchie.data`: id encoding, `Screen.__init__`, subset/plate views,
  the unique-condition filter and HDF5 persistence as a record of tables.
  Import-free and executable; tied to /repo by the correspondence harness.

  Conventions (DESIGN.md 1.1): names are lists of Unicode code points ordered
  lexicographically (Python `str` order); doses are exact rationals of the floats;
  observation values are opaque 64-bit patterns (`Nat`), only ever moved.
-/
import Batchie.Model.Proto

namespace Batchie.Screen
open Batchie.Proto

abbrev Name := List Nat
abbrev Dose := Rat

/-- lexicographic `≤` on (name, dose) — the order of `sort_values(by=["name","dose"])` -/
def keyLe (a b : Name × Dose) : Bool :=
  if a.1 < b.1 then true else if a.1 == b.1 then decide (a.2 ≤ b.2) else false

def nameLe (a b : Name) : Bool := decide (a ≤ b)

/-! ### numpy/pandas idioms -/

/-- boolean-mask indexing `arr[mask]` -/
def maskFilter {α : Type} : List α → List Bool → List α
  | a :: as, m :: ms => if m then a :: maskFilter as ms else maskFilter as ms
  | _, _ => []

/-- `out = outer.copy(); out[np.where(outer)[0]] = inner` -/
def scatter : List Bool → List Bool → List Bool
  | true :: os, i :: is => i :: scatter os is
  | true :: os, [] => true :: scatter os []
  | false :: os, is => false :: scatter os is
  | [], _ => []

/-- `index - is_control.cumsum()` (inclusive), then `-1` written on the control rows -/
def renumberGo : Int → Int → List Bool → List Int
  | _, _, [] => []
  | i, c, f :: fs =>
    let c' := if f then c + 1 else c
    (if f then (-1 : Int) else i - c') :: renumberGo (i + 1) c' fs

def renumber (flags : List Bool) : List Int := renumberGo 0 0 flags

/-- `numpy_array_is_0_indexed_integers` on an integer array -/
def isZeroIndexed (ids : List Int) : Bool :=
  let u := (ids.eraseDups).mergeSort (fun a b => decide (a ≤ b))
  if ids.contains (-1) then
    u == (-1 : Int) :: (List.range (u.length - 1)).map (fun (i : Nat) => (i : Int))
  else
    u == (List.range u.length).map (fun (i : Nat) => (i : Int))

abbrev TMap := List (Name × Dose × Int)
abbrev SMap := List (Name × Int)

def isControl (ctrl : Name) (k : Name × Dose) : Bool := decide (k.2 ≤ 0) || k.1 == ctrl

/-- the fresh table of `encode_treatment_arrays_to_0_indexed_ids` -/
def freshTMap (ctrl : Name) (xs : List (Name × Dose)) : TMap :=
  let u := (xs.eraseDups).mergeSort keyLe
  let ids := renumber (u.map (isControl ctrl))
  (u.zip ids).map (fun p => (p.1.1, p.1.2, p.2))

/-- `df.merge(df_unique, on=["name","dose"], how="left")`: every match, in table order -/
def tLookup (tm : TMap) (k : Name × Dose) : List Int :=
  (tm.filter (fun e => e.1 == k.1 && e.2.1 == k.2)).map (fun e => e.2.2)

def encodeTreatments (ctrl : Name) (xs : List (Name × Dose)) (existing : Option TMap) :
    Except Err (List Int × TMap) :=
  let tm := match existing with
    | some m => m
    | none => freshTMap ctrl xs
  let hits := xs.map (tLookup tm)
  if hits.any (·.isEmpty) then .error .valueError
  else .ok (hits.flatten, tm)

def freshSMap (xs : List Name) : SMap :=
  let u := (xs.eraseDups).mergeSort nameLe
  u.zipIdx.map (fun p => (p.1, (p.2 : Int)))

def sLookup (sm : SMap) (k : Name) : List Int :=
  (sm.filter (fun e => e.1 == k)).map (fun e => e.2)

def encode1d (xs : List Name) (existing : Option SMap) : Except Err (List Int × SMap) :=
  let sm := match existing with
    | some m => m
    | none => freshSMap xs
  let hits := xs.map (sLookup sm)
  if hits.any (·.isEmpty) then .error .valueError
  else .ok (hits.flatten, sm)

/-! ### Screen -/

/-- arguments of `Screen(...)`; the treatment arrays are row-major, every row of length `arity` -/
structure Raw where
  ctrl : Name
  arity : Nat
  tnames : List (List Name)
  tdoses : List (List Dose)
  snames : List Name
  pnames : List Name
  obs : Option (List Nat)
  mask : Option (List Bool)
  tmap : Option TMap
  smap : Option SMap
deriving Repr

structure Screen where
  ctrl : Name
  arity : Nat
  tnames : List (List Name)
  tdoses : List (List Dose)
  snames : List Name
  pnames : List Name
  obs : List Nat
  mask : List Bool
  tids : List (List Int)
  sids : List Int
  pids : List Int
  tmap : TMap
  smap : SMap
  pmap : SMap
deriving Repr, BEq

def Screen.size (s : Screen) : Nat := s.snames.length

/-- column `i` of a row-major table -/
def column {α : Type} [Inhabited α] (rows : List (List α)) (i : Nat) : List α := rows.map (fun r => r[i]!)

/-- `np.vstack(np.split(flat, arity)).T` for a flat column-major array of length `n * arity` -/
def unflattenColumns (flat : List Int) (n arity : Nat) : List (List Int) :=
  (List.range n).map (fun r => (List.range arity).map (fun c => flat[c * n + r]!))

/-- the per-plate uniformity test of `Screen.__init__` -/
def plateUniform (pnames : List Name) (mask : List Bool) : Bool :=
  (pnames.eraseDups).all (fun p =>
    let m := maskFilter mask (pnames.map (· == p))
    m.all (fun b => b == m.head!))

/-- `Screen.__init__` -/
def mk? (r : Raw) : Except Err Screen := do
  let n := r.tnames.length
  if r.tdoses.length != n || r.snames.length != n || r.pnames.length != n then throw .valueError
  if r.tnames.any (·.length != r.arity) || r.tdoses.any (·.length != r.arity) then throw .valueError
  if r.obs.isNone && r.mask.isSome then throw .valueError
  let (obs, mask) ← match r.obs with
    | some o =>
      if o.length != n then throw .valueError
      else pure (o, match r.mask with | some m => m | none => List.replicate n true)
    | none => pure (List.replicate n 0, List.replicate n false)
  if mask.length != n then throw .indexError
  if !plateUniform r.pnames mask then throw .valueError
  let allNames := (List.range r.arity).flatMap (fun i => column r.tnames i)
  let allDoses := (List.range r.arity).flatMap (fun i => column r.tdoses i)
  match r.tmap with
  | some m => if !isZeroIndexed (m.map (·.2.2)) then throw .valueError
  | none => pure ()
  match r.smap with
  | some m => if !isZeroIndexed (m.map (·.2)) then throw .valueError
  | none => pure ()
  let (tflat, tmap) ← encodeTreatments r.ctrl (allNames.zip allDoses) r.tmap
  if tflat.length != n * r.arity then throw .other
  let (sids, smap) ← encode1d r.snames r.smap
  if sids.length != n then throw .other
  let (pids, pmap) ← encode1d r.pnames none
  pure { ctrl := r.ctrl, arity := r.arity, tnames := r.tnames, tdoses := r.tdoses, snames := r.snames,
         pnames := r.pnames, obs := obs, mask := mask, tids := unflattenColumns tflat n r.arity,
         sids := sids, pids := pids, tmap := tmap, smap := smap, pmap := pmap }

/-- the keyword arguments a screen hands back to `Screen(...)` when it is rebuilt from its own rows -/
def Screen.toRaw (s : Screen) (withMaps : Bool) : Raw :=
  { ctrl := s.ctrl, arity := s.arity, tnames := s.tnames, tdoses := s.tdoses, snames := s.snames,
    pnames := s.pnames, obs := some s.obs, mask := some s.mask,
    tmap := if withMaps then some s.tmap else none, smap := if withMaps then some s.smap else none }

/-! ### views (`ScreenSubset` / `Plate`) -/

/-- a view is a selection vector over a fixed parent; `parent` is the parent's identity -/
structure View where
  parent : Nat
  sel : List Bool
deriving Repr, BEq

def Screen.subset (s : Screen) (pid : Nat) (sel : List Bool) : Except Err View :=
  if sel.length != s.size then .error .valueError else .ok { parent := pid, sel := sel }

def View.size (v : View) : Nat := v.sel.count true

def View.subset (v : View) (sel : List Bool) : Except Err View :=
  if sel.length != v.size then .error .valueError else .ok { v with sel := scatter v.sel sel }

def View.invert (v : View) : View := { v with sel := v.sel.map (!·) }

def View.combine (a b : View) : Except Err View :=
  if a.parent != b.parent then .error .valueError
  else .ok { a with sel := List.zipWith (· || ·) a.sel b.sel }

def View.concat : List View → Except Err View
  | [] => .error .valueError
  | [v] => .ok v
  | v :: rest =>
    if rest.any (·.parent != v.parent) then .error .valueError
    else .ok { v with sel := rest.foldl (fun acc x => List.zipWith (· || ·) acc x.sel) v.sel }

def Screen.subsetObserved (s : Screen) (pid : Nat) : Option View :=
  if s.mask.any id then some { parent := pid, sel := s.mask } else none

def Screen.subsetUnobserved (s : Screen) (pid : Nat) : Option View :=
  if s.mask.any (!·) then some { parent := pid, sel := s.mask.map (!·) } else none

def Screen.getPlate (s : Screen) (pid : Nat) (plate : Int) : View :=
  { parent := pid, sel := s.pids.map (· == plate) }

def Screen.uniquePlateIds (s : Screen) : List Int := (s.pids.eraseDups).mergeSort (fun a b => decide (a ≤ b))

def Screen.plates (s : Screen) (pid : Nat) : List View := s.uniquePlateIds.map (s.getPlate pid)

/-- `ScreenSubset.to_screen()`: a fresh `Screen(...)` from the selected rows, **without** mappings -/
def Screen.viewToScreen (s : Screen) (v : View) : Except Err Screen :=
  mk? { ctrl := s.ctrl, arity := s.arity, tnames := maskFilter s.tnames v.sel, tdoses := maskFilter s.tdoses v.sel,
        snames := maskFilter s.snames v.sel, pnames := maskFilter s.pnames v.sel,
        obs := some (maskFilter s.obs v.sel), mask := some (maskFilter s.mask v.sel), tmap := none, smap := none }

/-- `select_unique_zipped_numpy_arrays`: first occurrence of every distinct key
    (`np.unique(..., return_index=True)` returns the first index of each unique row) -/
def uniqueMaskGo {α : Type} [BEq α] : List α → List α → List Bool
  | _, [] => []
  | seen, k :: ks => if seen.contains k then false :: uniqueMaskGo seen ks else true :: uniqueMaskGo (k :: seen) ks

def uniqueMask {α : Type} [BEq α] (keys : List α) : List Bool := uniqueMaskGo [] keys

/-- `filter_dataset_to_unique_treatments` on a view -/
def Screen.uniqueFilter (s : Screen) (v : View) : Except Err View :=
  let keys := (maskFilter s.sids v.sel).zip (maskFilter s.tids v.sel)
  v.subset (uniqueMask keys)

/-! ### persistence (`save_h5` / `load_h5`) as a record of tables -/

structure File where
  ctrl : Name
  arity : Nat
  tnames : List (List Name)
  tdoses : List (List Dose)
  tids : List (List Int)
  tmapNames : List Name
  tmapDoses : List Dose
  tmapIds : List Int
  obs : List Nat
  mask : List Bool
  sids : List Int
  snames : List Name
  smapNames : List Name
  smapIds : List Int
  pids : List Int
  pnames : List Name
deriving Repr

def Screen.save (s : Screen) : File :=
  { ctrl := s.ctrl, arity := s.arity, tnames := s.tnames, tdoses := s.tdoses, tids := s.tids,
    tmapNames := s.tmap.map (·.1), tmapDoses := s.tmap.map (·.2.1), tmapIds := s.tmap.map (·.2.2),
    obs := s.obs, mask := s.mask, sids := s.sids, snames := s.snames,
    smapNames := s.smap.map (·.1), smapIds := s.smap.map (·.2), pids := s.pids, pnames := s.pnames }

/-- `Screen.load_h5`: exactly the fields `load_h5` passes (the stored ids are *not* read).
    `np.char.decode` raises `TypeError` on an empty dataset (h5py hands back float64 for it). -/
def load (f : File) : Except Err Screen :=
  if f.snames.isEmpty || f.tmapNames.isEmpty || f.smapNames.isEmpty || f.arity == 0 then .error .typeError
  else
    mk? { ctrl := f.ctrl, arity := f.arity, tnames := f.tnames, tdoses := f.tdoses, snames := f.snames,
          pnames := f.pnames, obs := some f.obs, mask := some f.mask,
          tmap := some ((f.tmapNames.zip f.tmapDoses).zip f.tmapIds |>.map (fun p => (p.1.1, p.1.2, p.2))),
          smap := some (f.smapNames.zip f.smapIds) }

/-! ### experiment-space sizes -/

def Screen.treatmentSpaceSize (s : Screen) : Nat := s.tmap.length
def Screen.sampleSpaceSize (s : Screen) : Nat := s.smap.length
/-- `ExperimentSpace.n_unique_treatments` -/
def nUniqueTreatments (tm : TMap) : Nat := ((tm.map (·.2.2)).eraseDups.filter (· != -1)).length
/-- `ExperimentSpace.n_unique_samples` (unique *names*) -/
def nUniqueSamples (sm : SMap) : Nat := ((sm.map (·.1)).eraseDups).length

end Batchie.Screen
