/-
  Shared driver loop: one operation per input line, one canonical line out; unknown or
  ill-formed lines answer `bad-op` (the driver never defaults).
-/
namespace Batchie.DriverLoop

def step (handlers : List (List String → Option String)) (line : String) : String :=
  let toks := (line.trimAscii.toString.splitOn " ").filter (· ≠ "")
  match handlers.findSome? (fun h => h toks) with
  | some out => out
  | none => "bad-op"

partial def loop (handlers : List (List String → Option String)) (h out : IO.FS.Stream) : IO Unit := do
  let line ← h.getLine
  if line.isEmpty then return ()
  out.putStrLn (step handlers line)
  loop handlers h out

def run (handlers : List (List String → Option String)) : IO Unit := do
  let out ← IO.getStdout
  loop handlers (← IO.getStdin) out
  out.flush

end Batchie.DriverLoop
