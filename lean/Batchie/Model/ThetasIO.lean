/-
  Driver handlers for C10 (import-free): `ThetaHolder` save / load / concat / evaluate on one
  protocol line each.

  Encodings (no spaces inside a token):
    val     <dtype>:<shape>:<bits>      shape: `s` scalar, `a` 0-d array, `a2x3` array dims;
                                        bits: comma separated integers, `-` when empty
    dict    name=val/name=val/...       `-` when empty
    group   <attrs dict>~<dsets dict>
    sample  C|W|W0|V2|V1|V0|alpha|precision        (vals)
            I|W|V2|precision|<table>               table: k1,k2,v;k1,k2,v;...  (`-` when empty)
    light holder (concat / evaluate / refusals; a sample is identified by an integer tag)
            <size>:<tags>                          tags comma separated, `-` when empty

    c10.save <size> <sample>*                       -> ok <nThetas> <C|I> <shared group> <key>@<group>* | err:<Class>
    c10.load <nThetas> <C|I> <shared group> <key>@<group>*   -> ok <size> <sample>* | err:<Class>
    c10.concat <holder>*                            -> ok <holder> | err:<Class>
    c10.eval <holder>*                              -> ok <id>:<tag>,... | err:<Class>
    c10.add <holder> <tag>                          -> ok <holder> | err:<Class>
    c10.get <holder> <index>                        -> ok <tag> | err:<Class>
    c10.sortkeys <key>,<key>,...                    -> ok <key>,... | err:<Class>
-/
import Batchie.Model.Proto
import Batchie.Model.Thetas

namespace Batchie.ThetasIO
open Batchie.Proto
open Batchie.Thetas

def parseShape? (s : String) : Option (Option (List Nat)) :=
  if s == "s" then some none
  else if s == "a" then some (some [])
  else if s.startsWith "a" then ((s.drop 1).toString.splitOn "x").mapM parseNat? |>.map some
  else none

def showShape : Option (List Nat) → String
  | none => "s"
  | some [] => "a"
  | some ds => "a" ++ "x".intercalate (ds.map toString)

def parseVal? (s : String) : Option Val :=
  match s.splitOn ":" with
  | [d, sh, b] => do
    let d ← parseNat? d
    let sh ← parseShape? sh
    let b ← parseIntList? b
    some ⟨d, sh, b⟩
  | _ => none

def showVal (v : Val) : String := s!"{v.dtype}:{showShape v.shape}:{showIntList v.bits}"

def parseDict? (s : String) : Option Dict :=
  if s == "-" then some []
  else (s.splitOn "/").mapM (fun e => match e.splitOn "=" with
    | [k, v] => (parseVal? v).map (fun v => (k, v))
    | _ => none)

def showDict (d : Dict) : String :=
  if d.isEmpty then "-" else "/".intercalate (d.map (fun e => s!"{e.1}={showVal e.2}"))

def parseGroup? (s : String) : Option Group :=
  match s.splitOn "~" with
  | [a, d] => do
    let a ← parseDict? a
    let d ← parseDict? d
    some ⟨a, d⟩
  | _ => none

def showGroup (g : Group) : String := s!"{showDict g.attrs}~{showDict g.dsets}"

def parseTable? (s : String) : Option Table :=
  if s == "-" then some []
  else (s.splitOn ";").mapM (fun e => match parseIntList? e with
    | some [a, b, c] => some ((a, b), c)
    | _ => none)

def showTable (t : Table) : String :=
  if t.isEmpty then "-" else ";".intercalate (t.map (fun e => s!"{e.1.1},{e.1.2},{e.2}"))

def parseSample? (s : String) : Option Sample :=
  match s.splitOn "|" with
  | ["C", w, w0, v2, v1, v0, a, p] => do
    some (.combo (← parseVal? w) (← parseVal? w0) (← parseVal? v2) (← parseVal? v1) (← parseVal? v0)
      (← parseVal? a) (← parseVal? p))
  | ["I", w, v2, p, t] => do
    some (.inter (← parseVal? w) (← parseVal? v2) (← parseVal? p) (← parseTable? t))
  | _ => none

def showSample : Sample → String
  | .combo w w0 v2 v1 v0 a p =>
    "|".intercalate ("C" :: [w, w0, v2, v1, v0, a, p].map showVal)
  | .inter w v2 p t => "|".intercalate (["I", showVal w, showVal v2, showVal p, showTable t])

def parseCls? (s : String) : Option Cls :=
  if s == "C" then some .combo else if s == "I" then some .inter else none

def showCls : Cls → String
  | .combo => "C"
  | .inter => "I"

def showResult {α : Type} (f : α → String) : Except Err α → String
  | .ok a => "ok " ++ f a
  | .error e => showErr e

/-! light holders: a sample is a tag -/

def tagSample (x : Int) : Sample :=
  let v : Val := ⟨0, some [1], [x]⟩
  .combo v v v v v ⟨0, none, [x]⟩ ⟨0, none, [x]⟩

def sampleTag : Sample → Int
  | .combo w .. => w.bits.headD 0
  | .inter w .. => w.bits.headD 0

def parseLight? (s : String) : Option Holder :=
  match s.splitOn ":" with
  | [n, tags] => do
    let n ← parseNat? n
    let tags ← parseIntList? tags
    some ⟨n, tags.map tagSample⟩
  | _ => none

def showLight (h : Holder) : String := s!"{h.size}:{showIntList (h.thetas.map sampleTag)}"

def handle : List String → Option String
  | "c10.save" :: n :: samples => do
    let n ← parseNat? n
    let ts ← samples.mapM parseSample?
    some (showResult (fun f =>
      " ".intercalate ([toString f.nThetas, showCls f.cls, showGroup f.shared] ++
        f.priv.map (fun e => s!"{e.1}@{showGroup e.2}"))) (save ⟨n, ts⟩))
  | "c10.load" :: n :: c :: sh :: groups => do
    let n ← parseNat? n
    let c ← parseCls? c
    let sh ← parseGroup? sh
    let gs ← groups.mapM (fun g => match g.splitOn "@" with
      | [k, g] => (parseGroup? g).map (fun g => (k, g))
      | _ => none)
    some (showResult (fun h => " ".intercalate (toString h.size :: h.thetas.map showSample))
      (load ⟨n, c, sh, gs⟩))
  | "c10.concat" :: hs => do
    let hs ← hs.mapM parseLight?
    some (showResult showLight (concat hs))
  | "c10.eval" :: hs => do
    let hs ← hs.mapM parseLight?
    some (showResult (fun cols =>
      if cols.isEmpty then "-" else ",".intercalate (cols.map (fun c => s!"{c.1}:{sampleTag c.2}")))
      (evaluate hs))
  | ["c10.add", h, t] => do
    let h ← parseLight? h
    let t ← parseInt? t
    some (showResult showLight (addTheta h (tagSample t)))
  | ["c10.get", h, i] => do
    let h ← parseLight? h
    let i ← parseInt? i
    some (showResult (fun t => toString (sampleTag t)) (getTheta h i))
  | ["c10.sortkeys", ks] => do
    let ks := if ks == "-" then [] else ks.splitOn ","
    some (showResult (fun (l : List String) => if l.isEmpty then "-" else ",".intercalate l)
      (sortByInt (ks.map (fun k => (k, k)))))
  | _ => none

end Batchie.ThetasIO
