/-
  Hand model of the second shipped Gibbs sampler, `LegacySparseDrugComboInteractionImpl`
  (`/repo/src/batchie/models/sparse_combo_interaction.py`, default options `mult_gamma_proc`,
  `local_shrinkage` true), built from the generic pieces of `Model/Gibbs.lean` (`Blk`, the argument
  functions of the gamma blocks, `Data`, `Rec`, `Site`).  Import-free apart from that file, executable,
  generic over the numeric type.

  What differs from the sparse combination sampler
  * fitted value `mu_n = ⟨W[c], V2[d1] ∘ V2[d2]⟩` only: no intercepts, no first-order embedding;
  * the training rows are combination rows (both ids ≥ 0: `_add_observations` keeps `combo_mask` rows), and the
    code gathers `V2[dd]` WITHOUT masking `-1` (`gat`, valid for ids ≥ 0; a negative id would address the last
    row in numpy — never produced by the public API);
  * the sweep is `_reconstruct_Mu(clip=False); _W_step; _V2_step; _prec_obs_step; _prec_V2_step; _prec_W_step`
    (`tau0` exists as a field and is never resampled: `_prec_W0_step` is dead code referring to a missing `W0`);
  * `_reconstruct_Mu(clip)` clips `Mu` into `[min_Mu, max_Mu]` when `clip` is true (its default); the sweep passes
    `clip=False` and nothing else calls it, so the clip is modelled (`reconstructMu true`) but not part of `mcmcStep`.
-/
import Batchie.Model.Gibbs

namespace Batchie.GibbsInter
open Batchie.Gibbs

structure IState (α : Type) where
  W : Nat → Nat → α
  V2 : Nat → Nat → α
  prec : α
  tau : Nat → α
  tau0 : α
  gam : Nat → α
  phi2 : Nat → Nat → α
  eta2 : Nat → α
  Mu : Nat → α
  log : List (Rec α)

/-- choice log of one sweep -/
structure IDraws (α : Type) where
  w : Nat → Option (Nat → α)
  v2 : Nat → Option (Nat → α)
  prec : α
  phi2aux : Nat → Nat → α
  phi2 : Nat → Nat → α
  eta2aux : Nat → α
  eta2 : Nat → α
  gam : Nat → α

/-- the exported sample (`SparseDrugComboInteractionMCMCSample`, numeric part) -/
structure ITheta (α : Type) where
  W : Nat → Nat → α
  V2 : Nat → Nat → α
  precision : α

section
variable {α : Type} [Add α] [Mul α] [Sub α] [Neg α] [Div α] [Max α] [Min α] [HasSqrt α]
  [OfNat α 0] [OfNat α 1] [OfNat α 2] [OfNat α 3] [OfNat α 1000] [OfNat α 1000000]

def IState.push (st : IState α) (r : Rec α) : IState α := { st with log := st.log ++ [r] }

/-- `V2[ix]` (plain gather, ids ≥ 0) -/
def gat (V : Nat → Nat → α) (ix : Int) (d : Nat) : α := V ix.toNat d

/-- one fitted value: `np.sum(W[c] * V2[d1] * V2[d2], -1)` -/
def muOfI (D : Nat) (W V2 : Nat → Nat → α) (c : Nat) (t1 t2 : Int) : α :=
  sumN D (fun d => W c d * gat V2 t1 d * gat V2 t2 d)

def muI (dt : Data α) (st : IState α) (n : Nat) : α := muOfI dt.D st.W st.V2 (dt.cline n) (dt.dd1 n) (dt.dd2 n)

/-- `_reconstruct_Mu(clip)` with the bounds `min_Mu`, `max_Mu` -/
def reconstructMu (clipIt : Bool) (lo hi : α) (dt : Data α) (st : IState α) : IState α :=
  if dt.N = 0 then st
  else { st with Mu := fun n => if clipIt then clip (muI dt st n) lo hi else muI dt st n }

/-! ### `_W_step` -/

def wXI (dt : Data α) (st : IState α) (n d : Nat) : α := gat st.V2 (dt.dd1 n) d * gat st.V2 (dt.dd2 n) d

def wBlkI (dt : Data α) (st : IState α) (c : Nat) : Blk α :=
  { N := dt.N, D := dt.D, s1 := selC dt c, s2 := selNone, x1 := wXI dt st, x2 := wXI dt st,
    cur := st.W c, lam := st.tau }

def wNextI (dt : Data α) (st : IState α) (c : Nat) (v : Option (Nat → α)) : IState α :=
  match v with
  | none => st
  | some w =>
    if (wBlkI dt st c).has then { st with W := upd st.W c w, Mu := (wBlkI dt st c).muNext st.Mu w }
    else { st with W := upd st.W c w }

def wBlockI (dt : Data α) (ω : IDraws α) (c : Nat) (st : IState α) : IState α :=
  (wNextI dt st c (ω.w c)).push ((wBlkI dt st c).record (.W c) dt.y st.Mu st.prec)

def wStepI (dt : Data α) (ω : IDraws α) (st : IState α) : IState α := iter dt.nC (wBlockI dt ω) st

/-! ### `_V2_step` -/

def v2BlkI (dt : Data α) (st : IState α) (m : Nat) : Blk α :=
  { N := dt.N, D := dt.D, s1 := sel1 dt m, s2 := sel2 dt m,
    x1 := fun n d => st.W (dt.cline n) d * gat st.V2 (dt.dd2 n) d,
    x2 := fun n d => st.W (dt.cline n) d * gat st.V2 (dt.dd1 n) d,
    cur := st.V2 m, lam := fun d => st.phi2 m d * st.eta2 d }

def v2NextI (dt : Data α) (st : IState α) (m : Nat) (v : Option (Nat → α)) : IState α :=
  match v with
  | none => st
  | some w =>
    if (v2BlkI dt st m).has then { st with V2 := upd st.V2 m w, Mu := (v2BlkI dt st m).muNext st.Mu w }
    else { st with V2 := upd st.V2 m w }

def v2BlockI (dt : Data α) (ω : IDraws α) (m : Nat) (st : IState α) : IState α :=
  (v2NextI dt st m (ω.v2 m)).push ((v2BlkI dt st m).record (.V2 m) dt.y st.Mu st.prec)

def v2StepI (dt : Data α) (ω : IDraws α) (st : IState α) : IState α := iter dt.nT (v2BlockI dt ω) st

/-! ### precision blocks (the argument functions are those of `Model/Gibbs.lean`) -/

def precArgsI (dt : Data α) (st : IState α) : GammaArgs α :=
  if dt.N = 0 then ⟨dt.a0, 1 / dt.b0⟩
  else ⟨dt.a0 + half * natTo dt.N,
        1 / (dt.b0 + half * sumN dt.N (fun n => sqr (dt.y n - st.Mu n)) + eps)⟩

def precObsStepI (dt : Data α) (ω : IDraws α) (st : IState α) : IState α :=
  let a := precArgsI dt st
  let p := if dt.N = 0 then ω.prec else clip ω.prec (lowOf (natTo dt.N)) big
  ({ st with prec := p }).push ⟨.prec, .gamma, [a.shape, a.scale]⟩

def precV2StepI (dt : Data α) (ω : IDraws α) (st : IState α) : IState α :=
  let s1 := st.push ⟨.phi2aux, .gamma, (1 : α) :: flatMat dt.nT dt.D (phiAuxScale st.phi2)⟩
  let phi' : Nat → Nat → α := fun m d => clip (ω.phi2 m d) (lowOf (occ dt m)) big
  let s2 := ({ s1 with phi2 := phi' }).push
    ⟨.phi2, .gamma, (1 : α) :: flatMat dt.nT dt.D (phiScale st.V2 st.eta2 ω.phi2aux)⟩
  let s3 := s2.push ⟨.eta2aux, .gamma, (1 : α) :: flatVec dt.D (etaAuxScale st.eta2)⟩
  ({ s3 with eta2 := fun d => clip (ω.eta2 d) (lowOf (natTo dt.N)) big }).push
    ⟨.eta2, .gamma, etaShape dt :: flatVec dt.D (etaScale dt st.V2 phi' ω.eta2aux)⟩

def gamBlockI (dt : Data α) (ω : IDraws α) (d : Nat) (st : IState α) : IState α :=
  let a := gamArgs dt st.W st.gam d
  ({ st with gam := upd st.gam d (ω.gam d) }).push ⟨.gam d, .gamma, [a.shape, a.scale]⟩

def precWStepI (dt : Data α) (ω : IDraws α) (st : IState α) : IState α :=
  let s := iter dt.D (gamBlockI dt ω) st
  { s with tau := fun d => clip (cumprod s.gam d) (lowOf (natTo dt.N)) big }

/-! ### the sweep -/

def stepsTailI (dt : Data α) (ω : IDraws α) : List (IState α → IState α) :=
  [wStepI dt ω, v2StepI dt ω, precObsStepI dt ω, precV2StepI dt ω, precWStepI dt ω]

/-- `mcmc_step`: `_reconstruct_Mu(clip=False)` then the five blocks (the clip bounds are irrelevant with `clip=False`) -/
def stepsI (dt : Data α) (ω : IDraws α) : List (IState α → IState α) :=
  reconstructMu false 0 0 dt :: stepsTailI dt ω

def mcmcStepI (dt : Data α) (ω : IDraws α) (st : IState α) : IState α := (runTrace (stepsI dt ω) st []).1
def mcmcTraceI (dt : Data α) (ω : IDraws α) (st : IState α) : List (IState α) := (runTrace (stepsI dt ω) st []).2

def runSweepsI (dt : Data α) (ωs : List (IDraws α)) (st : IState α) : IState α :=
  ωs.foldl (fun s ω => mcmcStepI dt ω s) st

def scheduleI (nC nT D : Nat) : List Site :=
  (List.range nC).map Site.W ++ (List.range nT).map Site.V2
    ++ [Site.prec, Site.phi2aux, Site.phi2, Site.eta2aux, Site.eta2] ++ (List.range D).map Site.gam

/-! ### export (`get_model_state`, `predict_conditional_mean`, `predict_conditional_variance`) -/

def exportStateI (st : IState α) : ITheta α := { W := st.W, V2 := st.V2, precision := st.prec }

/-- `predict_conditional_mean` masks control ids (`copy_array_with_control_treatments_set_to_zero`) -/
def predictI (D : Nat) (th : ITheta α) (c : Nat) (t1 t2 : Int) : α :=
  sumN D (fun d => th.W c d * getV th.V2 t1 d * getV th.V2 t2 d)

def predictVarianceI (th : ITheta α) : α := 1 / th.precision

end

end Batchie.GibbsInter
