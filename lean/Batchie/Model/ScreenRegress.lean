/-
  Regression definitions for C01 / C14: variants of the modelled code as seeded changes of later rounds wrote it (code that is
  NOT in /repo), kept next to the faithful definitions of `Model/Screen.lean` so that the lemmas of `Props/C01Regress.lean` and
  `Props/C14Regress.lean` can refute the property on them. Import-free apart from `Model/Screen.lean`, executable.
-/
import Batchie.Model.Screen

namespace Batchie.Regress
open Batchie.Proto Batchie.Screen

/-! ### C01 -/

/-- the table `encode_treatment_arrays_to_0_indexed_ids` builds from the sorted duplicate-free key list `u` under an ARBITRARY
    control test `isCtl` (with `isCtl = isControl ctrl` this is the faithful `freshTMap`, see `freshTableWith_isControl`) -/
def freshTableWith (isCtl : Name × Dose → Bool) (u : List (Name × Dose)) : TMap :=
  (u.zip (renumber (u.map isCtl))).map (fun p => (p.1.1, p.1.2, p.2))

/-- ASCII lower-casing of a name (code points `A`..`Z` → `a`..`z`): a non-injective normalisation, standing for `str.casefold` -/
def lowerAscii (n : Name) : Name := n.map (fun c => if 65 ≤ c ∧ c ≤ 90 then c + 32 else c)

/-- **S7-C01**: the control test with the names compared after a normalisation `norm` (the seeded change used `casefold`) -/
def isControlNorm (norm : Name → Name) (ctrl : Name) (k : Name × Dose) : Bool := decide (k.2 ≤ 0) || norm k.1 == norm ctrl

/-! ### C14 -/

/-- **S7-C14**: `combine` whose parent test fell back to comparing the row / plate layout of the two parents
    (`size` and `plate_ids` equal) when they are not the same object; `screens` resolves a parent identity to the screen -/
def combineLayout (screens : Nat → Screen) (a b : View) : Except Err View :=
  let pa := screens a.parent
  let pb := screens b.parent
  if a.parent == b.parent || (pa.size == pb.size && pa.pids == pb.pids) then
    .ok { a with sel := List.zipWith (· || ·) a.sel b.sel }
  else .error .valueError

/-- **S5-C14**: `np.putmask(out, outer, inner)` in `ScreenSubset.subset`: where `outer[n]` holds, `out[n] = inner[n % len(inner)]` —
    the inner mask is read at the PARENT position `n`, not at the rank of `n` within the outer view -/
def scatterPositional (outer inner : List Bool) : List Bool :=
  (List.range outer.length).map (fun n =>
    if outer[n]! then (if inner.isEmpty then true else inner[n % inner.length]!) else false)

/-- **S6-C14**: the unique filter served from a per-screen cache: the first-occurrence mask of the WHOLE screen, restricted to the view -/
def uniqueFilterCached (s : Screen) (v : View) : Except Err View :=
  v.subset (maskFilter (uniqueMask (s.sids.zip s.tids)) v.sel)

/-- **S4-C14**: the plate names `to_screen` hands to `Screen(...)` when it rebuilds them from the view's accessors,
    `plate_mapping[0][plate_ids]` (positional indexing of the stored plate table by the plate ids) -/
def pnamesViaPmap (s : Screen) (sel : List Bool) : List Name :=
  (maskFilter s.pids sel).map (fun i => ((s.pmap.map (·.1))[i.toNat]?).getD [])

/-- **S8-C14**: `subset_unobserved` selecting whole PLATES — every row whose plate contains no observed row
    (`~np.isin(plate_ids, np.unique(plate_ids[observation_mask]))`) — instead of the rows where the mask is false -/
def unobservedByPlates (pids : List Int) (mask : List Bool) : List Bool :=
  pids.map (fun p => !(maskFilter pids mask).contains p)

def subsetUnobservedByPlates (s : Screen) (pid : Nat) : Option View :=
  let sel := unobservedByPlates s.pids s.mask
  if sel.any id then some { parent := pid, sel := sel } else none

end Batchie.Regress
