/-
  C03, clause 4's premise -- "the sample / treatment ids used when training a model's posterior samples are the ids under
  which those samples predict on later stages".

  Model: `TrainStage.trainRows` (Model/TrainStage.lean) = what `batchie.cli.train_model.main()` hands to
  `model.add_observations`: the observed rows of the loaded screen, as a view that carries the screen's own ids.
  `trainRowsMaterialised` is the stage with `subset_observed().to_screen()` (seeded change S7-C03), refuted on a witness.
  Tied to /repo by the train_model stream of harness/c03.py (driver op `trainrows`, compared with what a recording subclass
  of the real model receives from the real command line).
-/
import Batchie.Props.C03
import Batchie.Lemmas.TrainStage

namespace Batchie.Props.C03
open Batchie.Proto Batchie.Screen Batchie.Retro Batchie.Lifecycle Batchie.TrainStage

/-- Every row the model receives for a constructed screen `s` is an observed row of `s` (names, doses and stored value of
    that row), and the sample id / treatment ids it carries decode through `s.smap` / `s.tmap` to that row's sample name /
    (treatment name, dose): they are the unique hits of the names in the stage's own tables.  Conversely every observed
    row is handed over. -/
theorem C03_training_ids_are_stage_ids (s : Screen) (h : Valid s) :
    (∀ row ∈ trainRows s,
        (∃ i, i < s.size ∧ s.mask[i]! = true ∧ row.sname = s.snames[i]! ∧ row.tnames = s.tnames[i]!
            ∧ row.tdoses = s.tdoses[i]! ∧ row.obs = s.obs[i]! ∧ row.sid = s.sids[i]! ∧ row.tids = s.tids[i]!)
        ∧ sLookup s.smap row.sname = [row.sid]
        ∧ ∀ c, c < s.arity → tLookup s.tmap (row.tnames[c]!, row.tdoses[c]!) = [row.tids[c]!])
    ∧ (∀ i, i < s.size → s.mask[i]! = true → rowAt s i ∈ trainRows s) := by
  refine ⟨fun row hr => ?_, fun i hi hm => rowAt_mem_trainRows hi hm⟩
  obtain ⟨i, hi, hm, rfl⟩ := mem_trainRows hr
  exact ⟨⟨i, hi, hm, rfl, rfl, rfl, rfl, rfl, rfl⟩, trainRows_encoded h.wf hr⟩

/-- The ids used when training at ANY stage of ANY history from a prepared screen `p` (the prepared screen itself
    included) are `p`'s ids: what the model receives for a sample name / (treatment name, dose) is the unique hit of that
    name in `p`'s tables, hence equals the id every row of `p` with that name carries -- and therefore (C03_ids_agree_
    across_histories) the id under which the same name appears at every other stage, in particular on the screens the
    trained samples later predict on. -/
theorem C03_training_ids_agree_across_histories (p : Screen) (hp : Valid p) (ops : List Op) (tr : List Screen)
    (hrun : run step ops p = .ok tr) (t : Screen) (ht : t ∈ p :: tr) (row : TrainRow) (hr : row ∈ trainRows t) :
    sLookup p.smap row.sname = [row.sid]
    ∧ (∀ c, c < t.arity → tLookup p.tmap (row.tnames[c]!, row.tdoses[c]!) = [row.tids[c]!])
    ∧ (∀ j, j < p.size → p.snames[j]! = row.sname → p.sids[j]! = row.sid)
    ∧ (∀ j c c', j < p.size → c < p.arity → c' < t.arity → (p.tnames[j]!)[c]! = row.tnames[c']! →
        (p.tdoses[j]!)[c]! = row.tdoses[c']! → (p.tids[j]!)[c]! = row.tids[c']!) := by
  obtain ⟨hm1, hm2, _, _, _, hv⟩ := stage_facts p hp ops tr hrun t ht
  have e := trainRows_encoded hv.wf hr
  rw [hm2] at e
  have e2 : ∀ c, c < t.arity → tLookup p.tmap (row.tnames[c]!, row.tdoses[c]!) = [row.tids[c]!] := by
    intro c hc
    have := e.2 c hc
    rw [hm1] at this
    exact this
  have self := encodedBy_self p hp
  refine ⟨e.1, e2, ?_, ?_⟩
  · intro j hj hn
    have := self.sample j hj
    rw [hn, e.1] at this
    injection this with this
    exact this.symm
  · intro j c c' hj hc hc' hn hd
    have := self.treat j c hj hc
    rw [hn, hd, e2 c' hc'] at this
    injection this with this
    exact this.symm

/-- The materialised variant (`subset_observed().to_screen()`, seeded change S7-C03) is REFUTED in the model: on the witness
    -- samples `s1`, `s7`, only the plate of the last-sorting sample `s7` observed -- the model would receive sample id 0 and
    treatment ids 0, 1 for `s7`, `(t5, 1)`, `(t7, 1)`, while the stage (and every other stage) uses 1 and 2, 3.  So the
    statement of `C03_training_ids_are_stage_ids` is false for it. -/
theorem C03_training_materialised_counterexample :
    ∃ rows, trainRowsMaterialised trainWitness = .ok rows
      ∧ (rows.map (fun r => (r.sname, r.tnames, r.tdoses, r.obs))
          = (trainRows trainWitness).map (fun r => (r.sname, r.tnames, r.tdoses, r.obs)))
      ∧ rows.map (·.sid) = [0, 0] ∧ (trainRows trainWitness).map (·.sid) = [1, 1]
      ∧ rows.map (·.tids) = [[0, 1], [1, 0]] ∧ (trainRows trainWitness).map (·.tids) = [[2, 3], [3, 2]]
      ∧ ¬ (∀ row ∈ rows, sLookup trainWitness.smap row.sname = [row.sid]) := by
  refine ⟨_, trainWitness_rows_materialised, ?_⟩
  rw [trainWitness_rows]
  decide

/-- Regression for seeded change S8-C03 (the hold-out drawn BEFORE smoothing, the smoother applied to the training half only): on the
    witness, holding out row 2 and then dropping the one-plate sample `s1` from the training half through `subset(...).to_screen()`
    gives a training screen in which sample `s7` has id 0 and `(t5, 1)`, `(t7, 1)` have ids 0, 1, while the test screen of the same split
    carries `s7` as 1 and `(t7, 1)`, `(t5, 1)` as 3, 2: clause 1 fails for the two screens of that "prepared simulation".  (With the
    smoother applied BEFORE the split both halves carry the smoothed screen's mappings: C03_holdout_preserves_mappings.) -/
theorem C03_smoothing_after_split_counterexample :
    holdout trainWitness [false, false, true] = .ok (splitWitnessKeep, splitWitnessTest)
    ∧ splitWitnessKeep.viewToScreen { parent := 0, sel := [false, true] } = .ok splitWitnessKeepSmoothed
    ∧ splitWitnessKeepSmoothed.snames = splitWitnessTest.snames
    ∧ splitWitnessKeepSmoothed.sids = [0] ∧ splitWitnessTest.sids = [1]
    ∧ splitWitnessKeepSmoothed.tnames = [[[116, 53], [116, 55]]] ∧ splitWitnessKeepSmoothed.tids = [[0, 1]]
    ∧ splitWitnessTest.tnames = [[[116, 55], [116, 53]]] ∧ splitWitnessTest.tids = [[3, 2]] :=
  ⟨splitWitness_holdout, splitWitness_smooth_training_only, rfl, rfl, rfl, rfl, rfl, rfl, rfl⟩

/-! ### non-vacuity -/

/-- the witness is a constructed screen that hands two rows to the model, and the first theorem applies to them -/
example : Valid trainWitness ∧ (trainRows trainWitness).length = 2
    ∧ ∀ row ∈ trainRows trainWitness, sLookup trainWitness.smap row.sname = [row.sid] :=
  ⟨trainWitness_valid, by rw [trainWitness_rows]; rfl,
   fun row hr => ((C03_training_ids_are_stage_ids trainWitness trainWitness_valid).1 row hr).2.1⟩

/-- ... and the history theorem on the C03 witness: the training half after `mask, reveal [0]` trains with the prepared ids -/
example : ∀ row ∈ trainRows { witnessTrain with mask := [true, true, false, false, false] },
    sLookup witnessPrepared.smap row.sname = [row.sid] := by
  intro row hr
  have hp : Valid witnessPrepared := ⟨witnessRaw, witnessPrepared_mk⟩
  have hrun : run step [.holdKeep witnessSel, .mask, .reveal [0]] witnessPrepared
      = .ok [witnessTrain, { witnessTrain with mask := [false, false, false, false, false] },
             { witnessTrain with mask := [true, true, false, false, false] }] := by
    have h2 := witnessNew_run
    simp only [run, witnessTrain_step, bind, Except.bind, pure, Except.pure] at h2 ⊢
    rw [h2]
  exact (C03_training_ids_agree_across_histories witnessPrepared hp _ _ hrun _ (by simp) row hr).1

end Batchie.Props.C03
