/-
  C18 (extension outside the property's text; mismatches are ADVISORY): the parameter dictionary a randomised
  command receives from the KEY=VALUE options (model-param, scorer-param, ...) is a function of the command line.
  Theorems about Batchie.Model.ArgParse (model of src/batchie/cli/argument_parsing.py KVAppendAction /
  str_to_bool), tied by harness/c18.py stream `kvargs` (driver ops args.kv / args.bool).
  NOT yet proved: "the last occurrence of a key wins" (`lastValue`), only executed by the tie.
-/
import Batchie.Model.ArgParse

namespace Batchie.Props.C18Args
open Batchie.ArgParse

theorem cut_none (sep : Char) (cs : List Char) : cut sep cs = none ↔ sep ∉ cs := by
  induction cs with
  | nil => simp [cut]
  | cons c cs ih =>
    unfold cut
    by_cases hc : c = sep
    · simp [hc]
    · simp only [hc, if_false]
      cases h : cut sep cs with
      | none => simp [ih.mp h, Ne.symm hc]
      | some p => 
        have : ¬ sep ∉ cs := fun hn => by rw [ih.mpr hn] at h; cases h
        simp [Ne.symm hc] ; simpa using this

theorem cut_some (sep : Char) (cs a r : List Char) :
    cut sep cs = some (a, r) ↔ (cs = a ++ sep :: r ∧ sep ∉ a) := by
  induction cs generalizing a r with
  | nil => simp [cut]
  | cons c cs ih =>
    unfold cut
    by_cases hc : c = sep
    · subst hc
      simp only [if_true, Option.some.injEq, Prod.mk.injEq]
      constructor
      · rintro ⟨rfl, rfl⟩; simp
      · rintro ⟨h, hn⟩
        cases a with
        | nil => simp at h; exact ⟨rfl, h⟩
        | cons x a => simp at h hn; exact absurd h.1 hn.1
    · simp only [hc, if_false]
      cases h : cut sep cs with
      | none =>
        simp only [reduceCtorEq, false_iff, not_and]
        intro hs
        have hn := (cut_none sep cs).mp h
        cases a with
        | nil => simp at hs; exact absurd hs.1 hc
        | cons x a => simp at hs; rw [hs.2] at hn; simp at hn
      | some p =>
        obtain ⟨a', r'⟩ := p
        have hcs := (ih a' r').mp h
        simp only [Option.some.injEq, Prod.mk.injEq]
        constructor
        · rintro ⟨rfl, rfl⟩
          refine ⟨by rw [hcs.1]; rfl, ?_⟩
          simp [hcs.2, Ne.symm hc]
        · rintro ⟨hs, hn⟩
          cases a with
          | nil => simp at hs; exact absurd hs.1 hc
          | cons x a2 =>
            simp at hs hn
            have h2 := (ih a2 r).mpr ⟨hs.2, hn.2⟩
            rw [h] at h2
            simp only [Option.some.injEq, Prod.mk.injEq] at h2
            exact ⟨by rw [hs.1, h2.1], h2.2⟩

/-- an occurrence is accepted exactly when it is `k=v` with no further `=`; then it is read as `(k, v)`.
In particular `a=b=c` is refused (`split("=", 2)` gives three parts). -/
theorem C18Args_kvParse_ok_iff (s k v : List Char) :
    kvParse s = some (k, v) ↔ (s = k ++ '=' :: v ∧ '=' ∉ k ∧ '=' ∉ v) := by
  unfold kvParse splitMax
  cases h1 : cut '=' s with
  | none =>
    simp only [reduceCtorEq, false_iff, not_and]
    intro hs; have := (cut_none '=' s).mp h1; rw [hs] at this; simp at this
  | some p =>
    obtain ⟨a, rest⟩ := p
    have ha := (cut_some '=' s a rest).mp h1
    simp only
    unfold splitMax
    cases h2 : cut '=' rest with
    | none =>
      have hr := (cut_none '=' rest).mp h2
      simp only [Option.some.injEq, Prod.mk.injEq]
      constructor
      · rintro ⟨rfl, rfl⟩; exact ⟨ha.1, ha.2, hr⟩
      · rintro ⟨hs, hk, _⟩
        have := (cut_some '=' s k v).mpr ⟨hs, hk⟩
        rw [h1] at this; simpa using this
    | some q =>
      obtain ⟨b, r2⟩ := q
      have hb := (cut_some '=' rest b r2).mp h2
      simp only [splitMax, reduceCtorEq, false_iff, not_and]
      intro hs hk hv
      have := (cut_some '=' s k v).mpr ⟨hs, hk⟩
      rw [h1] at this
      simp only [Option.some.injEq, Prod.mk.injEq] at this
      rw [← this.2, hb.1] at hv; simp at hv

/-- two accepted occurrences that are read alike are the same string -/
theorem C18Args_kvParse_inj (s t : List Char) (p : List Char × List Char)
    (hs : kvParse s = some p) (ht : kvParse t = some p) : s = t := by
  obtain ⟨k, v⟩ := p
  rw [((C18Args_kvParse_ok_iff s k v).mp hs).1, ((C18Args_kvParse_ok_iff t k v).mp ht).1]

/-- the example of the docstring's reading that the code does NOT implement -/
example : kvParse "a=b=c".toList = none := by decide
example : kvParse "lr=0.5".toList = some ("lr".toList, "0.5".toList) := by decide
example : kvParse "=".toList = some ([], []) := by decide

/-- a command line is refused exactly when one of its occurrences is ill-formed -/
theorem C18Args_refusal (args : List (List Char)) :
    kvAppendAll args = none ↔ ∃ a ∈ args, kvParse a = none := by
  unfold kvAppendAll
  generalize ([] : List (List Char × List Char)) = d
  induction args generalizing d with
  | nil => simp [List.foldlM, pure]
  | cons a as ih =>
    simp only [List.foldlM_cons, List.mem_cons, exists_eq_or_imp]
    have hstep : kvStep d a = (kvParse a).map (fun p => dictSet d p.1 p.2) := by
      unfold kvStep; cases kvParse a <;> rfl
    rw [hstep]
    cases h : kvParse a with
    | none => simp [bind, Option.bind]
    | some p => simpa [bind, Option.bind] using ih _

end Batchie.Props.C18Args
