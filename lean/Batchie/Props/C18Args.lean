/-
  C18 (extension outside the property's text; mismatches are ADVISORY): the parameter dictionary a randomised
  command receives from the KEY=VALUE options (model-param, scorer-param, ...) is a function of the command line.
  Theorems about Batchie.Model.ArgParse (model of src/batchie/cli/argument_parsing.py KVAppendAction /
  str_to_bool), tied by harness/c18.py stream `kvargs` (driver ops args.kv / args.bool).
  `C18Args_accept_iff_one_eq`: an occurrence is accepted exactly when it contains exactly one `=`.
  `C18Args_last_wins`: for every accepted command line the value of a key is the value of its LAST occurrence.
-/
import Batchie.Model.ArgParse

namespace Batchie.Props.C18Args
open Batchie.ArgParse

theorem cut_none (sep : Char) (cs : List Char) : cut sep cs = none ↔ sep ∉ cs := by
  induction cs with
  | nil => simp [cut]
  | cons c cs ih =>
    unfold cut
    by_cases hc : c = sep
    · simp [hc]
    · simp only [hc, if_false]
      cases h : cut sep cs with
      | none => simp [ih.mp h, Ne.symm hc]
      | some p => 
        have : ¬ sep ∉ cs := fun hn => by rw [ih.mpr hn] at h; cases h
        simp [Ne.symm hc] ; simpa using this

theorem cut_some (sep : Char) (cs a r : List Char) :
    cut sep cs = some (a, r) ↔ (cs = a ++ sep :: r ∧ sep ∉ a) := by
  induction cs generalizing a r with
  | nil => simp [cut]
  | cons c cs ih =>
    unfold cut
    by_cases hc : c = sep
    · subst hc
      simp only [if_true, Option.some.injEq, Prod.mk.injEq]
      constructor
      · rintro ⟨rfl, rfl⟩; simp
      · rintro ⟨h, hn⟩
        cases a with
        | nil => simp at h; exact ⟨rfl, h⟩
        | cons x a => simp at h hn; exact absurd h.1 hn.1
    · simp only [hc, if_false]
      cases h : cut sep cs with
      | none =>
        simp only [reduceCtorEq, false_iff, not_and]
        intro hs
        have hn := (cut_none sep cs).mp h
        cases a with
        | nil => simp at hs; exact absurd hs.1 hc
        | cons x a => simp at hs; rw [hs.2] at hn; simp at hn
      | some p =>
        obtain ⟨a', r'⟩ := p
        have hcs := (ih a' r').mp h
        simp only [Option.some.injEq, Prod.mk.injEq]
        constructor
        · rintro ⟨rfl, rfl⟩
          refine ⟨by rw [hcs.1]; rfl, ?_⟩
          simp [hcs.2, Ne.symm hc]
        · rintro ⟨hs, hn⟩
          cases a with
          | nil => simp at hs; exact absurd hs.1 hc
          | cons x a2 =>
            simp at hs hn
            have h2 := (ih a2 r).mpr ⟨hs.2, hn.2⟩
            rw [h] at h2
            simp only [Option.some.injEq, Prod.mk.injEq] at h2
            exact ⟨by rw [hs.1, h2.1], h2.2⟩

/-- an occurrence is accepted exactly when it is `k=v` with no further `=`; then it is read as `(k, v)`.
In particular `a=b=c` is refused (`split("=", 2)` gives three parts). -/
theorem C18Args_kvParse_ok_iff (s k v : List Char) :
    kvParse s = some (k, v) ↔ (s = k ++ '=' :: v ∧ '=' ∉ k ∧ '=' ∉ v) := by
  unfold kvParse splitMax
  cases h1 : cut '=' s with
  | none =>
    simp only [reduceCtorEq, false_iff, not_and]
    intro hs; have := (cut_none '=' s).mp h1; rw [hs] at this; simp at this
  | some p =>
    obtain ⟨a, rest⟩ := p
    have ha := (cut_some '=' s a rest).mp h1
    simp only
    unfold splitMax
    cases h2 : cut '=' rest with
    | none =>
      have hr := (cut_none '=' rest).mp h2
      simp only [Option.some.injEq, Prod.mk.injEq]
      constructor
      · rintro ⟨rfl, rfl⟩; exact ⟨ha.1, ha.2, hr⟩
      · rintro ⟨hs, hk, _⟩
        have := (cut_some '=' s k v).mpr ⟨hs, hk⟩
        rw [h1] at this; simpa using this
    | some q =>
      obtain ⟨b, r2⟩ := q
      have hb := (cut_some '=' rest b r2).mp h2
      simp only [splitMax, reduceCtorEq, false_iff, not_and]
      intro hs hk hv
      have := (cut_some '=' s k v).mpr ⟨hs, hk⟩
      rw [h1] at this
      simp only [Option.some.injEq, Prod.mk.injEq] at this
      rw [← this.2, hb.1] at hv; simp at hv

/-- two accepted occurrences that are read alike are the same string -/
theorem C18Args_kvParse_inj (s t : List Char) (p : List Char × List Char)
    (hs : kvParse s = some p) (ht : kvParse t = some p) : s = t := by
  obtain ⟨k, v⟩ := p
  rw [((C18Args_kvParse_ok_iff s k v).mp hs).1, ((C18Args_kvParse_ok_iff t k v).mp ht).1]

/-- the example of the docstring's reading that the code does NOT implement -/
example : kvParse "a=b=c".toList = none := by decide
example : kvParse "lr=0.5".toList = some ("lr".toList, "0.5".toList) := by decide
example : kvParse "=".toList = some ([], []) := by decide

/-- a command line is refused exactly when one of its occurrences is ill-formed -/
theorem C18Args_refusal (args : List (List Char)) :
    kvAppendAll args = none ↔ ∃ a ∈ args, kvParse a = none := by
  unfold kvAppendAll
  generalize ([] : List (List Char × List Char)) = d
  induction args generalizing d with
  | nil => simp [List.foldlM, pure]
  | cons a as ih =>
    simp only [List.foldlM_cons, List.mem_cons, exists_eq_or_imp]
    have hstep : kvStep d a = (kvParse a).map (fun p => dictSet d p.1 p.2) := by
      unfold kvStep; cases kvParse a <;> rfl
    rw [hstep]
    cases h : kvParse a with
    | none => simp [bind, Option.bind]
    | some p => simpa [bind, Option.bind] using ih _


theorem lookup_map_set (d : List (List Char × List Char)) (k v k' : List Char) :
    (d.map (fun p => if p.1 == k then (k, v) else p)).lookup k' =
      if k' == k then (if d.any (fun p => p.1 == k) then some v else none) else d.lookup k' := by
  induction d with
  | nil => simp
  | cons p d ih =>
    obtain ⟨a, b⟩ := p
    simp only [List.map_cons, List.any_cons]
    simp only [beq_iff_eq] at ih
    by_cases h : a = k
    · subst h
      by_cases h' : k' = a
      · subst h'; simp [List.lookup_cons]
      · have : (k' == a) = false := by simpa using h'
        simp [List.lookup_cons, this, ih, h']
    · have ha : (a == k) = false := by simpa using h
      by_cases h' : k' = k
      · subst h'
        have : (k' == a) = false := by simpa using (Ne.symm h)
        simp only [ha, Bool.false_or]; simp [List.lookup_cons, this, ih, h]
      · have hk : (k' == k) = false := by simpa using h'
        simp [List.lookup_cons, ha, ih, hk, h, h']

theorem lookup_none_of_not_any (d : List (List Char × List Char)) (k : List Char)
    (h : d.any (fun p => p.1 == k) = false) : d.lookup k = none := by
  induction d with
  | nil => rfl
  | cons p d ih =>
    simp only [List.any_cons, Bool.or_eq_false_iff] at h
    have hne : ¬ k = p.1 := by
      have := h.1; simp at this; exact fun e => this e.symm
    have : (k == p.1) = false := by simpa using hne
    obtain ⟨a, b⟩ := p
    rw [List.lookup_cons, this]; exact ih h.2

/-- `d[k] = v` changes the value of `k` and of no other key -/
theorem C18Args_dictSet_lookup (d : List (List Char × List Char)) (k v k' : List Char) :
    (dictSet d k v).lookup k' = if k' == k then some v else d.lookup k' := by
  unfold dictSet
  split
  · rename_i h; rw [lookup_map_set, h]; simp
  · rename_i h
    have h : d.any (fun p => p.1 == k) = false := by
      cases hh : d.any (fun p => p.1 == k) with
      | false => rfl
      | true => exact absurd hh h
    rw [List.lookup_append]
    by_cases hk : k' = k
    · subst hk; simp [lookup_none_of_not_any d k' h, List.lookup_cons]
    · have : (k' == k) = false := by simpa using hk
      simp [List.lookup_cons, this]

theorem last_wins_gen (args : List (List Char)) (d0 d : List (List Char × List Char)) (k : List Char)
    (h : args.foldlM kvStep d0 = some d) :
    d.lookup k = (lastValue k args).or (d0.lookup k) := by
  induction args generalizing d0 with
  | nil =>
    simp only [List.foldlM_nil, pure, Option.some.injEq] at h
    subst h; simp [lastValue]
  | cons a as ih =>
    rw [List.foldlM_cons] at h
    cases hp : kvParse a with
    | none => simp [kvStep, hp, bind, Option.bind] at h
    | some p =>
      obtain ⟨k1, v1⟩ := p
      have hs : kvStep d0 a = some (dictSet d0 k1 v1) := by simp [kvStep, hp]
      rw [hs] at h
      simp only [bind, Option.bind] at h
      rw [ih _ h, C18Args_dictSet_lookup]
      unfold lastValue
      rw [List.reverse_cons, List.findSome?_append]
      simp only [List.findSome?_cons, List.findSome?_nil, hp]
      by_cases hk : k = k1
      · subst hk; simp
      · have h1 : (k == k1) = false := by simpa using hk
        have h2 : (k1 == k) = false := by simpa using (Ne.symm hk)
        simp [h1, h2]

/-- for every accepted command line: the value of a key is the value of its LAST occurrence; a key that does not occur is absent -/
theorem C18Args_last_wins (args : List (List Char)) (d : List (List Char × List Char)) (k : List Char)
    (h : kvAppendAll args = some d) : d.lookup k = lastValue k args := by
  have := last_wins_gen args [] d k h
  simpa using this

example : kvAppendAll ["a=1".toList, "b=2".toList, "a=3".toList] =
    some [("a".toList, "3".toList), ("b".toList, "2".toList)] := by decide

/-- an occurrence is accepted exactly when it contains exactly one `=` -/
theorem C18Args_accept_iff_one_eq (s : List Char) : (kvParse s).isSome ↔ s.count '=' = 1 := by
  constructor
  · intro h
    obtain ⟨⟨k, v⟩, hp⟩ := Option.isSome_iff_exists.mp h
    obtain ⟨hs, hk, hv⟩ := (C18Args_kvParse_ok_iff s k v).mp hp
    rw [hs, List.count_append, List.count_cons_self, List.count_eq_zero.mpr hk, List.count_eq_zero.mpr hv]
  · intro h
    cases hc : cut '=' s with
    | none =>
      have := (cut_none '=' s).mp hc
      rw [List.count_eq_zero.mpr this] at h; cases h
    | some p =>
      obtain ⟨a, rest⟩ := p
      obtain ⟨hs, ha⟩ := (cut_some '=' s a rest).mp hc
      rw [hs, List.count_append, List.count_cons_self, List.count_eq_zero.mpr ha] at h
      have hr : '=' ∉ rest := List.count_eq_zero.mp (by omega)
      rw [(C18Args_kvParse_ok_iff s a rest).mpr ⟨hs, ha, hr⟩]; rfl

end Batchie.Props.C18Args
