/-
  C16 -- the k-per-sample policy yields batches with zero or exactly k plates per sample.

  About the hand model `Batchie.Policy` of `KPerSamplePlatePolicy.filter_eligible_plates` and of
  the plumbing of `select_next_plate` (tied to the code by harness/c16.py on every run).
  `cnt l s` = number of plates of sample `s` in the list `l`; `b` = plates already in the batch,
  `u` = unobserved plates not yet in the batch.

  All theorems are for every `k ≥ 1` (where `k` matters), every list of plates of any length and,
  for the history theorems, every sequence of selections in which any eligible plate may be the
  one that is picked (`Step`, `Reachable`, and at the level of `select_next_plate`: `History`).
-/
/-
  CLAUSE MAP (property text -> theorem)
  1.  allowed ⊆ unobserved plates not yet in the batch, along every selection sequence .. C16_subset, C16_subset_screen (any state)
  2.  sample with 1..k-1 plates in the batch: only its plates allowed, at least one ...... C16_in_progress (in every Inv state; Inv in every
                                                                                          reachable state: C16_invariant, C16_select_histories)
  3.  a new sample is opened only if >= k of its plates remain .......................... C16_open_needs_k (any state, no invariant needed)
  4.  every batch prefix has at most one incomplete sample .............................. C16_invariant / C16_select_histories (Inv.one_open)
  5.  every batch of m*k plates gives each sample 0 or exactly k ........................ C16_full_batches, C16_select_histories
  6.  plates with more than one sample are refused ...................................... C16_multi_sample_refused (iff)
  7.  quantifier: all k >= 1, any screens, all selection orders, (rounds) ............... Step/Reachable/History quantify over every allowed pick;
                                                                                          C16_rounds: the same after ANY finished batches were
                                                                                          reported with set_observed, and no plate of a finished
                                                                                          batch is ever allowed again
  8.  glue: every batch id >= 0 (0 included) reaches the policy, never offered again ..... C16_batch_ids_reach_policy, C16_selectNext_histories
  Regression (not a clause): S7-C16 placeholder filter `> 0` ............................ C16_S7_gt_filter_counterexample (vs C16_glue_witness_ok)
  9.  the plate that is returned is one the policy allowed, for every score table (ties incl.)  C16_selected_plate_is_allowed
  Regression (not a clause): S8-C16 value lookup over the whole table after a masked min ..... C16_S8_value_lookup_counterexample (+ C16_tie_witness_allowed)
  harness-only: numpy views behind Plate.sample_ids / n_unique_samples / is_observed (container fidelity), argmin of the scores (C06).
-/
import Batchie.Lemmas.Policy
import Batchie.Lemmas.PolicyRounds
import Batchie.Lemmas.PolicyGlue

namespace Batchie.Props.C16

open Batchie.Policy
open Batchie.Lemmas.Policy
open Batchie.Proto (Err)

/-- **Allowed ⊆ remaining.** Whatever the filter returns is a sub-list of the unobserved plates
    it was given (same order, no plate twice unless given twice). -/
theorem C16_subset (k : Nat) (b u el : List Plate) (h : filterEligible k b u = .ok el) :
    el.Sublist u ∧ ∀ p ∈ el, p ∈ u := by
  obtain ⟨_, hcase⟩ := filterEligible_ok h
  rcases hcase with ⟨s, _, rfl⟩ | ⟨_, rfl⟩
  · exact ⟨List.filter_sublist, fun p hp => (List.mem_filter.1 hp).1⟩
  · exact ⟨List.filter_sublist, fun p hp => (List.mem_filter.1 hp).1⟩

/-- ... and at the level of `select_next_plate`: every allowed plate is a plate of the screen that
    is unobserved and not yet in the batch. -/
theorem C16_subset_screen (k : Nat) (screen : List Plate) (ids : List Nat) (el : List Plate)
    (h : eligibleOf k screen ids = .ok el) :
    ∀ p ∈ el, p ∈ screen ∧ p.observed = false ∧ p.id ∉ ids := by
  intro p hp
  exact mem_candidates.1 ((C16_subset k _ _ el h).2 p hp)

/-- **Sample in progress.** In every state satisfying the invariant (so in every reachable state,
    `C16_invariant`): once a sample has between 1 and k-1 plates in the batch, the allowed plates
    are exactly that sample's remaining plates, and there is at least one. -/
theorem C16_in_progress (k : Nat) (b u : List Plate) (hinv : Inv k b u) (s : Nat)
    (h0 : 0 < cnt b s) (hk : cnt b s < k) :
    filterEligible k b u = .ok (u.filter (fun p => p.sid == s)) ∧
    u.filter (fun p => p.sid == s) ≠ [] := by
  constructor
  · rw [filterEligible_of_single hinv.single]
    cases hc : chosen k b with
    | none =>
      have := chosen_none hc s h0
      omega
    | some c =>
      obtain ⟨c0, ck⟩ := chosen_some hc
      have : c = s := hinv.one_open c s c0 ck h0 hk
      subst this
      rfl
  · have hfin := hinv.can_finish s h0
    have hpos : 0 < cnt u s := by omega
    intro hnil
    unfold cnt at hpos
    rw [List.countP_eq_length_filter, hnil] at hpos
    simp at hpos

/-- **Opening a sample needs k plates.** If no sample is in progress, every allowed plate belongs
    to a sample with no plate in the batch and at least `k` plates remaining.  (No invariant
    needed: this is what the filter computes in any state.) -/
theorem C16_open_needs_k (k : Nat) (b u el : List Plate) (h : filterEligible k b u = .ok el)
    (hnone : ∀ s, ¬ (0 < cnt b s ∧ cnt b s < k)) (p : Plate) (hp : p ∈ el) :
    cnt b p.sid = 0 ∧ k ≤ cnt u p.sid := by
  obtain ⟨_, hcase⟩ := filterEligible_ok h
  rcases hcase with ⟨s, hc, _⟩ | ⟨_, rfl⟩
  · exact absurd (chosen_some hc) (hnone s)
  · obtain ⟨hpu, hp2⟩ := List.mem_filter.1 hp
    simp only [Bool.and_eq_true, Bool.not_eq_true', List.contains_eq_mem, decide_eq_false_iff_not] at hp2
    constructor
    · have := hp2.2
      rw [mem_keys] at this
      omega
    · have h1 := hp2.1
      rw [mem_insufficient] at h1
      have := cnt_pos_of_mem hpu
      omega

/-- **The invariant** holds for the empty batch and is preserved by every allowed selection,
    hence holds along every selection history, for every `k ≥ 1`: no sample has more than `k`
    plates in the batch, at most one sample has between 1 and k-1 (every batch prefix has at
    most one incomplete sample), that sample can still be completed, and no multi-sample plate is
    around. -/
theorem C16_invariant (k : Nat) (hk : 1 ≤ k) :
    (∀ u0 : List Plate, (∀ p ∈ u0, p.single = true) → Inv k [] u0) ∧
    (∀ b u b' u' : List Plate, Inv k b u → Step k (b, u) (b', u') → Inv k b' u') ∧
    (∀ (u0 : List Plate) (st : List Plate × List Plate), Reachable k u0 st → Inv k st.1 st.2) :=
  ⟨fun _ h => inv_init h, fun _ _ _ _ hi hs => inv_step hk hi hs, fun _ _ h => inv_of_reachable hk h⟩

/-- **Full batches.** In every reachable state whose batch has `m·k` plates, every sample has
    zero or exactly `k` plates in the batch. -/
theorem C16_full_batches (k : Nat) (hk : 1 ≤ k) (u0 : List Plate) (st : List Plate × List Plate)
    (hr : Reachable k u0 st) (m : Nat) (hlen : st.1.length = m * k) (s : Nat) :
    cnt st.1 s = 0 ∨ cnt st.1 s = k :=
  full_batches hk (inv_of_reachable hk hr) m hlen s

/-- **The same along histories of `select_next_plate`** on a screen with distinct plate ids whose
    unobserved plates are single-sample: after any sequence of picks `ids` (each one any of the
    plates eligible at that moment) the batch satisfies the invariant, and if it has `m·k` plates
    every sample has zero or exactly `k` of them. -/
theorem C16_select_histories (k : Nat) (hk : 1 ≤ k) (screen : List Plate)
    (hS : (screen.map (·.id)).Nodup) (h1 : ∀ p ∈ screen, p.observed = false → p.single = true)
    (ids : List Nat) (h : History k screen ids) :
    Inv k (batchPlates screen ids) (candidates screen ids) ∧
    ∀ m, (batchPlates screen ids).length = m * k →
      ∀ s, cnt (batchPlates screen ids) s = 0 ∨ cnt (batchPlates screen ids) s = k := by
  have hr := reachable_of_history hS h1 h
  exact ⟨inv_of_reachable hk hr, fun m hm s => full_batches hk (inv_of_reachable hk hr) m hm s⟩

/-- **Across rounds.** Start from any screen `s0` with distinct plate ids whose unobserved plates are single-sample; report any
    number of finished batches `done` with `Screen.set_observed` (`afterRounds`: those plates become observed, nothing else changes);
    then run ANY selection history `ids` of `select_next_plate` on the resulting screen.  The batch satisfies the invariant, a batch
    of `m·k` plates gives every sample zero or exactly `k`, and every plate allowed at that point is unobserved, outside the current
    batch and was in NONE of the finished batches. -/
theorem C16_rounds (k : Nat) (hk : 1 ≤ k) (s0 : List Plate)
    (hS : (s0.map (·.id)).Nodup) (h1 : ∀ p ∈ s0, p.observed = false → p.single = true)
    (done : List (List Nat)) (ids : List Nat) (h : History k (afterRounds s0 done) ids) :
    Inv k (batchPlates (afterRounds s0 done) ids) (candidates (afterRounds s0 done) ids) ∧
    (∀ m, (batchPlates (afterRounds s0 done) ids).length = m * k →
      ∀ s, cnt (batchPlates (afterRounds s0 done) ids) s = 0 ∨ cnt (batchPlates (afterRounds s0 done) ids) s = k) ∧
    (∀ el, eligibleOf k (afterRounds s0 done) ids = .ok el →
      ∀ p ∈ el, p.observed = false ∧ p.id ∉ ids ∧ ∀ b ∈ done, p.id ∉ b) := by
  obtain ⟨hS', h1'⟩ := Batchie.Lemmas.PolicyRounds.afterRounds_ok done hS h1
  obtain ⟨hinv, hfull⟩ := C16_select_histories k hk _ hS' h1' ids h
  refine ⟨hinv, hfull, ?_⟩
  intro el hel p hp
  obtain ⟨hmem, hobs, hid⟩ := C16_subset_screen k _ ids el hel p hp
  refine ⟨hobs, hid, ?_⟩
  intro b hb hin
  have := Batchie.Lemmas.PolicyRounds.afterRounds_observed done s0 p.id (Or.inl ⟨b, hb, hin⟩) p hmem rfl
  rw [this] at hobs
  cases hobs

/-! ### the id glue of `select_next_plate` (seeded change S7-C16) -/

/-- **Every batch id ≥ 0 -- plate id 0 included -- reaches the policy** (S7-C16, positive half).  `selectNext` is
    `select_next_plate` with the batch ids as the caller hands them over (Python ints, `-1` placeholders allowed; the code applies
    no filter).  For every screen and every id list: the plates handed to the policy as the batch are exactly the plates whose id
    occurs in the list, the membership tests amount to the ids `≥ 0` (`batchFilter`, which keeps 0), so `selectNext` IS the
    `eligibleOf` of the history theorems; and no plate whose id is in the list is ever offered again as a candidate. -/
theorem C16_batch_ids_reach_policy (k : Nat) (screen : List Plate) (ids : List Int) :
    selectNext k screen ids = eligibleOf k screen (batchFilter ids) ∧
    (∀ i : Nat, i ∈ batchFilter ids ↔ (i : Int) ∈ ids) ∧
    (∀ p ∈ screen, (p.id : Int) ∈ ids → p ∈ batchPlatesRaw screen ids) ∧
    (∀ el, selectNext k screen ids = .ok el → ∀ p ∈ el, p ∈ screen ∧ p.observed = false ∧ (p.id : Int) ∉ ids) := by
  refine ⟨Batchie.Lemmas.PolicyGlue.selectNext_eq k screen ids, fun i => Batchie.Lemmas.PolicyGlue.mem_batchFilter, ?_, ?_⟩
  · intro p hp hid
    unfold batchPlatesRaw
    exact List.mem_filter.2 ⟨hp, by simpa using hid⟩
  · intro el hel p hp
    rw [Batchie.Lemmas.PolicyGlue.selectNext_eq] at hel
    obtain ⟨h1, h2, h3⟩ := C16_subset_screen k screen _ el hel p hp
    exact ⟨h1, h2, fun h => h3 (Batchie.Lemmas.PolicyGlue.mem_batchFilter.2 h)⟩

/-- ... hence the k-per-sample invariants hold for the composed function: along every selection history (told in terms of the ids
    that count, `batchFilter ids`) the lists `select_next_plate` builds from the RAW id list satisfy the invariant, and a batch of
    `m·k` plates gives every sample zero or exactly `k`. -/
theorem C16_selectNext_histories (k : Nat) (hk : 1 ≤ k) (screen : List Plate)
    (hS : (screen.map (·.id)).Nodup) (h1 : ∀ p ∈ screen, p.observed = false → p.single = true)
    (ids : List Int) (h : History k screen (batchFilter ids)) :
    Inv k (batchPlatesRaw screen ids) (candidatesRaw screen ids) ∧
    ∀ m, (batchPlatesRaw screen ids).length = m * k →
      ∀ s, cnt (batchPlatesRaw screen ids) s = 0 ∨ cnt (batchPlatesRaw screen ids) s = k := by
  rw [Batchie.Lemmas.PolicyGlue.batchPlatesRaw_eq, Batchie.Lemmas.PolicyGlue.candidatesRaw_eq]
  exact C16_select_histories k hk screen hS h1 _ h

/-- witness screen for the regression: plates 0 and 1 belong to sample 0, plate 2 to sample 1 -/
def glueWitness : List Plate := [⟨0, [0], false⟩, ⟨1, [0], false⟩, ⟨2, [1], false⟩]

/-- the code in /repo on the witness (k = 1, plate 0 already in the batch): sample 0 is closed, only plate 2 is allowed -/
theorem C16_glue_witness_ok : selectNext 1 glueWitness [0] = .ok [⟨2, [1], false⟩] := by
  rw [Batchie.Lemmas.PolicyGlue.selectNext_eq]
  have e : batchFilter [0] = [0] := by decide
  rw [e]
  unfold eligibleOf
  rw [candidates_of_sorted (by decide)]
  rfl

/-- **Regression (S7-C16, not a clause):** with the placeholder filter written `> 0`, plate id 0 drops out of the batch before
    the policy sees it: on the witness (k = 1, batch = [0]) plate 0 itself is offered again and so is plate 1, a SECOND plate of
    sample 0 -- accepting it gives sample 0 two plates in a batch with k = 1, and the answer differs from the real code's. -/
theorem C16_S7_gt_filter_counterexample :
    selectNextGt 1 glueWitness [0] = .ok glueWitness ∧
    (⟨0, [0], false⟩ : Plate) ∈ glueWitness ∧ (⟨1, [0], false⟩ : Plate) ∈ glueWitness ∧
    cnt (⟨1, [0], false⟩ :: batchPlatesRaw glueWitness [0]) 0 = 2 ∧
    selectNextGt 1 glueWitness [0] ≠ selectNext 1 glueWitness [0] := by
  have hgt : selectNextGt 1 glueWitness [0] = .ok glueWitness := by
    unfold selectNextGt
    have e0 : batchFilterGt [0] = [] := by decide
    rw [e0, Batchie.Lemmas.PolicyGlue.selectNext_eq]
    have e : batchFilter [] = [] := by decide
    rw [e]
    unfold eligibleOf
    rw [candidates_of_sorted (by decide)]
    rfl
  refine ⟨hgt, by decide, by decide, by decide, ?_⟩
  rw [hgt, C16_glue_witness_ok]
  intro h
  cases h

/-! ### which allowed plate comes back (seeded change S8-C16) -/

/-- **The selected plate is a member of the policy's answer, for EVERY score table** -- all scores equal, exact ties between allowed
    and non-allowed plates (`-0.0` / `0.0` are equal numbers), non-allowed plates stored first or last (S8-C16, positive half).
    `selectPlate` = `select_next_plate` with the choice: the table is masked to the allowed ids before the argmin is taken.  If it
    answers plate id `i`, the policy's answer `el` contains a plate with id `i` (so that plate is unobserved, outside the batch and
    in none of the listed ids); it answers `none` exactly when the policy allows nothing; and when some allowed plate has a score it
    does answer a plate. -/
theorem C16_selected_plate_is_allowed (k : Nat) (screen : List Plate) (ids : List Int) (table : List (Nat × Int)) :
    (∀ i, selectPlate k screen ids table = .ok (some i) →
      ∃ el, selectNext k screen ids = .ok el ∧ ∃ p ∈ el, p.id = i ∧ p ∈ screen ∧ p.observed = false ∧ (p.id : Int) ∉ ids) ∧
    (∀ el, selectNext k screen ids = .ok el → el = [] → selectPlate k screen ids table = .ok none) ∧
    (∀ el, selectNext k screen ids = .ok el → (∃ p ∈ el, ∃ sc, (p.id, sc) ∈ table) →
      ∃ i, selectPlate k screen ids table = .ok (some i)) := by
  refine ⟨?_, ?_, ?_⟩
  · intro i h
    unfold selectPlate at h
    cases hs : selectNext k screen ids with
    | error e => rw [hs] at h; cases h
    | ok el =>
      rw [hs] at h
      simp only at h
      split at h
      · cases h
      · have h' : argminAllowed table (el.map (fun p => p.id)) = some i := by
          have := Except.ok.inj h
          exact this
        obtain ⟨hmem, _⟩ := Batchie.Lemmas.PolicyGlue.argminAllowed_mem h'
        obtain ⟨p, hp, hpi⟩ := List.mem_map.1 hmem
        obtain ⟨h1, h2, h3⟩ := (C16_batch_ids_reach_policy k screen ids).2.2.2 el hs p hp
        exact ⟨el, rfl, p, hp, hpi, h1, h2, h3⟩
  · intro el hs hnil
    unfold selectPlate
    rw [hs, hnil]
    rfl
  · intro el hs ⟨p, hp, sc, hsc⟩
    unfold selectPlate
    rw [hs]
    have hne : el.isEmpty = false := by
      cases el with
      | nil => cases hp
      | cons _ _ => rfl
    simp only [hne]
    obtain ⟨i, hi⟩ := Batchie.Lemmas.PolicyGlue.argminAllowed_some
      (table := table) (allowed := el.map (fun p => p.id)) ⟨(p.id, sc), hsc, List.mem_map.2 ⟨p, hp, rfl⟩⟩
    exact ⟨i, by simp [hi]⟩

/-- witness of S8-C16: samples b, a, a, b on plates 0..3 (k = 2) -/
def tieWitness : List Plate := [⟨0, [1], false⟩, ⟨1, [0], false⟩, ⟨2, [0], false⟩, ⟨3, [1], false⟩]

/-- after plate 0 was picked only plate 3 (the other plate of sample b) is allowed -/
theorem C16_tie_witness_allowed : selectNext 2 tieWitness [0] = .ok [⟨3, [1], false⟩] := by
  rw [Batchie.Lemmas.PolicyGlue.selectNext_eq]
  have e : batchFilter [0] = [0] := by decide
  rw [e]
  unfold eligibleOf
  rw [candidates_of_sorted (by decide)]
  rfl

/-- **Regression (S8-C16, not a clause):** `best = scores[mask].min()` followed by a value lookup over the WHOLE table.  With the
    SizeScorer table of the witness (every remaining plate has size 1) and plate 0 in the batch, the real argmin answers plate 3,
    the only allowed one; the value lookup answers plate 1 -- not allowed, a plate of sample a while sample b is in progress: the
    batch `[0, 1]` then has two incomplete samples. -/
theorem C16_S8_value_lookup_counterexample :
    selectPlate 2 tieWitness [0] [(1, 1), (2, 1), (3, 1)] = .ok (some 3) ∧
    argminAllowed [(1, 1), (2, 1), (3, 1)] [3] = some 3 ∧
    argminValueLookup [(1, 1), (2, 1), (3, 1)] [3] = some 1 ∧
    (1 : Nat) ∉ [(3 : Nat)] ∧
    cnt (batchPlates tieWitness [0, 1]) 0 = 1 ∧ cnt (batchPlates tieWitness [0, 1]) 1 = 1 := by
  refine ⟨?_, by decide, by decide, by decide, by decide, by decide⟩
  unfold selectPlate
  rw [C16_tie_witness_allowed]
  rfl

/-- **Multi-sample plates are refused**: the filter raises `ValueError` iff some plate among the
    batch and the remaining plates does not contain exactly one sample. -/
theorem C16_multi_sample_refused (k : Nat) (b u : List Plate) :
    ((∃ p ∈ b ++ u, p.samples.length ≠ 1) → filterEligible k b u = .error Err.valueError) ∧
    ((∀ p ∈ b ++ u, p.samples.length = 1) → ∃ el, filterEligible k b u = .ok el) := by
  constructor
  · rintro ⟨p, hp, hne⟩
    exact filterEligible_error ⟨p, hp, by simp [Plate.single, hne]⟩
  · intro h
    have hs : ∀ p ∈ b ++ u, p.single = true := fun p hp => by simp [Plate.single, h p hp]
    rw [filterEligible_of_single hs]
    cases chosen k b <;> exact ⟨_, rfl⟩

/-! ### the hypotheses are satisfiable / concrete instances (k = 2; samples 0,0,0,1,1,2) -/

def demo : List Plate :=
  [⟨0, [0], false⟩, ⟨1, [0], false⟩, ⟨2, [0], false⟩, ⟨3, [1], false⟩, ⟨4, [1], false⟩, ⟨5, [2], false⟩]

theorem demo_eligibleOf (k : Nat) (ids : List Nat)
    (h : (demo.filter (fun p => !p.observed && !ids.contains p.id)).Pairwise
      (fun a b => decide (a.id ≤ b.id) = true)) :
    eligibleOf k demo ids
      = filterEligible k (batchPlates demo ids) (demo.filter (fun p => !p.observed && !ids.contains p.id)) := by
  unfold eligibleOf
  rw [candidates_of_sorted h]

/-- the side conditions of `C16_select_histories` hold for the demo screen: distinct plate ids, single-sample plates -/
example : (demo.map (·.id)).Nodup ∧ (∀ p ∈ demo, p.observed = false → p.single = true) := by decide

/-- ... and its conclusion has content there: after the two-step history `[3, 4]` (k = 2) sample 1 has exactly k plates,
    the other samples none -/
example : (batchPlates demo [3, 4]).length = 1 * 2 ∧ cnt (batchPlates demo [3, 4]) 1 = 2 ∧
    cnt (batchPlates demo [3, 4]) 0 = 0 ∧ cnt (batchPlates demo [3, 4]) 2 = 0 := by decide

/-- a second round on the demo screen (k = 2): after the batch `[3, 4]` was reported, sample 1 has no plate left and only
    sample 0 can be opened; `History` is inhabited there too -/
theorem demo_round2 : eligibleOf 2 (afterRounds demo [[3, 4]]) [] = .ok [⟨0, [0], false⟩, ⟨1, [0], false⟩, ⟨2, [0], false⟩] := by
  have e : afterRounds demo [[3, 4]] =
      [⟨0, [0], false⟩, ⟨1, [0], false⟩, ⟨2, [0], false⟩, ⟨3, [1], true⟩, ⟨4, [1], true⟩, ⟨5, [2], false⟩] := by decide
  rw [e]
  unfold eligibleOf
  rw [candidates_of_sorted (by decide)]
  rfl

example : History 2 (afterRounds demo [[3, 4]]) ([] ++ [1]) :=
  .snoc [] _ ⟨1, [0], false⟩ .nil demo_round2 (by decide)

/-- empty batch: sample 2 (one plate left) cannot be opened -/
example : eligibleOf 2 demo [] = .ok [⟨0, [0], false⟩, ⟨1, [0], false⟩, ⟨2, [0], false⟩, ⟨3, [1], false⟩, ⟨4, [1], false⟩] := by
  rw [demo_eligibleOf 2 [] (by decide)]; rfl
/-- sample 1 in progress: only its remaining plate -/
theorem demo_step2 : eligibleOf 2 demo [3] = .ok [⟨4, [1], false⟩] := by
  rw [demo_eligibleOf 2 [3] (by decide)]; rfl
/-- sample 1 complete: it is closed, sample 0 may be opened -/
example : eligibleOf 2 demo [3, 4] = .ok [⟨0, [0], false⟩, ⟨1, [0], false⟩, ⟨2, [0], false⟩] := by
  rw [demo_eligibleOf 2 [3, 4] (by decide)]; rfl
/-- a genuine two-step history (so `History`, `Step`, `Reachable` are inhabited beyond the empty batch) -/
example : History 2 demo ([] ++ [3] ++ [4]) :=
  .snoc [3] [⟨4, [1], false⟩] ⟨4, [1], false⟩
    (.snoc [] [⟨0, [0], false⟩, ⟨1, [0], false⟩, ⟨2, [0], false⟩, ⟨3, [1], false⟩, ⟨4, [1], false⟩] ⟨3, [1], false⟩ .nil
      (by rw [demo_eligibleOf 2 [] (by decide)]; rfl) (by decide))
    demo_step2 (by decide)
/-- refusal -/
example : filterEligible 2 [] (⟨6, [0, 1], false⟩ :: demo) = .error Err.valueError := rfl

end Batchie.Props.C16
