/-
  C04 — model growth for seeded changes that the C04 oracles catch (S5-C04, S7-C04): the positive clause as a theorem about the model,
  and the mutated definition kept as a REGRESSION definition refuted on a concrete witness.
-/
import Batchie.Props.C04
import Batchie.Model.TrainFile
import Batchie.Lemmas.SamplerIndex
import Batchie.Lemmas.LifecycleMk

namespace Batchie.Props.C04
open Batchie.Proto Batchie.Screen Batchie.Scores Batchie.Train Batchie.Lemmas.Scores Batchie.Lemmas.Train Batchie.TrainFile
open Batchie.Lemmas.SamplerIndex
open Batchie.SamplerIndex (instalments instalmentsRestart indicesOf Table Sampler)

/-! ### S5-C04: the sampler's index tables after instalments -/

/-- S5-C04, positive and general: after ANY sequence of `add_observations` calls (instalments) on a fresh sampler, every per-unit
    index table (`cline_idxs`, `dd1_idxs`, `dd2_idxs`) lists exactly the numbers of the recorded rows whose sample / first / second
    treatment is that unit, increasing; the recorded rows are the instalments concatenated. -/
theorem C04_index_tables_consistent (blocks : List (List SamplerIndex.Row)) :
    (instalments blocks).rows = blocks.flatten ∧
    ∀ k, (instalments blocks).clineIdx.get k = indicesOf SamplerIndex.Row.cl blocks.flatten k
       ∧ (instalments blocks).dd1Idx.get k = indicesOf SamplerIndex.Row.dd1 blocks.flatten k
       ∧ (instalments blocks).dd2Idx.get k = indicesOf SamplerIndex.Row.dd2 blocks.flatten k := by
  obtain ⟨h, hr⟩ := consistent_instalments blocks
  refine ⟨hr, fun k => ?_⟩
  have := h k
  rw [hr] at this
  exact this

/-- … hence each table is a PARTITION of `0 … n_obs-1` consistent with the rows: row number `i` is filed under unit `k` iff row `i`
    exists and its key is `k` (so under exactly one unit per table), and never twice. -/
theorem C04_index_tables_partition (blocks : List (List SamplerIndex.Row)) (k : Int) (i : Nat) :
    (i ∈ (instalments blocks).clineIdx.get k ↔ ∃ r, blocks.flatten[i]? = some r ∧ r.cl = k)
    ∧ (i ∈ (instalments blocks).dd1Idx.get k ↔ ∃ r, blocks.flatten[i]? = some r ∧ r.dd1 = k)
    ∧ (i ∈ (instalments blocks).dd2Idx.get k ↔ ∃ r, blocks.flatten[i]? = some r ∧ r.dd2 = k)
    ∧ ((instalments blocks).clineIdx.get k).Nodup ∧ ((instalments blocks).dd1Idx.get k).Nodup ∧ ((instalments blocks).dd2Idx.get k).Nodup := by
  obtain ⟨_, h⟩ := C04_index_tables_consistent blocks
  obtain ⟨h1, h2, h3⟩ := h k
  rw [h1, h2, h3]
  exact ⟨mem_indicesOf _ _ _ _, mem_indicesOf _ _ _ _, mem_indicesOf _ _ _ _, nodup_indicesOf _ _ _, nodup_indicesOf _ _ _, nodup_indicesOf _ _ _⟩

/-- S5-C04, regression witness: with the bulk helper that restarts the numbering at 0 in every call, two instalments of one row each
    (same sample) file row 0 twice under that sample and row 1 never — the first call alone is still right. -/
theorem C04_S5_restart_numbering_counterexample :
    (instalmentsRestart [[⟨0, 1, 2⟩], [⟨0, 2, 1⟩]]).clineIdx.get 0 = [0, 0]
    ∧ indicesOf SamplerIndex.Row.cl [⟨0, 1, 2⟩, ⟨0, 2, 1⟩] 0 = [0, 1]
    ∧ (instalments [[⟨0, 1, 2⟩], [⟨0, 2, 1⟩]]).clineIdx.get 0 = [0, 1]
    ∧ instalmentsRestart [[⟨0, 1, 2⟩, ⟨0, 2, 1⟩]] = instalments [[⟨0, 1, 2⟩, ⟨0, 2, 1⟩]] := by
  decide

/-! ### S7-C04: the training stage on a FILE -/

/-- C02's persistence model is bit-preserving on the observation column and the mask: what `load_h5` returns holds the file's values -/
theorem C04_load_preserves_observations (f : Screen.File) (s : Screen) (h : Screen.load f = .ok s) : s.obs = f.obs ∧ s.mask = f.mask := by
  unfold Screen.load at h
  split at h
  · cases h
  · have c := Batchie.Lifecycle.mk?_inv h
    exact ⟨by simpa using c.obs_eq, by simpa using c.mask_eq⟩

/-- S7-C04, positive and general: for every screen file and both models — if the file loads and one of its OBSERVED rows carries a NaN
    or negative value (bit-level `geZero`), the composed stage load + train returns an error: nothing is sampled, no thetas are written.
    (If the file does not load the stage fails as well.) -/
theorem C04_file_stage_refuses_bad_observed {τ : Type} (m : ModelKind) (transform : Nat → τ) (nanT : τ → Bool) (f : Screen.File)
    (hbad : ∀ s, Screen.load f = .ok s → ∃ r ∈ observedRows s, geZero r.obs = false) :
    ∃ e, fileTrain m transform nanT f = .error e := by
  unfold fileTrain
  cases hl : Screen.load f with
  | error e => exact ⟨e, rfl⟩
  | ok s =>
    obtain ⟨r, hr, hneg⟩ := hbad s hl
    refine ⟨.valueError, ?_⟩
    simp only [bind, Except.bind]
    rw [trainRows_eq]
    have hany : s.mask.any id = true := by
      have : r.mask = true := by simpa using (List.mem_filter.mp hr).2
      unfold observedRows screenRows at hr
      obtain ⟨i, hi, hri⟩ := List.getElem_of_mem (List.mem_filter.mp hr).1
      simp only [List.getElem_zipWith, List.getElem_zip] at hri
      rw [List.any_eq_true]
      refine ⟨true, ?_, rfl⟩
      have hm : s.mask[i]'(by simp at hi; omega) = true := by rw [← this, ← hri]
      rw [← hm]; exact List.getElem_mem _
    simp only [hany, if_true]
    exact C04_rejects_negative_nan m transform nanT s.arity (observedRows s) r hr hneg

/-- … and values stored BEHIND the mask do not matter to the stage: two files whose loaded screens differ only there give the same
    outcome (the same refusal or the same training data). -/
theorem C04_file_stage_noninterference {τ : Type} (m : ModelKind) (transform : Nat → τ) (nanT : τ → Bool) (f f' : Screen.File)
    (s s' : Screen) (h : Screen.load f = .ok s) (h' : Screen.load f' = .ok s') (ha : AgreeOffMask s s') :
    fileTrain m transform nanT f = fileTrain m transform nanT f' := by
  unfold fileTrain
  simp only [h, h', bind, Except.bind]
  exact C04_train_noninterference m transform nanT s s' ha

/-- a screen with a NaN (0x7FF8…) in an OBSERVED combination row -/
def exNaNObserved : Screen :=
  { ctrl := [], arity := 2, tnames := [], tdoses := [], snames := [], pnames := [],
    obs := [0x3FE0000000000000, 0x7FF8000000000000, 0x3FE8000000000000], mask := [true, true, false],
    tids := [[0, -1], [0, 1], [1, 2]], sids := [0, 0, 1], pids := [0, 0, 1], tmap := [], smap := [], pmap := [] }

/-- S7-C04, regression witness: a load that maps NaN ↦ 0.0 makes the stage ACCEPT a file whose observed row is NaN (both models), and the
    model is trained on the value 0.0 that nobody measured; the real composition refuses the same file. -/
theorem C04_S7_nan_to_zero_on_load_counterexample (f : Screen.File) (h : Screen.load f = .ok exNaNObserved) :
    (∃ e, fileTrain .sparseDrugCombo id (fun _ => false) f = .error e)
    ∧ (∃ e, fileTrain .sparseDrugComboInteraction id (fun _ => false) f = .error e)
    ∧ (fileTrainOld .sparseDrugCombo id (fun _ => false) f).toOption.map (·.tuples)
        = some [(0x3FE0000000000000, 0, 0, -1), (0, 0, 0, 1)]
    ∧ (fileTrainOld .sparseDrugComboInteraction id (fun _ => false) f).toOption.map (·.tuples) = some [(0, 0, 0, 1)] := by
  have hb : ∀ s, Screen.load f = .ok s → ∃ r ∈ observedRows s, geZero r.obs = false := by
    intro s hs
    rw [h] at hs; cases hs
    exact ⟨⟨0x7FF8000000000000, 0, [0, 1], true⟩, by decide, by decide⟩
  refine ⟨C04_file_stage_refuses_bad_observed _ _ _ f hb, C04_file_stage_refuses_bad_observed _ _ _ f hb, ?_, ?_⟩
  · simp only [fileTrainOld, loadNanToZero, h, Except.map, bind, Except.bind]
    decide
  · simp only [fileTrainOld, loadNanToZero, h, Except.map, bind, Except.bind]
    decide

end Batchie.Props.C04
