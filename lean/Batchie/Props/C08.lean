/-
  C08 — each Gibbs block draws from the exact full conditional of the documented model.

  Only property theorems live here (helper lemmas: `Batchie/Lemmas/Gibbs*.lean`; the model:
  `Batchie/Model/Gibbs.lean`, executed at `Float` by the correspondence driver and reasoned about at `ℝ`).

  Documented model (`Lemmas/GibbsEnergy.lean`, `energy`): Gaussian likelihood with precision `prec` around
  `mu = alpha + W0[c] + V0[d1] + V0[d2] + ⟨W[c], V1[d1]+V1[d2]⟩ + ⟨W[c], V2[d1]∘V2[d2]⟩` (control contributes 0);
  priors `W0 ~ N(0,1/τ0)`, `V0[m] ~ N(0,1/(φ0[m]η0))`, `W[c,d] ~ N(0,1/τ_d)`, `V2, V1` with `φ·η`.

  CLAUSE MAP (property text → theorems)
  1. "each Gaussian block update (per-sample and per-treatment intercepts, sample embeddings, first- and second-order
     treatment embeddings) … is drawn from the full conditional implied by the model's likelihood and priors"
       scalar blocks W0, V0 : `C08_block_W0`, `C08_block_W0_canonical`, `C08_block_V0`, `C08_block_V0_canonical`
                              (both branches, with / without data), `C08_mu_affine_W0/V0`
       vector blocks W, V2, V1 : `C08_gaussian_block`, `C08_mu_affine_W/V2/V1`, `C08_block_W/V2/V1`, `C08_block_canonical`,
                              `C08_block_nodata`, `C08_block_Q_posdef`; what is handed to the draw: `C08_logged_args`
       side conditions (`0 ≤ prec`, `0 < λ`, cache invariant) hold at EVERY state in which a block of a reachable
       history is resampled: `C08_init_state`, `C08_reachable_pos`, `C08_gauss_keeps_hyper`, `C08_reachable_gauss_states`
       harness-only / trusted: that `normal(m, s)` draws `N(m, s²)` (numpy's generator law); float32 storage and rounding.
  2. "each conjugate precision update (observation noise, intercept and embedding scales) …"
       `C08_gamma_prec`, `C08_gamma_prec_nodata`, `C08_gamma_tau0`, `C08_gamma_phi0`, `C08_gamma_eta0`, `C08_gamma_phi`,
       `C08_gamma_eta`, `C08_gamma_gam`, `C08_tau_cumprod`; on the stage functions the driver runs:
       `C08_gamma_tau0_stage`, `C08_gamma_prec_stage`, `C08_gamma_V0_stage`, `C08_gamma_V2_stage`, `C08_gamma_V1_stage`,
       `C08_gamma_gam_sweep`, `C08_gamma_gam_current_not_stale`
       harness-only / trusted: that `gamma(a, scale)` draws `Gamma(a, rate 1/scale)`; the identities are stated with `L`
       standing for `log p` (universally quantified), the density reading of them is prose.
  3. "… given the current value of every other block"
       `C08_block_within_stage`, `C08_sweep_stages`, the `*_stage` theorems, `C08_gamma_gam_sweep` (current factors)
  4. "the global intercept is held at the mean of the transformed observations"      `C08_alpha`
  5. "every precision stays inside its documented bounds"
       `C08_bounds`, `C08_bounds_clip`, `C08_bounds_pos`, initially `C08_init_state`
       (`prec` without observations is the raw prior draw — the code returns before the clip — `C08_gamma_prec_stage`)
  6. "After every block the sampler's running fitted values equal those implied by its current parameters"
       `C08_mu_cache_init/alpha/W0/V0/W/V2/V1`, `C08_block_within_stage`, `C08_mu_cache_sweep`, `C08_mu_cache_history`;
       excluded input class (known finding) with a proved counterexample: `C08_self_pair_breaks_cache`
       harness-only: numpy's fancy-index semantics of `Mu[idx] += …` (modelled by `Blk.muNext` / `sMuNext`).
  7. "every block is visited once per step in the documented order"                   `C08_order`, `C08_sweep_stages`
  8. "the multivariate normal draw has mean Q⁻¹b and covariance Q⁻¹"
       `C08_mvn` (any upper factor), `C08_chol_correct` (the executable Cholesky factorisation is correct for EVERY size when
       the pivots are positive), `C08_mvn_sample_chol` (no contract hypothesis left), `C08_chol_pivots_small` (1×1, 2×2
       positive definite input has positive pivots), `C08_mvn_sample` (under the contract)
       trusted: numpy's `cholesky` returns THE upper factor with positive diagonal (unique; compared with `chol` on every run);
       positive pivots for positive definite `Q` of size ≥ 3 (standard, not proved here); `z ~ N(0, I)`.
  9. "The posterior sample exported after any step reproduces, on the training experiments, the sampler's fitted values
     and its noise precision"                                                         `C08_export_reproduces`
       harness-only: the exported arrays are copies (aliasing is not expressible in a functional model).
  Added after later rounds of seeded changes (`Props/C08Regress.lean`):
    clause 7 at unit level (S6-C08): `C08_every_unit_drawn_once` — every sample index gets exactly one `W` and one `W0` draw, every
      treatment index exactly one `V2`, `V1`, `V0` draw per sweep, with or without data (the draw-site list depends on the sizes only)
    clause 8 (S7-C08): the draw is `Q⁻¹b + U⁻¹z` for EVERY size incl. 1: `C08_mvn_sample_chol`; in closed form for 1×1:
      `C08_mvn_1x1` (`z/√q + b/q`)
    clause 4 (S5-C08): the intercept is the mean of ALL rows held after any sequence of instalments: `C08_alpha_instalments`,
      `C08_alpha_instalment_list`
    Regression (not a clause): `C08_S6_data_only_loop_skips_unit` — `_W_step` looping over the samples with data skips a no-data sample
    Regression (not a clause): `C08_S7_fast_path_wrong_scale` — 1×1 fast path with noise `z/q` returns 1/4 instead of 1/2 for q = 4
    Regression (not a clause): `C08_S5_cached_mean_is_stale` — intercept memoised at the first call ignores the second instalment
  Quantifier: all datasets / embedding sizes / states along any number of steps — every theorem is for arbitrary `dt`, `D`,
  start state and choice logs; reachable states: `C08_reachable_pos`, `C08_reachable_gauss_states`; samples / treatments
  without data: `C08_block_nodata`, the no-data branch of `C08_block_W0/V0`, `C08_gamma_prec_nodata`.

  Probability facts used only in prose (trusted base): a density ∝ exp(−½xᵀQx + bᵀx) is `N(Q⁻¹b, Q⁻¹)`;
  `z ~ N(0,I)` makes `Az + m ~ N(m, AAᵀ)`; a density ∝ p^(a−1) e^(−rp) is `Gamma(a, rate r)`.

  Known finding (excluded input class): a row with the same non-control treatment in both positions makes
  `mu` quadratic in the treatment blocks and `Mu[idx] += …` (duplicate indices) apply once; the treatment-block
  theorems carry `NoSelfPair`, and `C08_self_pair_breaks_cache` proves the negation on a concrete witness.
-/
import Batchie.Lemmas.GibbsCache
import Batchie.Lemmas.GibbsEnergy
import Batchie.Lemmas.GibbsSweep
import Batchie.Lemmas.GibbsGamma
import Batchie.Lemmas.GibbsMvn
import Batchie.Lemmas.GibbsPrecStages
import Batchie.Lemmas.GibbsPosDef
import Batchie.Lemmas.GibbsReach
import Batchie.Lemmas.GibbsChol

namespace Batchie.Props.C08
open Batchie.Gibbs Finset Matrix

/-! ## 1. generic completing-the-square identity -/

/-- for design rows `X`, residuals `r`, prior precisions `λ`:
    `½·prec·Σ_n (r_n − ⟨X_n,x⟩)² + ½ Σ_d λ_d x_d²` minus its value at `0` is `½ xᵀQx − bᵀx`
    with `Q = prec·XᵀX + diag λ`, `b = prec·Xᵀr` -/
theorem C08_gaussian_block (N D : ℕ) (prec : ℝ) (X : ℕ → ℕ → ℝ) (r lam x : ℕ → ℝ) :
    blockEnergy N D prec X r lam x - blockEnergy N D prec X r lam (fun _ => 0)
      = (1/2) * ∑ d ∈ range D, ∑ e ∈ range D, x d * blockQ N prec X lam d e * x e
        - ∑ d ∈ range D, blockB N prec X r d * x d :=
  gaussian_block N D prec X r lam x

/-! ## 2. the fitted-value cache invariant -/

/-- the first line of the sweep (`_reconstruct_Mu`) establishes `Mu = mu(params)` from ANY state -/
theorem C08_mu_cache_init (dt : Data ℝ) (st : State ℝ) : CacheOK dt (reconstructMu dt st) :=
  cache_reconstruct dt st

theorem C08_mu_cache_alpha (dt : Data ℝ) (st : State ℝ) (h : CacheOK dt st) : CacheOK dt (alphaStep dt st) :=
  cache_alpha dt st h

/-- `W0[c]` block: for EVERY drawn value `v` -/
theorem C08_mu_cache_W0 (dt : Data ℝ) (st : State ℝ) (h : CacheOK dt st) (c : ℕ) (v : ℝ) :
    CacheOK dt (w0Next dt st c v) := cache_w0Next dt st h c v

/-- `V0[m]` block, on data without self pairs -/
theorem C08_mu_cache_V0 (dt : Data ℝ) (hw : WellFormed dt) (hp : NoSelfPair dt) (st : State ℝ) (h : CacheOK dt st)
    (m : ℕ) (v : ℝ) : CacheOK dt (v0Next dt st m v) := cache_v0Next dt hw hp st h m v

/-- `W[c]` block: for every drawn vector, and for a failed draw (`none`) -/
theorem C08_mu_cache_W (dt : Data ℝ) (st : State ℝ) (h : CacheOK dt st) (c : ℕ) (v : Option (ℕ → ℝ)) :
    CacheOK dt (wNext dt st c v) := cache_wNext dt st h c v

theorem C08_mu_cache_V2 (dt : Data ℝ) (hw : WellFormed dt) (hp : NoSelfPair dt) (st : State ℝ) (h : CacheOK dt st)
    (m : ℕ) (v : Option (ℕ → ℝ)) : CacheOK dt (v2Next dt st m v) := cache_v2Next dt hw hp st h m v

theorem C08_mu_cache_V1 (dt : Data ℝ) (hw : WellFormed dt) (hp : NoSelfPair dt) (st : State ℝ) (h : CacheOK dt st)
    (m : ℕ) (v : Option (ℕ → ℝ)) : CacheOK dt (v1Next dt st m v) := cache_v1Next dt hw hp st h m v

/-- the invariant holds after EVERY one of the 13 stages of a sweep, from any start state and for every
    choice log (so in particular whatever the previous sweeps left in `Mu`) -/
theorem C08_mu_cache_sweep (dt : Data ℝ) (hw : WellFormed dt) (hp : NoSelfPair dt) (ω : Draws ℝ) (st : State ℝ) :
    (∀ s ∈ mcmcTrace dt ω st, CacheOK dt s) ∧ CacheOK dt (mcmcStep dt ω st) :=
  ⟨(cache_sweep dt hw hp ω st).2, (cache_sweep dt hw hp ω st).1⟩

/-- … hence after every sweep of every history -/
theorem C08_mu_cache_history (dt : Data ℝ) (hw : WellFormed dt) (hp : NoSelfPair dt) (ωs : List (Draws ℝ))
    (hne : ωs ≠ []) (st : State ℝ) : CacheOK dt (runSweeps dt ωs st) := by
  induction ωs using List.reverseRecOn with
  | nil => exact absurd rfl hne
  | append_singleton l ω _ =>
    unfold runSweeps
    rw [List.foldl_append]
    exact (C08_mu_cache_sweep dt hw hp ω _).2

/-! ### the excluded input class really breaks the cache (concrete witness) -/

/-- one observation `(sample 0, treatment 0, treatment 0)` -/
def spData : Data ℝ :=
  { nC := 1, nT := 1, D := 1, N := 1, y := fun _ => 0, cline := fun _ => 0, dd1 := fun _ => 0, dd2 := fun _ => 0,
    a0 := 1, b0 := 1 }

def spState : State ℝ :=
  { W := fun _ _ => 1, W0 := fun _ => 0, V2 := fun _ _ => 0, V1 := fun _ _ => 0, V0 := fun _ => 0, alpha := 0,
    prec := 1, tau := fun _ => 1, tau0 := 1, gam := fun _ => 1, phi2 := fun _ _ => 1, phi1 := fun _ _ => 1,
    phi0 := fun _ => 1, eta2 := fun _ => 1, eta1 := fun _ => 1, eta0 := 1, Mu := fun _ => 0, log := [] }

/-- on a row with the same treatment twice the `V0` and the `V1` block leave a stale cache
    (the increment is applied once, the fitted value moves twice) -/
theorem C08_self_pair_breaks_cache :
    ¬ NoSelfPair spData ∧ CacheOK spData spState
      ∧ ¬ CacheOK spData (v0Next spData spState 0 1)
      ∧ ¬ CacheOK spData (v1Next spData spState 0 (some (fun _ => 1))) := by
  refine ⟨?_, ?_, ?_, ?_⟩
  · intro h
    have := h 0 (by norm_num [spData]) rfl
    norm_num [spData] at this
  · intro n _
    simp [spData, spState, mu, muOf, get0, getV, sumN]
  · intro h
    have := h 0 (by norm_num [spData])
    simp [v0Next, sMuNext, sHas, anyN, sel1, sel2, spData, spState, mu, muOf, get0, getV, upd, sumN] at this
  · intro h
    have := h 0 (by norm_num [spData])
    simp [v1Next, v1Blk, Blk.has, Blk.muNext, Blk.old2, anyN, sel1, sel2, spData, spState, mu, muOf,
      get0, getV, upd, sumN] at this

/-! ## 3. `mu` is affine in every block with exactly the design rows the code builds -/

/-- `W0[c]`: design = indicator of `cline = c` -/
theorem C08_mu_affine_W0 (dt : Data ℝ) (st : State ℝ) (c : ℕ) (x : ℝ) (n : ℕ) :
    mu dt (setW0 st c x) n = mu dt (setW0 st c 0) n + sDesign (selC dt c) selNone n * x :=
  mu_affine_W0 dt st c x n

/-- `V0[m]`: design = indicator of `dd1 = m ∨ dd2 = m` (no self pairs) -/
theorem C08_mu_affine_V0 (dt : Data ℝ) (hw : WellFormed dt) (hp : NoSelfPair dt) (st : State ℝ) (m : ℕ) (x : ℝ)
    (n : ℕ) (hn : n < dt.N) :
    mu dt (setV0 st m x) n = mu dt (setV0 st m 0) n + sDesign (sel1 dt m) (sel2 dt m) n * x :=
  mu_affine_V0 dt hw hp st m x n hn

/-- `W[c]`: design row `V2[d1]∘V2[d2] + (V1[d1] + V1[d2])` on the rows of sample `c` -/
theorem C08_mu_affine_W (dt : Data ℝ) (st : State ℝ) (c : ℕ) (x : ℕ → ℝ) (n : ℕ) :
    mu dt (setW st c x) n = mu dt (setW st c (fun _ => 0)) n
      + ∑ d ∈ range dt.D, (if dt.cline n = c then wX dt st n d else 0) * x d := by
  rw [mu_affine_W]
  congr 1; apply sum_congr rfl; intro d _
  simp only [Blk.design, wBlk, selNone, selC, Bool.false_eq_true, if_false, beq_iff_eq]

/-- `V2[m]`: design row `W[c]∘V2[partner]` -/
theorem C08_mu_affine_V2 (dt : Data ℝ) (hw : WellFormed dt) (hp : NoSelfPair dt) (st : State ℝ) (m : ℕ)
    (x : ℕ → ℝ) (n : ℕ) (hn : n < dt.N) :
    mu dt (setV2 st m x) n = mu dt (setV2 st m (fun _ => 0)) n
      + ∑ d ∈ range dt.D,
          (if dt.dd2 n = (m : ℤ) then st.W (dt.cline n) d * getV st.V2 (dt.dd1 n) d
            else if dt.dd1 n = (m : ℤ) then st.W (dt.cline n) d * getV st.V2 (dt.dd2 n) d else 0) * x d := by
  rw [mu_affine_V2 dt hw hp st m x n hn]
  congr 1; apply sum_congr rfl; intro d _
  simp only [Blk.design, v2Blk, sel1, sel2, beq_iff_eq]

/-- `V1[m]`: design row `W[c]` -/
theorem C08_mu_affine_V1 (dt : Data ℝ) (hw : WellFormed dt) (hp : NoSelfPair dt) (st : State ℝ) (m : ℕ)
    (x : ℕ → ℝ) (n : ℕ) (hn : n < dt.N) :
    mu dt (setV1 st m x) n = mu dt (setV1 st m (fun _ => 0)) n
      + ∑ d ∈ range dt.D,
          (if dt.dd2 n = (m : ℤ) then st.W (dt.cline n) d else if dt.dd1 n = (m : ℤ) then st.W (dt.cline n) d else 0)
            * x d := by
  rw [mu_affine_V1 dt hw hp st m x n hn]
  congr 1; apply sum_congr rfl; intro d _
  simp only [Blk.design, v1Blk, sel1, sel2, beq_iff_eq]

/-! ## 3b. under the invariant, the arguments of every Gaussian draw are the canonical parameters of the block's
    full conditional of the documented density -/

/-- `W0[c]`: relative to the documented energy the conditional of `W0[c]` is `exp(−(x − mean)²/(2 sd²))` with
    `(mean, sd)` the very arguments the code hands to `normal` — in both branches (with and without data) -/
theorem C08_block_W0 (dt : Data ℝ) (st : State ℝ) (h : CacheOK dt st) (c : ℕ) (hc : c < dt.nC)
    (hprec : 0 ≤ st.prec) (htau : 0 < st.tau0) (x : ℝ) :
    energy dt (setW0 st c x) - energy dt (setW0 st c (w0Args dt st c).mean)
      = (x - (w0Args dt st c).mean)^2 / (2 * (w0Args dt st c).sd^2) := by
  have hq := sQ_pos dt.N (selC dt c) selNone st.prec st.tau0 hprec htau
  rw [args_W0 dt st h c]
  have e1 := block_W0 dt st c hc x
  have e2 := block_W0 dt st c hc (bW0 dt st c / qW0 dt st c)
  have := scalar_square (qW0 dt st c) (bW0 dt st c) x hq
  simp only at this ⊢
  linarith

/-- the canonical form: `E(x) − E(0) = ½Qx² − bx`, `mean = b/Q`, `sd = 1/√Q`, with
    `Q = prec·#rows + τ0`, `b = prec·Σ_rows (y − mu|_{W0[c]=0})` -/
theorem C08_block_W0_canonical (dt : Data ℝ) (st : State ℝ) (h : CacheOK dt st) (c : ℕ) (hc : c < dt.nC) :
    (∀ x, energy dt (setW0 st c x) - energy dt (setW0 st c 0) = (1/2) * qW0 dt st c * x^2 - bW0 dt st c * x)
    ∧ w0Args dt st c = ⟨bW0 dt st c / qW0 dt st c, 1 / Real.sqrt (qW0 dt st c)⟩ :=
  ⟨fun x => block_W0 dt st c hc x, args_W0 dt st h c⟩

theorem C08_block_V0 (dt : Data ℝ) (hw : WellFormed dt) (hp : NoSelfPair dt) (st : State ℝ) (h : CacheOK dt st)
    (m : ℕ) (hm : m < dt.nT) (hprec : 0 ≤ st.prec) (hlam : 0 < st.phi0 m * st.eta0) (x : ℝ) :
    energy dt (setV0 st m x) - energy dt (setV0 st m (v0Args dt st m).mean)
      = (x - (v0Args dt st m).mean)^2 / (2 * (v0Args dt st m).sd^2) := by
  have hq := sQ_pos dt.N (sel1 dt m) (sel2 dt m) st.prec (st.phi0 m * st.eta0) hprec hlam
  rw [args_V0 dt hw hp st h m]
  have e1 := block_V0 dt hw hp st m hm x
  have e2 := block_V0 dt hw hp st m hm (bV0 dt st m / qV0 dt st m)
  have := scalar_square (qV0 dt st m) (bV0 dt st m) x hq
  simp only at this ⊢
  linarith

theorem C08_block_V0_canonical (dt : Data ℝ) (hw : WellFormed dt) (hp : NoSelfPair dt) (st : State ℝ)
    (h : CacheOK dt st) (m : ℕ) (hm : m < dt.nT) :
    (∀ x, energy dt (setV0 st m x) - energy dt (setV0 st m 0) = (1/2) * qV0 dt st m * x^2 - bV0 dt st m * x)
    ∧ v0Args dt st m = ⟨bV0 dt st m / qV0 dt st m, 1 / Real.sqrt (qV0 dt st m)⟩ :=
  ⟨fun x => block_V0 dt hw hp st m hm x, args_V0 dt hw hp st h m⟩

/-- `W[c]`: the `(Q, mu_part)` handed to `sample_mvn_from_precision` are the canonical parameters:
    `E(x) − E(0) = ½ xᵀQx − mu_partᵀx` -/
theorem C08_block_W (dt : Data ℝ) (st : State ℝ) (h : CacheOK dt st) (c : ℕ) (hc : c < dt.nC) (x : ℕ → ℝ) :
    energy dt (setW st c x) - energy dt (setW st c (fun _ => 0))
      = (1/2) * ∑ d ∈ range dt.D, ∑ e ∈ range dt.D, x d * (wBlk dt st c).Q st.prec d e * x e
        - ∑ d ∈ range dt.D, (wBlk dt st c).muPart dt.y st.Mu st.prec d * x d :=
  block_W dt st h c hc x

theorem C08_block_V2 (dt : Data ℝ) (hw : WellFormed dt) (hp : NoSelfPair dt) (st : State ℝ) (h : CacheOK dt st)
    (m : ℕ) (hm : m < dt.nT) (x : ℕ → ℝ) :
    energy dt (setV2 st m x) - energy dt (setV2 st m (fun _ => 0))
      = (1/2) * ∑ d ∈ range dt.D, ∑ e ∈ range dt.D, x d * (v2Blk dt st m).Q st.prec d e * x e
        - ∑ d ∈ range dt.D, (v2Blk dt st m).muPart dt.y st.Mu st.prec d * x d :=
  block_V2 dt hw hp st h m hm x

theorem C08_block_V1 (dt : Data ℝ) (hw : WellFormed dt) (hp : NoSelfPair dt) (st : State ℝ) (h : CacheOK dt st)
    (m : ℕ) (hm : m < dt.nT) (x : ℕ → ℝ) :
    energy dt (setV1 st m x) - energy dt (setV1 st m (fun _ => 0))
      = (1/2) * ∑ d ∈ range dt.D, ∑ e ∈ range dt.D, x d * (v1Blk dt st m).Q st.prec d e * x e
        - ∑ d ∈ range dt.D, (v1Blk dt st m).muPart dt.y st.Mu st.prec d * x d :=
  block_V1 dt hw hp st h m hm x

/-- the canonical form behind `C08_block_{W,V2,V1}`: for a block without self pairs, under the cache invariant in the
    form `Mu = base + ⟨design, cur⟩`, the code's `Q` is `prec·XᵀX + diag λ` and its `mu_part` is `prec·Xᵀ(y − base)`
    for the design rows `X` of the block -/
theorem C08_block_canonical (b : Blk ℝ) (hns : b.NoSelf) (y Mu base : ℕ → ℝ) (prec : ℝ)
    (hc : ∀ n, n < b.N → Mu n = base n + ∑ d ∈ range b.D, b.design n d * b.cur d) (d e : ℕ) :
    b.Q prec d e = prec * (∑ n ∈ range b.N, b.design n d * b.design n e) + (if d = e then b.lam d else 0)
    ∧ b.muPart y Mu prec d = prec * ∑ n ∈ range b.N, b.design n d * (y n - base n) :=
  ⟨b.Q_spec hns prec d e, b.muPart_spec hns y Mu base prec hc d⟩

/-! ## 4. intercept, bounds, order, export -/

/-- under the default `fake_intercept` the intercept is held at the mean of the transformed observations: that is
    its value after `_alpha_step` and still after the whole sweep (no later stage writes it); without observations
    it is left alone -/
theorem C08_alpha (dt : Data ℝ) (ω : Draws ℝ) (st : State ℝ) :
    (mcmcStep dt ω st).alpha = (alphaStep dt (reconstructMu dt st)).alpha
    ∧ (dt.N ≠ 0 → (alphaStep dt (reconstructMu dt st)).alpha = (∑ n ∈ range dt.N, dt.y n) / (dt.N : ℝ))
    ∧ (dt.N = 0 → (alphaStep dt (reconstructMu dt st)).alpha = st.alpha) := by
  refine ⟨sweep_alpha dt ω st, ?_, ?_⟩
  · intro h
    unfold alphaStep reconstructMu
    simp only [h, if_false]
    show alphaValue dt = _
    unfold alphaValue; rw [sumN_eq, natTo_eq]
  · intro h
    unfold alphaStep reconstructMu
    simp only [h, if_true]
    rfl

/-- after every sweep every precision lies in its documented clip range: `[1/√(1+N), 10⁶]` for
    `tau0, eta0, prec (N ≠ 0), eta2, eta1, tau`, and `[1/√(1+N1[m]+N2[m]), 10⁶]` for `phi0[m], phi2[m,·], phi1[m,·]`;
    in particular all of them are positive -/
theorem C08_bounds (dt : Data ℝ) (ω : Draws ℝ) (st : State ℝ) :
    InBounds dt (mcmcStep dt ω st)
    ∧ (0 < (mcmcStep dt ω st).tau0 ∧ (∀ m, 0 < (mcmcStep dt ω st).phi0 m * (mcmcStep dt ω st).eta0)
        ∧ (dt.N ≠ 0 → 0 < (mcmcStep dt ω st).prec)) := by
  have h := sweep_inBounds dt ω st
  have hN := natTo_nonneg dt.N
  refine ⟨h, inRange_pos _ _ hN h.tau0, fun m => ?_, fun hn => inRange_pos _ _ hN (h.prec hn)⟩
  exact mul_pos (inRange_pos _ _ (occ_nonneg dt m) (h.phi0 m)) (inRange_pos _ _ hN h.eta0)

/-- the precision matrix every vector block hands to `sample_mvn_from_precision` is positive definite whenever `prec ≥ 0` and
    the block's prior precisions are positive (`C08_bounds_pos`: true after every sweep) — so `N(Q⁻¹ mu_part, Q⁻¹)` is a
    proper law and the Cholesky factor of `C08_mvn` exists -/
theorem C08_block_Q_posdef (dt : Data ℝ) (hp : NoSelfPair dt) (st : State ℝ) (hprec : 0 ≤ st.prec) (c m : ℕ)
    (x : ℕ → ℝ) (hx : ∃ d, d < dt.D ∧ x d ≠ 0) :
    ((∀ d, d < dt.D → 0 < st.tau d) →
        0 < ∑ d ∈ range dt.D, ∑ e ∈ range dt.D, x d * (wBlk dt st c).Q st.prec d e * x e)
    ∧ ((∀ d, d < dt.D → 0 < st.phi2 m d * st.eta2 d) →
        0 < ∑ d ∈ range dt.D, ∑ e ∈ range dt.D, x d * (v2Blk dt st m).Q st.prec d e * x e)
    ∧ ((∀ d, d < dt.D → 0 < st.phi1 m d * st.eta1 d) →
        0 < ∑ d ∈ range dt.D, ∑ e ∈ range dt.D, x d * (v1Blk dt st m).Q st.prec d e * x e) :=
  ⟨fun h => (wBlk dt st c).Q_posdef (noSelf_wBlk dt st c) st.prec hprec h x hx,
   fun h => (v2Blk dt st m).Q_posdef (noSelf_v2Blk dt hp st m) st.prec hprec h x hx,
   fun h => (v1Blk dt st m).Q_posdef (noSelf_v1Blk dt hp st m) st.prec hprec h x hx⟩

/-- after every sweep all prior precisions of the vector blocks are positive (they lie in their clip ranges) -/
theorem C08_bounds_pos (dt : Data ℝ) (ω : Draws ℝ) (st : State ℝ) :
    (∀ d, 0 < (mcmcStep dt ω st).tau d)
    ∧ (∀ m d, 0 < (mcmcStep dt ω st).phi2 m d * (mcmcStep dt ω st).eta2 d)
    ∧ (∀ m d, 0 < (mcmcStep dt ω st).phi1 m d * (mcmcStep dt ω st).eta1 d) := by
  have h := sweep_inBounds dt ω st
  have hN := natTo_nonneg dt.N
  exact ⟨fun d => inRange_pos _ _ hN (h.tau d),
    fun m d => mul_pos (inRange_pos _ _ (occ_nonneg dt m) (h.phi2 m d)) (inRange_pos _ _ hN (h.eta2 d)),
    fun m d => mul_pos (inRange_pos _ _ (occ_nonneg dt m) (h.phi1 m d)) (inRange_pos _ _ hN (h.eta1 d))⟩

/-- the clip itself: whatever the gamma draw returned, the stored value is inside the range -/
theorem C08_bounds_clip (x n : ℝ) (hn : 0 ≤ n) :
    1 / Real.sqrt (1 + n) ≤ clip x (lowOf n) big ∧ clip x (lowOf n) big ≤ 1000000 :=
  clip_inRange x n hn

/-- a sweep visits `alpha, W0[0..], V0[0..], W[0..], V2[0..], V1[0..]`, then `tau0; phi0aux, phi0, eta0aux, eta0; prec;
    phi2aux, phi2, eta2aux, eta2; phi1aux, phi1, eta1aux, eta1; gam[0..]` — in this order, each exactly once,
    for every choice log (including failed multivariate draws) -/
theorem C08_order (dt : Data ℝ) (ω : Draws ℝ) (st : State ℝ) :
    (mcmcStep dt ω st).log.map (·.site) = st.log.map (·.site) ++ schedule dt.nC dt.nT dt.D
    ∧ (schedule dt.nC dt.nT dt.D).Nodup :=
  ⟨sites_sweep dt ω st, schedule_nodup _ _ _⟩

/-- what is logged for a Gaussian site is exactly the argument tuple the block theorems talk about -/
theorem C08_logged_args (dt : Data ℝ) (ω : Draws ℝ) (st : State ℝ) (c m : ℕ) :
    (w0Block dt ω c st).log = st.log ++ [⟨.W0 c, .normal, [(w0Args dt st c).mean, (w0Args dt st c).sd]⟩]
    ∧ (v0Block dt ω m st).log = st.log ++ [⟨.V0 m, .normal, [(v0Args dt st m).mean, (v0Args dt st m).sd]⟩]
    ∧ ((wBlk dt st c).has = true → (wBlock dt ω c st).log = st.log
        ++ [⟨.W c, .mvn, flatMat dt.D dt.D ((wBlk dt st c).Q st.prec) ++ flatVec dt.D ((wBlk dt st c).muPart dt.y st.Mu st.prec)⟩])
    ∧ ((v2Blk dt st m).has = true → (v2Block dt ω m st).log = st.log
        ++ [⟨.V2 m, .mvn, flatMat dt.D dt.D ((v2Blk dt st m).Q st.prec) ++ flatVec dt.D ((v2Blk dt st m).muPart dt.y st.Mu st.prec)⟩])
    ∧ ((v1Blk dt st m).has = true → (v1Block dt ω m st).log = st.log
        ++ [⟨.V1 m, .mvn, flatMat dt.D dt.D ((v1Blk dt st m).Q st.prec) ++ flatVec dt.D ((v1Blk dt st m).muPart dt.y st.Mu st.prec)⟩]) := by
  refine ⟨rfl, rfl, ?_, ?_, ?_⟩
  · intro h; unfold wBlock State.push; rw [wNext_log]; unfold Blk.record; rw [if_pos h]; rfl
  · intro h; unfold v2Block State.push; rw [v2Next_log]; unfold Blk.record; rw [if_pos h]; rfl
  · intro h; unfold v1Block State.push; rw [v1Next_log]; unfold Blk.record; rw [if_pos h]; rfl

/-- INSIDE a Gaussian stage: the loop over units is `iter`, unit `k` is resampled from the state the units `0..k-1` left
    (`iter (k+1) f s = f k (iter k f s)`), and the cache invariant holds between any two units — so the block theorems
    (`C08_block_*`, which assume `CacheOK` of the state the block starts from) apply to every unit with the CURRENT value
    of all other units, including those resampled earlier in the same loop -/
theorem C08_block_within_stage (dt : Data ℝ) (hw : WellFormed dt) (hp : NoSelfPair dt) (ω : Draws ℝ) (st : State ℝ)
    (h : CacheOK dt st) (k : ℕ) :
    (CacheOK dt (iter k (w0Block dt ω) st) ∧ CacheOK dt (iter k (v0Block dt ω) st) ∧ CacheOK dt (iter k (wBlock dt ω) st)
      ∧ CacheOK dt (iter k (v2Block dt ω) st) ∧ CacheOK dt (iter k (v1Block dt ω) st))
    ∧ iter (k + 1) (w0Block dt ω) st = w0Block dt ω k (iter k (w0Block dt ω) st)
    ∧ iter (k + 1) (v0Block dt ω) st = v0Block dt ω k (iter k (v0Block dt ω) st)
    ∧ iter (k + 1) (wBlock dt ω) st = wBlock dt ω k (iter k (wBlock dt ω) st)
    ∧ iter (k + 1) (v2Block dt ω) st = v2Block dt ω k (iter k (v2Block dt ω) st)
    ∧ iter (k + 1) (v1Block dt ω) st = v1Block dt ω k (iter k (v1Block dt ω) st) := by
  refine ⟨⟨?_, ?_, ?_, ?_, ?_⟩, rfl, rfl, rfl, rfl, rfl⟩
  · exact iter_induction (CacheOK dt) _ _ _ h (fun c _ t ht => cacheOK_push dt _ _ (cache_w0Next dt t ht c (ω.w0 c)))
  · exact iter_induction (CacheOK dt) _ _ _ h (fun m _ t ht => cacheOK_push dt _ _ (cache_v0Next dt hw hp t ht m (ω.v0 m)))
  · exact iter_induction (CacheOK dt) _ _ _ h (fun c _ t ht => cacheOK_push dt _ _ (cache_wNext dt t ht c (ω.w c)))
  · exact iter_induction (CacheOK dt) _ _ _ h (fun m _ t ht => cacheOK_push dt _ _ (cache_v2Next dt hw hp t ht m (ω.v2 m)))
  · exact iter_induction (CacheOK dt) _ _ _ h (fun m _ t ht => cacheOK_push dt _ _ (cache_v1Next dt hw hp t ht m (ω.v1 m)))

/-- a unit without data: `Q = diag λ`, `mu_part = 0` — the conditional is the prior `N(0, diag 1/λ)`, which is what
    the no-data branch draws (`normal(0, 1/√λ)`) -/
theorem C08_block_nodata (b : Blk ℝ) (h : b.has = false) (y Mu : ℕ → ℝ) (prec : ℝ) (d e : ℕ) :
    b.Q prec d e = (if d = e then b.lam d else 0) ∧ b.muPart y Mu prec d = 0
    ∧ b.record (.W 0) y Mu prec = ⟨.W 0, .normalVec, (0 : ℝ) :: flatVec b.D (fun d => 1 / Real.sqrt (b.lam d))⟩ := by
  have hh := h
  unfold Blk.has at h
  rw [Bool.or_eq_false_iff, anyN_false_iff, anyN_false_iff] at h
  have z1 : ∀ (f : ℕ → ℝ), ∑ n ∈ range b.N, (if b.s1 n = true then f n else 0) = 0 :=
    fun f => sum_eq_zero (fun n hn => by rw [h.1 n (mem_range.mp hn)]; simp)
  have z2 : ∀ (f : ℕ → ℝ), ∑ n ∈ range b.N, (if b.s2 n = true then f n else 0) = 0 :=
    fun f => sum_eq_zero (fun n hn => by rw [h.2 n (mem_range.mp hn)]; simp)
  refine ⟨?_, ?_, ?_⟩
  · unfold Blk.Q; simp only [sumN_eq, z1, z2]; split <;> simp
  · unfold Blk.muPart; simp only [sumN_eq, z1, z2]; simp
  · unfold Blk.record; rw [hh]; rfl

/-- the exported posterior sample reproduces, on the training rows, the fitted values implied by the current
    parameters — hence (cache invariant) the sampler's `Mu` after any sweep — and its variance is `1/prec` -/
theorem C08_export_reproduces (dt : Data ℝ) (hw : WellFormed dt) (hp : NoSelfPair dt) (ω : Draws ℝ) (st : State ℝ) :
    (∀ s : State ℝ, ∀ n, predict dt.D (exportState s) (dt.cline n) (dt.dd1 n) (dt.dd2 n) = mu dt s n)
    ∧ (∀ n, n < dt.N → predict dt.D (exportState (mcmcStep dt ω st)) (dt.cline n) (dt.dd1 n) (dt.dd2 n)
        = (mcmcStep dt ω st).Mu n)
    ∧ predictVariance (exportState (mcmcStep dt ω st)) = 1 / (mcmcStep dt ω st).prec := by
  refine ⟨fun _ _ => rfl, fun n hn => ?_, rfl⟩
  rw [(cache_sweep dt hw hp ω st).1 n hn]; rfl

/-! ## 5. conjugate precision blocks

  `L` stands for `log p` of the precision `p` being resampled (the identities hold for every real `L`).  Left-hand
  sides: the documented log-density of `p` given everything else — its `Gamma(a, rate b)` prior
  `(a−1)·log p − b·p` plus one factor `½·log p − ½·p·q` per Gaussian variable with precision `p·(…)`.
  Right-hand sides: the log-density of `Gamma(shape, rate)` with `shape` the code's first argument and
  `rate = 1/scale − ε`, `ε = 10⁻³` the documented stabiliser. -/

/-- observation noise `prec ~ Gamma(a0, b0)`, `y_n ~ N(mu_n, 1/prec)`; under the cache invariant the code's
    `sse` is the residual sum of squares of the current parameters -/
theorem C08_gamma_prec (dt : Data ℝ) (st : State ℝ) (h : CacheOK dt st) (hN : dt.N ≠ 0) (L p : ℝ) :
    (dt.a0 - 1) * L - dt.b0 * p + ∑ n ∈ range dt.N, ((1/2) * L - (1/2) * p * (dt.y n - mu dt st n)^2)
      = ((precArgs dt st).shape - 1) * L - (1 / (precArgs dt st).scale - eps) * p := by
  unfold precArgs
  simp only [hN, if_false, sumN_eq, natTo_eq, half_val, sqr]
  rw [rate_of_scale, gamma_conj]
  have : ∑ n ∈ range dt.N, (dt.y n - mu dt st n)^2 = ∑ n ∈ range dt.N, (dt.y n - st.Mu n) * (dt.y n - st.Mu n) :=
    sum_congr rfl (fun n hn => by rw [h n (mem_range.mp hn)]; ring)
  rw [this]

/-- without observations the draw is from the prior `Gamma(a0, rate b0)` (no stabiliser, no clip) -/
theorem C08_gamma_prec_nodata (dt : Data ℝ) (st : State ℝ) (hN : dt.N = 0) (L p : ℝ) :
    (dt.a0 - 1) * L - dt.b0 * p = ((precArgs dt st).shape - 1) * L - (1 / (precArgs dt st).scale) * p := by
  unfold precArgs
  simp only [hN, if_true, one_div_one_div]

/-- `tau0 ~ Gamma(a0, b0)`, `W0[c] ~ N(0, 1/tau0)` for the `nC` samples -/
theorem C08_gamma_tau0 (dt : Data ℝ) (st : State ℝ) (L p : ℝ) :
    (dt.a0 - 1) * L - dt.b0 * p + ∑ c ∈ range dt.nC, ((1/2) * L - (1/2) * p * st.W0 c ^ 2)
      = ((tau0Args dt st).shape - 1) * L - (1 / (tau0Args dt st).scale - eps) * p := by
  unfold tau0Args
  simp only [sumN_eq, natTo_eq, half_val, sqr, ← pow_two]
  rw [rate_of_scale, gamma_conj]

/-- local scale `phi0[m]`: `phi | aux ~ Gamma(½, rate aux)`, `V0[m] ~ N(0, 1/(phi·eta0))`; and its auxiliary
    `aux ~ Gamma(½, 1)`, `phi | aux ~ Gamma(½, rate aux)` (half-Cauchy scheme).  Shapes: `1.0` in the code. -/
theorem C08_gamma_phi0 (st : State ℝ) (aux : ℕ → ℝ) (m : ℕ) (L p : ℝ) :
    (((1/2 : ℝ) - 1) * L - aux m * p + ((1/2) * L - (1/2) * p * (st.eta0 * st.V0 m ^ 2))
        = ((1 : ℝ) - 1) * L - (1 / phi0Scale st aux m - eps) * p)
    ∧ (((1/2 : ℝ) - 1) * L - 1 * p + ((1/2) * L - p * st.phi0 m)
        = ((1 : ℝ) - 1) * L - (1 / phi0auxScale st m) * p) := by
  unfold phi0Scale phi0auxScale
  simp only [half_val, sqr]
  rw [rate_of_scale, one_div_one_div]
  constructor <;> ring

/-- global scale `eta0`: `eta | aux ~ Gamma(½, rate aux)`, `V0[m] ~ N(0, 1/(phi0[m]·eta))` for the `nT` treatments;
    and its auxiliary -/
theorem C08_gamma_eta0 (dt : Data ℝ) (st : State ℝ) (aux : ℝ) (L p : ℝ) :
    (((1/2 : ℝ) - 1) * L - aux * p + ∑ m ∈ range dt.nT, ((1/2) * L - (1/2) * p * (st.phi0 m * st.V0 m ^ 2))
        = ((eta0Args dt st aux).shape - 1) * L - (1 / (eta0Args dt st aux).scale - eps) * p)
    ∧ (((1/2 : ℝ) - 1) * L - 1 * p + ((1/2) * L - p * st.eta0)
        = ((1 : ℝ) - 1) * L - (1 / eta0auxScale st) * p) := by
  unfold eta0Args eta0auxScale
  simp only [sumN_eq, natTo_eq, half_val, sqr, ← pow_two]
  rw [rate_of_scale, one_div_one_div, gamma_conj]
  constructor <;> ring

/-- local scales of the embeddings (`_prec_V2_step` with `V = V2, phi = phi2, eta = eta2`; `_prec_V1_step` likewise) -/
theorem C08_gamma_phi (V phi : ℕ → ℕ → ℝ) (eta : ℕ → ℝ) (aux : ℕ → ℕ → ℝ) (m d : ℕ) (L p : ℝ) :
    (((1/2 : ℝ) - 1) * L - aux m d * p + ((1/2) * L - (1/2) * p * (eta d * V m d ^ 2))
        = ((1 : ℝ) - 1) * L - (1 / phiScale V eta aux m d - eps) * p)
    ∧ (((1/2 : ℝ) - 1) * L - 1 * p + ((1/2) * L - p * phi m d)
        = ((1 : ℝ) - 1) * L - (1 / phiAuxScale phi m d) * p) := by
  unfold phiScale phiAuxScale
  simp only [half_val, sqr]
  rw [rate_of_scale, one_div_one_div]
  constructor <;> ring

/-- per-dimension scales `eta2[d]` / `eta1[d]` -/
theorem C08_gamma_eta (dt : Data ℝ) (V phi : ℕ → ℕ → ℝ) (eta aux : ℕ → ℝ) (d : ℕ) (L p : ℝ) :
    (((1/2 : ℝ) - 1) * L - aux d * p + ∑ m ∈ range dt.nT, ((1/2) * L - (1/2) * p * (phi m d * V m d ^ 2))
        = (etaShape dt - 1) * L - (1 / etaScale dt V phi aux d - eps) * p)
    ∧ (((1/2 : ℝ) - 1) * L - 1 * p + ((1/2) * L - p * eta d)
        = ((1 : ℝ) - 1) * L - (1 / etaAuxScale eta d) * p) := by
  unfold etaShape etaScale etaAuxScale
  simp only [sumN_eq, natTo_eq, half_val, sqr, ← pow_two]
  rw [rate_of_scale, one_div_one_div, gamma_conj]
  constructor <;> ring

/-- multiplicative gamma process: `tau_e = Π_{l≤e} gam_l`, `W[c,e] ~ N(0, 1/tau_e)`, `gam_0 ~ Gamma(2,1)`,
    `gam_d ~ Gamma(3,1)`.  As a function of the new value `p` of `gam_d` (with `L = log p`, and `Lr e` the log of the
    other factors of `tau_e`), the log-density is that of `Gamma(shape, rate 1/scale − ε)` up to a term free of `p`.
    The `tau_e` on the left is the actual cumulative product with `gam_d := p`; the code's `cumprod(gam)/gam[d]`
    needs `gam_d ≠ 0`. -/
theorem C08_gamma_gam (dt : Data ℝ) (W : ℕ → ℕ → ℝ) (g : ℕ → ℝ) (d : ℕ) (hg : g d ≠ 0) (L p : ℝ) (Lr : ℕ → ℝ) :
    ((if d = 0 then (2 : ℝ) else 3) - 1) * L - 1 * p
        + ∑ c ∈ range dt.nC, ∑ e ∈ range dt.D,
            (if d ≤ e then (1/2) * (L + Lr e) - (1/2) * cumprod (upd g d p) e * W c e ^ 2 else 0)
      = ((gamArgs dt W g d).shape - 1) * L - (1 / (gamArgs dt W g d).scale - eps) * p
        + ∑ _c ∈ range dt.nC, ∑ e ∈ range dt.D, (if d ≤ e then (1/2) * Lr e else 0) := by
  unfold gamArgs
  simp only [sumN_eq, natTo_eq, half_val, sqr]
  rw [rate_of_scale]
  have hterm : ∀ c e, (if d ≤ e then (1/2) * (L + Lr e) - (1/2) * cumprod (upd g d p) e * W c e ^ 2 else 0)
      = (if d ≤ e then (1/2) * L else 0) + (if d ≤ e then (1/2) * Lr e else 0)
        - (1/2) * p * (if d ≤ e then cumprod g e / g d * (W c e * W c e) else 0) := by
    intro _ e
    by_cases h : d ≤ e
    · simp only [h, if_true]; rw [cumprod_upd g d e p h hg]; ring
    · simp only [h, if_false]; ring
  simp only [hterm, sum_add_distrib, sum_sub_distrib, ← mul_sum, sum_ite_ge_const, sum_const, card_range,
    nsmul_eq_mul]
  by_cases h0 : d = 0
  · subst h0; simp only [if_true, Nat.sub_zero]; ring
  · simp only [h0, if_false]; ring

/-- after `_prec_W_step`: `gam[d]` holds the drawn values and `tau = clip(cumprod(gam))` -/
theorem C08_tau_cumprod (dt : Data ℝ) (ω : Draws ℝ) (st : State ℝ) (d : ℕ) :
    (precWStep dt ω st).tau d = clip (cumprod (precWStep dt ω st).gam d) (lowOf (natTo dt.N)) big
    ∧ (d < dt.D → (precWStep dt ω st).gam d = ω.gam d) := by
  refine ⟨rfl, fun hd => ?_⟩
  show (iter dt.D (gamBlock dt ω) st).gam d = ω.gam d
  have : ∀ n, d < n → (iter n (gamBlock dt ω) st).gam d = ω.gam d := by
    intro n
    induction n with
    | zero => intro h; omega
    | succ k ih =>
      intro h
      rw [iter]
      show upd (iter k (gamBlock dt ω) st).gam k (ω.gam k) d = ω.gam d
      by_cases hk : d = k
      · subst hk; exact upd_same _ _ _
      · rw [upd_other _ _ _ _ hk]; exact ih (by omega)
  exact this dt.D hd

/-- a choice log (all draws 0, multivariate draws failed) used by the concrete witnesses -/
def spDraws : Draws ℝ :=
  { w0 := fun _ => 0, v0 := fun _ => 0, w := fun _ => none, v2 := fun _ => none, v1 := fun _ => none, tau0 := 0,
    phi0aux := fun _ => 0, phi0 := fun _ => 0, eta0aux := 0, eta0 := 0, prec := 0, phi2aux := fun _ _ => 0,
    phi2 := fun _ _ => 0, eta2aux := fun _ => 0, eta2 := fun _ => 0, phi1aux := fun _ _ => 0, phi1 := fun _ _ => 0,
    eta1aux := fun _ => 0, eta1 := fun _ => 0, gam := fun _ => 0 }
/-! ## 5b. the precision stages AS THE SWEEP RUNS THEM

  Sections 5's identities are about the argument functions (`phiScale V eta aux`, `gamArgs dt W g`, …) for arbitrary
  arrays.  The theorems below are about the stage functions of `mcmcStep` (the definitions the correspondence driver
  executes): they say WHICH arrays every gamma draw of the sweep is computed from — the CURRENT value of every other
  block at the moment of the draw — and restate the conjugacy identity with exactly those arrays on the documented
  side.  (A model that used `eta2` in `_prec_V1_step`, last sweep's `phi` in the `eta` draw, or a cumulative product of
  the gamma-process factors computed once before the loop over `d`, would falsify them.) -/

/-- the sweep is the composition of the thirteen stages in the order of `mcmc_step`; every stage theorem below holds for
    an arbitrary input state, hence for the state the preceding stages produced -/
theorem C08_sweep_stages (dt : Data ℝ) (ω : Draws ℝ) (st : State ℝ) :
    mcmcStep dt ω st = precWStep dt ω (precV1Step dt ω (precV2Step dt ω (precObsStep dt ω (precV0Step dt ω
      (precW0Step dt ω (v1Step dt ω (v2Step dt ω (wStep dt ω (v0Step dt ω (w0Step dt ω
        (alphaStep dt (reconstructMu dt st)))))))))))) := rfl

/-- `_prec_W0_step` logs `tau0Args` of its input state (`W0` as left by this sweep's `_W0_step`) and stores the clipped draw -/
theorem C08_gamma_tau0_stage (dt : Data ℝ) (ω : Draws ℝ) (st : State ℝ) :
    (precW0Step dt ω st).log = st.log ++ [⟨.tau0, .gamma, [(tau0Args dt st).shape, (tau0Args dt st).scale]⟩]
    ∧ (precW0Step dt ω st).tau0 = clip ω.tau0 (lowOf (natTo dt.N)) big :=
  ⟨rfl, rfl⟩

/-- `_prec_obs_step` logs `precArgs` of its input state: the residuals are taken against the CURRENT cache `Mu`
    (= `mu` of the current parameters by `C08_gamma_prec`'s hypothesis `CacheOK`, which `C08_mu_cache_sweep` provides) -/
theorem C08_gamma_prec_stage (dt : Data ℝ) (ω : Draws ℝ) (st : State ℝ) :
    (precObsStep dt ω st).log = st.log ++ [⟨.prec, .gamma, [(precArgs dt st).shape, (precArgs dt st).scale]⟩]
    ∧ (dt.N ≠ 0 → (precObsStep dt ω st).prec = clip ω.prec (lowOf (natTo dt.N)) big)
    ∧ (dt.N = 0 → (precObsStep dt ω st).prec = ω.prec) := by
  refine ⟨rfl, fun h => ?_, fun h => ?_⟩
  · show (if dt.N = 0 then ω.prec else clip ω.prec (lowOf (natTo dt.N)) big) = _
    rw [if_neg h]
  · show (if dt.N = 0 then ω.prec else clip ω.prec (lowOf (natTo dt.N)) big) = _
    rw [if_pos h]

/-- `_prec_V0_step`: four draws.  `phiaux0` from the old `phi0`; `phi0` from `phiaux0`, the current `eta0` and `V0`;
    `etaaux0` from the current (old) `eta0`; `eta0` from `etaaux0`, `V0` and the NEW (clipped) `phi0`. -/
theorem C08_gamma_V0_stage (dt : Data ℝ) (ω : Draws ℝ) (st : State ℝ) :
    (precV0Step dt ω st).log = st.log ++
        [⟨.phi0aux, .gamma, (1 : ℝ) :: flatVec dt.nT (phi0auxScale st)⟩,
         ⟨.phi0, .gamma, (1 : ℝ) :: flatVec dt.nT (phi0Scale st ω.phi0aux)⟩,
         ⟨.eta0aux, .gamma, [1, eta0auxScale st]⟩,
         ⟨.eta0, .gamma, [(eta0Args dt (precV0Step dt ω st) ω.eta0aux).shape,
                          (eta0Args dt (precV0Step dt ω st) ω.eta0aux).scale]⟩]
    ∧ (precV0Step dt ω st).phi0 = (fun m => clip (ω.phi0 m) (lowOf (occ dt m)) big)
    ∧ (precV0Step dt ω st).eta0 = clip ω.eta0 (lowOf (natTo dt.N)) big
    ∧ (precV0Step dt ω st).V0 = st.V0
    ∧ (∀ L p : ℝ, ((1/2 : ℝ) - 1) * L - ω.eta0aux * p
          + ∑ m ∈ range dt.nT, ((1/2) * L - (1/2) * p * (clip (ω.phi0 m) (lowOf (occ dt m)) big * st.V0 m ^ 2))
        = ((eta0Args dt (precV0Step dt ω st) ω.eta0aux).shape - 1) * L
          - (1 / (eta0Args dt (precV0Step dt ω st) ω.eta0aux).scale - eps) * p) := by
  refine ⟨?_, rfl, rfl, rfl, fun L p => ?_⟩
  · simp only [precV0Step, State.push, List.append_assoc, List.cons_append, List.nil_append]
    rfl
  · exact (C08_gamma_eta0 dt (precV0Step dt ω st) ω.eta0aux L p).1

/-- `_prec_V2_step`: `phiaux2` from the old `phi2`; `phi2[m,d]` from `phiaux2`, `eta2` (not yet redrawn) and `V2`;
    `etaaux2` from the old `eta2`; `eta2[d]` from `etaaux2`, `V2` and the NEW (clipped) `phi2`.  The conjugacy identities
    are restated with the state's own `V2`, `eta2` and the new `phi2` on the documented side. -/
theorem C08_gamma_V2_stage (dt : Data ℝ) (ω : Draws ℝ) (st : State ℝ) :
    (precV2Step dt ω st).log = st.log ++
        [⟨.phi2aux, .gamma, (1 : ℝ) :: flatMat dt.nT dt.D (phiAuxScale st.phi2)⟩,
         ⟨.phi2, .gamma, (1 : ℝ) :: flatMat dt.nT dt.D (phiScale st.V2 st.eta2 ω.phi2aux)⟩,
         ⟨.eta2aux, .gamma, (1 : ℝ) :: flatVec dt.D (etaAuxScale st.eta2)⟩,
         ⟨.eta2, .gamma, etaShape dt :: flatVec dt.D (etaScale dt st.V2 (precV2Step dt ω st).phi2 ω.eta2aux)⟩]
    ∧ (precV2Step dt ω st).phi2 = (fun m d => clip (ω.phi2 m d) (lowOf (occ dt m)) big)
    ∧ (precV2Step dt ω st).eta2 = (fun d => clip (ω.eta2 d) (lowOf (natTo dt.N)) big)
    ∧ (∀ m d (L p : ℝ), ((1/2 : ℝ) - 1) * L - ω.phi2aux m d * p + ((1/2) * L - (1/2) * p * (st.eta2 d * st.V2 m d ^ 2))
        = ((1 : ℝ) - 1) * L - (1 / phiScale st.V2 st.eta2 ω.phi2aux m d - eps) * p)
    ∧ (∀ d (L p : ℝ), ((1/2 : ℝ) - 1) * L - ω.eta2aux d * p
          + ∑ m ∈ range dt.nT, ((1/2) * L - (1/2) * p * (clip (ω.phi2 m d) (lowOf (occ dt m)) big * st.V2 m d ^ 2))
        = (etaShape dt - 1) * L - (1 / etaScale dt st.V2 (precV2Step dt ω st).phi2 ω.eta2aux d - eps) * p) := by
  refine ⟨?_, rfl, rfl, fun m d L p => ?_, fun d L p => ?_⟩
  · simp only [precV2Step, State.push, List.append_assoc, List.cons_append, List.nil_append]
  · exact (C08_gamma_phi st.V2 st.phi2 st.eta2 ω.phi2aux m d L p).1
  · exact (C08_gamma_eta dt st.V2 (precV2Step dt ω st).phi2 st.eta2 ω.eta2aux d L p).1

/-- `_prec_V1_step`: the same with `V1`, `phi1`, `eta1` — and none of `V2`, `phi2`, `eta2` -/
theorem C08_gamma_V1_stage (dt : Data ℝ) (ω : Draws ℝ) (st : State ℝ) :
    (precV1Step dt ω st).log = st.log ++
        [⟨.phi1aux, .gamma, (1 : ℝ) :: flatMat dt.nT dt.D (phiAuxScale st.phi1)⟩,
         ⟨.phi1, .gamma, (1 : ℝ) :: flatMat dt.nT dt.D (phiScale st.V1 st.eta1 ω.phi1aux)⟩,
         ⟨.eta1aux, .gamma, (1 : ℝ) :: flatVec dt.D (etaAuxScale st.eta1)⟩,
         ⟨.eta1, .gamma, etaShape dt :: flatVec dt.D (etaScale dt st.V1 (precV1Step dt ω st).phi1 ω.eta1aux)⟩]
    ∧ (precV1Step dt ω st).phi1 = (fun m d => clip (ω.phi1 m d) (lowOf (occ dt m)) big)
    ∧ (precV1Step dt ω st).eta1 = (fun d => clip (ω.eta1 d) (lowOf (natTo dt.N)) big)
    ∧ (∀ m d (L p : ℝ), ((1/2 : ℝ) - 1) * L - ω.phi1aux m d * p + ((1/2) * L - (1/2) * p * (st.eta1 d * st.V1 m d ^ 2))
        = ((1 : ℝ) - 1) * L - (1 / phiScale st.V1 st.eta1 ω.phi1aux m d - eps) * p)
    ∧ (∀ d (L p : ℝ), ((1/2 : ℝ) - 1) * L - ω.eta1aux d * p
          + ∑ m ∈ range dt.nT, ((1/2) * L - (1/2) * p * (clip (ω.phi1 m d) (lowOf (occ dt m)) big * st.V1 m d ^ 2))
        = (etaShape dt - 1) * L - (1 / etaScale dt st.V1 (precV1Step dt ω st).phi1 ω.eta1aux d - eps) * p) := by
  refine ⟨?_, rfl, rfl, fun m d L p => ?_, fun d L p => ?_⟩
  · simp only [precV1Step, State.push, List.append_assoc, List.cons_append, List.nil_append]
  · exact (C08_gamma_phi st.V1 st.phi1 st.eta1 ω.phi1aux m d L p).1
  · exact (C08_gamma_eta dt st.V1 (precV1Step dt ω st).phi1 st.eta1 ω.eta1aux d L p).1

/-- `_prec_W_step`, the multiplicative gamma process.  When `gam[d]` is drawn the factors are
    `gamCur ω st d = (ω.gam 0, …, ω.gam (d-1), st.gam d, st.gam (d+1), …)`: THIS sweep's draws below `d`, the previous values
    from `d` on.  The arguments logged for `gam[d]` are `gamArgs` of `W` (as left by this sweep's `_W_step`) and of that
    CURRENT factor vector — i.e. `cumprod(gam)[d:] / gam[d]` is recomputed inside the loop — and they are the conjugate
    parameters of the documented conditional in which `tau_e` is the cumulative product of the current factors with
    `gam[d]` replaced by the new value `p`.  After the loop `gam = gamCur ω st D` and `tau = clip(cumprod(gam))`. -/
theorem C08_gamma_gam_sweep (dt : Data ℝ) (ω : Draws ℝ) (st : State ℝ) :
    (precWStep dt ω st).log = st.log ++ (List.range dt.D).map (fun d =>
        (⟨.gam d, .gamma, [(gamArgs dt st.W (gamCur ω st d) d).shape, (gamArgs dt st.W (gamCur ω st d) d).scale]⟩ : Rec ℝ))
    ∧ (precWStep dt ω st).gam = gamCur ω st dt.D
    ∧ (∀ e, (precWStep dt ω st).tau e = clip (cumprod (gamCur ω st dt.D) e) (lowOf (natTo dt.N)) big)
    ∧ (∀ d, st.gam d ≠ 0 → ∀ (L p : ℝ) (Lr : ℕ → ℝ),
        ((if d = 0 then (2 : ℝ) else 3) - 1) * L - 1 * p
          + ∑ c ∈ range dt.nC, ∑ e ∈ range dt.D,
              (if d ≤ e then (1/2) * (L + Lr e) - (1/2) * cumprod (upd (gamCur ω st d) d p) e * st.W c e ^ 2 else 0)
        = ((gamArgs dt st.W (gamCur ω st d) d).shape - 1) * L - (1 / (gamArgs dt st.W (gamCur ω st d) d).scale - eps) * p
          + ∑ _c ∈ range dt.nC, ∑ e ∈ range dt.D, (if d ≤ e then (1/2) * Lr e else 0)) := by
  refine ⟨precW_log dt ω st, precW_gam dt ω st, fun e => ?_, fun d hd L p Lr => ?_⟩
  · show clip (cumprod (iter dt.D (gamBlock dt ω) st).gam e) _ _ = _
    rw [(gamIter_spec dt ω st dt.D).1]
  · have hg : gamCur ω st d d ≠ 0 := by
      unfold gamCur; rw [if_neg (lt_irrefl d)]; exact hd
    exact C08_gamma_gam dt st.W (gamCur ω st d) d hg L p Lr

/-- the dependence on the CURRENT cumulative product is real: with three factors, the conjugate rate of `gam[2]` computed
    from the current factors (`gam[1]` already redrawn to 2) differs from the one computed from a cumulative product taken
    before the loop (`gam[1]` still 1) -/
theorem C08_gamma_gam_current_not_stale :
    let dt : Data ℝ := { nC := 1, nT := 0, D := 3, N := 0, y := fun _ => 0, cline := fun _ => 0, dd1 := fun _ => -1,
                          dd2 := fun _ => -1, a0 := 1, b0 := 1 }
    let ω : Draws ℝ := { spDraws with gam := fun l => if l = 1 then 2 else 1 }
    (gamArgs dt spState.W (gamCur ω spState 2) 2).scale ≠ (gamArgs dt spState.W spState.gam 2).scale := by
  intro dt ω
  have h1 : (gamArgs dt spState.W (gamCur ω spState 2) 2).scale = 1 / (1 + 1/2 * 2 + 1/1000) := by
    simp [gamArgs, gamCur, cumprod, prodN, sumN, sqr, spState, half, eps, dt, ω]
  have h2 : (gamArgs dt spState.W spState.gam 2).scale = 1 / (1 + 1/2 * 1 + 1/1000) := by
    simp [gamArgs, cumprod, prodN, sumN, sqr, spState, half, eps, dt]
  rw [h1, h2]
  norm_num

/-! ## 6. the multivariate normal draw

  `sample_mvn_from_precision(Q, mu_part = b)` computes `U = cholesky(Q)ᵀ` and returns
  `solve_triangular(U, z) + cho_solve(U, b)`.  For an upper-triangular `U` with non-zero diagonal the model's two
  triangular solves are proved to solve their systems, so the map applied to the standard normal vector `z` is
  `z ↦ U⁻¹ z + (UᵀU)⁻¹ b` (Mathlib's matrix inverse), and `U⁻¹ U⁻ᵀ = (UᵀU)⁻¹`: mean `Q⁻¹b`, covariance `Q⁻¹`
  once `UᵀU = Q`.  That `cholesky` returns such a factor is the contract of numpy's routine (trusted base; the model's
  `chol` is tied to it by the correspondence run only). -/

theorem C08_mvn (D : ℕ) (U : ℕ → ℕ → ℝ) (b z : ℕ → ℝ) (hU : UpperTri D U) (hdiag : ∀ i, i < D → U i i ≠ 0) :
    toVec D (mvnMap D U b z) = (toMat D U)⁻¹ *ᵥ toVec D z + ((toMat D U)ᵀ * toMat D U)⁻¹ *ᵥ toVec D b
    ∧ (toMat D U)⁻¹ * ((toMat D U)⁻¹)ᵀ = ((toMat D U)ᵀ * toMat D U)⁻¹
    ∧ ((toMat D U)ᵀ * toMat D U) * ((toMat D U)ᵀ * toMat D U)⁻¹ = 1 := by
  refine ⟨mvnMap_eq D U b z hU hdiag, ?_, ?_⟩
  · rw [Matrix.mul_inv_rev, transpose_nonsing_inv]
  · have hdet := det_toMat_ne_zero D U hU hdiag
    apply mul_nonsing_inv
    rw [det_mul, det_transpose]
    exact isUnit_iff_ne_zero.mpr (mul_ne_zero hdet hdet)

/-- the same for `sampleMvn` (which factors `Q` itself), under the Cholesky contract -/
theorem C08_mvn_sample (D : ℕ) (Q : ℕ → ℕ → ℝ) (b z : ℕ → ℝ) (hU : UpperTri D (chol D Q))
    (hdiag : ∀ i, i < D → chol D Q i i ≠ 0) (hchol : (toMat D (chol D Q))ᵀ * toMat D (chol D Q) = toMat D Q) :
    toVec D (sampleMvn D Q b z) = (toMat D (chol D Q))⁻¹ *ᵥ toVec D z + (toMat D Q)⁻¹ *ᵥ toVec D b
    ∧ (toMat D (chol D Q))⁻¹ * ((toMat D (chol D Q))⁻¹)ᵀ = (toMat D Q)⁻¹ := by
  have h := C08_mvn D (chol D Q) b z hU hdiag
  rw [hchol] at h
  exact ⟨h.1, h.2.1⟩

/-! ## 7. reachable states: the side conditions of the block theorems hold whenever a block is resampled -/

/-- the state built by `__init__`: every precision positive and inside its documented range -/
theorem C08_init_state (dt : Data ℝ) : PosState initState ∧ InBounds dt initState :=
  ⟨posState_init, inBounds_init dt⟩

/-- along every history from `__init__` (or from any state with positive precisions) every precision is positive at the
    start of every sweep.  With observations this needs nothing about the draws (clip ranges); without observations `prec`
    is the raw gamma draw, so that draw must be positive (a gamma variate is). -/
theorem C08_reachable_pos (dt : Data ℝ) (ωs : List (Draws ℝ)) (st : State ℝ) (h0 : PosState st)
    (hprec : dt.N ≠ 0 ∨ ∀ ω ∈ ωs, 0 < ω.prec) :
    PosState (runSweeps dt ωs st) ∧ PosState (runSweeps dt ωs initState) :=
  ⟨posState_history dt ωs st h0 hprec, posState_history dt ωs initState posState_init hprec⟩

/-- no Gaussian block writes a hyper-parameter: after any number of units of any of the five loops, and after each Gaussian
    stage of a sweep, `prec, tau0, phi0, eta0, tau, phi2, eta2, phi1, eta1, gam` are those the sweep started with -/
theorem C08_gauss_keeps_hyper (dt : Data ℝ) (ω : Draws ℝ) (st : State ℝ) (k : ℕ) :
    (SameHyper st (iter k (w0Block dt ω) st) ∧ SameHyper st (iter k (v0Block dt ω) st)
      ∧ SameHyper st (iter k (wBlock dt ω) st) ∧ SameHyper st (iter k (v2Block dt ω) st)
      ∧ SameHyper st (iter k (v1Block dt ω) st))
    ∧ SameHyper st (gaussPart dt ω st) :=
  ⟨sameHyper_iters dt ω st k, (sameHyper_gauss dt ω st).2.2.2.2.2⟩

/-- EVERY state in which a Gaussian block is resampled during the sweep that follows a reachable state `s` (unit `k` of each
    of the five loops) satisfies the cache invariant and has positive precisions — the hypotheses of `C08_block_W0/V0` and of
    `C08_block_W/V2/V1`, `C08_block_Q_posdef` are discharged for reachable states -/
theorem C08_reachable_gauss_states (dt : Data ℝ) (hw : WellFormed dt) (hp : NoSelfPair dt) (ω : Draws ℝ) (s : State ℝ)
    (hs : PosState s) (k : ℕ) :
    let s1 := alphaStep dt (reconstructMu dt s)
    let s2 := w0Step dt ω s1
    let s3 := v0Step dt ω s2
    let s4 := wStep dt ω s3
    let s5 := v2Step dt ω s4
    (CacheOK dt (iter k (w0Block dt ω) s1) ∧ PosState (iter k (w0Block dt ω) s1))
    ∧ (CacheOK dt (iter k (v0Block dt ω) s2) ∧ PosState (iter k (v0Block dt ω) s2))
    ∧ (CacheOK dt (iter k (wBlock dt ω) s3) ∧ PosState (iter k (wBlock dt ω) s3))
    ∧ (CacheOK dt (iter k (v2Block dt ω) s4) ∧ PosState (iter k (v2Block dt ω) s4))
    ∧ (CacheOK dt (iter k (v1Block dt ω) s5) ∧ PosState (iter k (v1Block dt ω) s5)) := by
  intro s1 s2 s3 s4 s5
  obtain ⟨g1, g2, g3, g4, g5, -⟩ := sameHyper_gauss dt ω s
  have c1 : CacheOK dt s1 := cache_alpha dt _ (cache_reconstruct dt s)
  have c2 : CacheOK dt s2 := cache_w0Step dt ω s1 c1
  have c3 : CacheOK dt s3 := cache_v0Step dt hw hp ω s2 c2
  have c4 : CacheOK dt s4 := cache_wStep dt ω s3 c3
  have c5 : CacheOK dt s5 := cache_v2Step dt hw hp ω s4 c4
  have p := fun (t : State ℝ) (g : SameHyper s t) => posState_of_sameHyper g hs
  refine ⟨⟨(C08_block_within_stage dt hw hp ω s1 c1 k).1.1, ?_⟩, ⟨(C08_block_within_stage dt hw hp ω s2 c2 k).1.2.1, ?_⟩,
    ⟨(C08_block_within_stage dt hw hp ω s3 c3 k).1.2.2.1, ?_⟩, ⟨(C08_block_within_stage dt hw hp ω s4 c4 k).1.2.2.2.1, ?_⟩,
    ⟨(C08_block_within_stage dt hw hp ω s5 c5 k).1.2.2.2.2, ?_⟩⟩
  · exact p _ (sameHyper_trans g1 (sameHyper_iters dt ω s1 k).1)
  · exact p _ (sameHyper_trans g2 (sameHyper_iters dt ω s2 k).2.1)
  · exact p _ (sameHyper_trans g3 (sameHyper_iters dt ω s3 k).2.2.1)
  · exact p _ (sameHyper_trans g4 (sameHyper_iters dt ω s4 k).2.2.2.1)
  · exact p _ (sameHyper_trans g5 (sameHyper_iters dt ω s5 k).2.2.2.2)

/-! ## 8. the Cholesky factorisation of the model is correct -/

/-- for EVERY size `D`: if `Q` is symmetric and the pivots `Q i i − Σ_{k<i} U k i²` of the factorisation are positive (the
    condition under which it goes through; numpy raises `LinAlgError` otherwise and the block keeps its value), the executable
    `chol D Q` is upper triangular with positive diagonal and `UᵀU = Q` -/
theorem C08_chol_correct (D : ℕ) (Q : ℕ → ℕ → ℝ) (hsym : ∀ i j, i < D → j < D → Q i j = Q j i)
    (hpiv : ∀ i, i < D → 0 < pivot Q (chol D Q) i) :
    UpperTri D (chol D Q) ∧ (∀ i, i < D → 0 < chol D Q i i)
      ∧ (∀ i j, i < D → j < D → ∑ k ∈ range D, chol D Q k i * chol D Q k j = Q i j)
      ∧ (toMat D (chol D Q))ᵀ * toMat D (chol D Q) = toMat D Q := by
  have h := chol_ok D Q hsym hpiv
  exact ⟨h.upper, h.diag_pos, h.gram, (cholOK_matrix D Q _ h).2⟩

/-- `sample_mvn_from_precision` as modelled, with the Cholesky contract DISCHARGED: the result is `U⁻¹ z + Q⁻¹ b` with
    `U⁻¹ U⁻ᵀ = Q⁻¹` -/
theorem C08_mvn_sample_chol (D : ℕ) (Q : ℕ → ℕ → ℝ) (b z : ℕ → ℝ) (hsym : ∀ i j, i < D → j < D → Q i j = Q j i)
    (hpiv : ∀ i, i < D → 0 < pivot Q (chol D Q) i) :
    toVec D (sampleMvn D Q b z) = (toMat D (chol D Q))⁻¹ *ᵥ toVec D z + (toMat D Q)⁻¹ *ᵥ toVec D b
    ∧ (toMat D (chol D Q))⁻¹ * ((toMat D (chol D Q))⁻¹)ᵀ = (toMat D Q)⁻¹ := by
  have h := chol_ok D Q hsym hpiv
  exact C08_mvn_sample D Q b z h.upper (cholOK_matrix D Q _ h).1 (cholOK_matrix D Q _ h).2

/-- symbolic positive definite input of size 1 and 2 (`q00 > 0`, `det > 0`) has positive pivots -/
theorem C08_chol_pivots_small (Q : ℕ → ℕ → ℝ) (h0 : 0 < Q 0 0) :
    (∀ i, i < 1 → 0 < pivot Q (chol 1 Q) i)
    ∧ (0 < Q 0 0 * Q 1 1 - Q 0 1 * Q 0 1 → ∀ i, i < 2 → 0 < pivot Q (chol 2 Q) i) :=
  ⟨pivots_1x1 Q h0, fun hdet => pivots_2x2 Q h0 hdet⟩

example : ∃ Q : ℕ → ℕ → ℝ, (∀ i j, i < 2 → j < 2 → Q i j = Q j i) ∧ ∀ i, i < 2 → 0 < pivot Q (chol 2 Q) i :=
  ⟨fun i j => if i = j then 2 else 1, fun i j _ _ => by by_cases h : i = j <;> simp [h, eq_comm],
    pivots_2x2 _ (by norm_num) (by norm_num)⟩

/-! ## non-vacuity of the hypotheses -/

/-- a combination row, a single-agent row and an all-control row -/
def exData : Data ℝ :=
  { nC := 2, nT := 2, D := 2, N := 3, y := fun n => n, cline := fun n => n % 2,
    dd1 := fun n => if n = 0 then 0 else if n = 1 then 1 else -1,
    dd2 := fun n => if n = 0 then 1 else -1, a0 := 1, b0 := 1 }

example : WellFormed exData ∧ NoSelfPair exData := by
  constructor
  · intro n hn
    have : n < 3 := hn
    match n, this with
    | 0, _ => simp [exData]
    | 1, _ => simp [exData]
    | 2, _ => simp [exData]
  · intro n hn
    have : n < 3 := hn
    match n, this with
    | 0, _ => simp [exData]
    | 1, _ => simp [exData]
    | 2, _ => simp [exData]

example : CacheOK exData (reconstructMu exData spState) ∧ 0 ≤ spState.prec ∧ 0 < spState.tau0 :=
  ⟨cache_reconstruct _ _, by norm_num [spState], by norm_num [spState]⟩

example : UpperTri 2 (fun i j => if i ≤ j then 1 else 0) ∧ ∀ i, i < 2 → (fun i j : ℕ => if i ≤ j then (1 : ℝ) else 0) i i ≠ 0 := by
  constructor
  · intro i j _ hji; simp; omega
  · intro i _; simp

end Batchie.Props.C08
