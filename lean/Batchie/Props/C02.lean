/-
  C02 -- Screen and experiment-space persistence is lossless.

  Model: `Screen.mk?` (= `Screen.__init__`), `Screen.save` / `load` (= `save_h5` / `load_h5` as a record of
  tables, Model/Screen.lean), the byte-level file `saveB` / `loadB` with numpy `S<w>` string tables and a strict
  UTF-8 codec, and `Space` (= `ExperimentSpace`) in Model/Persist.lean.  Tied to /repo by harness/c02.py.

  Known finding `C02:zero-row-screen`: a zero-row screen saves but does not load (`np.char.decode` on the
  float64 dataset h5py writes for an empty string array raises `TypeError`).  The model does what the code does,
  so `C02_load_save` carries the explicit hypothesis "at least one row, at least one treatment column" and the
  negative fact is proved as `C02_zero_row_not_loadable`.

  Modelled, not verified: that h5py/HDF5/gzip return the bytes, float64 / int64 / bool datasets and the string
  attribute they were given.

  CLAUSE MAP (property text -> theorem)
  1. "Saving any screen and loading it back yields a screen equal in every observable: treatment names and doses, sample and
     plate names, observation values bit-for-bit, observation mask, control name, treatment, sample and plate ids, and both
     id mappings"                                      C02_load_save (equality of the whole `Screen` record: every one of these is a
                                                       field; observations are 64-bit patterns) and, through the real file format,
                                                       C02_load_save_bytes = the five `S<w>` string tables of the screen file
                                                       (treatment_names, sample_names, plate_names, treatment_mapping_names,
                                                       sample_mapping_names: C02_table_codec for each, composed in `loadB_saveB`) with
                                                       the Screen-level theorem; names: every code point below 0x110000 that Python can
                                                       UTF-8 encode (C02_nameOK_iff: no surrogates -- C02_surrogate_not_saved shows
                                                       the hypothesis is needed, CPython's `encode` raises for them) without a trailing
                                                       U+0000 (C02_table_codec_trailing_nul: needed, numpy strips it)
  2. "including mappings that list conditions absent from the screen's rows"
                                                       the theorems hold for every `Valid s` (= every result of the constructor, whatever
                                                       mapping was supplied); C02_mk_with_own_mapping_fixpoint('); the examples exhibit a
                                                       strict-superset mapping and a hand-made unsorted one
  3. "Loading never renumbers anything"                C02_load_never_renumbers, C02_mk_with_own_mapping_fixpoint
  4. "a second save/load is a fixed point"             C02_idempotent, C02_idempotent_bytes (any number of cycles)
  5. "the same holds for a saved experiment space"     C02_space_load_save, C02_space_idempotent, C02_space_of_screen_load_save,
                                                       C02_space_of_reloaded_screen (byte level: two `S<w>` tables)
  6. quantifier "all constructible screens (non-ASCII and empty-string names, names of unequal length, empty control name,
     mappings larger than the data, any mask)"         no hypothesis excludes any of these; `exScreen` / `handMadeScreen` have them all
  7. the excluded inputs, stated and proved as facts about the code: C02_zero_row_not_loadable(_bytes), C02_zero_row_constructible,
     C02_zero_arity_not_loadable, C02_space_empty_not_loadable, C02_space_empty_samples_not_loadable (known finding
     C02:zero-row-screen: h5py writes an empty string table as float64, `np.char.decode` refuses it)
  HARNESS-ONLY: (a) container fidelity -- that h5py/HDF5/gzip hand back the bytes / float64 / int64 / bool datasets and the
  string attribute they were given (a property of a C library, not of batchie; watched by every cycle through real files);
  (b) memory layout (Fortran / strided / read-only inputs): lists have no layout; (c) the sign of -0.0 and NaN/inf DOSES:
  doses are exact rationals in the model (observation values are bit patterns and ARE covered).
-/
import Batchie.Lemmas.LifecycleExamples

namespace Batchie.Props.C02
open Batchie.Proto Batchie.Screen Batchie.Persist Batchie.Lifecycle

/-- Constructing a screen again from its own rows, observations, mask, control name and its own two mappings
    returns that very screen: no id and no mapping row is renumbered -- whatever the mappings list (they may
    list conditions absent from the rows: `s` ranges over every result of the constructor, in particular
    those built with supplied superset mappings, see the example below). -/
theorem C02_mk_with_own_mapping_fixpoint (s : Screen) (h : Valid s) : mk? (s.toRaw true) = .ok s := by
  have e : s.toRaw true = rowsRaw s s.mask := by simp [Screen.toRaw, rowsRaw]
  rw [e, mk?_rowsRaw h.wf s.mask h.wf.len_mask h.wf.uniform]

/-- the same, phrased on the constructor call that produced the screen -/
theorem C02_mk_with_own_mapping_fixpoint' (r : Raw) (s : Screen) (h : mk? r = .ok s) :
    mk? { ctrl := s.ctrl, arity := s.arity, tnames := s.tnames, tdoses := s.tdoses, snames := s.snames,
          pnames := s.pnames, obs := some s.obs, mask := some s.mask, tmap := some s.tmap, smap := some s.smap }
      = .ok s :=
  C02_mk_with_own_mapping_fixpoint s ⟨r, h⟩

/-- `load_h5(save_h5(s)) = s`, every field (rows, observation bit patterns, mask, control name, all three
    kinds of ids, all three mappings), for every constructed screen with >= 1 row and >= 1 treatment column. -/
theorem C02_load_save (s : Screen) (h : Valid s) (hrows : 0 < s.size) (harity : 0 < s.arity) :
    load s.save = .ok s :=
  load_save h.wf (List.length_pos_iff.1 hrows) (Nat.pos_iff_ne_zero.1 harity)

/-- the known finding: a zero-row screen is saved but cannot be loaded -/
theorem C02_zero_row_not_loadable (s : Screen) (hrows : s.size = 0) : load s.save = .error .typeError :=
  load_save_zero_row s (List.length_eq_zero_iff.1 hrows)

/-- ... and such screens are constructible (the hold-out for fraction 0 returns one) -/
theorem C02_zero_row_constructible : ∃ s, Valid s ∧ s.size = 0 ∧ load s.save = .error .typeError :=
  ⟨zeroRowScreen, ⟨zeroRowRaw, zeroRowScreen_mk⟩, rfl, C02_zero_row_not_loadable _ rfl⟩

/-- loading never renumbers: whenever a saved constructed screen loads at all, the result is that screen -/
theorem C02_load_never_renumbers (s t : Screen) (h : Valid s) (hl : load s.save = .ok t) : t = s := by
  by_cases hn : s.snames = []
  · rw [load_save_zero_row s hn] at hl; cases hl
  · by_cases ha : s.arity = 0
    · rw [load_save_arity_zero s ha] at hl; cases hl
    · rw [load_save h.wf hn ha] at hl
      injection hl with hl
      exact hl.symm

/-- any number of consecutive save/load cycles is the identity (a second cycle is a fixed point) -/
theorem C02_idempotent (s : Screen) (h : Valid s) (hrows : 0 < s.size) (harity : 0 < s.arity) (k : Nat) :
    cycles k s = .ok s := by
  induction k with
  | zero => rfl
  | succ k ih =>
    simp only [cycles, C02_load_save s h hrows harity, bind, Except.bind]
    exact ih

/-- the string-table codec: UTF-8 encode every name, zero-pad to the common width (numpy `S<w>`), strip
    trailing zero bytes, strictly UTF-8 decode -- the identity on non-empty tables of names made of Unicode
    scalar values that do not end in U+0000 -/
theorem C02_table_codec (names : List Name) (hne : names ≠ []) (hok : ∀ n ∈ names, NameOK n) :
    decodeTable (encodeTable names) = .ok names :=
  decodeTable_encodeTable names hne hok

/-- the UTF-8 half on its own -/
theorem C02_utf8_roundtrip (n : Name) (h : ∀ c ∈ n, IsScalar c) : utf8Decode (utf8Encode n) = some n :=
  utf8Decode_encode n h

/-- the padding half on its own: whatever the column width, stripping recovers the encoded name -/
theorem C02_pad_strip (w : Nat) (n : Name) (h : n.getLast? ≠ some 0) :
    stripZeros (pad w (utf8Encode n)) = utf8Encode n := by
  unfold pad
  rw [stripZeros_append_zeros, stripZeros_eq_self _ (getLast?_encode n h)]

/-- the hypothesis on trailing U+0000 is needed: numpy cannot tell such a name from its padding -/
theorem C02_table_codec_trailing_nul : decodeTable (encodeTable [[97, 0]]) = .ok [[97]] := by
  have h : utf8Decode (utf8Encode [97]) = some [97] := utf8Decode_encode [97] (by decide)
  have e : stripZeros (pad (tableWidth [utf8Encode [97, 0]]) (utf8Encode [97, 0])) = utf8Encode [97] := by decide
  simp only [decodeTable, encodeTable, List.map_cons, List.map_nil, List.isEmpty_cons, Bool.false_eq_true,
    ↓reduceIte, List.mapM_cons, List.mapM_nil, decodeCell, e, h]
  rfl

/-- what the name hypothesis says in plain terms: every code point is below 0x110000 and not a surrogate (exactly the
    strings CPython's `str.encode("utf-8")` accepts) and the name does not end in U+0000 -/
theorem C02_nameOK_iff (n : Name) :
    NameOK n ↔ (∀ c ∈ n, c < 0x110000 ∧ ¬ (0xD800 ≤ c ∧ c < 0xE000)) ∧ n.getLast? ≠ some 0 := by
  unfold NameOK IsScalar
  constructor
  · rintro ⟨h1, h2⟩
    exact ⟨fun c hc => by have := h1 c hc; omega, h2⟩
  · rintro ⟨h1, h2⟩
    exact ⟨fun c hc => by have := h1 c hc; omega, h2⟩

/-- the surrogate exclusion is needed: the three bytes a lone surrogate would be written as are not UTF-8 (the strict
    decoder refuses them; CPython already refuses to encode, so such a screen cannot be saved at all) -/
theorem C02_surrogate_not_saved : utf8Decode (utf8Encode [0xD800]) = none := by
  have : utf8Encode [0xD800] = [0xED, 0xA0, 0x80] := by decide
  rw [this, utf8Decode]
  decide

/-- the other face of the known finding: a screen without treatment columns is not loadable either -/
theorem C02_zero_arity_not_loadable (s : Screen) (ha : s.arity = 0) : load s.save = .error .typeError :=
  load_save_arity_zero s ha

/-- byte level: through the `S<w>` tables of the real file format -/
theorem C02_load_save_bytes (s : Screen) (h : Valid s) (ok : NamesOK s) (hrows : 0 < s.size) (harity : 0 < s.arity) :
    loadB (saveB s) = .ok s :=
  loadB_saveB h.wf ok (List.length_pos_iff.1 hrows) (Nat.pos_iff_ne_zero.1 harity)

theorem C02_idempotent_bytes (s : Screen) (h : Valid s) (ok : NamesOK s) (hrows : 0 < s.size) (harity : 0 < s.arity)
    (k : Nat) : cyclesB k s = .ok s := by
  induction k with
  | zero => rfl
  | succ k ih =>
    simp only [cyclesB, C02_load_save_bytes s h ok hrows harity, bind, Except.bind]
    exact ih

theorem C02_zero_row_not_loadable_bytes (s : Screen) (h : Valid s) (hrows : s.size = 0) :
    loadB (saveB s) = .error .typeError :=
  loadB_saveB_zero_row h.wf (List.length_eq_zero_iff.1 hrows)

/-! ### experiment space -/

/-- `ExperimentSpace.load_h5(save_h5(e)) = e` -/
theorem C02_space_load_save (e : Space) (ok : SpaceOK e) : e.save.load = .ok e := space_load_save e ok

theorem C02_space_idempotent (e : Space) (ok : SpaceOK e) (k : Nat) : spaceCycles k e = .ok e := by
  induction k with
  | zero => rfl
  | succ k ih =>
    simp only [spaceCycles, C02_space_load_save e ok, bind, Except.bind]
    exact ih

/-- the experiment space of a reloaded screen is the experiment space of the original (what `train_model`
    builds its embeddings from), and it survives its own save/load -/
theorem C02_space_of_reloaded_screen (s t : Screen) (h : Valid s) (hl : load s.save = .ok t) :
    Space.ofScreen t = Space.ofScreen s := by
  rw [C02_load_never_renumbers s t h hl]

theorem C02_space_of_screen_load_save (s : Screen) (h : Valid s) (ok : NamesOK s) (hrows : 0 < s.size)
    (harity : 0 < s.arity) : (Space.ofScreen s).save.load = .ok (Space.ofScreen s) := by
  have hn : s.snames ≠ [] := List.length_pos_iff.1 hrows
  apply space_load_save
  exact { tn := by intro n hn'; obtain ⟨e, he, rfl⟩ := List.mem_map.1 hn'; exact ok.tm e he
          sn := by intro n hn'; obtain ⟨e, he, rfl⟩ := List.mem_map.1 hn'; exact ok.sm e he
          tne := by simpa [Space.ofScreen] using tmap_ne_nil h.wf hn (Nat.pos_iff_ne_zero.1 harity)
          sne := by simpa [Space.ofScreen] using smap_ne_nil h.wf hn }

/-- an experiment space with an empty mapping (that of a fresh zero-row screen) does not load either -/
theorem C02_space_empty_not_loadable (e : Space) (h : e.tnames = []) : e.save.load = .error .typeError :=
  space_load_save_empty e h

/-- ... nor one whose sample mapping alone is empty -/
theorem C02_space_empty_samples_not_loadable (e : Space) (htn : ∀ n ∈ e.tnames, NameOK n) (hne : e.tnames ≠ [])
    (h : e.snames = []) : e.save.load = .error .typeError :=
  space_load_save_empty' e htn hne h

/-! ### the hypotheses are satisfiable by a non-trivial screen: non-ASCII, astral and empty names of unequal
    length, empty control name, an observed and an unobserved plate, strict-superset mappings -/

example : Valid exScreen ∧ NamesOK exScreen ∧ 0 < exScreen.size ∧ 0 < exScreen.arity :=
  ⟨exScreen_valid, exScreen_namesOK, by decide, by decide⟩

/-- its mappings list a treatment and a sample that no row uses -/
example : ([98], (1 : Rat), (1 : Int)) ∈ exScreen.tmap ∧ (1 : Int) ∉ exScreen.tids.flatten
    ∧ ([122, 122], (2 : Int)) ∈ exScreen.smap ∧ (2 : Int) ∉ exScreen.sids := by decide

example : load exScreen.save = .ok exScreen :=
  C02_load_save exScreen exScreen_valid (by decide) (by decide)

example : cyclesB 3 exScreen = .ok exScreen :=
  C02_idempotent_bytes exScreen exScreen_valid exScreen_namesOK (by decide) (by decide) 3

example : SpaceOK (Space.ofScreen exScreen) :=
  { tn := by decide, sn := by decide, tne := by decide, sne := by decide }

/-- hand-made mapping tables (rows not sorted by name, ids not numbered in table order) are constructible and are
    covered by the theorems like any other screen: nothing is re-sorted or renumbered on the way through a file -/
example : load handMadeScreen.save = .ok handMadeScreen ∧ handMadeScreen.smap = [([122,122], 0), ([115,49], 2), ([115], 1)]
    ∧ handMadeScreen.sids = [1, 2, 1] :=
  ⟨C02_load_save handMadeScreen handMadeScreen_valid (by decide) (by decide), rfl, rfl⟩

example : cyclesB 2 handMadeScreen = .ok handMadeScreen :=
  C02_idempotent_bytes handMadeScreen handMadeScreen_valid
    { tn := by decide, sn := by decide, pn := by decide, tm := by decide, sm := by decide } (by decide) (by decide) 2

end Batchie.Props.C02
