/-
  C12 -- plates are observed atomically; revealing is exact, monotone, value-preserving.

  Model: `Screen.mk?` (per-plate uniformity check of `Screen.__init__`), `maskScreen`, `unmaskScreen`,
  `revealPlates` (np.isin on plate ids, OR with the old mask, the all-zero / NaN guards on 64-bit patterns),
  `setObserved`, the plate counters of `extract_screen_metadata`, `load ∘ save`, and histories of these
  (`Retro.step`, `Retro.run`) in Model/Retro.lean.  Tied to /repo by harness/c12.py.

  CLAUSE MAP (property text -> theorem)
  1. "At every point of any sequence of mask, unmask and reveal operations each plate is either wholly observed or wholly
     unobserved"                                       C12_invariant (induction over histories incl. save+load and hold-out steps; by
                                                       plate name and by plate id), C12_invariant_ctor (the starting screen)
  2. "revealing a set of plates makes exactly those plates, plus the ones already observed, observed"
                                                       C12_reveal_exact (row level: new mask = old OR isin; plate level: observed after =
                                                       observed before ∪ requested), for any id list (observed / repeated / unknown ids)
  3. "never hides anything"                            C12_reveal_exact (4th conjunct: monotone)
  4. "never changes any experiment's conditions, plate assignment or stored observation value"
                                                       C12_reveal_exact (2nd conjunct: the result is `{ s with mask := .. }`, every other
                                                       field literally equal), C12_mask_exact, C12_unmask_exact; through a file:
                                                       C12_step_total (save+load = identity), C12_cli_reveal_eq (the CLI composition)
  5. "Hence the number of unobserved plates reported for the screen drops by exactly the number of newly revealed plates"
                                                       C12_counter_drop (counter of extract_screen_metadata; nPlates unchanged),
                                                       C12_counters_after_reload (the counters are those of the in-memory screen after
                                                       the save+load the CLI performs)
  6. "Construction rejects a plate with mixed observation status"
                                                       C12_ctor_rejects_mixed, C12_ctor_rejects_mixed_exact, C12_interleaved_mixed_rejected;
                                                       for unions: C12_combine_uniform, C12_combine_rejects_shared_mixed, C12_concat_uniform
  7. "treats observations given without a mask as all observed and no observations as all unobserved"
                                                       C12_ctor_defaults (C12_ctor_mask_without_obs: a mask alone is refused)
  8. "directly marking a selection observed stores exactly the given values at exactly those rows"
                                                       C12_set_observed_exact (well-formed calls); C12_set_observed_errors describes the MODEL
                                                       on malformed calls (numpy's incidental behaviour, not demanded by the text)
  9. "revealing refuses plates whose stored values are all zero or contain NaN"
                                                       C12_reveal_refuses (iff), C12_reveal_refuses_unknown, C12_bits (the two predicates on
                                                       IEEE bit patterns); C12_step_total / C12_reveal_exact: nothing else is refused
  10. quantifier "all finite sequences of mask / unmask / reveal(plate-id sets, incl. already observed, repeated and unknown ids)
      / save / load"                                   `Retro.run step` over arbitrary `List Op`
  HARNESS-ONLY: that an operation leaves the screen OBJECT it was called on untouched and that results do not share
  storage that a later call writes to (aliasing).  The model is purely functional -- a `Screen` value cannot be modified by
  a function applied to it -- so the clause is vacuous in Lean; stating it would need a heap model of numpy arrays
  (`Screen.__init__` stores its arguments by reference), which is out of proportion.  It is watched by snapshots around every
  call, branching histories and re-reads of earlier screens (signature C12:input-mutated).
-/
import Batchie.Lemmas.LifecycleHistory
import Batchie.Lemmas.LifecycleExamples

namespace Batchie.Props.C12
open Batchie.Proto Batchie.Screen Batchie.Retro Batchie.Lifecycle

/-- each plate (by name, as the constructor groups rows) is wholly observed or wholly unobserved -/
def PlateUniform (s : Screen) : Prop :=
  ∀ i j, i < s.size → j < s.size → s.pnames[i]! = s.pnames[j]! → s.mask[i]! = s.mask[j]!

/-- the same by plate id (as `get_plate`, `plates`, `reveal_plates` group rows) -/
def PlateUniformById (s : Screen) : Prop :=
  ∀ i j, i < s.size → j < s.size → s.pids[i]! = s.pids[j]! → s.mask[i]! = s.mask[j]!

theorem plateUniform_of_check (pn : List Name) (m : List Bool) (hl : m.length = pn.length)
    (hu : plateUniform pn m = true) (i j : Nat) (hi : i < pn.length) (hj : j < pn.length)
    (hp : pn[i]! = pn[j]!) : m[i]! = m[j]! := by
  have pu := (plateUniform_iff pn m).1 hu
  rw [getElem!_pos pn i hi, getElem!_pos pn j hj] at hp
  rw [getElem!_pos m i (by omega), getElem!_pos m j (by omega)]
  exact PU_index pu i j hi hj (by omega) (by omega) hp

theorem plateUniform_of_valid (s : Screen) (h : Valid s) : PlateUniform s ∧ PlateUniformById s := by
  have w := h.wf
  have hsz : s.size = s.pnames.length := by rw [size_eq w, w.len_pn]
  have hml : s.mask.length = s.pnames.length := by rw [w.len_mask, w.len_pn]
  have h1 : PlateUniform s := by
    intro i j hi hj hp
    exact plateUniform_of_check s.pnames s.mask hml w.uniform i j (by omega) (by omega) hp
  refine ⟨h1, ?_⟩
  intro i j hi hj hp
  apply h1 i j hi hj
  have hi' : i < s.pnames.length := by omega
  have hj' : j < s.pnames.length := by omega
  have hpl : s.pids.length = s.pnames.length := by rw [length_pids w, w.len_pn]
  rw [getElem!_pos s.pids i (by omega), getElem!_pos s.pids j (by omega)] at hp
  rw [getElem!_pos s.pnames i hi', getElem!_pos s.pnames j hj']
  exact (pids_inj w i j hi' hj').1 hp

/-! ### construction -/

/-- A plate with mixed observation status is rejected: no call with such a mask returns a screen. -/
theorem C12_ctor_rejects_mixed (r : Raw) (o : List Nat) (m : List Bool) (ho : r.obs = some o) (hm : r.mask = some m)
    (i j : Nat) (hi : i < r.pnames.length) (hj : j < r.pnames.length) (hp : r.pnames[i]! = r.pnames[j]!)
    (hne : m[i]! ≠ m[j]!) : ∀ s, mk? r ≠ .ok s := by
  intro s hs
  have f := mk?_inv hs
  have c := f.core
  have hmask : s.mask = m := by rw [f.mask_eq, ho, hm]
  have hl : m.length = r.pnames.length := by rw [← hmask, c.len_mask, f.len_pn]
  have hu : plateUniform r.pnames m = true := by rw [← hmask]; exact c.uniform
  exact hne (plateUniform_of_check r.pnames m hl hu i j hi hj hp)

/-- ... and when everything else about the call is fine (the rows and mappings of a constructed screen) the
    error is exactly the constructor's `ValueError`. -/
theorem C12_ctor_rejects_mixed_exact (s : Screen) (h : Valid s) (m : List Bool) (hl : m.length = s.size)
    (i j : Nat) (hi : i < s.size) (hj : j < s.size) (hp : s.pnames[i]! = s.pnames[j]!) (hne : m[i]! ≠ m[j]!) :
    mk? (rowsRaw s m) = .error .valueError := by
  have w := h.wf
  have hsz : s.size = s.pnames.length := by rw [size_eq w, w.len_pn]
  apply mk?_rowsRaw_mixed w m (by rw [hl, size_eq w])
  cases hu : plateUniform s.pnames m with
  | false => rfl
  | true => exact absurd (plateUniform_of_check s.pnames m (by omega) hu i j (by omega) (by omega) hp) hne

/-- Observations given without a mask: all observed, values kept.  No observations: none observed, `+0.0`
    stored.  A mask without observations is refused. -/
theorem C12_ctor_defaults (r : Raw) (s : Screen) (h : mk? r = .ok s) :
    (∀ o, r.obs = some o → r.mask = none → s.obs = o ∧ s.mask = List.replicate r.tnames.length true)
    ∧ (r.obs = none → s.obs = List.replicate r.tnames.length 0 ∧ s.mask = List.replicate r.tnames.length false)
    ∧ (r.obs = none → r.mask = none) := by
  have f := mk?_inv h
  refine ⟨?_, ?_, f.mask_needs_obs⟩
  · intro o ho hm
    exact ⟨by rw [f.obs_eq, ho], by rw [f.mask_eq, ho, hm]⟩
  · intro ho
    exact ⟨by rw [f.obs_eq, ho], by rw [f.mask_eq, ho]⟩

theorem C12_ctor_mask_without_obs (r : Raw) (m : List Bool) (ho : r.obs = none) (hm : r.mask = some m) :
    ∀ s, mk? r ≠ .ok s := by
  intro s hs
  have := (mk?_inv hs).mask_needs_obs ho
  rw [hm] at this
  cases this

/-! ### the operations in closed form on constructed screens -/

theorem C12_mask_exact (s : Screen) (h : Valid s) :
    maskScreen s = .ok { s with mask := List.replicate s.size false } := maskScreen_eq h.wf

theorem C12_unmask_exact (s : Screen) (h : Valid s) :
    unmaskScreen s = .ok { s with mask := List.replicate s.size true } := unmaskScreen_eq h.wf

/-- Revealing, when not refused, changes nothing but the mask (rows, plate assignment, observation bit
    patterns, ids and mappings are literally the same fields), the new mask is `old OR isin(plate_id, ids)`
    row by row, so nothing is hidden; at plate level the observed plates afterwards are exactly those
    observed before plus the requested ones -- for any `ids`: already observed, repeated or unknown ids
    included (an unknown id selects no row; a plate id absent from the screen is vacuously "observed"
    before and after). -/
theorem C12_reveal_exact (s : Screen) (h : Valid s) (ids : List Int) (hr : revealRefused s ids = false) :
    ∃ t, revealPlates s ids = .ok t
      ∧ t = { s with mask := List.zipWith (· || ·) s.mask (s.pids.map (fun p => ids.contains p)) }
      ∧ (∀ i, i < s.size → t.mask[i]! = (s.mask[i]! || ids.contains s.pids[i]!))
      ∧ (∀ i, i < s.size → s.mask[i]! = true → t.mask[i]! = true)
      ∧ (∀ p, plateObserved t p = (plateObserved s p || ids.contains p))
      ∧ t.uniquePlateIds = s.uniquePlateIds := by
  have w := h.wf
  refine ⟨_, revealPlates_eq w ids hr, rfl, ?_, ?_, ?_, rfl⟩
  · intro i hi
    have h1 : i < s.mask.length := by rw [w.len_mask, ← size_eq w]; exact hi
    have h2 : i < s.pids.length := by rw [length_pids w, ← size_eq w]; exact hi
    show (List.zipWith (· || ·) s.mask (revealMask s ids))[i]! = _
    rw [zipWith_or_get! _ _ i h1 (by simp [revealMask, h2])]
    simp [revealMask, h2]
  · intro i hi hm
    have h1 : i < s.mask.length := by rw [w.len_mask, ← size_eq w]; exact hi
    have h2 : i < s.pids.length := by rw [length_pids w, ← size_eq w]; exact hi
    show (List.zipWith (· || ·) s.mask (revealMask s ids))[i]! = _
    rw [zipWith_or_get! _ _ i h1 (by simp [revealMask, h2]), hm]
    rfl
  · intro p
    exact plateObserved_or s.pids (fun q => ids.contains q) p s.mask

/-- The number of unobserved plates reported by `extract_screen_metadata` drops by exactly the number of
    distinct requested plates that exist and were not observed before. -/
theorem C12_counter_drop (s t : Screen) (h : Valid s) (ids : List Int) (hrev : revealPlates s ids = .ok t) :
    nUnobservedPlates s
      = nUnobservedPlates t + s.uniquePlateIds.countP (fun p => !plateObserved s p && ids.contains p)
    ∧ nPlates t = nPlates s := by
  have hr : revealRefused s ids = false := by
    cases hh : revealRefused s ids with
    | false => rfl
    | true => rw [revealPlates_refused s ids hh] at hrev; cases hrev
  obtain ⟨t', ht', heq, _, _, hplate, huniq⟩ := C12_reveal_exact s h ids hr
  rw [ht'] at hrev
  injection hrev with hrev
  subst hrev
  refine ⟨?_, by simp only [nPlates, huniq]⟩
  unfold nUnobservedPlates
  rw [huniq]
  have := countP_split (fun p => plateObserved s p) (fun p => ids.contains p) s.uniquePlateIds
  rw [this]
  congr 2
  funext p
  rw [hplate p]

/-- Refusals: the revealed values are all zero (`+0.0` / `-0.0`; true in particular when the selection is
    empty, e.g. only unknown ids) or contain a NaN  =>  `ValueError`, nothing is returned. -/
theorem C12_reveal_refuses (s : Screen) (ids : List Int) :
    (revealRefused s ids = true ↔
        (∀ v ∈ maskFilter s.obs (revealMask s ids), isZeroBits v = true)
        ∨ (∃ v ∈ maskFilter s.obs (revealMask s ids), isNaNBits v = true))
    ∧ (revealRefused s ids = true → revealPlates s ids = .error .valueError) := by
  refine ⟨?_, revealPlates_refused s ids⟩
  simp [revealRefused]

theorem maskFilter_all_false {α : Type} : ∀ (xs : List α) (m : List Bool), (∀ b ∈ m, b = false) → maskFilter xs m = []
  | [], m, _ => by cases m <;> rfl
  | x :: xs, [], _ => rfl
  | x :: xs, b :: m, h => by
    have hb : b = false := h b List.mem_cons_self
    subst hb
    simp only [maskFilter, Bool.false_eq_true, ↓reduceIte]
    exact maskFilter_all_false xs m (fun c hc => h c (List.mem_cons_of_mem _ hc))

/-- requesting only ids that are not plate ids of the screen selects nothing and is refused -/
theorem C12_reveal_refuses_unknown (s : Screen) (ids : List Int) (hu : ∀ p ∈ s.pids, p ∉ ids) :
    revealPlates s ids = .error .valueError := by
  apply revealPlates_refused
  have : maskFilter s.obs (revealMask s ids) = [] := by
    apply maskFilter_all_false
    intro b hb
    simp only [revealMask, List.mem_map] at hb
    obtain ⟨p, hp, rfl⟩ := hb
    simpa using hu p hp
  simp [revealRefused, this]

/-- the two bit-level predicates on the patterns that matter -/
theorem C12_bits :
    isZeroBits 0 = true ∧ isZeroBits 0x8000000000000000 = true ∧ isZeroBits 0x3FF0000000000000 = false
    ∧ isZeroBits 1 = false
    ∧ isNaNBits 0x7FF8000000000000 = true ∧ isNaNBits 0xFFF8000000000000 = true ∧ isNaNBits 0x7FF0000000000001 = true
    ∧ isNaNBits 0x7FF0000000000000 = false ∧ isNaNBits 0xFFF0000000000000 = false
    ∧ isNaNBits 0x3FF0000000000000 = false ∧ isNaNBits 0 = false := by decide

/-- `set_observed(sel, values)` (a selection of the screen's length) stores exactly the given values, in order, at exactly the selected rows, keeps
    every other row's value, ORs the selection into the mask and touches nothing else. -/
theorem C12_set_observed_exact (s : Screen) (h : Valid s) (sel : List Bool) (vals : List Nat)
    (hsel : sel.length = s.size) (hvals : vals.length = sel.count true) :
    ∃ t, setObserved s sel vals = .ok t
      ∧ t = { s with obs := assignMasked s.obs sel vals, mask := List.zipWith (· || ·) s.mask sel }
      ∧ maskFilter t.obs sel = vals
      ∧ maskFilter t.obs (sel.map (!·)) = maskFilter s.obs (sel.map (!·))
      ∧ t.obs.length = s.obs.length
      ∧ (∀ i, i < s.size → t.mask[i]! = (s.mask[i]! || sel[i]!)) := by
  have w := h.wf
  have hobs : sel.length = s.obs.length := by rw [hsel, size_eq w, w.len_obs]
  refine ⟨_, ?_, rfl, maskFilter_assignMasked_sel _ _ _ hobs hvals, maskFilter_assignMasked_not _ _ _ hobs hvals,
    length_assignMasked _ _ _, ?_⟩
  · unfold setObserved
    have hmask : (if sel.isEmpty then s.mask else List.zipWith (· || ·) s.mask sel)
        = List.zipWith (· || ·) s.mask sel := by
      cases sel with
      | nil =>
        have : s.mask = [] := List.length_eq_zero_iff.1 (by rw [w.len_mask, ← size_eq w, ← hsel]; rfl)
        simp [this]
      | cons b bs => simp
    simp only [hsel, hvals, bne_self_eq_false, Bool.false_and, Bool.false_eq_true, ↓reduceIte, beq_self_eq_true,
      hmask]
  · intro i hi
    have h1 : i < s.mask.length := by rw [w.len_mask, ← size_eq w]; exact hi
    have h2 : i < sel.length := by rw [hsel]; exact hi
    exact zipWith_or_get! _ _ i h1 h2

theorem C12_set_observed_errors (s : Screen) (sel : List Bool) (vals : List Nat) :
    (sel.length ≠ s.size → sel ≠ [] → setObserved s sel vals = .error .indexError)
    ∧ (sel.length = s.size → vals.length ≠ sel.count true → vals.length ≠ 1 →
        setObserved s sel vals = .error .valueError)
    ∧ (sel = [] → vals.length ≤ 1 → setObserved s sel vals = .ok s) := by
  refine ⟨?_, ?_, ?_⟩
  · intro h h'; simp [setObserved, h, h']
  · intro h1 h2 h3; simp [setObserved, h1, h2, h3]
  · intro h1 h2
    subst h1
    match vals, h2 with
    | [], _ => simp [setObserved, assignMasked]
    | [v], _ => simp [setObserved, assignMasked]

/-! ### histories -/

/-- `PlateUniform` holds for every constructed screen ... -/
theorem C12_invariant_ctor (r : Raw) (s : Screen) (h : mk? r = .ok s) : PlateUniform s ∧ PlateUniformById s :=
  plateUniform_of_valid s ⟨r, h⟩

/-- ... and along every history of mask / unmask / reveal (any id lists) / save+load / hold-out steps from any
    starting screen: every screen of the trace is a constructed screen and each of its plates is wholly
    observed or wholly unobserved (induction over the history). -/
theorem C12_invariant (ops : List Op) (s0 : Screen) (trace : List Screen) (hrun : run step ops s0 = .ok trace) :
    ∀ t ∈ trace, Valid t ∧ PlateUniform t ∧ PlateUniformById t := by
  intro t ht
  -- a trace element is a step result, hence constructed (the `t = s0` alternative is only the start)
  have hvt : Valid t := by
    induction ops generalizing s0 trace with
    | nil => simp only [run] at hrun; injection hrun with hrun; subst hrun; cases ht
    | cons op ops ih =>
      obtain ⟨t1, rest, h1, h2, rfl⟩ := run_cons hrun
      rcases List.mem_cons.1 ht with rfl | ht
      · exact (step_maps h1).1
      · exact ih t1 rest h2 ht
  exact ⟨hvt, plateUniform_of_valid t hvt⟩

/-- the steps never fail for reasons other than the stated refusals: on a constructed screen mask and unmask
    always succeed, reveal succeeds unless refused, save+load succeeds unless the screen has no rows/columns -/
theorem C12_step_total (s : Screen) (h : Valid s) :
    (∃ t, step .mask s = .ok t) ∧ (∃ t, step .unmask s = .ok t)
    ∧ (∀ ids, revealRefused s ids = false → ∃ t, step (.reveal ids) s = .ok t)
    ∧ (0 < s.size → 0 < s.arity → step .saveLoad s = .ok s) := by
  refine ⟨⟨_, C12_mask_exact s h⟩, ⟨_, C12_unmask_exact s h⟩, ?_, ?_⟩
  · intro ids hr
    exact ⟨_, revealPlates_eq h.wf ids hr⟩
  · intro h1 h2
    exact load_save h.wf (List.length_pos_iff.1 h1) (Nat.pos_iff_ne_zero.1 h2)

/-! ### through files: the `reveal_plate` CLI and the counters `extract_screen_metadata` reports -/

/-- `reveal_plate.main()` is `load_h5`, `reveal_plates`, `save_h5` (and whoever reads the output loads it): on a constructed
    screen with rows and columns this composition IS `reveal_plates` -- same refusals, same result, nothing lost in the
    files. -/
theorem C12_cli_reveal_eq (s : Screen) (h : Valid s) (hrows : 0 < s.size) (harity : 0 < s.arity) (ids : List Int) :
    (load s.save >>= fun a => revealPlates a ids >>= fun b => load b.save) = revealPlates s ids := by
  rw [load_save h.wf (List.length_pos_iff.1 hrows) (Nat.pos_iff_ne_zero.1 harity)]
  simp only [bind, Except.bind]
  cases hr : revealRefused s ids with
  | true => rw [revealPlates_refused s ids hr]
  | false =>
    have he := revealPlates_eq h.wf ids hr
    have hv : Valid { s with mask := List.zipWith (· || ·) s.mask (revealMask s ids) } :=
      (step_maps (op := .reveal ids) (s := s) he).1
    rw [he]
    exact load_save hv.wf (List.length_pos_iff.1 hrows) (Nat.pos_iff_ne_zero.1 harity)

/-- `extract_screen_metadata` counts on the RELOADED screen: its three counters are those of the screen that was saved -/
theorem C12_counters_after_reload (s t : Screen) (h : Valid s) (hl : load s.save = .ok t) :
    nUnobservedPlates t = nUnobservedPlates s ∧ nObservedPlates t = nObservedPlates s ∧ nPlates t = nPlates s := by
  have e : t = s := by
    by_cases hn : s.snames = []
    · rw [load_save_zero_row s hn] at hl; cases hl
    · by_cases ha : s.arity = 0
      · rw [load_save_arity_zero s ha] at hl; cases hl
      · rw [load_save h.wf hn ha] at hl
        injection hl with hl
        exact hl.symm
  rw [e]
  exact ⟨rfl, rfl, rfl⟩

example : (load exScreen.save >>= fun a => revealPlates a [1, 1, 7, 0] >>= fun b => load b.save) = revealPlates exScreen [1, 1, 7, 0] :=
  C12_cli_reveal_eq exScreen exScreen_valid (by decide) (by decide) _

/-! ### `Screen.combine` / `Screen.concat`: the union goes through the constructor's per-plate check -/

/-- the raw call `Screen.combine` makes -/
def combineRaw (a b : Screen) : Raw :=
  { ctrl := a.ctrl, arity := a.arity, tnames := a.tnames ++ b.tnames, tdoses := a.tdoses ++ b.tdoses,
    snames := a.snames ++ b.snames, pnames := a.pnames ++ b.pnames, obs := some (a.obs ++ b.obs),
    mask := some (a.mask ++ b.mask), tmap := none, smap := none }

theorem combine_ok_iff (a b t : Screen) : combine a b = .ok t ↔ (a.ctrl = b.ctrl ∧ a.arity = b.arity ∧ mk? (combineRaw a b) = .ok t) := by
  unfold combine combineRaw
  by_cases h1 : a.ctrl = b.ctrl
  · by_cases h2 : a.arity = b.arity
    · simp [h1, h2]
    · simp [h1, h2]
  · simp [h1]

/-- Whatever `Screen.combine` returns is a constructed screen, plate-uniform by name and by id, whose rows are the
    two inputs' rows in order with their masks and observation bit patterns unchanged: a combination never yields a
    partly observed plate and never alters a mask or a stored value. -/
theorem C12_combine_uniform (a b t : Screen) (h : combine a b = .ok t) :
    Valid t ∧ PlateUniform t ∧ PlateUniformById t
    ∧ t.pnames = a.pnames ++ b.pnames ∧ t.mask = a.mask ++ b.mask ∧ t.obs = a.obs ++ b.obs := by
  obtain ⟨_, _, hmk⟩ := (combine_ok_iff a b t).1 h
  have hv : Valid t := ⟨_, hmk⟩
  have f := mk?_inv hmk
  exact ⟨hv, (plateUniform_of_valid t hv).1, (plateUniform_of_valid t hv).2, f.core.pnames_eq,
    by rw [f.mask_eq]; rfl, by rw [f.obs_eq]; rfl⟩

/-- An observed and a masked screen that share a plate name cannot be combined: if some row of `a` and some row
    of `b` carry the same plate name with different observation status, `combine` returns nothing -- also when the
    two rows are far apart and every contiguous run of the plate is uniform (the check is per plate, not per
    neighbouring rows). -/
theorem C12_combine_rejects_shared_mixed (a b : Screen) (ha : Valid a) (hb : Valid b) (i j : Nat)
    (hi : i < a.size) (hj : j < b.size) (hp : a.pnames[i]! = b.pnames[j]!) (hne : a.mask[i]! ≠ b.mask[j]!) :
    ∀ t, combine a b ≠ .ok t := by
  intro t h
  obtain ⟨_, _, hmk⟩ := (combine_ok_iff a b t).1 h
  have wa := ha.wf
  have wb := hb.wf
  have la : a.pnames.length = a.size := by rw [size_eq wa, wa.len_pn]
  have lb : b.pnames.length = b.size := by rw [size_eq wb, wb.len_pn]
  have ma : a.mask.length = a.size := by rw [size_eq wa, wa.len_mask]
  have mb : b.mask.length = b.size := by rw [size_eq wb, wb.len_mask]
  refine C12_ctor_rejects_mixed (combineRaw a b) (a.obs ++ b.obs) (a.mask ++ b.mask) rfl rfl i (a.size + j) ?_ ?_ ?_ ?_ t hmk
  · simp only [combineRaw, List.length_append]; omega
  · simp only [combineRaw, List.length_append]; omega
  · simp only [combineRaw]
    rw [getElem!_pos (a.pnames ++ b.pnames) i (by rw [List.length_append]; omega),
      getElem!_pos (a.pnames ++ b.pnames) (a.size + j) (by rw [List.length_append]; omega),
      List.getElem_append_left (by omega), List.getElem_append_right (by omega)]
    rw [getElem!_pos a.pnames i (by omega), getElem!_pos b.pnames j (by omega)] at hp
    rw [hp]
    congr 1
    omega
  · rw [getElem!_pos (a.mask ++ b.mask) i (by rw [List.length_append]; omega),
      getElem!_pos (a.mask ++ b.mask) (a.size + j) (by rw [List.length_append]; omega),
      List.getElem_append_left (by omega), List.getElem_append_right (by omega)]
    rw [getElem!_pos a.mask i (by omega), getElem!_pos b.mask j (by omega)] at hne
    intro e
    apply hne
    rw [e]
    congr 1
    omega

/-- `Screen.concat`: every result is plate-uniform (given constructed inputs; a one-element list returns its
    element unchanged) -/
theorem C12_concat_uniform (ss : List Screen) (hv : ∀ s ∈ ss, Valid s) (t : Screen) (h : concat ss = .ok t) :
    Valid t ∧ PlateUniform t ∧ PlateUniformById t := by
  have key : ∀ (rest : List Screen) (s : Screen), Valid s → rest.foldlM combine s = .ok t → Valid t := by
    intro rest
    induction rest with
    | nil => intro s hs h; simp only [List.foldlM_nil, pure, Except.pure] at h; injection h with h; subst h; exact hs
    | cons x xs ih =>
      intro s _ h
      rw [List.foldlM_cons] at h
      cases hc : combine s x with
      | error e => rw [hc] at h; simp only [bind, Except.bind] at h; cases h
      | ok u =>
        rw [hc] at h
        simp only [bind, Except.bind] at h
        exact ih u (C12_combine_uniform s x u hc).1 h
  cases ss with
  | nil => simp only [concat] at h; cases h
  | cons s rest =>
    have := key rest s (hv s List.mem_cons_self) h
    exact ⟨this, plateUniform_of_valid t this⟩

/-- the interleaved witness: plate names `[p, q, p, q]` with mask `[T, F, F, F]` -- no two NEIGHBOURING rows of one
    plate differ, the plate `p` is mixed all the same -- is rejected with the constructor's `ValueError`; so is the
    combination of the observed screen `[p, q]` with the masked screen `[p, q]`. -/
def interleavedRaw : Raw :=
  { ctrl := [], arity := 1, tnames := [[[97]], [[97]], [[97]], [[97]]], tdoses := [[1], [1], [1], [1]],
    snames := [[115], [115], [115], [115]], pnames := [[112], [113], [112], [113]], obs := some [1, 2, 3, 4],
    mask := some [true, false, false, false], tmap := none, smap := none }

theorem C12_interleaved_mixed_rejected : mk? interleavedRaw = .error .valueError := by
  rw [mk?_eqK]; decide

/-! ### non-vacuity -/

example : Valid exScreen := exScreen_valid

/-- `exScreen` has an observed plate (id 0) and an unobserved one (id 1); revealing `[1, 1, 7, 0]` (repeated,
    unknown and already observed ids) is not refused and makes everything observed -/
example : revealRefused exScreen [1, 1, 7, 0] = false := by decide

example : nUnobservedPlates exScreen = 1 := by
  simp only [nUnobservedPlates, uniquePlateIds_eqK]; decide

/-- `set_observed` itself does not keep plates uniform (it performs no check) -/
example : ∃ t, setObserved exScreen [true, false, false] [7] = .ok t ∧ t.mask = [true, true, false] := ⟨_, rfl, rfl⟩
example : ∃ t, setObserved witnessPrepared [false, true, false, false, false, false] [7] = .ok t
    ∧ t.obs = [1, 7, 3, 4, 5, 6] := ⟨_, rfl, rfl⟩

/-- the combine hypotheses are satisfiable: `exScreen` (plate `p` observed) and its fully masked copy share plate
    `p` with different status, so they cannot be combined; `exScreen` with itself can -/
example : ∀ t, combine exScreen { exScreen with mask := List.replicate exScreen.size false } ≠ .ok t :=
  C12_combine_rejects_shared_mixed exScreen _ exScreen_valid
    (step_maps (op := .mask) (s := exScreen) (C12_mask_exact exScreen exScreen_valid)).1 0 0 (by decide) (by decide)
    (by decide) (by decide)

example : ∃ t, combine exScreen exScreen = .ok t ∧ t.mask = [true, true, false, true, true, false] := by
  have h : combine exScreen exScreen = mk? (combineRaw exScreen exScreen) := by simp [combine, combineRaw]
  rw [h, mk?_eqK]
  exact ⟨_, rfl, by decide⟩

end Batchie.Props.C12
