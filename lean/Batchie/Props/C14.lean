/-
  C14 — Subset and plate views are exact row selections with set-algebra semantics.

  Statements are about the executable model of `ScreenSubset` / `Plate` (`Batchie.Screen.View` in Model/Screen.lean)
  and the expression trees of `Model/ViewExpr.lean`, which `harness/c14.py` runs against the real objects.
  The model is purely functional; that the real `subset` works on a *copy* of the outer selection vector
  (no aliasing) is what the harness re-reads after every operation.

  CLAUSE MAP (property text → theorems). `WF s` holds for every constructed screen (`C14_built_screens_wf`), and every view reachable by
  any finite composition of the operations has a selection of the parent's length (`C14_expr_sound`), so the length hypotheses of the
  list-level theorems are discharged for real inputs by the `C14_expr_*` theorems.

  1. "a subset or plate view reports, for every per-experiment attribute, exactly the parent's values at the selected rows in parent order"
       → `C14_attr` (any list, any mask), `C14_attr_generic` (any attribute, any reachable view), `C14_attr_rows` (the nine attributes the
         driver prints); plate views: `C14_plates_partition` (row i is in plate p iff its plate id is p; one plate per distinct id).
  2. "subsetting a subset composes the selections" → `C14_compose`, `C14_compose_pointwise`, `C14_subset_spec`, reachable views: `C14_expr_sub`.
     "without touching the outer view" → harness-only: views are immutable values in a functional model (`C14_subset_spec` returns a new
         value); absence of aliasing between numpy selection vectors is re-read by the harness after every operation.
  3. "combine and concat are set union" → `C14_union`, `C14_union_concat`, reachable views: `C14_expr_comb`, `C14_expr_cat`.
  4. "invert is complement" → `C14_complement`, reachable views: `C14_expr_inv`.
  5. "the observed/unobserved views split the screen by its mask" → `C14_split_by_mask`.
  6. "materialising a view yields a screen with the same rows (names, doses, observations, mask, plate names) in the same order"
       → `C14_to_screen_rows`, for every reachable view `C14_expr_to_screen`; independent of ids / stored mappings `C14_to_screen_ignores_pmap`.
  7. "the unique-condition filter keeps exactly one experiment per distinct (sample, treatment ids) combination"
       → `C14_unique_exactly_one`, `C14_unique_filter`, reachable views `C14_expr_uniq`; the function itself `C14_select_unique`,
         its call site `C14_unique_filter_columns`.
  8. "views of different parent screens refuse to combine" → `C14_foreign_refused`.
  9. "all finite compositions of subset / combine / concat / invert / to_screen" → `C14_expr_sound`, `C14_denote_algebra`,
         `C14_view_derived` (derived properties of reachable views).
  Regression (not a clause), in Props/C14Regress.lean: S7-C14 `S7_C14_layout_test_accepts_foreign` (against `C14_combine_defined_iff`), S5-C14
         `S5_C14_putmask_counterexample` (against `C14_nested_subset_exact`), S6-C14 `S6_C14_cached_unique_counterexample`, S4-C14
         `S4_C14_stale_plate_table_counterexample` (with the general `pnamesViaPmap_of_consistent`), S8-C14 `S8_C14_platewise_unobserved_counterexample`
         (against `C14_split_rowwise`, with the general `unobservedByPlates_of_uniform`).
  harness-only: aliasing / in-place writes (item 2); numpy boolean indexing, np.where scatter and np.unique(axis=0, return_index) agreeing with
         maskFilter / scatter / first occurrence (tie); `single_treatment_effects` values (float means; `C14_attr_generic` covers the row selection).
-/
import Batchie.Lemmas.ViewsSelect
import Batchie.Lemmas.ScreenApi

namespace Batchie.Props.C14
open Batchie.Screen Batchie.Proto Batchie.Views Batchie.ScreenApi

/-! ### attributes -/

/-- **Attributes of a view are the parent's values at the selected rows, in parent order.**
    For every attribute array `xs` of the parent (same length as the selection vector): the view reports
    `count true` entries, entry `j` being the parent's entry at the `j`-th selected position; the selected positions
    are exactly the positions holding `true`, strictly ascending. -/
theorem C14_attr {α : Type} (xs : List α) (sel : List Bool) (h : xs.length = sel.length) :
    (maskFilter xs sel).length = sel.count true ∧
    (maskFilter xs sel).map some = (selIdx sel).map (fun i => xs[i]?) ∧
    (selIdx sel).Pairwise (· < ·) ∧ (∀ i, i ∈ selIdx sel ↔ sel[i]? = some true) :=
  ⟨length_maskFilter xs sel h, maskFilter_eq_selIdx xs sel h, selIdx_sorted sel, mem_selIdx sel⟩

/-- every per-experiment attribute of a view is that of the parent filtered by the same selection vector
    (`viewRows` is what the driver prints and the harness compares with the real view's arrays) -/
theorem C14_attr_rows (s : Screen) (sel : List Bool) :
    (viewRows s sel).tnames = maskFilter s.tnames sel ∧ (viewRows s sel).tdoses = maskFilter s.tdoses sel ∧
    (viewRows s sel).snames = maskFilter s.snames sel ∧ (viewRows s sel).pnames = maskFilter s.pnames sel ∧
    (viewRows s sel).obs = maskFilter s.obs sel ∧ (viewRows s sel).mask = maskFilter s.mask sel ∧
    (viewRows s sel).tids = maskFilter s.tids sel ∧ (viewRows s sel).sids = maskFilter s.sids sel ∧
    (viewRows s sel).pids = maskFilter s.pids sel := ⟨rfl, rfl, rfl, rfl, rfl, rfl, rfl, rfl, rfl⟩

/-! ### composition -/

/-- **Subsetting a subset composes the selections**: the nested view's selection still ranges over the parent's
    rows, every attribute of the nested view is the outer view's attribute filtered by the inner mask, the nested view
    has as many rows as the inner mask selects, and it only selects rows of the outer view. -/
theorem C14_compose {α : Type} (xs : List α) (outer inner : List Bool) (h : inner.length = outer.count true) :
    (scatter outer inner).length = outer.length ∧
    maskFilter xs (scatter outer inner) = maskFilter (maskFilter xs outer) inner ∧
    (scatter outer inner).count true = inner.count true ∧
    (∀ k : Nat, (scatter outer inner)[k]? = some true → outer[k]? = some true) :=
  ⟨length_scatter outer inner, maskFilter_scatter xs outer inner h, count_scatter outer inner h, scatter_le outer inner h⟩

/-- `View.subset` is exactly that, and it is refused unless the inner mask has one entry per row of the view;
    the outer view is a value and is not changed -/
theorem C14_subset_spec (v : View) (inner : List Bool) :
    (inner.length = v.size → v.subset inner = .ok { parent := v.parent, sel := scatter v.sel inner }) ∧
    (inner.length ≠ v.size → v.subset inner = .error .valueError) := by
  unfold View.subset
  constructor
  · intro h; simp [h]
  · intro h; simp [h]

/-- a row is in the nested subset iff it is in the outer view and the inner mask selects its rank within the outer view -/
theorem C14_compose_pointwise (outer inner : List Bool) (h : inner.length = outer.count true) (k : Nat) (hk : k < outer.length) :
    (scatter outer inner)[k]? = some (outer[k] && (inner[(outer.take k).count true]?).getD false) :=
  scatter_getElem? outer inner h k hk

/-! ### union, complement, split -/

/-- **combine is set union** (refused across parents, see `C14_foreign_refused`) -/
theorem C14_union (a b : View) (hp : a.parent = b.parent) (hl : a.sel.length = b.sel.length) :
    ∃ w, a.combine b = .ok w ∧ w.parent = a.parent ∧ w.sel.length = a.sel.length ∧
      ∀ k : Nat, w.sel[k]? = some true ↔ (a.sel[k]? = some true ∨ b.sel[k]? = some true) := by
  refine ⟨{ parent := a.parent, sel := orSel a.sel b.sel }, ?_, rfl, length_orSel _ _ hl, orSel_true_iff _ _ hl⟩
  exact (combine_ok_iff a b _).mpr ⟨hp, rfl⟩

/-- **concat is the union of all members** (for views of one parent with selection vectors of one length) -/
theorem C14_union_concat (v : View) (rest : List View) (n : Nat) (hv : v.sel.length = n)
    (hp : ∀ x ∈ rest, x.parent = v.parent) (hl : ∀ x ∈ rest, x.sel.length = n) :
    ∃ w, View.concat (v :: rest) = .ok w ∧ w.parent = v.parent ∧ w.sel.length = n ∧
      ∀ k : Nat, w.sel[k]? = some true ↔ (v.sel[k]? = some true ∨ ∃ x ∈ rest, x.sel[k]? = some true) := by
  have key : ∀ (rest : List View) (acc : List Bool), acc.length = n → (∀ x ∈ rest, x.sel.length = n) →
      (rest.foldl (fun acc x => List.zipWith (· || ·) acc x.sel) acc).length = n ∧
      ∀ k : Nat, (rest.foldl (fun acc x => List.zipWith (· || ·) acc x.sel) acc)[k]? = some true ↔
        (acc[k]? = some true ∨ ∃ x ∈ rest, x.sel[k]? = some true) := by
    intro rest
    induction rest with
    | nil => intro acc hacc _; simp [hacc]
    | cons x rest ih =>
      intro acc hacc hl
      have hx : x.sel.length = n := hl x (by simp)
      have h1 := ih (orSel acc x.sel) (by rw [length_orSel _ _ (by rw [hacc, hx]), hacc]) (fun y hy => hl y (by simp [hy]))
      refine ⟨h1.1, fun k => ?_⟩
      rw [List.foldl_cons]
      have h2 := h1.2 k
      have h3 := orSel_true_iff acc x.sel (by rw [hacc, hx]) k
      simp only [orSel] at h2 h3
      rw [h2, h3]
      constructor
      · rintro ((h | h) | ⟨y, hy, h⟩)
        · exact Or.inl h
        · exact Or.inr ⟨x, by simp, h⟩
        · exact Or.inr ⟨y, by simp [hy], h⟩
      · rintro (h | ⟨y, hy, h⟩)
        · exact Or.inl (Or.inl h)
        · rcases List.mem_cons.mp hy with rfl | hy'
          · exact Or.inl (Or.inr h)
          · exact Or.inr ⟨y, hy', h⟩
  cases rest with
  | nil => exact ⟨v, rfl, rfl, hv, fun k => by simp⟩
  | cons x rest =>
    have hany : (x :: rest).any (fun y => y.parent != v.parent) = false := by
      rw [List.any_eq_false]; intro y hy; simp [hp y hy]
    obtain ⟨h1, h2⟩ := key (x :: rest) v.sel hv hl
    refine ⟨{ parent := v.parent, sel := (x :: rest).foldl (fun acc y => List.zipWith (· || ·) acc y.sel) v.sel }, ?_, rfl, h1, h2⟩
    simp only [View.concat, hany, Bool.false_eq_true, if_false]

/-- **invert is the complement**: pointwise negation, an involution, and view + inverse split every parent attribute -/
theorem C14_complement {α : Type} (v : View) (xs : List α) (h : xs.length = v.sel.length) :
    v.invert.parent = v.parent ∧ v.invert.sel.length = v.sel.length ∧
    (∀ k, k < v.sel.length → (v.invert.sel[k]? = some true ↔ v.sel[k]? = some false)) ∧
    v.invert.invert = v ∧
    (maskFilter xs v.sel ++ maskFilter xs v.invert.sel).Perm xs ∧
    v.invert.size = v.sel.length - v.size := by
  refine ⟨rfl, by simp [View.invert], ?_, ?_, maskFilter_compl_perm xs v.sel h, count_not v.sel⟩
  · intro k hk
    simp only [View.invert, List.getElem?_map, List.getElem?_eq_getElem hk, Option.map_some, Option.some.injEq]
    cases v.sel[k] <;> simp
  · cases v with
    | mk p sel => simp only [View.invert, not_not_sel]

/-- **observed / unobserved views split the screen by its mask**; each is absent exactly when it would be empty -/
theorem C14_split_by_mask (s : Screen) (pid : Nat) :
    (s.subsetObserved pid = none ↔ s.mask.count true = 0) ∧
    (s.subsetUnobserved pid = none ↔ s.mask.count false = 0) ∧
    (∀ v, s.subsetObserved pid = some v → v.parent = pid ∧ v.sel = s.mask) ∧
    (∀ v, s.subsetUnobserved pid = some v → v.parent = pid ∧ v.sel = s.mask.map (!·)) ∧
    (∀ {α : Type} (xs : List α), xs.length = s.mask.length →
      (maskFilter xs s.mask ++ maskFilter xs (s.mask.map (!·))).Perm xs) := by
  refine ⟨?_, ?_, ?_, ?_, fun xs h => maskFilter_compl_perm xs s.mask h⟩
  · unfold Screen.subsetObserved
    split
    · rename_i h
      simp only [reduceCtorEq, false_iff]
      obtain ⟨b, hb, hb'⟩ := List.any_eq_true.mp h
      simp only [id] at hb'
      subst hb'
      exact fun h0 => (List.count_eq_zero.mp h0) hb
    · rename_i h
      simp only [true_iff]
      rw [List.count_eq_zero]
      intro hm; exact h (List.any_eq_true.mpr ⟨true, hm, rfl⟩)
  · unfold Screen.subsetUnobserved
    split
    · rename_i h
      simp only [reduceCtorEq, false_iff]
      obtain ⟨b, hb, hb'⟩ := List.any_eq_true.mp h
      have : b = false := by simpa using hb'
      subst this
      exact fun h0 => (List.count_eq_zero.mp h0) hb
    · rename_i h
      simp only [true_iff]
      rw [List.count_eq_zero]
      intro hm; exact h (List.any_eq_true.mpr ⟨false, hm, rfl⟩)
  · intro v hv
    unfold Screen.subsetObserved at hv
    split at hv
    · injection hv with hv; subst hv; exact ⟨rfl, rfl⟩
    · cases hv
  · intro v hv
    unfold Screen.subsetUnobserved at hv
    split at hv
    · injection hv with hv; subst hv; exact ⟨rfl, rfl⟩
    · cases hv

/-! ### materialising a view -/

/-- **`to_screen()` succeeds on every view of a well-formed screen and the new screen has exactly the selected rows, in
    order** — names, doses, sample names, plate names, observations (bit patterns) and mask; its ids and mappings are
    the fresh encoding of those rows (C01). -/
theorem C14_to_screen_rows (s : Screen) (w : WF s) (v : View) (h : v.sel.length = s.size) :
    ∃ t, s.viewToScreen v = .ok t ∧
      t.tnames = maskFilter s.tnames v.sel ∧ t.tdoses = maskFilter s.tdoses v.sel ∧
      t.snames = maskFilter s.snames v.sel ∧ t.pnames = maskFilter s.pnames v.sel ∧
      t.obs = maskFilter s.obs v.sel ∧ t.mask = maskFilter s.mask v.sel ∧
      t.ctrl = s.ctrl ∧ t.arity = s.arity ∧ t.size = v.size ∧ WF t := by
  refine ⟨_, viewToScreen_ok s w v h, rfl, rfl, rfl, rfl, rfl, rfl, rfl, rfl, ?_,
    wf_of_mk? _ _ (by rw [← viewToScreen_eq]; exact viewToScreen_ok s w v h)⟩
  simp only [Screen.size, mkFresh, toScreenRaw, View.size]
  exact length_maskFilter _ _ h.symm

/-- every screen `Screen(...)` builds is well-formed, so the hypothesis of `C14_to_screen_rows` holds for real screens -/
theorem C14_built_screens_wf (r : Raw) (s : Screen) (h : mk? r = .ok s) : WF s := wf_of_mk? r s h

/-- **`to_screen()` reads the parent's ROWS only.** The materialised screen is a function of the parent's control name, arity
    and row arrays (names, doses, sample names, plate NAMES, observations, mask) at the selection: two parents that agree on
    those — whatever their id arrays and their treatment / sample / plate mappings are — materialise to the same screen. In
    particular the result does not depend on the parent's plate ids or on its stored plate mapping, which is stale after an
    in-place `Plate.merge` (merge rewrites `plate_names` and re-encodes `_plate_ids` but does not refresh `_plate_mapping`). -/
theorem C14_to_screen_ignores_pmap (s s' : Screen) (v : View)
    (h1 : s'.ctrl = s.ctrl) (h2 : s'.arity = s.arity) (h3 : s'.tnames = s.tnames) (h4 : s'.tdoses = s.tdoses)
    (h5 : s'.snames = s.snames) (h6 : s'.pnames = s.pnames) (h7 : s'.obs = s.obs) (h8 : s'.mask = s.mask) :
    s'.viewToScreen v = s.viewToScreen v ∧
    (∀ (pids : List Int) (pmap : SMap), ({ s with pids := pids, pmap := pmap } : Screen).viewToScreen v = s.viewToScreen v) := by
  refine ⟨?_, fun _ _ => rfl⟩
  unfold Screen.viewToScreen
  rw [h1, h2, h3, h4, h5, h6, h7, h8]

/-! ### the unique-condition filter -/

/-- **The unique mask keeps exactly one row per distinct key — the first occurrence.** The kept keys are the distinct
    keys in order of first appearance (`eraseDups`): duplicate-free, every key of the input kept exactly once; and row
    `i` is kept iff its key does not occur before `i`. -/
theorem C14_unique_exactly_one {α : Type} [BEq α] [LawfulBEq α] (keys : List α) :
    (uniqueMask keys).length = keys.length ∧
    maskFilter keys (uniqueMask keys) = keys.eraseDups ∧
    (maskFilter keys (uniqueMask keys)).Nodup ∧
    (∀ k, k ∈ maskFilter keys (uniqueMask keys) ↔ k ∈ keys) ∧
    (∀ k ∈ keys, (maskFilter keys (uniqueMask keys)).count k = 1) ∧
    (∀ i (hi : i < keys.length), (uniqueMask keys)[i]? = some true ↔ keys[i] ∉ keys.take i) := by
  have hnd : (maskFilter keys (uniqueMask keys)).Nodup := by rw [maskFilter_uniqueMask]; exact nodup_eraseDups keys
  have hmem : ∀ k, k ∈ maskFilter keys (uniqueMask keys) ↔ k ∈ keys := by
    intro k; rw [maskFilter_uniqueMask]; exact List.mem_eraseDups
  refine ⟨length_uniqueMask keys, maskFilter_uniqueMask keys, hnd, hmem, ?_, uniqueMask_getElem? keys⟩
  intro k hk
  have h1 := (List.nodup_iff_count.mp hnd) k
  have h2 : 0 < (maskFilter keys (uniqueMask keys)).count k := List.count_pos_iff.mpr ((hmem k).mpr hk)
  omega

/-- `filter_dataset_to_unique_treatments` on a view is the nested subset by the unique mask of the view's
    (sample id, treatment ids) rows: it succeeds, keeps one experiment per distinct condition, and stays inside the view -/
theorem C14_unique_filter (s : Screen) (v : View) (hs : v.sel.length = s.sids.length) (ht : v.sel.length = s.tids.length) :
    ∃ w, s.uniqueFilter v = .ok w ∧ w.parent = v.parent ∧ w.sel.length = v.sel.length ∧
      (maskFilter s.sids w.sel).zip (maskFilter s.tids w.sel) = (uniqKeys s v.sel).eraseDups ∧
      (∀ k : Nat, w.sel[k]? = some true → v.sel[k]? = some true) := by
  have hlen : (uniqueMask (uniqKeys s v.sel)).length = v.sel.count true := by
    rw [length_uniqueMask, uniqKeys, List.length_zip, length_maskFilter _ _ hs.symm, length_maskFilter _ _ ht.symm]
    simp
  refine ⟨{ parent := v.parent, sel := scatter v.sel (uniqueMask (uniqKeys s v.sel)) }, ?_, rfl, length_scatter _ _, ?_,
    scatter_le _ _ hlen⟩
  · unfold Screen.uniqueFilter
    exact (view_subset_ok_iff v _ _).mpr ⟨hlen, rfl⟩
  · simp only
    rw [← maskFilter_zip, maskFilter_scatter _ _ _ hlen, maskFilter_zip]
    exact maskFilter_uniqueMask (uniqKeys s v.sel)

/-- **`select_unique_zipped_numpy_arrays`** (`selectUnique`, run by the driver's `uniq` against the real function): refused for
    no array or arrays of different lengths; otherwise the mask has one entry per row and keeps exactly the first
    occurrence of every distinct zipped row — whatever the ids are (control sentinel `-1`, all-control columns, …). -/
theorem C14_select_unique (c : List Int) (rest : List (List Int)) :
    selectUnique [] = .error .valueError ∧
    ((∃ x ∈ rest, x.length ≠ c.length) → selectUnique (c :: rest) = .error .valueError) ∧
    ((∀ x ∈ rest, x.length = c.length) →
      let rows := zipColumns (c :: rest) c.length
      ∃ m, selectUnique (c :: rest) = .ok m ∧ m.length = c.length ∧ rows.length = c.length ∧
        maskFilter rows m = rows.eraseDups ∧ (∀ k ∈ rows, (maskFilter rows m).count k = 1) ∧
        (∀ i (hi : i < rows.length), m[i]? = some true ↔ rows[i] ∉ rows.take i)) := by
  refine ⟨rfl, ?_, ?_⟩
  · rintro ⟨x, hx, hne⟩
    have : rest.any (fun x => x.length != c.length) = true := List.any_eq_true.mpr ⟨x, hx, by simpa using hne⟩
    simp [selectUnique, this]
  · intro hall
    have hany : rest.any (fun x => x.length != c.length) = false := by
      rw [List.any_eq_false]; intro x hx; simp [hall x hx]
    have hlen : (zipColumns (c :: rest) c.length).length = c.length := by simp [zipColumns]
    obtain ⟨h1, h2, _, _, h5, h6⟩ := C14_unique_exactly_one (zipColumns (c :: rest) c.length)
    exact ⟨_, by simp [selectUnique, hany], by rw [h1, hlen], hlen, h2, h5, h6⟩

/-- the model's unique filter is the code path `select_unique_zipped_numpy_arrays([sample_ids] + [treatment_ids[:, j] …])`
    followed by `view.subset(mask)` -/
theorem C14_unique_filter_columns (s : Screen) (v : View) (hs : v.sel.length = s.sids.length) (ht : v.sel.length = s.tids.length)
    (hrow : ∀ row ∈ s.tids, row.length = s.arity) :
    ∃ m, selectUnique (uniqColumns s v.sel) = .ok m ∧ s.uniqueFilter v = v.subset m :=
  ⟨_, selectUnique_uniqColumns s v.sel hs ht hrow, rfl⟩

/-! ### views of different parents -/

/-- **views of different parent screens refuse to combine / concat** -/
theorem C14_foreign_refused (a b : View) (h : a.parent ≠ b.parent) :
    a.combine b = .error .valueError ∧
    (∀ (pre post : List View), View.concat (a :: (pre ++ b :: post)) = .error .valueError) ∧
    View.concat [] = .error .valueError := by
  refine ⟨?_, ?_, rfl⟩
  · unfold View.combine; simp [h]
  · intro pre post
    have hany : (pre ++ b :: post).any (fun y => y.parent != a.parent) = true := by
      rw [List.any_eq_true]; exact ⟨b, by simp, by simp [Ne.symm h]⟩
    cases hpp : pre ++ b :: post with
    | nil => simp at hpp
    | cons x rest => rw [hpp] at hany; simp only [View.concat, hany, if_true]

/-! ### arbitrary finite compositions -/

/-- **Induction over expression trees of view operations.** Every view reachable from a well-formed screen by any
    finite composition of subset / observed / unobserved / plate / nested subset / invert / combine / concat / unique
    filter has a selection vector of the parent's length, equal to the set-algebra denotation `denote` of the expression;
    hence (`C14_attr`) each of its attributes is the parent's at exactly those rows. -/
theorem C14_expr_sound (s : Screen) (w : WF s) (e : ViewExpr) (v : View) (h : eval s e = .ok v) :
    v.sel.length = s.size ∧ v.sel = denote s e ∧ viewRows s v.sel = viewRows s (denote s e) := by
  obtain ⟨h1, h2⟩ := eval_sound s w e v h
  exact ⟨h1, h2, by rw [h2]⟩

/-- **Generic in the attribute.** For ANY per-experiment attribute of the parent — any list `xs` with one entry per row,
    of any type (names, doses, ids, observations, mask, plate names, single-treatment-effect rows, or an attribute added
    later) — and any view `v` reached by any finite composition `e` of view operations: reading the attribute through the view
    (`xs[selection_vector]`) gives exactly the parent's entries at the rows the expression denotes, in parent order, one per
    selected row. (`C14_attr` is the same statement for a bare selection vector; `viewRows` instantiates it for the nine
    attributes the driver prints.) -/
theorem C14_attr_generic {α : Type} (s : Screen) (w : WF s) (e : ViewExpr) (v : View) (h : eval s e = .ok v)
    (xs : List α) (hx : xs.length = s.size) :
    maskFilter xs v.sel = maskFilter xs (denote s e) ∧
    (maskFilter xs v.sel).length = v.size ∧
    (maskFilter xs v.sel).map some = (selIdx v.sel).map (fun i => xs[i]?) ∧
    (selIdx v.sel).Pairwise (· < ·) ∧ (∀ i, i ∈ selIdx v.sel ↔ v.sel[i]? = some true) := by
  obtain ⟨h1, h2⟩ := eval_sound s w e v h
  have hl : xs.length = v.sel.length := by rw [hx, h1]
  obtain ⟨a1, a2, a3, a4⟩ := C14_attr xs v.sel hl
  exact ⟨by rw [h2], a1, a2, a3, a4⟩

/-- members of a view's attribute: the parent's entries at the selected positions -/
theorem mem_maskFilter_iff {α : Type} (xs : List α) (sel : List Bool) (h : xs.length = sel.length) (x : α) :
    x ∈ maskFilter xs sel ↔ ∃ i : Nat, sel[i]? = some true ∧ xs[i]? = some x := by
  have h1 : x ∈ maskFilter xs sel ↔ some x ∈ (maskFilter xs sel).map some := by simp
  rw [h1, maskFilter_eq_selIdx xs sel h, List.mem_map]
  constructor
  · rintro ⟨i, hi, hx⟩; exact ⟨i, (mem_selIdx sel i).mp hi, hx⟩
  · rintro ⟨i, hi, hx⟩; exact ⟨i, (mem_selIdx sel i).mpr hi, hx⟩

/-- **Derived properties of a view are those of the parent's selected rows.** For every view reached by any composition of view
    operations, `size`, `n_plates`, `unique_plate_ids`, `unique_sample_ids`, `unique_treatments`, `n_unique_*`, `treatment_arity`,
    `is_observed` and the space sizes (`viewDerived`, run by the driver's `vderived` against the real properties) are the values
    computed from the rows the expression denotes (`C14_attr_generic`): the unique-id lists are strictly ascending and contain
    exactly the ids found at selected rows, the counts are their lengths, `is_observed` holds iff every selected row is
    observed, arity and space sizes are the parent's. -/
theorem C14_view_derived (s : Screen) (w : WF s) (e : ViewExpr) (v : View) (h : eval s e = .ok v) :
    viewDerived s v.sel = viewDerived s (denote s e) ∧
    (viewDerived s v.sel).size = v.size ∧ (viewDerived s v.sel).arity = s.arity ∧
    (viewDerived s v.sel).sampleSpaceSize = s.smap.length ∧ (viewDerived s v.sel).treatmentSpaceSize = s.tmap.length ∧
    (viewDerived s v.sel).uniquePlateIds.Pairwise (· < ·) ∧
    (∀ p, p ∈ (viewDerived s v.sel).uniquePlateIds ↔ ∃ i : Nat, v.sel[i]? = some true ∧ s.pids[i]? = some p) ∧
    (viewDerived s v.sel).uniqueSampleIds.Pairwise (· < ·) ∧
    (∀ x, x ∈ (viewDerived s v.sel).uniqueSampleIds ↔ ∃ i : Nat, v.sel[i]? = some true ∧ s.sids[i]? = some x) ∧
    (viewDerived s v.sel).uniqueTreatments.Pairwise (· < ·) ∧
    (∀ x, x ∈ (viewDerived s v.sel).uniqueTreatments ↔
      (x ≠ -1 ∧ ∃ (i : Nat) (row : List Int), v.sel[i]? = some true ∧ s.tids[i]? = some row ∧ x ∈ row)) ∧
    (viewDerived s v.sel).nPlates = (viewDerived s v.sel).uniquePlateIds.length ∧
    (viewDerived s v.sel).nUniqueSamples = (viewDerived s v.sel).uniqueSampleIds.length ∧
    (viewDerived s v.sel).nUniqueTreatments = (viewDerived s v.sel).uniqueTreatments.length ∧
    ((viewDerived s v.sel).isObserved = true ↔ ∀ i : Nat, v.sel[i]? = some true → s.mask[i]? = some true) := by
  obtain ⟨h1, h2⟩ := eval_sound s w e v h
  have hp : s.pids.length = v.sel.length := by rw [w.len_pids, h1, Screen.size, w.len_snames]
  have hs : s.sids.length = v.sel.length := by rw [w.len_sids, h1, Screen.size, w.len_snames]
  have ht : s.tids.length = v.sel.length := by rw [w.len_tids, h1, Screen.size, w.len_snames]
  have hm : s.mask.length = v.sel.length := by rw [w.len_mask, h1, Screen.size, w.len_snames]
  refine ⟨by rw [h2], ?_, rfl, rfl, rfl, sortedUniqueInts_strict _, ?_, sortedUniqueInts_strict _, ?_,
    (sortedUniqueInts_strict _).filter _, ?_, rfl, rfl, rfl, ?_⟩
  · simp only [viewDerived, derivedOf, View.size]; exact length_maskFilter _ _ ht
  · intro p; simp only [viewDerived, derivedOf]; rw [mem_sortedUniqueInts]; exact mem_maskFilter_iff _ _ hp p
  · intro x; simp only [viewDerived, derivedOf]; rw [mem_sortedUniqueInts]; exact mem_maskFilter_iff _ _ hs x
  · intro x
    simp only [viewDerived, derivedOf, List.mem_filter, mem_sortedUniqueInts, List.mem_flatten, bne_iff_ne, ne_eq]
    constructor
    · rintro ⟨⟨row, hrow, hx⟩, hne⟩
      obtain ⟨i, hi, hr⟩ := (mem_maskFilter_iff _ _ ht row).mp hrow
      exact ⟨hne, i, row, hi, hr, hx⟩
    · rintro ⟨hne, i, row, hi, hr, hx⟩
      exact ⟨⟨row, (mem_maskFilter_iff _ _ ht row).mpr ⟨i, hi, hr⟩, hx⟩, hne⟩
  · simp only [viewDerived, derivedOf, List.all_eq_true, id]
    constructor
    · intro hall i hi
      have hil : i < s.mask.length := by
        rw [hm]; exact (List.getElem?_eq_some_iff.mp hi).1
      have := hall _ ((mem_maskFilter_iff _ _ hm s.mask[i]).mpr ⟨i, hi, List.getElem?_eq_getElem hil⟩)
      rw [List.getElem?_eq_getElem hil, this]
    · intro hall b hb
      obtain ⟨i, hi, hbi⟩ := (mem_maskFilter_iff _ _ hm b).mp hb
      have := hall i hi
      rw [hbi] at this
      exact Option.some.inj this

/-! ### the clauses, for every view reachable by a composition of operations (length hypotheses discharged) -/

/-- every reachable view has one selection entry per row of every attribute array of the parent -/
theorem C14_reachable_lengths (s : Screen) (w : WF s) (e : ViewExpr) (v : View) (h : eval s e = .ok v) :
    v.sel.length = s.size ∧ v.sel.length = s.sids.length ∧ v.sel.length = s.tids.length ∧ v.sel.length = s.pids.length ∧
    v.sel.length = s.tnames.length := by
  obtain ⟨h1, _⟩ := eval_sound s w e v h
  have hs : s.size = s.tnames.length := by rw [Screen.size, w.len_snames]
  exact ⟨h1, by rw [h1, hs, w.len_sids], by rw [h1, hs, w.len_tids], by rw [h1, hs, w.len_pids], by rw [h1, hs]⟩

/-- **combine of reachable views is their union** -/
theorem C14_expr_comb (s : Screen) (w : WF s) (a b : ViewExpr) (v : View) (h : eval s (.comb a b) = .ok v) :
    ∃ va vb, eval s a = .ok va ∧ eval s b = .ok vb ∧ va.parent = vb.parent ∧ v.parent = va.parent ∧
      ∀ k : Nat, v.sel[k]? = some true ↔ (va.sel[k]? = some true ∨ vb.sel[k]? = some true) := by
  simp only [eval] at h
  obtain ⟨va, ha, h1⟩ := (except_bind_ok_iff _ _ _).mp h
  obtain ⟨vb, hb, h2⟩ := (except_bind_ok_iff _ _ _).mp h1
  obtain ⟨hla, _⟩ := eval_sound s w a va ha
  obtain ⟨hlb, _⟩ := eval_sound s w b vb hb
  obtain ⟨hp, rfl⟩ := (combine_ok_iff va vb v).mp h2
  exact ⟨va, vb, ha, hb, hp, rfl, orSel_true_iff _ _ (by rw [hla, hlb])⟩

/-- **invert of a reachable view is its complement within the parent's rows** -/
theorem C14_expr_inv (s : Screen) (w : WF s) (e : ViewExpr) (v : View) (h : eval s (.inv e) = .ok v) :
    ∃ v0, eval s e = .ok v0 ∧ v = v0.invert ∧ v.sel.length = s.size ∧
      (∀ k : Nat, k < s.size → (v.sel[k]? = some true ↔ v0.sel[k]? = some false)) ∧ v.invert = v0 := by
  simp only [eval] at h
  obtain ⟨v0, h0, h1⟩ := (except_bind_ok_iff _ _ _).mp h
  obtain ⟨hl, _⟩ := eval_sound s w e v0 h0
  injection h1 with h1; subst h1
  obtain ⟨_, c2, c3, c4, _, _⟩ := C14_complement (α := Bool) v0 v0.sel rfl
  exact ⟨v0, h0, rfl, by rw [c2, hl], fun k hk => c3 k (by rw [hl]; exact hk), c4⟩

/-- **nested subset of a reachable view composes the selections** -/
theorem C14_expr_sub (s : Screen) (w : WF s) (e : ViewExpr) (inner : List Bool) (v : View) (h : eval s (.sub e inner) = .ok v) :
    ∃ v0, eval s e = .ok v0 ∧ inner.length = v0.size ∧ v.sel.length = s.size ∧ v.size = inner.count true ∧
      (∀ {α : Type} (xs : List α), maskFilter xs v.sel = maskFilter (maskFilter xs v0.sel) inner) ∧
      (∀ k : Nat, v.sel[k]? = some true → v0.sel[k]? = some true) := by
  simp only [eval] at h
  obtain ⟨v0, h0, h1⟩ := (except_bind_ok_iff _ _ _).mp h
  obtain ⟨hl, _⟩ := eval_sound s w e v0 h0
  obtain ⟨hlen, rfl⟩ := (view_subset_ok_iff v0 inner v).mp h1
  refine ⟨v0, h0, hlen, by simp only [length_scatter]; exact hl, count_scatter _ _ hlen, fun xs => maskFilter_scatter xs _ _ hlen,
    scatter_le _ _ hlen⟩

/-- **the unique filter of a reachable view keeps exactly one experiment per distinct (sample id, treatment ids) of that view** -/
theorem C14_expr_uniq (s : Screen) (w : WF s) (e : ViewExpr) (v : View) (h : eval s (.uniq e) = .ok v) :
    ∃ v0, eval s e = .ok v0 ∧ v.parent = v0.parent ∧
      (maskFilter s.sids v.sel).zip (maskFilter s.tids v.sel) = (uniqKeys s v0.sel).eraseDups ∧
      ((maskFilter s.sids v.sel).zip (maskFilter s.tids v.sel)).Nodup ∧
      (∀ key, key ∈ (maskFilter s.sids v.sel).zip (maskFilter s.tids v.sel) ↔ key ∈ uniqKeys s v0.sel) ∧
      (∀ k : Nat, v.sel[k]? = some true → v0.sel[k]? = some true) := by
  simp only [eval] at h
  obtain ⟨v0, h0, h1⟩ := (except_bind_ok_iff _ _ _).mp h
  obtain ⟨_, hs, ht, _, _⟩ := C14_reachable_lengths s w e v0 h0
  obtain ⟨w', hw, hp, _, hz, hsub⟩ := C14_unique_filter s v0 hs ht
  rw [hw] at h1; injection h1 with h1; subst h1
  refine ⟨v0, h0, hp, hz, ?_, ?_, hsub⟩
  · rw [hz]; exact nodup_eraseDups _
  · intro key; rw [hz]; exact List.mem_eraseDups

/-- **concat of reachable views is the union of all of them** -/
theorem C14_expr_cat (s : Screen) (w : WF s) (es : List ViewExpr) (v : View) (h : eval s (.cat es) = .ok v) :
    ∃ v0 rest, evalList s es = .ok (v0 :: rest) ∧ v.parent = v0.parent ∧ v.sel.length = s.size ∧
      ∀ k : Nat, v.sel[k]? = some true ↔ ∃ x ∈ v0 :: rest, x.sel[k]? = some true := by
  simp only [eval] at h
  obtain ⟨vs, hvs, h1⟩ := (except_bind_ok_iff _ _ _).mp h
  have hall := evalList_sound s w es vs hvs
  cases vs with
  | nil => simp [View.concat] at h1
  | cons v0 rest =>
    have hlen : ∀ x ∈ v0 :: rest, x.sel.length = s.size := by
      intro x hx
      obtain ⟨e', _, hx'⟩ := hall.exists_of_mem_right x hx
      exact hx'.1
    have hpar : ∀ x ∈ rest, x.parent = v0.parent := by
      cases rest with
      | nil => intro x hx; cases hx
      | cons x1 rest' =>
        simp only [View.concat] at h1
        split at h1
        · cases h1
        · rename_i hany
          intro x hx
          have hf : (x1 :: rest').any (fun y => y.parent != v0.parent) = false := by
            cases hb : (x1 :: rest').any (fun y => y.parent != v0.parent)
            · rfl
            · exact absurd hb hany
          have := List.any_eq_false.mp hf x hx
          simpa using this
    obtain ⟨w', hw, hp, hl, hk⟩ := C14_union_concat v0 rest s.size (hlen v0 (by simp)) hpar (fun x hx => hlen x (by simp [hx]))
    rw [hw] at h1; injection h1 with h1; subst h1
    refine ⟨v0, rest, hvs, hp, hl, fun k => ?_⟩
    rw [hk k]
    constructor
    · rintro (h | ⟨x, hx, h⟩)
      · exact ⟨v0, by simp, h⟩
      · exact ⟨x, by simp [hx], h⟩
    · rintro ⟨x, hx, h⟩
      rcases List.mem_cons.mp hx with rfl | hx'
      · exact Or.inl h
      · exact Or.inr ⟨x, hx', h⟩

/-- **every reachable view materialises**, to exactly its rows in order -/
theorem C14_expr_to_screen (s : Screen) (w : WF s) (e : ViewExpr) (v : View) (h : eval s e = .ok v) :
    ∃ t, s.viewToScreen v = .ok t ∧
      t.tnames = maskFilter s.tnames v.sel ∧ t.tdoses = maskFilter s.tdoses v.sel ∧
      t.snames = maskFilter s.snames v.sel ∧ t.pnames = maskFilter s.pnames v.sel ∧
      t.obs = maskFilter s.obs v.sel ∧ t.mask = maskFilter s.mask v.sel ∧
      t.ctrl = s.ctrl ∧ t.arity = s.arity ∧ t.size = v.size ∧ WF t :=
  C14_to_screen_rows s w v (eval_sound s w e v h).1

/-- **plate views partition the rows by plate id**: row `i` is in the view of plate `p` iff its plate id is `p`; `plates` lists one view per
    distinct plate id, ascending; every row's plate id is listed -/
theorem C14_plates_partition (s : Screen) (pid : Nat) :
    (∀ (p : Int) (i : Nat) (hi : i < s.pids.length), (s.getPlate pid p).sel[i]? = some true ↔ s.pids[i] = p) ∧
    (∀ p, (s.getPlate pid p).sel.length = s.pids.length ∧ (s.getPlate pid p).parent = pid) ∧
    s.plates pid = s.uniquePlateIds.map (s.getPlate pid) ∧ s.uniquePlateIds.Pairwise (· < ·) ∧
    (∀ p, p ∈ s.uniquePlateIds ↔ p ∈ s.pids) := by
  refine ⟨fun p i hi => ?_, fun p => ⟨by simp [Screen.getPlate], rfl⟩, rfl, sortedUniqueInts_strict s.pids, fun p => mem_sortedUniqueInts s.pids p⟩
  simp [Screen.getPlate, List.getElem?_eq_getElem hi]

/-- the denotation is built from the set operations: complement, union, nested selection -/
theorem C14_denote_algebra (s : Screen) :
    (∀ e, denote s (.inv e) = (denote s e).map (!·)) ∧
    (∀ a b, denote s (.comb a b) = orSel (denote s a) (denote s b)) ∧
    (∀ e inner, denote s (.sub e inner) = scatter (denote s e) inner) ∧
    (∀ a b, denote s (.cat [a, b]) = denote s (.comb a b)) ∧
    (∀ a, denote s (.cat [a]) = denote s a) ∧
    (∀ a b c, denote s (.cat [a, b, c]) = orSel (orSel (denote s a) (denote s b)) (denote s c)) ∧
    denote s .observed = s.mask ∧ denote s .unobserved = s.mask.map (!·) ∧
    (∀ id, denote s (.plate id) = s.pids.map (· == id)) := by
  refine ⟨fun _ => ?_, fun _ _ => ?_, fun _ _ => ?_, fun _ _ => ?_, fun _ => ?_, fun _ _ _ => ?_, ?_, ?_, fun _ => ?_⟩ <;>
    simp [denote, denoteFold]

/-! ### non-vacuity -/

/-- a well-formed 5-row screen (two plates, one observed), built by `mk?` (C01) -/
def exRaw : Raw :=
  { ctrl := [100], arity := 2,
    tnames := [[[1], [2]], [[100], [1]], [[1], [2]], [[2], [1]], [[1], [2]]],
    tdoses := [[1, 1], [1, 2], [1, 1], [1, 1], [1, 1]],
    snames := [[7], [5], [7], [7], [5]], pnames := [[1], [1], [2], [2], [2]],
    obs := some [11, 12, 13, 14, 15], mask := some [true, true, false, false, false], tmap := none, smap := none }

example : ∃ s, mk? exRaw = .ok s ∧ WF s ∧ s.size = 5 := by
  have h := mk?_fresh exRaw
    { len_tdoses := by decide, len_snames := by decide, len_pnames := by decide, arity_tnames := by decide,
      arity_tdoses := by decide, mask_needs_obs := by decide, len_obs := by decide, len_mask := by decide,
      uniform := by decide } rfl rfl
  exact ⟨_, h, wf_of_mk? _ _ h, rfl⟩

/-- hypotheses of `C14_compose` / `C14_union` / `C14_unique_exactly_one`, with overlapping, empty and full masks -/
example : scatter [true, false, true, true, false] [false, true, true] = [false, false, true, true, false] := by decide
example : ([false, true, true] : List Bool).length = ([true, false, true, true, false] : List Bool).count true := by decide
example : uniqueMask [3, 1, 3, 2, 1, 3] = [true, true, false, true, false, false] := by decide
example : orSel [true, false, false] [true, true, false] = [true, true, false] := by decide
example : scatter [false, false] [] = [false, false] ∧ scatter [true, true] [true, true] = [true, true] := by decide

/-- `C14_select_unique` on sentinel-heavy columns: an all-control column, and the pair (1, -1) / (0, 2) that collides under
    mixed-radix packing -/
example : (selectUnique [[0, 0, 1, 0], [-1, -1, -1, -1]]).toOption = some [true, false, true, false] := by decide
example : (selectUnique [[1, 0, 1, 0], [-1, 2, -1, 2]]).toOption = some [true, true, false, false] := by decide
example : (selectUnique [[1, 2], [1]]).toOption = none ∧ (∃ x ∈ [[(1 : Int)]], x.length ≠ [(1 : Int), 2].length) := by decide

end Batchie.Props.C14
