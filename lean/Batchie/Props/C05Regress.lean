/-
  C05 -- the triple BUDGET: positive theorems made explicit after the later rounds of seeded changes, and
  REGRESSION lemmas (a mutated definition from `Model/DbalBudget.lean` + a refutation on a concrete witness).
-/
import Batchie.Props.C05
import Batchie.Model.DbalBudget

namespace Batchie.Props.C05

open Batchie.Dbal Batchie.UnrankCallsite Batchie.DbalBudget
open Batchie.Lemmas.Unrank (comb3_eq map_toTriple_allTriples)

/-- there are `C(n,3)` triples -/
theorem length_allTriples (n : Nat) : (allTriples n).length = n.choose 3 := by
  have hp := (Batchie.Props.C15.C15_triples n).2.2 (List.range (n.choose 3)) (List.Perm.refl _)
  rw [← map_toTriple_allTriples, List.length_map, ← hp.length_eq]
  simp

/-- (S7-C05) POSITIVE, general: for every number of posterior samples `n` and EVERY budget `≥ C(n,3)` --
    `budget = C(n,3)` INCLUDED -- and every draw satisfying numpy's contract, the triples the kernel uses are
    exactly all `C(n,3)` triples, each once. -/
theorem C05_all_triples_each_once_when_budget_covers (n budget : Nat) (hb : n.choose 3 ≤ budget) (choice : List Nat)
    (hc : ChoiceContract (comb3 n) (nCombos n budget) choice) :
    (triplesOf n choice).Perm (allTriples n) ∧ (triplesOf n choice).Nodup ∧ (triplesOf n choice).length = n.choose 3 := by
  obtain ⟨hlen, hnd, _, hperm⟩ := Batchie.Props.C15.C15_callsite n budget choice hc
  exact ⟨hperm hb, hnd, by rw [hlen, Nat.min_eq_left hb]⟩

/-- … the equality case spelled out: a budget of EXACTLY `C(n,3)`. -/
theorem C05_all_triples_each_once_at_budget_equal (n : Nat) (choice : List Nat)
    (hc : ChoiceContract (comb3 n) (nCombos n (n.choose 3)) choice) :
    (triplesOf n choice).Perm (allTriples n) ∧ (triplesOf n choice).Nodup ∧ (triplesOf n choice).length = n.choose 3 :=
  C05_all_triples_each_once_when_budget_covers n (n.choose 3) (le_refl _) choice hc

/-- the intended two-branch selection (`≤`) enumerates every index once whenever the budget covers `C(n,3)`,
    equality included, whatever the with-replacement generator would have returned (general). -/
theorem selectLe_all (n budget : Nat) (hb : n.choose 3 ≤ budget) (withRepl : List Nat) :
    selectLe n budget withRepl = List.range (n.choose 3) := by
  unfold selectLe
  rw [comb3_eq, if_pos hb]

/-- (S5-C05 and its sibling) POSITIVE, general: through EVERY entry point the kernel receives the caller's budget,
    so a caller budget `≥ C(n,3)` is honoured: the triples used are all triples, each once. -/
theorem C05_every_entry_point_honours_budget (ep : EntryPoint) (n caller : Nat) (hb : n.choose 3 ≤ caller) (choice : List Nat)
    (hc : ChoiceContract (comb3 n) (nCombos n (kernelBudget ep caller)) choice) :
    kernelBudget ep caller = caller ∧ (triplesOf n choice).Perm (allTriples n) ∧ (triplesOf n choice).Nodup :=
  ⟨rfl, (C05_all_triples_each_once_when_budget_covers n caller hb choice hc).1,
    (C05_all_triples_each_once_when_budget_covers n caller hb choice hc).2.1⟩

/-- (S7-C05) REGRESSION, witness: with the strict comparison, `n = 4` and `budget = 4 = C(4,3)` take the
    sampling branch; `[0, 0, 1, 2]` is a possible outcome of `rng.integers(4, size=4)`; the triples then used
    repeat `(2,1,0)` and never contain `(3,2,1)`: not "all triples, each once". -/
theorem C05_S7_strict_budget_counterexample :
    selectS7 4 4 [0, 0, 1, 2] = [0, 0, 1, 2] ∧
    triplesOf 4 (selectS7 4 4 [0, 0, 1, 2]) = [(2, 1, 0), (2, 1, 0), (3, 1, 0), (3, 2, 0)] ∧
    ¬ (triplesOf 4 (selectS7 4 4 [0, 0, 1, 2])).Nodup ∧
    (3, 2, 1) ∈ allTriples 4 ∧ (3, 2, 1) ∉ triplesOf 4 (selectS7 4 4 [0, 0, 1, 2]) ∧
    selectLe 4 4 [0, 0, 1, 2] = [0, 1, 2, 3] := by
  have h : triplesOf 4 (selectS7 4 4 [0, 0, 1, 2]) = [(2, 1, 0), (2, 1, 0), (3, 1, 0), (3, 2, 0)] := by decide +kernel
  refine ⟨by decide +kernel, h, ?_, by decide +kernel, ?_, by decide +kernel⟩
  · rw [h]; decide
  · rw [h]; decide

/-- (S5-C05) REGRESSION: with the homoscedastic wrapper dropping `max_combos` the kernel runs with the default 5000;
    for `n = 34` (`C(34,3) = 5984 > 5000`) NO caller budget is honoured: whatever the caller asks for (also
    `≥ 5984`) and whatever numpy draws, only 5000 triples are used, never all of them. -/
theorem C05_S5_dropped_budget_counterexample (caller : Nat) (choice : List Nat)
    (hc : ChoiceContract (comb3 34) (nCombos 34 (kernelBudgetS5 .homoscedastic caller)) choice) :
    kernelBudgetS5 .homoscedastic caller = 5000 ∧ (triplesOf 34 choice).length = 5000 ∧
    ¬ (triplesOf 34 choice).Perm (allTriples 34) := by
  have hn : nCombos 34 (kernelBudgetS5 .homoscedastic caller) = 5000 := by
    show nCombos 34 defaultBudget = 5000
    decide
  have hlen : (triplesOf 34 choice).length = 5000 := by
    simp only [triplesOf, List.length_map]
    rw [hc.2.2, hn]
  refine ⟨rfl, hlen, fun hp => ?_⟩
  have := hp.length_eq
  rw [hlen, length_allTriples] at this
  have h34 : Nat.choose 34 3 = 5984 := by rw [← comb3_eq]; decide
  omega

/-- the unmutated forwarding at the same point: the caller's 5984 reaches the kernel -/
example : kernelBudget .homoscedastic 5984 = 5984 ∧ kernelBudgetS5 .homoscedastic 5984 = 5000 ∧
    kernelBudgetS5 .scorer 5984 = 5984 ∧ comb3 34 = 5984 := by decide

/-- `n = 4`, `budget = 4 = C(4,3)`: a draw satisfying numpy's contract exists, and the theorem applies to it -/
example : ChoiceContract (comb3 4) (nCombos 4 (Nat.choose 4 3)) [2, 0, 3, 1] ∧ Nat.choose 4 3 = 4 := by decide
example : (triplesOf 4 [2, 0, 3, 1]).Perm (allTriples 4) :=
  (C05_all_triples_each_once_at_budget_equal 4 [2, 0, 3, 1] (by decide)).1
example : triplesOf 4 [2, 0, 3, 1] = [(3, 2, 0), (2, 1, 0), (3, 2, 1), (3, 1, 0)] := by decide +kernel

/-- a contract-satisfying draw of the S5 regression exists: the first 5000 indices -/
example : ChoiceContract (comb3 34) (nCombos 34 (kernelBudgetS5 .homoscedastic 20000)) (List.range 5000) :=
  ⟨List.nodup_range, fun i hi => by have := List.mem_range.1 hi; have : comb3 34 = 5984 := by decide
                                    omega, by simp; decide⟩

/-- (S8-C05) the "square the means once per theta" rewrite `m_i² + m_j² - 2 m_i m_j` of `(m_i - m_j)²` is an identity in EVERY
    commutative ring: over exact arithmetic the two kernels are the same function, so no theorem of this file (all stated over ℝ) can
    distinguish them -- the rewrite is invisible to the model.  What differs is the rounding error (2^-52 · m² instead of
    2^-52 · (m_i - m_j)²: catastrophic cancellation when the means share a large offset); that is decided by the floating-point oracle
    alone (harness class `offset-means`, tolerance from the condition of the sum). -/
theorem C05_expanded_square_invisible {R : Type} [CommRing R] (a b : R) :
    a * a + b * b - 2 * (a * b) = (a - b) * (a - b) := by ring

/-- … the same statement with the model's own `sq` (`np.square`) at ℝ, in the shape the `d12 / d13 / d23` terms of `comboTerm` have:
    `v · sq (m_i - m_j) = v · (sq m_i + sq m_j - 2 m_i m_j)`. -/
theorem C05_expanded_square_invisible_model (v a b : ℝ) :
    v * Batchie.Dbal.sq (a - b) = v * (Batchie.Dbal.sq a + Batchie.Dbal.sq b - (1 + 1) * (a * b)) := by
  unfold Batchie.Dbal.sq; ring

end Batchie.Props.C05
