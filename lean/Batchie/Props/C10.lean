/-
  C10 -- posterior-sample collections persist exactly and keep chain-major order.

  Property theorems about the hand model `Batchie.Model.Thetas` of `ThetaHolder`
  (core.py:100-263), the parameter dictionaries of both shipped sample types and the chain-id
  labelling of `cli/evaluate_model.py`.  Proof details are in `Batchie.Lemmas.Thetas`.

  Scope (honest label): the model is tied to the code by harness/c10.py; HDF5 container fidelity
  (h5py stores and returns the bytes it was given) is trusted, not proved.
-/
import Batchie.Lemmas.Thetas

/-!
## CLAUSE MAP (property text of C10 → theorems)

| clause of the statement | stated by |
|---|---|
| "saving a collection and loading it back preserves the NUMBER … of the samples" | `C10_load_save` (`load f' = .ok h`: the very holder, so same declared size and same number); for the collections the code produces, without abstract hypotheses: `C10_filled_holder_roundtrip` |
| "… the ORDER …" (≥ 10 samples: string versus numeric order of the group names) | `C10_numeric_sort_restores_order`, `C10_numeric_sort_payload` (any listing order of the names "0".."n-1", any n), used by `C10_load_save` for EVERY presentation `Presents f' f` of the file |
| "… and EVERY PARAMETER VALUE of the samples bit-for-bit" | `C10_load_save` (a value is dtype, shape and the list of its bit patterns; attributes and datasets of a group listed in any order; the single-effect table incl. the empty one); as written: `C10_load_save_as_written` |
| "so reloaded samples predict identically" | `C10_reload_predicts_identically` (any function of the samples) |
| hypothesis `Saveable` (size invariant, one class, one table, distinct keys) holds of what the code builds | `C10_filled_holder_saveable` (filled by `add_theta` from ONE model instance, any history of table updates; `tableOfPairs_keys_nodup`); needed: the `example` with two tables |
| "concatenating per-chain collections keeps chain-major order" | `C10_concat_chain_major` (all lists of holders; declared size = sum; refuses `[]`) |
| "… which is exactly the order in which model evaluation labels prediction columns with chain ids" | `C10_chain_ids_aligned`, `C10_chain_ids_pointwise` (any list = any order of the files), from the files: `C10_evaluate_saved_files` |
| "a collection refuses to grow beyond its declared size" | `C10_refusals` (1, 2), after concatenation: `C10_concat_preserves_fit`, `C10_concat_complete_refuses` |
| "refuses out-of-range access" | `C10_refusals` (3: every `i < 0` or `i ≥ length`; 4: every in-range index is served), `C10_concat_complete_refuses` |
| "refuses to be saved empty" | `C10_refusals` (5) |
| quantifier: any float64 incl. denormals / float32-unrepresentable | values are opaque bit lists in `C10_load_save`: nothing is computed on them |
| quantifier: all numbers of chains and samples per chain; all orders of the chain files | unbounded lists in every theorem; `C10_chain_ids_aligned` is for every list `hs` |
| quantifier: both sample types, empty single-effect table | `Sample.combo / .inter`, `Table = []` allowed; satisfiability `example`s |

| "refuses out-of-range access", negative indices spelled out / exact characterisation | `C10_get_theta_refuses_negative`, `C10_get_theta_iff` |

Regression (not a clause) -- definitions that are NOT the code, each refuted on a witness:
* S7-C10 `getThetaOld` (Python list indexing, `-n .. -1` served): `C10_get_theta_old_counterexample`;
* S5-C10 `sortByStringOld` (group names sorted as strings): `C10_string_sort_old_counterexample` (n = 11: `0, 1, 10, 2, …`); the positive side
  for every n and every listing order is `C10_numeric_sort_restores_order` / `C10_numeric_sort_payload`;
* fix-era: the `example` with two single-effect tables (shared parameters written from the first sample only).

harness-only (cannot be stated in this functional model):
* HDF5 / h5py container fidelity (a dataset / attribute comes back with the dtype, shape and bytes it was given; gzip;
  alphabetical listing) -- trusted, watched by the raw-file correspondence;
* "no parameter is a 0-d numpy array" for `get_model_state` (hypothesis `storable`): a numpy-level fact;
* aliasing: a result of combine/concat sharing its list with an operand, save_h5 mutating the arrays it stores, identity-keyed
  caches on temporaries, a file that already exists at the path -- value semantics has no object identity (reuse, temporaries,
  save-twice oracles of harness/c10.py);
* that predictions computed by numpy from bit-identical parameters are bit-identical (numpy determinism; `run_predict`).
-/

namespace Batchie.Props.C10
open Batchie.Proto Batchie.Thetas

/-! ### the numeric sort of the group names -/

/-- For every `n` and every order in which the container lists the group names
`"0", …, "n-1"` (HDF5: alphabetical, `"10" < "2"`), `sorted(keys, key=int)` yields
`"0", "1", …, "n-1"`. -/
theorem C10_numeric_sort_restores_order (n : Nat) (ks : List String)
    (hperm : ks.Perm ((List.range n).map toString)) :
    sortByInt (ks.map (fun k => (k, k))) = .ok ((List.range n).map toString) := by
  have := sortByInt_perm n (((List.range n).map toString).map (fun k => (k, k)))
    (ks.map (fun k => (k, k))) (by simp [List.map_map, Function.comp_def]) (hperm.map _)
  simp only [List.map_map, Function.comp_def] at this
  exact this

/-- … and the groups come back in the order in which they were written: for every list `l` of
groups written under the names `str(0), str(1), …` and every presentation order `l'` of it, the
sort returns the payloads of `l` in their original order. -/
theorem C10_numeric_sort_payload {α : Type} (l l' : List (String × α))
    (hkeys : l.map (·.1) = (List.range l.length).map toString) (hperm : l'.Perm l) :
    sortByInt l' = .ok (l.map (·.2)) :=
  sortByInt_perm l.length l l' hkeys hperm

/-! ### save / load -/

/-- The holders to which the persistence statement applies.  `fits` is the invariant that
`add_theta` maintains; `same` says that all samples belong to the first sample's class and carry
its single-effect table (`save_h5` writes class and shared parameters of the FIRST sample only --
true of every holder filled by one model instance); `table` is the invariant of a Python dict
(distinct keys); `storable` excludes 0-d numpy arrays, which h5py refuses to store compressed. -/
structure Saveable (h : Holder) : Prop where
  fits : h.thetas.length ≤ h.size
  same : ∀ t0 ∈ h.thetas.head?, ∀ t ∈ h.thetas, SameShared t0 t
  table : ∀ t0 ∈ h.thetas.head?, (t0.table.map (·.1)).Nodup
  storable : ∀ t ∈ h.thetas, dictStorable t.privDict = true

/-- Saving a non-empty collection succeeds, and loading ANY presentation of the written file
(children of `private_params`, attributes and datasets listed in any order) returns the same
declared size and the same samples -- same number, same order, every parameter value (dtype,
shape, bit patterns; the single-effect table including an empty one) identical. -/
theorem C10_load_save (h : Holder) (hne : h.thetas ≠ []) (hs : Saveable h) :
    ∃ f, save h = .ok f ∧ ∀ f', Presents f' f → load f' = .ok h := by
  obtain ⟨N, ts⟩ := h
  cases ts with
  | nil => exact absurd rfl hne
  | cons t0 rest =>
    exact load_save N t0 rest hs.fits (hs.same t0 (by simp)) hs.storable (hs.table t0 (by simp))

/-- `Saveable` is DISCHARGED for the collections the code produces: a collection filled through
`add_theta` (`fill`, the loop of `sampling.sample`) with states of ONE model instance `m` -- any
class, any history of `single_effect_lookup.update(…)` behind its table -- satisfies `fits` (by
`add_theta`'s refusal), `same` (the samples share the instance's table) and `table` (a dict built
by insertions has distinct keys: `tableOfPairs_keys_nodup`).  What remains is `storable`: no
parameter is a 0-d numpy array (`get_model_state` returns ≥ 1-d arrays and scalars -- a numpy-level
fact the functional model cannot derive). -/
theorem C10_filled_holder_saveable (m : Inst) (N : Nat) (ts : List Sample) (h : Holder)
    (hfill : fill N ts = .ok h) (hem : ∀ t ∈ ts, m.emits t)
    (hst : ∀ t ∈ ts, dictStorable t.privDict = true) :
    h = ⟨N, ts⟩ ∧ Saveable h := by
  obtain ⟨rfl, hlen⟩ := fill_ok N ts h hfill
  refine ⟨rfl, ⟨?_, ?_, ?_, hst⟩⟩
  · cases ts with
    | nil => simp
    | cons t ts => exact hlen (by simp)
  · intro t0 ht0 t ht
    have h0 : t0 ∈ ts := List.mem_of_mem_head? ht0
    exact ⟨(hem t ht).1.trans (hem t0 h0).1.symm, (hem t ht).2.trans (hem t0 h0).2.symm⟩
  · intro t0 ht0
    have h0 : t0 ∈ ts := List.mem_of_mem_head? ht0
    rw [(hem t0 h0).2]
    exact m.table_keys_nodup

/-- … hence the persistence statement without the abstract hypothesis: every non-empty collection
filled by one model instance is saved, and every presentation of its file loads back to exactly
that collection -/
theorem C10_filled_holder_roundtrip (m : Inst) (N : Nat) (ts : List Sample) (h : Holder)
    (hne : ts ≠ []) (hfill : fill N ts = .ok h) (hem : ∀ t ∈ ts, m.emits t)
    (hst : ∀ t ∈ ts, dictStorable t.privDict = true) :
    ∃ f, save h = .ok f ∧ ∀ f', Presents f' f → load f' = .ok h := by
  obtain ⟨rfl, hs⟩ := C10_filled_holder_saveable m N ts h hfill hem hst
  exact C10_load_save ⟨N, ts⟩ hne hs

/-- in particular the file exactly as written -/
theorem C10_load_save_as_written (h : Holder) (hne : h.thetas ≠ []) (hs : Saveable h) :
    ∃ f, save h = .ok f ∧ load f = .ok h := by
  obtain ⟨f, h1, h2⟩ := C10_load_save h hne hs
  exact ⟨f, h1, h2 f (Presents.refl f)⟩

/-- "so reloaded samples predict identically": any function of the samples (the predictor on any
screen) gives the same values before and after the round trip. -/
theorem C10_reload_predicts_identically {β : Type} (predict : Sample → β) (h : Holder)
    (hne : h.thetas ≠ []) (hs : Saveable h) (f f' : H5) (h' : Holder)
    (hsave : save h = .ok f) (hp : Presents f' f) (hload : load f' = .ok h') :
    h'.thetas.map predict = h.thetas.map predict := by
  obtain ⟨f0, h1, h2⟩ := C10_load_save h hne hs
  rw [hsave] at h1
  cases h1
  rw [h2 f' hp] at hload
  cases hload
  rfl

/-! ### concatenation and chain ids -/

/-- `concat` keeps chain-major order: all samples of the first collection in step order, then
the second, …; the declared size is the sum; it refuses the empty list. -/
theorem C10_concat_chain_major (hs : List Holder) :
    (hs = [] → concat hs = .error .valueError) ∧
    (hs ≠ [] → ∃ r, concat hs = .ok r ∧ r.thetas = hs.flatMap (·.thetas) ∧
      r.size = (hs.map (·.size)).sum) := by
  constructor
  · rintro rfl; rfl
  · intro hne
    cases hs with
    | nil => exact absurd rfl hne
    | cons h rest => exact ⟨_, concat_eq h rest, rfl, rfl⟩

/-- the invariant `add_theta` maintains (number of samples ≤ declared size) is preserved by
`concat`, so the result is again a collection to which `C10_refusals` and `C10_load_save` apply -/
theorem C10_concat_preserves_fit (hs : List Holder) (r : Holder) (hr : concat hs = .ok r)
    (hfit : ∀ h ∈ hs, h.thetas.length ≤ h.size) : r.thetas.length ≤ r.size := by
  have hne : hs ≠ [] := by rintro rfl; simp [concat] at hr
  obtain ⟨r', h1, h2, h3⟩ := (C10_concat_chain_major hs).2 hne
  rw [hr] at h1
  cases h1
  rw [h2, h3]
  clear hr h2 h3 hne
  induction hs with
  | nil => simp
  | cons h hs ih =>
    have := hfit h (by simp)
    have := ih (fun x hx => hfit x (by simp [hx]))
    simp only [List.flatMap_cons, List.length_append, List.map_cons, List.sum_cons]
    omega

/-- concatenating COMPLETE per-chain collections gives a complete collection: it holds exactly
the declared number of samples, refuses every further `add_theta`, and refuses access at index
`size` (and at every index outside `0 .. size-1`) -/
theorem C10_concat_complete_refuses (hs : List Holder) (hne : hs ≠ [])
    (hc : ∀ h ∈ hs, h.isComplete = true) :
    ∃ r, concat hs = .ok r ∧ r.thetas.length = r.size ∧
      (∀ t, addTheta r t = .error .valueError) ∧
      (∀ i : Int, (i < 0 ∨ i ≥ r.size) → getTheta r i = .error .valueError) := by
  obtain ⟨r, h1, h2, h3⟩ := (C10_concat_chain_major hs).2 hne
  have hlen : r.thetas.length = r.size := by
    rw [h2, h3]
    exact length_flatMap_thetas hs (fun x hx => by simpa [Holder.isComplete] using hc x hx)
  refine ⟨r, h1, hlen, ?_, ?_⟩
  · intro t
    have : r.thetas.length ≥ r.size := by omega
    simp [addTheta, this]
  · intro i hi
    have : i > (r.thetas.length : Int) - 1 ∨ i < 0 := by omega
    simp [getTheta, this]

/-- `evaluate_model`: for complete per-file collections, given in ANY order on the command line
(the statement is for every list `hs`), the labelled prediction columns are exactly: for the
`i`-th file, in order, each of its samples in step order, labelled `i`.  So column `j` carries
label `i` iff the `j`-th sample of the concatenation came from the `i`-th file. -/
theorem C10_chain_ids_aligned (hs : List Holder) (hne : hs ≠ [])
    (hc : ∀ h ∈ hs, h.isComplete = true) :
    evaluate hs = .ok (hs.zipIdx.flatMap (fun p => p.1.thetas.map (fun t => (p.2, t)))) := by
  cases hs with
  | nil => exact absurd rfl hne
  | cons h rest =>
    exact evaluate_complete h rest (fun x hx => by simpa [Holder.isComplete] using hc x hx)

/-- pointwise reading of the previous theorem: the label of every column is the index of the
file its sample came from, and the sample is that file's sample at that step -/
theorem C10_chain_ids_pointwise (hs : List Holder) (hne : hs ≠ [])
    (hc : ∀ h ∈ hs, h.isComplete = true) (cols : List (Nat × Sample))
    (he : evaluate hs = .ok cols) (i : Nat) (t : Sample) (hmem : (i, t) ∈ cols) :
    ∃ h, hs[i]? = some h ∧ t ∈ h.thetas := by
  rw [C10_chain_ids_aligned hs hne hc] at he
  cases he
  simp only [List.mem_flatMap, List.mem_map, Prod.mk.injEq] at hmem
  obtain ⟨p, hp, t', ht', rfl, rfl⟩ := hmem
  obtain ⟨h, i⟩ := p
  have := List.mem_zipIdx hp
  simp at this
  exact ⟨h, by simp [this.2], ht'⟩

/-- `evaluate_model.main` end to end: complete collections saved one file per chain, the files
handed over in any order and each presented by the container in any order, give exactly the
labelled columns "file index, sample" in chain-major order. -/
theorem C10_evaluate_saved_files (hs : List Holder) (fs : List H5) (hne : hs ≠ [])
    (hc : ∀ h ∈ hs, h.isComplete = true) (hsv : ∀ h ∈ hs, h.thetas ≠ [] ∧ Saveable h)
    (hfiles : List.Forall₂ (fun f' h => ∃ f, save h = .ok f ∧ Presents f' f) fs hs) :
    evaluateFiles fs = .ok (hs.zipIdx.flatMap (fun p => p.1.thetas.map (fun t => (p.2, t)))) := by
  have hload : fs.mapM load = .ok hs := by
    clear hne hc
    induction hfiles with
    | nil => rfl
    | @cons f' h fs hs hd _ ih =>
      obtain ⟨f, hsave, hpres⟩ := hd
      obtain ⟨f0, h1, h2⟩ := C10_load_save h (hsv h (by simp)).1 (hsv h (by simp)).2
      rw [hsave] at h1
      cases h1
      rw [List.mapM_cons, h2 f' hpres, ih (fun x hx => hsv x (by simp [hx]))]
      rfl
  unfold evaluateFiles
  rw [hload]
  exact C10_chain_ids_aligned hs hne hc

/-! ### refusals -/

/-- a collection refuses to grow beyond its declared size, refuses out-of-range access (and
serves every in-range index), and refuses to be saved empty -/
theorem C10_refusals :
    (∀ (h : Holder) (t : Sample), h.thetas.length ≥ h.size → addTheta h t = .error .valueError) ∧
    (∀ (h : Holder) (t : Sample), h.thetas.length < h.size →
        addTheta h t = .ok ⟨h.size, h.thetas ++ [t]⟩) ∧
    (∀ (h : Holder) (i : Int), (i < 0 ∨ i ≥ h.thetas.length) → getTheta h i = .error .valueError) ∧
    (∀ (h : Holder) (i : Nat) (hi : i < h.thetas.length), getTheta h i = .ok h.thetas[i]) ∧
    (∀ n : Nat, save ⟨n, []⟩ = .error .valueError) := by
  refine ⟨?_, ?_, ?_, ?_, ?_⟩
  · intro h t hge; simp [addTheta, hge]
  · intro h t hlt
    have : ¬ h.thetas.length ≥ h.size := by omega
    simp [addTheta, this]
  · intro h i hi
    have : i > (h.thetas.length : Int) - 1 ∨ i < 0 := by omega
    simp [getTheta, this]
  · intro h i hi
    have : ¬ ((i : Int) > (h.thetas.length : Int) - 1 ∨ (i : Int) < 0) := by omega
    simp [getTheta, this, hi]
  · intro n; rfl

/-! ### regression lemmas (seeded changes of later rounds; the definitions are NOT the code) -/

/-- "refuses out-of-range access", negative side spelled out: EVERY index `-n .. -1` of a
collection of `n` samples (and everything below) is refused -- the code does not follow Python's
list convention.  (Instance of `C10_refusals`, clause 3.) -/
theorem C10_get_theta_refuses_negative (h : Holder) (i : Int) (hi : i ≤ -1) :
    getTheta h i = .error .valueError :=
  C10_refusals.2.2.1 h i (Or.inl (by omega))

/-- the access function is exactly "serve `0 .. n-1`, refuse every other integer" -/
theorem C10_get_theta_iff (h : Holder) (i : Int) :
    (∃ t, getTheta h i = .ok t) ↔ (0 ≤ i ∧ i < h.thetas.length) := by
  constructor
  · rintro ⟨t, ht⟩
    by_cases hr : 0 ≤ i ∧ i < h.thetas.length
    · exact hr
    · have : i < 0 ∨ i ≥ h.thetas.length := by omega
      rw [C10_refusals.2.2.1 h i this] at ht
      cases ht
  · rintro ⟨h0, h1⟩
    have hn : i.toNat < h.thetas.length := by omega
    have := C10_refusals.2.2.2.1 h i.toNat hn
    rw [Int.toNat_of_nonneg h0] at this
    exact ⟨_, this⟩

/-- S7-C10 (`get_theta` with list negative indexing): the regression definition serves index `-1`
of a one-sample collection -- an out-of-range access is NOT refused; the code's definition refuses it -/
theorem C10_get_theta_old_counterexample :
    (getThetaOld ⟨1, [Sample.inter ⟨0, none, [7]⟩ ⟨0, none, [7]⟩ ⟨0, none, [7]⟩ []]⟩ (-1)).toOption
      = some (Sample.inter ⟨0, none, [7]⟩ ⟨0, none, [7]⟩ ⟨0, none, [7]⟩ []) ∧
    (getTheta ⟨1, [Sample.inter ⟨0, none, [7]⟩ ⟨0, none, [7]⟩ ⟨0, none, [7]⟩ []]⟩ (-1)).toOption = none := by
  decide

/-- S5-C10 (group names sorted as strings): for 11 samples the string order of the names
`"0" .. "10"` is `0, 1, 10, 2, …` -- the samples come back PERMUTED (sample 10 in third place);
sorting by integer value (`sortByInt`, the code) restores `0 .. 10`
(`C10_numeric_sort_restores_order` for every n and every listing order). -/
theorem C10_string_sort_old_counterexample :
    sortByStringOld ((List.range 11).map (fun i => (toString i, i)))
      = [0, 1, 10, 2, 3, 4, 5, 6, 7, 8, 9] ∧
    (sortByInt ((List.range 11).map (fun i => (toString i, i)))).toOption
      = some (List.range 11) := by
  constructor
  · decide +kernel
  · have := C10_numeric_sort_payload ((List.range 11).map (fun i => (toString i, i)))
      ((List.range 11).map (fun i => (toString i, i))) (by simp [List.map_map, Function.comp_def]) (List.Perm.refl _)
    rw [this]
    simp [Except.toOption, List.map_map, Function.comp_def]

/-! ### non-vacuity -/

private def v (x : Int) : Val := ⟨0, some [1], [x]⟩
private def s (x : Int) : Val := ⟨0, none, [x]⟩
private def tC (x : Int) : Sample := .combo (v x) (v x) (v x) (v x) (v x) (s x) (s 1)
private def tI (x : Int) : Sample := .inter (v x) (v x) (s x) [((0, -1), 7), ((0, 3), 9)]
private def tE (x : Int) : Sample := .inter (v x) (v x) (s x) []

/-- the hypotheses of `C10_load_save` are satisfiable for both sample types, with an empty
single-effect table, and with a declared size larger than the number of samples -/
example : Saveable ⟨3, [tC 5, tC 6]⟩ ∧ Saveable ⟨2, [tI 5, tI 6]⟩ ∧ Saveable ⟨2, [tE 1, tE 2]⟩ := by
  refine ⟨⟨by decide, ?_, ?_, by decide⟩, ⟨by decide, ?_, ?_, by decide⟩, ⟨by decide, ?_, ?_, by decide⟩⟩ <;>
    simp [SameShared, Sample.cls, Sample.table, tC, tI, tE]

/-- the hypotheses of `C10_concat_complete_refuses` / `C10_chain_ids_aligned` are satisfiable with
chains of UNEQUAL length (2 + 1 samples), and the labelled columns are then `0,0,1` -/
example : (∀ h ∈ [(⟨2, [tC 5, tC 6]⟩ : Holder), ⟨1, [tC 7]⟩], h.isComplete = true) ∧
    (evaluate [⟨2, [tC 5, tC 6]⟩, ⟨1, [tC 7]⟩]).toOption = some [(0, tC 5), (0, tC 6), (1, tC 7)] ∧
    (evaluate [⟨1, [tC 7]⟩, ⟨2, [tC 5, tC 6]⟩]).toOption = some [(0, tC 7), (1, tC 5), (1, tC 6)] := by
  decide

/-- the hypotheses of `C10_filled_holder_roundtrip` are satisfiable: an interaction model whose
table was built by three insertions, one of them overwriting an earlier key (a later instalment of
`add_observations`), emits two samples into a collection of declared size 3 -/
example :
    let m : Inst := ⟨.inter, [((0, -1), 7), ((0, 3), 9), ((0, -1), 8)]⟩
    let t := fun (x : Int) => Sample.inter (v x) (v x) (s x) m.table
    m.table = [((0, -1), 8), ((0, 3), 9)] ∧ (fill 3 [t 1, t 2]).toOption = some ⟨3, [t 1, t 2]⟩ ∧
      m.emits (t 1) ∧ m.emits (t 2) ∧ dictStorable (t 1).privDict = true := by
  refine ⟨by decide, by decide, ⟨rfl, rfl⟩, ⟨rfl, rfl⟩, by decide⟩

/-- the hypothesis `same` is needed: the shared parameters are written from the first sample
only, so a collection mixing two different single-effect tables does not survive the round trip
(both samples come back with the first table). Such a collection cannot be produced by one model
instance. -/
example :
    fromDicts .inter (splitDict (tE 2).privDict).dict (splitDict (tI 1).sharedDict).dict
      = .ok (.inter (v 2) (v 2) (s 2) [((0, -1), 7), ((0, 3), 9)]) := by
  decide

end Batchie.Props.C10
