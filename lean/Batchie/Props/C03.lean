/-
  C03 -- identifiers stay stable through the whole simulation lifecycle.

  Model: the lifecycle steps of Model/Retro.lean (`step`: mask, unmask, reveal, save+load, hold-out training
  half, hold-out test half), each constructing its result through `Screen.mk?` with the parent's mappings, as
  the code does since commit 141f07a; `stepOld` is the lifecycle with the constructors as they were before.
  Tied to /repo by harness/c03.py.

  CLAUSE MAP (property text -> theorem)
  1. "All screens derived from one prepared simulation ... assign the same integer id to the same sample name and to the
     same (treatment name, dose)"                      C03_ids_agree_across_histories (any two stages of any two histories, the
                                                       prepared screen included); parts: C03_history, C03_same_name_same_id,
                                                       C03_same_name_same_id_histories; converse C03_same_id_same_name with
                                                       C03_fresh_tables_injective
  2. "- the training screen, the held-out test screen" C03_holdout_total (both halves EXIST for every selection of the screen's
                                                       length), C03_holdout_preserves_mappings, C03_holdout_rows
  3. "- and every screen obtained from them by revealing, masking or unmasking plates or by saving and reloading"
                                                       C03_step_preserves_mappings (each step), C03_lifecycle_total (which steps can
                                                       fail at all: only a refused reveal, a reload of a screen without rows or
                                                       columns -- known finding C02:zero-row-screen -- and a selection of the wrong
                                                       length), C03_history (induction over histories)
  4. "Consequently posterior samples learned on one stage produce identical predictions for the same experiments on every
     later stage"                                      premise "the ids used when training are the ids of the later stages":
                                                       Props/C03Train.lean -- C03_training_ids_are_stage_ids (what train_model hands the
                                                       model decodes through the stage's tables), C03_training_ids_agree_across_histories
                                                       (= the prepared screen's ids at every stage), C03_training_materialised_counterexample
                                                       (the to_screen() variant, seeded change S7-C03, refuted);
                                                       conclusion: C03_predictions_stable, C03_predictions_stable_incl_prepared -- for every
                                                       predictor that is a function of (sample id, treatment ids) of the row; that the
                                                       real predictors are of this form is C09 (C09's theorems), the real
                                                       SparseDrugComboMCMCSample is exercised by the harness
  5. "the embedding sizes implied by the screen never shrink between stages"
                                                       C03_space_never_shrinks (they are equal at every stage)
  6. quantifier "in particular those where some sample or (treatment, dose) occurs only in held-out rows"
                                                       all theorems quantify over every selection; the witness examples at the end show
                                                       such a screen satisfies the hypotheses
  7. quantifier "for any order in which plates are revealed"   histories are arbitrary lists of steps with arbitrary id lists
  Regression (not a clause): C03_old_constructors_counterexample / _renumber / C03_new_constructors_on_witness.
  Harness-only: nothing of the text; the hold-out's random choice is an explicit selection vector (numpy's generator is not
  modelled), and the CLI `reveal_plate` is the composition save+load, reveal, save+load of modelled steps.
-/
import Batchie.Lemmas.LifecycleHistory
import Batchie.Lemmas.LifecycleHoldout
import Batchie.Lemmas.LifecycleExamples
import Batchie.Lemmas.LifecycleInj
import Batchie.Model.Persist

namespace Batchie.Props.C03
open Batchie.Proto Batchie.Screen Batchie.Retro Batchie.Persist Batchie.Lifecycle

/-- Each single step returns a screen whose treatment and sample mappings are the parent's (and a constructed
    screen of the same arity and control name). -/
theorem C03_step_preserves_mappings (op : Op) (s t : Screen) (h : step op s = .ok t) :
    t.tmap = s.tmap ∧ t.smap = s.smap ∧ t.arity = s.arity ∧ t.ctrl = s.ctrl ∧ Valid t :=
  ⟨(step_maps h).2.1, (step_maps h).2.2, (step_arity_ctrl h).1, (step_arity_ctrl h).2, (step_maps h).1⟩

/-- both halves of a hold-out split (any selection vector) carry the parent's mappings -/
theorem C03_holdout_preserves_mappings (s k t : Screen) (sel : List Bool) (h : holdout s sel = .ok (k, t)) :
    (k.tmap = s.tmap ∧ k.smap = s.smap) ∧ (t.tmap = s.tmap ∧ t.smap = s.smap) :=
  ⟨(holdout_maps h).1.2, (holdout_maps h).2.2⟩

/-- ... and their rows are exactly the parent's rows outside / inside the selection, in order (so "the same
    experiment" in a half and in the prepared screen is the same (sample, treatments, doses) row); the held-out
    half is marked all observed, the training half keeps its mask -/
theorem C03_holdout_rows (s k t : Screen) (sel : List Bool) (h : holdout s sel = .ok (k, t)) :
    (k.tnames = maskFilter s.tnames (sel.map (!·)) ∧ k.tdoses = maskFilter s.tdoses (sel.map (!·))
      ∧ k.snames = maskFilter s.snames (sel.map (!·)) ∧ k.pnames = maskFilter s.pnames (sel.map (!·))
      ∧ k.obs = maskFilter s.obs (sel.map (!·)) ∧ k.mask = maskFilter s.mask (sel.map (!·)))
    ∧ (t.tnames = maskFilter s.tnames sel ∧ t.tdoses = maskFilter s.tdoses sel
      ∧ t.snames = maskFilter s.snames sel ∧ t.pnames = maskFilter s.pnames sel
      ∧ t.obs = maskFilter s.obs sel ∧ t.mask = List.replicate (sel.count true) true) :=
  holdout_rows h

/-- what "the ids of `t` are read off the tables `tm`, `sm`" means, row by row -/
structure EncodedBy (tm : TMap) (sm : SMap) (t : Screen) : Prop where
  treat : ∀ r c, r < t.size → c < t.arity →
    tLookup tm ((t.tnames[r]!)[c]!, (t.tdoses[r]!)[c]!) = [(t.tids[r]!)[c]!]
  sample : ∀ r, r < t.size → sLookup sm (t.snames[r]!) = [t.sids[r]!]

theorem encodedBy_self (t : Screen) (h : Valid t) : EncodedBy t.tmap t.smap t := by
  have w := h.wf
  have e := rowsEncoded_of_wf w
  exact { treat := fun r c hr hc => e.treat r c (by rw [← size_eq w]; exact hr) hc
          sample := fun r hr => e.sample r hr }

/-- Induction over an arbitrary history from any prepared screen `p`: every derived screen carries `p`'s two
    mappings, hence every one of its ids is the lookup of the row's name (and dose) in ONE fixed pair of
    tables -- those of the prepared screen. -/
theorem C03_history (ops : List Op) (p : Screen) (trace : List Screen) (hrun : run step ops p = .ok trace) :
    ∀ t ∈ trace, t.tmap = p.tmap ∧ t.smap = p.smap ∧ t.arity = p.arity ∧ t.ctrl = p.ctrl
      ∧ EncodedBy p.tmap p.smap t := by
  have hinv : ∀ t ∈ trace, t.tmap = p.tmap ∧ t.smap = p.smap ∧ t.arity = p.arity ∧ t.ctrl = p.ctrl := by
    refine run_invariant (st := step) (fun t => t.tmap = p.tmap ∧ t.smap = p.smap ∧ t.arity = p.arity ∧ t.ctrl = p.ctrl)
      ?_ ops p trace ⟨rfl, rfl, rfl, rfl⟩ hrun
    intro op s t hs hst
    have := C03_step_preserves_mappings op s t hst
    exact ⟨this.1.trans hs.1, this.2.1.trans hs.2.1, this.2.2.1.trans hs.2.2.1, this.2.2.2.1.trans hs.2.2.2⟩
  intro t ht
  have hv := run_step_valid ops p trace hrun t ht
  obtain ⟨h1, h2, h3, h4⟩ := hinv t ht
  refine ⟨h1, h2, h3, h4, ?_⟩
  have := encodedBy_self t hv
  rw [h1, h2] at this
  exact this

/-- Same name => same id, across any two stages of any two histories from the same prepared screen (training
    side, test side, any order of reveals ...), including the prepared screen itself (empty history). -/
theorem C03_same_name_same_id (tm : TMap) (sm : SMap) (t1 t2 : Screen) (h1 : EncodedBy tm sm t1)
    (h2 : EncodedBy tm sm t2) (r1 r2 : Nat) (hr1 : r1 < t1.size) (hr2 : r2 < t2.size) :
    (t1.snames[r1]! = t2.snames[r2]! → t1.sids[r1]! = t2.sids[r2]!)
    ∧ (∀ c1 c2, c1 < t1.arity → c2 < t2.arity →
        (t1.tnames[r1]!)[c1]! = (t2.tnames[r2]!)[c2]! → (t1.tdoses[r1]!)[c1]! = (t2.tdoses[r2]!)[c2]! →
        (t1.tids[r1]!)[c1]! = (t2.tids[r2]!)[c2]!) := by
  constructor
  · intro hn
    have e1 := h1.sample r1 hr1
    have e2 := h2.sample r2 hr2
    rw [hn, e2] at e1
    injection e1 with e1
    exact e1.symm
  · intro c1 c2 hc1 hc2 hn hd
    have e1 := h1.treat r1 c1 hr1 hc1
    have e2 := h2.treat r2 c2 hr2 hc2
    rw [hn, hd, e2] at e1
    injection e1 with e1
    exact e1.symm

/-- the two stages of `C03_same_name_same_id` instantiated with histories -/
theorem C03_same_name_same_id_histories (p : Screen) (hp : Valid p) (ops1 ops2 : List Op) (tr1 tr2 : List Screen)
    (hrun1 : run step ops1 p = .ok tr1) (hrun2 : run step ops2 p = .ok tr2)
    (t1 t2 : Screen) (ht1 : t1 ∈ p :: tr1) (ht2 : t2 ∈ p :: tr2) :
    EncodedBy p.tmap p.smap t1 ∧ EncodedBy p.tmap p.smap t2 := by
  have hself := encodedBy_self p hp
  constructor
  · rcases List.mem_cons.1 ht1 with rfl | ht1
    · exact hself
    · exact (C03_history ops1 p tr1 hrun1 t1 ht1).2.2.2.2
  · rcases List.mem_cons.1 ht2 with rfl | ht2
    · exact hself
    · exact (C03_history ops2 p tr2 hrun2 t2 ht2).2.2.2.2

/-- Same id => same name: whenever the prepared screen's tables assign ids injectively (true for every freshly
    encoded screen, `C03_fresh_tables_injective`), equal sample ids mean equal sample names and equal
    non-control treatment ids mean equal (name, dose), across stages. -/
theorem C03_same_id_same_name (tm : TMap) (sm : SMap) (hsi : SampleInj sm) (hti : TreatInj tm) (t1 t2 : Screen)
    (h1 : EncodedBy tm sm t1) (h2 : EncodedBy tm sm t2) (r1 r2 : Nat) (hr1 : r1 < t1.size) (hr2 : r2 < t2.size) :
    (t1.sids[r1]! = t2.sids[r2]! → t1.snames[r1]! = t2.snames[r2]!)
    ∧ (∀ c1 c2, c1 < t1.arity → c2 < t2.arity → (t1.tids[r1]!)[c1]! = (t2.tids[r2]!)[c2]! →
        (t1.tids[r1]!)[c1]! ≠ -1 →
        (t1.tnames[r1]!)[c1]! = (t2.tnames[r2]!)[c2]! ∧ (t1.tdoses[r1]!)[c1]! = (t2.tdoses[r2]!)[c2]!) := by
  constructor
  · intro hid
    have e1 := h1.sample r1 hr1
    have e2 := h2.sample r2 hr2
    have m1 : (t1.snames[r1]!, t1.sids[r1]!) ∈ sm := by
      have : t1.sids[r1]! ∈ sLookup sm (t1.snames[r1]!) := by rw [e1]; exact List.mem_singleton.2 rfl
      simp only [sLookup, List.mem_map, List.mem_filter, beq_iff_eq] at this
      obtain ⟨e, ⟨he, hk⟩, hi⟩ := this
      rw [← hk, ← hi]; exact he
    have m2 : (t2.snames[r2]!, t2.sids[r2]!) ∈ sm := by
      have : t2.sids[r2]! ∈ sLookup sm (t2.snames[r2]!) := by rw [e2]; exact List.mem_singleton.2 rfl
      simp only [sLookup, List.mem_map, List.mem_filter, beq_iff_eq] at this
      obtain ⟨e, ⟨he, hk⟩, hi⟩ := this
      rw [← hk, ← hi]; exact he
    have := hsi _ m1 _ m2 hid
    exact congrArg Prod.fst this
  · intro c1 c2 hc1 hc2 hid hne
    have e1 := h1.treat r1 c1 hr1 hc1
    have e2 := h2.treat r2 c2 hr2 hc2
    have m1 : ((t1.tnames[r1]!)[c1]!, (t1.tdoses[r1]!)[c1]!, (t1.tids[r1]!)[c1]!) ∈ tm := by
      have : (t1.tids[r1]!)[c1]! ∈ tLookup tm ((t1.tnames[r1]!)[c1]!, (t1.tdoses[r1]!)[c1]!) := by
        rw [e1]; exact List.mem_singleton.2 rfl
      simp only [tLookup, List.mem_map, List.mem_filter, Bool.and_eq_true, beq_iff_eq] at this
      obtain ⟨e, ⟨he, hk1, hk2⟩, hi⟩ := this
      rw [← hk1, ← hk2, ← hi]; exact he
    have m2 : ((t2.tnames[r2]!)[c2]!, (t2.tdoses[r2]!)[c2]!, (t2.tids[r2]!)[c2]!) ∈ tm := by
      have : (t2.tids[r2]!)[c2]! ∈ tLookup tm ((t2.tnames[r2]!)[c2]!, (t2.tdoses[r2]!)[c2]!) := by
        rw [e2]; exact List.mem_singleton.2 rfl
      simp only [tLookup, List.mem_map, List.mem_filter, Bool.and_eq_true, beq_iff_eq] at this
      obtain ⟨e, ⟨he, hk1, hk2⟩, hi⟩ := this
      rw [← hk1, ← hk2, ← hi]; exact he
    have := hti _ m1 _ m2 hid hne
    exact ⟨congrArg Prod.fst this, congrArg (fun e => e.2.1) this⟩

/-- a prepared screen built without supplied mappings (`Screen(...)` on the raw data) has injective tables -/
theorem C03_fresh_tables_injective (r : Raw) (p : Screen) (h : mk? r = .ok p) (ht : r.tmap = none) (hs : r.smap = none) :
    TreatInj p.tmap ∧ SampleInj p.smap := by
  have c := (mk?_inv h).core
  obtain ⟨tf, hte, _, _⟩ := c.tenc
  have e1 := (encodeTreatments_ok hte).2.2 ht
  have e2 := (encode1d_ok c.senc).2.2 hs
  rw [e1, e2]
  exact ⟨treatInj_fresh _ _, sampleInj_fresh _⟩

/-- The embedding sizes implied by the screen (`ExperimentSpace.from_screen`: what `train_model` sizes the model
    with) never shrink along a history: they are the prepared screen's at every stage. -/
theorem C03_space_never_shrinks (ops : List Op) (p : Screen) (trace : List Screen) (hrun : run step ops p = .ok trace) :
    ∀ t ∈ trace, Space.ofScreen t = Space.ofScreen p
      ∧ (Space.ofScreen p).nUniqueTreatments ≤ (Space.ofScreen t).nUniqueTreatments
      ∧ (Space.ofScreen p).nUniqueSamples ≤ (Space.ofScreen t).nUniqueSamples
      ∧ t.treatmentSpaceSize = p.treatmentSpaceSize ∧ t.sampleSpaceSize = p.sampleSpaceSize := by
  intro t ht
  obtain ⟨h1, h2, _, h4, _⟩ := C03_history ops p trace hrun t ht
  have e : Space.ofScreen t = Space.ofScreen p := by simp only [Space.ofScreen, h1, h2, h4]
  rw [e]
  exact ⟨rfl, Nat.le_refl _, Nat.le_refl _, by simp only [Screen.treatmentSpaceSize, h1],
    by simp only [Screen.sampleSpaceSize, h2]⟩

/-- a row-wise prediction function: the value for a row depends only on (sample id, treatment ids) --
    C09 proves that of the real predictors -/
def predictRows {α : Type} (f : Int → List Int → α) (s : Screen) : List α := List.zipWith f s.sids s.tids

/-- Predictions are stable: the same experiment (sample name, treatment names, doses) gets the same predicted
    value at every stage, for any row-wise predictor. -/
theorem C03_predictions_stable {α : Type} [Inhabited α] (f : Int → List Int → α) (p : Screen)
    (ops1 ops2 : List Op) (tr1 tr2 : List Screen) (hrun1 : run step ops1 p = .ok tr1) (hrun2 : run step ops2 p = .ok tr2)
    (t1 t2 : Screen) (ht1 : t1 ∈ tr1) (ht2 : t2 ∈ tr2) (r1 r2 : Nat) (hr1 : r1 < t1.size) (hr2 : r2 < t2.size)
    (hs : t1.snames[r1]! = t2.snames[r2]!) (hn : t1.tnames[r1]! = t2.tnames[r2]!) (hd : t1.tdoses[r1]! = t2.tdoses[r2]!) :
    (predictRows f t1)[r1]! = (predictRows f t2)[r2]! := by
  obtain ⟨a1, b1, c1, _, e1⟩ := C03_history ops1 p tr1 hrun1 t1 ht1
  obtain ⟨a2, b2, c2, _, e2⟩ := C03_history ops2 p tr2 hrun2 t2 ht2
  have w1 := (run_step_valid ops1 p tr1 hrun1 t1 ht1).wf
  have w2 := (run_step_valid ops2 p tr2 hrun2 t2 ht2).wf
  have hsid := (C03_same_name_same_id p.tmap p.smap t1 t2 e1 e2 r1 r2 hr1 hr2).1 hs
  have htid : t1.tids[r1]! = t2.tids[r2]! :=
    tids_row_eq w1 w2 (a2.trans a1.symm) (c2.trans c1.symm) r1 r2 (by rw [← size_eq w1]; exact hr1)
      (by rw [← size_eq w2]; exact hr2) hn hd
  have l1 : r1 < t1.sids.length := by rw [w1.len_sids, ← size_eq w1]; exact hr1
  have l2 : r2 < t2.sids.length := by rw [w2.len_sids, ← size_eq w2]; exact hr2
  have l1' : r1 < t1.tids.length := by
    obtain ⟨tf, _, _, htids⟩ := w1.tenc
    rw [htids]; simp only [unflattenColumns, List.length_map, List.length_range]; rw [← size_eq w1]; exact hr1
  have l2' : r2 < t2.tids.length := by
    obtain ⟨tf, _, _, htids⟩ := w2.tenc
    rw [htids]; simp only [unflattenColumns, List.length_map, List.length_range]; rw [← size_eq w2]; exact hr2
  unfold predictRows
  rw [getElem!_pos _ r1 (by simp [List.length_zipWith]; omega), getElem!_pos _ r2 (by simp [List.length_zipWith]; omega),
    List.getElem_zipWith, List.getElem_zipWith]
  rw [getElem!_pos _ r1 l1, getElem!_pos _ r2 l2] at hsid
  rw [getElem!_pos _ r1 l1', getElem!_pos _ r2 l2'] at htid
  rw [hsid, htid]

/-! ### totality: which steps can fail at all -/

/-- The hold-out split is TOTAL on constructed screens: for every selection vector of the screen's length both halves
    exist, and (C03_holdout_preserves_mappings) carry the parent's mappings.  (A selection of another length is an
    `IndexError` in numpy; the code always builds the selection with `np.zeros(screen.size)`.) -/
theorem C03_holdout_total (s : Screen) (h : Valid s) (sel : List Bool) (hsel : sel.length = s.size) :
    ∃ k t, holdout s sel = .ok (k, t) ∧ (k.tmap = s.tmap ∧ k.smap = s.smap) ∧ (t.tmap = s.tmap ∧ t.smap = s.smap) := by
  obtain ⟨k, t, hkt⟩ := holdout_total h sel hsel
  exact ⟨k, t, hkt, C03_holdout_preserves_mappings s k t sel hkt⟩

theorem C03_holdout_wrong_length (s : Screen) (sel : List Bool) (hsel : sel.length ≠ s.size) :
    holdout s sel = .error .indexError := by
  unfold holdout
  simp [hsel]
  rfl

/-- On a constructed screen a lifecycle step can only fail for the stated reasons: mask and unmask never fail, both
    hold-out halves exist for every selection of the right length, reveal fails exactly when it is refused, save+load only
    for a screen without rows or without treatment columns (known finding C02:zero-row-screen). -/
theorem C03_lifecycle_total (s : Screen) (h : Valid s) :
    (∃ t, step .mask s = .ok t) ∧ (∃ t, step .unmask s = .ok t)
    ∧ (∀ sel, sel.length = s.size → (∃ t, step (.holdKeep sel) s = .ok t) ∧ (∃ t, step (.holdTest sel) s = .ok t))
    ∧ (∀ ids, revealRefused s ids = false → ∃ t, step (.reveal ids) s = .ok t)
    ∧ (∀ ids, revealRefused s ids = true → step (.reveal ids) s = .error .valueError)
    ∧ (0 < s.size → 0 < s.arity → step .saveLoad s = .ok s) := by
  refine ⟨⟨_, maskScreen_eq h.wf⟩, ⟨_, unmaskScreen_eq h.wf⟩, ?_, ?_, ?_, ?_⟩
  · intro sel hsel
    obtain ⟨k, t, hkt⟩ := holdout_total h sel hsel
    exact ⟨⟨k, by simp [step, hkt, Except.map]⟩, ⟨t, by simp [step, hkt, Except.map]⟩⟩
  · intro ids hr
    exact ⟨_, revealPlates_eq h.wf ids hr⟩
  · intro ids hr
    exact revealPlates_refused s ids hr
  · intro h1 h2
    exact load_save h.wf (List.length_pos_iff.1 h1) (Nat.pos_iff_ne_zero.1 h2)

/-- non-vacuity: on the witness the hold-out exists for EVERY one of the 2^6 selections; e.g. the one of the regression -/
example : ∃ k t, holdout witnessPrepared witnessSel = .ok (k, t) :=
  let ⟨k, t, h, _⟩ := C03_holdout_total witnessPrepared ⟨witnessRaw, witnessPrepared_mk⟩ witnessSel (by decide)
  ⟨k, t, h⟩

/-! ### the property in one piece, the prepared screen included among the stages -/

/-- every stage of a history, the prepared screen itself included, carries the prepared screen's tables, is a
    constructed screen and has its ids read off those tables -/
theorem stage_facts (p : Screen) (hp : Valid p) (ops : List Op) (tr : List Screen) (hrun : run step ops p = .ok tr)
    (t : Screen) (ht : t ∈ p :: tr) :
    t.tmap = p.tmap ∧ t.smap = p.smap ∧ t.arity = p.arity ∧ t.ctrl = p.ctrl ∧ EncodedBy p.tmap p.smap t ∧ Valid t := by
  rcases List.mem_cons.1 ht with rfl | ht
  · exact ⟨rfl, rfl, rfl, rfl, encodedBy_self _ hp, hp⟩
  · obtain ⟨a, b, c, d, e⟩ := C03_history ops p tr hrun t ht
    exact ⟨a, b, c, d, e, run_step_valid ops p tr hrun t ht⟩

/-- C03, first sentence, as one statement: take ANY two stages of ANY two histories of reveal / mask / unmask /
    save+load / hold-out steps from one prepared screen `p` (either may be `p` itself, one may be on the training
    side and the other on the test side); rows with the same sample name have the same sample id, cells with the
    same treatment name and dose have the same treatment id. -/
theorem C03_ids_agree_across_histories (p : Screen) (hp : Valid p) (ops1 ops2 : List Op) (tr1 tr2 : List Screen)
    (hrun1 : run step ops1 p = .ok tr1) (hrun2 : run step ops2 p = .ok tr2)
    (t1 t2 : Screen) (ht1 : t1 ∈ p :: tr1) (ht2 : t2 ∈ p :: tr2) (r1 r2 : Nat) (hr1 : r1 < t1.size) (hr2 : r2 < t2.size) :
    (t1.snames[r1]! = t2.snames[r2]! → t1.sids[r1]! = t2.sids[r2]!)
    ∧ (∀ c1 c2, c1 < t1.arity → c2 < t2.arity →
        (t1.tnames[r1]!)[c1]! = (t2.tnames[r2]!)[c2]! → (t1.tdoses[r1]!)[c1]! = (t2.tdoses[r2]!)[c2]! →
        (t1.tids[r1]!)[c1]! = (t2.tids[r2]!)[c2]!) :=
  C03_same_name_same_id p.tmap p.smap t1 t2 (stage_facts p hp ops1 tr1 hrun1 t1 ht1).2.2.2.2.1
    (stage_facts p hp ops2 tr2 hrun2 t2 ht2).2.2.2.2.1 r1 r2 hr1 hr2

/-- `C03_predictions_stable` with the prepared screen allowed as a stage (a model trained on the prepared screen and
    evaluated on a later training or test stage, or the other way round). -/
theorem C03_predictions_stable_incl_prepared {α : Type} [Inhabited α] (f : Int → List Int → α) (p : Screen) (hp : Valid p)
    (ops1 ops2 : List Op) (tr1 tr2 : List Screen) (hrun1 : run step ops1 p = .ok tr1) (hrun2 : run step ops2 p = .ok tr2)
    (t1 t2 : Screen) (ht1 : t1 ∈ p :: tr1) (ht2 : t2 ∈ p :: tr2) (r1 r2 : Nat) (hr1 : r1 < t1.size) (hr2 : r2 < t2.size)
    (hs : t1.snames[r1]! = t2.snames[r2]!) (hn : t1.tnames[r1]! = t2.tnames[r2]!) (hd : t1.tdoses[r1]! = t2.tdoses[r2]!) :
    (predictRows f t1)[r1]! = (predictRows f t2)[r2]! := by
  obtain ⟨a1, b1, c1, _, e1, v1⟩ := stage_facts p hp ops1 tr1 hrun1 t1 ht1
  obtain ⟨a2, b2, c2, _, e2, v2⟩ := stage_facts p hp ops2 tr2 hrun2 t2 ht2
  have w1 := v1.wf
  have w2 := v2.wf
  have hsid := (C03_same_name_same_id p.tmap p.smap t1 t2 e1 e2 r1 r2 hr1 hr2).1 hs
  have htid : t1.tids[r1]! = t2.tids[r2]! :=
    tids_row_eq w1 w2 (a2.trans a1.symm) (c2.trans c1.symm) r1 r2 (by rw [← size_eq w1]; exact hr1)
      (by rw [← size_eq w2]; exact hr2) hn hd
  have l1 : r1 < t1.sids.length := by rw [w1.len_sids, ← size_eq w1]; exact hr1
  have l2 : r2 < t2.sids.length := by rw [w2.len_sids, ← size_eq w2]; exact hr2
  have l1' : r1 < t1.tids.length := by
    obtain ⟨tf, _, _, htids⟩ := w1.tenc
    rw [htids]; simp only [unflattenColumns, List.length_map, List.length_range]; rw [← size_eq w1]; exact hr1
  have l2' : r2 < t2.tids.length := by
    obtain ⟨tf, _, _, htids⟩ := w2.tenc
    rw [htids]; simp only [unflattenColumns, List.length_map, List.length_range]; rw [← size_eq w2]; exact hr2
  unfold predictRows
  rw [getElem!_pos _ r1 (by simp [List.length_zipWith]; omega), getElem!_pos _ r2 (by simp [List.length_zipWith]; omega),
    List.getElem_zipWith, List.getElem_zipWith]
  rw [getElem!_pos _ r1 l1, getElem!_pos _ r2 l2] at hsid
  rw [getElem!_pos _ r1 l1', getElem!_pos _ r2 l2'] at htid
  rw [hsid, htid]

/-- non-vacuity on the witness: the training half after `mask, reveal [0]` and the prepared screen itself are two
    stages; sample `s1` (rows 0 of the training half and 1 of the prepared screen) has id 1 in both -/
example : (witnessTrain.snames[0]! = witnessPrepared.snames[1]!) ∧ witnessTrain.sids[0]! = witnessPrepared.sids[1]! := by decide

/-! ### regression: the constructors as they were before commit 141f07a -/

/-- With the old constructors (`reveal_plates`, `mask_screen`, `unmask_screen` not handing the mappings over) the
    history statement is false: on the training half of the DESIGN section-7 witness (treatment `a` and sample
    `s0` occur only in the held-out row) masking and revealing plate 0 renumbers every id. -/
theorem C03_old_constructors_counterexample :
    ¬ (∀ (ops : List Op) (p : Screen) (trace : List Screen), Valid p → run stepOld ops p = .ok trace →
        ∀ t ∈ trace, t.tmap = p.tmap ∧ t.smap = p.smap) := by
  intro hall
  have hv : Valid witnessTrain := (step_maps witnessTrain_step).1
  have := hall _ witnessTrain _ hv witnessOld_run witnessTrainOldRevealed (by simp)
  exact absurd this.1 (by decide)

/-- ... and the same experiment gets a different id than it has in the test half / the prepared screen:
    sample `s1` is 1 in the prepared numbering and 0 after the old reveal; treatment `(b, 1)` goes 1 -> 0. -/
theorem C03_old_constructors_renumber :
    witnessTrain.snames = witnessTrainOldRevealed.snames ∧ witnessTrain.tnames = witnessTrainOldRevealed.tnames
    ∧ witnessTrain.sids = [1, 1, 2, 2, 1] ∧ witnessTrainOldRevealed.sids = [0, 0, 1, 1, 0]
    ∧ witnessTrain.tids = [[1, 2], [1, 3], [2, 3], [1, 2], [1, 2]]
    ∧ witnessTrainOldRevealed.tids = [[0, 1], [0, 2], [1, 2], [0, 1], [0, 1]] := by decide

/-- the current constructors keep everything on the same witness and history -/
theorem C03_new_constructors_on_witness :
    ∃ trace, run step [.mask, .reveal [0]] witnessTrain = .ok trace
      ∧ ∀ t ∈ trace, t.tmap = witnessPrepared.tmap ∧ t.smap = witnessPrepared.smap ∧ t.tids = witnessTrain.tids
          ∧ t.sids = witnessTrain.sids :=
  ⟨_, witnessNew_run, by decide⟩

/-! ### non-vacuity: a prepared screen in which a sample and a treatment occur only in the held-out row -/

example : Valid witnessPrepared := ⟨witnessRaw, witnessPrepared_mk⟩
example : step (.holdKeep witnessSel) witnessPrepared = .ok witnessTrain := witnessTrain_step
example : ([115, 48] : Name) ∉ witnessTrain.snames ∧ ([115, 48], (0 : Int)) ∈ witnessTrain.smap := by decide
example : TreatInj witnessPrepared.tmap ∧ SampleInj witnessPrepared.smap :=
  C03_fresh_tables_injective witnessRaw witnessPrepared witnessPrepared_mk rfl rfl

end Batchie.Props.C03
