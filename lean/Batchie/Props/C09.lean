/-
  C09 — predictions are pure, row-wise, treatment-order-symmetric and control-neutral.

  Theorems about `Batchie.Model.Predict` (the hand model of `common.py:9-14`,
  `models/sparse_combo.py:39-57,675-738`, `models/sparse_combo_interaction.py:35-76`,
  `models/main.py:145-269`).  The model is generic in its number type; the driver runs it at `Float`,
  the theorems below hold for EVERY commutative ring / linearly ordered field `R` (in particular ℝ)
  and, where `exp`/`log` occur only under a clip, for every interpretation of `exp`/`log`.
  Nothing here is about IEEE rounding (DESIGN 6.3).

  CLAUSE MAP (clause of the property text → theorem; "methods" = the `Theta.*` / `ThetaI.*` functions the driver runs)
   1. a prediction depends only on that experiment's sample and treatments (row-wise)
        → C09_rowwise, C09_rowwise_viability (array functions = mapM of the per-row functions), C09_rowwise_local
   2. predicting on any subset = the corresponding entries of predicting on the whole screen
        → C09_rowwise_subset (any row-wise function), C09_subset_screen (the four methods, every carrier type incl. Float),
          C09_subset_variance; any re-indexing / row order: C09_rowwise_reindex
   3. ... on its UNORDERED set of treatments: swapping the treatment columns changes nothing
        → C09_symmetric, C09_symmetric_interaction (per row, value AND failure), C09_symmetric_screen, C09_symmetric_viability,
          C09_swap_screen (the methods)
   4. a control treatment contributes nothing; a pair with control predicts like the single agent
        → gather idiom: C09_gather_eq, C09_gather_eq_cells, C09_gather_eq_rows, C09_gather_error;
          C09_control_neutral (either column, incl. failure; hypothesis `Shaped`, inhabited), C09_control_control,
          C09_control_neutral_screen (methods: arity-2 screen with control = arity-1 screen, mean and viability),
          interaction sample: C09_control_neutral_interaction (mean 0), C09_control_neutral_interaction_viability (ℝ, real exp/log)
   5. viability is the logistic of the modelled mean clipped to [0.01, 0.99]
        → by definition of the tied model (`viabilityOfMu = clip ∘ expit`, `interactionViabilityCell`); range: C09_viability_range
   6. variance is the positive reciprocal precision for every experiment → C09_variance
   7. prediction never mutates the sample or the screen
        → buffer model: C09_gather_source_unchanged (the helper), C09_table_reads_pure (ANY sequence of the table reads the
          prediction path performs), C09_predict_buffers_unchanged (module-level `predict`: its nine reads leave every
          pre-existing buffer unchanged and `predictMean` is the arithmetic on the nine NEW buffers).
          harness-only: that numpy's integer-array indexing / arithmetic really allocate (the buffer model's premise), and
          non-mutation of Python-level attributes (dict `single_effect_lookup`, scalars) -- deep snapshots around every call.
   8. the stacked helpers return one row per sample in holder order → C09_all_rows, C09_all_rows_complete (converse), C09_variance_all_rows
   9. the averaged helpers return their exact mean → C09_avg_is_mean (+ C09_prediction_length discharging its length hypothesis
        for the methods on well-formed screens)
   (clause 9, every holder size: `C09_avg_is_mean` is stated for the model's `predictAvg` with an arbitrary number `n` of samples --
    no blocking -- so it is the positive statement the seeded block-of-16 change S6-C09 violates)
  harness-only for all clauses: IEEE rounding (tolerance comparison), object identity / lifetime (temporaries), memory layouts.
  harness-only (seeded changes the functional model cannot express):
   S5-C09 memo keyed by `id(screen)`, `id(thetas)`: object identity / lifetime (address reuse of temporaries) does not exist in a
          model whose functions take VALUES -- caught by the temporaries stream of harness/c09.py;
   S7-C09 in-place `sort()` of a VIEW of the result under DEBUG logging: aliasing of a result buffer plus process-wide logging
          state -- caught by the verbose-logging slice (results bit-identical to the per-sample predictions / the default run).
  Regression (not a clause):
   S6-C09 mean of block means (blocks of 16): `blockMean` (Model/Predict.lean); GENERAL `C09_block_mean_dvd` (block size divides the
          number of samples ⇒ equal to the mean), `C09_block_mean_small` (one block ⇒ equal); WITNESS `C09_block_mean_counterexample`
          (17 samples: 19/2 ≠ 2).
-/
import Batchie.Lemmas.PredictHolder
import Batchie.Lemmas.PredictMem
import Mathlib.Analysis.SpecialFunctions.Log.Basic

namespace Batchie.Props.C09
open Batchie.Predict

/-! ## 1. the gather-copy-zero idiom -/

/-- For real treatment ids (`-1 ≤ t < len`; a `-1` needs a non-empty table, as in numpy) the code's
    "fetch the LAST row for `-1`, then overwrite the fetched copy" equals the obvious definition. -/
theorem C09_gather_eq {β : Type} (zero : β → β) (d : β) (arr : List β) (ts : List Int)
    (h : ∀ t ∈ ts, -1 ≤ t ∧ t < arr.length) (hctl : (-1 : Int) ∈ ts → arr ≠ []) :
    gatherCopyZero zero arr ts
      = some (ts.map fun t => if t = -1 then zero (arr.getD (arr.length - 1) d) else arr.getD t.toNat d) := by
  have hin : ∀ t ∈ ts, inRange arr.length t = true := by
    intro t ht
    obtain ⟨h1, h2⟩ := h t ht
    simp only [inRange, Bool.and_eq_true, decide_eq_true_eq]
    refine ⟨?_, h2⟩
    by_cases ht1 : t = -1
    · subst ht1
      have := List.length_pos_of_ne_nil (hctl ht)
      omega
    · omega
  rw [gatherCopyZero_ok zero arr ts d hin]
  congr 1
  apply List.map_congr_left
  intro t ht
  obtain ⟨h1, h2⟩ := h t ht
  by_cases ht1 : t = -1
  · subst ht1
    have : pos arr.length (-1) = arr.length - 1 := by unfold pos; simp; omega
    simp [this]
  · have : pos arr.length t = t.toNat := by unfold pos; rw [if_pos (by omega)]
    simp [ht1, this]

/-- an id outside `[-len, len)` is an IndexError, whatever the other ids are -/
theorem C09_gather_error {β : Type} (zero : β → β) (arr : List β) (ts : List Int) (t : Int) (ht : t ∈ ts)
    (hbad : t < -(arr.length : Int) ∨ (arr.length : Int) ≤ t) : gatherCopyZero zero arr ts = none := by
  apply gatherCopyZero_bad zero arr ts t ht
  simp only [inRange, Bool.and_eq_false_iff, decide_eq_false_iff_not]
  omega

/-- the 1-d instance (`V0`): control cells are `0`, the others are `arr[t]` -/
theorem C09_gather_eq_cells {R : Type} [OfNat R 0] (arr : List R) (ts : List Int)
    (h : ∀ t ∈ ts, -1 ≤ t ∧ t < arr.length) (hctl : (-1 : Int) ∈ ts → arr ≠ []) :
    gatherCopyZero zeroCell arr ts = some (ts.map fun t => if t = -1 then 0 else arr.getD t.toNat 0) := by
  rw [C09_gather_eq zeroCell 0 arr ts h hctl]; rfl

/-- the 2-d instance (`V1`, `V2` of shape `T × D`): control rows are `D` zeros -/
theorem C09_gather_eq_rows {R : Type} [OfNat R 0] (arr : List (List R)) (D : Nat) (hD : ∀ r ∈ arr, r.length = D)
    (ts : List Int) (h : ∀ t ∈ ts, -1 ≤ t ∧ t < arr.length) (hctl : (-1 : Int) ∈ ts → arr ≠ []) :
    gatherCopyZero zeroRow arr ts
      = some (ts.map fun t => if t = -1 then List.replicate D 0 else arr.getD t.toNat []) := by
  rw [C09_gather_eq zeroRow [] arr ts h hctl]
  congr 1
  apply List.map_congr_left
  intro t ht
  by_cases ht1 : t = -1
  · have hne := hctl (ht1 ▸ ht)
    have hpos := List.length_pos_of_ne_nil hne
    have hl : (arr.getD (arr.length - 1) []).length = D := by
      rw [List.getD_eq_getElem?_getD, List.getElem?_eq_getElem (by omega)]
      exact hD _ (List.getElem_mem _)
    simp only [ht1, if_true, zeroRow]
    rw [← hl]
    exact List.map_const'
  · simp [ht1]

/-- Who aliases whom: in a memory of buffers where integer-array indexing allocates (numpy's
    semantics), the function leaves EVERY existing buffer -- in particular its source, a table of the
    posterior sample -- unchanged, and the new buffer holds the gathered-and-zeroed copy. -/
theorem C09_gather_source_unchanged {β : Type} (zero : β → β) (m m' : Mem β) (src id : Nat) (ts : List Int)
    (h : gczMem zero m src ts = some (m', id)) :
    id = m.bufs.length ∧ (∀ i, i < m.bufs.length → m'.read i = m.read i)
      ∧ gatherCopyZero zero (m.read src) ts = some (m'.read id) := by
  unfold gczMem at h
  cases hg : gather? (m.read src) ts with
  | none => simp [hg] at h
  | some res =>
    simp only [hg, Mem.alloc, Option.some.injEq, Prod.mk.injEq] at h
    obtain ⟨hm, hid⟩ := h
    subst hid; subst hm
    refine ⟨rfl, ?_, ?_⟩
    · intro i hi
      simp [Mem.maskedZeroAt, Mem.read, List.getD_eq_getElem?_getD, List.getElem?_append_left hi]
    · rw [gatherCopyZero, hg]
      simp [Mem.maskedZeroAt, Mem.read, List.getD_eq_getElem?_getD]

/-- the hypothesis is inhabited, and the theorem is not vacuous: the view mutant does change θ's table -/
example : (gczMem (fun _ => (0 : Int)) ⟨[[5, 6, 7]]⟩ 0 [1, -1]).map (fun p => (p.1.bufs, p.2))
    = some ([[5, 6, 7], [6, 0]], 1) := by decide
example : (gczMemView (fun _ => (0 : Int)) ⟨[[5, 6, 7]]⟩ 0 [1, -1]).1.read 0 = [5, 0, 7] := by decide

/-! ## 2. row-wise -/

/-- `P` computes, for every list of experiments, exactly the per-experiment function `f` on each
    row, in order (failing iff some row fails) -/
def IsRowwise {ρ α : Type} (P : List ρ → Option (List α)) (f : ρ → Option α) : Prop :=
  ∀ rows, P rows = rows.mapM f

section rowwise
variable {α : Type} [Add α] [Mul α] [OfNat α 0]

/-- The whole-array computations of the code (column gathers, element-wise products, sums over the
    last axis) are the row-wise maps of the per-experiment definitions `predictRow?`,
    `predictSingleRow?`, `interactionRow?` -- for every carrier type, no algebra needed. -/
theorem C09_rowwise (θ : Theta α) (θi : ThetaI α) :
    IsRowwise (predictMean θ) (predictRow? θ)
    ∧ IsRowwise (predictSingleMean θ) (predictSingleRow? θ)
    ∧ IsRowwise (interactionMean θi) (interactionRow? θi) :=
  ⟨predictMean_rowwise θ, predictSingleMean_rowwise θ, interactionMean_rowwise θi⟩

variable [Neg α] [Div α] [OfNat α 1] [ExpLog α] [LT α] [DecidableLT α] [OfScientific α]

/-- the same for the viability methods: the cell function (`clip ∘ expit`, resp. the interaction
    model's `clip ∘ exp ∘ (· + log (clip product))`) is applied per row -/
theorem C09_rowwise_viability (θ : Theta α) (θi : ThetaI α) :
    IsRowwise (predictViability θ) (fun r => (predictRow? θ r).map viabilityOfMu)
    ∧ IsRowwise (predictSingleViability θ) (fun r => (predictSingleRow? θ r).map viabilityOfMu)
    ∧ IsRowwise (fun rows => (interactionViability θi rows).toOption) (interactionViabilityRow? θi) := by
  refine ⟨?_, ?_, ?_⟩
  · intro rows
    simp only [predictViability, predictMean_rowwise, mapM_then_map]
  · intro rows
    simp only [predictSingleViability, predictSingleMean_rowwise, mapM_then_map]
  · intro rows
    simp only [interactionViability, interactionMean_rowwise]
    cases h1 : rows.mapM (interactionRow? θi) with
    | none =>
      simp only [Except.toOption]
      obtain ⟨r, hr, hn⟩ : ∃ r ∈ rows, interactionRow? θi r = none := by
        apply Classical.byContradiction
        intro hne
        have : rows.mapM (interactionRow? θi) = some (rows.map (fun r => (interactionRow? θi r).getD 0)) := by
          apply mapM_some
          intro a ha
          cases hx : interactionRow? θi a with
          | none => exact absurd ⟨a, ha, hx⟩ hne
          | some v => rfl
        rw [this] at h1; cases h1
      exact (mapM_none _ rows r hr (by simp [interactionViabilityRow?, hn])).symm
    | some inter =>
      cases h2 : rows.mapM (singleProduct? θi) with
      | none =>
        simp only [Except.toOption]
        obtain ⟨r, hr, hn⟩ : ∃ r ∈ rows, singleProduct? θi r = none := by
          apply Classical.byContradiction
          intro hne
          have : rows.mapM (singleProduct? θi) = some (rows.map (fun r => (singleProduct? θi r).getD 0)) := by
            apply mapM_some
            intro a ha
            cases hx : singleProduct? θi a with
            | none => exact absurd ⟨a, ha, hx⟩ hne
            | some v => rfl
          rw [this] at h2; cases h2
        refine (mapM_none _ rows r hr ?_).symm
        simp only [interactionViabilityRow?, hn]
        cases interactionRow? θi r <;> rfl
      | some prods =>
        simp only [Except.toOption]
        exact (mapM_zipWith _ _ interactionViabilityCell rows inter prods h1 h2).symm

end rowwise

/-- Consequence 1 (subsets): predicting on `rows[mask]` gives the corresponding entries of
    predicting on all rows -- for every boolean mask. -/
theorem C09_rowwise_subset {ρ α : Type} (P : List ρ → Option (List α)) (f : ρ → Option α) (hP : IsRowwise P f)
    (rows : List ρ) (ys : List α) (m : List Bool) (h : P rows = some ys) :
    P (maskFilter rows m) = some (maskFilter ys m) := by
  rw [hP] at h ⊢
  exact mapM_maskFilter f rows ys m h

/-- Consequence 2 (row order): any re-indexing of the rows by positions `idx` (a permutation, a
    selection, with or without repetition) re-indexes the predictions the same way; the result has
    one entry per row. -/
theorem C09_rowwise_reindex {ρ α : Type} (P : List ρ → Option (List α)) (f : ρ → Option α) (hP : IsRowwise P f)
    (rows : List ρ) (ys : List α) (h : P rows = some ys) (dr : ρ) (dy : α) (idx : List Nat)
    (hidx : ∀ i ∈ idx, i < rows.length) :
    ys.length = rows.length
    ∧ P (idx.map (fun i => rows.getD i dr)) = some (idx.map (fun i => ys.getD i dy)) := by
  rw [hP] at h ⊢
  exact ⟨mapM_length f rows ys h, mapM_reindex f rows ys h dr dy idx hidx⟩

/-- the prediction of one experiment is a function of that experiment alone: two screens that agree
    on row `i` get the same `i`-th prediction -/
theorem C09_rowwise_local {ρ α : Type} (P : List ρ → Option (List α)) (f : ρ → Option α) (hP : IsRowwise P f)
    (rows rows' : List ρ) (ys ys' : List α) (h : P rows = some ys) (h' : P rows' = some ys')
    (i j : Nat) (hi : i < rows.length) (hj : j < rows'.length) (hrow : rows[i] = rows'[j]) :
    ys[i]? = ys'[j]? := by
  rw [hP] at h h'
  obtain ⟨hy, e⟩ := mapM_getElem f rows ys h i hi
  obtain ⟨hy', e'⟩ := mapM_getElem f rows' ys' h' j hj
  rw [hrow, e'] at e
  simp [hy, hy', Option.some.inj e]

/-! ## 3. treatment-order symmetry -/

/-- the experiment with its two treatment columns exchanged -/
def swap (r : Row) : Row := { s := r.s, t0 := r.t1, t1 := r.t0 }

section symmetric
variable {R : Type} [CommRing R]

/-- `SparseDrugComboMCMCSample`: the prediction (value AND failure) of one experiment does not
    depend on the order of its two treatments -/
theorem C09_symmetric (θ : Theta R) (r : Row) : predictRow? θ (swap r) = predictRow? θ r := by
  have hok : rowOk θ (swap r) = rowOk θ r := by
    simp only [rowOk, swap]; ac_rfl
  have hval : predictRowVal θ (swap r) = predictRowVal θ r := by
    simp only [predictRowVal, swap]
    rw [vadd_comm (czRow θ.V1 r.t1) (czRow θ.V1 r.t0), vmul_right_comm _ (czRow θ.V2 r.t1) (czRow θ.V2 r.t0)]
    ring
  simp only [predictRow?, hok, hval]

/-- `SparseDrugComboInteractionMCMCSample`: mean and single-effect product -/
theorem C09_symmetric_interaction (θ : ThetaI R) (r : Row) :
    interactionRow? θ (swap r) = interactionRow? θ r ∧ singleProduct? θ (swap r) = singleProduct? θ r := by
  constructor
  · have hok : rowOkI θ (swap r) = rowOkI θ r := by
      simp only [rowOkI, swap]; ac_rfl
    have hval : interactionRowVal θ (swap r) = interactionRowVal θ r := by
      simp only [interactionRowVal, swap]
      rw [vmul_right_comm]
    simp only [interactionRow?, hok, hval]
  · simp only [singleProduct?, swap]
    cases θ.lookup.lookup (r.s, r.t0) <;> cases θ.lookup.lookup (r.s, r.t1) <;> simp [mul_comm]

/-- whole screens: exchanging the two treatment columns of every row changes no prediction of
    either sample type -/
theorem C09_symmetric_screen (θ : Theta R) (θi : ThetaI R) (rows : List Row) :
    predictMean θ (rows.map swap) = predictMean θ rows
    ∧ interactionMean θi (rows.map swap) = interactionMean θi rows := by
  constructor
  · rw [predictMean_rowwise, predictMean_rowwise, List.mapM_map]
    congr 1; funext r; simpa only [Function.comp] using C09_symmetric θ r
  · rw [interactionMean_rowwise, interactionMean_rowwise, List.mapM_map]
    congr 1; funext r; simpa only [Function.comp] using (C09_symmetric_interaction θi r).1

end symmetric

section symmetric_viab
variable {R : Type} [Field R] [LinearOrder R] [ExpLog R]

/-- ... nor any viability, whatever `exp`/`log` are -/
theorem C09_symmetric_viability (θ : Theta R) (θi : ThetaI R) (rows : List Row) :
    predictViability θ (rows.map swap) = predictViability θ rows
    ∧ (interactionViability θi (rows.map swap)).toOption = (interactionViability θi rows).toOption := by
  constructor
  · rw [(C09_rowwise_viability θ θi).1, (C09_rowwise_viability θ θi).1, List.mapM_map]
    congr 1; funext r; simp only [Function.comp, C09_symmetric θ r]
  · have h := (C09_rowwise_viability θ θi).2.2
    have h1 := h (rows.map swap)
    have h2 := h rows
    simp only at h1 h2
    rw [h1, h2, List.mapM_map]
    congr 1; funext r
    simp only [Function.comp, interactionViabilityRow?, (C09_symmetric_interaction θi r).1, (C09_symmetric_interaction θi r).2]

end symmetric_viab

/-! ## 4. control neutrality -/

section control
variable {R : Type} [CommRing R]

/-- the part of a sample's shape that matters here: the three treatment tables have the same number
    `T` of rows and `V1` is rectangular (`T × D`) -/
structure Shaped (θ : Theta R) (T D : Nat) : Prop where
  v2 : θ.V2.length = T
  v1 : θ.V1.length = T
  v0 : θ.V0.length = T
  v1row : ∀ r ∈ θ.V1, r.length = D

private theorem czRow_control (arr : List (List R)) (h : inRange arr.length (-1) = true) :
    czRow arr (-1) = zeroRow (arr.getD (pos arr.length (-1)) []) := by
  rw [czRow_eq arr (-1) h]; simp

private theorem czRow_length (arr : List (List R)) (D : Nat) (hD : ∀ r ∈ arr, r.length = D) (t : Int)
    (h : inRange arr.length t = true) : (czRow arr t).length = D := by
  have hp := pos_lt h
  have hl : (arr.getD (pos arr.length t) []).length = D := by
    rw [List.getD_eq_getElem?_getD, List.getElem?_eq_getElem hp]
    exact hD _ (List.getElem_mem _)
  rw [czRow_eq arr t h]
  split
  · simp only [zeroRow, List.length_map]; exact hl
  · exact hl

private theorem inRange_control_of {T : Nat} {t : Int} (h : inRange T t = true) : inRange T (-1) = true := by
  simp only [inRange, Bool.and_eq_true, decide_eq_true_eq] at h ⊢
  omega

/-- A pair one of whose treatments is the control predicts exactly like the single agent
    (`predict_single_drug` on the arity-1 experiment), whichever column holds the control, including
    when it fails. -/
theorem C09_control_neutral (θ : Theta R) (T D : Nat) (hs : Shaped θ T D) (s t : Int) :
    predictRow? θ ⟨s, t, -1⟩ = predictSingleRow? θ ⟨s, t⟩
    ∧ predictRow? θ ⟨s, -1, t⟩ = predictSingleRow? θ ⟨s, t⟩ := by
  have first : predictRow? θ ⟨s, t, -1⟩ = predictSingleRow? θ ⟨s, t⟩ := by
    cases ht : inRange T t with
    | false => simp [predictRow?, predictSingleRow?, rowOk, row1Ok, hs.v2, hs.v1, hs.v0, ht]
    | true =>
      have hc := inRange_control_of ht
      have hok : rowOk θ ⟨s, t, -1⟩ = row1Ok θ ⟨s, t⟩ := by
        simp [rowOk, row1Ok, hs.v2, hs.v1, hs.v0, ht, hc]
      cases h1 : row1Ok θ ⟨s, t⟩ with
      | false => simp [predictRow?, predictSingleRow?, hok, h1]
      | true =>
        simp only [predictRow?, predictSingleRow?, hok, h1, if_true]
        congr 1
        have hv1c : inRange θ.V1.length (-1) = true := by rw [hs.v1]; exact hc
        have hv1t : inRange θ.V1.length t = true := by rw [hs.v1]; exact ht
        have hv2c : inRange θ.V2.length (-1) = true := by rw [hs.v2]; exact hc
        have hv0c : inRange θ.V0.length (-1) = true := by rw [hs.v0]; exact hc
        have e1 : vadd (czRow θ.V1 t) (czRow θ.V1 (-1)) = czRow θ.V1 t := by
          rw [czRow_control θ.V1 hv1c]
          apply vadd_zeroRow
          have a := czRow_length θ.V1 D hs.v1row t hv1t
          have b := czRow_length θ.V1 D hs.v1row (-1) hv1c
          rw [czRow_control θ.V1 hv1c] at b
          simp only [zeroRow, List.length_map] at b
          omega
        have e2 : sumL (vmul (vmul ((pyIndex? θ.W s).getD []) (czRow θ.V2 t)) (czRow θ.V2 (-1))) = 0 := by
          rw [czRow_control θ.V2 hv2c]; exact vmul_zeroRow_sum _ _
        have e3 : czCell θ.V0 (-1) = 0 := by
          rw [czCell_eq θ.V0 (-1) hv0c]; simp [zeroCell]
        simp only [predictRowVal, predictSingleRowVal, e1, e2, e3]
        ring
  refine ⟨first, ?_⟩
  have := C09_symmetric θ ⟨s, t, -1⟩
  simp only [swap] at this
  rw [this, first]

/-- control in both columns: the intercept `alpha + W0[s]` alone -/
theorem C09_control_control (θ : Theta R) (s : Int) (h : rowOk θ ⟨s, -1, -1⟩ = true) :
    predictRow? θ ⟨s, -1, -1⟩ = some (θ.alpha + θ.W0.getD (pos θ.W0.length s) 0) := by
  have h' := h
  simp only [rowOk, Bool.and_eq_true] at h'
  obtain ⟨⟨⟨⟨⟨⟨⟨a1, a2⟩, _⟩, a4⟩, _⟩, a6⟩, a7⟩, _⟩ := h'
  simp only [predictRow?, h, if_true]
  congr 1
  have e1 : sumL (vmul ((pyIndex? θ.W s).getD []) (vadd (czRow θ.V1 (-1)) (czRow θ.V1 (-1)))) = 0 := by
    rw [czRow_control θ.V1 a4, vadd_zeroRow _ _ (by simp [zeroRow])]
    exact vmul_zeroRow_sum _ _
  have e2 : sumL (vmul (vmul ((pyIndex? θ.W s).getD []) (czRow θ.V2 (-1))) (czRow θ.V2 (-1))) = 0 := by
    rw [czRow_control θ.V2 a2]; exact vmul_zeroRow_sum _ _
  have e3 : czCell θ.V0 (-1) = 0 := by
    rw [czCell_eq θ.V0 (-1) a7]; simp [zeroCell]
  simp only [predictRowVal, e1, e2, e3, pyIndex?_of_inRange θ.W0 s 0 a6, Option.getD_some]
  ring

/-- interaction model: a row with a control in either column has interaction (conditional mean) `0` -/
theorem C09_control_neutral_interaction (θ : ThetaI R) (s t : Int) (v : R) :
    (interactionRow? θ ⟨s, t, -1⟩ = some v → v = 0) ∧ (interactionRow? θ ⟨s, -1, t⟩ = some v → v = 0) := by
  have first : interactionRow? θ ⟨s, t, -1⟩ = some v → v = 0 := by
    intro h
    unfold interactionRow? at h
    split at h
    · rename_i hok
      simp only [rowOkI, Bool.and_eq_true] at hok
      simp only [interactionRowVal, Option.some.injEq] at h
      rw [czRow_control θ.V2 hok.2, vmul_zeroRow_sum] at h
      exact h.symm
    · cases h
  refine ⟨first, ?_⟩
  have := (C09_symmetric_interaction θ ⟨s, t, -1⟩).1
  simp only [swap] at this
  rw [this]; exact first

end control

/-! the interaction model's viability on a pair with control, over ℝ with the real `exp`/`log` -/

noncomputable instance realExpLog : ExpLog ℝ := ⟨Real.exp, Real.log⟩

/-- with the lookup as `create_single_treatment_effect_map` builds it (`(s, control) ↦ 1`), the
    viability of `(s, t, control)` and of `(s, control, t)` is the clipped single-agent effect of `t` -/
theorem C09_control_neutral_interaction_viability (θ : ThetaI ℝ) (s t : Int) (x : ℝ)
    (hok : rowOkI θ ⟨s, t, -1⟩ = true) (hc : θ.lookup.lookup (s, -1) = some 1)
    (hx : θ.lookup.lookup (s, t) = some x) :
    interactionViabilityRow? θ ⟨s, t, -1⟩ = some (clip clipLo clipHi x)
    ∧ interactionViabilityRow? θ ⟨s, -1, t⟩ = some (clip clipLo clipHi x) := by
  have first : interactionViabilityRow? θ ⟨s, t, -1⟩ = some (clip clipLo clipHi x) := by
    have hi : interactionRow? θ ⟨s, t, -1⟩ = some 0 := by
      have : interactionRow? θ ⟨s, t, -1⟩ = some (interactionRowVal θ ⟨s, t, -1⟩) := by
        simp [interactionRow?, hok]
      rw [this, (C09_control_neutral_interaction θ s t _).1 this]
    have hp : singleProduct? θ ⟨s, t, -1⟩ = some (x * 1) := by
      simp [singleProduct?, hx, hc]
    simp only [interactionViabilityRow?, hi, hp, Option.bind_some, bind, pure, interactionViabilityCell, mul_one, zero_add]
    congr 1
    have hm := clip_mem (clipLo : ℝ) clipHi x clipLo_le_clipHi
    have hpos : 0 < clip (clipLo : ℝ) clipHi x := lt_of_lt_of_le clipLo_pos hm.1
    show clip clipLo clipHi (Real.exp (Real.log (clip clipLo clipHi x))) = _
    rw [Real.exp_log hpos, clip_idem _ _ _ clipLo_le_clipHi]
  refine ⟨first, ?_⟩
  have h1 := (C09_symmetric_interaction θ ⟨s, t, -1⟩).1
  have h2 := (C09_symmetric_interaction θ ⟨s, t, -1⟩).2
  simp only [swap] at h1 h2
  simp only [interactionViabilityRow?] at first ⊢
  rw [h1, h2]; exact first

/-- the hypotheses of section 4 are satisfiable by a non-trivial sample (T = 2, D = 2), and the
    statement has content there: `(0, 1, control)`, `(0, control, 1)` and the single agent all give 47 -/
def exampleTheta : Theta Int :=
  { W := [[1, 2]], W0 := [10], V2 := [[1, 1], [2, 3]], V1 := [[5, 6], [7, 8]], V0 := [3, 4], alpha := 100, precision := 2 }

example : Shaped exampleTheta 2 2 := ⟨rfl, rfl, rfl, by decide⟩
example : predictRow? exampleTheta ⟨0, 1, -1⟩ = some 137 ∧ predictRow? exampleTheta ⟨0, -1, 1⟩ = some 137
    ∧ predictSingleRow? exampleTheta ⟨0, 1⟩ = some 137 ∧ predictRow? exampleTheta ⟨0, 1, 0⟩ = some 165
    ∧ predictRow? exampleTheta ⟨0, -1, -1⟩ = some 110 ∧ predictRow? exampleTheta ⟨0, 2, 0⟩ = none := by decide

/-! ## 5. viability range, variance -/

section range
variable {R : Type} [Field R] [LinearOrder R] [IsStrictOrderedRing R] [ExpLog R]

/-- every viability either sample type returns lies in `[0.01, 0.99]` -- whatever the parameters,
    the ids, and whatever `exp`/`log` are -/
theorem C09_viability_range (θ : Theta R) (θi : ThetaI R) (rows : List Row) (rows1 : List Row1) (vs : List R)
    (h : predictViability θ rows = some vs ∨ predictSingleViability θ rows1 = some vs
          ∨ interactionViability θi rows = .ok vs) :
    ∀ v ∈ vs, (1 / 100 : R) ≤ v ∧ v ≤ 99 / 100 := by
  have hc : ∀ x : R, (1 / 100 : R) ≤ clip clipLo clipHi x ∧ clip clipLo clipHi x ≤ 99 / 100 := by
    intro x
    have := clip_mem (clipLo : R) clipHi x clipLo_le_clipHi
    exact ⟨by rw [← clipLo_eq (R := R)]; exact this.1, by rw [← clipHi_eq (R := R)]; exact this.2⟩
  intro v hv
  rcases h with h | h | h
  · unfold predictViability at h
    cases hm : predictMean θ rows with
    | none => simp [hm] at h
    | some mu =>
      simp only [hm, Option.map_some, Option.some.injEq] at h
      subst h
      obtain ⟨m, _, rfl⟩ := List.mem_map.mp hv
      exact hc _
  · unfold predictSingleViability at h
    cases hm : predictSingleMean θ rows1 with
    | none => simp [hm] at h
    | some mu =>
      simp only [hm, Option.map_some, Option.some.injEq] at h
      subst h
      obtain ⟨m, _, rfl⟩ := List.mem_map.mp hv
      exact hc _
  · unfold interactionViability at h
    cases hm : interactionMean θi rows with
    | none => simp [hm] at h
    | some inter =>
      cases hp : rows.mapM (singleProduct? θi) with
      | none => simp [hm, hp] at h
      | some prods =>
        simp only [hm, hp, Except.ok.injEq] at h
        subst h
        obtain ⟨i, hi, rfl⟩ := List.mem_iff_getElem.mp hv
        simp only [List.getElem_zipWith, interactionViabilityCell]
        exact hc _

omit [ExpLog R] in
/-- the conditional variance of either sample type: one entry per experiment, each equal to
    `1 / precision`, positive whenever the precision is -/
theorem C09_variance (θ : Theta R) (θi : ThetaI R) (sc : PScreen) :
    (∃ v, θ.predictConditionalVariance sc = .ok v ∧ v.length = sc.size ∧ ∀ x ∈ v, x = 1 / θ.precision ∧ (0 < θ.precision → 0 < x))
    ∧ (∃ v, θi.predictConditionalVariance sc = .ok v ∧ v.length = sc.size ∧ ∀ x ∈ v, x = 1 / θi.precision ∧ (0 < θi.precision → 0 < x)) := by
  constructor
  · refine ⟨_, rfl, by simp [varianceVec], ?_⟩
    intro x hx
    have := List.eq_of_mem_replicate hx
    subst this
    exact ⟨rfl, fun hp => one_div_pos.mpr hp⟩
  · refine ⟨_, rfl, by simp [varianceVec], ?_⟩
    intro x hx
    have := List.eq_of_mem_replicate hx
    subst this
    exact ⟨rfl, fun hp => one_div_pos.mpr hp⟩

end range

/-! ## 6. `predict_*_all`, `predict_*_avg` -/

section holder
open Batchie.Proto
variable {R Θ : Type}

private theorem predictChecked_ok (nan : R → Bool) (f : Θ → Except Err (List R)) (thetas : List Θ) (i : Nat)
    (p : List R) (h : predictChecked nan f thetas i = .ok p) :
    ∃ θ, thetas[i]? = some θ ∧ f θ = .ok p ∧ p.any nan = false := by
  unfold predictChecked getTheta at h
  cases ht : thetas[i]? with
  | none => simp [ht, bind, Except.bind] at h
  | some θ =>
    cases hf : f θ with
    | error e => simp [ht, hf, bind, Except.bind] at h
    | ok q =>
      simp only [ht, hf, bind, Except.bind, pure, Except.pure] at h
      split at h
      · cases h
      · rename_i hn
        cases h
        exact ⟨θ, rfl, hf, by simpa using hn⟩

/-- the stacked helpers return one row per posterior sample, in holder order: row `i` is sample
    `i`'s own prediction (and no NaN-flagged cell got through) -/
theorem C09_all_rows (nan : R → Bool) (f : Θ → Except Err (List R)) (n : Nat) (thetas : List Θ)
    (P : List (List R)) (h : predictAll nan f n thetas = .ok P) :
    P.length = n ∧ ∀ i, i < n → ∃ θ, thetas[i]? = some θ ∧ f θ = .ok (P.getD i []) ∧ (P.getD i []).any nan = false := by
  unfold predictAll at h
  have hl := exMapM_length _ _ _ h
  simp only [List.length_range] at hl
  refine ⟨hl, ?_⟩
  intro i hi
  obtain ⟨hy, e⟩ := exMapM_getElem _ _ _ h i (by simpa using hi)
  simp only [List.getElem_range] at e
  have : P.getD i [] = P[i] := by simp [List.getD_eq_getElem?_getD, hy]
  rw [this]
  exact predictChecked_ok nan f thetas i _ e

private theorem exMapM_ok {ε A B : Type} (g : A → Except ε B) (h : A → B) (l : List A)
    (hl : ∀ a ∈ l, g a = .ok (h a)) : l.mapM g = .ok (l.map h) := by
  induction l with
  | nil => rfl
  | cons a l ih =>
    rw [List.mapM_cons, hl a (by simp), ih (fun b hb => hl b (by simp [hb]))]
    rfl

/-- conversely: when the holder has a sample at every position `< n`, each predicts, and no cell is
    NaN-flagged, the stacked helper RETURNS, and row `i` is sample `i`'s prediction (holder order) -/
theorem C09_all_rows_complete (nan : R → Bool) (f : Θ → Except Err (List R)) (n : Nat) (thetas : List Θ)
    (P : Nat → List R)
    (h : ∀ i, i < n → ∃ θ, thetas[i]? = some θ ∧ f θ = .ok (P i) ∧ (P i).any nan = false) :
    predictAll nan f n thetas = .ok ((List.range n).map P) := by
  unfold predictAll
  apply exMapM_ok
  intro i hi
  obtain ⟨θ, ht, hf, hn⟩ := h i (by simpa using hi)
  simp [predictChecked, getTheta, ht, hf, hn, bind, Except.bind, pure, Except.pure]

/-- `predict_variance_all` is the same stack, and refuses an empty holder -/
theorem C09_variance_all_rows (nan : R → Bool) (f : Θ → Except Err (List R)) (n : Nat) (thetas : List Θ)
    (P : List (List R)) (h : predictVarianceAll nan f n thetas = .ok P) :
    n ≠ 0 ∧ predictAll nan f n thetas = .ok P := by
  unfold predictVarianceAll at h
  cases hp : predictAll nan f n thetas with
  | error e => simp [hp, bind, Except.bind] at h
  | ok Q =>
    simp only [hp, bind, Except.bind, pure, Except.pure] at h
    split at h
    · cases h
    · rename_i hne
      cases h
      refine ⟨?_, rfl⟩
      rintro rfl
      have := (C09_all_rows nan f 0 thetas _ hp).1
      simp [List.length_eq_zero_iff.mp this] at hne

end holder

section avg
open Batchie.Proto
variable {R Θ : Type} [Field R]

/-- per-experiment mean over the rows of the stack -/
def colMeans (size n : Nat) (P : List (List R)) : List R :=
  (List.range size).map (fun j => (P.map (fun p => p.getD j 0)).sum / (n : R))

/-- The averaged helpers (`result = zeros; result = result + sub_result; result / n_thetas`) return,
    for every experiment, exactly the arithmetic mean over the samples of the stacked predictions --
    and fail exactly when the stack fails. -/
theorem C09_avg_is_mean (nan : R → Bool) (f : Θ → Except Err (List R)) (size n : Nat) (thetas : List Θ)
    (hlen : ∀ θ p, f θ = .ok p → p.length = size) :
    predictAvg nan f size n thetas = (predictAll nan f n thetas).map (colMeans size n) := by
  unfold predictAvg
  rw [exFoldlM_eq_mapM (predictChecked nan f thetas) vadd]
  cases hP : predictAll nan f n thetas with
  | error e =>
    unfold predictAll at hP
    simp [hP, Except.map, bind, Except.bind]
  | ok P =>
    have hrows := C09_all_rows nan f n thetas P hP
    unfold predictAll at hP
    simp only [hP, Except.map, bind, Except.bind, pure, Except.pure]
    congr 1
    have hPl : ∀ p ∈ P, p.length = size := by
      intro p hp
      obtain ⟨i, hi, rfl⟩ := List.mem_iff_getElem.mp hp
      obtain ⟨θ, _, hf, _⟩ := hrows.2 i (by rw [← hrows.1]; exact hi)
      have : P.getD i [] = P[i] := by simp [List.getD_eq_getElem?_getD, hi]
      rw [this] at hf
      exact hlen θ _ hf
    have hL := foldl_vadd_length P (List.replicate size (0 : R)) size (by simp) hPl
    apply List.ext_getElem
    · simp [colMeans, hL]
    · intro j h1 h2
      have hj : j < size := by simpa [hL] using h1
      have hg := foldl_vadd_getD P (List.replicate size (0 : R)) size (by simp) hPl j hj
      have e1 : (List.foldl vadd (List.replicate size (0 : R)) P)[j]'(by rw [hL]; exact hj)
          = (List.foldl vadd (List.replicate size (0 : R)) P).getD j 0 := by
        simp [List.getD_eq_getElem?_getD, hL, hj]
      simp only [List.getElem_map, colMeans, List.getElem_range, e1, hg]
      simp [List.getD_eq_getElem?_getD, hj, OfCount.ofCount]

end avg

/-- `hlen` of `C09_avg_is_mean` holds for the prediction methods of both sample types on every
    well-formed screen (as many id rows as sample ids): predictions have one entry per experiment -/
theorem C09_prediction_length {R : Type} [Field R] [LinearOrder R] [ExpLog R] (θ : Theta R) (θi : ThetaI R)
    (sc : PScreen) (hsc : sc.tids.length = sc.sids.length) (p : List R)
    (h : θ.predictConditionalMean sc = .ok p ∨ θ.predictViabilityM sc = .ok p
          ∨ θi.predictConditionalMean sc = .ok p ∨ θi.predictViabilityM sc = .ok p) :
    p.length = sc.size := by
  have l2 : sc.rows2.length = sc.size := by simp [PScreen.rows2, PScreen.size, hsc]
  have l1 : sc.rows1.length = sc.size := by simp [PScreen.rows1, PScreen.size, hsc]
  have opt : ∀ {o : Option (List R)} {q : List R}, optIdx o = .ok q → o = some q := by
    intro o q ho; cases o with
    | none => cases ho
    | some x => simp only [optIdx, Except.ok.injEq] at ho; rw [ho]
  rcases h with h | h | h | h
  · unfold Theta.predictConditionalMean at h
    split at h
    · have := opt h; rw [predictSingleMean_rowwise] at this; rw [mapM_length _ _ _ this, l1]
    · split at h
      · have := opt h; rw [predictMean_rowwise] at this; rw [mapM_length _ _ _ this, l2]
      · cases h
  · unfold Theta.predictViabilityM at h
    split at h
    · have := opt h; rw [(C09_rowwise_viability θ θi).2.1] at this; rw [mapM_length _ _ _ this, l1]
    · split at h
      · have := opt h; rw [(C09_rowwise_viability θ θi).1] at this; rw [mapM_length _ _ _ this, l2]
      · cases h
  · unfold ThetaI.predictConditionalMean at h
    split at h
    · have := opt h; rw [interactionMean_rowwise] at this; rw [mapM_length _ _ _ this, l2]
    · cases h
  · unfold ThetaI.predictViabilityM at h
    split at h
    · have hr := (C09_rowwise_viability θ θi).2.2 sc.rows2
      simp only [h, Except.toOption] at hr
      rw [mapM_length _ _ _ hr.symm, l2]
    · cases h


/-! ## 7. the same statements for the `Theta` METHODS the driver executes (whole `PScreen`s)

  Sections 2-4 are about the array functions `predictMean` / `predictSingleMean` / `interactionMean` on
  lists of rows.  The correspondence run executes `Theta.predictConditionalMean`, `Theta.predictViabilityM`,
  `ThetaI.predictConditionalMean`, `ThetaI.predictViabilityM` on a `PScreen` (arity, sample ids, id rows).
  The theorems below state subset / column swap / control neutrality for exactly those methods. -/

section screens
open Batchie.Proto

/-- `screen.subset(mask)`: what the prediction path reads of a `ScreenSubset` / `Plate` -/
def subsetScreen (sc : PScreen) (m : List Bool) : PScreen :=
  { arity := sc.arity, sids := maskFilter sc.sids m, tids := maskFilter sc.tids m }

/-- the screen with its treatment columns in reverse order -/
def swapScreen (sc : PScreen) : PScreen := { sc with tids := sc.tids.map List.reverse }

theorem maskFilter_zipWith {A B C : Type} (f : A → B → C) (a : List A) (b : List B) (m : List Bool) :
    maskFilter (List.zipWith f a b) m = List.zipWith f (maskFilter a m) (maskFilter b m) := by
  induction a generalizing b m with
  | nil => cases m <;> simp [maskFilter]
  | cons x a ih =>
    cases b with
    | nil =>
      cases m with
      | nil => simp [maskFilter]
      | cons c m => cases c <;> simp [maskFilter]
    | cons y b =>
      cases m with
      | nil => simp [maskFilter]
      | cons c m => cases c <;> simp [maskFilter, ih]

theorem rows2_subset (sc : PScreen) (m : List Bool) : (subsetScreen sc m).rows2 = maskFilter sc.rows2 m := by
  simp only [PScreen.rows2, subsetScreen, maskFilter_zipWith]

theorem rows1_subset (sc : PScreen) (m : List Bool) : (subsetScreen sc m).rows1 = maskFilter sc.rows1 m := by
  simp only [PScreen.rows1, subsetScreen, maskFilter_zipWith]

private theorem optIdx_ok {β : Type} {o : Option β} {q : β} (h : optIdx o = .ok q) : o = some q := by
  cases o with
  | none => cases h
  | some x => simp only [optIdx, Except.ok.injEq] at h; rw [h]

private theorem toOption_ok {β : Type} {e : Except Err β} {q : β} (h : e.toOption = some q) : e = .ok q := by
  cases e with
  | error _ => cases h
  | ok x => simp only [Except.toOption, Option.some.injEq] at h; rw [h]

variable {α : Type} [Add α] [Mul α] [OfNat α 0] [Neg α] [Div α] [OfNat α 1] [ExpLog α] [LT α] [DecidableLT α]
  [OfScientific α]

/-- SUBSETS, for the methods themselves and every carrier type (in particular `Float`, which the driver
    runs): when a method returns `ys` on a screen, it returns on every boolean-mask subset of that
    screen (a `ScreenSubset`, a `Plate`, a subset of a subset) exactly the corresponding entries of `ys`. -/
theorem C09_subset_screen (θ : Theta α) (θi : ThetaI α) (sc : PScreen) (m : List Bool) (ys : List α) :
    (θ.predictConditionalMean sc = .ok ys → θ.predictConditionalMean (subsetScreen sc m) = .ok (maskFilter ys m))
    ∧ (θ.predictViabilityM sc = .ok ys → θ.predictViabilityM (subsetScreen sc m) = .ok (maskFilter ys m))
    ∧ (θi.predictConditionalMean sc = .ok ys → θi.predictConditionalMean (subsetScreen sc m) = .ok (maskFilter ys m))
    ∧ (θi.predictViabilityM sc = .ok ys → θi.predictViabilityM (subsetScreen sc m) = .ok (maskFilter ys m)) := by
  have ha : (subsetScreen sc m).arity = sc.arity := rfl
  refine ⟨?_, ?_, ?_, ?_⟩
  · intro h
    unfold Theta.predictConditionalMean at h ⊢
    rw [ha]
    by_cases h1 : sc.arity = 1
    · rw [if_pos h1] at h ⊢
      rw [rows1_subset, C09_rowwise_subset _ _ (C09_rowwise θ θi).2.1 _ _ m (optIdx_ok h)]; rfl
    · rw [if_neg h1] at h ⊢
      by_cases h2 : sc.arity = 2
      · rw [if_pos h2] at h ⊢
        rw [rows2_subset, C09_rowwise_subset _ _ (C09_rowwise θ θi).1 _ _ m (optIdx_ok h)]; rfl
      · rw [if_neg h2] at h; cases h
  · intro h
    unfold Theta.predictViabilityM at h ⊢
    rw [ha]
    by_cases h1 : sc.arity = 1
    · rw [if_pos h1] at h ⊢
      rw [rows1_subset, C09_rowwise_subset _ _ (C09_rowwise_viability θ θi).2.1 _ _ m (optIdx_ok h)]; rfl
    · rw [if_neg h1] at h ⊢
      by_cases h2 : sc.arity = 2
      · rw [if_pos h2] at h ⊢
        rw [rows2_subset, C09_rowwise_subset _ _ (C09_rowwise_viability θ θi).1 _ _ m (optIdx_ok h)]; rfl
      · rw [if_neg h2] at h; cases h
  · intro h
    unfold ThetaI.predictConditionalMean at h ⊢
    rw [ha]
    by_cases h2 : sc.arity = 2
    · rw [if_pos h2] at h ⊢
      rw [rows2_subset, C09_rowwise_subset _ _ (C09_rowwise θ θi).2.2 _ _ m (optIdx_ok h)]; rfl
    · rw [if_neg h2] at h; cases h
  · intro h
    unfold ThetaI.predictViabilityM at h ⊢
    rw [ha]
    by_cases h2 : sc.arity = 2
    · rw [if_pos h2] at h ⊢
      rw [rows2_subset]
      apply toOption_ok
      have hw : (fun rows => (interactionViability θi rows).toOption) sc.rows2 = some ys := by
        simp only [h, Except.toOption]
      exact C09_rowwise_subset (fun rows => (interactionViability θi rows).toOption) _
        (C09_rowwise_viability θ θi).2.2 sc.rows2 ys m hw
    · rw [if_neg h2] at h; cases h

omit [Add α] [Mul α] [OfNat α 0] [Neg α] [ExpLog α] [LT α] [DecidableLT α] [OfScientific α] in
/-- the variance methods on a subset: again the corresponding entries (all equal `1 / precision`) -/
theorem C09_subset_variance (θ : Theta α) (θi : ThetaI α) (sc : PScreen) (m : List Bool) :
    θ.predictConditionalVariance (subsetScreen sc m) = (θ.predictConditionalVariance sc).map (fun v => maskFilter v m)
    ∧ θi.predictConditionalVariance (subsetScreen sc m) = (θi.predictConditionalVariance sc).map (fun v => maskFilter v m) := by
  have key : ∀ (x : α) (l : List Int) (m : List Bool),
      List.replicate (maskFilter l m).length x = maskFilter (List.replicate l.length x) m := by
    intro x l
    induction l with
    | nil => intro m; cases m <;> simp [maskFilter]
    | cons a l ih =>
      intro m
      cases m with
      | nil => simp [maskFilter]
      | cons c m => cases c <;> simp [maskFilter, List.replicate_succ, ih]
  constructor
  · simp only [Theta.predictConditionalVariance, Except.map, varianceVec, PScreen.size, subsetScreen, key]
  · simp only [ThetaI.predictConditionalVariance, Except.map, varianceVec, PScreen.size, subsetScreen, key]

end screens

section screens_swap
open Batchie.Proto

private theorem rows2_swap (sc : PScreen) (h2 : ∀ r ∈ sc.tids, r.length = 2) :
    (swapScreen sc).rows2 = sc.rows2.map swap := by
  simp only [PScreen.rows2, swapScreen]
  generalize sc.sids = sids
  generalize hts : sc.tids = tids at h2
  clear hts
  induction sids generalizing tids with
  | nil => simp
  | cons s sids ih =>
    cases tids with
    | nil => simp
    | cons r tids =>
      have hr := h2 r (by simp)
      have ih' := ih tids (fun x hx => h2 x (by simp [hx]))
      match r, hr with
      | [a, b], _ =>
        simp only [List.map_cons, List.zipWith_cons_cons, ih', swap]
        simp

variable {R : Type} [Field R] [LinearOrder R] [ExpLog R]

/-- TREATMENT ORDER, for the methods themselves: on an arity-2 screen, exchanging the two treatment
    columns of every experiment changes no conditional mean of either sample type, no viability of the
    `SparseDrugCombo` sample, and no viability (nor its success) of the interaction sample. -/
theorem C09_swap_screen (θ : Theta R) (θi : ThetaI R) (sc : PScreen) (ha : sc.arity = 2)
    (h2 : ∀ r ∈ sc.tids, r.length = 2) :
    θ.predictConditionalMean (swapScreen sc) = θ.predictConditionalMean sc
    ∧ θ.predictViabilityM (swapScreen sc) = θ.predictViabilityM sc
    ∧ θi.predictConditionalMean (swapScreen sc) = θi.predictConditionalMean sc
    ∧ (θi.predictViabilityM (swapScreen sc)).toOption = (θi.predictViabilityM sc).toOption := by
  have hsa : (swapScreen sc).arity = 2 := ha
  have hr := rows2_swap sc h2
  refine ⟨?_, ?_, ?_, ?_⟩
  · have h21 : ¬ ((2 : Nat) = 1) := by decide
    simp only [Theta.predictConditionalMean, hsa, ha, hr, (C09_symmetric_screen θ θi sc.rows2).1, if_neg h21]
  · have h21 : ¬ ((2 : Nat) = 1) := by decide
    simp only [Theta.predictViabilityM, hsa, ha, hr, (C09_symmetric_viability θ θi sc.rows2).1, if_neg h21]
  · simp only [ThetaI.predictConditionalMean, hsa, ha, hr, (C09_symmetric_screen θ θi sc.rows2).2]
  · simp only [ThetaI.predictViabilityM, hsa, ha, hr, if_true, (C09_symmetric_viability θ θi sc.rows2).2]

end screens_swap

section screens_control
open Batchie.Proto
variable {R : Type} [Field R] [LinearOrder R] [ExpLog R]

/-- the arity-1 screen of single agents, and the two arity-2 screens that pair each of them with the
    control in the second / in the first column -/
def singleScreen (sids ts : List Int) : PScreen := { arity := 1, sids := sids, tids := ts.map (fun t => [t]) }
def pairRightControl (sids ts : List Int) : PScreen := { arity := 2, sids := sids, tids := ts.map (fun t => [t, -1]) }
def pairLeftControl (sids ts : List Int) : PScreen := { arity := 2, sids := sids, tids := ts.map (fun t => [-1, t]) }

private theorem zipWith_map_right {A B B' C : Type} (f : A → B' → C) (g : B → B') (a : List A) (b : List B) :
    List.zipWith f a (b.map g) = List.zipWith (fun x y => f x (g y)) a b := by
  induction a generalizing b with
  | nil => simp
  | cons x a ih => cases b <;> simp [ih]

/-- CONTROL NEUTRALITY, for the methods themselves: on a shaped sample, the arity-2 screen that pairs
    every agent with the control -- in the second column or in the first -- gets exactly the conditional
    means and viabilities (and the same failure) as the arity-1 screen of the single agents. -/
theorem C09_control_neutral_screen (θ : Theta R) (T D : Nat) (hs : Shaped θ T D) (sids ts : List Int) :
    θ.predictConditionalMean (pairRightControl sids ts) = θ.predictConditionalMean (singleScreen sids ts)
    ∧ θ.predictConditionalMean (pairLeftControl sids ts) = θ.predictConditionalMean (singleScreen sids ts)
    ∧ θ.predictViabilityM (pairRightControl sids ts) = θ.predictViabilityM (singleScreen sids ts)
    ∧ θ.predictViabilityM (pairLeftControl sids ts) = θ.predictViabilityM (singleScreen sids ts) := by
  have r1 : (singleScreen sids ts).rows1 = List.zipWith (fun s t => (⟨s, t⟩ : Row1)) sids ts := by
    simp [PScreen.rows1, singleScreen, zipWith_map_right]
  have rR : (pairRightControl sids ts).rows2 = (List.zipWith (fun s t => (⟨s, t⟩ : Row1)) sids ts).map (fun r => ⟨r.s, r.t, -1⟩) := by
    simp [PScreen.rows2, pairRightControl, zipWith_map_right, List.map_zipWith]
  have rL : (pairLeftControl sids ts).rows2 = (List.zipWith (fun s t => (⟨s, t⟩ : Row1)) sids ts).map (fun r => ⟨r.s, -1, r.t⟩) := by
    simp [PScreen.rows2, pairLeftControl, zipWith_map_right, List.map_zipWith]
  generalize List.zipWith (fun s t => (⟨s, t⟩ : Row1)) sids ts = rows at r1 rR rL
  have mR : predictMean θ (rows.map (fun r => ⟨r.s, r.t, -1⟩)) = predictSingleMean θ rows := by
    rw [predictMean_rowwise, predictSingleMean_rowwise, List.mapM_map]
    congr 1; funext r
    exact (C09_control_neutral θ T D hs r.s r.t).1
  have mL : predictMean θ (rows.map (fun r => ⟨r.s, -1, r.t⟩)) = predictSingleMean θ rows := by
    rw [predictMean_rowwise, predictSingleMean_rowwise, List.mapM_map]
    congr 1; funext r
    exact (C09_control_neutral θ T D hs r.s r.t).2
  have a1 : (singleScreen sids ts).arity = 1 := rfl
  have aR : (pairRightControl sids ts).arity = 2 := rfl
  have aL : (pairLeftControl sids ts).arity = 2 := rfl
  refine ⟨?_, ?_, ?_, ?_⟩
  · simp [Theta.predictConditionalMean, a1, aR, r1, rR, mR]
  · simp [Theta.predictConditionalMean, a1, aL, r1, rL, mL]
  · simp [Theta.predictViabilityM, predictViability, predictSingleViability, a1, aR, r1, rR, mR]
  · simp [Theta.predictViabilityM, predictViability, predictSingleViability, a1, aL, r1, rL, mL]

end screens_control

/-- the screen-level statements have content: a concrete subset / swap / pairing on the example sample -/
example : exampleTheta.predictConditionalMean ⟨2, [0, 0, 0], [[1, 0], [-1, 1], [1, -1]]⟩ = .ok [165, 137, 137]
    ∧ exampleTheta.predictConditionalMean (subsetScreen ⟨2, [0, 0, 0], [[1, 0], [-1, 1], [1, -1]]⟩ [false, true, true]) = .ok [137, 137]
    ∧ exampleTheta.predictConditionalMean (singleScreen [0] [1]) = .ok [137] := by decide


/-! ## 8. non-mutation of the whole prediction path (buffer model) -/

section buffers
variable {α : Type} [Add α] [Mul α] [OfNat α 0]

/-- the table-reading operations of module-level `predict`, in program order, on the memory that
    holds the 2-d tables (`W`, `V2`, `V1` at handles `hW`, `hV2`, `hV1`) ... -/
def predictOps2 (hW hV2 hV1 : Nat) (rows : List Row) : List GOp :=
  [.gather hW (rows.map (·.s)), .gcz hV2 (rows.map (·.t0)), .gcz hV2 (rows.map (·.t1)),
   .gather hW (rows.map (·.s)), .gcz hV1 (rows.map (·.t0)), .gcz hV1 (rows.map (·.t1))]

/-- ... and on the memory that holds the 1-d tables (`W0`, `V0`) -/
def predictOps1 (hW0 hV0 : Nat) (rows : List Row) : List GOp :=
  [.gather hW0 (rows.map (·.s)), .gcz hV0 (rows.map (·.t0)), .gcz hV0 (rows.map (·.t1))]

/-- the element-wise arithmetic of `predict` on the nine gathered arrays (every numpy operator and
    `np.sum` allocates its result) -/
def predictArith (alpha : α) (w a2 b2 w' a1 b1 : List (List α)) (w0 a0 b0 : List α) : List α :=
  let interaction2 := (List.zipWith vmul (List.zipWith vmul w a2) b2).map sumL
  let interaction1 := (List.zipWith vmul w' (List.zipWith vadd a1 b1)).map sumL
  let intercept := List.zipWith (· + ·) (List.zipWith (· + ·) (w0.map (alpha + ·)) a0) b0
  List.zipWith (· + ·) (List.zipWith (· + ·) intercept interaction1) interaction2

/-- the functional model of `predict` IS: the nine table reads, then that arithmetic -/
theorem predictMean_eq_reads (θ : Theta α) (rows : List Row) :
    predictMean θ rows = (do
      let w ← gather? θ.W (rows.map (·.s))
      let a2 ← gatherCopyZero zeroRow θ.V2 (rows.map (·.t0))
      let b2 ← gatherCopyZero zeroRow θ.V2 (rows.map (·.t1))
      let w' ← gather? θ.W (rows.map (·.s))
      let a1 ← gatherCopyZero zeroRow θ.V1 (rows.map (·.t0))
      let b1 ← gatherCopyZero zeroRow θ.V1 (rows.map (·.t1))
      let w0 ← gather? θ.W0 (rows.map (·.s))
      let a0 ← gatherCopyZero zeroCell θ.V0 (rows.map (·.t0))
      let b0 ← gatherCopyZero zeroCell θ.V0 (rows.map (·.t1))
      pure (predictArith θ.alpha w a2 b2 w' a1 b1 w0 a0 b0)) := rfl

private theorem len3 {A : Type} (l : List A) (h : l.length = 3) : ∃ a b c, l = [a, b, c] := by
  match l, h with
  | [a, b, c], _ => exact ⟨a, b, c, rfl⟩

private theorem len6 {A : Type} (l : List A) (h : l.length = 6) : ∃ a b c d e f, l = [a, b, c, d, e, f] := by
  match l, h with
  | [a, b, c, d, e, f], _ => exact ⟨a, b, c, d, e, f, rfl⟩

/-- ANY sequence of table reads of the prediction path (plain gathers and
    `copy_array_with_control_treatments_set_to_zero`, on any tables that exist when the sequence
    starts -- this covers `predict`, `predict_single_drug` and both methods of the interaction
    sample): every buffer that existed before -- the posterior sample's tables, the screen's id
    arrays, anything else -- is unchanged afterwards, exactly one new buffer per operation is
    appended, and read back at the END of the sequence the new buffers hold what the functional model
    computes from the ORIGINAL tables. -/
theorem C09_table_reads_pure {β : Type} (zero : β → β) (ops : List GOp) (m m' : Mem β) (ids : List Nat)
    (hsrc : ∀ op ∈ ops, op.src < m.bufs.length) (h : runOps zero m ops = some (m', ids)) :
    (∀ i, i < m.bufs.length → m'.read i = m.read i)
    ∧ m'.bufs.length = m.bufs.length + ops.length
    ∧ (ids.map m'.read).map some = ops.map (fun op => op.pure zero (m.read op.src)) := by
  refine ⟨runOps_preserves zero ops m m' ids hsrc h, ?_, runOps_results zero ops m m' ids hsrc h⟩
  obtain ⟨results, hb, _, hpure⟩ := runOps_spec zero ops m m' ids hsrc h
  have : results.length = ops.length := by
    have := congrArg List.length hpure
    simpa using this.symm
  rw [hb, List.length_append, this]

/-- Module-level `predict` in that memory model: run its nine table reads where the posterior
    sample's tables live (`m2`: `W`, `V2`, `V1`; `m1`: `W0`, `V0`).  Afterwards every pre-existing
    buffer of both memories is unchanged, and the functional model's prediction `predictMean θ rows`
    is exactly the arithmetic on the nine NEW buffers -- so the tie of `predictMean` to the code
    carries the non-mutation of θ for the whole path, not only for the gather helper. -/
theorem C09_predict_buffers_unchanged (θ : Theta α) (rows : List Row)
    (m2 m2' : Mem (List α)) (m1 m1' : Mem α) (hW hV2 hV1 hW0 hV0 : Nat) (ids2 ids1 : List Nat)
    (lW : hW < m2.bufs.length) (lV2 : hV2 < m2.bufs.length) (lV1 : hV1 < m2.bufs.length)
    (lW0 : hW0 < m1.bufs.length) (lV0 : hV0 < m1.bufs.length)
    (rW : m2.read hW = θ.W) (rV2 : m2.read hV2 = θ.V2) (rV1 : m2.read hV1 = θ.V1)
    (rW0 : m1.read hW0 = θ.W0) (rV0 : m1.read hV0 = θ.V0)
    (h2 : runOps zeroRow m2 (predictOps2 hW hV2 hV1 rows) = some (m2', ids2))
    (h1 : runOps zeroCell m1 (predictOps1 hW0 hV0 rows) = some (m1', ids1)) :
    (∀ i, i < m2.bufs.length → m2'.read i = m2.read i)
    ∧ (∀ i, i < m1.bufs.length → m1'.read i = m1.read i)
    ∧ ∃ w a2 b2 w' a1 b1 w0 a0 b0,
        ids2.map m2'.read = [w, a2, b2, w', a1, b1] ∧ ids1.map m1'.read = [w0, a0, b0]
        ∧ predictMean θ rows = some (predictArith θ.alpha w a2 b2 w' a1 b1 w0 a0 b0) := by
  have s2 : ∀ op ∈ predictOps2 hW hV2 hV1 rows, op.src < m2.bufs.length := by
    intro op hop
    simp only [predictOps2, List.mem_cons, List.not_mem_nil, or_false] at hop
    rcases hop with rfl | rfl | rfl | rfl | rfl | rfl <;> simp [GOp.src, lW, lV2, lV1]
  have s1 : ∀ op ∈ predictOps1 hW0 hV0 rows, op.src < m1.bufs.length := by
    intro op hop
    simp only [predictOps1, List.mem_cons, List.not_mem_nil, or_false] at hop
    rcases hop with rfl | rfl | rfl <;> simp [GOp.src, lW0, lV0]
  obtain ⟨p2, _, r2⟩ := C09_table_reads_pure zeroRow _ m2 m2' ids2 s2 h2
  obtain ⟨p1, _, r1⟩ := C09_table_reads_pure zeroCell _ m1 m1' ids1 s1 h1
  refine ⟨p2, p1, ?_⟩
  simp only [predictOps2, List.map_cons, List.map_nil, GOp.pure, GOp.src, rW, rV2, rV1] at r2
  simp only [predictOps1, List.map_cons, List.map_nil, GOp.pure, GOp.src, rW0, rV0] at r1
  have n2 : (ids2.map m2'.read).length = 6 := by simpa using congrArg List.length r2
  have n1 : (ids1.map m1'.read).length = 3 := by simpa using congrArg List.length r1
  obtain ⟨w, a2, b2, w', a1, b1, hl2⟩ := len6 _ n2
  obtain ⟨w0, a0, b0, hl1⟩ := len3 _ n1
  rw [hl2] at r2
  rw [hl1] at r1
  simp only [List.map_cons, List.map_nil, List.cons.injEq, and_true] at r2 r1
  obtain ⟨e1, e2, e3, e4, e5, e6⟩ := r2
  obtain ⟨f1, f2, f3⟩ := r1
  have hw : w' = w := Option.some.inj (e4.trans e1.symm)
  subst hw
  refine ⟨w', a2, b2, w', a1, b1, w0, a0, b0, hl2, hl1, ?_⟩
  rw [predictMean_eq_reads, ← e1, ← e2, ← e3, ← e5, ← e6, ← f1, ← f2, ← f3]
  rfl

end buffers

/-- the hypotheses are satisfiable and the statement has content: on a concrete memory the reads run,
    the tables stay as they were, six buffers are appended -/
example : (runOps zeroRow (⟨[[[1, 2]], [[1, 1], [2, 3]], [[5, 6], [7, 8]]]⟩ : Mem (List Int))
      (predictOps2 0 1 2 [⟨0, 1, -1⟩])).map (fun p => (p.1.bufs.take 3, p.1.bufs.length, p.2))
    = some ([[[1, 2]], [[1, 1], [2, 3]], [[5, 6], [7, 8]]], 9, [3, 4, 5, 6, 7, 8]) := by decide


/-! ## 9. Regression (not a clause): block-wise averaging, seeded change S6-C09 -/

section blockmean
variable {R : Type} [Field R]

private theorem sum_map_div (l : List (List R)) (c : R) :
    (l.map (fun blk => blk.sum / c)).sum = (l.map List.sum).sum / c := by
  induction l with
  | nil => simp
  | cons a l ih => simp only [List.map_cons, List.sum_cons, ih, add_div]

private theorem chunksN_spec (b : Nat) : ∀ (q : Nat) (xs : List R), xs.length = q * b →
    (chunksN q b xs).length = q ∧ (∀ blk ∈ chunksN q b xs, blk.length = b)
      ∧ ((chunksN q b xs).map List.sum).sum = xs.sum := by
  intro q
  induction q with
  | zero =>
    intro xs h
    have : xs = [] := List.eq_nil_of_length_eq_zero (by simpa using h)
    subst this
    simp [chunksN]
  | succ q ih =>
    intro xs h
    have hb : b ≤ xs.length := by rw [h]; exact Nat.le_mul_of_pos_left b (Nat.succ_pos q)
    have hd : (xs.drop b).length = q * b := by
      rw [List.length_drop, h, Nat.succ_mul]; omega
    obtain ⟨i1, i2, i3⟩ := ih (xs.drop b) hd
    refine ⟨by simp [chunksN, i1], ?_, ?_⟩
    · intro blk hblk
      simp only [chunksN, List.mem_cons] at hblk
      rcases hblk with rfl | hm
      · simp [List.length_take, hb]
      · exact i2 blk hm
    · simp only [chunksN, List.map_cons, List.sum_cons, i3]
      exact List.sum_take_add_sum_drop xs b

/-- `meanL` over a field is `sum / length` -/
private theorem meanL_eq (xs : List R) : meanL xs = xs.sum / (xs.length : R) := by
  simp [meanL, sumL_eq_sum, OfCount.ofCount]

/-- GENERAL: when the block size divides the number of samples, the mean of the block means IS the
    mean (every block has the same weight) -/
theorem C09_block_mean_dvd [CharZero R] (b q : Nat) (hb : 0 < b) (xs : List R) (h : xs.length = q * b) :
    blockMean b xs = meanL xs := by
  have hq : (xs.length + b - 1) / b = q := by
    rw [h, show q * b + b - 1 = (b - 1) + q * b by omega, Nat.add_mul_div_right _ _ hb,
      Nat.div_eq_of_lt (by omega), Nat.zero_add]
  obtain ⟨l1, l2, l3⟩ := chunksN_spec b q xs h
  have hmap : (chunksN q b xs).map meanL = (chunksN q b xs).map (fun blk => blk.sum / (b : R)) := by
    apply List.map_congr_left
    intro blk hblk
    rw [meanL_eq, l2 blk hblk]
  unfold blockMean chunks
  rw [hq, meanL_eq, hmap, sum_map_div, l3, List.length_map, l1, meanL_eq, h]
  have hbR : (b : R) ≠ 0 := Nat.cast_ne_zero.mpr (by omega)
  by_cases hq0 : q = 0
  · subst hq0; simp
  · have hqR : (q : R) ≠ 0 := Nat.cast_ne_zero.mpr hq0
    rw [Nat.cast_mul]
    field_simp

/-- GENERAL: a holder that fits into one block is averaged exactly -/
theorem C09_block_mean_small (b : Nat) (xs : List R) (h : xs.length ≤ b) : blockMean b xs = meanL xs := by
  by_cases hx : xs = []
  · subst hx
    have h0 : ([] : List R).length + b - 1 = b - 1 := by simp
    have hq : (b - 1) / b = 0 := by
      rcases b with _ | b
      · simp
      · exact Nat.div_eq_of_lt (by omega)
    simp [blockMean, chunks, chunksN, meanL, sumL, hq]
  · have hpos : 0 < xs.length := List.length_pos_of_ne_nil hx
    have hq : (xs.length + b - 1) / b = 1 := by
      have hb : 0 < b := by omega
      apply Nat.div_eq_of_lt_le <;> omega
    unfold blockMean chunks
    rw [hq]
    simp only [chunksN, List.map_cons, List.map_nil, List.take_of_length_le h]
    rw [meanL_eq [meanL xs]]
    simp

end blockmean

/-- Regression S6-C09: with 17 samples and blocks of 16 the mean of the block means is NOT the mean
    (sixteen samples predicting 1 and one predicting 18: mean 2, block-wise 19/2) -- whereas the
    model's `predictAvg`, the function the driver executes, is the exact mean for EVERY holder size
    (`C09_avg_is_mean`). -/
theorem C09_block_mean_counterexample :
    blockMean 16 (List.replicate 16 (1 : Rat) ++ [18]) = 19 / 2
    ∧ meanL (List.replicate 16 (1 : Rat) ++ [18]) = 2
    ∧ blockMean 16 (List.replicate 16 (1 : Rat) ++ [18]) ≠ meanL (List.replicate 16 (1 : Rat) ++ [18]) := by
  refine ⟨by decide +kernel, by decide +kernel, by decide +kernel⟩

/-- the hypotheses of the two general theorems are satisfiable with content: 32 = 2 · 16 samples, and 5 ≤ 16 -/
example : blockMean 16 ((List.range 32).map (fun i => (i : Rat))) = meanL ((List.range 32).map (fun i => (i : Rat)))
    ∧ blockMean 16 ([3, 1, 4, 1, 5] : List Rat) = 14 / 5 := by
  refine ⟨by decide +kernel, by decide +kernel⟩

end Batchie.Props.C09
