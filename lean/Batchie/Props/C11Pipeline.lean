/-
  C11 / C13 end to end: `batchie.cli.prepare_retrospective_simulation.main()` as the composition `Prep.prepare`
  (`Model/PrepPipeline.lean`; validated against the real CLI by the `pipeline` stream of `harness/c11.py` / `harness/c13.py`).

  `prepare kf cfg s = .ok p` quantifies over every input screen `s`, every option combination (`cfg.initial`, `cfg.generator`,
  `cfg.smoother` present or absent, all parameter values), every hold-out count function `kf` (in particular
  `n ↦ ceil(fl(n × fraction))`) and every choice log of the one generator object for which the run returns;
  `p` holds every intermediate screen (`filtered`, `initialized`, `generated`, `revealed`, `smoothed`) and the two saved ones
  (`training`, `test`).
-/
import Batchie.Lemmas.PrepPipeline
import Batchie.Lemmas.PrepPipelineEx
import Batchie.Props.C11
import Batchie.Props.C13

namespace Batchie.Props.C11Pipeline
open Batchie.Proto Batchie.Screen Batchie.Prep

/-- **Conservation, end to end.** The filtered screen is the combination filter's sub-list of the input; the experiments
    (sample, treatments, doses, observation value) of training ⊎ test are a sub-multiset of the filtered input for every
    option combination -- hence of the input -- and exactly the filtered input when no smoother is given. -/
theorem Prepare_conserves (kf : Nat → Nat) (cfg : PrepConfig) (s : Screen) (p : Prepared) (h : prepare kf cfg s = .ok p) :
    comboFilter s = .ok p.filtered ∧ (rowsOf p.filtered).Sublist (rowsOf s) ∧
    ((rowsOf p.training ++ rowsOf p.test).map Row.exp).Subperm ((rowsOf p.filtered).map Row.exp) ∧
    ((rowsOf p.training ++ rowsOf p.test).map Row.exp).Subperm ((rowsOf s).map Row.exp) ∧
    (cfg.smoother = none → ((rowsOf p.training ++ rowsOf p.test).map Row.exp).Perm ((rowsOf p.filtered).map Row.exp)) := by
  obtain ⟨hf, hi, hg, hr, hsm, hho⟩ := prepare_ok h
  have mf := comboFilter_made hf
  obtain ⟨mi, ei, _⟩ := initialStage_facts mf hi
  obtain ⟨mg, eg, _⟩ := generatorStage_facts mi hg
  obtain ⟨mr, er, _, _⟩ := firstPlateStage_facts mg hr
  obtain ⟨esm, esn, _⟩ := smoothStage_facts hsm
  have e1 := holdout_exp hho
  have e2 : ((rowsOf p.smoothed).map Row.exp).Subperm ((rowsOf p.revealed).map Row.exp) := by
    rw [← unlabelled_exp, ← unlabelled_exp]
    obtain ⟨l, hp, hs⟩ := esm
    exact ⟨l.map Prod.fst, hp.map _, hs.map _⟩
  have e3 : ((rowsOf p.generated).map Row.exp).Perm ((rowsOf p.initialized).map Row.exp) := by
    rw [← unlabelled_exp, ← unlabelled_exp]; exact eg.map _
  have sub := comboFilter_sublist hf
  have tot : ((rowsOf p.training ++ rowsOf p.test).map Row.exp).Subperm ((rowsOf p.filtered).map Row.exp) := by
    refine e1.subperm.trans (e2.trans ?_)
    rw [er, ← ei]
    exact e3.subperm
  refine ⟨hf, sub, tot, tot.trans (sub.map _).subperm, fun hn => ?_⟩
  have : p.smoothed = p.revealed := esn hn
  rw [this, er] at e1
  rw [← ei]
  exact e1.trans e3

/-- **Test fully observed, training mask untouched.** Every experiment of the saved test screen is observed; the saved
    training screen is a sub-list of the smoothed screen's records (plate label, observation value and mask as they were). -/
theorem Prepare_test_fully_observed_train_mask (kf : Nat → Nat) (cfg : PrepConfig) (s : Screen) (p : Prepared)
    (h : prepare kf cfg s = .ok p) :
    (∀ x ∈ rowsOf p.test, x.mask = true) ∧ (rowsOf p.training).Sublist (rowsOf p.smoothed) :=
  Batchie.Props.C11.C11_holdout_masks kf cfg.holdoutLog p.smoothed p.training p.test (prepare_ok h).2.2.2.2.2

/-- **Shared mappings.** The saved training and test screens carry exactly the treatment mapping and the sample mapping of the
    smoothed screen (the starting point of C03: ids mean the same thing in both files). -/
theorem Prepare_shared_mappings (kf : Nat → Nat) (cfg : PrepConfig) (s : Screen) (p : Prepared) (h : prepare kf cfg s = .ok p) :
    p.training.tmap = p.smoothed.tmap ∧ p.training.smap = p.smoothed.smap ∧
    p.test.tmap = p.smoothed.tmap ∧ p.test.smap = p.smoothed.smap :=
  holdout_shared_maps (prepare_ok h).2.2.2.2.2

/-- **Single-sample unobserved plates, end to end.** When the sample-segregating or the pairwise generator is used -- with or
    without an initial generator, with no smoother or ANY shipped smoother (the ensemble included) -- unobserved experiments of the
    saved training screen that share a plate label belong to one sample. -/
theorem Prepare_unobserved_plates_single_sample (kf : Nat → Nat) (cfg : PrepConfig) (s : Screen) (p : Prepared)
    (h : prepare kf cfg s = .ok p) (g : Generator) (hgen : cfg.generator = some g)
    (hg : (∃ mx perms, g = .segregating mx perms) ∨ (∃ a b c d e, g = .pairwise a b c d e)) :
    SingleSample (rowsOf p.training) := by
  obtain ⟨hf, hi, hgs, hr, hsmo, hho⟩ := prepare_ok h
  have mf := comboFilter_made hf
  obtain ⟨mi, _, iall⟩ := initialStage_facts mf hi
  obtain ⟨mg, _, _⟩ := generatorStage_facts mi hgs
  rw [hgen] at hgs
  have hgw : g.wrapped p.initialized = .ok p.generated := hgs
  obtain ⟨ssg, ssall⟩ := generator_singleSample hg hgw
  obtain ⟨_, _, rsame, rmem⟩ := firstPlateStage_facts mg hr
  have ssr : SingleSample (rowsOf p.revealed) := by
    cases hini : cfg.initial with
    | some x =>
      have : p.revealed = p.generated := rsame (by rw [hini]; simp)
      rw [this]; exact ssg
    | none =>
      have all := ssall (iall hini)
      apply SingleSampleAll.single
      intro r1 h1 r2 h2 e
      obtain ⟨y1, hy1, s1, p1⟩ := rmem r1 h1
      obtain ⟨y2, hy2, s2, p2⟩ := rmem r2 h2
      rw [s1, s2]
      exact all y1 hy1 y2 hy2 (by rw [← p1, ← p2]; exact e)
  obtain ⟨_, smnone, smsome⟩ := smoothStage_facts hsmo
  have sssm : SingleSample (rowsOf p.smoothed) := by
    cases hs : cfg.smoother with
    | none => rw [smnone hs]; exact ssr
    | some x =>
      exact smoother_singleSample x (smsome x hs) ssr
  exact sssm.sublist (Prepare_test_fully_observed_train_mask kf cfg s p h).2

/-- the plate-balanced hold-out leaves every observed experiment in the training half (as an observed experiment) -/
theorem holdout_keeps_observed {kf : Nat → Nat} {log : List (List Nat)} {s keep hold : Screen} (hs : Made s)
    (h : holdoutBalanced kf log s = .ok (keep, hold)) (x : Row) (hx : x ∈ rowsOf s) (hm : x.mask = true) :
    ∃ x' ∈ rowsOf keep, x'.mask = true ∧ x'.exp = x.exp := by
  obtain ⟨c, a, rows, tm, sm, hmk⟩ := hs
  have R := (raw_ok hmk).1
  have pu := (Batchie.Lifecycle.plateUniform_iff _ _).mp R.uniform
  rw [← R.rows_eq] at pu
  have same : ∀ y ∈ rowsOf s, y.plate = x.plate → y.mask = true := by
    intro y hy e
    have zy : (y.plate, y.mask) ∈ ((rowsOf s).map (·.plate)).zip ((rowsOf s).map (·.mask)) := by
      rw [List.zip_map']; exact List.mem_map_of_mem (f := fun r : Row => (r.plate, r.mask)) hy
    have zx : (x.plate, x.mask) ∈ ((rowsOf s).map (·.plate)).zip ((rowsOf s).map (·.mask)) := by
      rw [List.zip_map']; exact List.mem_map_of_mem (f := fun r : Row => (r.plate, r.mask)) hx
    have := pu _ zy _ zx e
    simp only at this
    rw [this, hm]
  have cnt := Batchie.Props.C11.C11_holdout_counts _ kf log s keep hold hmk h x.plate
  have hall : ((rowsOf s).filter (fun r => r.plate == x.plate)).all (·.mask) = true := by
    rw [List.all_eq_true]
    intro y hy
    obtain ⟨hy1, hy2⟩ := List.mem_filter.mp hy
    exact same y hy1 (by simpa using hy2)
  rw [hall] at cnt
  simp only [↓reduceIte, List.length_eq_zero_iff] at cnt
  have part := Batchie.Props.C11.C11_holdout_partition kf log s keep hold h
  have mem : Batchie.Props.C11.labelled x ∈ (rowsOf keep).map Batchie.Props.C11.labelled ++ (rowsOf hold).map Batchie.Props.C11.labelled :=
    part.mem_iff.mpr (List.mem_map_of_mem hx)
  rcases List.mem_append.mp mem with hk | hh
  · obtain ⟨x', hx', e⟩ := List.mem_map.mp hk
    have e1 : x'.exp = x.exp := congrArg Prod.fst e
    have e2 : x'.plate = x.plate := congrArg Prod.snd e
    have sub := (Batchie.Props.C11.C11_holdout_masks kf log s keep hold h).2
    exact ⟨x', hx', same x' (sub.subset hx') e2, e1⟩
  · obtain ⟨z, hz, e⟩ := List.mem_map.mp hh
    have e2 : z.plate = x.plate := congrArg Prod.snd e
    have : z ∈ (rowsOf hold).filter (fun r => r.plate == x.plate) := List.mem_filter.mpr ⟨hz, by simp [e2]⟩
    rw [cnt] at this
    cases this

/-- **The initial plate covers, end to end.** With an initial plate generator and no smoother (any plate generator or none,
    any hold-out fraction): for every sample id and every treatment id (the control sentinel included) of the filtered
    screen there is an experiment of the filtered screen with that sample / holding that treatment which is an *observed*
    experiment of the saved training screen. -/
theorem Prepare_initial_plate_covers (kf : Nat → Nat) (cfg : PrepConfig) (s : Screen) (p : Prepared)
    (h : prepare kf cfg s = .ok p) (hini : cfg.initial ≠ none) (hsm : cfg.smoother = none) :
    (∀ (j : Nat) (hj : j < p.filtered.sids.length), ∃ (k : Nat) (hk : k < p.filtered.sids.length) (hk' : k < (rowsOf p.filtered).length),
        p.filtered.sids[k] = p.filtered.sids[j] ∧ ∃ x ∈ rowsOf p.training, x.mask = true ∧ x.exp = (rowsOf p.filtered)[k].exp) ∧
    (∀ t ∈ p.filtered.tids, ∀ y ∈ t, ∃ (k : Nat) (hk : k < p.filtered.tids.length) (hk' : k < (rowsOf p.filtered).length),
        y ∈ p.filtered.tids[k] ∧ ∃ x ∈ rowsOf p.training, x.mask = true ∧ x.exp = (rowsOf p.filtered)[k].exp) := by
  obtain ⟨hf, hi, hg, hr, hsmo, hho⟩ := prepare_ok h
  have mf := comboFilter_made hf
  obtain ⟨mi, ei, _⟩ := initialStage_facts mf hi
  obtain ⟨mg, _, og⟩ := generatorStage_facts mi hg
  obtain ⟨_, _, rsame, _⟩ := firstPlateStage_facts mg hr
  obtain ⟨_, smnone, _⟩ := smoothStage_facts hsmo
  have e1 : p.revealed = p.generated := rsame hini
  have e2 : p.smoothed = p.revealed := smnone hsm
  rw [e2, e1] at hho
  cases hc : cfg.initial with
  | none => exact absurd hc hini
  | some rl =>
    obtain ⟨rev, log⟩ := rl
    rw [hc] at hi
    have hcov : sparseCover rev log p.filtered = .ok p.initialized := hi
    have F := mf.rawOk
    have hlen := sparseCover_length hcov F.tids_len
    -- an observed row of the initial screen is an observed experiment of the training screen
    have carry : ∀ (k : Nat) (h1 : k < (rowsOf p.initialized).length), (rowsOf p.initialized)[k].mask = true →
        ∃ x ∈ rowsOf p.training, x.mask = true ∧ x.exp = ((rowsOf p.filtered)[k]'(by rw [← hlen]; exact h1)).exp := by
      intro k h1 hmk
      have hmem : (rowsOf p.initialized)[k] ∈ observedRows p.generated := by
        rw [og]; unfold observedRows
        exact List.mem_filter.mpr ⟨List.getElem_mem h1, hmk⟩
      have hmem' : (rowsOf p.initialized)[k] ∈ rowsOf p.generated := by
        unfold observedRows at hmem; exact (List.mem_filter.mp hmem).1
      obtain ⟨x', hx', m', ex⟩ := holdout_keeps_observed mg hho _ hmem' hmk
      refine ⟨x', hx', m', ?_⟩
      rw [ex]
      have := List.getElem_of_eq ei (i := k) (by simpa using h1)
      simpa using this
    constructor
    · intro j hj
      obtain ⟨k, h1, h2, hmk, _, hs⟩ := sparseCover_samples hcov F.tids_len F.sids_len j hj
      exact ⟨k, h2, by rw [← hlen]; exact h1, hs, carry k h1 hmk⟩
    · intro t ht y hy
      obtain ⟨k, h1, h2, hmk, _, hs⟩ := sparseCover_treatments hcov F.tids_len t ht y hy
      exact ⟨k, h2, by rw [← hlen]; exact h1, hs, carry k h1 hmk⟩

/-! ### the hypothesis is satisfiable (evaluated by `decide` in `Lemmas/PrepPipelineEx.lean`): sparse-cover initial plate without
    generator / smoother on the fully observed 7-row screen; segregating generator (limit 2) + random first plate on `exRaw` -/

example : ∃ s p, mk? (rawOfRows [] 2 exFull none none) = .ok s ∧ prepare (fun _ => 0) exCfgCover s = .ok p := ex_pipeline_cover
example : ∃ s p, mk? exRaw = .ok s ∧ prepare (fun _ => 0) exCfgSeg s = .ok p := ex_pipeline_segregating
example : exCfgCover.initial ≠ none ∧ exCfgCover.smoother = none := ⟨by decide, rfl⟩
example : exCfgSeg.generator = some (.segregating 2 [[0,3,2],[5,1,4,6]]) := rfl

end Batchie.Props.C11Pipeline
