/-
  C01 — regression lemmas for seeded changes of later rounds (code that is NOT in /repo), and the general positive statement they violate.

  CLAUSE MAP addendum
  * clause 2 ("-1 exactly when the name is the control name or the dose is not positive"), stated for the table builder under an arbitrary
    control test: `freshTableWith_control_iff` (general), `freshTableWith_isControl` (the faithful test gives the model's `freshTable`, hence
    `C01_control_iff` / `C01_control_iff_table` are about the definition the driver executes).
  * Regression (not a clause) S7-C01, control name matched after a non-injective normalisation (`casefold`):
    `S7_C01_normalised_control_test_breaks_iff` (general: any `norm` that identifies the control name with another name),
    `S7_C01_casefold_counterexample` (witness: names "VEH" / "veh", control "veh", dose 1).
  * S5-C01 / S6-C01 (reshape of the flat id array that is only wrong for Fortran-ordered / strided inputs) are effects of numpy memory layout;
    a functional model has no layout — harness-only (`layout.*` variants of every generated screen).
-/
import Batchie.Props.C01
import Batchie.Model.ScreenRegress

namespace Batchie.Props.C01Regress
open Batchie.Screen Batchie.Proto Batchie.Regress Batchie.Props.C01

theorem freshTableWith_eq (p : Name × Dose → Bool) (u : List (Name × Dose)) :
    freshTableWith p u = tableOf u (numberFrom 0 (u.map p)) := by
  unfold freshTableWith tableOf; rw [renumber_eq_numberFrom]

/-- with the faithful control test the generic builder is the model's table (`freshTMap ctrl xs = freshTable ctrl (sortedKeys xs)`) -/
theorem freshTableWith_isControl (ctrl : Name) (u : List (Name × Dose)) : freshTableWith (isControl ctrl) u = freshTable ctrl u := by
  rw [freshTableWith_eq]; rfl

theorem freshTableWith_keys (p : Name × Dose → Bool) (u : List (Name × Dose)) : (freshTableWith p u).map tKey = u := by
  rw [freshTableWith_eq]; exact tableOf_keys _ _ (by simp)

/-- **General.** Whatever control test the table builder uses, an entry carries the sentinel exactly when the test holds for its key. -/
theorem freshTableWith_control_iff (p : Name × Dose → Bool) (u : List (Name × Dose)) (e : Name × Dose × Int) (he : e ∈ freshTableWith p u) :
    e.2.2 = -1 ↔ p (e.1, e.2.1) = true := by
  rw [freshTableWith_eq] at he
  obtain ⟨k, hk, rfl⟩ := List.getElem_of_mem he
  have hk' : k < u.length := by rw [tableOf_length _ _ (by simp)] at hk; exact hk
  rw [tableOf_getElem u _ k hk' (by simpa using hk')]
  simp only
  rw [numberFrom_eq_neg_one_iff 0 (by omega) (u.map p) k (by simpa using hk')]
  simp

/-- **Regression S7-C01 (general).** If the control name is matched after a normalisation that identifies it with ANOTHER name `n`, every table
    containing `(n, d)` with a positive dose gives that non-control treatment the control sentinel: clause 2 fails. -/
theorem S7_C01_normalised_control_test_breaks_iff (norm : Name → Name) (ctrl n : Name) (d : Dose) (hne : n ≠ ctrl)
    (hnorm : norm n = norm ctrl) (hd : 0 < d) (u : List (Name × Dose)) (hmem : (n, d) ∈ u) :
    ∃ e ∈ freshTableWith (isControlNorm norm ctrl) u, e.2.2 = -1 ∧ ¬ (e.1 = ctrl ∨ e.2.1 ≤ 0) := by
  have hk : (n, d) ∈ (freshTableWith (isControlNorm norm ctrl) u).map tKey := by rw [freshTableWith_keys]; exact hmem
  obtain ⟨e, he, hkey⟩ := List.mem_map.mp hk
  have h1 : e.1 = n := congrArg Prod.fst hkey
  have h2 : e.2.1 = d := congrArg Prod.snd hkey
  refine ⟨e, he, ?_, ?_⟩
  · rw [freshTableWith_control_iff _ _ e he]
    simp [isControlNorm, h1, hnorm]
  · rw [h1, h2]
    rintro (h | h)
    · exact hne h
    · exact absurd hd (Rat.not_lt.mpr h)

/-- whereas under the faithful test no such entry exists (this is `C01_control_iff_table`, restated for the generic builder) -/
theorem S7_C01_faithful_test_holds (ctrl : Name) (u : List (Name × Dose)) (e : Name × Dose × Int) (he : e ∈ freshTableWith (isControl ctrl) u) :
    e.2.2 = -1 ↔ (e.1 = ctrl ∨ e.2.1 ≤ 0) := by
  rw [freshTableWith_control_iff _ _ e he]
  simp only [isControl, Bool.or_eq_true, decide_eq_true_eq, beq_iff_eq]
  exact Or.comm

/-- "VEH" and "veh" as code points -/
def VEH : Name := [86, 69, 72]
def veh : Name := [118, 101, 104]

/-- **Regression S7-C01 (witness).** Names `VEH` and `veh` at dose 1, control name `veh`: after ASCII case folding both rows get the sentinel,
    although `VEH` is not the control name and its dose is positive; under the faithful test `VEH` gets id 0. -/
theorem S7_C01_casefold_counterexample :
    lowerAscii VEH = lowerAscii veh ∧ VEH ≠ veh ∧
    (freshTableWith (isControlNorm lowerAscii veh) [(VEH, 1), (veh, 1)]).map (·.2.2) = [-1, -1] ∧
    (freshTableWith (isControl veh) [(VEH, 1), (veh, 1)]).map (·.2.2) = [0, -1] := by
  decide

end Batchie.Props.C01Regress
