/-
  C01, API layer — the `ExperimentSpace` query API, the derived `ScreenBase` properties and `Screen.combine` / `Screen.concat`,
  about the executable model `Batchie.ScreenApi` (Model/ScreenApi.lean) which `harness/c01.py` (`spaceapi`, `derived`, `ste`,
  `combine`, `concat`) and `harness/c14.py` (`vderived`) run against the real code.
-/
import Batchie.Lemmas.ScreenApi
import Batchie.Props.C01

namespace Batchie.Props.C01Api
open Batchie.Screen Batchie.Proto Batchie.ScreenApi Batchie.Props.C01

/-! ### sample lookups -/

/-- **`sample_id_from_sample_name` and `sample_name_from_sample_id` are inverse to each other** on every sample mapping whose
    names and ids are pairwise different (every batchie-produced mapping, `C01_sample_lookup_fresh`): each succeeds exactly on the
    rows of the mapping. -/
theorem C01_sample_lookup_iff (sp : Space) (hn : (sp.smap.map (·.1)).Nodup) (hi : (sp.smap.map (·.2)).Nodup) (n : Name) (i : Int) :
    (sp.sampleIdFromName n = .ok i ↔ (n, i) ∈ sp.smap) ∧ (sp.sampleNameFromId i = .ok n ↔ (n, i) ∈ sp.smap) := by
  constructor
  · unfold Space.sampleIdFromName
    rw [item?_ok_iff]
    constructor
    · intro h; exact mem_of_mem_sLookup _ _ _ (by rw [h]; simp)
    · intro h; exact sLookup_of_mem sp.smap hn n i h
  · unfold Space.sampleNameFromId
    rw [item?_ok_iff]
    constructor
    · intro h
      have : n ∈ (sp.smap.filter (fun e => e.2 == i)).map (·.1) := by rw [h]; simp
      obtain ⟨e, he, rfl⟩ := List.mem_map.mp this
      obtain ⟨hmem, hid⟩ := List.mem_filter.mp he
      have : e = (e.1, i) := by rw [← eq_of_beq hid]
      rw [← this]; exact hmem
    · intro h
      have := filter_eq_singleton_of_nodup_map (fun e : Name × Int => e.2) sp.smap hi (n, i) h
      simp only at this
      rw [this]; rfl

/-- round trips, spelled out -/
theorem C01_sample_lookup_inverse (sp : Space) (hn : (sp.smap.map (·.1)).Nodup) (hi : (sp.smap.map (·.2)).Nodup) :
    (∀ n i, sp.sampleIdFromName n = .ok i → sp.sampleNameFromId i = .ok n) ∧
    (∀ n i, sp.sampleNameFromId i = .ok n → sp.sampleIdFromName n = .ok i) :=
  ⟨fun n i h => ((C01_sample_lookup_iff sp hn hi n i).2).mpr (((C01_sample_lookup_iff sp hn hi n i).1).mp h),
   fun n i h => ((C01_sample_lookup_iff sp hn hi n i).1).mpr (((C01_sample_lookup_iff sp hn hi n i).2).mp h)⟩

/-- failure modes of `.item()`: no matching row, or (in a hand-made mapping) two rows with the same name / id -/
theorem C01_sample_lookup_fails (sp : Space) :
    (∀ n, n ∉ sp.smap.map (·.1) → sp.sampleIdFromName n = .error .valueError) ∧
    (∀ i, i ∉ sp.smap.map (·.2) → sp.sampleNameFromId i = .error .valueError) ∧
    (∀ n i j pre mid post, sp.smap = pre ++ (n, i) :: mid ++ (n, j) :: post → sp.sampleIdFromName n = .error .valueError) ∧
    (∀ n m i pre mid post, sp.smap = pre ++ (n, i) :: mid ++ (m, i) :: post → sp.sampleNameFromId i = .error .valueError) := by
  refine ⟨?_, ?_, ?_, ?_⟩
  · intro n h
    unfold Space.sampleIdFromName
    rw [(sLookup_eq_nil_iff sp.smap n).mpr h]; rfl
  · intro i h
    unfold Space.sampleNameFromId
    have : sp.smap.filter (fun e => e.2 == i) = [] := by
      rw [List.filter_eq_nil_iff]; intro e he hb
      exact h (List.mem_map.mpr ⟨e, he, eq_of_beq hb⟩)
    rw [this]; rfl
  · intro n i j pre mid post h
    unfold Space.sampleIdFromName
    apply item?_error_of_length
    rw [h]
    simp [sLookup, List.filter_append]
    omega
  · intro n m i pre mid post h
    unfold Space.sampleNameFromId
    apply item?_error_of_length
    rw [h]
    simp [List.filter_append]
    omega

/-- every batchie-produced sample mapping has pairwise different names and ids: the lookups are total on the data's names,
    inverse to each other, and the ids are `0 … n_unique_samples - 1` -/
theorem C01_sample_lookup_fresh (xs : List Name) (tm : TMap) (ctrl : Name) :
    let sp : Space := { tmap := tm, smap := freshSMap xs, ctrl := ctrl }
    ((freshSMap xs).map (·.1)).Nodup ∧ ((freshSMap xs).map (·.2)).Nodup ∧
    ∀ x ∈ xs, ∃ i, sp.sampleIdFromName x = .ok i ∧ sp.sampleNameFromId i = .ok x ∧
      0 ≤ i ∧ i < (nUniqueSamples (freshSMap xs) : Int) := by
  intro sp
  have hn : ((freshSMap xs).map (·.1)).Nodup := by rw [freshSMap_names]; exact sortedNames_nodup xs
  have hi : ((freshSMap xs).map (·.2)).Nodup := by
    rw [freshSMap_ids, List.Nodup, List.pairwise_map]
    exact List.nodup_range.imp (fun h h' => h (Int.ofNat_inj.mp h'))
  refine ⟨hn, hi, ?_⟩
  intro x hx
  have hmem : x ∈ (freshSMap xs).map (·.1) := by rw [freshSMap_names]; exact (mem_sortedNames xs x).mpr hx
  obtain ⟨e, he, rfl⟩ := List.mem_map.mp hmem
  have h := C01_sample_lookup_iff sp hn hi e.1 e.2
  exact ⟨e.2, h.1.mpr he, h.2.mpr he, freshSMap_id_lt xs e he⟩

/-! ### treatment lookups -/

/-- **`treatment_ids_from_treatment_name n`** = exactly the ids of the mapping rows named `n`, strictly ascending (so each once);
    for any mapping -/
theorem C01_treatment_ids_of_name (sp : Space) (n : Name) :
    (sp.treatmentIdsFromName n).Pairwise (· < ·) ∧
    ∀ x, x ∈ sp.treatmentIdsFromName n ↔ ∃ e ∈ sp.tmap, e.1 = n ∧ e.2.2 = x := by
  refine ⟨sortedUniqueInts_strict _, fun x => ?_⟩
  unfold Space.treatmentIdsFromName Space.rowsOfName
  rw [mem_sortedUniqueInts]
  simp only [List.mem_map, List.mem_filter, beq_iff_eq]
  constructor
  · rintro ⟨e, ⟨he, hn⟩, rfl⟩; exact ⟨e, he, hn, rfl⟩
  · rintro ⟨e, he, hn, rfl⟩; exact ⟨e, ⟨he, hn⟩, rfl⟩

/-- **`doses_for_treatment n`** = exactly the non-zero doses of the mapping rows named `n`, ascending, each once (negative doses
    are listed; `0.0` and `-0.0` are not) -/
theorem C01_doses_of_name (sp : Space) (n : Name) :
    (sp.dosesForTreatment n).Pairwise (fun a b => a ≤ b ∧ a ≠ b) ∧
    ∀ d, d ∈ sp.dosesForTreatment n ↔ (d ≠ 0 ∧ ∃ e ∈ sp.tmap, e.1 = n ∧ e.2.1 = d) := by
  refine ⟨sortedUniqueDoses_sorted _, fun d => ?_⟩
  unfold Space.dosesForTreatment Space.rowsOfName
  rw [mem_sortedUniqueDoses]
  simp only [List.mem_filter, List.mem_map, beq_iff_eq, bne_iff_ne, ne_eq]
  constructor
  · rintro ⟨⟨e, ⟨he, hn⟩, rfl⟩, hd⟩; exact ⟨hd, e, he, hn, rfl⟩
  · rintro ⟨hd, e, he, hn, rfl⟩; exact ⟨⟨e, ⟨he, hn⟩, rfl⟩, hd⟩

/-! ### counts -/

/-- in a batchie-produced treatment mapping `n_unique_treatments` is the number of non-control rows … -/
theorem C01_count_noncontrol_rows (ctrl : Name) (data : List (Name × Dose)) :
    nUniqueTreatments (freshTMap ctrl data) = ((freshTMap ctrl data).filter (fun e => e.2.2 != -1)).length := by
  rw [C01_treat_count, ← List.length_map (f := fun e : Name × Dose × Int => e.2.2)]
  have h := C01_treat_dense ctrl data
  rw [List.filter_map] at h
  have : ((freshTMap ctrl data).filter ((fun x => x != -1) ∘ fun e : Name × Dose × Int => e.2.2)) =
      (freshTMap ctrl data).filter (fun e => e.2.2 != -1) := rfl
  rw [this] at h
  rw [h]; simp

/-- the non-control ids of a batchie-produced mapping are pairwise different row by row -/
theorem freshTMap_noncontrol_ids_nodup (ctrl : Name) (data : List (Name × Dose)) :
    (((freshTMap ctrl data).filter (fun e => e.2.2 != -1)).map (·.2.2)).Nodup := by
  have h := C01_treat_dense ctrl data
  rw [List.filter_map] at h
  have : ((freshTMap ctrl data).filter ((fun x => x != -1) ∘ fun e : Name × Dose × Int => e.2.2)) =
      (freshTMap ctrl data).filter (fun e => e.2.2 != -1) := rfl
  rw [this] at h
  rw [h, List.Nodup, List.pairwise_map]
  exact List.nodup_range.imp (fun h h' => h (Int.ofNat_inj.mp h'))

/-- … the non-control ids `treatment_ids_from_treatment_name n` returns are as many as the non-control rows named `n` … -/
theorem C01_count_ids_of_name (ctrl : Name) (data : List (Name × Dose)) (sm : SMap) (c : Name) (n : Name) :
    let sp : Space := { tmap := freshTMap ctrl data, smap := sm, ctrl := c }
    ((sp.treatmentIdsFromName n).filter (· != -1)).length =
      ((freshTMap ctrl data).filter (fun e => e.1 == n && e.2.2 != -1)).length := by
  intro sp
  rw [← List.length_map (f := fun e : Name × Dose × Int => e.2.2) (as := (freshTMap ctrl data).filter (fun e => e.1 == n && e.2.2 != -1))]
  apply length_of_nodup_mem_iff
  · exact (sortedUniqueInts_nodup _).filter _
  · have hsub : List.Sublist (((freshTMap ctrl data).filter (fun e => e.1 == n && e.2.2 != -1)).map (·.2.2))
        (((freshTMap ctrl data).filter (fun e => e.2.2 != -1)).map (·.2.2)) := by
      apply List.Sublist.map
      have : (freshTMap ctrl data).filter (fun e => e.1 == n && e.2.2 != -1) =
          ((freshTMap ctrl data).filter (fun e => e.2.2 != -1)).filter (fun e => e.1 == n) := by
        rw [List.filter_filter]
      rw [this]; exact List.filter_sublist
    exact (freshTMap_noncontrol_ids_nodup ctrl data).sublist hsub
  · intro x
    rw [List.mem_filter, (C01_treatment_ids_of_name sp n).2 x]
    simp only [List.mem_map, List.mem_filter, Bool.and_eq_true, beq_iff_eq, bne_iff_ne, ne_eq]
    constructor
    · rintro ⟨⟨e, he, hn, rfl⟩, hx⟩; exact ⟨e, ⟨he, hn, hx⟩, rfl⟩
    · rintro ⟨e, ⟨he, hn, hx⟩, rfl⟩; exact ⟨⟨e, he, hn, rfl⟩, hx⟩

/-- **Counts are consistent**: in a batchie-produced mapping `n_unique_treatments` is the sum, over the distinct treatment
    names, of the number of non-control ids `treatment_ids_from_treatment_name` returns for that name. -/
theorem C01_count_by_name (ctrl : Name) (data : List (Name × Dose)) (sm : SMap) (c : Name) :
    let sp : Space := { tmap := freshTMap ctrl data, smap := sm, ctrl := c }
    nUniqueTreatments sp.tmap =
      ((((freshTMap ctrl data).map (·.1)).eraseDups).map (fun n => ((sp.treatmentIdsFromName n).filter (· != -1)).length)).sum := by
  intro sp
  rw [List.map_congr_left (fun n _ => C01_count_ids_of_name ctrl data sm c n)]
  show nUniqueTreatments (freshTMap ctrl data) = _
  rw [C01_count_noncontrol_rows]
  exact length_filter_by_key (fun e : Name × Dose × Int => e.1) (fun e => e.2.2 != -1) _ (nodup_eraseDups _) _
    (fun e he => List.mem_eraseDups.mpr (List.mem_map.mpr ⟨e, he, rfl⟩))

/-- `n_unique_treatment_types` / `n_unique_doses` count the distinct names other than the control name / the distinct non-zero doses -/
theorem C01_count_types_doses (sp : Space) :
    (∃ l : List Name, l.Nodup ∧ l.length = sp.nUniqueTreatmentTypes ∧ ∀ n, n ∈ l ↔ (n ≠ sp.ctrl ∧ ∃ e ∈ sp.tmap, e.1 = n)) ∧
    (∃ l : List Dose, l.Nodup ∧ l.length = sp.nUniqueDoses ∧ ∀ d, d ∈ l ↔ (d ≠ 0 ∧ ∃ e ∈ sp.tmap, e.2.1 = d)) := by
  constructor
  · refine ⟨_, (nodup_eraseDups _).filter _, rfl, fun n => ?_⟩
    simp only [List.mem_filter, List.mem_eraseDups, List.mem_map, bne_iff_ne, ne_eq]
    constructor
    · rintro ⟨⟨e, he, rfl⟩, hn⟩; exact ⟨hn, e, he, rfl⟩
    · rintro ⟨hn, e, he, rfl⟩; exact ⟨⟨e, he, rfl⟩, hn⟩
  · refine ⟨_, (nodup_eraseDups _).filter _, rfl, fun d => ?_⟩
    simp only [List.mem_filter, List.mem_eraseDups, List.mem_map, bne_iff_ne, ne_eq]
    constructor
    · rintro ⟨⟨e, he, rfl⟩, hn⟩; exact ⟨hn, e, he, rfl⟩
    · rintro ⟨hn, e, he, rfl⟩; exact ⟨⟨e, he, rfl⟩, hn⟩

/-! ### `Screen.combine` / `Screen.concat` -/

/-- cell `(i, c)` of a row-major table, if it exists -/
def cell? {α : Type} (rows : List (List α)) (i c : Nat) : Option α := (rows[i]?).bind (fun r => r[c]?)

theorem combine_ok_iff (a b t : Screen) :
    combine a b = .ok t ↔ (a.ctrl = b.ctrl ∧ a.arity = b.arity ∧ mk? (combineRaw a b) = .ok t) := by
  unfold combine
  by_cases h1 : a.ctrl = b.ctrl
  · by_cases h2 : a.arity = b.arity
    · simp [h1, h2]
    · simp [h1, h2]
  · simp [h1]

/-- **What `combine` guarantees** (the docstring only warns that ids are not preserved): the rows of the result are the
    rows of `a` followed by the rows of `b` — names, doses, sample names, plate names, observations (bit patterns) and mask,
    in order — under `a`'s control name and arity, and ids and mappings are the FRESH encoding of that union: the result is a
    `Screen(...)` built without mappings, so every C01 theorem (`C01_decode`, `C01_control_iff`, `C01_cells_dense_fresh`,
    `C01_row_ids_dense`, `C01_space_bounds_fresh`, …) holds for it. -/
theorem C01_combine_rows (a b t : Screen) (h : combine a b = .ok t) :
    t.tnames = a.tnames ++ b.tnames ∧ t.tdoses = a.tdoses ++ b.tdoses ∧ t.snames = a.snames ++ b.snames ∧
    t.pnames = a.pnames ++ b.pnames ∧ t.obs = a.obs ++ b.obs ∧ t.mask = a.mask ++ b.mask ∧
    t.ctrl = a.ctrl ∧ t.arity = a.arity ∧
    t.tmap = freshTMap a.ctrl (allKeys (combineRaw a b)) ∧ t.smap = freshSMap (a.snames ++ b.snames) ∧
    t.pmap = freshSMap (a.pnames ++ b.pnames) ∧
    (∃ r, mk? r = .ok t ∧ r.tmap = none ∧ r.smap = none) := by
  obtain ⟨_, _, hm⟩ := (combine_ok_iff a b t).mp h
  have m := (mk?_ok_iff _ t).mp hm
  have hv := C01_supplied_verbatim _ t hm
  exact ⟨m.tnames_eq, m.tdoses_eq, m.snames_eq, m.pnames_eq, m.obs_eq, m.mask_eq, m.ctrl_eq, m.arity_eq,
    hv.2.2.1 rfl, hv.2.2.2.1 rfl, hv.2.2.2.2, ⟨_, hm, rfl, rfl⟩⟩

/-- decode through `cell?`: in every built screen, a cell that exists in the name and dose tables exists in the id table and the
    triple is a row of the screen's mapping -/
theorem decode_cell? (r : Raw) (t : Screen) (h : mk? r = .ok t) (i c : Nat) (n : Name) (d : Dose)
    (hn : cell? t.tnames i c = some n) (hd : cell? t.tdoses i c = some d) :
    ∃ id, cell? t.tids i c = some id ∧ (n, d, id) ∈ t.tmap := by
  unfold cell? at hn hd
  obtain ⟨rn, hrn, hcn⟩ := Option.bind_eq_some_iff.mp hn
  obtain ⟨rd, hrd, hcd⟩ := Option.bind_eq_some_iff.mp hd
  obtain ⟨hi, rfl⟩ := List.getElem?_eq_some_iff.mp hrn
  obtain ⟨hc, rfl⟩ := List.getElem?_eq_some_iff.mp hcn
  obtain ⟨hi', rfl⟩ := List.getElem?_eq_some_iff.mp hrd
  obtain ⟨hc', rfl⟩ := List.getElem?_eq_some_iff.mp hcd
  have hsh := C01_shape r t h
  have hca : c < t.arity := by rw [← hsh.2.2.2.2.2.2.2.2.1 _ (List.getElem_mem hi)]; exact hc
  obtain ⟨_, _, _, h4, h5, hmem⟩ := C01_decode r t h i c hi hca
  refine ⟨t.tids[i][c], ?_, hmem⟩
  unfold cell?
  rw [List.getElem?_eq_getElem h4]
  simp only [Option.bind_some]
  exact List.getElem?_eq_getElem h5

/-- **The combined screen's ids decode to the same (name, dose) per cell as in the parts**: cell `(i, c)` of `a` is cell `(i, c)`
    of the result, cell `(i, c)` of `b` is cell `(|a| + i, c)`, and its (name, dose) with the NEW id is a row of the new mapping. -/
theorem C01_combine_decode (a b t : Screen) (h : combine a b = .ok t) (hla : a.tdoses.length = a.tnames.length)
    (i c : Nat) (n : Name) (d : Dose) :
    (cell? a.tnames i c = some n → cell? a.tdoses i c = some d →
      ∃ id, cell? t.tids i c = some id ∧ (n, d, id) ∈ t.tmap) ∧
    (cell? b.tnames i c = some n → cell? b.tdoses i c = some d →
      ∃ id, cell? t.tids (a.tnames.length + i) c = some id ∧ (n, d, id) ∈ t.tmap) := by
  obtain ⟨h1, h2, _, _, _, _, _, _, _, _, _, ⟨r, hr, _, _⟩⟩ := C01_combine_rows a b t h
  constructor
  · intro hn hd
    apply decode_cell? r t hr i c n d
    · have hi : i < a.tnames.length := by
        unfold cell? at hn
        obtain ⟨rn, hrn, _⟩ := Option.bind_eq_some_iff.mp hn
        exact (List.getElem?_eq_some_iff.mp hrn).1
      unfold cell? at hn ⊢
      rw [h1, List.getElem?_append_left hi]; exact hn
    · have hi : i < a.tdoses.length := by
        unfold cell? at hd
        obtain ⟨rd, hrd, _⟩ := Option.bind_eq_some_iff.mp hd
        exact (List.getElem?_eq_some_iff.mp hrd).1
      unfold cell? at hd ⊢
      rw [h2, List.getElem?_append_left hi]; exact hd
  · intro hn hd
    apply decode_cell? r t hr (a.tnames.length + i) c n d
    · unfold cell? at hn ⊢
      rw [h1, List.getElem?_append_right (by omega)]
      simpa using hn
    · unfold cell? at hd ⊢
      rw [h2, List.getElem?_append_right (by omega), hla]
      simpa using hd

/-- `combine` is refused across control names and arities; otherwise it succeeds exactly when `Screen(...)` accepts the
    concatenated rows, i.e. (for well-formed parts) when no plate name is observed in one part and unobserved in the other -/
theorem C01_combine_accepted (a b : Screen) :
    (a.ctrl ≠ b.ctrl → combine a b = .error .valueError) ∧
    (a.arity ≠ b.arity → combine a b = .error .valueError) ∧
    (a.ctrl = b.ctrl → a.arity = b.arity → WellShaped (combineRaw a b) → combine a b = .ok (mkFresh (combineRaw a b))) := by
  refine ⟨fun h => by simp [combine, h], fun h => ?_, fun h1 h2 w => ?_⟩
  · unfold combine; by_cases hc : a.ctrl = b.ctrl <;> simp [hc, h]
  · rw [combine_ok_iff]; exact ⟨h1, h2, mk?_fresh _ w rfl rfl⟩

/-- the shape conditions hold for the union of two built screens of one arity as soon as the plate-uniformity test passes -/
theorem wellShaped_combineRaw (ra rb : Raw) (a b : Screen) (ha : mk? ra = .ok a) (hb : mk? rb = .ok b) (har : a.arity = b.arity)
    (hu : plateUniform (a.pnames ++ b.pnames) (a.mask ++ b.mask) = true) : WellShaped (combineRaw a b) := by
  have sa := C01_shape ra a ha
  have sb := C01_shape rb b hb
  exact
    { len_tdoses := by simp [combineRaw, sa.1, sb.1]
      len_snames := by simp [combineRaw, sa.2.1, sb.2.1]
      len_pnames := by simp [combineRaw, sa.2.2.1, sb.2.2.1]
      arity_tnames := by
        intro row hrow
        simp only [combineRaw, List.mem_append] at hrow ⊢
        rcases hrow with h | h
        · exact sa.2.2.2.2.2.2.2.2.1 row h
        · rw [har]; exact sb.2.2.2.2.2.2.2.2.1 row h
      arity_tdoses := by
        intro row hrow
        simp only [combineRaw, List.mem_append] at hrow ⊢
        rcases hrow with h | h
        · exact sa.2.2.2.2.2.2.2.2.2.1 row h
        · rw [har]; exact sb.2.2.2.2.2.2.2.2.2.1 row h
      mask_needs_obs := rfl
      len_obs := by simp [obsLenBad, combineRaw, sa.2.2.2.2.2.2.1, sb.2.2.2.2.2.2.1]
      len_mask := by simp [maskOf, combineRaw, sa.2.2.2.2.2.2.2.1, sb.2.2.2.2.2.2.2.1]
      uniform := by simpa [maskOf, combineRaw] using hu }

/-- **`Screen.concat`**: refused for the empty list, the screen itself for one, otherwise `combine` folded from the left; any
    per-row attribute that `combine` concatenates is concatenated over the whole list, in list order -/
theorem C01_concat (f : Screen → List γ) (hf : ∀ a b t, combine a b = .ok t → f t = f a ++ f b) :
    concat [] = .error .valueError ∧ (∀ s, concat [s] = .ok s) ∧
    (∀ s rest t, concat (s :: rest) = .ok t → f t = f s ++ (rest.map f).flatten) := by
  refine ⟨rfl, fun _ => rfl, ?_⟩
  have key : ∀ (rest : List Screen) (acc t : Screen), combineAll acc rest = .ok t → f t = f acc ++ (rest.map f).flatten := by
    intro rest
    induction rest with
    | nil => intro acc t h; simp only [combineAll] at h; injection h with h; subst h; simp
    | cons x rest ih =>
      intro acc t h
      simp only [combineAll] at h
      obtain ⟨u, hu, ht⟩ := (except_bind_eq_ok _ _ _).mp h
      rw [ih u t ht, hf acc x u hu]; simp
  intro s rest t h
  cases rest with
  | nil => simp only [concat] at h; injection h with h; subst h; simp
  | cons x rest => exact key (x :: rest) s t h

/-- the six row attributes are such `f` -/
theorem C01_concat_rows (s : Screen) (rest : List Screen) (t : Screen) (h : concat (s :: rest) = .ok t) :
    t.tnames = s.tnames ++ (rest.map (·.tnames)).flatten ∧ t.tdoses = s.tdoses ++ (rest.map (·.tdoses)).flatten ∧
    t.snames = s.snames ++ (rest.map (·.snames)).flatten ∧ t.pnames = s.pnames ++ (rest.map (·.pnames)).flatten ∧
    t.obs = s.obs ++ (rest.map (·.obs)).flatten ∧ t.mask = s.mask ++ (rest.map (·.mask)).flatten :=
  ⟨(C01_concat (·.tnames) (fun a b t h => (C01_combine_rows a b t h).1)).2.2 s rest t h,
   (C01_concat (·.tdoses) (fun a b t h => (C01_combine_rows a b t h).2.1)).2.2 s rest t h,
   (C01_concat (·.snames) (fun a b t h => (C01_combine_rows a b t h).2.2.1)).2.2 s rest t h,
   (C01_concat (·.pnames) (fun a b t h => (C01_combine_rows a b t h).2.2.2.1)).2.2 s rest t h,
   (C01_concat (·.obs) (fun a b t h => (C01_combine_rows a b t h).2.2.2.2.1)).2.2 s rest t h,
   (C01_concat (·.mask) (fun a b t h => (C01_combine_rows a b t h).2.2.2.2.2.1)).2.2 s rest t h⟩

/-! ### `single_treatment_effects` -/

/-- **When `single_treatment_effects` is `None`.** `create_single_treatment_effect_array` raises `ValueError` for arity < 2;
    otherwise it fails with `KeyError` (the property is then `None`) exactly when some non-control cell `(i, c)` has no
    monotherapy row of its sample and treatment among the rows; otherwise there is one row of effects per experiment, `1.0`
    (`none`) on control slots and the mean over a non-empty set of monotherapy rows elsewhere. -/
theorem C01_ste_status (arity : Nat) (sids : List Int) (tids : List (List Int)) :
    (arity < 2 → steSupport arity sids tids = .error .valueError) ∧
    (2 ≤ arity → (steSupport arity sids tids = .ok none ↔
        ∃ i, i < tids.length ∧ ∃ t ∈ tids[i]!, t ≠ -1 ∧ monoRows arity sids tids (sids[i]!) t = [])) ∧
    (2 ≤ arity → ∀ table, steSupport arity sids tids = .ok (some table) →
        table.length = tids.length ∧ ∀ row ∈ table, ∀ cell ∈ row, cell ≠ some []) := by
  refine ⟨fun h => by simp [steSupport, h], fun h => ?_, fun h table ht => ?_⟩
  · have h' : ¬ arity < 2 := by omega
    simp only [steSupport, h', if_false]
    split
    · rename_i hany
      simp only [true_iff]
      obtain ⟨row, hrow, hc⟩ := List.any_eq_true.mp hany
      obtain ⟨cell, hcell, hce⟩ := List.any_eq_true.mp hc
      obtain ⟨i, hi, rfl⟩ := List.mem_map.mp hrow
      obtain ⟨t, ht, rfl⟩ := List.mem_map.mp hcell
      refine ⟨i, List.mem_range.mp hi, t, ht, ?_⟩
      by_cases hctl : t = -1
      · exfalso; simp [hctl] at hce
      · simp only [beq_iff_eq, hctl, if_false] at hce
        exact ⟨hctl, by simpa using hce⟩
    · rename_i hany
      simp only [Except.ok.injEq, reduceCtorEq, false_iff]
      rintro ⟨i, hi, t, ht, hne, hmono⟩
      apply hany
      apply List.any_eq_true.mpr
      refine ⟨_, List.mem_map.mpr ⟨i, List.mem_range.mpr hi, rfl⟩, ?_⟩
      apply List.any_eq_true.mpr
      refine ⟨_, List.mem_map.mpr ⟨t, ht, rfl⟩, ?_⟩
      simp only [beq_iff_eq, hne, if_false, hmono]
  · have h' : ¬ arity < 2 := by omega
    simp only [steSupport, h', if_false] at ht
    split at ht
    · cases ht
    · rename_i hany
      injection ht with ht; injection ht with ht
      subst ht
      refine ⟨by simp, ?_⟩
      intro row hrow cell hcell hce
      apply hany
      exact List.any_eq_true.mpr ⟨row, hrow, List.any_eq_true.mpr ⟨cell, hcell, by simp [hce]⟩⟩

/-- a view reports `None` exactly when its parent does — it indexes the PARENT's array (`data.py:571-574`), it does not
    recompute from its own rows -/
theorem C01_ste_view (s : Screen) (sel : List Bool) :
    (viewSte s sel = .ok none ↔ screenSte s = .ok none) ∧
    (∀ table, screenSte s = .ok (some table) → viewSte s sel = .ok (some (maskFilter table sel))) ∧
    (∀ e, screenSte s = .error e → viewSte s sel = .error e) := by
  unfold viewSte
  cases h : screenSte s with
  | error e => simp [Except.map]
  | ok o => cases o <;> simp [Except.map]

/-! ### non-vacuity -/

/-- the hypotheses of the lookup theorems on a fresh 3-name sample table -/
example : ([[7], [5], [7], [9]] : List Name) ≠ [] ∧ ([5] : Name) ∈ ([[7], [5], [7], [9]] : List Name) := by decide
example : let sp : Space := { tmap := [], smap := [([5], 0), ([7], 1), ([9], 2)], ctrl := [] }
    (sp.sampleIdFromName [7]).toOption = some 1 ∧ (sp.sampleNameFromId 1).toOption = some [7] ∧
    (sp.sampleIdFromName [8]).toOption = none ∧ (sp.sampleNameFromId 3).toOption = none := by decide
/-- two names with the same id: `.item()` on two matches -/
example : let sp : Space := { tmap := [], smap := [([5], 0), ([7], 0)], ctrl := [] }
    (sp.sampleNameFromId 0).toOption = none ∧ sp.smap = [] ++ ([5], 0) :: [] ++ ([7], 0) :: [] := by decide
/-- treatment queries on a hand-permuted mapping (rows not sorted, ids permuted) -/
example : let sp : Space := { tmap := [([2], 1, 1), ([1], 0, -1), ([2], 3, 0), ([1], 2, 2), ([1], -1, -1)], smap := [], ctrl := [9] }
    (∃ e ∈ sp.tmap, e.1 = [1] ∧ e.2.2 = 2) ∧ (∃ e ∈ sp.tmap, e.1 = [1] ∧ e.2.2 = -1) ∧ (¬ ∃ e ∈ sp.tmap, e.1 = [3]) ∧
    sp.nUniqueTreatmentTypes = 2 ∧ nUniqueTreatments sp.tmap = 3 := by decide
/-- monotherapy coverage: sample 0 has monotherapy rows for treatments 0 and 1 (rows 0, 1, 3); the combination row 2 is covered;
    dropping row 1 leaves treatment 1 uncovered -/
example : (steSupport 2 [0, 0, 0, 0] [[0, -1], [-1, 1], [0, 1], [0, -1]]).toOption =
    some (some [[some [0, 3], none], [none, some [1]], [some [0, 3], some [1]], [some [0, 3], none]]) := by decide
example : (steSupport 2 [0, 0, 0] [[0, -1], [0, 1], [0, -1]]).toOption = some none := by decide

end Batchie.Props.C01Api
