/-
  C08 — general theorems prompted by seeded changes of later rounds, and the REGRESSION halves: the mutated definitions
  (`Model/GibbsRegress.lean`, code that is not in /repo) refuted on concrete witnesses.

    S6-C08  every unit is drawn exactly once per sweep        `C08_every_unit_drawn_once`      (general)
            loop over the samples that have data               `C08_S6_data_only_loop_skips_unit` (witness refutation)
    S7-C08  1×1 draw is `z/√q + b/q`                           `C08_mvn_1x1`                    (general; any size: `C08_mvn_sample_chol`)
            scalar fast path with `z/q`                        `C08_S7_fast_path_wrong_scale`   (witness refutation)
    S5-C08  intercept = mean of ALL rows held, any instalments `C08_alpha_instalments`, `C08_alpha_instalment_list` (general)
            mean memoised at the first call                    `C08_S5_cached_mean_is_stale`    (witness refutation)
-/
import Batchie.Model.GibbsRegress
import Batchie.Props.C08

namespace Batchie.Props.C08
open Batchie.Gibbs Finset Matrix

/-! ## S6-C08: unit-level visit accounting -/

theorem schedule_mem (nC nT D : ℕ) (c m : ℕ) (hc : c < nC) (hm : m < nT) :
    Site.W c ∈ schedule nC nT D ∧ Site.W0 c ∈ schedule nC nT D ∧ Site.V2 m ∈ schedule nC nT D
      ∧ Site.V1 m ∈ schedule nC nT D ∧ Site.V0 m ∈ schedule nC nT D := by
  unfold schedule
  simp only [List.mem_append, List.mem_map, List.mem_range, List.mem_cons]
  refine ⟨?_, ?_, ?_, ?_, ?_⟩
  · exact Or.inl (Or.inl (Or.inl (Or.inl (Or.inr ⟨c, hc, rfl⟩))))
  · exact Or.inl (Or.inl (Or.inl (Or.inl (Or.inl (Or.inl (Or.inr ⟨c, hc, rfl⟩))))))
  · exact Or.inl (Or.inl (Or.inl (Or.inr ⟨m, hm, rfl⟩)))
  · exact Or.inl (Or.inl (Or.inr ⟨m, hm, rfl⟩))
  · exact Or.inl (Or.inl (Or.inl (Or.inl (Or.inl (Or.inr ⟨m, hm, rfl⟩)))))

/-- S6-C08 (general): the draw sites a sweep appends to the log are exactly `schedule nC nT D` — a list that depends on the SIZES
    only, not on the data — and in it every sample index `c < nC` occurs exactly once as `W c` and once as `W0 c`, every treatment
    index `m < nT` exactly once as `V2 m`, `V1 m`, `V0 m`: every unit receives exactly one draw per sweep whether or not it has data
    (data branch or prior branch), for all sizes, data sets, states and choice logs -/
theorem C08_every_unit_drawn_once (dt : Data ℝ) (ω : Draws ℝ) (st : State ℝ) :
    (mcmcStep dt ω st).log.map (·.site) = st.log.map (·.site) ++ schedule dt.nC dt.nT dt.D
    ∧ (∀ c, c < dt.nC → (schedule dt.nC dt.nT dt.D).count (Site.W c) = 1 ∧ (schedule dt.nC dt.nT dt.D).count (Site.W0 c) = 1)
    ∧ (∀ m, m < dt.nT → (schedule dt.nC dt.nT dt.D).count (Site.V2 m) = 1 ∧ (schedule dt.nC dt.nT dt.D).count (Site.V1 m) = 1
        ∧ (schedule dt.nC dt.nT dt.D).count (Site.V0 m) = 1) := by
  have hnd := schedule_nodup dt.nC dt.nT dt.D
  refine ⟨sites_sweep dt ω st, fun c hc => ?_, fun m hm => ?_⟩
  · by_cases h : 0 < dt.nT
    · have := schedule_mem dt.nC dt.nT dt.D c 0 hc h
      exact ⟨List.count_eq_one_of_mem hnd this.1, List.count_eq_one_of_mem hnd this.2.1⟩
    · -- no treatments: membership of the sample sites does not need one
      have hW : Site.W c ∈ schedule dt.nC dt.nT dt.D := by
        unfold schedule
        simp only [List.mem_append, List.mem_map, List.mem_range, List.mem_cons]
        exact Or.inl (Or.inl (Or.inl (Or.inl (Or.inr ⟨c, hc, rfl⟩))))
      have hW0 : Site.W0 c ∈ schedule dt.nC dt.nT dt.D := by
        unfold schedule
        simp only [List.mem_append, List.mem_map, List.mem_range, List.mem_cons]
        exact Or.inl (Or.inl (Or.inl (Or.inl (Or.inl (Or.inl (Or.inr ⟨c, hc, rfl⟩))))))
      exact ⟨List.count_eq_one_of_mem hnd hW, List.count_eq_one_of_mem hnd hW0⟩
  · have hV2 : Site.V2 m ∈ schedule dt.nC dt.nT dt.D := by
      unfold schedule
      simp only [List.mem_append, List.mem_map, List.mem_range, List.mem_cons]
      exact Or.inl (Or.inl (Or.inl (Or.inr ⟨m, hm, rfl⟩)))
    have hV1 : Site.V1 m ∈ schedule dt.nC dt.nT dt.D := by
      unfold schedule
      simp only [List.mem_append, List.mem_map, List.mem_range, List.mem_cons]
      exact Or.inl (Or.inl (Or.inr ⟨m, hm, rfl⟩))
    have hV0 : Site.V0 m ∈ schedule dt.nC dt.nT dt.D := by
      unfold schedule
      simp only [List.mem_append, List.mem_map, List.mem_range, List.mem_cons]
      exact Or.inl (Or.inl (Or.inl (Or.inl (Or.inl (Or.inr ⟨m, hm, rfl⟩)))))
    exact ⟨List.count_eq_one_of_mem hnd hV2, List.count_eq_one_of_mem hnd hV1, List.count_eq_one_of_mem hnd hV0⟩

/-- two samples, one observation of sample 0: sample 1 has no data -/
def s6Data : Data ℝ :=
  { nC := 2, nT := 1, D := 1, N := 1, y := fun _ => 0, cline := fun _ => 0, dd1 := fun _ => 0, dd2 := fun _ => -1,
    a0 := 1, b0 := 1 }

/-- a choice log in which every multivariate / vector draw returns the vector 7 -/
def s6Draws : Draws ℝ := { spDraws with w := fun _ => some (fun _ => 7) }

/-- Regression S6-C08 (not a clause): the loop over the samples that have data never visits sample 1 — it logs no `W 1` site and
    leaves `W[1]` at its previous value, while the sweep's `_W_step` logs it and stores the drawn value -/
theorem C08_S6_data_only_loop_skips_unit :
    ((wStepDataOnly s6Data s6Draws spState).log.map (·.site)).count (Site.W 1) = 0
    ∧ (wStepDataOnly s6Data s6Draws spState).W 1 0 = spState.W 1 0
    ∧ ((wStep s6Data s6Draws spState).log.map (·.site)).count (Site.W 1) = 1
    ∧ (wStep s6Data s6Draws spState).W 1 0 = 7 := by
  refine ⟨?_, ?_, ?_, ?_⟩ <;>
    simp [wStepDataOnly, wStep, iter, wBlock, wBlk, wNext, Blk.has, Blk.record, anyN, selC, selNone, s6Data, s6Draws, spDraws, spState,
      State.push, upd]

/-! ## S7-C08: the 1×1 draw -/

/-- S7-C08 (general, 1×1): for a positive 1×1 precision `q` the modelled `sample_mvn_from_precision(Q, mu_part=b)` returns
    `z/√q + b/q` — noise scale `1/√q` (variance `1/q`), mean `b/q`.  (Every size: `C08_mvn_sample_chol`.) -/
theorem C08_mvn_1x1 (Q : ℕ → ℕ → ℝ) (b z : ℕ → ℝ) (hq : 0 < Q 0 0) :
    sampleMvn 1 Q b z 0 = z 0 / Real.sqrt (Q 0 0) + b 0 / Q 0 0 := by
  have hs : Real.sqrt (Q 0 0) * Real.sqrt (Q 0 0) = Q 0 0 := Real.mul_self_sqrt (le_of_lt hq)
  have hne : Real.sqrt (Q 0 0) ≠ 0 := ne_of_gt (Real.sqrt_pos.mpr hq)
  have hU : chol 1 Q 0 0 = Real.sqrt (Q 0 0) := by
    rw [chol_entries 1 Q 0 0 (by omega) (by omega)]; simp [pivot]
  have e : sampleMvn 1 Q b z 0 = z 0 / chol 1 Q 0 0 + (b 0 / chol 1 Q 0 0) / chol 1 Q 0 0 := by
    simp [sampleMvn, mvnMap, solveUpper, solveLowerT, backSub, fwdSub, getA, sumN]
  rw [e, hU, div_div, hs]

def s7Q : ℕ → ℕ → ℝ := fun _ _ => 4
def s7b : ℕ → ℝ := fun _ => 0
def s7z : ℕ → ℝ := fun _ => 1

/-- Regression S7-C08 (not a clause): the scalar fast path divides the noise by `q`: for `q = 4`, `b = 0`, `z = 1` it returns `1/4`
    where the draw must be `1/2` (standard deviation `1/√4`; the fast path's variance scale is `1/16` instead of `1/4`) -/
theorem C08_S7_fast_path_wrong_scale :
    sampleMvn 1 s7Q s7b s7z 0 = 1 / 2 ∧ sampleMvnFast1 s7Q s7b s7z 0 = 1 / 4
    ∧ sampleMvnFast1 s7Q s7b s7z 0 ≠ sampleMvn 1 s7Q s7b s7z 0 := by
  have h4 : Real.sqrt 4 = 2 := by
    rw [show (4 : ℝ) = 2 ^ 2 by norm_num]; exact Real.sqrt_sq (by norm_num)
  have e1 : sampleMvn 1 s7Q s7b s7z 0 = 1 / 2 := by
    rw [C08_mvn_1x1 s7Q s7b s7z (by norm_num [s7Q])]
    simp only [s7Q, s7b, s7z, h4]; norm_num
  have e2 : sampleMvnFast1 s7Q s7b s7z 0 = 1 / 4 := by
    unfold sampleMvnFast1; norm_num [s7Q, s7b, s7z]
  refine ⟨e1, e2, ?_⟩
  rw [e1, e2]; norm_num

/-! ## S5-C08: the intercept after instalments -/

theorem sum_addRows (dt : Data ℝ) (k : ℕ) (y : ℕ → ℝ) (cl : ℕ → ℕ) (d1 d2 : ℕ → ℤ) :
    ∑ n ∈ range (addRows dt k y cl d1 d2).N, (addRows dt k y cl d1 d2).y n
      = ∑ n ∈ range dt.N, dt.y n + ∑ j ∈ range k, y j := by
  show ∑ n ∈ range (dt.N + k), (if n < dt.N then dt.y n else y (n - dt.N)) = _
  rw [sum_range_add]
  congr 1
  · exact sum_congr rfl (fun n hn => by rw [if_pos (mem_range.mp hn)])
  · exact sum_congr rfl (fun j _ => by rw [if_neg (by omega)]; congr 1; omega)

/-- S5-C08 (general): after a further instalment of `k` rows (no reset), from ANY state (in particular the one the sweeps on
    the earlier rows left, with whatever it cached), the intercept after the next sweep is the mean of ALL rows held:
    `(Σ earlier y + Σ new y) / (N + k)` -/
theorem C08_alpha_instalments (dt : Data ℝ) (k : ℕ) (y : ℕ → ℝ) (cl : ℕ → ℕ) (d1 d2 : ℕ → ℤ) (ω : Draws ℝ) (st : State ℝ)
    (h : dt.N + k ≠ 0) :
    (mcmcStep (addRows dt k y cl d1 d2) ω st).alpha
      = (∑ n ∈ range dt.N, dt.y n + ∑ j ∈ range k, y j) / ((dt.N + k : ℕ) : ℝ) := by
  have hA := C08_alpha (addRows dt k y cl d1 d2) ω st
  rw [hA.1, hA.2.1 h, sum_addRows]
  rfl

/-- an instalment: its rows -/
structure Instalment where
  k : ℕ
  y : ℕ → ℝ
  cline : ℕ → ℕ
  dd1 : ℕ → ℤ
  dd2 : ℕ → ℤ

def addAll (dt : Data ℝ) (l : List Instalment) : Data ℝ := l.foldl (fun d i => addRows d i.k i.y i.cline i.dd1 i.dd2) dt

theorem addAll_sum (l : List Instalment) : ∀ dt : Data ℝ,
    (addAll dt l).N = dt.N + (l.map (·.k)).sum
    ∧ ∑ n ∈ range (addAll dt l).N, (addAll dt l).y n
        = ∑ n ∈ range dt.N, dt.y n + (l.map (fun i => ∑ j ∈ range i.k, i.y j)).sum := by
  induction l with
  | nil => intro dt; simp [addAll]
  | cons i t ih =>
    intro dt
    have := ih (addRows dt i.k i.y i.cline i.dd1 i.dd2)
    unfold addAll at this ⊢
    rw [List.foldl_cons]
    refine ⟨?_, ?_⟩
    · rw [this.1]; show dt.N + i.k + _ = _; simp [List.map_cons, List.sum_cons]; ring
    · rw [this.2, sum_addRows]; simp [List.map_cons, List.sum_cons]; ring

/-- S5-C08 (general, any sequence of instalments): the intercept after a sweep is the total of the transformed observations of
    ALL instalments divided by the total number of rows -/
theorem C08_alpha_instalment_list (dt : Data ℝ) (l : List Instalment) (ω : Draws ℝ) (st : State ℝ)
    (h : (addAll dt l).N ≠ 0) :
    (mcmcStep (addAll dt l) ω st).alpha
      = (∑ n ∈ range dt.N, dt.y n + (l.map (fun i => ∑ j ∈ range i.k, i.y j)).sum) / ((dt.N + (l.map (·.k)).sum : ℕ) : ℝ) := by
  have hA := C08_alpha (addAll dt l) ω st
  rw [hA.1, hA.2.1 h, (addAll_sum l dt).2, (addAll_sum l dt).1]

/-- Regression S5-C08 (not a clause): with the mean memoised at the first call (one row, `y = 0`, mean 0), after a second
    instalment (one row, `y = 2`) the stale value 0 is kept although the mean of the rows held is 1 -/
theorem C08_S5_cached_mean_is_stale :
    let dt1 : Data ℝ := { spData with y := fun _ => 0 }
    let dt2 := addRows dt1 1 (fun _ => 2) (fun _ => 0) (fun _ => 0) (fun _ => -1)
    (alphaStepCached (alphaValue dt1) dt2 spState).alpha = 0
    ∧ (alphaStep dt2 spState).alpha = 1
    ∧ (alphaStepCached (alphaValue dt1) dt2 spState).alpha ≠ (alphaStep dt2 spState).alpha := by
  intro dt1 dt2
  have e1 : (alphaStepCached (alphaValue dt1) dt2 spState).alpha = 0 := by
    simp [alphaStepCached, alphaValue, dt1, dt2, addRows, spData, State.push, sumN, natTo]
  have e2 : (alphaStep dt2 spState).alpha = 1 := by
    simp [alphaStep, alphaValue, dt1, dt2, addRows, spData, State.push, sumN, natTo]
    norm_num
  exact ⟨e1, e2, by rw [e1, e2]; norm_num⟩

end Batchie.Props.C08
