/-
  C07 -- pairwise-distance chunks partition the work and assemble to the same matrix.

  All statements are about the definitions regenerated from /repo/src/batchie/distance_calculation.py
  (`Batchie.Gen.LowerTri`, `NumLowerTri`, `ChunkBounds`, reached through the wrappers `lowerTri`,
  `numLowerTri`, `chunkStart/End/Err` of `Model/Chunks.lean`) and about the hand model of
  `ChunkedDistanceMatrix` that the correspondence harness runs against the real class.
  Quantification: all `n ≥ 0`, all `n_chunks = k ≥ 1` (including `k` larger than the number of pairs),
  all chunk indices `0 ≤ c < k`, all metrics, all lists of chunk files.
-/
/-
  CLAUSE MAP (property text -> theorem)
  1.  chunks pairwise disjoint .............................. C07_partition (2nd conjunct)
  2.  together cover every pair i>j exactly once ............ C07_partition (flatMap = enumeration; ∃! chunk per pair) + C07_enumeration
                                                              (the enumeration IS the pairs j<i<n, no repetition, n(n-1)/2 of them)
  3.  sizes differ by at most one ........................... C07_balanced (+ C07_contiguous, C07_no_error: never raises, also k > #pairs)
  4.  compute independently, save, load, combine in any order, chunk repeated -> complete matrix
                                                              C07_assemble (any list containing every index, any order, any repeats)
      save/load .............................................. harness-only: h5py container fidelity (identity on the filled prefix is an
                                                              assumption, exercised incl. the int-width boundaries 127..257)
  5.  ... symmetric, zero diagonal ........................... C07_assemble (denseAt symmetric, diagonal 0, toDense = denseSpec)
  6.  ... same as a single-chunk computation ................. C07_assemble (last conjunct)
  7.  (i,j) entry = metric of the two samples' predictions ... C07_assemble_metric, C07_assemble_mse; every stored value: C07_pipeline_wellformed
      predictions themselves / aliasing of prediction arrays . harness-only: predict_viability is C09's; array aliasing has no functional model
  8.  metric symmetric, non-negative, zero on identical ...... C07_mse_metric over ℝ;  IEEE rounding of np.mean/expit: harness-only
  9.  a matrix missing any pair refuses to be densified ...... pipeline matrices (any subset/order/repeats of chunk files): C07_pipeline_wellformed
                                                              (complete IFF no pair missing, else to_dense raises), C07_incomplete_refuses;
                                                              arbitrary matrices: C07_missing_pair_refuses under Nodup, which
                                                              C07_pipeline_wellformed discharges for everything calculate/concat can build;
                                                              C07_count_only_witness shows the hypothesis is needed for hand-made objects
  4b. save / load in the model ............................... C07_save_load_identity (CDM.load (CDM.save m) = m for every m)
  Regression (not a clause): S5-C07 int8 index storage ...... C07_S5_int8_counterexample (witness + "every size >= 129 loses an index")
  Regression (not a clause): S7-C07 chunk bounds in floating point: NOT expressible without a float model; the theorems are about
      the translated integer arithmetic (C07_contiguous / C07_balanced), a float rewrite makes the translator refuse (tie) and the
      partition oracle finds the concrete input
  Not modelled (optional storage-level refinement not done): the numpy storage arrays / _expand_storage; see props/C07.json note.
-/
import Batchie.Lemmas.ChunksAssemble
import Batchie.Lemmas.ChunksMetric
import Batchie.Lemmas.ChunksSaveLoad

namespace Batchie.Props.C07
open Batchie.Chunks Batchie.Proto

/-! ## enumeration -/

/-- `list(lower_triangular_indices(n))` is exactly the pairs `0 ≤ j < i < n` in row-major order: it equals the
    nested-range list, is strictly increasing lexicographically, has no repetition, and its length is
    `get_number_of_lower_triangular_indices(n) = n(n-1)/2`. -/
theorem C07_enumeration (n : Int) (hn : 0 ≤ n) :
    lowerTri n = (List.range n.toNat).flatMap
        (fun (i : Nat) => (List.range i).map (fun (j : Nat) => ((i : Int), (j : Int)))) ∧
    (lowerTri n).Pairwise lexLt ∧
    (lowerTri n).Nodup ∧
    ((lowerTri n).length : Int) = numLowerTri n ∧
    numLowerTri n = n * (n - 1) / 2 ∧
    (∀ i j : Int, (i, j) ∈ lowerTri n ↔ 0 ≤ j ∧ j < i ∧ i < n) :=
  ⟨lowerTri_eq_triSpec n, pairwise_lowerTri n, nodup_lowerTri n, length_lowerTri n hn, numLowerTri_eq n,
   fun _ _ => mem_lowerTri⟩

/-! ## chunk arithmetic -/

/-- on valid input neither the `assert`, nor a division by zero, nor a negative `islice` count occurs, and
    the chunk is the slice `[start, end)` of the enumeration -/
theorem C07_no_error (n c k : Int) (hk : 1 ≤ k) (hc0 : 0 ≤ c) (hck : c < k) :
    chunkErr n c k = false ∧ chunk n c k = .ok (chunkPairs n c k) := by
  refine ⟨?_, chunk_ok n c k hk hc0 hck⟩
  rw [chunkErr_eq]
  have : k ≠ 0 := by omega
  simp [hck, this]

/-- the chunks are consecutive intervals `[start c, end c)` tiling `[0, N)` -/
theorem C07_contiguous (n k : Int) (hk : 1 ≤ k) :
    chunkStart n 0 k = 0 ∧
    (∀ c, 0 ≤ c → c + 1 < k → chunkEnd n c k = chunkStart n (c + 1) k) ∧
    chunkEnd n (k - 1) k = numLowerTri n ∧
    (∀ c, 0 ≤ c → c < k →
      0 ≤ chunkStart n c k ∧ chunkStart n c k ≤ chunkEnd n c k ∧ chunkEnd n c k ≤ numLowerTri n) := by
  refine ⟨chunkStart_zero n k hk, fun c _ _ => chunkEnd_eq_start_succ n c k hk, ?_, ?_⟩
  · rw [chunkEnd_eq_start_succ n (k - 1) k hk]
    have : k - 1 + 1 = k := by omega
    rw [this]; exact chunkStart_top n k hk
  · intro c h0 h1
    exact ⟨chunkStart_nonneg n c k hk h0, chunkStart_le_end n c k hk, chunkEnd_le n c k hk h1⟩

/-- every chunk has `⌊N/k⌋` or `⌊N/k⌋ + 1` pairs; any two chunk sizes differ by at most one -/
theorem C07_balanced (n k : Int) (hn : 0 ≤ n) (hk : 1 ≤ k) (c₁ c₂ : Int)
    (h₁ : 0 ≤ c₁ ∧ c₁ < k) (h₂ : 0 ≤ c₂ ∧ c₂ < k) :
    numLowerTri n / k ≤ ((chunkPairs n c₁ k).length : Int) ∧
    ((chunkPairs n c₁ k).length : Int) ≤ numLowerTri n / k + 1 ∧
    ((chunkPairs n c₁ k).length : Int) - ((chunkPairs n c₂ k).length : Int) ≤ 1 := by
  rw [length_chunkPairs n c₁ k hn hk h₁.1 h₁.2, length_chunkPairs n c₂ k hn hk h₂.1 h₂.2,
    chunkSize_eq, chunkSize_eq, Int.fdiv_eq_ediv_of_nonneg _ (by omega : (0 : Int) ≤ k)]
  refine ⟨?_, ?_, ?_⟩ <;> split <;> (try split) <;> omega

/-- the chunks, concatenated in index order, are the enumeration; hence they are pairwise disjoint, lie
    inside the enumeration, and every pair `j < i < n` belongs to exactly one chunk -/
theorem C07_partition (n k : Int) (hn : 0 ≤ n) (hk : 1 ≤ k) :
    (List.range k.toNat).flatMap (fun (c : Nat) => chunkPairs n (c : Int) k) = lowerTri n ∧
    (∀ c₁ c₂ : Int, 0 ≤ c₁ ∧ c₁ < k → 0 ≤ c₂ ∧ c₂ < k → c₁ ≠ c₂ →
        ∀ p, p ∈ chunkPairs n c₁ k → p ∉ chunkPairs n c₂ k) ∧
    (∀ c p, p ∈ chunkPairs n c k → p ∈ lowerTri n) ∧
    (∀ i j : Int, 0 ≤ j → j < i → i < n → ∃! c : Int, (0 ≤ c ∧ c < k) ∧ (i, j) ∈ chunkPairs n c k) := by
  refine ⟨flatMap_chunkPairs n k hn hk,
    fun c₁ c₂ h₁ h₂ hne p => chunkPairs_disjoint n k hn hk c₁ c₂ h₁ h₂ hne p,
    fun c p hp => chunkPairs_subset n c k hp, ?_⟩
  intro i j h0 h1 h2
  obtain ⟨c, hc0, hck, hp⟩ := exists_chunk_of_mem n k hn hk (i, j) (mem_lowerTri.2 ⟨h0, h1, h2⟩)
  refine ⟨c, ⟨⟨hc0, hck⟩, hp⟩, ?_⟩
  rintro c' ⟨hc', hp'⟩
  by_contra hne
  exact chunkPairs_disjoint n k hn hk c' c hc' ⟨hc0, hck⟩ hne (i, j) hp' hp

/-! ## assembly -/

/-- Any list `cs` of chunk indices that contains every index `0..k-1` at least once -- in any order, with
    any repetitions -- assembles (`calculate` each chunk, `concat` in list order) to a matrix `R` that is
    complete, holds each pair `j < i < n` exactly once, and whose dense form is symmetric, zero on the
    diagonal, and has the metric `m i j` of the pair at `(i,j)` and `(j,i)`; the dense matrix equals the one
    computed in a single chunk. `m i j` stands for
    `distance_metric.distance(theta_i.predict_viability(data), theta_j.predict_viability(data))`. -/
theorem C07_assemble {α : Type} [OfNat α 0] (n k : Int) (hn : 0 ≤ n) (hk : 1 ≤ k) (m : Int → Int → α)
    (cs : List Int) (hvalid : ∀ c ∈ cs, 0 ≤ c ∧ c < k) (hall : ∀ c, 0 ≤ c → c < k → c ∈ cs) :
    ∃ R : CDM α, assemble n k m cs = .ok R ∧ R.size = n ∧ R.isComplete = true ∧
      R.keys.Nodup ∧ (∀ p, p ∈ R.keys ↔ p ∈ lowerTri n) ∧
      (∀ i j, 0 ≤ j → j < i → i < n → denseAt R.entries i j = m i j ∧ denseAt R.entries j i = m i j) ∧
      (∀ i, denseAt R.entries i i = 0) ∧
      (∀ i j, denseAt R.entries i j = denseAt R.entries j i) ∧
      R.toDense = .ok (denseSpec n (fun i j => if i = j then 0 else m (max i j) (min i j))) ∧
      (assemble n 1 m [0]).bind CDM.toDense = R.toDense := by
  -- the dense form is determined by the three structural facts
  have dense : ∀ R : CDM α, R.size = n → R.isComplete = true →
      (∀ p, p ∈ keysOf R.entries ↔ p ∈ lowerTri n) →
      (∀ e ∈ R.entries, e.2.1 < e.1 ∧ e.2.2 = m e.1 e.2.1) →
      (∀ i j, 0 ≤ j → j < i → i < n → denseAt R.entries i j = m i j ∧ denseAt R.entries j i = m i j) ∧
      (∀ i, denseAt R.entries i i = 0) ∧
      R.toDense = .ok (denseSpec n (fun i j => if i = j then 0 else m (max i j) (min i j))) := by
    intro R hsize hcomp hkeys hent
    have hlow : ∀ i j, 0 ≤ j → j < i → i < n →
        denseAt R.entries i j = m i j ∧ denseAt R.entries j i = m i j := by
      intro i j h0 h1 h2
      have h := denseAt_lower R.entries m hent i j h1 ((hkeys (i, j)).2 (mem_lowerTri.2 ⟨h0, h1, h2⟩))
      exact ⟨h, by rw [denseAt_symm]; exact h⟩
    have hdiag : ∀ i, denseAt R.entries i i = 0 := denseAt_diag R.entries (fun e he => (hent e he).1)
    refine ⟨hlow, hdiag, ?_⟩
    rw [toDense_of_complete R hcomp, hsize]
    congr 1
    apply denseSpec_congr
    intro r c hr0 hrn hc0 hcn
    by_cases hrc : r = c
    · subst hrc; simp [hdiag]
    · rw [if_neg hrc]
      rcases Int.lt_or_gt_of_ne hrc with h | h
      · rw [(hlow c r hr0 h hcn).2]
        congr 1 <;> omega
      · rw [(hlow r c hc0 h hrn).1]
        congr 1 <;> omega
  obtain ⟨R, hR, hsize, hcomp, hnd, hkeys, hent⟩ := assemble_complete n k hn hk m cs hvalid hall
  obtain ⟨R₁, hR₁, hsize₁, hcomp₁, _, hkeys₁, hent₁⟩ := assemble_complete n 1 hn (by omega) m [0]
    (by intro c hc; simp at hc; omega) (by intro c h0 h1; simp; omega)
  obtain ⟨d1, d2, d3⟩ := dense R hsize hcomp hkeys hent
  obtain ⟨_, _, e3⟩ := dense R₁ hsize₁ hcomp₁ hkeys₁ hent₁
  refine ⟨R, hR, hsize, hcomp, hnd, hkeys, d1, d2, fun i j => denseAt_symm _ i j, d3, ?_⟩
  rw [hR₁, d3]
  exact e3

/-- the same with the metric spelled out: if `m i j = d (pred i) (pred j)` for a distance `d` that is
    symmetric and zero on identical arguments, EVERY entry `(i,j)` of the assembled dense matrix is the
    distance between the predictions of samples `i` and `j` -/
theorem C07_assemble_metric {α β : Type} [OfNat α 0] (n k : Int) (hn : 0 ≤ n) (hk : 1 ≤ k)
    (pred : Int → β) (d : β → β → α) (hsymm : ∀ x y, d x y = d y x) (hself : ∀ x, d x x = 0)
    (cs : List Int) (hvalid : ∀ c ∈ cs, 0 ≤ c ∧ c < k) (hall : ∀ c, 0 ≤ c → c < k → c ∈ cs) :
    ∃ R : CDM α, assemble n k (fun i j => d (pred i) (pred j)) cs = .ok R ∧
      R.toDense = .ok (denseSpec n (fun i j => d (pred i) (pred j))) ∧
      ∀ i j, 0 ≤ i → i < n → 0 ≤ j → j < n → denseAt R.entries i j = d (pred i) (pred j) := by
  obtain ⟨R, hR, _, _, _, _, hlow, hdiag, _, hdense, _⟩ :=
    C07_assemble n k hn hk (fun i j => d (pred i) (pred j)) cs hvalid hall
  refine ⟨R, hR, ?_, ?_⟩
  · rw [hdense]
    congr 1
    apply denseSpec_congr
    intro r c _ _ _ _
    by_cases hrc : r = c
    · subst hrc; simp [hself]
    · rw [if_neg hrc]
      rcases Int.lt_or_gt_of_ne hrc with h | h
      · have e1 : max r c = c := by omega
        have e2 : min r c = r := by omega
        rw [e1, e2]; exact hsymm _ _
      · have e1 : max r c = r := by omega
        have e2 : min r c = c := by omega
        rw [e1, e2]
  · intro i j hi0 hin hj0 hjn
    by_cases hij : i = j
    · subst hij; rw [hdiag, hself]
    · rcases Int.lt_or_gt_of_ne hij with h | h
      · rw [(hlow j i hi0 h hjn).2]; exact hsymm _ _
      · exact (hlow i j hj0 h hin).1

/-! ## refusal -/

/-- a list of chunk files that lacks some index whose chunk is non-empty: the concatenation (which still
    succeeds when the list is non-empty) is NOT complete and `to_dense` raises -/
theorem C07_incomplete_refuses {α : Type} [OfNat α 0] (n k : Int) (hn : 0 ≤ n) (hk : 1 ≤ k)
    (m : Int → Int → α) (cs : List Int) (hvalid : ∀ c ∈ cs, 0 ≤ c ∧ c < k)
    (c₀ : Int) (hc₀ : 0 ≤ c₀ ∧ c₀ < k) (hmiss : c₀ ∉ cs) (hne : chunkPairs n c₀ k ≠ []) :
    (cs = [] → assemble n k m cs = .error .valueError) ∧
    (cs ≠ [] → ∃ R : CDM α, assemble n k m cs = .ok R ∧ R.size = n ∧
        R.isComplete = false ∧ R.toDense = .error .valueError) := by
  refine ⟨fun h => by rw [h]; exact assemble_nil n k m, ?_⟩
  intro hcs
  cases cs with
  | nil => exact absurd rfl hcs
  | cons c cs =>
    obtain ⟨hnd, hkeys, _⟩ := assembled_spec n k m c cs
    obtain ⟨p, hp⟩ := List.exists_mem_of_ne_nil _ hne
    have hinc : CDM.isComplete ({ size := n, entries := assembled n k m (chunkEntries n c k m) cs } : CDM α)
        = false := by
      apply incomplete_of_missing _ hnd _ p (chunkPairs_subset n c₀ k hp)
      · intro hmem
        obtain ⟨c', hc', hpc'⟩ := (hkeys p).1 hmem
        have hne' : c₀ ≠ c' := fun h => hmiss (h ▸ hc')
        exact chunkPairs_disjoint n k hn hk c₀ c' hc₀ (hvalid c' hc') hne' p hp hpc'
      · intro q hq
        obtain ⟨c', _, hqc'⟩ := (hkeys q).1 hq
        exact chunkPairs_subset n c' k hqc'
    exact ⟨_, assemble_ok n k m hk c cs hvalid, rfl, hinc, toDense_of_incomplete _ hinc⟩

/-- general form: ANY matrix whose stored pairs are distinct and lower-triangular in range, and that lacks
    some pair `j < i < size`, is not complete and refuses to be densified -/
theorem C07_missing_pair_refuses {α : Type} [OfNat α 0] (R : CDM α) (hnd : R.keys.Nodup)
    (hsub : ∀ p ∈ R.keys, p ∈ lowerTri R.size) (i j : Int) (h0 : 0 ≤ j) (h1 : j < i) (h2 : i < R.size)
    (hmiss : (i, j) ∉ R.keys) : R.isComplete = false ∧ R.toDense = .error .valueError := by
  have h := incomplete_of_missing R hnd hsub (i, j) (mem_lowerTri.2 ⟨h0, h1, h2⟩) hmiss
  exact ⟨h, toDense_of_incomplete R h⟩

/-- **The hypotheses of `C07_missing_pair_refuses` hold for every matrix the pipeline can produce**, and completeness is
    exactly "no pair is missing": for ANY non-empty list of valid chunk indices (any subset of the chunks, any order, any
    repetitions) `calculate` + `concat` succeeds with a matrix `R` of size `n` whose stored pairs are distinct, lie in the lower
    triangle, are exactly the union of the listed chunks, each with the metric of its pair as value; `R` is complete IFF every
    pair `j < i < n` is stored, and otherwise `to_dense` raises. -/
theorem C07_pipeline_wellformed {α : Type} [OfNat α 0] (n k : Int) (hn : 0 ≤ n) (hk : 1 ≤ k) (m : Int → Int → α)
    (c₀ : Int) (cs : List Int) (hvalid : ∀ c ∈ c₀ :: cs, 0 ≤ c ∧ c < k) :
    ∃ R : CDM α, assemble n k m (c₀ :: cs) = .ok R ∧ R.size = n ∧ R.keys.Nodup ∧
      (∀ p ∈ R.keys, p ∈ lowerTri R.size) ∧
      (∀ p, p ∈ R.keys ↔ ∃ c ∈ c₀ :: cs, p ∈ chunkPairs n c k) ∧
      (∀ e ∈ R.entries, e.2.2 = m e.1 e.2.1) ∧
      (R.isComplete = true ↔ ∀ p ∈ lowerTri n, p ∈ R.keys) ∧
      (R.isComplete = false → R.toDense = .error .valueError) := by
  obtain ⟨hnd, hkeys, hent⟩ := assembled_spec n k m c₀ cs
  let R : CDM α := { size := n, entries := assembled n k m (chunkEntries n c₀ k m) cs }
  have hsub : ∀ p ∈ R.keys, p ∈ lowerTri R.size := by
    intro p hp
    obtain ⟨c, _, hpc⟩ := (hkeys p).1 hp
    exact chunkPairs_subset n c k hpc
  refine ⟨R, assemble_ok n k m hk c₀ cs hvalid, rfl, hnd, hsub, hkeys, fun e he => (hent e he).2, ?_,
    fun h => toDense_of_incomplete R h⟩
  constructor
  · intro hc p hp
    by_contra hmiss
    have := incomplete_of_missing R hnd hsub p hp hmiss
    rw [hc] at this
    cases this
  · intro hall
    have hlen := length_eq_of_nodup_of_subset_subset hnd (nodup_lowerTri n) (fun p hp => hsub p hp) (fun p hp => hall p hp)
    have hl := length_lowerTri n hn
    simp only [CDM.isComplete, beq_iff_eq]
    have e : R.entries.length = (keysOf R.entries).length := by simp [keysOf]
    rw [e, hlen]
    exact hl

/-- why `Nodup` is a hypothesis above: `is_complete` only COUNTS entries (`current_index == N`) and
    `add_value`'s "already calculated" tests are vacuous, so a hand-built matrix (not reachable through
    calculate/save/load/concat, which never duplicate) with a repeated pair and a missing pair counts as
    complete. Recorded as an observation about the class, outside the pipeline the property quantifies over. -/
theorem C07_count_only_witness :
    let R : CDM Int := { size := 3, entries := [(1, 0, 5), (1, 0, 5), (2, 0, 7)] }
    (2, 1) ∈ lowerTri 3 ∧ (2, 1) ∉ R.keys ∧ R.isComplete = true := by
  decide

/-! ## save / load (seeded change S5-C07) -/

/-- **The model's save / load is the identity** on every matrix -- every size, every index list, every value list (S5-C07,
    positive half; that h5py stores what it is given is the assumption the harness exercises at sizes 127..257). -/
theorem C07_save_load_identity {α : Type} (m : CDM α) :
    CDM.load (CDM.save m) = m ∧ (CDM.load (CDM.save m)).keys = m.keys ∧ (CDM.save m).size = m.size :=
  ⟨load_save m, by rw [load_save], rfl⟩

/-- **Regression (S5-C07, not a clause):** indices stored as signed bytes whenever `size ≤ 256`.  A signed byte keeps the
    indices below 128 and wraps 128..255 to negatives (`128 ↦ -128`), so for EVERY size `129 ≤ n ≤ 256` some index `< n` does not
    survive; on the witness (size 129, one entry at row 128) the loaded matrix is another matrix, and its pair is not in the lower
    triangle any more (combining such files raises "Indices must be lower triangular", a single file densifies misplaced). -/
theorem C07_S5_int8_counterexample :
    toInt8 128 = -128 ∧
    (∀ x : Int, 0 ≤ x → x < 128 → toInt8 x = x) ∧
    (∀ n : Int, 129 ≤ n → ∃ i : Int, 0 ≤ i ∧ i < n ∧ toInt8 i ≠ i) ∧
    (let w : CDM Int := { size := 129, entries := [(128, 0, 5)] }
     CDM.load (CDM.saveInt8 w) = { size := 129, entries := [(-128, 0, 5)] } ∧
     (CDM.load (CDM.saveInt8 w)).keys ≠ w.keys ∧
     (∀ p ∈ (CDM.load (CDM.saveInt8 w)).keys, p ∉ lowerTri 129) ∧
     (w.entries.foldlM (fun (acc : CDM Int) e => acc.addValue e.1 e.2.1 e.2.2) (CDM.empty 129)).toOption.isSome = true ∧
     ((CDM.load (CDM.saveInt8 w)).entries.foldlM (fun (acc : CDM Int) e => acc.addValue e.1 e.2.1 e.2.2) (CDM.empty 129)).toOption = none) := by
  refine ⟨by decide, toInt8_small, ?_, by rfl, by decide, ?_, by decide, by decide⟩
  · intro n hn
    exact ⟨128, by omega, by omega, by decide⟩
  · intro p hp
    have : p = (-128, 0) := by
      have : (CDM.load (CDM.saveInt8 ({ size := 129, entries := [(128, 0, 5)] } : CDM Int))).keys = [(-128, 0)] := by decide
      rw [this] at hp
      simpa using hp
    subst this
    intro h
    have := (mem_lowerTri).1 h
    omega

/-! ## the metric -/

/-- `MSEDistance.distance` over the reals, with `f` = `expit` (sigmoid=True) or the identity: symmetric,
    non-negative, zero on identical predictions -/
theorem C07_mse_metric (f : ℝ → ℝ) (a b : List ℝ) :
    mseDist (fun n => (n : ℝ)) f a b = mseDist (fun n => (n : ℝ)) f b a ∧
    0 ≤ mseDist (fun n => (n : ℝ)) f a b ∧
    mseDist (fun n => (n : ℝ)) f a a = 0 :=
  ⟨mseDist_symm f a b, mseDist_nonneg f a b, mseDist_self f a⟩

/-- the assembled matrix of the real pipeline's shape: MSE between per-sample prediction vectors -/
theorem C07_assemble_mse (n k : Int) (hn : 0 ≤ n) (hk : 1 ≤ k) (f : ℝ → ℝ) (pred : Int → List ℝ)
    (cs : List Int) (hvalid : ∀ c ∈ cs, 0 ≤ c ∧ c < k) (hall : ∀ c, 0 ≤ c → c < k → c ∈ cs) :
    ∃ R : CDM ℝ,
      assemble n k (fun i j => mseDist (fun n => (n : ℝ)) f (pred i) (pred j)) cs = .ok R ∧
      ∀ i j, 0 ≤ i → i < n → 0 ≤ j → j < n →
        denseAt R.entries i j = mseDist (fun n => (n : ℝ)) f (pred i) (pred j) := by
  obtain ⟨R, h1, _, h3⟩ := C07_assemble_metric n k hn hk pred (mseDist (fun n => (n : ℝ)) f)
    (mseDist_symm f) (mseDist_self f) cs hvalid hall
  exact ⟨R, h1, h3⟩

/-! ## non-vacuity: the hypotheses are satisfiable and the statements have content -/

/-- n = 5 (10 pairs), k = 4: sizes 3,3,2,2 -/
example : (List.range 4).map (fun (c : Nat) => chunkPairs 5 (c : Int) 4) =
    [[(1, 0), (2, 0), (2, 1)], [(3, 0), (3, 1), (3, 2)], [(4, 0), (4, 1)], [(4, 2), (4, 3)]] := by decide

/-- more chunks than pairs: n = 3 (3 pairs), k = 5, the last two chunks are empty -/
example : (List.range 5).map (fun (c : Nat) => chunkPairs 3 (c : Int) 5) =
    [[(1, 0)], [(2, 0)], [(2, 1)], [], []] := by decide

/-- hypotheses of `C07_assemble` hold for a shuffled list with repeats, and the pipeline's value is the
    expected matrix (metric encodes the pair) -/
example : (∀ c ∈ [2, 0, 1, 2, 0], (0 : Int) ≤ c ∧ c < 3) ∧ (∀ c : Int, 0 ≤ c → c < 3 → c ∈ [2, 0, 1, 2, 0]) := by
  refine ⟨by decide, ?_⟩
  intro c h0 h1
  have : c = 0 ∨ c = 1 ∨ c = 2 := by omega
  rcases this with rfl | rfl | rfl <;> decide

example : (assemble 4 3 (fun i j => i * 10 + j) [2, 0, 1, 2, 0]).bind CDM.toDense =
    .ok [[0, 10, 20, 30], [10, 0, 21, 31], [20, 21, 0, 32], [30, 31, 32, 0]] := by decide

/-- `C07_pipeline_wellformed` on a proper subset with a repeat (n = 4, k = 3, chunks 2, 0, 2): not complete -/
example : (∀ c ∈ (2 : Int) :: [0, 2], (0 : Int) ≤ c ∧ c < 3) ∧
    ((assemble 4 3 (fun i j => i * 10 + j) [2, 0, 2]).toOption.map (fun R => (R.keys, R.isComplete))) =
      some ([(3, 1), (3, 2), (1, 0), (2, 0)], false) := by decide

/-- hypotheses of `C07_incomplete_refuses`: n = 4, k = 3, chunk 1 missing and non-empty -/
example : (∀ c ∈ [2, 0, 2], (0 : Int) ≤ c ∧ c < 3) ∧ (1 : Int) ∉ [2, 0, 2] ∧ chunkPairs 4 1 3 ≠ [] := by decide

example : (assemble 4 3 (fun i j => i * 10 + j) [2, 0, 2]).bind CDM.toDense = .error .valueError := by decide

/-- a metric instance for `C07_mse_metric`: a = [1,3], b = [2,5] without sigmoid gives (1 + 4)/2 -/
example : mseDist (fun n => (n : ℝ)) id [1, 3] [2, 5] = 5 / 2 := by
  simp [mseDist]; norm_num

end Batchie.Props.C07
