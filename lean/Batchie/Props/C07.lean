import Batchie.Model.Chunks
