/-
  C20 — evaluation metrics and synergy values equal their definitions.

  Theorems about `Batchie.Model.Metrics` (hand model of `models/main.py:15-142,272-342`,
  `data.py:148-228`, `synergy.py`, `retrospective.py:751-764`).  Every function is modelled the way
  the code computes it (flattened means, `mean(axis=1)`, boolean column masks, `np.var`,
  mask-then-`np.sort(...)[:, -1]`, append-and-compare-lengths loops) and is proved equal, for all
  inputs over every field, to the index-by-index definition the property states.
-/
import Batchie.Lemmas.MetricsSums

namespace Batchie.Props.C20
open Batchie.Metrics
open Batchie.Predict (sumL OfCount maskFilter sumL_eq_sum)

/-! ## 1. `ModelEvaluation` -/

section evaluation
variable {R : Type} [Field R]

/-- a well-formed evaluation: `E` experiments × `K` posterior samples (what the constructor checks) -/
structure Shape (preds : List (List R)) (obs : List R) (E K : Nat) : Prop where
  rows : preds.length = E
  obs : obs.length = E
  cols : ∀ r ∈ preds, r.length = K

private theorem isMat_se {preds : List (List R)} {obs : List R} {E K : Nat} (h : Shape preds obs E K) :
    IsMat (sqErr preds obs) E K (se preds obs) := by
  have hp := isMat_entry preds E K h.rows h.cols
  have ho : IsVec obs E (fun e => obs.getD e 0) := by rw [← h.obs]; exact isVec_self obs
  exact isMat_sqErr hp ho

/-- `mse()` -- the mean of the FLATTENED squared-error matrix -- is the mean squared error over all
    (experiment, posterior sample) pairs, and it is also the mean of the per-experiment MSEs. -/
theorem C20_mse (preds : List (List R)) (obs : List R) (E K : Nat) (h : Shape preds obs E K) :
    mse preds obs = mseDef E K preds obs
    ∧ mse preds obs = sumRange E (experimentMse K preds obs) / (E : R) := by
  have hm := (isMat_se h).meanAll
  constructor
  · simp only [mse, hm, mseDef, ofCount_eq]
  · have he : sumRange E (experimentMse K preds obs) = sumRange E (fun e => sumRange K (se preds obs e)) / (K : R) := by
      rw [← sumRange_div]; rfl
    rw [mse, hm, he, div_div, Nat.cast_mul, mul_comm]

/-- `mse_variance()`: `mean(axis=1)` reduces over the POSTERIOR SAMPLES, leaving one value per
    experiment (entry `e` is experiment `e`'s own MSE), and `np.var` of that vector is the population
    variance across experiments of the per-experiment MSE around the overall MSE. -/
theorem C20_mse_variance_axis (preds : List (List R)) (obs : List R) (E K : Nat) (h : Shape preds obs E K) :
    IsVec (meanAxis1 (sqErr preds obs)) E (experimentMse K preds obs)
    ∧ mseVariance preds obs = mseVarianceDef E K preds obs := by
  have hv : IsVec (meanAxis1 (sqErr preds obs)) E (experimentMse K preds obs) := by
    have := (isMat_se h).meanAxis1
    exact this.congr (fun e _ => by simp [experimentMse, ofCount_eq])
  refine ⟨hv, ?_⟩
  have hmu : sumRange E (experimentMse K preds obs) / (E : R) = mseDef E K preds obs := by
    rw [← (C20_mse preds obs E K h).2, (C20_mse preds obs E K h).1]
  simp only [mseVariance, hv.npVar, mseVarianceDef, hmu, ofCount_eq]

/-- `mean_predictions`: one value per experiment, the average over the posterior samples -/
theorem C20_mean_predictions (preds : List (List R)) (E K : Nat) (hE : preds.length = E)
    (hK : ∀ r ∈ preds, r.length = K) :
    meanPredictions preds = meanPredictionsDef E K preds := by
  have := (isMat_entry preds E K hE hK).meanAxis1
  rw [meanPredictions, this.eq_map]
  simp [meanPredictionsDef, ofCount_eq]

/-- the loop body of `inter_chain_mse_variance`: masking the columns with `chain_ids == c` and taking
    the flattened mean is the MSE over all experiments and exactly the samples of chain `c` -/
theorem C20_chain_mse (preds : List (List R)) (obs : List R) (chains : List Int) (E K : Nat)
    (h : Shape preds obs E K) (hc : chains.length = K) (c : Int) :
    chainMse preds obs chains c = chainMseDef E preds obs chains c := by
  have hp := isMat_entry preds E K h.rows h.cols
  have ho : IsVec obs E (fun e => obs.getD e 0) := by rw [← h.obs]; exact isVec_self obs
  have hsel : (chains.map (fun x => x == c)).length = K := by simp [hc]
  have hcols : (List.range K).filter (fun k => (chains.map (fun x => x == c)).getD k false) = chainCols chains c := by
    unfold chainCols
    rw [hc]
    apply List.filter_congr
    intro k hk
    have hk' : k < chains.length := by rw [hc]; simpa using hk
    simp [List.getD_eq_getElem?_getD, hk']
  have hm := (isMat_sqErr (isMat_selectCols hp _ hsel) ho).meanAll
  rw [hcols] at hm
  simp only [chainMse, hm, chainMseDef, ofCount_eq]
  congr 1
  apply sumRange_congr
  intro e _
  rw [sumL_map_eq_sumRange]
  rfl

/-- `inter_chain_mse_variance()` is the population variance of the per-chain MSEs, one per distinct
    chain label -- chains may have different lengths and labels need not be contiguous. -/
theorem C20_inter_chain (preds : List (List R)) (obs : List R) (chains : List Int) (E K : Nat)
    (h : Shape preds obs E K) (hc : chains.length = K) :
    interChainMseVariance preds obs chains = interChainDef E preds obs chains := by
  unfold interChainMseVariance interChainDef
  have : (uniqueSorted chains).map (chainMse preds obs chains) = (uniqueSorted chains).map (chainMseDef E preds obs chains) :=
    List.map_congr_left (fun c _ => C20_chain_mse preds obs chains E K h hc c)
  rw [this, (isVec_self _).npVar]
  simp only [varDef, ofCount_eq]

/-- a single chain: the inter-chain variance is `0` -/
theorem C20_inter_chain_single (preds : List (List R)) (obs : List R) (chains : List Int) (c : Int)
    (hne : chains ≠ []) (hall : ∀ x ∈ chains, x = c) :
    interChainMseVariance preds obs chains = 0 := by
  unfold interChainMseVariance
  rw [uniqueSorted_const chains c hne hall]
  simp [npVar, Metrics.mean, sumL, Metrics.sq, ofCount_eq]

end evaluation

/-- `Shape` is inhabited by a non-square instance with chains of unequal length, where the
    definitions separate: variance across experiments (axis 1) 64, the wrong axis would give 2114/9;
    chains {0,1},{2} give 3721/16, the grouping {0},{1,2} would give 625/4. -/
def exPreds : List (List Rat) := [[1, 2, 6], [0, 5, 7]]
def exObs : List Rat := [1, 0]
def exChains : List Int := [0, 0, 4]

example : Shape exPreds exObs 2 3 := ⟨rfl, rfl, by decide⟩
example : mse exPreds exObs = 50 / 3 ∧ mseVariance exPreds exObs = 64 / 1
    ∧ npVar (meanAxis0 (sqErr exPreds exObs)) = 2114 / 9
    ∧ npVar ([0, 4].map (chainMse exPreds exObs exChains)) = 3721 / 16
    ∧ npVar ([0, 4].map (chainMse exPreds exObs [0, 4, 4])) = 625 / 4 := by
  refine ⟨by decide +kernel, by decide +kernel, by decide +kernel, by decide +kernel, by decide +kernel⟩

end Batchie.Props.C20
