/-
  C20 — evaluation metrics and synergy values equal their definitions.

  Theorems about `Batchie.Model.Metrics` (hand model of `models/main.py:15-142,272-342`,
  `data.py:148-228`, `synergy.py`, `retrospective.py:751-764`).  Every function is modelled the way
  the code computes it (flattened means, `mean(axis=1)`, boolean column masks, `np.var`,
  mask-then-`np.sort(...)[:, -1]`, append-and-compare-lengths loops) and is proved equal, for all
  inputs over every field, to the index-by-index definition the property states.

  CLAUSE MAP (clause of the property text → theorem)
   1. overall MSE = mean squared error over all (experiment, posterior sample) pairs → C20_mse (hypothesis `Shape`, inhabited)
   2. its variance is across experiments of the per-experiment MSE → C20_mse_variance_axis
   3. inter-chain variance = variance of the per-chain MSEs → C20_chain_mse, C20_inter_chain, C20_inter_chain_single,
        C20_chain_labels (each occurring label once; a label's columns wherever they stand)
   4. mean predictions average over posterior samples → C20_mean_predictions
   5. an evaluation file reloads unchanged → C20_reload, C20_reload_metrics (model `saveEval`/`loadEval`, tied by `c20.reload`);
        harness-only: that h5py/HDF5/gzip return the numeric datasets and the S<w> bytes they were given (container fidelity)
   6. single-agent effect of (sample, treatment) = mean of that sample's single-agent observations of it (1 for control)
        → C20_single_effect_is_mean, C20_single_effect_array (hypothesis `Arrays`, inhabited)
   7. Bliss synergy = product of single-agent effects − observation; unmeasured combinations skipped / refused in strict mode
        → C20_synergy_bliss, C20_synergy_skip_or_refuse, C20_synergy_pair
        harness-only: packing of the reported rows into rectangular numpy arrays
   8. similarity matrix symmetric → C20_corr_symmetric; unit diagonal → C20_corr_unit_diagonal (any sqrt with sqrt·sqrt = id on the
        norm), C20_corr_unit_diagonal_real (ℝ; non-degeneracy hypothesis, inhabited; 0/0 = NaN at the excluded point)
   9. computed from average predictions over every unordered treatment combination of the experiment space, encoded with the
        screen's own ids → C20_corr_from_space, C20_space_complete, C20_space_refuses, C20_space_guard
        (the average predictions themselves: C09_avg_is_mean)
  10. (anchor `calculate_mse`) → C20_calculate_mse
   5b. several saves to one path: loading returns the LAST evaluation saved → C20_save_overwrites (every sequence of saves), C20_save_none
  harness-only for all clauses: IEEE rounding (tolerance), numpy summation order, pandas labelling of the matrix.
  Regression (not a clause):
   S7-C20 append mode + `require_dataset` keeps the old datasets: `savePathKeep` / `savesKeep` (Model/Metrics.lean); WITNESS
          `C20_save_keep_existing_counterexample` (two saves of equal shapes: the path loads the FIRST; `savesTo` loads the second).
   S6-C20 `mse()` as the unweighted mean of the per-chain MSEs: `mseChainMeans`; GENERAL `C20_mse_chain_means_one_chain` (one chain ⇒
          equal to `mse`); WITNESS `C20_mse_chain_means_counterexample` (chains of 2 and 1 samples: 87/4 ≠ 50/3).
   S5-C20 availability flag remembering only the last treatment of a row: `lastFlagStep` / `synergyStepLastFlag`; WITNESS
          `C20_synergy_last_flag_counterexample` (combination (5, 3) with 5 unmeasured is reported instead of skipped; (3, 5) is skipped).
-/
import Batchie.Lemmas.MetricsSynergy
import Batchie.Lemmas.PredictHolder
import Batchie.Lemmas.MetricsSpace
import Batchie.Lemmas.LifecycleCodec
import Mathlib.Analysis.Real.Sqrt

namespace Batchie.Props.C20
open Batchie.Metrics
open Batchie.Predict (sumL OfCount maskFilter sumL_eq_sum)

/-! ## 1. `ModelEvaluation` -/

section evaluation
variable {R : Type} [Field R]

/-- a well-formed evaluation: `E` experiments × `K` posterior samples (what the constructor checks) -/
structure Shape (preds : List (List R)) (obs : List R) (E K : Nat) : Prop where
  rows : preds.length = E
  obs : obs.length = E
  cols : ∀ r ∈ preds, r.length = K

private theorem isMat_se {preds : List (List R)} {obs : List R} {E K : Nat} (h : Shape preds obs E K) :
    IsMat (sqErr preds obs) E K (se preds obs) := by
  have hp := isMat_entry preds E K h.rows h.cols
  have ho : IsVec obs E (fun e => obs.getD e 0) := by rw [← h.obs]; exact isVec_self obs
  exact isMat_sqErr hp ho

/-- `mse()` -- the mean of the FLATTENED squared-error matrix -- is the mean squared error over all
    (experiment, posterior sample) pairs, and it is also the mean of the per-experiment MSEs. -/
theorem C20_mse (preds : List (List R)) (obs : List R) (E K : Nat) (h : Shape preds obs E K) :
    mse preds obs = mseDef E K preds obs
    ∧ mse preds obs = sumRange E (experimentMse K preds obs) / (E : R) := by
  have hm := (isMat_se h).meanAll
  constructor
  · simp only [mse, hm, mseDef, ofCount_eq]
  · have he : sumRange E (experimentMse K preds obs) = sumRange E (fun e => sumRange K (se preds obs e)) / (K : R) := by
      rw [← sumRange_div]; rfl
    rw [mse, hm, he, div_div, Nat.cast_mul, mul_comm]

/-- `mse_variance()`: `mean(axis=1)` reduces over the POSTERIOR SAMPLES, leaving one value per
    experiment (entry `e` is experiment `e`'s own MSE), and `np.var` of that vector is the population
    variance across experiments of the per-experiment MSE around the overall MSE. -/
theorem C20_mse_variance_axis (preds : List (List R)) (obs : List R) (E K : Nat) (h : Shape preds obs E K) :
    IsVec (meanAxis1 (sqErr preds obs)) E (experimentMse K preds obs)
    ∧ mseVariance preds obs = mseVarianceDef E K preds obs := by
  have hv : IsVec (meanAxis1 (sqErr preds obs)) E (experimentMse K preds obs) := by
    have := (isMat_se h).meanAxis1
    exact this.congr (fun e _ => by simp [experimentMse, ofCount_eq])
  refine ⟨hv, ?_⟩
  have hmu : sumRange E (experimentMse K preds obs) / (E : R) = mseDef E K preds obs := by
    rw [← (C20_mse preds obs E K h).2, (C20_mse preds obs E K h).1]
  simp only [mseVariance, hv.npVar, mseVarianceDef, hmu, ofCount_eq]

/-- `mean_predictions`: one value per experiment, the average over the posterior samples -/
theorem C20_mean_predictions (preds : List (List R)) (E K : Nat) (hE : preds.length = E)
    (hK : ∀ r ∈ preds, r.length = K) :
    meanPredictions preds = meanPredictionsDef E K preds := by
  have := (isMat_entry preds E K hE hK).meanAxis1
  rw [meanPredictions, this.eq_map]
  simp [meanPredictionsDef, ofCount_eq]

/-- the loop body of `inter_chain_mse_variance`: masking the columns with `chain_ids == c` and taking
    the flattened mean is the MSE over all experiments and exactly the samples of chain `c` -/
theorem C20_chain_mse (preds : List (List R)) (obs : List R) (chains : List Int) (E K : Nat)
    (h : Shape preds obs E K) (hc : chains.length = K) (c : Int) :
    chainMse preds obs chains c = chainMseDef E preds obs chains c := by
  have hp := isMat_entry preds E K h.rows h.cols
  have ho : IsVec obs E (fun e => obs.getD e 0) := by rw [← h.obs]; exact isVec_self obs
  have hsel : (chains.map (fun x => x == c)).length = K := by simp [hc]
  have hcols : (List.range K).filter (fun k => (chains.map (fun x => x == c)).getD k false) = chainCols chains c := by
    unfold chainCols
    rw [hc]
    apply List.filter_congr
    intro k hk
    have hk' : k < chains.length := by rw [hc]; simpa using hk
    simp [List.getD_eq_getElem?_getD, hk']
  have hm := (isMat_sqErr (isMat_selectCols hp _ hsel) ho).meanAll
  rw [hcols] at hm
  simp only [chainMse, hm, chainMseDef, ofCount_eq]
  congr 1
  apply sumRange_congr
  intro e _
  rw [sumL_map_eq_sumRange]
  rfl

/-- `inter_chain_mse_variance()` is the population variance of the per-chain MSEs, one per distinct
    chain label -- chains may have different lengths and labels need not be contiguous. -/
theorem C20_inter_chain (preds : List (List R)) (obs : List R) (chains : List Int) (E K : Nat)
    (h : Shape preds obs E K) (hc : chains.length = K) :
    interChainMseVariance preds obs chains = interChainDef E preds obs chains := by
  unfold interChainMseVariance interChainDef
  have : (uniqueSorted chains).map (chainMse preds obs chains) = (uniqueSorted chains).map (chainMseDef E preds obs chains) :=
    List.map_congr_left (fun c _ => C20_chain_mse preds obs chains E K h hc c)
  rw [this, (isVec_self _).npVar]
  simp only [varDef, ofCount_eq]

/-- a single chain: the inter-chain variance is `0` -/
theorem C20_inter_chain_single (preds : List (List R)) (obs : List R) (chains : List Int) (c : Int)
    (hne : chains ≠ []) (hall : ∀ x ∈ chains, x = c) :
    interChainMseVariance preds obs chains = 0 := by
  unfold interChainMseVariance
  rw [uniqueSorted_const chains c hne hall]
  simp [npVar, Metrics.mean, sumL, Metrics.sq, ofCount_eq]

end evaluation

private theorem nodup_eraseDups_int : ∀ (l : List Int), l.eraseDups.Nodup
  | [] => by simp
  | a :: as => by
    rw [List.eraseDups_cons]
    have ih := nodup_eraseDups_int (as.filter fun b => !b == a)
    rw [List.nodup_cons]
    refine ⟨?_, ih⟩
    simp [List.mem_eraseDups, List.mem_filter]
termination_by l => l.length
decreasing_by exact Nat.lt_succ_of_le (List.length_filter_le _ _)

/-- the chains the loop of `inter_chain_mse_variance` visits: every label that occurs, each exactly once
    (so the variance is over one MSE per chain, whatever the order, lengths or gaps of the labelling),
    and the columns averaged for label `c` are exactly the posterior samples labelled `c` -- wherever
    they stand in the matrix (interleaved, descending, shuffled labellings included). -/
theorem C20_chain_labels (chains : List Int) :
    (uniqueSorted chains).Nodup
    ∧ (∀ c, c ∈ uniqueSorted chains ↔ c ∈ chains)
    ∧ (∀ c k, k ∈ chainCols chains c ↔ k < chains.length ∧ chains.getD k 0 = c)
    ∧ (∀ k, k < chains.length → ∃ c ∈ uniqueSorted chains, k ∈ chainCols chains c) := by
  have hmem : ∀ c, c ∈ uniqueSorted chains ↔ c ∈ chains := fun c => mem_uniqueSorted chains c
  have hcols : ∀ c k, k ∈ chainCols chains c ↔ k < chains.length ∧ chains.getD k 0 = c := by
    intro c k
    simp [chainCols]
  refine ⟨?_, hmem, hcols, ?_⟩
  · unfold uniqueSorted
    exact (List.mergeSort_perm _ _).nodup_iff.mpr (nodup_eraseDups_int chains)
  · intro k hk
    refine ⟨chains.getD k 0, (hmem _).mpr ?_, (hcols _ k).mpr ⟨hk, rfl⟩⟩
    simp [List.getD_eq_getElem?_getD, hk]

/-- a labelling that is not sorted contiguous blocks: chain 0 = columns {0, 2}, chain 4 = column {1} -/
example : chainCols [0, 4, 0] 0 = [0, 2] ∧ chainCols [0, 4, 0] 4 = [1] := by
  refine ⟨by decide, by decide⟩


/-- `Shape` is inhabited by a non-square instance with chains of unequal length, where the
    definitions separate: variance across experiments (axis 1) 64, the wrong axis would give 2114/9;
    chains {0,1},{2} give 3721/16, the grouping {0},{1,2} would give 625/4. -/
def exPreds : List (List Rat) := [[1, 2, 6], [0, 5, 7]]
def exObs : List Rat := [1, 0]
def exChains : List Int := [0, 0, 4]

example : Shape exPreds exObs 2 3 := ⟨rfl, rfl, by decide⟩
example : mse exPreds exObs = 50 / 3 ∧ mseVariance exPreds exObs = 64 / 1
    ∧ npVar (meanAxis0 (sqErr exPreds exObs)) = 2114 / 9
    ∧ npVar ([0, 4].map (chainMse exPreds exObs exChains)) = 3721 / 16
    ∧ npVar ([0, 4].map (chainMse exPreds exObs [0, 4, 4])) = 625 / 4 := by
  refine ⟨by decide +kernel, by decide +kernel, by decide +kernel, by decide +kernel, by decide +kernel⟩

/-! ## 2. single-agent effects -/

section effects
open Batchie.Proto
variable {R : Type} [Field R]

/-- well-formed id arrays: one id row (of `arity ≥ 2` cells, every id `≥ -1`) and one observation per
    experiment -/
structure Arrays (arity : Nat) (sids : List Int) (tids : List (List Int)) (obs : List R) : Prop where
  ar : 2 ≤ arity
  ntids : tids.length = sids.length
  nobs : obs.length = sids.length
  width : ∀ r ∈ tids, r.length = arity
  ids : ∀ r ∈ tids, ∀ t ∈ r, -1 ≤ t

/-- `create_single_treatment_effect_map` succeeds, and the entry under `(s, t)` is: nothing unless
    `s` is a sample and `t` a treatment id of the arrays; `1` for the control; otherwise the MEAN of
    sample `s`'s observations in which `t` is the only non-control treatment -- in whichever column
    `t` stands, over all repeated measurements --, and no entry if there is no such observation. -/
theorem C20_single_effect_is_mean (arity : Nat) (sids : List Int) (tids : List (List Int)) (obs : List R)
    (h : Arrays arity sids tids obs) :
    ∃ m, singleEffectMap arity sids tids obs = .ok m
      ∧ ∀ s t, m.lookup (s, t)
          = if s ∈ sids ∧ t ∈ tids.flatten then singleEffectDef sids tids obs s t else none := by
  refine ⟨_, singleEffectMap_eq arity h.ar sids tids obs, ?_⟩
  intro s t
  rw [lookup_double_loop, effectCell_eq_def arity h.ar sids tids obs h.ntids h.nobs h.width h.ids]
  simp only [mem_uniqueSorted]

/-- `create_single_treatment_effect_array`: cell `(i, j)` is the table entry of
    `(sample_ids[i], treatment_ids[i][j])`; the call fails (KeyError) iff some cell has none -/
theorem C20_single_effect_array (arity : Nat) (sids : List Int) (tids : List (List Int)) (obs : List R)
    (h : Arrays arity sids tids obs) (A : List (List R)) (hA : singleEffectArray arity sids tids obs = .ok A) :
    A.length = sids.length ∧ ∀ i j, i < sids.length → j < arity →
      singleEffectDef sids tids obs (sids.getD i 0) ((tids.getD i []).getD j 0) = some ((A.getD i []).getD j 0) := by
  obtain ⟨m, hm, hlook⟩ := C20_single_effect_is_mean arity sids tids obs h
  unfold singleEffectArray at hA
  simp only [hm, bind, Except.bind] at hA
  have hlen := Batchie.Predict.exMapM_length _ _ _ hA
  have hz : (List.zip sids tids).length = sids.length := by simp [h.ntids]
  refine ⟨by rw [hlen, hz], ?_⟩
  intro i j hi hj
  have hi' : i < (List.zip sids tids).length := by rw [hz]; exact hi
  obtain ⟨hy, e⟩ := Batchie.Predict.exMapM_getElem _ _ _ hA i hi'
  have hti : i < tids.length := by rw [h.ntids]; exact hi
  have hrow : (tids[i]).length = arity := h.width _ (List.getElem_mem _)
  simp only [List.getElem_zip] at e
  have hj' : j < (tids[i]).length := by rw [hrow]; exact hj
  obtain ⟨hy2, e2⟩ := Batchie.Predict.exMapM_getElem _ _ _ e j hj'
  have hs : sids.getD i 0 = sids[i] := by simp [List.getD_eq_getElem?_getD, hi]
  have ht : (tids.getD i []).getD j 0 = (tids[i])[j] := by simp [List.getD_eq_getElem?_getD, hti, hj']
  have hA2 : (A.getD i []).getD j 0 = (A[i])[j] := by simp [List.getD_eq_getElem?_getD, hy, hy2]
  rw [hs, ht, hA2]
  have hl := hlook sids[i] (tids[i])[j]
  have hmem : sids[i] ∈ sids ∧ (tids[i])[j] ∈ tids.flatten :=
    ⟨List.getElem_mem _, List.mem_flatten.mpr ⟨tids[i], List.getElem_mem _, List.getElem_mem _⟩⟩
  rw [if_pos hmem] at hl
  rw [← hl]
  cases hk : m.lookup (sids[i], (tids[i])[j]) with
  | none => simp [hk] at e2
  | some v =>
    simp only [hk, Except.ok.injEq] at e2
    rw [e2]

end effects

/-- `Arrays` is inhabited by an instance with a repeated single-agent measurement (0.2, 0.6 → mean 0.4,
    not the last 0.6), the agent once in column 1 and once in column 0, and an unmeasured agent -/
def exS : List Int := [0, 0, 0, 0]
def exT : List (List Int) := [[-1, 3], [3, -1], [3, 5], [5, 5]]
def exO : List Rat := [1/5, 3/5, 1/2, 1/4]

example : Arrays 2 exS exT exO := ⟨by decide, rfl, rfl, by decide, by decide⟩
example : singleEffectDef exS exT exO 0 3 = some (2/5) ∧ singleEffectDef exS exT exO 0 5 = none
    ∧ singleEffectDef exS exT exO 0 (-1) = some 1 := by
  refine ⟨by decide +kernel, by decide +kernel, by decide +kernel⟩

/-! ## 3. Bliss synergy -/

section synergy
open Batchie.Proto
variable {R : Type} [Field R]

/-- the single-agent effect table of the arrays, as a function -/
def effects (sids : List Int) (tids : List (List Int)) (obs : List R) : Int → Int → Option R :=
  singleEffectDef sids tids obs

private theorem all_congr_mem {A : Type} (l : List A) (p q : A → Bool) (h : ∀ a ∈ l, p a = q a) :
    l.all p = l.all q := by
  induction l with
  | nil => rfl
  | cons a l ih =>
    simp only [List.all_cons]
    rw [h a (by simp), ih (fun b hb => h b (by simp [hb]))]

private theorem multi_rows_eq (arity : Nat) (sids : List Int) (tids : List (List Int)) (obs : List R)
    (h : Arrays arity sids tids obs) :
    List.zip (maskFilter sids (tids.map (fun r => !(isSingle arity r))))
      (List.zip (maskFilter tids (tids.map (fun r => !(isSingle arity r)))) (maskFilter obs (tids.map (fun r => !(isSingle arity r)))))
      = multiRows arity sids tids obs := by
  have hs : sids = (List.zip sids (List.zip tids obs)).map (·.1) := by
    rw [List.map_fst_zip]; simp [h.ntids, h.nobs]
  have ht : tids = (List.zip sids (List.zip tids obs)).map (·.2.1) := by
    have : (List.zip sids (List.zip tids obs)).map (·.2.1) = ((List.zip sids (List.zip tids obs)).map (·.2)).map (·.1) := by simp
    rw [this, List.map_snd_zip (by simp [h.ntids, h.nobs]), List.map_fst_zip (by simp [h.ntids, h.nobs])]
  have ho : obs = (List.zip sids (List.zip tids obs)).map (·.2.2) := by
    have : (List.zip sids (List.zip tids obs)).map (·.2.2) = ((List.zip sids (List.zip tids obs)).map (·.2)).map (·.2) := by simp
    rw [this, List.map_snd_zip (by simp [h.ntids, h.nobs]), List.map_snd_zip (by simp [h.ntids, h.nobs])]
  have hmask : tids.map (fun r => !(isSingle arity r))
      = (List.zip sids (List.zip tids obs)).map (fun r => !(isSingle arity r.2.1)) := by
    conv_lhs => rw [ht]
    simp
  have := zip3_maskFilter (List.zip sids (List.zip tids obs)) (fun r => !(isSingle arity r.2.1))
  rw [← hmask, ← hs, ← ht, ← ho] at this
  exact this

private theorem step_eq_bliss (arity : Nat) (sids : List Int) (tids : List (List Int)) (obs : List R)
    (_h : Arrays arity sids tids obs) (m : List ((Int × Int) × R))
    (hlook : ∀ s t, m.lookup (s, t) = if s ∈ sids ∧ t ∈ tids.flatten then singleEffectDef sids tids obs s t else none)
    (r : Int × List Int × R) (hr : r ∈ multiRows arity sids tids obs) :
    stepLookup m r = blissDef (effects sids tids obs) r := by
  have hz : r ∈ List.zip sids (List.zip tids obs) := (List.mem_filter.mp hr).1
  have hs : r.1 ∈ sids := (List.of_mem_zip hz).1
  have ht : r.2.1 ∈ tids := (List.of_mem_zip (List.of_mem_zip hz).2).1
  have hE : ∀ t ∈ r.2.1.filter (fun t => t != -1), m.lookup (r.1, t) = effects sids tids obs r.1 t := by
    intro t htm
    have : t ∈ tids.flatten := List.mem_flatten.mpr ⟨r.2.1, ht, (List.mem_filter.mp htm).1⟩
    rw [hlook, if_pos ⟨hs, this⟩]; rfl
  unfold stepLookup blissDef
  have e1 : (r.2.1.filter (fun t => t != -1)).all (fun t => (m.lookup (r.1, t)).isSome)
      = (r.2.1.filter (fun t => t != -1)).all (fun t => (effects sids tids obs r.1 t).isSome) := by
    apply all_congr_mem
    intro t ht; rw [hE t ht]
  have e2 : (r.2.1.filter (fun t => t != -1)).map (fun t => (m.lookup (r.1, t)).getD 1)
      = (r.2.1.filter (fun t => t != -1)).map (fun t => (effects sids tids obs r.1 t).getD 1) := by
    apply List.map_congr_left
    intro t ht; rw [hE t ht]
  simp only [e1, e2]

/-- `calculate_synergy(strict=False)` never refuses well-formed arrays and reports, for the rows
    that are not single-agent measurements, in order, exactly those whose non-control treatments ALL
    have a single-agent effect, with value `(product of those effects) − observation`; the others are
    skipped. -/
theorem C20_synergy_bliss (arity : Nat) (sids : List Int) (tids : List (List Int)) (obs : List R)
    (h : Arrays arity sids tids obs) :
    synergy arity sids tids obs false
      = .ok ((multiRows arity sids tids obs).filterMap (blissDef (effects sids tids obs))) := by
  obtain ⟨m, hm, hlook⟩ := C20_single_effect_is_mean arity sids tids obs h
  unfold synergy
  rw [if_neg (by have := h.ar; omega), if_neg (by simp [h.ntids]), if_neg (by simp [h.nobs])]
  simp only [hm, bind, Except.bind]
  rw [multi_rows_eq arity sids tids obs h, outer_lenient]
  simp only [List.nil_append]
  congr 1
  apply List.filterMap_congr
  intro r hr
  exact step_eq_bliss arity sids tids obs h m hlook r hr

/-- `strict=True` refuses (ValueError) exactly when the lenient call would skip a combination, and
    otherwise returns the same list. -/
theorem C20_synergy_skip_or_refuse (arity : Nat) (sids : List Int) (tids : List (List Int)) (obs : List R)
    (h : Arrays arity sids tids obs) :
    synergy arity sids tids obs true
      = if (multiRows arity sids tids obs).all (fun r => (blissDef (effects sids tids obs) r).isSome)
        then synergy arity sids tids obs false else .error .valueError := by
  rw [C20_synergy_bliss arity sids tids obs h]
  obtain ⟨m, hm, hlook⟩ := C20_single_effect_is_mean arity sids tids obs h
  unfold synergy
  rw [if_neg (by have := h.ar; omega), if_neg (by simp [h.ntids]), if_neg (by simp [h.nobs])]
  simp only [hm, bind, Except.bind]
  rw [multi_rows_eq arity sids tids obs h, outer_strict]
  simp only [List.nil_append]
  have e1 : (multiRows arity sids tids obs).all (fun r => (stepLookup m r).isSome)
      = (multiRows arity sids tids obs).all (fun r => (blissDef (effects sids tids obs) r).isSome) := by
    apply all_congr_mem
    intro r hr; rw [step_eq_bliss arity sids tids obs h m hlook r hr]
  have e2 : (multiRows arity sids tids obs).filterMap (stepLookup m)
      = (multiRows arity sids tids obs).filterMap (blissDef (effects sids tids obs)) := by
    apply List.filterMap_congr
    intro r hr; exact step_eq_bliss arity sids tids obs h m hlook r hr
  rw [e1, e2]

/-- the textbook shape for a pair: both agents measured ⇒ `E(s,a) · E(s,b) − y` -/
theorem C20_synergy_pair (E : Int → Int → Option R) (s a b : Int) (y x1 x2 : R) (ha : a ≠ -1) (hb : b ≠ -1)
    (h1 : E s a = some x1) (h2 : E s b = some x2) :
    blissDef E (s, [a, b], y) = some (s, [a, b], x1 * x2 - y) := by
  simp [blissDef, prodL, ha, hb, h1, h2]

end synergy

example : (multiRows 2 exS exT exO).filterMap (blissDef (effects exS exT exO)) = [] ∧
    (multiRows 2 [0, 0, 0] [[-1, 3], [3, -1], [3, 3]] [1/5, 3/5, (1/2 : Rat)]).filterMap
      (blissDef (effects [0, 0, 0] [[-1, 3], [3, -1], [3, 3]] [1/5, 3/5, (1/2 : Rat)])) = [(0, [3, 3], -17/50)] := by
  refine ⟨by decide +kernel, by decide +kernel⟩

/-! ## 4. the full combinatoric space -/

section space
open Batchie.Proto Batchie.Predict

/-- `generate_full_combinatoric_space`, for a treatment mapping given as its list of rows `rows` with
    id column `idOf`: when it returns, the id rows of the artificial screen are the images under the
    screen's OWN mapping of the combinations of mapping rows; every `arity`-element combination of
    distinct mapping rows (a sub-sequence of the mapping) occurs, nothing else occurs, there are
    `C(n, arity)` of them, none twice; and every row carries the requested sample id. -/
theorem C20_space_complete {ρ : Type} (rows : List ρ) (idOf : ρ → Int) (hnd : rows.Nodup) (arity : Nat)
    (smapIds : List Int) (sid : Int) (sc : PScreen)
    (h : fullSpace arity (rows.map idOf) smapIds sid = .ok sc) :
    sc.arity = arity
    ∧ sc.tids = (combos arity rows).map (List.map idOf)
    ∧ (∀ c : List ρ, c ∈ combos arity rows ↔ c.Sublist rows ∧ c.length = arity)
    ∧ (combos arity rows).Nodup
    ∧ (combos arity rows).length = Nat.choose rows.length arity
    ∧ sc.sids = List.replicate (Nat.choose rows.length arity) sid
    ∧ sid ∈ smapIds := by
  unfold fullSpace at h
  rw [List.length_map] at h
  cases hc : combinationCount rows.length arity with
  | error e => simp [hc, bind, Except.bind] at h
  | ok cnt =>
    simp only [hc, bind, Except.bind] at h
    split at h
    · cases h
    · split at h
      · cases h
      · rename_i hs
        simp only [Except.ok.injEq] at h
        subst h
        have hlen : (combos arity (rows.map idOf)).length = Nat.choose rows.length arity := by
          rw [length_combos]; simp
        refine ⟨rfl, combos_map idOf arity rows, fun c => mem_combos arity rows c, nodup_combos arity rows hnd,
          length_combos arity rows, by simp [hlen], ?_⟩
        simpa using hs

/-- it refuses exactly: more treatments per experiment than mapping rows (`math.factorial` of a
    negative number), more than 10^7 combinations, or a sample id outside the sample mapping -/
theorem C20_space_refuses (tmapIds smapIds : List Int) (arity : Nat) (sid : Int) :
    (∃ sc, fullSpace arity tmapIds smapIds sid = .ok sc)
      ↔ arity ≤ tmapIds.length ∧ Nat.choose tmapIds.length arity ≤ 10000000 ∧ sid ∈ smapIds := by
  unfold fullSpace
  by_cases hk : arity ≤ tmapIds.length
  · rw [combinationCount_eq _ _ hk]
    simp only [bind, Except.bind]
    by_cases h1 : Nat.choose tmapIds.length arity > 10000000
    · rw [if_pos h1]
      constructor
      · rintro ⟨sc, h⟩; cases h
      · rintro ⟨_, h, _⟩; omega
    · rw [if_neg h1]
      by_cases h2 : smapIds.contains sid = true
      · have hm : sid ∈ smapIds := by simpa using h2
        rw [if_neg (by simp [hm])]
        exact ⟨fun _ => ⟨hk, by omega, hm⟩, fun _ => ⟨_, rfl⟩⟩
      · have hm : sid ∉ smapIds := by simpa using h2
        rw [if_pos (by simp [hm])]
        constructor
        · rintro ⟨sc, h⟩; cases h
        · rintro ⟨_, _, h⟩; exact absurd h hm
  · have : combinationCount tmapIds.length arity = .error .valueError := by
      simp [combinationCount, Nat.lt_of_not_le hk]
    rw [this]
    simp only [bind, Except.bind]
    constructor
    · rintro ⟨sc, h⟩; cases h
    · rintro ⟨h, _⟩; exact absurd h hk

/-- the guard the driver evaluates for spaces too large to enumerate is exactly `fullSpace`'s own -/
theorem C20_space_guard (tmapIds smapIds : List Int) (arity : Nat) (sid : Int) :
    fullSpaceGuard arity tmapIds.length smapIds sid = (fullSpace arity tmapIds smapIds sid).map (fun _ => ()) := by
  unfold fullSpaceGuard fullSpace
  cases combinationCount tmapIds.length arity with
  | error e => rfl
  | ok cnt =>
    simp only [bind, Except.bind]
    split
    · rfl
    · split <;> rfl

/-- the budget boundary for pairs: 4472 mapping rows are within 10^7 combinations, 4473 are not -/
example : Nat.choose 4472 2 ≤ 10000000 ∧ ¬ Nat.choose 4473 2 ≤ 10000000 := by
  rw [Nat.choose_two_right, Nat.choose_two_right]; decide

end space

example : (fullSpace 2 [-1, 0, 1] [0, 1] 1).toOption.map (fun sc => (sc.arity, sc.sids, sc.tids))
    = some (2, [1, 1, 1], [[-1, 0], [-1, 1], [0, 1]]) := by
  decide

/-! ## 5. the between-sample similarity matrix -/

section corr
variable {R : Type} [Field R]

private theorem dot_comm (a b : List R) : dot a b = dot b a := by
  unfold dot
  rw [List.zipWith_comm]
  congr 2
  funext x y
  exact mul_comm y x

private theorem entry_gram (X : List (List R)) (i j : Nat) (hi : i < X.length) (hj : j < X.length) :
    entry (gram X) i j = dot X[i] X[j] := by
  simp [entry, gram, List.getD_eq_getElem?_getD, hi, hj]

private theorem entry_gram_out (X : List (List R)) (i j : Nat) (h : ¬ (i < X.length ∧ j < X.length)) :
    entry (gram X) i j = 0 := by
  by_cases hi : i < X.length
  · have hj : ¬ j < X.length := fun hj => h ⟨hi, hj⟩
    simp [entry, gram, List.getD_eq_getElem?_getD, hi, hj]
  · simp [entry, gram, List.getD_eq_getElem?_getD, hi]

variable [Sqrt R]

/-- the similarity matrix is symmetric (every entry, whatever `sqrt` is) -/
theorem C20_corr_symmetric (P : List (List R)) (i j : Nat) :
    entry (corrOfPredictions P) i j = entry (corrOfPredictions P) j i := by
  unfold corrOfPredictions
  generalize normalizeRows (center P) = X
  by_cases h : i < X.length ∧ j < X.length
  · rw [entry_gram X i j h.1 h.2, entry_gram X j i h.2 h.1, dot_comm]
  · rw [entry_gram_out X i j h, entry_gram_out X j i (fun h' => h ⟨h'.2, h'.1⟩)]

omit [Sqrt R] in
private theorem sumL_map_div_sq (r : List R) (c : R) :
    sumL (List.zipWith (· * ·) (r.map (· / c)) (r.map (· / c))) = sumL (r.map Metrics.sq) / (c * c) := by
  induction r with
  | nil => simp [sumL]
  | cons a r ih =>
    simp only [List.map_cons, List.zipWith_cons_cons, Batchie.Predict.sumL_cons, ih, Metrics.sq]
    rw [add_div, div_mul_div_comm]

/-- Unit diagonal, for any `sqrt` that squares back on sample `i`'s squared norm `s`, under the
    explicit non-degeneracy hypothesis `s ≠ 0` (the centred prediction vector of sample `i` is not
    zero; at the excluded point the code divides 0 by 0 and reports NaN). -/
theorem C20_corr_unit_diagonal (P : List (List R)) (i : Nat) (hi : i < P.length)
    (hsq : Sqrt.sqrt (sumL (((center P).getD i []).map Metrics.sq)) * Sqrt.sqrt (sumL (((center P).getD i []).map Metrics.sq))
            = sumL (((center P).getD i []).map Metrics.sq))
    (hne : sumL (((center P).getD i []).map Metrics.sq) ≠ 0) :
    entry (corrOfPredictions P) i i = 1 := by
  unfold corrOfPredictions
  have hc : (center P).length = P.length := by simp [center]
  have hi' : i < (center P).length := by rw [hc]; exact hi
  have hn : i < (normalizeRows (center P)).length := by simp [normalizeRows, hi']
  rw [entry_gram _ i i hn hn]
  have hrow : (normalizeRows (center P))[i]
      = ((center P)[i]).map (· / Sqrt.sqrt (sumL (((center P)[i]).map Metrics.sq))) := by
    simp [normalizeRows]
  have hg : (center P).getD i [] = (center P)[i] := by simp [List.getD_eq_getElem?_getD, hi']
  rw [hg] at hsq hne
  rw [hrow, dot, sumL_map_div_sq, hsq]
  exact div_self hne

end corr

/-- `correlation_matrix` is that similarity matrix of the stacked AVERAGE viability predictions, one
    row per sample id present in the screen (ascending), each computed on the full combinatoric space
    of that sample (section 4) -/
theorem C20_corr_from_space {R Θ : Type} [Field R] [Sqrt R] (nan : R → Bool)
    (viab : Θ → Batchie.Predict.PScreen → Except Batchie.Proto.Err (List R)) (declared : Nat) (thetas : List Θ)
    (arity : Nat) (tmapIds smapIds screenSids : List Int) (M : List (List R))
    (h : correlationMatrix nan viab declared thetas arity tmapIds smapIds screenSids = .ok M) :
    ∃ preds, M = corrOfPredictions preds ∧ preds.length = (uniqueSorted screenSids).length
      ∧ ∀ i, i < preds.length → ∃ space,
          fullSpace arity tmapIds smapIds ((uniqueSorted screenSids).getD i 0) = .ok space
          ∧ Batchie.Predict.predictAvg nan (fun θ => viab θ space) space.size declared thetas = .ok (preds.getD i []) := by
  unfold correlationMatrix at h
  cases hp : (uniqueSorted screenSids).mapM (samplePrediction nan viab declared thetas arity tmapIds smapIds) with
  | error e => rw [hp] at h; cases h
  | ok preds =>
    rw [hp] at h
    simp only [bind, Except.bind, pure, Except.pure] at h
    split at h
    · cases h
    · simp only [Except.ok.injEq] at h
      have hlen := Batchie.Predict.exMapM_length _ _ _ hp
      refine ⟨preds, h.symm, hlen, ?_⟩
      intro i hi
      obtain ⟨hy, e⟩ := Batchie.Predict.exMapM_getElem _ _ _ hp i (by rw [← hlen]; exact hi)
      have hg : (uniqueSorted screenSids).getD i 0 = (uniqueSorted screenSids)[i]'(by rw [← hlen]; exact hi) := by
        simp [List.getD_eq_getElem?_getD, ← hlen, hi]
      have hp2 : preds.getD i [] = preds[i] := by simp [List.getD_eq_getElem?_getD, hi]
      rw [hg, hp2]
      unfold samplePrediction at e
      cases hs : fullSpace arity tmapIds smapIds ((uniqueSorted screenSids)[i]'(by rw [← hlen]; exact hi)) with
      | error e' => rw [hs] at e; cases e
      | ok space =>
        rw [hs] at e
        exact ⟨space, rfl, e⟩

/-- over the reals with the real square root only non-degeneracy is needed -/
noncomputable instance realSqrt : Sqrt ℝ := ⟨Real.sqrt⟩

theorem C20_corr_unit_diagonal_real (P : List (List ℝ)) (i : Nat) (hi : i < P.length)
    (hne : sumL (((center P).getD i []).map Metrics.sq) ≠ 0) :
    entry (corrOfPredictions P) i i = 1 := by
  apply C20_corr_unit_diagonal P i hi _ hne
  apply Real.mul_self_sqrt
  rw [sumL_eq_sum]
  apply List.sum_nonneg
  intro x hx
  obtain ⟨y, _, rfl⟩ := List.mem_map.mp hx
  exact mul_self_nonneg y

/-- the non-degeneracy hypothesis is satisfiable (two samples, two combinations) -/
example : sumL (((center ([[1, 2], [3, 0]] : List (List Rat))).getD 0 []).map Metrics.sq) = 2 := by decide +kernel


/-! ## 6. `retrospective.calculate_mse` -/

/-- `calculate_mse`: `np.mean((avg_predictions - observations) ** 2)` is the mean over the experiments
    of the squared difference between the AVERAGED prediction and the observation (the averaged
    prediction itself is `predictAvg`, characterised by `C09_avg_is_mean`). -/
theorem C20_calculate_mse {R : Type} [Field R] (avg obs : List R) (n : Nat) (ha : avg.length = n) (ho : obs.length = n) :
    calculateMse avg obs = sumRange n (fun i => Metrics.sq (avg.getD i 0 - obs.getD i 0)) / (n : R) := by
  have hv : IsVec (List.zipWith (fun p o => Metrics.sq (p - o)) avg obs) n
      (fun i => Metrics.sq (avg.getD i 0 - obs.getD i 0)) := by
    refine ⟨by simp [ha, ho], ?_⟩
    intro i hi
    have h1 : i < avg.length := by rw [ha]; exact hi
    have h2 : i < obs.length := by rw [ho]; exact hi
    simp [List.getD_eq_getElem?_getD, h1, h2]
  simp only [calculateMse, hv.mean]

example : calculateMse ([1, 3] : List Rat) [0, 1] = 5 / 2 := by decide +kernel


/-! ## 7. the evaluation file reloads unchanged -/

section reload
open Batchie.Proto Batchie.Persist Batchie.Lifecycle

/-- `ModelEvaluation.load_h5 (save_h5 ev)` is `ev`: for every evaluation the constructor accepts
    (`shapeOk`), with at least one experiment (an EMPTY `sample_names` dataset comes back as float64
    and `np.char.decode` refuses it -- the model says TypeError there, see `Model/Persist.lean`) and
    names numpy can store (`NameOK`: Unicode scalar values, not ending in U+0000).  The three numeric
    arrays are carried unchanged, the names survive UTF-8 encoding, zero padding to the common width
    and stripping, and the constructor's checks pass again; hence every metric of the reloaded
    evaluation is the metric of the original one. -/
theorem C20_reload {α : Type} (r : EvalRec α) (hs : r.shapeOk = true) (hne : r.names ≠ [])
    (hn : ∀ n ∈ r.names, NameOK n) :
    loadEval (saveEval r) = .ok r := by
  unfold loadEval saveEval
  simp only [decodeTable_encodeTable r.names hne hn, bind, Except.bind]
  have : (({ K := r.K, preds := r.preds, obs := r.obs, chains := r.chains, names := r.names } : EvalRec α)) = r := by
    cases r; rfl
  rw [this, if_pos hs]

/-- ... so the reloaded evaluation reports the same metrics (all four) -/
theorem C20_reload_metrics {α : Type} [Add α] [Sub α] [Mul α] [Div α] [OfNat α 0] [OfCount α]
    (r r' : EvalRec α) (hs : r.shapeOk = true) (hne : r.names ≠ []) (hn : ∀ n ∈ r.names, NameOK n)
    (h : loadEval (saveEval r) = .ok r') :
    mse r'.preds r'.obs = mse r.preds r.obs ∧ mseVariance r'.preds r'.obs = mseVariance r.preds r.obs
    ∧ interChainMseVariance r'.preds r'.obs r'.chains = interChainMseVariance r.preds r.obs r.chains
    ∧ meanPredictions r'.preds = meanPredictions r.preds := by
  rw [C20_reload r hs hne hn] at h
  cases h
  exact ⟨rfl, rfl, rfl, rfl⟩

/-- the hypotheses are satisfiable: two experiments, three samples, a non-ASCII and a long-ish name -/
example : (⟨3, [[1, 2, 3], [4, 5, 6]], [0, 1], [0, 0, 7], [[233, 97], [115, 49, 48]]⟩ : EvalRec Int).shapeOk = true
    ∧ ∀ n ∈ [[233, 97], [115, 49, 48]], NameOK n := by decide

end reload


/-! ## 8. one path, several saves (S7-C20) -/

section saves
open Batchie.Proto Batchie.Persist Batchie.Lifecycle

private theorem savesTo_append {α : Type} (p : Option (EvalFile α)) (rs : List (EvalRec α)) (r : EvalRec α) :
    savesTo p (rs ++ [r]) = some (saveEval r) := by
  simp [savesTo, List.foldl_append, savePath]

/-- For EVERY sequence of saves to one path (whatever the path held before, whatever was saved in
    between, whatever their shapes), loading returns the LAST evaluation saved -- `save_h5` truncates.
    (Induction over the list of saves is `List.foldl_append`.) -/
theorem C20_save_overwrites {α : Type} (p : Option (EvalFile α)) (rs : List (EvalRec α)) (r : EvalRec α)
    (hs : r.shapeOk = true) (hne : r.names ≠ []) (hn : ∀ n ∈ r.names, NameOK n) :
    loadPath (savesTo p (rs ++ [r])) = .ok r := by
  rw [savesTo_append]
  exact C20_reload r hs hne hn

/-- and a path nothing was saved to keeps what it held -/
theorem C20_save_none {α : Type} (p : Option (EvalFile α)) : savesTo p [] = p := rfl

def exR1 : EvalRec Int := ⟨2, [[1, 2]], [0], [0, 0], [[97]]⟩
def exR2 : EvalRec Int := ⟨2, [[7, 9]], [5], [0, 1], [[98]]⟩

/-- Regression S7-C20 (append mode + `require_dataset`): a second save of an evaluation with the
    SAME dataset shapes leaves the first one in the file, silently -- the path then loads the FIRST
    evaluation, not the last; the real definition (`savesTo`) loads the second. -/
theorem C20_save_keep_existing_counterexample :
    (saveEval exR1).sameLayout (saveEval exR2) = true
    ∧ loadPath (savesKeep none [exR1, exR2]) = .ok exR1
    ∧ loadPath (savesTo none [exR1, exR2]) = .ok exR2
    ∧ exR1.preds ≠ exR2.preds := by
  have h1 : exR1.shapeOk = true ∧ exR1.names ≠ [] ∧ ∀ n ∈ exR1.names, NameOK n := by decide
  have h2 : exR2.shapeOk = true ∧ exR2.names ≠ [] ∧ ∀ n ∈ exR2.names, NameOK n := by decide
  refine ⟨by decide, ?_, ?_, by decide⟩
  · show loadPath (some (saveEval exR1)) = _
    exact C20_reload exR1 h1.1 h1.2.1 h1.2.2
  · exact C20_save_overwrites none [exR1] exR2 h2.1 h2.2.1 h2.2.2

end saves

/-! ## 9. Regressions S5-C20 and S6-C20 (not clauses) -/

section regress
variable {R : Type} [Field R]

private theorem maskFilter_all_true {β : Type} (r : List β) (m : List Bool) (hl : m.length = r.length) (hm : ∀ b ∈ m, b = true) :
    maskFilter r m = r := by
  induction r generalizing m with
  | nil => cases m <;> rfl
  | cons a r ih =>
    cases m with
    | nil => simp at hl
    | cons b m =>
      have hb : b = true := hm b (by simp)
      subst hb
      simp only [maskFilter, if_true]
      rw [ih m (by simpa using hl) (fun c hc => hm c (by simp [hc]))]

/-- GENERAL (S6-C20): with ONE chain the mean of the per-chain MSEs is the overall MSE -- which is why
    the seeded rewrite of `mse()` passes every single-chain evaluation -/
theorem C20_mse_chain_means_one_chain (preds : List (List R)) (obs : List R) (chains : List Int) (c : Int)
    (hall : ∀ x ∈ chains, x = c) (hK : ∀ r ∈ preds, r.length = chains.length) :
    mseChainMeans preds obs chains [c] = mse preds obs := by
  have hsel : selectCols preds (chains.map (fun x => x == c)) = preds := by
    unfold selectCols
    conv_rhs => rw [← List.map_id preds]
    apply List.map_congr_left
    intro r hr
    apply maskFilter_all_true
    · simp [hK r hr]
    · intro b hb
      obtain ⟨x, hx, rfl⟩ := List.mem_map.mp hb
      simp [hall x hx]
  simp [mseChainMeans, chainMse, hsel, mse, Metrics.mean, sumL, ofCount_eq]

end regress

/-- Regression S6-C20: chains of unequal length ({0,1} and {2}): the mean of the chain MSEs is 87/4, the
    mean squared error over all (experiment, posterior sample) pairs is 50/3 (`C20_mse`) -/
theorem C20_mse_chain_means_counterexample :
    mseChainMeans exPreds exObs exChains [0, 4] = 87 / 4 ∧ mse exPreds exObs = 50 / 3 := by
  refine ⟨by decide +kernel, by decide +kernel⟩

/-- Regression S5-C20: agent 5 has no single-agent measurement, agent 3 has (effect 1/2): the real loop
    body (`synergyStep`, lenient) skips the combination (5, 3), the last-flag variant reports it with the
    product of the AVAILABLE effects only; `C20_synergy_bliss` is the positive statement for `synergy` -/
theorem C20_synergy_last_flag_counterexample :
    (synergyStep [((0, -1), (1 : Rat)), ((0, 3), 1 / 2)] false [] (0, [5, 3], 1 / 4)).toOption = some []
    ∧ synergyStepLastFlag [((0, -1), (1 : Rat)), ((0, 3), 1 / 2)] [] (0, [5, 3], 1 / 4) = [(0, [5, 3], 1 / 4)]
    ∧ synergyStepLastFlag [((0, -1), (1 : Rat)), ((0, 3), 1 / 2)] [] (0, [3, 5], 1 / 4) = [] := by
  refine ⟨by decide +kernel, by decide +kernel, by decide +kernel⟩

end Batchie.Props.C20
