/-
  C04 — masked observations never influence training, scoring or selection.

  Theorems about the hand model `Batchie.Model.Train` (+ `Batchie.Model.Scores`), tied to /repo by
  `harness/c04.py`.  `transform`/`nanT` are arbitrary (uninterpreted) pointwise functions: the theorems hold
  for every numeric transform, in particular the documented `logit(clip(float32(y), .01, .99))` and
  `logit(float32(y))`, whose values the harness checks numerically.

  Vocabulary (`Batchie.Lemmas.Train`):
    `AgreeOffMask s s'`  same screen except for observation values at positions whose mask bit is not set
    `observedRows s`     the rows of `s` whose mask bit is set, in row order
-/
/-
  CLAUSE MAP (property text → theorems; models: `Model/Train.lean`, `Model/TrainGibbs.lean`, `Model/ScorePipeline.lean`)

  "identical for two screens that differ only in masked observation values":
    "the data handed to the model"        → `C04_train_noninterference` (through `train_model`), `C04_add_view_noninterference`
                                             (EVERY selection vector handed directly to `add_observations`)
    "the posterior samples"               → `C04_posterior_noninterference` (SparseDrugCombo: C08's Gibbs sweep model run on the recorded
                                             rows, for any drawn values / initial state / burn-in / thinning; `C04_sweepThetas_last` links the
                                             exported samples to `Gibbs.runSweeps`).  SparseDrugComboInteraction's sampler has no Lean model:
                                             harness-only (differential runs with the same seed)
    "the pairwise distance matrix", "the plate scores", "the selected plate"
                                           → `C04_concrete_pipeline_noninterference(_masked)` (the composed C09/C07/C06/C05/C15 models the driver
                                             executes), `C04_end_to_end_noninterference` (sampler composed in as well: screen → … → selected plate);
                                             `C04_scoring_noninterference`, `C04_pipeline_noninterference` are the older statements over abstract stages
  "each shipped model is trained on exactly the observed experiments it documents using, each exactly once"
                                           → `C04_trained_exactly_once_combo`, `C04_trained_exactly_once_interaction` (via `train_model`; the
                                             hypothesis "something is observed" is complemented by `C04_nothing_observed`),
                                             `C04_accepts_only_observed_combo`, `C04_accepts_only_observed_interaction` (any rows handed over)
  "and transformed as documented"          → harness-only: `logit(clip(float32(y), .01, .99))` / `logit(float32(y))` are float32 rounding and scipy's
                                             `logit`; the theorems hold for EVERY pointwise `transform`, its values are compared bit for bit on the code
  "refuses input that still contains masked rows"   → `C04_rejects_masked`
  "… negative or NaN observations"         → `C04_rejects_negative_nan` with the bit-level reading of `>= 0.0` characterised by `C04_geZero_false_iff`
                                             (numpy's comparison on binary64 is trusted; the refusal stream exercises it)
  quantifier: "all replacement values" = no hypothesis on the masked cells in `AgreeOffMask`; "any chunk counts and any batch" = universally
  quantified `kDist kScore batch`; "every shipped MCMC model" = `ModelKind` (sampler model: SparseDrugCombo only, see above).
  harness-only besides the above: memory layout, command line / file round trips of the real h5 container.
  Props/C04Regress.lean (model growth after the seeded rounds):
    "each exactly once" after ANY sequence of add_observations calls → `C04_index_tables_consistent`, `C04_index_tables_partition`
        (the sampler's per-unit index tables partition 0 … n_obs-1 consistently with the rows; model `Model/SamplerIndex.lean`)
    "refuses NaN / negative observations" through the FILE stage → `C04_load_preserves_observations`, `C04_file_stage_refuses_bad_observed`,
        `C04_file_stage_noninterference` (C02's load model composed with training; model `Model/TrainFile.lean`)
    Regression (not a clause): `C04_S5_restart_numbering_counterexample` (S5-C04: bulk helper numbering every call from 0)
    Regression (not a clause): `C04_S7_nan_to_zero_on_load_counterexample` (S7-C04: a summary on load maps NaN ↦ 0.0)
-/
import Batchie.Lemmas.Train
import Batchie.Lemmas.ScorePipeline
import Batchie.Model.TrainGibbs

namespace Batchie.Props.C04
open Batchie.Proto Batchie.Screen Batchie.Scores Batchie.Train Batchie.Lemmas.Scores Batchie.Lemmas.Train Batchie.TrainGibbs

/-- What `train_model.main` hands to either shipped MCMC model (training tuples and the single-effect table)
    is the same for two screens that differ only behind the mask — for every replacement value, every
    transform. -/
theorem C04_train_noninterference {τ : Type} (m : ModelKind) (transform : Nat → τ) (nanT : τ → Bool)
    (s s' : Screen) (h : AgreeOffMask s s') :
    trainRows m transform nanT s = trainRows m transform nanT s' := by
  rw [trainRows_eq, trainRows_eq, observedRows_agree s s' h, mask_eq h.shape, arity_eq h.shape]

/-- `SparseDrugCombo` is trained on exactly the observed experiments: one tuple per observed row, in row order,
    `(transform y, sample, first treatment, second treatment)`; nothing else is recorded. -/
theorem C04_trained_exactly_once_combo {τ : Type} (transform : Nat → τ) (nanT : τ → Bool) (s : Screen) (t : Trained τ)
    (h : trainRows .sparseDrugCombo transform nanT s = .ok t) :
    t.tuples = (observedRows s).map (fun r => (transform r.obs, r.sid, r.tids.getD 0 0, r.tids.getD 1 0))
    ∧ t.single = [] := by
  rw [trainRows_eq] at h
  split at h
  · unfold addObservations at h
    simp only [observedRows_all_mask, Bool.not_true, Bool.false_eq_true, if_false] at h
    unfold addSparseDrugCombo at h
    split at h
    · cases h
    split at h
    · cases h
    obtain ⟨ts, hts, h⟩ := bind_ok h
    have := pure_ok h
    subst this
    have hf : (observedRows s).filter (·.mask) = observedRows s := by
      simp [observedRows, List.filter_filter]
    rw [hf] at hts
    exact ⟨mapM_firstTwo (fun r => transform r.obs) _ _ hts, rfl⟩
  · next hno =>
    cases h
    have : observedRows s = [] := by
      unfold observedRows screenRows
      rw [List.filter_eq_nil_iff]
      intro r hr
      obtain ⟨i, hi, rfl⟩ := List.getElem_of_mem hr
      simp only [List.getElem_zipWith, List.getElem_zip]
      intro hm
      exact hno (List.any_eq_true.mpr ⟨true, by rw [← hm]; exact List.getElem_mem _, rfl⟩)
    simp [this]

/-- `SparseDrugComboInteraction` is trained on exactly the observed *combination* experiments (no control
    treatment), one tuple each in row order, and its single-effect table is computed from the observed rows only. -/
theorem C04_trained_exactly_once_interaction {τ : Type} (transform : Nat → τ) (nanT : τ → Bool) (s : Screen) (t : Trained τ)
    (h : trainRows .sparseDrugComboInteraction transform nanT s = .ok t) (hobs : s.mask.any id = true) :
    t.tuples = ((observedRows s).filter (fun r => countControl r.tids == 0)).map
        (fun r => (transform r.obs, r.sid, r.tids.getD 0 0, r.tids.getD 1 0))
    ∧ t.single = singleEffectMap (observedRows s) 2 ∧ s.arity = 2 := by
  rw [trainRows_eq] at h
  simp only [hobs, if_true] at h
  unfold addObservations at h
  simp only [observedRows_all_mask, Bool.not_true, Bool.false_eq_true, if_false] at h
  unfold addInteraction at h
  by_cases ha : s.arity = 2
  · simp only [ha, bne_self_eq_false, Bool.false_eq_true, if_false] at h
    split at h
    · cases h
    obtain ⟨ts, hts, h⟩ := bind_ok h
    have := pure_ok h
    subst this
    have hf : ((observedRows s).filter (fun r => countControl r.tids == 0)).filter (·.mask)
        = (observedRows s).filter (fun r => countControl r.tids == 0) := by
      rw [List.filter_filter]
      apply List.filter_congr
      intro r hr
      have : r.mask = true := by
        have := (List.mem_filter.mp hr).2
        simpa using this
      simp [this]
    rw [hf] at hts
    exact ⟨mapM_firstTwo (fun r => transform r.obs) _ _ hts, rfl, ha⟩
  · have : (s.arity != 2) = true := by simpa using ha
    simp [this] at h

/-- `BayesianModel.add_observations` refuses any input that still contains a masked row (both models) -/
theorem C04_rejects_masked {τ : Type} (m : ModelKind) (transform : Nat → τ) (nanT : τ → Bool) (arity : Nat)
    (rows : List Row) (r : Row) (hr : r ∈ rows) (hm : r.mask = false) :
    addObservations m transform nanT arity rows = .error .valueError := by
  unfold addObservations
  have : rows.all (·.mask) = false := by
    rw [List.all_eq_false]
    exact ⟨r, hr, by simp [hm]⟩
  simp [this]

/-- negative or NaN, at the level of the 64-bit pattern -/
theorem C04_geZero_false_iff (b : Nat) : geZero b = false ↔ (isNaN b = true ∨ (signSet b = true ∧ isNegZero b = false)) := by
  unfold geZero
  cases isNaN b <;> cases signSet b <;> cases isNegZero b <;> simp

/-- both shipped models refuse fully observed input that contains a negative or NaN observation -/
theorem C04_rejects_negative_nan {τ : Type} (m : ModelKind) (transform : Nat → τ) (nanT : τ → Bool) (arity : Nat)
    (rows : List Row) (r : Row) (hr : r ∈ rows) (hneg : geZero r.obs = false) :
    addObservations m transform nanT arity rows = .error .valueError := by
  unfold addObservations
  split
  · rfl
  · have hall : rows.all (fun r => geZero r.obs) = false := by
      rw [List.all_eq_false]
      exact ⟨r, hr, by simp [hneg]⟩
    cases m with
    | sparseDrugCombo =>
      simp [addSparseDrugCombo, hall]
    | sparseDrugComboInteraction =>
      unfold addInteraction
      by_cases ha : arity = 2
      · simp [ha, hall]
      · have : (arity != 2) = true := by simpa using ha
        simp [this]

/-- The plates scored, the conditioned subsets handed to the scorer, the chunk holders, the eligibility filter
    and the selected plate are the same for two screens that differ only behind the mask.
    In the model this holds *by the type* of the functions: they factor through `ScreenShape`, the screen
    without its observation column (`rfl` below).  The content of this clause is therefore carried by the
    correspondence run: `harness/c04.py` executes the real code on poisoned pairs and compares the outputs. -/
theorem C04_scoring_noninterference (s s' : Screen) (h : AgreeOffMask s s') (pid : Nat) (batch : List Int) (n idx : Nat)
    (sc : Scorer) (H : Holder) (policy : Option Policy) :
    candidates s batch = candidates s' batch
    ∧ scoreInputs s pid batch n idx = scoreInputs s' pid batch n idx
    ∧ scoreChunk s pid batch n idx sc = scoreChunk s' pid batch n idx sc
    ∧ eligible s policy batch = eligible s' policy batch
    ∧ selectNextPlate H s policy batch = selectNextPlate H s' policy batch := by
  have h1 : candidates s batch = shCandidates (shape s) batch := rfl
  have h1' : candidates s' batch = shCandidates (shape s') batch := rfl
  have h2 : scoreInputs s pid batch n idx = shScoreInputs (shape s) pid batch n idx := rfl
  have h2' : scoreInputs s' pid batch n idx = shScoreInputs (shape s') pid batch n idx := rfl
  have h3 : scoreChunk s pid batch n idx sc = shScoreChunk (shape s) pid batch n idx sc := rfl
  have h3' : scoreChunk s' pid batch n idx sc = shScoreChunk (shape s') pid batch n idx sc := rfl
  have h4 : eligible s policy batch = shEligible (shape s) policy batch := rfl
  have h4' : eligible s' policy batch = shEligible (shape s') policy batch := rfl
  have h5 : selectNextPlate H s policy batch = shSelectNextPlate H (shape s) policy batch := rfl
  have h5' : selectNextPlate H s' policy batch = shSelectNextPlate H (shape s') policy batch := rfl
  rw [h1, h1', h2, h2', h3, h3', h4, h4', h5, h5', h.shape]
  exact ⟨rfl, rfl, rfl, rfl, rfl⟩

/-! ### data handed directly to `add_observations`; the whole chain (added by the audit) -/

/-- Whatever rows are handed to `SparseDrugCombo.add_observations` (a subset, a whole screen): if it is accepted then every
    row was observed, non-negative and not NaN, and the model recorded exactly one tuple per row, in row order. -/
theorem C04_accepts_only_observed_combo {τ : Type} (transform : Nat → τ) (nanT : τ → Bool) (arity : Nat) (rows : List Row)
    (t : Trained τ) (h : addObservations .sparseDrugCombo transform nanT arity rows = .ok t) :
    (∀ r ∈ rows, r.mask = true ∧ geZero r.obs = true ∧ nanT (transform r.obs) = false)
    ∧ t.tuples = rows.map (fun r => (transform r.obs, r.sid, r.tids.getD 0 0, r.tids.getD 1 0)) ∧ t.single = [] := by
  unfold addObservations at h
  split at h
  · cases h
  next hm =>
  have hm' : rows.all (·.mask) = true := by simpa using hm
  simp only [addSparseDrugCombo] at h
  split at h
  · cases h
  next hg =>
  split at h
  · cases h
  next hn =>
  obtain ⟨ts, hts, h⟩ := bind_ok h
  have := pure_ok h
  subst this
  have hf : rows.filter (·.mask) = rows := by
    rw [List.filter_eq_self]; exact List.all_eq_true.mp hm'
  rw [hf] at hts
  refine ⟨?_, mapM_firstTwo (fun r => transform r.obs) _ _ hts, rfl⟩
  intro r hr
  refine ⟨List.all_eq_true.mp hm' r hr, ?_, ?_⟩
  · have : rows.all (fun r => geZero r.obs) = true := by simpa using hg
    exact List.all_eq_true.mp this r hr
  · have : (rows.map (fun r => transform r.obs)).any nanT = false := by simpa using hn
    rw [List.any_eq_false] at this
    have := this (transform r.obs) (List.mem_map_of_mem hr)
    simpa using this

/-- the same for `SparseDrugComboInteraction`: accepted input is two-treatment, fully observed, non-negative, not NaN;
    one tuple per combination row (no control), single-effect table from exactly the rows given -/
theorem C04_accepts_only_observed_interaction {τ : Type} (transform : Nat → τ) (nanT : τ → Bool) (arity : Nat) (rows : List Row)
    (t : Trained τ) (h : addObservations .sparseDrugComboInteraction transform nanT arity rows = .ok t) :
    arity = 2 ∧ (∀ r ∈ rows, r.mask = true ∧ geZero r.obs = true)
    ∧ t.tuples = (rows.filter (fun r => countControl r.tids == 0)).map
        (fun r => (transform r.obs, r.sid, r.tids.getD 0 0, r.tids.getD 1 0))
    ∧ t.single = singleEffectMap rows 2 := by
  unfold addObservations at h
  split at h
  · cases h
  next hm =>
  have hm' : rows.all (·.mask) = true := by simpa using hm
  simp only [addInteraction] at h
  split at h
  · cases h
  next ha =>
  have ha' : arity = 2 := by simpa using ha
  subst ha'
  split at h
  · cases h
  next hg =>
  obtain ⟨ts, hts, h⟩ := bind_ok h
  have := pure_ok h
  subst this
  have hf : (rows.filter (fun r => countControl r.tids == 0)).filter (·.mask) = rows.filter (fun r => countControl r.tids == 0) := by
    rw [List.filter_eq_self]
    intro r hr
    exact List.all_eq_true.mp hm' r (List.mem_filter.mp hr).1
  rw [hf] at hts
  refine ⟨rfl, ?_, mapM_firstTwo (fun r => transform r.obs) _ _ hts, rfl⟩
  intro r hr
  refine ⟨List.all_eq_true.mp hm' r hr, ?_⟩
  have : rows.all (fun r => geZero r.obs) = true := by simpa using hg
  exact List.all_eq_true.mp this r hr

/-- The whole chain on the model, with the numerical stages abstract: the posterior sampler is *any* function of the
    recorded training data (and of whatever else does not depend on the screen: seed, hyper-parameters), predictions /
    the distance matrix *any* function of the samples and of the screen without its observation column, the scorer *any*
    function of samples and distances.  Then samples, distance matrix, the holder of every chunk and the selected plate
    coincide for two screens that differ only behind the mask.  (That the real sampler, predictor and scorers have
    these signatures, i.e. never read `Screen.observations`, is what the differential runs of `harness/c04.py` test.) -/
theorem C04_pipeline_noninterference {τ Θ D : Type} (m : ModelKind) (transform : Nat → τ) (nanT : τ → Bool)
    (sampler : Except Err (Trained τ) → Θ) (distance : Θ → ScreenShape → D) (scorer : Θ → D → Scorer)
    (s s' : Screen) (h : AgreeOffMask s s') (pid : Nat) (batch : List Int) (n idx : Nat) (policy : Option Policy) (files : List Holder) :
    let θ := sampler (trainRows m transform nanT s)
    let θ' := sampler (trainRows m transform nanT s')
    let d := distance θ (shape s)
    let d' := distance θ' (shape s')
    θ = θ' ∧ d = d'
    ∧ scoreChunk s pid batch n idx (scorer θ d) = scoreChunk s' pid batch n idx (scorer θ' d')
    ∧ (Holder.concat files >>= fun H => selectNextPlate H s policy batch)
        = (Holder.concat files >>= fun H => selectNextPlate H s' policy batch) := by
  intro θ θ' d d'
  have hθ : θ = θ' := by
    simp only [θ, θ']
    rw [trainRows_eq, trainRows_eq, observedRows_agree s s' h, mask_eq h.shape, arity_eq h.shape]
  have hd : d = d' := by simp only [d, d', hθ, h.shape]
  have h3 : ∀ sc, scoreChunk s pid batch n idx sc = shScoreChunk (shape s) pid batch n idx sc := fun _ => rfl
  have h3' : ∀ sc, scoreChunk s' pid batch n idx sc = shScoreChunk (shape s') pid batch n idx sc := fun _ => rfl
  have h5 : ∀ H, selectNextPlate H s policy batch = shSelectNextPlate H (shape s) policy batch := fun _ => rfl
  have h5' : ∀ H, selectNextPlate H s' policy batch = shSelectNextPlate H (shape s') policy batch := fun _ => rfl
  refine ⟨hθ, hd, ?_, ?_⟩
  · rw [h3, h3', hθ, hd, h.shape]
  · simp only [h5, h5', h.shape]

/-- **Every** selection vector handed directly to `add_observations` — observed rows only, observed and masked rows
    mixed, masked rows only, nothing: the outcome (the same refusal, or the same recorded training data) is identical for
    two screens that differ only behind the mask, for both models. -/
theorem C04_add_view_noninterference {τ : Type} (m : ModelKind) (transform : Nat → τ) (nanT : τ → Bool)
    (s s' : Screen) (h : AgreeOffMask s s') (sel : List Bool) :
    addObservations m transform nanT s.arity (viewRows s { parent := 0, sel := sel })
      = addObservations m transform nanT s'.arity (viewRows s' { parent := 0, sel := sel }) :=
  addObservations_view_agree m transform nanT s s' h sel

/-- The CONCRETE composed pipeline that the driver executes (`ScorePipeline.run`: viability predictions of every sample on the whole
    screen → MSE distance chunks → concat → dense matrix → per score chunk the plates `score_chunk` selects, `predict_mean_all` /
    `predict_variance_all` per plate, the DBAL kernel on the recorded draws → holders → save / load / concat → `select_next_plate`),
    for every number type: two screens that differ at most in their observation column — in particular two screens that differ only
    behind the mask — give the same distance matrix, the same scores, the same holders and the same selected plate (and the same
    error when there is one).  No stage is abstract here: this is the function `pipe.dbal` runs against the real code. -/
theorem C04_concrete_pipeline_noninterference {α : Type} [Add α] [Sub α] [Mul α] [Div α] [Neg α] [Zero α] [One α] [OfNat α 0] [OfNat α 1]
    [OfScientific α] [LT α] [DecidableLT α] [Max α] [Predict.ExpLog α] [Dbal.ExpLog α]
    (num : ScorePipeline.Num α) (s s' : Screen) (h : shape s = shape s') (thetas : List (Predict.Theta α)) (kDist kScore : Nat)
    (batch : List Int) (maxChunk : Nat) (draws : Nat → Nat → List Nat) (policy : Option Policy) :
    ScorePipeline.run num s thetas kDist kScore batch maxChunk draws policy
      = ScorePipeline.run num s' thetas kDist kScore batch maxChunk draws policy := by
  have e : ∀ x : Screen, x = (shape x).withObs x.obs := fun x => by cases x; rfl
  rw [e s, e s', h]
  exact Batchie.Lemmas.ScorePipeline.run_withObs num (shape s') s.obs s'.obs thetas kDist kScore batch maxChunk draws policy

/-- the same for screens that differ only behind the mask -/
theorem C04_concrete_pipeline_noninterference_masked {α : Type} [Add α] [Sub α] [Mul α] [Div α] [Neg α] [Zero α] [One α] [OfNat α 0] [OfNat α 1]
    [OfScientific α] [LT α] [DecidableLT α] [Max α] [Predict.ExpLog α] [Dbal.ExpLog α]
    (num : ScorePipeline.Num α) (s s' : Screen) (h : AgreeOffMask s s') (thetas : List (Predict.Theta α)) (kDist kScore : Nat)
    (batch : List Int) (maxChunk : Nat) (draws : Nat → Nat → List Nat) (policy : Option Policy) :
    ScorePipeline.run num s thetas kDist kScore batch maxChunk draws policy
      = ScorePipeline.run num s' thetas kDist kScore batch maxChunk draws policy :=
  C04_concrete_pipeline_noninterference num s s' h.shape thetas kDist kScore batch maxChunk draws policy

/-- the remaining case of `train_model`: no experiment observed — the model is handed nothing at all (both models) -/
theorem C04_nothing_observed {τ : Type} (m : ModelKind) (transform : Nat → τ) (nanT : τ → Bool) (s : Screen)
    (h : s.mask.any id = false) : trainRows m transform nanT s = .ok { tuples := [], single := [] } := by
  rw [trainRows_eq]; simp [h]

example : trainRows .sparseDrugComboInteraction id (fun _ => false)
    { ctrl := [], arity := 2, tnames := [], tdoses := [], snames := [], pnames := [], obs := [0x7FF8000000000000], mask := [false],
      tids := [[0, 1]], sids := [0], pids := [0], tmap := [], smap := [], pmap := [] } = .ok { tuples := [], single := [] } :=
  C04_nothing_observed _ _ _ _ rfl

/-! ### the sampler composed in (C08's Gibbs model) -/

theorem smap_eq {s s' : Screen} (h : shape s = shape s') : s.smap = s'.smap := congrArg ScreenShape.smap h
theorem tmap_eq {s s' : Screen} (h : shape s = shape s') : s.tmap = s'.tmap := congrArg ScreenShape.tmap h

section
set_option linter.unusedSectionVars false
variable {α : Type} [Add α] [Mul α] [Sub α] [Neg α] [Div α] [Max α] [Min α] [Gibbs.HasSqrt α]
  [OfNat α 0] [OfNat α 1] [OfNat α 2] [OfNat α 3] [OfNat α 1000] [OfNat α 1000000]

/-- the exported samples are those of C08's sweep function: the last one is the export of `Gibbs.runSweeps` -/
theorem C04_sweepThetas_last (dt : Gibbs.Data α) (ωs : List (Gibbs.Draws α)) (ω : Gibbs.Draws α) (st : Gibbs.State α) :
    (sweepThetas dt (ωs ++ [ω]) st).getLast? = some (Gibbs.exportState (Gibbs.runSweeps dt (ωs ++ [ω]) st))
    ∧ (sweepThetas dt (ωs ++ [ω]) st).length = ωs.length + 1 := by
  induction ωs generalizing st with
  | nil => simp [sweepThetas, Gibbs.runSweeps]
  | cons ω' ωs ih =>
    have ih' := ih (Gibbs.mcmcStep dt ω' st)
    simp only [List.cons_append, sweepThetas, Gibbs.runSweeps, List.foldl_cons, List.length_cons]
    unfold Gibbs.runSweeps at ih'
    have hne : sweepThetas dt (ωs ++ [ω]) (Gibbs.mcmcStep dt ω' st) ≠ [] := by
      intro h0
      have := ih'.2
      rw [h0] at this
      simp at this
    refine ⟨?_, by rw [ih'.2]⟩
    rw [List.getLast?_cons_of_ne_nil hne]
    exact ih'.1

/-- POSTERIOR SAMPLES: the samples `train_model` writes for `SparseDrugCombo` — C08's sweep model run on the training rows the
    C04 model records, for ANY drawn values (`ωs` = "the same seed"), initial state, hyper-parameters, burn-in and thinning — are
    the same for two screens that differ only behind the mask. -/
theorem C04_posterior_noninterference (transform : Nat → α) (nanT : α → Bool) (D : Nat) (a0 b0 : α) (st0 : Gibbs.State α)
    (ωs : List (Gibbs.Draws α)) (burnin thin : Nat) (s s' : Screen) (h : AgreeOffMask s s') :
    posterior transform nanT D a0 b0 st0 ωs burnin thin s = posterior transform nanT D a0 b0 st0 ωs burnin thin s' := by
  unfold posterior
  rw [C04_train_noninterference .sparseDrugCombo transform nanT s s' h, smap_eq h.shape, tmap_eq h.shape]

end

section
variable {α : Type} [Add α] [Mul α] [Sub α] [Neg α] [Div α] [Max α] [Min α] [Gibbs.HasSqrt α]
  [OfNat α 0] [OfNat α 1] [OfNat α 2] [OfNat α 3] [OfNat α 1000] [OfNat α 1000000]
  [Zero α] [One α] [OfScientific α] [LT α] [DecidableLT α] [Predict.ExpLog α] [Dbal.ExpLog α]

/-- END TO END on the models of every stage (no abstract stage left for `SparseDrugCombo`): screen → observed subset →
    `add_observations` → Gibbs sweeps → exported samples → viability predictions → MSE distance chunks → dense matrix → DBAL
    scores per chunk → holders → `select_next_plate`: identical result (distance matrix, scores, holders, selected plate, or the
    same error) for two screens that differ only behind the mask. -/
theorem C04_end_to_end_noninterference (num : ScorePipeline.Num α) (transform : Nat → α) (nanT : α → Bool) (D : Nat) (a0 b0 : α)
    (st0 : Gibbs.State α) (ωs : List (Gibbs.Draws α)) (burnin thin kDist kScore : Nat) (batch : List Int) (maxChunk : Nat)
    (draws : Nat → Nat → List Nat) (policy : Option Policy) (s s' : Screen) (h : AgreeOffMask s s') :
    endToEnd num transform nanT D a0 b0 st0 ωs burnin thin kDist kScore batch maxChunk draws policy s
      = endToEnd num transform nanT D a0 b0 st0 ωs burnin thin kDist kScore batch maxChunk draws policy s' := by
  unfold endToEnd
  rw [C04_posterior_noninterference transform nanT D a0 b0 st0 ωs burnin thin s s' h, smap_eq h.shape, tmap_eq h.shape]
  congr 1
  funext thetas
  exact C04_concrete_pipeline_noninterference num s s' h.shape _ kDist kScore batch maxChunk draws policy

end
/-! ### non-vacuity and concrete bit patterns -/

/-- two plates: rows 0-2 observed (one single-agent row, two combinations), rows 3-4 masked -/
def exA : Screen :=
  { ctrl := [], arity := 2, tnames := [], tdoses := [], snames := [], pnames := [],
    obs := [0x3FE0000000000000, 0x3FD0000000000000, 0x3FE8000000000000, 0x3FB999999999999A, 0x3FC999999999999A],
    mask := [true, true, true, false, false], tids := [[0, -1], [0, 1], [1, 2], [0, 2], [2, 1]], sids := [0, 0, 1, 0, 1],
    pids := [0, 0, 0, 1, 1], tmap := [], smap := [], pmap := [] }

/-- the same screen with NaN and −1.0 written behind the mask -/
def exB : Screen := { exA with obs := [0x3FE0000000000000, 0x3FD0000000000000, 0x3FE8000000000000, 0x7FF8000000000000, 0xBFF0000000000000] }

example : AgreeOffMask exA exB := by
  refine ⟨rfl, rfl, ?_⟩
  intro i hi
  match i with
  | 0 | 1 | 2 => rfl
  | 3 | 4 => simp [exA] at hi
  | (n + 5) => simp [exA] at hi

example : (trainRows .sparseDrugCombo id (fun _ => false) exA).toOption
    = some { tuples := [(0x3FE0000000000000, 0, 0, -1), (0x3FD0000000000000, 0, 0, 1), (0x3FE8000000000000, 1, 1, 2)], single := [] } := by
  decide

example : (trainRows .sparseDrugComboInteraction id (fun _ => false) exA).toOption.map (·.tuples)
    = some [(0x3FD0000000000000, 0, 0, 1), (0x3FE8000000000000, 1, 1, 2)] := by
  decide

example : geZero 0xBFF0000000000000 = false := by decide          -- −1.0
example : geZero 0x7FF8000000000000 = false := by decide          -- NaN
example : geZero 0xFFF8000000000001 = false := by decide          -- NaN with the sign bit set
example : geZero 0xFFF0000000000000 = false := by decide          -- −∞
example : geZero 0x8000000000000001 = false := by decide          -- the smallest negative subnormal
example : geZero 0x8000000000000000 = true := by decide           -- −0.0 is accepted (`-0.0 >= 0.0`)
example : geZero 0 = true := by decide
example : geZero 0x3FF0000000000000 = true := by decide           -- 1.0
example : geZero 0x7FF0000000000000 = true := by decide           -- +∞

end Batchie.Props.C04
