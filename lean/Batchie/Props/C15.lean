/-
  C15 -- combination unranking is a bijection.

  Every theorem here is about `Batchie.Gen.Unrank.run`, the definition that the translator
  regenerates from `generate_combination_at_sorted_index`
  (/repo/src/batchie/scoring/gaussian_dbal.py) on every run.  `n`, `k`, `idx` range over all
  naturals (no bound on `k`); the precondition is `idx < C(n,k)`.

  `rank [c_k, …, c_1] = Σ_i C(c_i, i)` (`Lemmas/UnrankRank.lean`), lists are compared with the
  lexicographic order of core `List` (`<` on `List Int`).

  CLAUSE MAP (property text → theorem)
  * "for all n and k, mapping the indices 0..C(n,k)-1 to combinations …" -- the function is total and
    error-free on that domain (no division by zero, the `while` terminates within its fuel):
        `C15_no_error`, loop invariant `C15_invariant`
  * "… enumerates every k-element subset of {0..n-1}" (onto):   `C15_surjective`, `C15_unrank_rank`
  * "… exactly once" (one-to-one):                              `C15_injective`, `C15_rank_unrank`
  * "… as strictly descending tuples" (below n, length k):      `C15_valid`
  * "… in ascending order of those tuples":                     `C15_monotone`, `C15_monotone_iff`
  * the four clauses together, as ONE statement about the list of all outputs:  `C15_enumeration`
  * "consequently the triples used for scoring are pairwise distinct":          `C15_callsite` (`Nodup`), `C15_triples`
  * "… lie within range":                                       `C15_callsite` (`n > i > j > l`)
  * "… and are all triples whenever the budget covers them":    `C15_callsite` (`Perm (Dbal.allTriples n)`), `C15_triples`
  * the call site never unranks an index ≥ C(n,k) (where the function would repeat the last
    combination): `C15_callsite_population` (k = 3, the modelled call site), `C15_callsite_general_k` (all k)
  * corollaries made explicit (Props/C15Regress.lean): n = k gives (k-1, …, 0) at index 0 for every k: `C15_unrank_n_eq_k`,
    `fullComb_isComb`; the tuple does not depend on n (any m ≤ n with idx < C(m,k)): `C15_independent_of_n`; a guard
    `k <= 0 or n < k` is harmless on valid requests: `C15_guard_lt_harmless`
  * Regression (not a clause): `C15_S7_guard_counterexample` (S7-C15: guard `n <= k` returns () at (0,1,1) and (0,3,3))
  * Regression (not a clause): `C15_S5_S6_tightened_counterexample` (S5-C15 bisection `idx <= C(mid,k)` / S6-C15 stale binomial table:
    the walk starts from n' with idx = C(n',k); witness idx = 10, n' = 5, k = 2 repeats (4,3))
  * harness-only: that `rng.choice(N, size, replace=False)` returns `size` pairwise distinct elements of
    `range(N)` (numpy's generator law: hypothesis `ChoiceContract`, re-observed on every recorded draw);
    that numpy fancy indexing gathers exactly at `idx1/idx2/idx3` (container fidelity: observed through
    recording arrays); Python big-integer arithmetic = `Int` (translator, tied by the driver run).
-/
import Batchie.Lemmas.UnrankRank
import Batchie.Lemmas.UnrankCallsite

namespace Batchie.Props.C15

open Batchie.Gen.Unrank Batchie.Lemmas.Unrank

/-- the tuple yielded by the generated function -/
abbrev out (idx n k : Nat) : List Int := (run (idx : Int) (n : Int) (k : Int)).out

/-- a strictly descending `k`-tuple of `{0..n-1}` -/
def IsComb (n k : Nat) (c : List Int) : Prop :=
  c.length = k ∧ c.Pairwise (· > ·) ∧ ∀ x ∈ c, 0 ≤ x ∧ x < (n : Int)

/-- No division by zero (neither `// i_plus_1`, `% k` nor the two `// n`) and the `while` always
    leaves through its guard: the fuel `n+1` of the translation is never exhausted, so the
    fuel-bounded definition is the Python function and not a truncation of it. -/
theorem C15_no_error (idx n k : Nat) (h : idx < n.choose k) :
    (run (idx : Int) (n : Int) (k : Int)).err = false ∧
    (run (idx : Int) (n : Int) (k : Int)).oof = false := by
  obtain ⟨l, _, _, _, _, _, herr, hoof⟩ := run_spec idx n k h
  exact ⟨herr, hoof⟩

/-- Loop invariant of the generated inner `while` (position `kk ≥ 1`, `base` = rank of what was
    already yielded): `n_ck = C(n-1,kk-1)`, `current_index = base + C(n,kk)`,
    `base ≤ index < current_index`, no error flag.  One guarded iteration preserves it with `n`
    decreased by one (the remainder subtracted by `n_ck -= n_ck % k` is zero and both divisions are
    exact), and the loop started with fuel `n+1` leaves through its guard with the invariant intact. -/
theorem C15_invariant {idx base kk N : Nat} {o : List Int} {st : St} (hk : 1 ≤ kk)
    (h : LInv idx base kk o N st) :
    (while0Cond st = true → LInv idx base kk o (N-1) (while0Body st)) ∧
    ∃ M, M ≤ N ∧ LInv idx base kk o M (while0 (N+1) st) ∧ while0Cond (while0 (N+1) st) = false :=
  ⟨fun g => (body_inv hk h g).1, while0_spec hk (N+1) N st h (Nat.le_succ N)⟩

/-- The output has length `k`, is strictly descending and its entries lie in `[0, n)`. -/
theorem C15_valid (idx n k : Nat) (h : idx < n.choose k) : IsComb n k (out idx n k) := by
  obtain ⟨l, hout, hlen, hpw, hlt, _, _, _⟩ := run_spec idx n k h
  show IsComb n k (run (idx : Int) (n : Int) (k : Int)).out
  rw [hout]
  refine ⟨by simpa using hlen, (pairwise_map_cast l).2 hpw, ?_⟩
  intro x hx
  obtain ⟨c, hc, rfl⟩ := List.mem_map.1 hx
  have := hlt c hc
  constructor <;> omega

/-- `rank (unrank idx) = idx`. -/
theorem C15_rank_unrank (idx n k : Nat) (h : idx < n.choose k) : rank (out idx n k) = idx := by
  obtain ⟨l, hout, hlen, _, _, hrank, _, _⟩ := run_spec idx n k h
  show rank (run (idx : Int) (n : Int) (k : Int)).out = idx
  rw [hout, rank_map_cast, hlen, hrank]

/-- Distinct indices below `C(n,k)` give distinct tuples. -/
theorem C15_injective (idx idx' n k : Nat) (h : idx < n.choose k) (h' : idx' < n.choose k)
    (he : out idx n k = out idx' n k) : idx = idx' := by
  rw [← C15_rank_unrank idx n k h, ← C15_rank_unrank idx' n k h', he]

/-- `unrank (rank c) = c` for every strictly descending `k`-tuple below `n`; its rank is a valid index. -/
theorem C15_unrank_rank (n k : Nat) (c : List Int) (hc : IsComb n k c) :
    rank c < n.choose k ∧ out (rank c) n k = c := by
  obtain ⟨hlen, hpw, hrange⟩ := hc
  have hcast := exists_nat_list c (fun x hx => (hrange x hx).1)
  generalize hm : c.map Int.toNat = m at hcast
  subst hcast
  have hmlen : m.length = k := by simpa using hlen
  have hmpw : m.Pairwise (· > ·) := (pairwise_map_cast m).1 hpw
  have hmlt : ∀ x ∈ m, x < n := by
    intro x hx
    have := (hrange (x : Int) (List.mem_map.2 ⟨x, hx, rfl⟩)).2
    omega
  have hr : rank (m.map (fun (c : Nat) => (c : Int))) = prank k m := by rw [rank_map_cast, hmlen]
  have hlt : prank k m < n.choose k := prank_lt m k n hmlen hmpw hmlt
  rw [hr]
  refine ⟨hlt, ?_⟩
  obtain ⟨l, hout, hllen, hlpw, _, hlrank, _, _⟩ := run_spec (prank k m) n k hlt
  show (run ((prank k m : Nat) : Int) (n : Int) (k : Int)).out = _
  rw [hout, prank_inj l m k hllen hmlen hlpw hmpw hlrank]

/-- Every strictly descending `k`-tuple below `n` is the image of an index below `C(n,k)`. -/
theorem C15_surjective (n k : Nat) (c : List Int) (hc : IsComb n k c) :
    ∃ idx, idx < n.choose k ∧ out idx n k = c :=
  ⟨rank c, (C15_unrank_rank n k c hc).1, (C15_unrank_rank n k c hc).2⟩

/-- The tuples come in ascending lexicographic order of the index. -/
theorem C15_monotone (idx idx' n k : Nat) (h' : idx' < n.choose k) (hlt : idx < idx') :
    out idx n k < out idx' n k := by
  have h : idx < n.choose k := lt_trans hlt h'
  obtain ⟨l, hout, hlen, hpw, _, hrank, _, _⟩ := run_spec idx n k h
  obtain ⟨l', hout', hlen', hpw', _, hrank', _, _⟩ := run_spec idx' n k h'
  show (run (idx : Int) (n : Int) (k : Int)).out < (run (idx' : Int) (n : Int) (k : Int)).out
  rw [hout, hout']
  exact lex_map_cast l l' (lex_of_prank_lt l l' k hlen hlen' hpw hpw' (by omega))

/-- The order is reflected as well (so `idx ↦ out idx` is an order isomorphism onto the combinations). -/
theorem C15_monotone_iff (idx idx' n k : Nat) (h : idx < n.choose k) (h' : idx' < n.choose k) :
    out idx n k < out idx' n k ↔ idx < idx' := by
  constructor
  · intro hl
    rcases Nat.lt_trichotomy idx idx' with hlt | heq | hgt
    · exact hlt
    · subst heq; exact absurd hl (List.lt_irrefl _)
    · exact absurd hl (List.lt_asymm (C15_monotone idx' idx n k h hgt))
  · exact C15_monotone idx idx' n k h'

/-- Scoring's use (`k = 3`): every index below `C(n,3)` gives an in-range triple `i > j > l`,
    distinct indices give distinct triples, and any permutation of all the indices
    `0..C(n,3)-1` (what `rng.choice(C(n,3), C(n,3), replace=False)` returns) yields a permutation
    of all triples. -/
theorem C15_triples (n : Nat) :
    (∀ idx, idx < n.choose 3 →
        ∃ i j l : Nat, out idx n 3 = [(i : Int), (j : Int), (l : Int)] ∧ l < j ∧ j < i ∧ i < n) ∧
    (∀ idx idx', idx < n.choose 3 → idx' < n.choose 3 → idx ≠ idx' → out idx n 3 ≠ out idx' n 3) ∧
    (∀ p : List Nat, p.Perm (List.range (n.choose 3)) →
        (p.map (fun idx => out idx n 3)).Perm (allTriples n)) := by
  have hmem : ∀ t, t ∈ (List.range (n.choose 3)).map (fun idx => out idx n 3) ↔ t ∈ allTriples n := by
    intro t
    rw [mem_allTriples, List.mem_map]
    constructor
    · rintro ⟨idx, hidx, rfl⟩
      obtain ⟨l, hout, hlen, hpw, hlt, _, _, _⟩ := run_spec idx n 3 (List.mem_range.1 hidx)
      match l, hlen, hpw, hlt with
      | [a, b, c], _, hpw, hlt =>
        simp only [List.pairwise_cons, List.mem_cons, List.not_mem_nil, or_false, forall_eq_or_imp,
          forall_eq] at hpw
        exact ⟨a, b, c, hout, by omega, by omega, hlt a (by simp)⟩
    · rintro ⟨i, j, l, rfl, hlj, hji, hin⟩
      have hc : IsComb n 3 [(i : Int), (j : Int), (l : Int)] := by
        refine ⟨rfl, ?_, ?_⟩
        · simp only [List.pairwise_cons, List.mem_cons, List.not_mem_nil, or_false, forall_eq_or_imp,
            forall_eq, List.Pairwise.nil, and_true, gt_iff_lt, IsEmpty.forall_iff, implies_true]
          omega
        · intro x hx
          simp only [List.mem_cons, List.not_mem_nil, or_false] at hx
          rcases hx with rfl | rfl | rfl <;> omega
      obtain ⟨hlt, hout⟩ := C15_unrank_rank n 3 _ hc
      exact ⟨_, List.mem_range.2 hlt, hout⟩
  have hnodup : ((List.range (n.choose 3)).map (fun idx => out idx n 3)).Nodup := by
    apply List.Nodup.map_on _ List.nodup_range
    intro a ha b hb he
    exact C15_injective a b n 3 (List.mem_range.1 ha) (List.mem_range.1 hb) he
  refine ⟨?_, ?_, ?_⟩
  · intro idx hidx
    exact (mem_allTriples n _).1 ((hmem _).1 (List.mem_map.2 ⟨idx, List.mem_range.2 hidx, rfl⟩))
  · intro idx idx' h h' hne he
    exact hne (C15_injective idx idx' n 3 h h' he)
  · intro p hp
    exact (hp.map _).trans ((List.perm_ext_iff_of_nodup hnodup (nodup_allTriples n)).2 hmem)

/-! ### the enumeration as a list; the call site for general `k` -/

/-- THE ENUMERATION, literally as in the property text: mapping the indices `0 .. C(n,k)-1` (in
    order) to combinations gives a list of `C(n,k)` tuples that is strictly ascending for the
    lexicographic order, has no repetition, and whose members are exactly the strictly descending
    `k`-tuples below `n` (= the `k`-element subsets of `{0..n-1}`).  All `n`, all `k`. -/
theorem C15_enumeration (n k : Nat) :
    ((List.range (n.choose k)).map (fun idx => out idx n k)).length = n.choose k ∧
    ((List.range (n.choose k)).map (fun idx => out idx n k)).Pairwise (· < ·) ∧
    ((List.range (n.choose k)).map (fun idx => out idx n k)).Nodup ∧
    ∀ c, c ∈ (List.range (n.choose k)).map (fun idx => out idx n k) ↔ IsComb n k c := by
  refine ⟨by simp, ?_, ?_, ?_⟩
  · rw [List.pairwise_map]
    exact (List.pairwise_lt_range (n := n.choose k)).imp_of_mem
      (fun {a b} _ hb hab => C15_monotone a b n k (List.mem_range.1 hb) hab)
  · refine List.Nodup.map_on ?_ List.nodup_range
    intro a ha b hb he
    exact C15_injective a b n k (List.mem_range.1 ha) (List.mem_range.1 hb) he
  · intro c
    rw [List.mem_map]
    constructor
    · rintro ⟨idx, hidx, rfl⟩
      exact C15_valid idx n k (List.mem_range.1 hidx)
    · intro hc
      obtain ⟨idx, hlt, ho⟩ := C15_surjective n k c hc
      exact ⟨idx, List.mem_range.2 hlt, ho⟩

/-- The call-site pattern for GENERAL `k` (production uses `k = 3`, `C15_callsite`): whenever the
    indices are drawn under numpy's contract from the population `C(n,k)` with size
    `min(C(n,k), budget)`, no index `≥ C(n,k)` is ever passed to the unranking function (so it neither
    divides by zero, nor exhausts its loop, nor repeats the last combination), the combinations
    used are pairwise distinct `k`-subsets, there are `min(C(n,k), budget)` of them, and every
    `k`-subset is used when the budget covers `C(n,k)`. -/
theorem C15_callsite_general_k (n k budget : Nat) (choice : List Nat)
    (hc : Batchie.UnrankCallsite.ChoiceContract (n.choose k) (min (n.choose k) budget) choice) :
    (∀ idx ∈ choice, idx < n.choose k ∧
        (run (idx : Int) (n : Int) (k : Int)).err = false ∧ (run (idx : Int) (n : Int) (k : Int)).oof = false ∧
        IsComb n k (out idx n k)) ∧
    (choice.map (fun idx => out idx n k)).length = min (n.choose k) budget ∧
    (choice.map (fun idx => out idx n k)).Nodup ∧
    (n.choose k ≤ budget → ∀ c, IsComb n k c → c ∈ choice.map (fun idx => out idx n k)) := by
  obtain ⟨hnd, hlt, hlen⟩ := hc
  refine ⟨?_, by simp [hlen], ?_, ?_⟩
  · intro idx hidx
    have h := hlt idx hidx
    exact ⟨h, (C15_no_error idx n k h).1, (C15_no_error idx n k h).2, C15_valid idx n k h⟩
  · refine List.Nodup.map_on ?_ hnd
    intro a ha b hb he
    exact C15_injective a b n k (hlt a ha) (hlt b hb) he
  · intro hle c hcomb
    have hp : choice.Perm (List.range (n.choose k)) :=
      perm_range_of_contract (N := n.choose k) (choice := choice) ⟨hnd, hlt, by rw [hlen, Nat.min_eq_left hle]⟩
    obtain ⟨idx, hidx, ho⟩ := C15_surjective n k c hcomb
    exact List.mem_map.2 ⟨idx, hp.mem_iff.2 (List.mem_range.2 hidx), ho⟩

/-! ### the call site inside `dbal_fast_gauss_scoring_vectorized` (`Model/UnrankCallsite.lean`) -/

section callsite
open Batchie.UnrankCallsite

/-- the triples of the call-site model are the unranked tuples seen through `toTriple` -/
theorem triplesOf_eq (n : Nat) (choice : List Nat) :
    triplesOf n choice = (choice.map (fun idx => out idx n 3)).map toTriple := by
  simp only [triplesOf, List.map_map]
  rfl

/-- What the kernel passes to `rng.choice` is `(C(n,3), min(C(n,3), max_combos))`: the population
    is exactly the set of valid indices, so under numpy's contract no index `≥ C(n,3)` is ever
    unranked -- for EVERY budget, also one far beyond `C(n,3)`. -/
theorem C15_callsite_population (n maxCombos : Nat) (choice : List Nat)
    (hc : ChoiceContract (comb3 n) (nCombos n maxCombos) choice) :
    comb3 n = n.choose 3 ∧ nCombos n maxCombos = min (n.choose 3) maxCombos ∧
    ∀ idx ∈ choice, idx < n.choose 3 ∧
      (run (idx : Int) (n : Int) 3).err = false ∧ (run (idx : Int) (n : Int) 3).oof = false := by
  refine ⟨comb3_eq n, by simp [nCombos, comb3_eq], ?_⟩
  intro idx hidx
  have h : idx < n.choose 3 := by have := hc.2.1 idx hidx; rwa [comb3_eq] at this
  exact ⟨h, C15_no_error idx n 3 h⟩

/-- THE TRIPLES ACTUALLY USED FOR SCORING.  For every number of posterior samples `n`, every budget
    `maxCombos` (smaller than, equal to or larger than `C(n,3)`) and every draw `choice` satisfying
    numpy's contract for `rng.choice(C(n,3), size=min(C(n,3), maxCombos), replace=False)`:
    the kernel uses exactly `min(C(n,3), maxCombos)` triples, they are pairwise distinct, each is
    `n > i > j > l` (in range), and when the budget covers `C(n,3)` they are a permutation of ALL
    triples -- in the vocabulary of the C05 model (`Dbal.allTriples`), i.e. this is the hypothesis
    `hall` of `C05_batchsize_invariant`. -/
theorem C15_callsite (n maxCombos : Nat) (choice : List Nat)
    (hc : ChoiceContract (comb3 n) (nCombos n maxCombos) choice) :
    (triplesOf n choice).length = min (n.choose 3) maxCombos ∧
    (triplesOf n choice).Nodup ∧
    (∀ t ∈ triplesOf n choice, t.2.2 < t.2.1 ∧ t.2.1 < t.1 ∧ t.1 < n) ∧
    (n.choose 3 ≤ maxCombos → (triplesOf n choice).Perm (Batchie.Dbal.allTriples n)) := by
  obtain ⟨hnd, hlt, hlen⟩ := hc
  have hlt' : ∀ idx ∈ choice, idx < n.choose 3 := by
    intro idx h; have := hlt idx h; rwa [comb3_eq] at this
  have key := (C15_triples n).1
  have hcast : ∀ idx ∈ choice, ∃ i j l : Nat, out idx n 3 = [(i : Int), (j : Int), (l : Int)] ∧
      toTriple (out idx n 3) = (i, j, l) ∧ l < j ∧ j < i ∧ i < n := by
    intro idx h
    obtain ⟨i, j, l, ho, h1, h2, h3⟩ := key idx (hlt' idx h)
    exact ⟨i, j, l, ho, by rw [ho, toTriple_cast], h1, h2, h3⟩
  refine ⟨?_, ?_, ?_, ?_⟩
  · simp [triplesOf, hlen, nCombos, comb3_eq]
  · rw [triplesOf_eq, List.map_map]
    refine List.Nodup.map_on ?_ hnd
    intro a ha b hb he
    obtain ⟨i, j, l, hoa, hta, -⟩ := hcast a ha
    obtain ⟨i', j', l', hob, htb, -⟩ := hcast b hb
    simp only [Function.comp] at he
    rw [hta, htb] at he
    have : out a n 3 = out b n 3 := by
      rw [hoa, hob]
      simp only [Prod.mk.injEq] at he
      obtain ⟨rfl, rfl, rfl⟩ := he
      rfl
    exact C15_injective a b n 3 (hlt' a ha) (hlt' b hb) this
  · intro t ht
    rw [triplesOf_eq, List.map_map] at ht
    obtain ⟨idx, hidx, rfl⟩ := List.mem_map.1 ht
    obtain ⟨i, j, l, -, hta, h1, h2, h3⟩ := hcast idx hidx
    simp only [Function.comp]
    rw [hta]
    exact ⟨h1, h2, h3⟩
  · intro hle
    have hN : nCombos n maxCombos = comb3 n := by
      simp only [nCombos, comb3_eq]; exact Nat.min_eq_left hle
    have hp : choice.Perm (List.range (n.choose 3)) := by
      have := perm_range_of_contract (N := comb3 n) (choice := choice) ⟨hnd, hlt, by rw [hlen, hN]⟩
      rwa [comb3_eq] at this
    rw [triplesOf_eq, ← map_toTriple_allTriples]
    exact ((C15_triples n).2.2 choice hp).map toTriple

end callsite

/-! ### non-vacuity: the hypotheses are satisfiable and the definitions compute -/

-- the production regime (index 1000000007 of C(3000,3) = 4 495 501 000), evaluated by the kernel
example : (run 1000000007 3000 3).out = [1818, 631, 626] := by decide +kernel
example : (run 100007 300 3).out = [85, 50, 12] ∧ (run 100007 300 3).err = false ∧ (run 100007 300 3).oof = false := by
  decide +kernel
example : (1000000007 : Nat) < Nat.choose 3000 3 := by decide +kernel
example : rank [1818, 631, 626] = 1000000007 := by decide +kernel
-- a concrete state satisfying the loop invariant (index 5 of C(5,2), nothing yielded yet)
example : LInv 5 0 2 [] 5 { index := 5, n := 5, k := 2, n_ck := 4, current_index := 10 } :=
  ⟨rfl, rfl, rfl, by decide, by decide, rfl, rfl, rfl, by decide, by decide⟩
-- the ten pairs of the repo's own unit test (n = 5, k = 2), in order
example : (List.range 10).map (fun i => out i 5 2)
    = [[1,0],[2,0],[2,1],[3,0],[3,1],[3,2],[4,0],[4,1],[4,2],[4,3]] := by decide +kernel
-- first and last index, k = 0, k = n
example : out 0 7 3 = [2, 1, 0] ∧ out 34 7 3 = [6, 5, 4] := by decide +kernel
example : out 0 4 0 = [] ∧ out 0 4 4 = [3, 2, 1, 0] := by decide +kernel
example : IsComb 7 3 [6, 5, 4] := by
  refine ⟨rfl, by decide, by decide⟩
example : allTriples 4 = [[2,1,0],[3,1,0],[3,2,0],[3,2,1]] := by decide +kernel
-- the precondition `idx < C(n,k)` is needed: at `idx = C(5,2) = 10` the last pair is repeated
-- (injectivity fails), and with `k > n` a negative entry and a division by zero appear
example : (run 10 5 2).out = [4, 3] ∧ (run 9 5 2).out = [4, 3] := by decide +kernel
example : (run 0 2 3).out = [1, 0, -1] ∧ (run 0 2 3).err = true := by decide +kernel

-- the call-site contract is satisfiable in all three regimes (budget <, =, > C(5,3) = 10), and the
-- model computes the triples the code uses
example : Batchie.UnrankCallsite.ChoiceContract (Batchie.UnrankCallsite.comb3 5)
    (Batchie.UnrankCallsite.nCombos 5 4) [7, 0, 9, 3] := by decide
example : Batchie.UnrankCallsite.ChoiceContract (Batchie.UnrankCallsite.comb3 5)
    (Batchie.UnrankCallsite.nCombos 5 10) [7, 0, 9, 3, 1, 2, 8, 4, 6, 5] := by decide
example : Batchie.UnrankCallsite.ChoiceContract (Batchie.UnrankCallsite.comb3 5)
    (Batchie.UnrankCallsite.nCombos 5 5000) [7, 0, 9, 3, 1, 2, 8, 4, 6, 5] := by decide
example : Batchie.UnrankCallsite.triplesOf 5 [7, 0, 9, 3] = [(4, 3, 0), (2, 1, 0), (4, 3, 2), (3, 2, 1)] := by
  decide +kernel
example : Batchie.UnrankCallsite.comb3 3000 = 4495501000 := by decide +kernel

-- general k: a contract-satisfying draw for (n, k) = (6, 4), C(6,4) = 15, budget 5 / budget 100
example : Batchie.UnrankCallsite.ChoiceContract (Nat.choose 6 4) (min (Nat.choose 6 4) 5) [14, 0, 7, 3, 9] := by decide
example : Batchie.UnrankCallsite.ChoiceContract (Nat.choose 4 2) (min (Nat.choose 4 2) 100) [5, 0, 4, 3, 1, 2] := by decide

end Batchie.Props.C15
