/-
  C15 -- corollaries made explicit after the later rounds of seeded changes, and REGRESSION lemmas
  (a mutated definition from `Model/UnrankRegress.lean` + a refutation of the property on a concrete
  witness).  The positive theorems are general (all n, k, indices); the regression lemmas are witness
  refutations by kernel evaluation.
-/
import Batchie.Props.C15
import Batchie.Model.UnrankRegress

namespace Batchie.Props.C15

open Batchie.Gen.Unrank Batchie.Lemmas.Unrank Batchie.UnrankRegress

/-- the single `k`-subset of `{0..k-1}` as a descending tuple: `(k-1, …, 0)` -/
def fullComb (k : Nat) : List Int := (List.range k).reverse.map (fun (c : Nat) => (c : Int))

theorem fullComb_isComb (k : Nat) : IsComb k k (fullComb k) := by
  refine ⟨by simp [fullComb], ?_, ?_⟩
  · unfold fullComb
    rw [pairwise_map_cast, List.pairwise_reverse]
    exact (List.pairwise_lt_range (n := k)).imp (fun {a b} h => h)
  · intro x hx
    simp only [fullComb, List.mem_map, List.mem_reverse, List.mem_range] at hx
    obtain ⟨c, hc, rfl⟩ := hx
    constructor <;> omega

/-- (S7-C15) POSITIVE, general: for `n = k` -- exactly one `k`-subset, at index 0 -- the TRANSLATED
    unranking function yields `(k-1, …, 0)`, for EVERY `k` (also `k = 0`: the empty tuple), without
    error.  A corollary of the bijection: the only strictly descending `k`-tuple below `k` has rank `< C(k,k) = 1`. -/
theorem C15_unrank_n_eq_k (k : Nat) :
    out 0 k k = fullComb k ∧
    (run (0 : Int) (k : Int) (k : Int)).err = false ∧ (run (0 : Int) (k : Int) (k : Int)).oof = false := by
  have h1 : (0 : Nat) < k.choose k := by simp
  obtain ⟨hlt, ho⟩ := C15_unrank_rank k k (fullComb k) (fullComb_isComb k)
  have hr : rank (fullComb k) = 0 := by
    have : rank (fullComb k) < 1 := by simpa using hlt
    omega
  rw [hr] at ho
  have := C15_no_error 0 k k h1
  exact ⟨ho, by simpa using this.1, by simpa using this.2⟩

/-- (S7-C15) the guard with the intended comparison (`k <= 0 or n < k`) never fires on a valid request
    with `k ≥ 1`: the guarded function IS the translated function there (general). -/
theorem C15_guard_lt_harmless (idx n k : Nat) (h : idx < n.choose k) (hk : 1 ≤ k) :
    runGuardLt (idx : Int) (n : Int) (k : Int) = run (idx : Int) (n : Int) (k : Int) := by
  have hkn : k ≤ n := by
    by_contra hc
    have := Nat.choose_eq_zero_of_lt (Nat.lt_of_not_le hc); omega
  unfold runGuardLt
  rw [if_neg]
  omega

/-- (S7-C15) REGRESSION, witness: with the seeded guard `n <= k` the request `(index, n, k) = (0, 1, 1)`
    yields the empty tuple, whereas the translated function yields `(0)` -- the one 1-subset of `{0}` is never
    enumerated (surjectivity and "length k" of the property fail). -/
theorem C15_S7_guard_counterexample :
    (runS7 0 1 1).out = [] ∧ (run 0 1 1).out = [0] ∧ ¬ IsComb 1 1 (runS7 0 1 1).out ∧
    (runS7 0 3 3).out = [] ∧ (run 0 3 3).out = [2, 1, 0] := by
  refine ⟨by decide +kernel, by decide +kernel, ?_, by decide +kernel, by decide +kernel⟩
  intro hc
  have h0 : (runS7 0 1 1).out = [] := by decide +kernel
  rw [h0] at hc
  exact absurd hc.1 (by decide)

/-- (S5-C15 / S6-C15) POSITIVE, general: the unranked tuple does not depend on `n` -- any `m ≤ n` for
    which `idx` is still a valid index (`idx < C(m,k)`) gives the same tuple.  This is the fact the two
    fast paths rely on; it needs the STRICT `idx < C(m,k)`. -/
theorem C15_independent_of_n (idx m n k : Nat) (h : idx < m.choose k) (hmn : m ≤ n) :
    out idx n k = out idx m k := by
  have hc : IsComb m k (out idx m k) := C15_valid idx m k h
  have hc' : IsComb n k (out idx m k) :=
    ⟨hc.1, hc.2.1, fun x hx => ⟨(hc.2.2 x hx).1, lt_of_lt_of_le (hc.2.2 x hx).2 (by exact_mod_cast hmn)⟩⟩
  have hu := (C15_unrank_rank n k (out idx m k) hc').2
  rwa [C15_rank_unrank idx m k h] at hu

/-- (S5-C15 / S6-C15) REGRESSION, witness: tightening with `idx ≤ C(m,k)` (S5: bisection test `<=`; S6: stale
    table built for a smaller `n`) starts the walk from `n' = 5` for `idx = 10 = C(5,2)`, which is not a valid
    index there: it repeats the last pair `(4,3)` of `n' = 5` (also the image of index 9) instead of `(5,0)`. -/
theorem C15_S5_S6_tightened_counterexample :
    (runTightened 10 5 2).out = [4, 3] ∧ (run 10 6 2).out = [5, 0] ∧ (run 9 6 2).out = [4, 3] ∧
    ¬ ((10 : Nat) < Nat.choose 5 2) := by
  refine ⟨by decide +kernel, by decide +kernel, by decide +kernel, by decide⟩

-- non-vacuity of the hypotheses above
example : out 0 4 4 = [3, 2, 1, 0] ∧ fullComb 4 = [3, 2, 1, 0] := by decide +kernel
example : (9 : Nat) < Nat.choose 5 2 ∧ 5 ≤ 6 ∧ out 9 6 2 = out 9 5 2 := ⟨by decide, by decide, by decide +kernel⟩
example : (0 : Nat) < Nat.choose 3 3 ∧ 1 ≤ 3 := by decide

end Batchie.Props.C15
