/-
  C11 -- retrospective preparation conserves experiments; the hold-out split partitions.

  CLAUSE MAP (property text -> theorem; the model is `Model/Prep.lean` + `Model/PrepShipped.lean`, the functions the driver executes)

   1. "Plate generation and plate smoothing never invent, alter or duplicate an experiment: every output experiment is an input
      experiment with the same sample, treatments, doses and observation value"
                                -> C11_generator_conserves (permutation of the rows without plate label, mask included),
                                   C11_smoother_subcollection (sub-multiset; every shipped smoother incl. the ensemble),
                                   C11_initial_plate_conserves (initial-plate generator: same experiments, same order)
   2. "generators keep all of them"            -> C11_generator_conserves, C11_initial_plate_conserves; C11_permutation_labels (labels too)
   3. "smoothers keep a sub-collection"        -> C11_smoother_subcollection; C11_dropping_smoothers_keep_labels, C11_merge_relabels_only,
                                                  C11_merge_conserves (stronger than the text: merging drops nothing)
   4. "the already observed part of the screen passes through unchanged and still observed"
                                -> C11_observed_passthrough (same records, same order, for every generator and smoother)
   5. "The hold-out split partitions its input (training plus hold-out equals the input as multisets, plate labels included)"
                                -> C11_holdout_partition, C11_holdout_partition_random
   6. "takes ceil(fraction x size) experiments from each unobserved plate and none from observed plates"
                                -> C11_holdout_counts (every count function kf), C11_holdout_counts_fraction (kf = ceil(size x q) for a
                                   rational fraction q in [0,1]: the count is that ceiling, is <= size, is 0 for q = 0 and the whole plate
                                   for q = 1), C11_holdout_fraction_zero (q = 0: hold-out empty, training = input);
                                   C11_holdout_counts_random, C11_holdout_counts_random_fraction
   7. "marks the hold-out fully observed and leaves the training mask as it was"
                                -> C11_holdout_masks, C11_holdout_masks_random (training = sub-list of the input RECORDS)
   quantifier "every fraction in [0,1] including 0 and 1"  -> the `_fraction` theorems (Lemmas/PrepCeil.lean: ceilCount over Q);
              "any generator state"                        -> all theorems quantify over every choice log satisfying the generator contract
   end to end (cli/prepare_retrospective_simulation)       -> Props/C11Pipeline.lean
   model consistency                                       -> C11_select_is_to_screen, C11_combo_filter_subcollection

   Regression (not a clause): S7-C11 -> C11_generator_values_travel_with_rows (positive, general) +
                              C11_S7_positional_recombination_counterexample (values re-attached in input order: refuted on a
                              two-row witness with a row-swapping generator; `recombinePositional_same_order`: harmless iff order is kept)
   Regression (not a clause): S5-C11 -> C11_holdout_random_fraction_zero (positive, general) +
                              C11_S5_slices_counterexample (`shuffled[-0:]` = everything: fraction 0 holds out the whole screen)
   Regression (not a clause): S6-C11 -> C11_S6_complement_floor_is_ceil (over Q the seeded formula size - floor(size(1-f)) IS ceil(size f):
                              the seeded difference is floating-point rounding only -- harness-only, see (a))

   harness-only: (a) rounding -- that `math.ceil(size * fraction)` at IEEE double equals ceil of the exact product (Lean's `Float` is
   opaque; the driver executes it and the harness compares per-plate counts); (b) numpy's generator laws -- `permutation` returns a
   permutation, `choice(replace=False)` k distinct members, `heappop` a minimal plate: contract checks on the recorded log;
   (c) container fidelity of numpy boolean-mask indexing / `isin` / `array_split` / `unique` (modelled on lists, tied by the driver);
   (d) aliasing / in-place modification of the caller's screen (not expressible in a functional model: harness snapshots).
-/
import Batchie.Lemmas.PrepHoldout
import Batchie.Lemmas.PrepOps
import Batchie.Lemmas.PrepExamples
import Batchie.Lemmas.PrepBridge
import Batchie.Lemmas.PrepCeil
import Batchie.Lemmas.PrepRegress

namespace Batchie.Props.C11
open Batchie.Proto Batchie.Screen Batchie.Prep

/-- an experiment together with its plate label -/
def labelled (r : Row) : (Name × List Name × List Dose × Nat) × Name := (r.exp, r.plate)

/-! ### hold-out splits -/

theorem split_partition {s keep hold : Screen} {chosen : List Nat} (h : holdoutSplit s chosen = .ok (keep, hold)) :
    ((rowsOf keep).map labelled ++ (rowsOf hold).map labelled).Perm ((rowsOf s).map labelled) := by
  obtain ⟨hk, hh⟩ := holdoutSplit_ok h
  rw [hk, hh, List.map_map]
  have e : (labelled ∘ fun r : Row => { r with mask := true }) = labelled := rfl
  rw [e, ← List.map_append]
  apply List.Perm.map
  have := maskFilter_perm_split (rowsOf s) (selOfIdx (rowsOf s).length chosen) (length_selOfIdx _ _)
  exact List.perm_append_comm.trans this

/-- **Partition (plate-balanced hold-out).** Training ⊎ hold-out = input as multisets of (experiment, plate label),
    for every count function `kf` (in particular `n ↦ ceil(fl(n × fraction))` for every fraction in `[0,1]`, both ends
    included) and every choice log. -/
theorem C11_holdout_partition (kf : Nat → Nat) (choices : List (List Nat)) (s keep hold : Screen)
    (h : holdoutBalanced kf choices s = .ok (keep, hold)) :
    ((rowsOf keep).map labelled ++ (rowsOf hold).map labelled).Perm ((rowsOf s).map labelled) := by
  unfold holdoutBalanced at h
  obtain ⟨chosen, _, h⟩ := bind_ok h
  exact split_partition h

/-- **Partition (random hold-out).** -/
theorem C11_holdout_partition_random (kf : Nat → Nat) (choice : List Nat) (s keep hold : Screen)
    (h : holdoutRandom kf choice s = .ok (keep, hold)) :
    ((rowsOf keep).map labelled ++ (rowsOf hold).map labelled).Perm ((rowsOf s).map labelled) := by
  unfold holdoutRandom at h
  simp only at h
  split at h
  · cases h
  · exact split_partition h

theorem split_masks {s keep hold : Screen} {chosen : List Nat} (h : holdoutSplit s chosen = .ok (keep, hold)) :
    (∀ x ∈ rowsOf hold, x.mask = true) ∧ (rowsOf keep).Sublist (rowsOf s) := by
  obtain ⟨hk, hh⟩ := holdoutSplit_ok h
  constructor
  · intro x hx
    rw [hh] at hx
    obtain ⟨y, _, rfl⟩ := List.mem_map.mp hx
    rfl
  · rw [hk]; exact maskFilter_sublist _ _

/-- **Masks.** The hold-out is fully observed; the training rows are input rows *as they were* (a sublist of the
    input records, mask and plate label included). -/
theorem C11_holdout_masks (kf : Nat → Nat) (choices : List (List Nat)) (s keep hold : Screen)
    (h : holdoutBalanced kf choices s = .ok (keep, hold)) :
    (∀ x ∈ rowsOf hold, x.mask = true) ∧ (rowsOf keep).Sublist (rowsOf s) := by
  unfold holdoutBalanced at h
  obtain ⟨chosen, _, h⟩ := bind_ok h
  exact split_masks h

theorem C11_holdout_masks_random (kf : Nat → Nat) (choice : List Nat) (s keep hold : Screen)
    (h : holdoutRandom kf choice s = .ok (keep, hold)) :
    (∀ x ∈ rowsOf hold, x.mask = true) ∧ (rowsOf keep).Sublist (rowsOf s) := by
  unfold holdoutRandom at h
  simp only at h
  split at h
  · cases h
  · exact split_masks h

/-- **Counts (plate-balanced hold-out).** For every constructed screen and every plate name `p`: the hold-out holds no
    experiment of `p` when the plate is observed (or absent), and exactly `kf (size of p)` of them when it is
    unobserved. -/
theorem C11_holdout_counts (r : Raw) (kf : Nat → Nat) (choices : List (List Nat)) (s keep hold : Screen)
    (hs : mk? r = .ok s) (h : holdoutBalanced kf choices s = .ok (keep, hold)) (p : Name) :
    ((rowsOf hold).filter (fun x => x.plate == p)).length =
      if ((rowsOf s).filter (fun x => x.plate == p)).all (·.mask) then 0
      else kf ((rowsOf s).filter (fun x => x.plate == p)).length := by
  have F := facts_of_mk hs
  unfold holdoutBalanced at h
  obtain ⟨chosen, hc, h⟩ := bind_ok h
  obtain ⟨picks, rfl, hp⟩ := balancedLoop_picked _ _ _ _ _ hc
  have hdis : (plateIdx s).Pairwise (fun a b => ∀ i ∈ a, i ∉ b) :=
    pairwise_disjoint_map_idxOfId _ _ (nodup_uniqueSorted _)
  obtain ⟨hnd, hcnt⟩ := hp.count hdis
  have hlen : s.pids.length = (rowsOf s).length := by rw [F.pids_eq, List.length_map, F.pnames_eq, List.length_map]
  have hlt : ∀ i ∈ picks.flatten, i < (rowsOf s).length := by
    intro i hi
    obtain ⟨q, hq, hiq⟩ := hp.mem_flatten i hi
    obtain ⟨x, _, rfl⟩ := List.mem_map.mp hq
    rw [← hlen]; exact idxOfId_lt hiq
  obtain ⟨_, hh⟩ := holdoutSplit_ok h
  rw [hh, List.filter_map, List.length_map]
  have e : ((fun x : Row => x.plate == p) ∘ fun r : Row => { r with mask := true }) = fun x => x.plate == p := rfl
  rw [e, count_selected_plate _ _ _ hnd hlt, ← plateObserved_posOf]
  by_cases hmem : p ∈ s.pnames
  · have ht : posOf ((rowsOf s).map (·.plate)) p = idxOfId s.pids (sId (freshSMap s.pnames) p) := by
      rw [F.pids_eq, ← F.pnames_eq]
      exact (idxOfId_map_inj s.pnames _ (fun a ha b hb => sId_inj s.pnames a b ha hb) p hmem).symm
    have htm : posOf ((rowsOf s).map (·.plate)) p ∈ plateIdx s := by
      rw [ht]
      apply List.mem_map_of_mem
      rw [mem_uniqueSorted, F.pids_eq]
      exact List.mem_map_of_mem hmem
    rw [hcnt _ htm]
    rw [filter_plate_eq_posOf_map, List.length_map]
  · have : posOf ((rowsOf s).map (·.plate)) p = [] := posOf_eq_nil (by rw [← F.pnames_eq]; exact hmem)
    rw [this]
    have z : (picks.flatten.filter (fun i => ([] : List Nat).contains i)).length = 0 := by
      rw [filter_eq_nil_of_forall _ _ (by intro a _; rfl)]; rfl
    rw [z]
    simp [plateObserved]

/-- **Counts (random hold-out).** Exactly `kf (number of experiments)` experiments are held out. -/
theorem C11_holdout_counts_random (kf : Nat → Nat) (choice : List Nat) (s keep hold : Screen)
    (h : holdoutRandom kf choice s = .ok (keep, hold)) :
    (rowsOf hold).length = kf (rowsOf s).length := by
  unfold holdoutRandom at h
  simp only at h
  split at h
  · cases h
  · rename_i hv
    simp only [Bool.not_eq_true', Bool.not_eq_false] at hv
    obtain ⟨hl, hnd, hsub⟩ := validChoice_iff.mp hv
    obtain ⟨_, hh⟩ := holdoutSplit_ok h
    rw [hh, List.length_map, maskFilter_selOfIdx, List.length_map]
    have := length_filter_range_contains (rowsOf s).length choice (fun _ => true) hnd (fun i hi => List.mem_range.mp (hsub i hi))
    simp only [Bool.and_true] at this
    rw [this, filter_eq_self_of_forall _ _ (by intro a _; rfl), hl]

/-! ### the documented count `ceil(fraction x size)` (rational fraction in [0,1]) discharges the abstract `kf` -/

/-- **Counts for the documented count function.** With `kf = ceilCount q` (`= ⌈size × q⌉`, `0 ≤ q ≤ 1`): the number of hold-out
    experiments of plate `p` is 0 for an observed (or absent) plate and `⌈size_p × q⌉` for an unobserved one; it never exceeds
    the plate size, is 0 when `q = 0` and is the whole plate when `q = 1`. -/
theorem C11_holdout_counts_fraction (q : ℚ) (hq0 : 0 ≤ q) (hq1 : q ≤ 1) (r : Raw) (choices : List (List Nat)) (s keep hold : Screen)
    (hs : mk? r = .ok s) (h : holdoutBalanced (ceilCount q) choices s = .ok (keep, hold)) (p : Name) :
    (((rowsOf s).filter (fun x => x.plate == p)).all (·.mask) = true → ((rowsOf hold).filter (fun x => x.plate == p)).length = 0) ∧
    (((rowsOf s).filter (fun x => x.plate == p)).all (·.mask) = false →
        ((((rowsOf hold).filter (fun x => x.plate == p)).length : ℕ) : ℤ) = ⌈((((rowsOf s).filter (fun x => x.plate == p)).length : ℕ) : ℚ) * q⌉) ∧
    ((rowsOf hold).filter (fun x => x.plate == p)).length ≤ ((rowsOf s).filter (fun x => x.plate == p)).length ∧
    (q = 0 → ((rowsOf hold).filter (fun x => x.plate == p)).length = 0) ∧
    (q = 1 → ((rowsOf s).filter (fun x => x.plate == p)).all (·.mask) = false →
        ((rowsOf hold).filter (fun x => x.plate == p)).length = ((rowsOf s).filter (fun x => x.plate == p)).length) := by
  have c := C11_holdout_counts r (ceilCount q) choices s keep hold hs h p
  refine ⟨fun ho => by rw [c, ho]; rfl, fun ho => by rw [c, ho]; exact ceilCount_cast hq0 _, ?_, fun h0 => ?_, fun h1 ho => ?_⟩
  · rw [c]; split
    · exact Nat.zero_le _
    · exact ceilCount_le hq0 hq1 _
  · rw [c, h0]; split
    · rfl
    · exact ceilCount_zero _
  · rw [c, ho, h1]; exact ceilCount_one _

/-- **Fraction 0.** The hold-out is empty and the training screen has exactly the input records. -/
theorem C11_holdout_fraction_zero (r : Raw) (choices : List (List Nat)) (s keep hold : Screen)
    (hs : mk? r = .ok s) (h : holdoutBalanced (ceilCount 0) choices s = .ok (keep, hold)) :
    rowsOf hold = [] ∧ rowsOf keep = rowsOf s := by
  have hempty : rowsOf hold = [] := by
    apply List.eq_nil_iff_forall_not_mem.mpr
    intro x hx
    have c := (C11_holdout_counts_fraction 0 (le_refl 0) (by norm_num) r choices s keep hold hs h x.plate).2.2.2.1 rfl
    have : x ∈ (rowsOf hold).filter (fun y => y.plate == x.plate) := List.mem_filter.mpr ⟨hx, by simp⟩
    rw [List.length_eq_zero_iff.mp c] at this
    cases this
  refine ⟨hempty, ?_⟩
  have part := C11_holdout_partition (ceilCount 0) choices s keep hold h
  have sub := (C11_holdout_masks (ceilCount 0) choices s keep hold h).2
  rw [hempty, List.map_nil, List.append_nil] at part
  have hl : (rowsOf keep).length = (rowsOf s).length := by simpa using part.length_eq
  exact sub.eq_of_length hl

/-- random hold-out with the documented count: `⌈n × q⌉ ≤ n` experiments are held out -/
theorem C11_holdout_counts_random_fraction (q : ℚ) (hq0 : 0 ≤ q) (hq1 : q ≤ 1) (choice : List Nat) (s keep hold : Screen)
    (h : holdoutRandom (ceilCount q) choice s = .ok (keep, hold)) :
    (((rowsOf hold).length : ℕ) : ℤ) = ⌈(((rowsOf s).length : ℕ) : ℚ) * q⌉ ∧ (rowsOf hold).length ≤ (rowsOf s).length := by
  have c := C11_holdout_counts_random (ceilCount q) choice s keep hold h
  exact ⟨by rw [c]; exact ceilCount_cast hq0 _, by rw [c]; exact ceilCount_le hq0 hq1 _⟩

/-- **Fraction 0, random hold-out** (positive half of S5-C11): nothing is held out and the training screen has exactly the input records. -/
theorem C11_holdout_random_fraction_zero (choice : List Nat) (s keep hold : Screen)
    (h : holdoutRandom (ceilCount 0) choice s = .ok (keep, hold)) : rowsOf hold = [] ∧ rowsOf keep = rowsOf s := by
  have c := C11_holdout_counts_random (ceilCount 0) choice s keep hold h
  rw [ceilCount_zero] at c
  have hempty : rowsOf hold = [] := List.length_eq_zero_iff.mp c
  refine ⟨hempty, ?_⟩
  have part := C11_holdout_partition_random (ceilCount 0) choice s keep hold h
  have sub := (C11_holdout_masks_random (ceilCount 0) choice s keep hold h).2
  rw [hempty, List.map_nil, List.append_nil] at part
  have hl : (rowsOf keep).length = (rowsOf s).length := by simpa using part.length_eq
  exact sub.eq_of_length hl

/-- Regression S5-C11 (`create_random_holdout` by two slices of one permutation, `shuffled[-n_holdout:]`): with count 0 the seeded
    definition holds out the WHOLE 7-row example screen (and keeps it too), whereas the faithful one holds out nothing. -/
theorem C11_S5_slices_counterexample :
    ((mk? exRaw >>= fun s => holdoutRandomSlices (fun _ => 0) [0, 1, 2, 3, 4, 5, 6] s).toOption.map
      (fun kh => ((rowsOf kh.1).length, (rowsOf kh.2).length))) = some (7, 7) ∧
    ((mk? exRaw >>= fun s => holdoutRandom (fun _ => 0) [] s).toOption.map
      (fun kh => ((rowsOf kh.1).length, (rowsOf kh.2).length))) = some (7, 0) :=
  ⟨holdoutRandomSlices_witness, holdoutRandom_witness⟩

/-- Regression S6-C11 (hold-out size as `size - floor(size·(1-fraction))`): over the rationals this IS the documented count, for
    every fraction and size; what the seeded change breaks is IEEE rounding, which is outside the functional model. -/
theorem C11_S6_complement_floor_is_ceil (q : ℚ) (n : ℕ) : (n : ℤ) - ⌊(n : ℚ) * (1 - q)⌋ = ⌈(n : ℚ) * q⌉ :=
  ceil_eq_sub_floor_complement q n

/-! ### generators and smoothers (through the public `generate_plates` / `smooth_plates` wrappers)

  `Generator` / `Smoother` (`Model/PrepShipped.lean`) enumerate the shipped operations, each constructor carrying the
  parameters and the choice log; `wrapped` is the model of the public entry point.  `unlabelled r` is the row without its
  plate label: (sample, treatment names, doses, observation bits, mask). -/

/-- **Generators conserve.** For each shipped generator, every parameter value and every choice log for which
    `generate_plates` returns: the output rows, ignoring the plate label, are a permutation of the input rows
    (sample, treatments, doses, observation value and mask all unchanged; nothing invented, altered, duplicated or lost). -/
theorem C11_generator_conserves (g : Generator) (s out : Screen) (h : g.wrapped s = .ok out) :
    ((rowsOf out).map unlabelled).Perm ((rowsOf s).map unlabelled) := by
  rcases wrap_ok' h with ⟨_, rfl⟩ | ⟨u, nu, hu, hnu, hrows⟩
  · exact List.Perm.refl _
  · exact assemble_perm (generator_facts g hu unobserved_mask hnu).1 hrows

/-- **Values travel with their rows** (positive half of S7-C11).  For every shipped generator, whatever order it returns the rows
    in: the multiset of (sample, treatments, doses, observation value) of the recombined screen equals the input's -- an
    observation value is never attached to another condition. -/
theorem C11_generator_values_travel_with_rows (g : Generator) (s out : Screen) (h : g.wrapped s = .ok out) :
    ((rowsOf out).map Row.exp).Perm ((rowsOf s).map Row.exp) := by
  have c := (C11_generator_conserves g s out h).map Prod.fst
  simpa [List.map_map, Function.comp_def, unlabelled] using c

/-- Regression S7-C11 (`generate_plates` taking the observation values positionally from the input): the positional recombination
    is the faithful one when the generator keeps the row order (`recombinePositional_same_order`), and on a two-row witness whose
    generator output lists the rows in the other order it attaches each value to the other condition: the experiments are no
    longer a permutation of the input's, while the faithful recombination's are. -/
theorem C11_S7_positional_recombination_counterexample :
    (∀ nuRows inputUnobs observed : List Row, nuRows.map (·.obs) = inputUnobs.map (·.obs) →
        recombinePositional nuRows inputUnobs observed = recombineFaithful nuRows observed) ∧
    ((recombineFaithful wSwapOut []).map Row.exp).Perm (wSwapIn.map Row.exp) ∧
    ¬ ((recombinePositional wSwapOut wSwapIn []).map Row.exp).Perm (wSwapIn.map Row.exp) := by
  refine ⟨recombinePositional_same_order, ?_, ?_⟩
  · exact List.isPerm_iff.mp recombine_witness.1
  · intro hp
    have := List.isPerm_iff.mpr hp
    rw [recombine_witness.2] at this
    cases this

/-- **Smoothers keep a sub-collection.** For each shipped smoother (the ensemble included): the output rows, ignoring
    the plate label, are a sub-multiset of the input rows. -/
theorem C11_smoother_subcollection (sm : Smoother) (s out : Screen) (h : sm.wrapped s = .ok out) :
    ((rowsOf out).map unlabelled).Subperm ((rowsOf s).map unlabelled) :=
  (wrap_smoothOk (fun _ _ _ _ _ hu hm h => smoother_facts sm hu hm h) h).1

/-- the smoothers that only drop rows (fixed size, optimal size, per-sample minimum) keep the plate labels too:
    the output *records* are a sub-multiset of the input records -/
theorem C11_dropping_smoothers_keep_labels (sm : Smoother) (s out : Screen) (h : sm.wrapped s = .ok out)
    (hsm : (∃ k ch, sm = .fixedSize k ch) ∨ (∃ ch, sm = .optimalSize ch) ∨ (∃ k, sm = .nPlate k)) :
    (rowsOf out).Subperm (rowsOf s) := by
  apply wrap_subperm_rows _ h
  intro u nu hnu
  rcases hsm with ⟨k, ch, rfl⟩ | ⟨ch, rfl⟩ | ⟨k, rfl⟩
  · exact fixedSize_sublist hnu
  · exact optimal_sublist hnu
  · exact nPlate_sublist hnu

/-- **Observed part passes through.** For every generator and every smoother: the observed rows of the result are the
    observed rows of the input -- the same records (plate label, observation, mask = observed) in the same order --
    and whenever there is something unobserved, the unobserved rows of the result are exactly what the inner
    operation returned for the screen built from the unobserved rows. -/
theorem C11_observed_passthrough (op : Generator ⊕ Smoother) (s out : Screen)
    (h : (match op with | .inl g => g.wrapped s | .inr sm => sm.wrapped s) = .ok out) :
    observedRows out = observedRows s ∧
      (unobservedRows s ≠ [] → ∃ u nu, build s.ctrl s.arity (unobservedRows s) = .ok u ∧
        (match op with | .inl g => g.run u | .inr sm => sm.run u) = .ok nu ∧ unobservedRows out = rowsOf nu) := by
  cases op with
  | inl g =>
    simp only at h ⊢
    rcases wrap_ok' h with ⟨he, rfl⟩ | ⟨u, nu, hu, hnu, hrows⟩
    · exact ⟨rfl, fun hne => absurd he hne⟩
    · obtain ⟨e1, e2⟩ := assemble_observed (generator_facts g hu unobserved_mask hnu).2 hrows
      exact ⟨e1, fun _ => ⟨u, nu, hu, hnu, e2⟩⟩
  | inr sm =>
    simp only at h ⊢
    rcases wrap_ok' h with ⟨he, rfl⟩ | ⟨u, nu, hu, hnu, hrows⟩
    · exact ⟨rfl, fun hne => absurd he hne⟩
    · obtain ⟨e1, e2⟩ := assemble_observed (smoother_facts sm hu unobserved_mask hnu).2 hrows
      exact ⟨e1, fun _ => ⟨u, nu, hu, hnu, e2⟩⟩

/-- **Merging relabels only.** On the screen the wrapper hands them, both merge smoothers return the same rows in the
    same order with only the plate label changed, by a renaming function of the old label (so plates only merge). -/
theorem C11_merge_relabels_only (sm : Smoother) (hsm : (∃ k pops, sm = .mergeMin k pops) ∨ (∃ n, sm = .mergeTopBottom n))
    (c : Name) (a : Nat) (rows : List Row) (u nu : Screen) (hu : build c a rows = .ok u) (h : sm.run u = .ok nu) :
    ∃ ρ : Name → Name, rowsOf nu = rows.map (fun r => { r with plate := ρ r.plate }) := by
  rcases hsm with ⟨k, pops, rfl⟩ | ⟨n, rfl⟩
  · obtain ⟨ρ, e, _⟩ := (mergeMin_shape hu h).rename; exact ⟨ρ, e⟩
  · obtain ⟨ρ, e, _⟩ := (mergeTopBottom_shape hu h).rename; exact ⟨ρ, e⟩

/-- consequently the wrapped merge smoothers conserve all experiments (not merely a sub-collection) -/
theorem C11_merge_conserves (sm : Smoother) (hsm : (∃ k pops, sm = .mergeMin k pops) ∨ (∃ n, sm = .mergeTopBottom n))
    (s out : Screen) (h : sm.wrapped s = .ok out) :
    ((rowsOf out).map unlabelled).Perm ((rowsOf s).map unlabelled) := by
  rcases wrap_ok' h with ⟨_, rfl⟩ | ⟨u, nu, hu, hnu, hrows⟩
  · exact List.Perm.refl _
  · obtain ⟨ρ, e⟩ := C11_merge_relabels_only sm hsm _ _ _ u nu hu hnu
    apply assemble_perm _ hrows
    rw [e, List.map_map]
    exact List.Perm.refl _

/-- the permutation generator moreover permutes the plate *labels*: the multiset of labels is conserved -/
theorem C11_permutation_labels (force perm : List Name) (s out : Screen)
    (h : (Generator.permutation force perm).wrapped s = .ok out) :
    ((rowsOf out).map (·.plate)).Perm ((rowsOf s).map (·.plate)) := by
  rcases wrap_ok' h with ⟨_, rfl⟩ | ⟨u, nu, hu, hnu, hrows⟩
  · exact List.Perm.refl _
  · have B := build_ok hu
    obtain ⟨_, _, h3⟩ := genPermutation_spec hnu (by rw [B.rows_eq]; exact unobserved_mask)
    rw [B.rows_eq] at h3
    rw [hrows, List.map_append]
    refine (List.Perm.append_right _ h3).trans ?_
    rw [← List.map_append]
    exact (rows_split_perm s).map _

/-- model consistency: the `subset(sel).to_screen()` used by this model (`Prep.select`, on rows) is the shared, separately
    validated `Screen.viewToScreen` on every constructed screen and every selection vector -/
theorem C11_select_is_to_screen (r : Raw) (s : Screen) (hs : mk? r = .ok s) (sel : List Bool) :
    select s sel = s.viewToScreen { parent := 0, sel := sel } :=
  select_eq_viewToScreen hs sel

/-! ### initial plate and combination filter -/

/-- the sparse-cover initial plate generator returns the same experiments in the same order (only plate label and mask change) -/
theorem C11_initial_plate_conserves (r : Raw) (reveal : Bool) (log : List Nat) (s out : Screen)
    (hs : mk? r = .ok s) (h : sparseCover reveal log s = .ok out) :
    (rowsOf out).map Row.exp = (rowsOf s).map Row.exp :=
  sparseCover_exp h (facts_of_mk hs).tids_len

/-- the combination filter returns a sublist of the input records (plate label, mask, observation untouched) -/
theorem C11_combo_filter_subcollection (s t : Screen) (h : comboFilter s = .ok t) : (rowsOf t).Sublist (rowsOf s) :=
  comboFilter_sublist h

/-! ### the hypotheses are satisfiable (concrete 7-row screen `exRaw`: two samples, unobserved plates of sizes 2, 1 and 3,
    one observed plate, a single-agent row and a duplicate condition; evaluated by `decide` in `Lemmas/PrepExamples.lean`) -/

example : ∃ s kh, mk? exRaw = .ok s ∧ holdoutBalanced (fun n => (n + 1) / 2) [[0],[3],[1,5]] s = .ok kh := ex_holdout_balanced
example : ∃ s kh, mk? exRaw = .ok s ∧ holdoutBalanced (fun _ => 0) [[],[],[]] s = .ok kh := ex_holdout_fraction_zero
example : ∃ s kh, mk? exRaw = .ok s ∧ holdoutBalanced (fun n => n) [[2,0],[3],[1,5,4]] s = .ok kh := ex_holdout_fraction_one
example : ∃ s kh, mk? exRaw = .ok s ∧ holdoutRandom (fun n => (n + 1) / 2) [0,2,4,6] s = .ok kh := ex_holdout_random
-- the `_fraction` theorems: `ceilCount (1/2) n = (n + 1) / 2`, `ceilCount 0 n = 0`, `ceilCount 1 n = n` (the count functions of the examples above)
example : ceilCount 0 3 = 0 ∧ ceilCount 1 3 = 3 := ⟨ceilCount_zero 3, ceilCount_one 3⟩
example : ∃ s out, mk? exRaw = .ok s ∧
    (Generator.permutation [] [[112,51],[112,49],[112,49],[112,50],[112,51],[112,51]]).wrapped s = .ok out := ex_wrapped_permutation
example : ∃ s out, mk? exRaw = .ok s ∧ (Generator.segregating 2 [[0,3,2],[5,1,4]]).wrapped s = .ok out := ex_wrapped_segregating
example : ∃ s out, mk? exRaw = .ok s ∧ (Generator.pairwise 1 0 [] [[2,0,4,1,3]] [[genName 3]]).wrapped s = .ok out := ex_wrapped_pairwise
example : ∃ s out, mk? exRaw = .ok s ∧ (Smoother.mergeMin 3 [3,0]).wrapped s = .ok out := ex_wrapped_mergeMin
example : ∃ s out, mk? exRaw = .ok s ∧ (Smoother.fixedSize 2 [[1,4]]).wrapped s = .ok out := ex_wrapped_fixedSize
example : ∃ s out, mk? exRaw = .ok s ∧ (Smoother.optimalSize [[4,5]]).wrapped s = .ok out := ex_wrapped_optimalSize
example : ∃ s out, mk? exRaw = .ok s ∧ (Smoother.nPlate 2).wrapped s = .ok out := ex_wrapped_nPlate
example : ∃ s out, mk? exRaw = .ok s ∧ (Smoother.ensemble 3 1 1 [3,0] []).wrapped s = .ok out := ex_wrapped_ensemble
example : ∃ s out, mk? (rawOfRows [] 2 exOne none none) = .ok s ∧ (Smoother.mergeTopBottom 2).wrapped s = .ok out := ex_wrapped_mergeTopBottom
example : ∃ s out, mk? (rawOfRows [] 2 exFull none none) = .ok s ∧ sparseCover true [0, 1, 3, 5] s = .ok out := ex_sparse_cover
example : ∃ s out, mk? exRaw = .ok s ∧ comboFilter s = .ok out := ex_combo_filter

end Batchie.Props.C11
