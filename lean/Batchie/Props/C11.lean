/-
  C11 -- retrospective preparation conserves experiments; the hold-out split partitions.

  Only the property theorems (and examples showing the hypotheses are satisfiable).  The model is `Model/Prep.lean`
  (validated against /repo by `harness/c11.py`); helper lemmas live in `Lemmas/Prep*.lean`.

  Reading guide.  `rowsOf s` are the experiments of a screen as records (sample, treatment names, doses, observation bits,
  plate, mask).  Every randomised operation takes the values the generator returned as an explicit argument and checks the
  generator contract on them; "the operation returned `.ok`" therefore quantifies over **all** logs satisfying the contract.
-/
import Batchie.Lemmas.PrepHoldout

namespace Batchie.Props.C11
open Batchie.Proto Batchie.Screen Batchie.Prep

/-- an experiment together with its plate label -/
def labelled (r : Row) : (Name × List Name × List Dose × Nat) × Name := (r.exp, r.plate)

/-! ### hold-out splits -/

theorem split_partition {s keep hold : Screen} {chosen : List Nat} (h : holdoutSplit s chosen = .ok (keep, hold)) :
    ((rowsOf keep).map labelled ++ (rowsOf hold).map labelled).Perm ((rowsOf s).map labelled) := by
  obtain ⟨hk, hh⟩ := holdoutSplit_ok h
  rw [hk, hh, List.map_map]
  have e : (labelled ∘ fun r : Row => { r with mask := true }) = labelled := rfl
  rw [e, ← List.map_append]
  apply List.Perm.map
  have := maskFilter_perm_split (rowsOf s) (selOfIdx (rowsOf s).length chosen) (length_selOfIdx _ _)
  exact List.perm_append_comm.trans this

/-- **Partition (plate-balanced hold-out).** Training ⊎ hold-out = input as multisets of (experiment, plate label),
    for every count function `kf` (in particular `n ↦ ceil(fl(n × fraction))` for every fraction in `[0,1]`, both ends
    included) and every choice log. -/
theorem C11_holdout_partition (kf : Nat → Nat) (choices : List (List Nat)) (s keep hold : Screen)
    (h : holdoutBalanced kf choices s = .ok (keep, hold)) :
    ((rowsOf keep).map labelled ++ (rowsOf hold).map labelled).Perm ((rowsOf s).map labelled) := by
  unfold holdoutBalanced at h
  obtain ⟨chosen, _, h⟩ := bind_ok h
  exact split_partition h

/-- **Partition (random hold-out).** -/
theorem C11_holdout_partition_random (kf : Nat → Nat) (choice : List Nat) (s keep hold : Screen)
    (h : holdoutRandom kf choice s = .ok (keep, hold)) :
    ((rowsOf keep).map labelled ++ (rowsOf hold).map labelled).Perm ((rowsOf s).map labelled) := by
  unfold holdoutRandom at h
  simp only at h
  split at h
  · cases h
  · exact split_partition h

theorem split_masks {s keep hold : Screen} {chosen : List Nat} (h : holdoutSplit s chosen = .ok (keep, hold)) :
    (∀ x ∈ rowsOf hold, x.mask = true) ∧ (rowsOf keep).Sublist (rowsOf s) := by
  obtain ⟨hk, hh⟩ := holdoutSplit_ok h
  constructor
  · intro x hx
    rw [hh] at hx
    obtain ⟨y, _, rfl⟩ := List.mem_map.mp hx
    rfl
  · rw [hk]; exact maskFilter_sublist _ _

/-- **Masks.** The hold-out is fully observed; the training rows are input rows *as they were* (a sublist of the
    input records, mask and plate label included). -/
theorem C11_holdout_masks (kf : Nat → Nat) (choices : List (List Nat)) (s keep hold : Screen)
    (h : holdoutBalanced kf choices s = .ok (keep, hold)) :
    (∀ x ∈ rowsOf hold, x.mask = true) ∧ (rowsOf keep).Sublist (rowsOf s) := by
  unfold holdoutBalanced at h
  obtain ⟨chosen, _, h⟩ := bind_ok h
  exact split_masks h

theorem C11_holdout_masks_random (kf : Nat → Nat) (choice : List Nat) (s keep hold : Screen)
    (h : holdoutRandom kf choice s = .ok (keep, hold)) :
    (∀ x ∈ rowsOf hold, x.mask = true) ∧ (rowsOf keep).Sublist (rowsOf s) := by
  unfold holdoutRandom at h
  simp only at h
  split at h
  · cases h
  · exact split_masks h

/-- **Counts (plate-balanced hold-out).** For every constructed screen and every plate name `p`: the hold-out holds no
    experiment of `p` when the plate is observed (or absent), and exactly `kf (size of p)` of them when it is
    unobserved. -/
theorem C11_holdout_counts (r : Raw) (kf : Nat → Nat) (choices : List (List Nat)) (s keep hold : Screen)
    (hs : mk? r = .ok s) (h : holdoutBalanced kf choices s = .ok (keep, hold)) (p : Name) :
    ((rowsOf hold).filter (fun x => x.plate == p)).length =
      if ((rowsOf s).filter (fun x => x.plate == p)).all (·.mask) then 0
      else kf ((rowsOf s).filter (fun x => x.plate == p)).length := by
  have F := facts_of_mk hs
  unfold holdoutBalanced at h
  obtain ⟨chosen, hc, h⟩ := bind_ok h
  obtain ⟨picks, rfl, hp⟩ := balancedLoop_picked _ _ _ _ _ hc
  have hdis : (plateIdx s).Pairwise (fun a b => ∀ i ∈ a, i ∉ b) :=
    pairwise_disjoint_map_idxOfId _ _ (nodup_uniqueSorted _)
  obtain ⟨hnd, hcnt⟩ := hp.count hdis
  have hlen : s.pids.length = (rowsOf s).length := by rw [F.pids_eq, List.length_map, F.pnames_eq, List.length_map]
  have hlt : ∀ i ∈ picks.flatten, i < (rowsOf s).length := by
    intro i hi
    obtain ⟨q, hq, hiq⟩ := hp.mem_flatten i hi
    obtain ⟨x, _, rfl⟩ := List.mem_map.mp hq
    rw [← hlen]; exact idxOfId_lt hiq
  obtain ⟨_, hh⟩ := holdoutSplit_ok h
  rw [hh, List.filter_map, List.length_map]
  have e : ((fun x : Row => x.plate == p) ∘ fun r : Row => { r with mask := true }) = fun x => x.plate == p := rfl
  rw [e, count_selected_plate _ _ _ hnd hlt, ← plateObserved_posOf]
  by_cases hmem : p ∈ s.pnames
  · have ht : posOf ((rowsOf s).map (·.plate)) p = idxOfId s.pids (sId (freshSMap s.pnames) p) := by
      rw [F.pids_eq, ← F.pnames_eq]
      exact (idxOfId_map_inj s.pnames _ (fun a ha b hb => sId_inj s.pnames a b ha hb) p hmem).symm
    have htm : posOf ((rowsOf s).map (·.plate)) p ∈ plateIdx s := by
      rw [ht]
      apply List.mem_map_of_mem
      rw [mem_uniqueSorted, F.pids_eq]
      exact List.mem_map_of_mem hmem
    rw [hcnt _ htm]
    rw [filter_plate_eq_posOf_map, List.length_map]
  · have : posOf ((rowsOf s).map (·.plate)) p = [] := posOf_eq_nil (by rw [← F.pnames_eq]; exact hmem)
    rw [this]
    have z : (picks.flatten.filter (fun i => ([] : List Nat).contains i)).length = 0 := by
      rw [filter_eq_nil_of_forall _ _ (by intro a _; rfl)]; rfl
    rw [z]
    simp [plateObserved]

/-- **Counts (random hold-out).** Exactly `kf (number of experiments)` experiments are held out. -/
theorem C11_holdout_counts_random (kf : Nat → Nat) (choice : List Nat) (s keep hold : Screen)
    (h : holdoutRandom kf choice s = .ok (keep, hold)) :
    (rowsOf hold).length = kf (rowsOf s).length := by
  unfold holdoutRandom at h
  simp only at h
  split at h
  · cases h
  · rename_i hv
    simp only [Bool.not_eq_true', Bool.not_eq_false] at hv
    obtain ⟨hl, hnd, hsub⟩ := validChoice_iff.mp hv
    obtain ⟨_, hh⟩ := holdoutSplit_ok h
    rw [hh, List.length_map, maskFilter_selOfIdx, List.length_map]
    have := length_filter_range_contains (rowsOf s).length choice (fun _ => true) hnd (fun i hi => List.mem_range.mp (hsub i hi))
    simp only [Bool.and_true] at this
    rw [this, filter_eq_self_of_forall _ _ (by intro a _; rfl), hl]

end Batchie.Props.C11
