/-
  C01 — Screen identifiers are a faithful, dense encoding of names and doses.

  All statements are about the executable model `Batchie.Screen` (Model/Screen.lean), which the
  correspondence harness `harness/c01.py` runs against `batchie.data.Screen(...)` on every check.
  Lists, names, doses, arity and the control name are arbitrary everywhere.

  CLAUSE MAP (property text → theorems; `mk? r = .ok s` is "the screen s can be constructed from the arguments r")

  1. "each experiment's treatment id decodes through the screen's treatment mapping to exactly that experiment's (name, dose)"
       → `C01_decode` (every cell of every built screen, with or without supplied mappings), `C01_shape` (the id table has the
         shape of the name table); the mapping is a function on keys: `C01_fresh_keys_nodup_sorted`, `C01_built_isBatchie`.
  2. "a treatment carries the control sentinel (-1) exactly when its name is the control name or its dose is not positive"
       → `C01_control_iff` (no mapping supplied), `C01_control_iff_supplied` (mapping batchie produced under the screen's control
         name), table level `C01_control_iff_table`. (For a mapping produced under ANOTHER control name the clause is false in the
         code too — the ids are followed verbatim; such inputs are outside the quantifier.)
  3. "non-control treatment ids … are the dense range 0..n-1 with equal ids iff equal (name, dose)"
       → table: `C01_treat_dense`, `C01_treat_count`, `C01_treat_inj`, `C01_cumsum_is_filter_index`, `C01_renumber_spec`;
         cells of the screen: `C01_cells_dense_fresh` (the ids used are exactly 0..n_unique_treatments-1), `C01_cell_ids_eq_iff`
         (cell against cell, hypothesis `IsBatchieTMap s.tmap` discharged for every in-quantifier screen by `C01_built_isBatchie`).
  4. "sample ids and plate ids are each the dense range 0..n-1 with equal ids iff equal name"
       → table: `C01_sample_dense`, `C01_sample_inj`; rows of the screen: `C01_row_ids_dense`, `fresh1d_ids_dense`,
         `C01_row_ids_eq_iff` (row against row; plates always, samples for a fresh or batchie-produced sample mapping),
         decode `C01_decode_samples`, `C01_decode_plates`.
  5. "a supplied mapping is followed verbatim" → `C01_supplied_verbatim`;
     "(or rejected if it does not cover the data or is not dense)" → `C01_supplied_rejected`, `C01_supplied_accepted`,
         `Screen.isZeroIndexed_sound` / `_complete`; "that batchie itself produced for a superset" is accepted → `C01_superset_accepted`.
  6. "the experiment-space sizes derived from a screen strictly bound every id in it" → `C01_space_bounds`, `C01_space_bounds_fresh`
         (sizes = `nUniqueTreatments` / `nUniqueSamples`, executed against `ExperimentSpace` by the driver op `espace`).
  7. "for every screen that can be constructed" → `Screen.mk?_ok_iff` (exact characterisation of success), `C01_fresh_accepted`
         (every well-shaped input without mappings is constructed), `Screen.mk?_eq_mkStaged`;
         the only non-Python result of the model, `.other`, is characterised exactly (`C01_other_iff_duplicate`: a cell key / sample name
         of the data listed twice in a supplied mapping) and never occurs for a mapping with pairwise different keys, in particular never
         for a batchie-produced one (`C01_never_other`).
  Regression (not a clause), in Props/C01Regress.lean: S7-C01 control name matched after case folding → `S7_C01_normalised_control_test_breaks_iff` (general),
         `S7_C01_casefold_counterexample` (witness), against the general `freshTableWith_control_iff`; S5-C01 / S6-C01 are memory-layout effects (harness-only).
  harness-only: independence of memory layout / dtype width / writability and "inputs unchanged" (no arrays in a functional model);
         the sign of a -0.0 dose (doses are exact rationals); `ExperimentSpace.save_h5`/`load_h5` carrying the mapping (container fidelity
         of h5py, np.char.encode/decode); pandas' drop_duplicates / sort_values / merge agreeing with eraseDups / mergeSort / lookup (tie).
-/
import Batchie.Lemmas.EncodeAudit

namespace Batchie.Props.C01
open Batchie.Screen Batchie.Proto

/-! ### the renumbering `index - is_control.cumsum()` -/

/-- **Renumbering lemma.** For a duplicate-free table `u` and any control predicate `c`, the code's
    `new_index k = k - |{l ≤ k : c u_l}|` (inclusive cumulative sum), overwritten with `-1` on control rows, is
    `-1` on control rows and otherwise the position of `u_k` in the table with the control rows removed.
    (An exclusive cumsum, or `<` for `≤` in the control test, makes this false at the first control row.) -/
theorem C01_cumsum_is_filter_index {α : Type} [BEq α] [LawfulBEq α] (c : α → Bool) (u : List α) (hnd : u.Nodup)
    (k : Nat) (hk : k < u.length) :
    (renumber (u.map c))[k]'(by simpa using hk) =
      if c u[k] then (-1 : Int) else (((u.filter (fun x => !c x)).idxOf u[k] : Nat) : Int) := by
  have h := numberFrom_getElem 0 (u.map c) k (by simpa using hk)
  simp only [renumber_eq_numberFrom]
  rw [h]
  simp only [List.getElem_map, count_false_take_map]
  by_cases hc : c u[k] = true
  · simp [hc]
  · simp only [hc]
    rw [idxOf_filter_eq_countP (fun x => !c x) u hnd k hk (by simpa using hc)]
    simp

/-- the same, as a recursion-free description of the whole id column -/
theorem C01_renumber_spec (flags : List Bool) (k : Nat) (hk : k < flags.length) :
    (renumber flags)[k]'(by simpa using hk) = if flags[k] then (-1 : Int) else (((flags.take k).count false : Nat) : Int) := by
  simp only [renumber_eq_numberFrom]
  rw [numberFrom_getElem 0 flags k hk]; simp

/-! ### the fresh treatment table -/

/-- keys of the fresh table: exactly the distinct (name, dose) pairs of the data, each once, sorted by (name, dose) -/
theorem C01_fresh_keys_nodup_sorted (ctrl : Name) (xs : List (Name × Dose)) :
    let keys := (freshTMap ctrl xs).map (fun e => (e.1, e.2.1))
    keys.Nodup ∧ keys.Pairwise (fun a b => keyLe a b = true ∧ a ≠ b) ∧ (∀ k, k ∈ keys ↔ k ∈ xs) := by
  have hk : (freshTMap ctrl xs).map (fun e => (e.1, e.2.1)) = sortedKeys xs := freshTMap_keys ctrl xs
  simp only [hk]
  exact ⟨sortedKeys_nodup xs, (sortedKeys_sorted xs).and (sortedKeys_nodup xs), mem_sortedKeys xs⟩

/-- in the fresh table an entry carries the control sentinel iff its name is the control name or its dose is not positive -/
theorem C01_control_iff_table (ctrl : Name) (xs : List (Name × Dose)) (e : Name × Dose × Int) (he : e ∈ freshTMap ctrl xs) :
    e.2.2 = -1 ↔ (e.1 = ctrl ∨ e.2.1 ≤ 0) := by
  rw [freshTable_control_iff ctrl (sortedKeys xs) e (by rw [← freshTMap_eq_freshTable]; exact he)]
  simp only [isControl, Bool.or_eq_true, decide_eq_true_eq, beq_iff_eq]
  exact Or.comm

/-- non-control ids of the fresh table, in table order, are exactly `0, 1, …, m-1` (no gap, no repeat, ascending in the
    sorted key order), where `m` is the number of distinct non-control (name, dose) pairs -/
theorem C01_treat_dense (ctrl : Name) (xs : List (Name × Dose)) :
    ((freshTMap ctrl xs).map (·.2.2)).filter (· != -1) =
      (List.range (nNonControl ctrl xs)).map (fun (i : Nat) => (i : Int)) := by
  have h := freshTable_noncontrol_ids ctrl (sortedKeys xs)
  rw [← freshTMap_eq_freshTable] at h
  rw [nNonControl, ← h, List.filter_map]
  congr 1
  apply List.filter_congr
  intro e he
  have := freshTable_control_iff ctrl (sortedKeys xs) e (by rw [← freshTMap_eq_freshTable]; exact he)
  simp only [Function.comp, tKey]
  cases hc : isControl ctrl (e.1, e.2.1)
  · have : e.2.2 ≠ -1 := fun h => by rw [this.mp h] at hc; cases hc
    simp [this]
  · simp [this.mpr hc]

/-- …and that `m` is `ExperimentSpace.n_unique_treatments` -/
theorem C01_treat_count (ctrl : Name) (xs : List (Name × Dose)) :
    nUniqueTreatments (freshTMap ctrl xs) = nNonControl ctrl xs := nUniqueTreatments_freshTMap ctrl xs

/-- equal non-control ids ⇒ equal (name, dose); together with `C01_fresh_keys_nodup_sorted` (equal keys ⇒ same entry): iff -/
theorem C01_treat_inj (ctrl : Name) (xs : List (Name × Dose)) (e₁ e₂ : Name × Dose × Int)
    (h₁ : e₁ ∈ freshTMap ctrl xs) (h₂ : e₂ ∈ freshTMap ctrl xs) (hnc : e₁.2.2 ≠ -1) :
    e₁.2.2 = e₂.2.2 ↔ (e₁.1 = e₂.1 ∧ e₁.2.1 = e₂.2.1) := by
  rw [freshTMap_eq_freshTable] at h₁ h₂
  constructor
  · intro hid
    have := freshTable_inj ctrl _ e₁ e₂ h₁ h₂ hid hnc
    rw [this]; exact ⟨rfl, rfl⟩
  · rintro ⟨hn, hd⟩
    have hkeys : ((freshTable ctrl (sortedKeys xs)).map tKey).Nodup := by
      rw [freshTable_keys]; exact sortedKeys_nodup xs
    have := inj_of_nodup_map tKey _ hkeys e₁ e₂ h₁ h₂ (Prod.ext hn hd)
    rw [this]

/-! ### the fresh sample / plate table -/

/-- sample (and plate) names of the fresh table: the distinct names, each once, sorted; ids are `0, 1, …, n-1` in that order -/
theorem C01_sample_dense (xs : List Name) :
    let names := (freshSMap xs).map (·.1)
    names.Nodup ∧ names.Pairwise (fun a b => a < b) ∧ (∀ k, k ∈ names ↔ k ∈ xs) ∧
      (freshSMap xs).map (·.2) = (List.range names.length).map (fun (i : Nat) => (i : Int)) := by
  simp only [freshSMap_names, freshSMap_ids]
  refine ⟨sortedNames_nodup xs, ?_, mem_sortedNames xs, trivial⟩
  have := (sortedNames_sorted xs).and (sortedNames_nodup xs)
  refine this.imp ?_
  intro a b ⟨hle, hne⟩
  simp only [nameLe, decide_eq_true_eq] at hle
  rcases name_lt_trichotomy a b with h | h | h
  · exact h
  · exact absurd h hne
  · exact absurd h hle

/-- equal sample ids iff equal names -/
theorem C01_sample_inj (xs : List Name) (e₁ e₂ : Name × Int) (h₁ : e₁ ∈ freshSMap xs) (h₂ : e₂ ∈ freshSMap xs) :
    e₁.2 = e₂.2 ↔ e₁.1 = e₂.1 := by
  have hids : ((freshSMap xs).map (·.2)).Nodup := by
    rw [freshSMap_ids, List.Nodup, List.pairwise_map]
    exact List.nodup_range.imp (fun h h' => h (Int.ofNat_inj.mp h'))
  have hnames : ((freshSMap xs).map (·.1)).Nodup := by rw [freshSMap_names]; exact sortedNames_nodup xs
  constructor
  · intro h; rw [inj_of_nodup_map _ _ hids e₁ e₂ h₁ h₂ h]
  · intro h; rw [inj_of_nodup_map _ _ hnames e₁ e₂ h₁ h₂ h]

/-! ### the encoders never fail on fresh tables -/

/-- the fresh encoding never fails: every input key is found exactly once, so the result has one id per input,
    and that id is the table's id of the input's key -/
theorem C01_encode_total_fresh (ctrl : Name) (xs : List (Name × Dose)) :
    ∃ ids, encodeTreatments ctrl xs none = .ok (ids, freshTMap ctrl xs) ∧ ids.length = xs.length ∧
      (∀ k ∈ xs, ∃ i, tLookup (freshTMap ctrl xs) k = [i]) ∧
      ∀ j (hj : j < xs.length) (hj' : j < ids.length), (xs[j].1, xs[j].2, ids[j]) ∈ freshTMap ctrl xs := by
  have henc := encodeTreatments_fresh ctrl xs
  refine ⟨_, henc, by simp, ?_, ?_⟩
  · intro k hk
    have hmem : k ∈ (freshTMap ctrl xs).map tKey := by rw [freshTMap_keys]; exact (mem_sortedKeys xs k).mpr hk
    obtain ⟨e, he, rfl⟩ := List.mem_map.mp hmem
    exact ⟨e.2.2, tLookup_of_mem _ (by rw [freshTMap_keys]; exact sortedKeys_nodup xs) (tKey e) e.2.2 he⟩
  · intro j hj hj'
    exact encodeTreatments_decode ctrl xs none _ _ henc (by simp) j hj

theorem C01_encode1d_total_fresh (xs : List Name) :
    ∃ ids, encode1d xs none = .ok (ids, freshSMap xs) ∧ ids.length = xs.length ∧
      ∀ j (hj : j < xs.length) (hj' : j < ids.length), (xs[j], ids[j]) ∈ freshSMap xs := by
  have henc := encode1d_fresh xs
  refine ⟨_, henc, by simp, ?_⟩
  intro j hj hj'
  exact encode1d_decode xs none _ _ henc (by simp) j hj

/-! ### screens: `Screen.mk?` is the model of `Screen.__init__` -/

/-- **Decode (treatments).** For every successfully built screen — with or without supplied mappings — the id table has
    the shape of the name table, and for every cell `(i, c)` the triple (name, dose, id) is a row of the screen's
    treatment mapping. -/
theorem C01_decode (r : Raw) (s : Screen) (h : mk? r = .ok s) (i c : Nat) (hi : i < s.tnames.length) (hc : c < s.arity) :
    ∃ (h1 : c < s.tnames[i].length) (h2 : i < s.tdoses.length) (h3 : c < s.tdoses[i].length)
      (h4 : i < s.tids.length) (h5 : c < s.tids[i].length),
      (s.tnames[i][c], s.tdoses[i][c], s.tids[i][c]) ∈ s.tmap := by
  have m := (mk?_ok_iff r s).mp h
  obtain ⟨sctrl, sarity, stnames, stdoses, ssnames, spnames, sobs, smask, stids, ssids, spids, stmap, ssmap, spmap⟩ := s
  have e1 := m.tnames_eq; have e2 := m.tdoses_eq; have e3 := m.arity_eq
  simp only at e1 e2 e3 hi hc ⊢
  subst e1 e2 e3
  exact m.cell_decode i c hi hc

/-- **Decode (samples, plates).** -/
theorem C01_decode_samples (r : Raw) (s : Screen) (h : mk? r = .ok s) (i : Nat) (hi : i < s.snames.length) :
    ∃ (h1 : i < s.sids.length), (s.snames[i], s.sids[i]) ∈ s.smap := by
  have m := (mk?_ok_iff r s).mp h
  obtain ⟨sctrl, sarity, stnames, stdoses, ssnames, spnames, sobs, smask, stids, ssids, spids, stmap, ssmap, spmap⟩ := s
  have e1 := m.snames_eq
  simp only at e1 hi ⊢
  subst e1
  exact m.sample_decode i hi

theorem C01_decode_plates (r : Raw) (s : Screen) (h : mk? r = .ok s) (i : Nat) (hi : i < s.pnames.length) :
    ∃ (h1 : i < s.pids.length), (s.pnames[i], s.pids[i]) ∈ s.pmap := by
  have m := (mk?_ok_iff r s).mp h
  obtain ⟨sctrl, sarity, stnames, stdoses, ssnames, spnames, sobs, smask, stids, ssids, spids, stmap, ssmap, spmap⟩ := s
  have e1 := m.pnames_eq
  simp only at e1 hi ⊢
  subst e1
  exact m.plate_decode i hi

/-- all per-row arrays of a built screen have the same number of rows -/
theorem C01_shape (r : Raw) (s : Screen) (h : mk? r = .ok s) :
    s.tdoses.length = s.tnames.length ∧ s.snames.length = s.tnames.length ∧ s.pnames.length = s.tnames.length ∧
    s.tids.length = s.tnames.length ∧ s.sids.length = s.tnames.length ∧ s.pids.length = s.tnames.length ∧
    s.obs.length = s.tnames.length ∧ s.mask.length = s.tnames.length ∧
    (∀ row ∈ s.tnames, row.length = s.arity) ∧ (∀ row ∈ s.tdoses, row.length = s.arity) ∧ (∀ row ∈ s.tids, row.length = s.arity) := by
  have m := (mk?_ok_iff r s).mp h
  have hp : s.pids.length = r.tnames.length := by rw [m.pmap_eq.2, List.length_map, m.len_pnames]
  have ho : s.obs.length = r.tnames.length := by
    rw [m.obs_eq]
    have := m.len_obs
    unfold obsLenBad at this; unfold obsOf
    cases hobs : r.obs with
    | none => simp
    | some o => rw [hobs] at this; simpa using this
  rw [m.tnames_eq, m.tdoses_eq, m.snames_eq, m.pnames_eq, m.arity_eq, m.mask_eq]
  exact ⟨m.len_tdoses, m.len_snames, m.len_pnames, m.tids_shape.1, m.len_sids, hp, ho, m.len_mask,
    m.arity_tnames, m.arity_tdoses, m.tids_shape.2⟩

/-- **Control sentinel.** In a screen built without a supplied treatment mapping, a cell's id is `-1` exactly when
    its name is the control name or its dose is not positive. -/
theorem C01_control_iff (r : Raw) (s : Screen) (h : mk? r = .ok s) (hfresh : r.tmap = none)
    (i c : Nat) (hi : i < s.tnames.length) (hc : c < s.arity) :
    ∃ (h1 : c < s.tnames[i].length) (h2 : i < s.tdoses.length) (h3 : c < s.tdoses[i].length)
      (h4 : i < s.tids.length) (h5 : c < s.tids[i].length),
      (s.tids[i][c] = -1 ↔ (s.tnames[i][c] = s.ctrl ∨ s.tdoses[i][c] ≤ 0)) := by
  obtain ⟨h1, h2, h3, h4, h5, hmem⟩ := C01_decode r s h i c hi hc
  refine ⟨h1, h2, h3, h4, h5, ?_⟩
  have m := (mk?_ok_iff r s).mp h
  have ht := m.tmap_eq
  rw [hfresh] at ht
  simp only at ht
  rw [ht] at hmem
  rw [m.ctrl_eq]
  exact C01_control_iff_table r.ctrl (allKeys r) _ hmem

/-- **Supplied mappings are followed verbatim**; absent ones are the fresh tables of the screen's own data; the plate
    mapping is always fresh. -/
theorem C01_supplied_verbatim (r : Raw) (s : Screen) (h : mk? r = .ok s) :
    (∀ m, r.tmap = some m → s.tmap = m) ∧ (∀ m, r.smap = some m → s.smap = m) ∧
    (r.tmap = none → s.tmap = freshTMap r.ctrl (allKeys r)) ∧ (r.smap = none → s.smap = freshSMap r.snames) ∧
    s.pmap = freshSMap r.pnames := by
  have m := (mk?_ok_iff r s).mp h
  refine ⟨?_, ?_, ?_, ?_, m.pmap_eq.1⟩
  · intro tm htm; have := m.tmap_eq; rw [htm] at this; exact this
  · intro sm hsm; have := m.smap_eq; rw [hsm] at this; exact this
  · intro htm; have := m.tmap_eq; rw [htm] at this; exact this
  · intro hsm; have := m.smap_eq; rw [hsm] at this; exact this

/-- an id array is `{-1?} ∪ {0, …, n-1}` -/
def DenseIds (ids : List Int) : Prop :=
  ∃ n : Nat, ∀ x : Int, x ∈ ids ↔ ((x = -1 ∧ (-1 : Int) ∈ ids) ∨ (0 ≤ x ∧ x < (n : Int)))

/-- what an accepted screen guarantees about supplied mappings: ids dense, every cell key / sample name covered -/
theorem C01_supplied_accepted (r : Raw) (s : Screen) (h : mk? r = .ok s) :
    (∀ m, r.tmap = some m → DenseIds (m.map (·.2.2)) ∧ ∀ k ∈ allKeys r, k ∈ m.map tKey) ∧
    (∀ m, r.smap = some m → DenseIds (m.map (·.2)) ∧ ∀ k ∈ r.snames, k ∈ m.map (·.1)) := by
  have m := (mk?_ok_iff r s).mp h
  constructor
  · intro tm htm
    constructor
    · have := m.tmap_dense
      unfold tmapBad at this; rw [htm] at this
      exact isZeroIndexed_sound _ (by simpa using this)
    · have hc := m.covered
      have ht := m.tmap_eq
      rw [htm] at ht; simp only at ht
      rw [ht] at hc; exact hc
  · intro sm hsm
    constructor
    · have := m.smap_dense
      unfold smapBad at this; rw [hsm] at this
      exact isZeroIndexed_sound _ (by simpa using this)
    · have hc := m.samples_covered
      have ht := m.smap_eq
      rw [hsm] at ht; simp only at ht
      rw [ht] at hc; exact hc

/-- **Supplied mappings are rejected** when their ids are not `{-1?} ∪ 0..n-1` or when they miss a cell key /
    sample name of the data: `Screen.mk?` is an error. -/
theorem C01_supplied_rejected (r : Raw) :
    (∀ m, r.tmap = some m → (¬ DenseIds (m.map (·.2.2)) ∨ ∃ k ∈ allKeys r, k ∉ m.map tKey) → ∃ e, mk? r = .error e) ∧
    (∀ m, r.smap = some m → (¬ DenseIds (m.map (·.2)) ∨ ∃ k ∈ r.snames, k ∉ m.map (·.1)) → ∃ e, mk? r = .error e) := by
  constructor
  · intro tm htm hbad
    cases hres : mk? r with
    | error e => exact ⟨e, rfl⟩
    | ok s =>
      exfalso
      obtain ⟨hd, hcov⟩ := (C01_supplied_accepted r s hres).1 tm htm
      rcases hbad with hb | ⟨k, hk, hk'⟩
      · exact hb hd
      · exact hk' (hcov k hk)
  · intro sm hsm hbad
    cases hres : mk? r with
    | error e => exact ⟨e, rfl⟩
    | ok s =>
      exfalso
      obtain ⟨hd, hcov⟩ := (C01_supplied_accepted r s hres).2 sm hsm
      rcases hbad with hb | ⟨k, hk, hk'⟩
      · exact hb hd
      · exact hk' (hcov k hk)

/-- every cell of the data is one of the keys handed to the encoder (so "not covering the data" in
    `C01_supplied_rejected` includes every cell of the screen) -/
theorem C01_cell_is_key (r : Raw) (hd : r.tdoses.length = r.tnames.length)
    (han : ∀ row ∈ r.tnames, row.length = r.arity) (had : ∀ row ∈ r.tdoses, row.length = r.arity)
    (i c : Nat) (hi : i < r.tnames.length) (hc : c < r.arity) :
    ((r.tnames[i])[c]'(by rw [han _ (List.getElem_mem hi)]; exact hc),
      (r.tdoses[i]'(hd ▸ hi))[c]'(by rw [had _ (List.getElem_mem (hd ▸ hi))]; exact hc)) ∈ allKeys r :=
  List.mem_of_getElem? (allKeys_getElem? r hd han had i c hi hc)

/-- a mapping batchie itself produced (for any data, e.g. a superset of the screen's) -/
def IsBatchieTMap (M : TMap) : Prop := ∃ ctrl data, M = freshTMap ctrl data
def IsBatchieSMap (M : SMap) : Prop := ∃ data, M = freshSMap data

/-- **Experiment-space sizes strictly bound every id.** For fresh encodings unconditionally; for supplied mappings
    provided the mapping is one batchie produced (for whatever data, typically a superset). -/
theorem C01_space_bounds (r : Raw) (s : Screen) (h : mk? r = .ok s)
    (ht : ∀ m, r.tmap = some m → IsBatchieTMap m) (hs : ∀ m, r.smap = some m → IsBatchieSMap m) :
    (∀ row ∈ s.tids, ∀ id ∈ row, -1 ≤ id ∧ id < (nUniqueTreatments s.tmap : Int)) ∧
    (∀ id ∈ s.sids, 0 ≤ id ∧ id < (nUniqueSamples s.smap : Int)) := by
  have m := (mk?_ok_iff r s).mp h
  have htm : IsBatchieTMap s.tmap := by
    rw [m.tmap_eq]
    cases htmap : r.tmap with
    | none => exact ⟨r.ctrl, allKeys r, rfl⟩
    | some tm => exact ht tm htmap
  have hsm : IsBatchieSMap s.smap := by
    rw [m.smap_eq]
    cases hsmap : r.smap with
    | none => exact ⟨r.snames, rfl⟩
    | some sm => exact hs sm hsmap
  constructor
  · intro row hrow id hid
    obtain ⟨e, he, rfl⟩ := m.tid_mem row hrow id hid
    obtain ⟨ctrl, data, hM⟩ := htm
    rw [hM] at he ⊢
    exact freshTMap_id_lt ctrl data e he
  · intro id hid
    obtain ⟨e, he, rfl⟩ := m.sid_mem id hid
    obtain ⟨data, hM⟩ := hsm
    rw [hM] at he ⊢
    exact freshSMap_id_lt data e he

theorem C01_space_bounds_fresh (r : Raw) (s : Screen) (h : mk? r = .ok s) (ht : r.tmap = none) (hs : r.smap = none) :
    (∀ row ∈ s.tids, ∀ id ∈ row, -1 ≤ id ∧ id < (nUniqueTreatments s.tmap : Int)) ∧
    (∀ id ∈ s.sids, 0 ≤ id ∧ id < (nUniqueSamples s.smap : Int)) :=
  C01_space_bounds r s h (fun m hm => by rw [ht] at hm; cases hm) (fun m hm => by rw [hs] at hm; cases hm)

/-! ### statements at the level of the screen's cells and rows (added by the audit) -/

/-- **Control sentinel, supplied mapping.** Also in a screen built with a treatment mapping that batchie produced under the
    screen's control name for any data (the quantifier's "mapping for a superset"), a cell's id is `-1` exactly when its
    name is the control name or its dose is not positive. -/
theorem C01_control_iff_supplied (r : Raw) (s : Screen) (h : mk? r = .ok s) (data : List (Name × Dose))
    (ht : r.tmap = some (freshTMap r.ctrl data))
    (i c : Nat) (hi : i < s.tnames.length) (hc : c < s.arity) :
    ∃ (h1 : c < s.tnames[i].length) (h2 : i < s.tdoses.length) (h3 : c < s.tdoses[i].length)
      (h4 : i < s.tids.length) (h5 : c < s.tids[i].length),
      (s.tids[i][c] = -1 ↔ (s.tnames[i][c] = s.ctrl ∨ s.tdoses[i][c] ≤ 0)) := by
  obtain ⟨h1, h2, h3, h4, h5, hmem⟩ := C01_decode r s h i c hi hc
  refine ⟨h1, h2, h3, h4, h5, ?_⟩
  have m := (mk?_ok_iff r s).mp h
  rw [(C01_supplied_verbatim r s h).1 _ ht] at hmem
  rw [m.ctrl_eq]
  exact C01_control_iff_table r.ctrl data _ hmem

/-- **Equal ids iff equal (name, dose), cell against cell.** In every built screen whose treatment mapping batchie produced
    (fresh, or supplied for a superset): two cells with the same (name, dose) carry the same id, and two cells that share a
    non-control id have the same (name, dose). -/
theorem C01_cell_ids_eq_iff (r : Raw) (s : Screen) (h : mk? r = .ok s) (hM : IsBatchieTMap s.tmap)
    (i c j d : Nat) (hi : i < s.tnames.length) (hc : c < s.arity) (hj : j < s.tnames.length) (hd : d < s.arity) :
    ∃ (a1 : c < s.tnames[i].length) (a2 : i < s.tdoses.length) (a3 : c < s.tdoses[i].length)
      (a4 : i < s.tids.length) (a5 : c < s.tids[i].length)
      (b1 : d < s.tnames[j].length) (b2 : j < s.tdoses.length) (b3 : d < s.tdoses[j].length)
      (b4 : j < s.tids.length) (b5 : d < s.tids[j].length),
      ((s.tnames[i][c] = s.tnames[j][d] ∧ s.tdoses[i][c] = s.tdoses[j][d]) → s.tids[i][c] = s.tids[j][d]) ∧
      (s.tids[i][c] ≠ -1 → s.tids[i][c] = s.tids[j][d] →
        (s.tnames[i][c] = s.tnames[j][d] ∧ s.tdoses[i][c] = s.tdoses[j][d])) := by
  obtain ⟨a1, a2, a3, a4, a5, hm1⟩ := C01_decode r s h i c hi hc
  obtain ⟨b1, b2, b3, b4, b5, hm2⟩ := C01_decode r s h j d hj hd
  refine ⟨a1, a2, a3, a4, a5, b1, b2, b3, b4, b5, ?_, ?_⟩
  · rintro ⟨hn, hdose⟩
    obtain ⟨ctrl, data, hM⟩ := hM
    have hnd : (s.tmap.map tKey).Nodup := by rw [hM, freshTMap_keys]; exact sortedKeys_nodup data
    rw [← hn, ← hdose] at hm2
    exact tmap_id_unique s.tmap hnd (s.tnames[i][c], s.tdoses[i][c]) _ _ hm1 hm2
  · intro hnc hid
    obtain ⟨ctrl, data, hM⟩ := hM
    rw [hM] at hm1 hm2
    exact (C01_treat_inj ctrl data _ _ hm1 hm2 hnc).mp hid

/-- **The non-control ids used by the cells are the whole dense range.** In a screen built without a supplied treatment
    mapping an integer occurs as a non-control id of some cell iff it lies in `0 … n_unique_treatments - 1`: no gap, nothing
    beyond (the table-level statement is `C01_treat_dense`; with a supplied superset mapping only `⊆` holds, `C01_space_bounds`). -/
theorem C01_cells_dense_fresh (r : Raw) (s : Screen) (h : mk? r = .ok s) (hfresh : r.tmap = none) (x : Int) :
    (x ≠ -1 ∧ ∃ row ∈ s.tids, x ∈ row) ↔ (0 ≤ x ∧ x < (nUniqueTreatments s.tmap : Int)) := by
  have m := (mk?_ok_iff r s).mp h
  have htm : s.tmap = freshTMap r.ctrl (allKeys r) := (C01_supplied_verbatim r s h).2.2.1 hfresh
  rw [htm, C01_treat_count]
  constructor
  · rintro ⟨hne, row, hrow, hx⟩
    obtain ⟨e, he, rfl⟩ := m.tid_mem row hrow x hx
    rw [htm] at he
    exact (freshTMap_id_mem_iff r.ctrl (allKeys r) e.2.2).mp ⟨List.mem_map.mpr ⟨e, he, rfl⟩, hne⟩
  · intro hx
    obtain ⟨hmem, hne⟩ := (freshTMap_id_mem_iff r.ctrl (allKeys r) x).mpr hx
    refine ⟨hne, ?_⟩
    obtain ⟨e, he, rfl⟩ := List.mem_map.mp hmem
    have hkey : tKey e ∈ allKeys r := by
      rw [← mem_sortedKeys, ← freshTMap_keys r.ctrl]; exact List.mem_map.mpr ⟨e, he, rfl⟩
    obtain ⟨i, c, hi, hc, hcell⟩ := allKeys_mem_cell r m.len_tdoses m.arity_tnames m.arity_tdoses _ hkey
    obtain ⟨_, _, _, h4, h5, hdec⟩ := m.cell_decode i c hi hc
    have hnd : (s.tmap.map tKey).Nodup := by rw [htm, freshTMap_keys]; exact sortedKeys_nodup _
    have he' : ((tKey e).1, (tKey e).2, e.2.2) ∈ s.tmap := by rw [htm]; exact he
    rw [hcell] at he'
    have := tmap_id_unique s.tmap hnd _ _ _ hdec he'
    exact ⟨s.tids[i], List.getElem_mem h4, this ▸ List.getElem_mem h5⟩

/-- ids of a fresh one-column encoding (samples, plates): exactly `0 … (number of distinct names) - 1`, all of them used -/
theorem fresh1d_ids_dense (xs : List Name) (ids : List Int) (sm : SMap) (h : encode1d xs none = .ok (ids, sm)) (x : Int) :
    x ∈ ids ↔ (0 ≤ x ∧ x < (nUniqueSamples sm : Int)) := by
  have hf := encode1d_fresh xs
  rw [hf] at h
  injection h with h
  injection h with h1 h2
  subst h1 h2
  have hlen : (xs.map (sId (freshSMap xs))).length = xs.length := by simp
  constructor
  · intro hx
    obtain ⟨j, hj, rfl⟩ := List.getElem_of_mem hx
    have hj' : j < xs.length := by rw [← hlen]; exact hj
    have := encode1d_decode xs none _ _ hf hlen j hj'
    exact freshSMap_id_lt xs _ this
  · rintro ⟨h0, h1⟩
    rw [nUniqueSamples_freshSMap] at h1
    have hk : x.toNat < (sortedNames xs).length := by omega
    have hmem : ((sortedNames xs)[x.toNat], x) ∈ freshSMap xs := by
      rw [mem_freshSMap]; exact ⟨x.toNat, hk, by simp; omega⟩
    have hin : (sortedNames xs)[x.toNat] ∈ xs := (mem_sortedNames xs _).mp (List.getElem_mem hk)
    obtain ⟨j, hj, hjx⟩ := List.getElem_of_mem hin
    have hdec := encode1d_decode xs none _ _ hf hlen j hj
    rw [hjx] at hdec
    have hnd : ((freshSMap xs).map (·.1)).Nodup := by rw [freshSMap_names]; exact sortedNames_nodup xs
    have := inj_of_nodup_map (·.1) _ hnd _ _ hdec hmem rfl
    have hid : (xs.map (sId (freshSMap xs)))[j]'(hlen ▸ hj) = x := (Prod.mk.inj this).2
    rw [← hid]; exact List.getElem_mem _

/-- **Sample ids and plate ids used by the rows are the dense range `0 … n-1`** (samples: when no sample mapping is
    supplied; plates: always — the plate table is always fresh) -/
theorem C01_row_ids_dense (r : Raw) (s : Screen) (h : mk? r = .ok s) (x : Int) :
    (r.smap = none → (x ∈ s.sids ↔ (0 ≤ x ∧ x < (nUniqueSamples s.smap : Int)))) ∧
    (x ∈ s.pids ↔ (0 ≤ x ∧ x < (nUniqueSamples s.pmap : Int))) := by
  have m := (mk?_ok_iff r s).mp h
  constructor
  · intro hs
    have := m.senc
    rw [hs] at this
    exact fresh1d_ids_dense r.snames s.sids s.smap this x
  · exact fresh1d_ids_dense r.pnames s.pids s.pmap m.penc x

/-- every screen inside the quantifier (no mapping, or a mapping batchie produced) carries a batchie-produced treatment / sample
    mapping: discharges the hypothesis of `C01_cell_ids_eq_iff`, `C01_space_bounds` and `C01_row_ids_eq_iff` for constructed screens -/
theorem C01_built_isBatchie (r : Raw) (s : Screen) (h : mk? r = .ok s) :
    ((∀ m, r.tmap = some m → IsBatchieTMap m) → IsBatchieTMap s.tmap) ∧
    ((∀ m, r.smap = some m → IsBatchieSMap m) → IsBatchieSMap s.smap) ∧ IsBatchieSMap s.pmap := by
  have m := (mk?_ok_iff r s).mp h
  refine ⟨fun ht => ?_, fun hs => ?_, ⟨r.pnames, m.pmap_eq.1⟩⟩
  · rw [m.tmap_eq]
    cases htm : r.tmap with
    | none => exact ⟨r.ctrl, allKeys r, rfl⟩
    | some tm => exact ht tm htm
  · rw [m.smap_eq]
    cases hsm : r.smap with
    | none => exact ⟨r.snames, rfl⟩
    | some sm => exact hs sm hsm

theorem isBatchieSMap_nodup (sm : SMap) (h : IsBatchieSMap sm) : (sm.map (·.1)).Nodup ∧ (sm.map (·.2)).Nodup := by
  obtain ⟨xs, rfl⟩ := h
  constructor
  · rw [freshSMap_names]; exact sortedNames_nodup xs
  · rw [freshSMap_ids, List.Nodup, List.pairwise_map]
    exact List.nodup_range.imp (fun h h' => h (Int.ofNat_inj.mp h'))

/-- **Equal sample / plate ids iff equal names, row against row.** In every built screen two rows carry the same plate id iff
    they carry the same plate name, and (when the sample mapping is fresh or batchie-produced) the same sample id iff the same
    sample name. -/
theorem C01_row_ids_eq_iff (r : Raw) (s : Screen) (h : mk? r = .ok s) (i j : Nat) (hi : i < s.snames.length) (hj : j < s.snames.length) :
    ∃ (a1 : i < s.sids.length) (a2 : j < s.sids.length) (b1 : i < s.pnames.length) (b2 : j < s.pnames.length)
      (c1 : i < s.pids.length) (c2 : j < s.pids.length),
      (IsBatchieSMap s.smap → (s.sids[i] = s.sids[j] ↔ s.snames[i] = s.snames[j])) ∧
      (s.pids[i] = s.pids[j] ↔ s.pnames[i] = s.pnames[j]) := by
  have sh := C01_shape r s h
  have b1 : i < s.pnames.length := by rw [sh.2.2.1, ← sh.2.1]; exact hi
  have b2 : j < s.pnames.length := by rw [sh.2.2.1, ← sh.2.1]; exact hj
  obtain ⟨a1, hs1⟩ := C01_decode_samples r s h i hi
  obtain ⟨a2, hs2⟩ := C01_decode_samples r s h j hj
  obtain ⟨c1, hp1⟩ := C01_decode_plates r s h i b1
  obtain ⟨c2, hp2⟩ := C01_decode_plates r s h j b2
  have key : ∀ (sm : SMap) (n₁ n₂ : Name) (x₁ x₂ : Int), IsBatchieSMap sm → (n₁, x₁) ∈ sm → (n₂, x₂) ∈ sm → (x₁ = x₂ ↔ n₁ = n₂) := by
    intro sm n₁ n₂ x₁ x₂ hb h1 h2
    obtain ⟨hn, hid⟩ := isBatchieSMap_nodup sm hb
    constructor
    · intro hx
      have := inj_of_nodup_map (·.2) sm hid _ _ h1 h2 hx
      exact (Prod.mk.inj this).1
    · intro hx
      have := inj_of_nodup_map (·.1) sm hn _ _ h1 h2 hx
      exact (Prod.mk.inj this).2
  exact ⟨a1, a2, b1, b2, c1, c2, fun hb => key s.smap _ _ _ _ hb hs1 hs2,
    key s.pmap _ _ _ _ (C01_built_isBatchie r s h).2.2 hp1 hp2⟩

/-! ### the model's `.other` result (an id array longer than the data) -/

/-- **Exactly when `Screen.mk?` answers `.other`**: all shape and density checks pass, every cell key is listed in the mapping that
    is used, and some cell key of the data is listed in it TWICE OR MORE — or all cell keys are listed once, every sample name is
    listed, and some sample name of the data is listed twice or more. (There the real constructor raises in `np.split` or builds id
    arrays with more rows than the screen; such mappings are outside the property's quantifier.) -/
theorem C01_other_iff_duplicate (r : Raw) :
    mk? r = .error .other ↔
      WellShaped r ∧ tmapBad r = false ∧ smapBad r = false ∧ (∀ k ∈ allKeys r, tLookup (effTMap r) k ≠ []) ∧
        ((∃ k ∈ allKeys r, 2 ≤ (tLookup (effTMap r) k).length) ∨
         ((∀ k ∈ r.snames, sLookup (effSMap r) k ≠ []) ∧ ∃ k ∈ r.snames, 2 ≤ (sLookup (effSMap r) k).length)) :=
  mk?_other_iff r

/-- **Mappings with pairwise different keys never give `.other`** — in particular no mapping batchie produced, and no absent one:
    on every input inside the quantifier the model answers what Python answers (a screen or `ValueError` / `IndexError`). -/
theorem C01_never_other (r : Raw)
    (ht : ∀ m, r.tmap = some m → (m.map tKey).Nodup) (hs : ∀ m, r.smap = some m → (m.map (·.1)).Nodup) :
    mk? r ≠ .error .other := by
  intro h
  obtain ⟨_, _, _, _, hdup⟩ := (mk?_other_iff r).mp h
  have htn : ((effTMap r).map tKey).Nodup := by
    unfold effTMap
    cases htm : r.tmap with
    | none => simp only; rw [freshTMap_keys]; exact sortedKeys_nodup _
    | some m => exact ht m htm
  have hsn : ((effSMap r).map (·.1)).Nodup := by
    unfold effSMap
    cases hsm : r.smap with
    | none => simp only; rw [freshSMap_names]; exact sortedNames_nodup _
    | some m => exact hs m hsm
  rcases hdup with ⟨k, _, h2⟩ | ⟨_, k, _, h2⟩
  · have := tLookup_length_le_one _ htn k; omega
  · have := sLookup_length_le_one _ hsn k; omega

theorem C01_batchie_never_other (r : Raw)
    (ht : ∀ m, r.tmap = some m → IsBatchieTMap m) (hs : ∀ m, r.smap = some m → IsBatchieSMap m) : mk? r ≠ .error .other := by
  apply C01_never_other r
  · intro m hm; obtain ⟨ctrl, data, rfl⟩ := ht m hm; rw [freshTMap_keys]; exact sortedKeys_nodup _
  · intro m hm; exact (isBatchieSMap_nodup m (hs m hm)).1

/-! ### construction succeeds where it should -/

/-- without supplied mappings every well-shaped input (equal lengths, rows of length `arity`, plate-uniform mask)
    is constructed successfully — the fresh encoders never fail — and the result is `mkFresh r` -/
theorem C01_fresh_accepted (r : Raw) (w : WellShaped r) (ht : r.tmap = none) (hs : r.smap = none) :
    mk? r = .ok (mkFresh r) := mk?_fresh r w ht hs

/-- mappings that batchie produced for a superset of the data (under any control name) are accepted and followed -/
theorem C01_superset_accepted (r : Raw) (w : WellShaped r) (ctrl' : Name) (tdata : List (Name × Dose)) (sdata : List Name)
    (ht : r.tmap = some (freshTMap ctrl' tdata)) (hs : r.smap = some (freshSMap sdata))
    (hsubT : ∀ k ∈ allKeys r, k ∈ tdata) (hsubS : ∀ k ∈ r.snames, k ∈ sdata) :
    ∃ s, mk? r = .ok s ∧ s.tmap = freshTMap ctrl' tdata ∧ s.smap = freshSMap sdata :=
  ⟨_, mk?_superset r w ctrl' tdata sdata ht hs hsubT hsubS, rfl, rfl⟩

/-! ### non-vacuity: the hypotheses above are satisfiable by non-trivial screens -/

/-- 4 experiments of arity 2; control by name (`[100]`) and by dose (`0`, `-3`) in the same screen; a repeated row -/
def exRaw : Raw :=
  { ctrl := [100], arity := 2,
    tnames := [[[1], [2]], [[100], [1]], [[2], [1]], [[1], [2]]],
    tdoses := [[1, 0], [1, 2], [(1 : Rat) / 2, 1], [1, -3]],
    snames := [[7], [5], [7], [7]], pnames := [[1], [1], [2], [3]],
    obs := some [11, 12, 13, 14], mask := some [true, true, false, true], tmap := none, smap := none }

theorem exRaw_wellShaped : WellShaped exRaw :=
  { len_tdoses := by decide, len_snames := by decide, len_pnames := by decide, arity_tnames := by decide,
    arity_tdoses := by decide, mask_needs_obs := by decide, len_obs := by decide, len_mask := by decide,
    uniform := by decide }

/-- hypotheses of `C01_decode`, `C01_control_iff`, `C01_space_bounds_fresh`, `C01_supplied_verbatim` hold for `exRaw` -/
example : ∃ s, mk? exRaw = .ok s ∧ exRaw.tmap = none ∧ s.tnames.length = 4 ∧ s.arity = 2 :=
  ⟨_, C01_fresh_accepted exRaw exRaw_wellShaped rfl rfl, rfl, rfl, rfl⟩

/-- the same rows with mappings batchie built for a strict superset (one more treatment, one more sample) -/
def exRawSup : Raw :=
  { exRaw with tmap := some (freshTMap [100] (allKeys exRaw ++ [([9], 4)])), smap := some (freshSMap (exRaw.snames ++ [[3]])) }

/-- hypotheses of `C01_space_bounds` / `C01_superset_accepted` hold for a strict superset mapping -/
example : ∃ s, mk? exRawSup = .ok s ∧ (∀ m, exRawSup.tmap = some m → IsBatchieTMap m) ∧ (∀ m, exRawSup.smap = some m → IsBatchieSMap m) := by
  obtain ⟨s, hs, _, _⟩ := C01_superset_accepted exRawSup
    { len_tdoses := by decide, len_snames := by decide, len_pnames := by decide, arity_tnames := by decide,
      arity_tdoses := by decide, mask_needs_obs := by decide, len_obs := by decide, len_mask := by decide,
      uniform := by decide }
    [100] (allKeys exRaw ++ [([9], 4)]) (exRaw.snames ++ [[3]]) rfl rfl
    (fun k hk => List.mem_append_left _ hk) (fun k hk => List.mem_append_left _ hk)
  refine ⟨s, hs, ?_, ?_⟩
  · intro m hm; injection hm with hm; exact ⟨_, _, hm.symm⟩
  · intro m hm; injection hm with hm; exact ⟨_, hm.symm⟩

/-- hypotheses of `C01_supplied_rejected`: a mapping whose ids skip `1`, resp. one that misses a sample name -/
example : ¬ DenseIds [0, 2, -1] := by
  rintro ⟨n, h⟩
  have h2 := (h 2).mp (by decide)
  have h1 := (h 1).mpr (Or.inr (by omega))
  revert h1; decide
example : ∃ k ∈ exRaw.snames, k ∉ ([([7], 0)] : SMap).map (·.1) := ⟨[5], by decide, by decide⟩

/-- hypothesis of `C01_cumsum_is_filter_index`: a duplicate-free table with control rows at the start, middle and end -/
example : ([1, 5, 2, 7, 9] : List Nat).Nodup ∧
    renumber ([1, 5, 2, 7, 9].map (fun x => decide (x % 2 = 1))) = [-1, -1, 0, -1, -1] := by decide
example : renumber [false, true, false, false, true, false] = [0, -1, 1, 2, -1, 3] := by decide

/-- hypotheses of `C01_control_iff_supplied` / `C01_cell_ids_eq_iff`: `exRawSup` carries a mapping batchie produced under the
    screen's own control name `[100]` for a strict superset, and it is accepted -/
example : exRawSup.tmap = some (freshTMap exRawSup.ctrl (allKeys exRaw ++ [([9], 4)])) := rfl
example : ∃ s, mk? exRaw = .ok s ∧ IsBatchieTMap s.tmap ∧ exRaw.tmap = none ∧ exRaw.smap = none :=
  ⟨_, C01_fresh_accepted exRaw exRaw_wellShaped rfl rfl, ⟨_, _, rfl⟩, rfl, rfl⟩

/-- `C01_other_iff_duplicate` is not vacuous: a sample mapping that lists the name `[7]` twice (ids dense, names covered) -/
example : ∃ k ∈ exRaw.snames, 2 ≤ (sLookup ([([5], 0), ([7], 1), ([7], 0)] : SMap) k).length := ⟨[7], by decide, by decide⟩
/-- hypotheses of `C01_never_other` hold for `exRaw` (no mapping supplied) -/
example : mk? exRaw ≠ .error .other := C01_never_other exRaw (fun m h => by cases h) (fun m h => by cases h)

end Batchie.Props.C01
