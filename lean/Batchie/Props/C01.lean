import Batchie.Model.Screen
