/-
  C05 — a plate's DBAL score depends on that plate alone and equals the direct estimator.

  Model: `Batchie/Model/Dbal.lean` (generic over the numeric type, executed by the driver at
  `Float`); here everything is instantiated at `α := ℝ`.  What "the code" is in these statements:

  * `scorePlateDense` / `scoreVectorised`  — `dbal_fast_gauss_scoring_vectorized` on dense arrays
    (0-padded means, NaN-padded variances as `Option`, mask, `nan_to_num`, `alpha`, `exp_factor`,
    masked `log_norm_factor`, `ll`, max-shifted `logsumexp`);
  * `scoreHeteroscedastic`, `scoreHomoscedastic` — the two wrappers (ragged → dense);
  * `scoreGroup` — `predict_mean_all`/`predict_variance_all` + padding + kernel for one sub-group;
  * `scorerScore` — `GaussianDBALScorer.score` (`array_split` sub-grouping, zip of ids and values);
  * `scoreDirect` — the reference: unpadded loop over triples and experiments.

  Not proved here (stated in the manifest): IEEE rounding and under/overflow.  (`logsumexp`'s
  max-shift is part of the model; over ℝ it is immaterial: `C05_logsumexp_shift_immaterial`.)

  CLAUSE MAP (property text → theorem; "code" = the model functions the driver executes)
  * "when all triples are enumerated": the triple list is an argument; that the kernel's own list is a
    permutation of all triples under a budget ≥ C(n,3) is `C15_callsite`, composed here in
    `C05_group_with_drawn_triples` / `C05_scorer_with_drawn_triples` (no triple hypothesis left)
  * "depends only on that plate's means/variances and the distance matrix; not on which other plates are
    scored alongside":                 `C05_independent_of_other_plates`, `C05_rescoring_alone`, `C05_any_grouping`
  * "… nor on their sizes (padding)":  `C05_padding_invariant`, `C05_three_entry_points_agree` (3rd part: any width)
  * "… nor on the scorer's internal batch size" (and plate order in the dict):
                                       `C05_batchsize_invariant`, `C05_batchsize_invariant'`, `C05_arraySplit_flatten`
  * "… nor on the order of experiments within the plate":
                                       `C05_experiment_order_invariant` (kernel), `C05_scorer_experiment_order_invariant` (scorer)
  * "… nor on a consistent relabelling of the posterior samples":
                                       `C05_relabel_invariant` (kernel), `C05_scorer_relabel_invariant` (scorer)
  * "equals the direct, unpadded, loop-by-loop evaluation":  every theorem above has `scoreDirect` on its right-hand side
  * "… of the documented estimator (log-sum over triples of summed distance times the Gaussian triple term
    per experiment)":                  `C05_direct_is_documented_estimator` (real powers, factor ≠ 0),
                                       `C05_factor_one_weight` (factor 1: no power at all), `C05_any_factor_weight`,
                                       zero-distance triples: `C05_zero_distance_triples_immaterial(_code)`
  * "for the homoscedastic, heteroscedastic and scorer entry points alike":
                                       `C05_three_entry_points_agree`, `C05_heteroscedastic_on_arrays`, `C05_batchsize_invariant`
  * "finite whenever some triple has positive distance":  `C05_finite_iff` (reference), `C05_code_score_finite` (code)
  * `logsumexp`'s max-shift:           `C05_logsumexp_shift_immaterial`, `C05_logsumexp_shift`
  * the budget (Props/C05Regress.lean, Model/DbalBudget.lean): every budget ≥ C(n,3), EQUALITY INCLUDED, gives all triples each once:
    `C05_all_triples_each_once_when_budget_covers`, `C05_all_triples_each_once_at_budget_equal`, `selectLe_all`; every entry point
    hands the caller's budget to the kernel: `C05_every_entry_point_honours_budget`; `length_allTriples`
  * Regression (not a clause): `C05_S7_strict_budget_counterexample` (S7-C05: `<` instead of `≤` at budget = C(n,3) → draws with
    replacement; witness n = 4, budget = 4, draw [0,0,1,2])
  * Regression (not a clause): `C05_S5_dropped_budget_counterexample` (S5-C05: homoscedastic wrapper drops max_combos → default 5000;
    for n = 34 no caller budget yields all 5984 triples)
  * harness-only: rounding -- `C05_expanded_square_invisible(_model)` (Props/C05Regress.lean) proves that the S8-C05 rewrite
    `m_i² + m_j² - 2 m_i m_j` equals `(m_i - m_j)²` in every commutative ring: invisible to every theorem here; its cancellation error for
    means with a large common offset is caught by the floating-point oracle alone (harness class `offset-means`)
  * harness-only: "to floating-point accuracy" (IEEE rounding, under/overflow: the wide-dynamic-range cases);
    `-inf` for a plate without any positive-distance triple (`Real.log 0 = 0` in ℝ: the theorem is stated on the sum);
    `distance_factor ≤ 0` on a zero-distance triple (`0 * -inf` = NaN, negative * -inf = +inf in the code; the model is
    faithful for factor > 0 only -- the scorer passes 1); inputs not modified, no state kept between calls, memory layout
    (aliasing / container fidelity); numpy's `rng.choice` law (hypothesis `ChoiceContract`).
-/
import Batchie.Lemmas.Dbal
import Batchie.Lemmas.DbalRelabel
import Batchie.Lemmas.DbalSpec
import Batchie.Props.C15

namespace Batchie.Props.C05
open Batchie.Dbal

/-! ### equality with the direct estimator; padding -/

/-- For every pad width `P ≥` the plate's length (and any number `hh`, `hv` of rows of the dense
    block) the vectorised per-plate value on the padded arrays equals `scoreDirect` on the
    unpadded plate. -/
theorem C05_padding_invariant (n : Nat) (D : Nat → Nat → ℝ) (factor : ℝ) (triples : List Triple)
    (ht : ∀ t ∈ triples, TripleValid n t) (p : Plate ℝ) (hh hv P : Nat) (_hP : p.length ≤ P) :
    scorePlateDense D factor triples (padArray 0 hh P (meansArray n p))
        (padArray none hv P (someArray (varsArray n p)))
      = scoreDirect D factor p triples :=
  scorePlateDense_padded D factor n hh hv P p triples ht

/-- One kernel call on any group of plates of any (unequal) sizes: the value returned for a plate
    is the direct estimator of that plate — it does not depend on the other plates of the group
    or on the width they force. -/
theorem C05_independent_of_other_plates (n : Nat) (D : Nat → Nat → ℝ) (factor : ℝ)
    (triples : List Triple) (ht : ∀ t ∈ triples, TripleValid n t) (group : List (Plate ℝ)) :
    scoreGroup n D factor triples group = group.map (fun p => scoreDirect D factor p triples) :=
  scoreGroup_eq n D factor triples ht group

/-- … in particular the `k`-th value equals what the kernel returns when that plate is scored alone. -/
theorem C05_rescoring_alone (n : Nat) (D : Nat → Nat → ℝ) (factor : ℝ)
    (triples : List Triple) (ht : ∀ t ∈ triples, TripleValid n t) (group : List (Plate ℝ))
    (k : Nat) (hk : k < group.length) :
    (scoreGroup n D factor triples group)[k]? = (scoreGroup n D factor triples [group[k]])[0]? := by
  rw [scoreGroup_eq n D factor triples ht, scoreGroup_eq n D factor triples ht]
  simp [hk]

/-- Any grouping of the plates into sub-groups gives, concatenated, the per-plate direct values. -/
theorem C05_any_grouping (n : Nat) (D : Nat → Nat → ℝ) (factor : ℝ)
    (triples : List Triple) (ht : ∀ t ∈ triples, TripleValid n t) (groups : List (List (Plate ℝ))) :
    (groups.map (scoreGroup n D factor triples)).flatten
      = groups.flatten.map (fun p => scoreDirect D factor p triples) := by
  rw [List.map_flatten]
  congr 1
  apply List.map_congr_left
  intro g _
  exact scoreGroup_eq n D factor triples ht g

/-- `np.array_split` only cuts the key list: concatenating the sub-groups gives it back. -/
theorem C05_arraySplit_flatten {β : Type} (l : List β) (k : Nat) (hk : 0 < k) :
    (arraySplit l k).flatten = l :=
  arraySplit_flatten l k hk

/-- `GaussianDBALScorer.score`: for every `max_chunk ≥ 1`, every dict of plates (unique ids) and
    every sequence of triple lists drawn by the successive kernel calls — each a permutation of all
    triples, which is what C15 shows when the budget covers `C(n,3)` — the returned dict has the
    given ids in the given order and maps each id to the direct estimator of ITS plate over all
    triples.  The right-hand side mentions neither `maxChunk` nor the other plates. -/
theorem C05_batchsize_invariant (n : Nat) (D : Nat → Nat → ℝ) (maxChunk : Nat) (hmc : 1 ≤ maxChunk)
    (tripless : Nat → List Triple) (hall : ∀ g, (tripless g).Perm (allTriples n))
    (plates : List (Nat × Plate ℝ)) (hkeys : (plates.map Prod.fst).Nodup) :
    scorerScore n D maxChunk tripless plates
      = plates.map (fun kp => (kp.1, scoreDirect D 1 kp.2 (allTriples n))) :=
  scorerScore_eq n D maxChunk tripless plates (fun p => scoreDirect D 1 p (allTriples n)) hmc hkeys
    (fun g => valid_of_perm (hall g))
    (fun g p => scoreDirect_perm_triples D 1 p (hall g))

/-- two scorer batch sizes (and two different sequences of random draws) give the same dict -/
theorem C05_batchsize_invariant' (n : Nat) (D : Nat → Nat → ℝ) (mc mc' : Nat) (h : 1 ≤ mc) (h' : 1 ≤ mc')
    (ts ts' : Nat → List Triple) (hall : ∀ g, (ts g).Perm (allTriples n)) (hall' : ∀ g, (ts' g).Perm (allTriples n))
    (plates : List (Nat × Plate ℝ)) (hkeys : (plates.map Prod.fst).Nodup) :
    scorerScore n D mc ts plates = scorerScore n D mc' ts' plates := by
  rw [C05_batchsize_invariant n D mc h ts hall plates hkeys,
    C05_batchsize_invariant n D mc' h' ts' hall' plates hkeys]

/-! ### order of experiments, relabelling of posterior samples -/

/-- Reordering the experiments inside every plate of a group leaves every score unchanged. -/
theorem C05_experiment_order_invariant (n : Nat) (D : Nat → Nat → ℝ) (factor : ℝ)
    (triples : List Triple) (ht : ∀ t ∈ triples, TripleValid n t) (group group' : List (Plate ℝ))
    (hperm : List.Forall₂ List.Perm group group') :
    scoreGroup n D factor triples group = scoreGroup n D factor triples group' := by
  rw [scoreGroup_eq n D factor triples ht, scoreGroup_eq n D factor triples ht]
  induction hperm with
  | nil => rfl
  | cons h _ ih => simp only [List.map_cons, ih, scoreDirect_perm_experiments D factor h triples]

/-- A permutation `σ` of the posterior samples `{0..n-1}` applied consistently to means, variances
    and the (symmetric) distance matrix leaves every score unchanged when all triples are
    enumerated (in whatever order the two runs drew them). -/
theorem C05_relabel_invariant (n : Nat) (D : Nat → Nat → ℝ) (hD : ∀ i j, D i j = D j i) (factor : ℝ)
    (σ : Equiv.Perm Nat) (hσ : ∀ i, σ i < n ↔ i < n)
    (ts ts' : List Triple) (hts : ts.Perm (allTriples n)) (hts' : ts'.Perm (allTriples n))
    (group : List (Plate ℝ)) :
    scoreGroup n (fun i j => D (σ i) (σ j)) factor ts' (group.map (fun p => p.map (Experiment.relabel σ)))
      = scoreGroup n D factor ts group := by
  rw [scoreGroup_eq n _ factor ts' (valid_of_perm hts'), scoreGroup_eq n D factor ts (valid_of_perm hts),
    List.map_map]
  apply List.map_congr_left
  intro p _
  simp only [Function.comp]
  rw [scoreDirect_perm_triples _ factor _ hts', scoreDirect_perm_triples D factor p hts]
  exact scoreDirect_relabel n D hD factor p σ hσ

/-! ### the entry points agree -/

/-- The heteroscedastic wrapper, the homoscedastic wrapper (on plates whose experiments share the
    per-sample variances `w`), and the vectorised kernel called directly on arrays padded to ANY
    width `W` all return the direct estimator per plate — hence agree with each other and with the
    scorer (`C05_batchsize_invariant`). -/
theorem C05_three_entry_points_agree (n : Nat) (hn : 3 ≤ n) (D : Nat → Nat → ℝ) (factor : ℝ)
    (triples : List Triple) (ht : ∀ t ∈ triples, TripleValid n t) :
    (∀ group : List (Plate ℝ),
        scoreHeteroscedastic D factor triples (group.map (meansArray n)) (group.map (varsArray n))
          = group.map (fun p => scoreDirect D factor p triples))
    ∧ (∀ gs : List (List (Nat → ℝ) × (Nat → ℝ)),
        scoreHomoscedastic D factor triples (gs.map (fun g => meansArray n (homPlate g.1 g.2)))
            (gs.map (fun g => (List.range n).map g.2))
          = gs.map (fun g => scoreDirect D factor (homPlate g.1 g.2) triples))
    ∧ (∀ (group : List (Plate ℝ)) (hh W : Nat),
        scoreVectorised D factor triples (group.map (fun p => padArray 0 hh W (meansArray n p)))
            (group.map (fun p => padArray none hh W (someArray (varsArray n p))))
          = group.map (fun p => scoreDirect D factor p triples)) :=
  ⟨scoreHeteroscedastic_eq n D factor triples ht,
   scoreHomoscedastic_eq n (by omega) D factor triples ht,
   scoreVectorised_wide n D factor triples ht⟩

/-- The heteroscedastic entry point on ARBITRARY per-plate arrays (`n` rows each, plate `k` of any
    width `L_k`, matching variance shapes): the value for plate `k` is the direct estimator of the
    columns of that plate's two arrays.  (This is the pair of driver operations `dbal.het` /
    `dbal.direct` the correspondence run compares with the implementation.) -/
theorem C05_heteroscedastic_on_arrays (n : Nat) (hn : 3 ≤ n) (D : Nat → Nat → ℝ) (factor : ℝ)
    (triples : List Triple) (ht : ∀ t ∈ triples, TripleValid n t) (preds vars : List (List (List ℝ)))
    (hshape : List.Forall₂ (fun M V => ∃ L, Rect n L M ∧ Rect n L V) preds vars) :
    scoreHeteroscedastic D factor triples preds vars
      = List.zipWith (fun M V => scoreDirect D factor (plateOfArrays M V) triples) preds vars :=
  scoreHeteroscedastic_arrays n (by omega) D factor triples ht preds vars hshape

/-! ### finiteness; the reference is the documented estimator -/

/-- The sum inside the logarithm is positive iff some enumerated triple has positive summed
    distance (distances non-negative); in that case the score is the logarithm of a positive real,
    `exp score = Σ w`.  (Stated on the sum because `Real.log 0 = 0` would make a bare "the score is
    a real number" true for the wrong reason; at `Float` the all-zero case is `log 0 = -inf`.) -/
theorem C05_finite_iff (D : Nat → Nat → ℝ) (factor : ℝ) (p : Plate ℝ) (triples : List Triple)
    (hD : ∀ t ∈ triples, 0 ≤ distSum D t) :
    (0 < (triples.map (tripleWeight D factor p)).sum ↔ ∃ t ∈ triples, 0 < distSum D t)
    ∧ ((∃ t ∈ triples, 0 < distSum D t) →
        Real.exp (scoreDirect D factor p triples) = (triples.map (tripleWeight D factor p)).sum) := by
  have hiff : (0 < (triples.map (tripleWeight D factor p)).sum ↔ ∃ t ∈ triples, 0 < distSum D t) := by
    rw [weightSum_pos_iff]
    constructor
    · rintro ⟨t, ht, hne⟩
      exact ⟨t, ht, lt_of_le_of_ne (hD t ht) (Ne.symm hne)⟩
    · rintro ⟨t, ht, hpos⟩
      exact ⟨t, ht, ne_of_gt hpos⟩
  refine ⟨hiff, fun hex => ?_⟩
  unfold scoreDirect
  exact Real.exp_log (hiff.mpr hex)

/-- `scoreDirect` (written with `exp`/`log` so that it also runs at `Float`) IS the documented
    estimator: `log Σ_triples (D i j + D j l + D i l)^factor · Π_e a_e^(-1/2) · exp(-(v1 v2 v3)/(2 a_e²) ·
    (v3 (m1-m2)² + v2 (m1-m3)² + v1 (m2-m3)²))` with real powers, for positive variances,
    non-negative distances and a non-zero distance factor. -/
theorem C05_direct_is_documented_estimator (D : Nat → Nat → ℝ) (factor : ℝ) (hf : factor ≠ 0)
    (p : Plate ℝ) (triples : List Triple)
    (hD : ∀ t ∈ triples, 0 ≤ distSum D t) (hv : ∀ e ∈ p, ∀ i, 0 < e.v i) :
    scoreDirect D factor p triples = Real.log ((triples.map (documentedWeight D factor p)).sum) := by
  unfold scoreDirect
  congr 2
  apply List.map_congr_left
  intro t ht
  exact tripleWeight_eq_documented D factor hf p t (hD t ht) (fun e he => ⟨hv e he _, hv e he _, hv e he _⟩)

/-- `scipy.special.logsumexp` as implemented (subtract the row maximum, or `0` when the whole row
    is `-inf`; this is what `scorePlateDense` uses) equals the plain `log Σ exp` for EVERY row … -/
theorem C05_logsumexp_shift_immaterial (xs : List (Option ℝ)) : logSumExpShifted xs = logSumExp xs :=
  logSumExpShifted_eq xs

/-- … and so does any other shift `M`, as soon as the sum is positive. -/
theorem C05_logsumexp_shift (xs : List (Option ℝ)) (M : ℝ) (hpos : 0 < (xs.map expOrZero).sum) :
    logSumExp (xs.map (fun o => o.map (fun x => x - M))) + M = logSumExp xs :=
  logSumExp_shift xs M hpos

/-! ### zero-distance triples, `distance_factor`, scorer-level invariances, finiteness of the code-shaped value -/

/-- dropping the summands that are zero does not change a sum -/
theorem sum_filter_of_zero {ι : Type} (l : List ι) (w : ι → ℝ) (P : ι → Bool) (h : ∀ t ∈ l, P t = false → w t = 0) :
    (l.map w).sum = ((l.filter P).map w).sum := by
  induction l with
  | nil => rfl
  | cons a l ih =>
    have ih' := ih (fun t ht => h t (List.mem_cons_of_mem _ ht))
    by_cases hp : P a = true
    · simp [hp, ih']
    · have hp' : P a = false := by simpa using hp
      simp [hp', ih', h a (by simp) hp']

open Classical in
/-- ZERO-DISTANCE TRIPLES contribute nothing, for every `distance_factor` of the model: the score
    over any triple list equals the score over the sub-list of triples with non-zero summed
    distance.  (At `Float` this is `log 0 = -inf`, `exp(-inf) = 0` inside `logsumexp`; faithful to
    the code for `distance_factor > 0`, see `Model/Dbal.lean`.) -/
theorem C05_zero_distance_triples_immaterial (D : Nat → Nat → ℝ) (factor : ℝ) (p : Plate ℝ) (triples : List Triple) :
    scoreDirect D factor p triples
      = scoreDirect D factor p (triples.filter (fun t => decide (distSum D t ≠ 0))) := by
  unfold scoreDirect
  congr 1
  apply sum_filter_of_zero
  intro t _ ht
  have hz : distSum D t = 0 := by simpa using ht
  unfold tripleWeight
  simp [hz]

open Classical in
/-- … and the same for the value the code computes on the padded arrays of a group. -/
theorem C05_zero_distance_triples_immaterial_code (n : Nat) (D : Nat → Nat → ℝ) (factor : ℝ)
    (triples : List Triple) (ht : ∀ t ∈ triples, TripleValid n t) (group : List (Plate ℝ)) :
    scoreGroup n D factor triples group
      = scoreGroup n D factor (triples.filter (fun t => decide (distSum D t ≠ 0))) group := by
  rw [scoreGroup_eq n D factor triples ht,
    scoreGroup_eq n D factor _ (fun t h => ht t (List.mem_of_mem_filter h))]
  apply List.map_congr_left
  intro p _
  exact C05_zero_distance_triples_immaterial D factor p triples

/-- `distance_factor = 1` (what the scorer always passes): the weight of a triple is the plain summed
    distance times the product of the Gaussian triple terms -- no power, also for a zero distance. -/
theorem C05_factor_one_weight (D : Nat → Nat → ℝ) (p : Plate ℝ) (t : Triple) (hd : 0 ≤ distSum D t) :
    tripleWeight D 1 p t = distSum D t * (p.map (fun e => gaussTerm e t)).prod := by
  unfold tripleWeight
  rw [prodL_eq_prod]
  by_cases hz : distSum D t = 0
  · simp [hz]
  · have hpos : 0 < distSum D t := lt_of_le_of_ne hd (Ne.symm hz)
    simp only [expLog_isZero, hz, decide_false, Bool.false_eq_true, if_false, expLog_exp, expLog_log, one_mul]
    rw [Real.exp_log hpos]

/-- any `distance_factor` (also non-integer, also negative in the model): on a triple with positive
    summed distance the weight is `(summed distance)^factor` (real power) times the Gaussian terms. -/
theorem C05_any_factor_weight (D : Nat → Nat → ℝ) (factor : ℝ) (p : Plate ℝ) (t : Triple) (hd : 0 < distSum D t) :
    tripleWeight D factor p t = distSum D t ^ factor * (p.map (fun e => gaussTerm e t)).prod := by
  unfold tripleWeight
  rw [prodL_eq_prod]
  have hz : distSum D t ≠ 0 := ne_of_gt hd
  simp only [expLog_isZero, hz, decide_false, Bool.false_eq_true, if_false, expLog_exp, expLog_log]
  rw [Real.rpow_def_of_pos hd, mul_comm factor]

/-- `GaussianDBALScorer.score` does not depend on the order of the experiments inside the plates:
    two dicts with the same ids whose plates are permutations of each other's experiments get the
    same result, for any two batch sizes and any two sequences of (exhaustive) draws. -/
theorem C05_scorer_experiment_order_invariant (n : Nat) (D : Nat → Nat → ℝ) (mc mc' : Nat) (h : 1 ≤ mc) (h' : 1 ≤ mc')
    (ts ts' : Nat → List Triple) (hall : ∀ g, (ts g).Perm (allTriples n)) (hall' : ∀ g, (ts' g).Perm (allTriples n))
    (plates plates' : List (Nat × Plate ℝ)) (hkeys : (plates.map Prod.fst).Nodup)
    (hperm : List.Forall₂ (fun a b => a.1 = b.1 ∧ a.2.Perm b.2) plates plates') :
    scorerScore n D mc ts plates = scorerScore n D mc' ts' plates' := by
  have hk : plates.map Prod.fst = plates'.map Prod.fst := by
    clear hkeys
    induction hperm with
    | nil => rfl
    | cons hab _ ih => simp only [List.map_cons, hab.1, ih]
  rw [C05_batchsize_invariant n D mc h ts hall plates hkeys,
    C05_batchsize_invariant n D mc' h' ts' hall' plates' (hk ▸ hkeys)]
  clear hkeys hk
  induction hperm with
  | nil => rfl
  | cons hab _ ih =>
    simp only [List.map_cons, ih, hab.1, scoreDirect_perm_experiments D 1 hab.2 (allTriples n)]

/-- `GaussianDBALScorer.score` under a consistent relabelling `σ` of the posterior samples (means,
    variances and the symmetric distance matrix): the same dict. -/
theorem C05_scorer_relabel_invariant (n : Nat) (D : Nat → Nat → ℝ) (hD : ∀ i j, D i j = D j i)
    (σ : Equiv.Perm Nat) (hσ : ∀ i, σ i < n ↔ i < n) (mc mc' : Nat) (h : 1 ≤ mc) (h' : 1 ≤ mc')
    (ts ts' : Nat → List Triple) (hall : ∀ g, (ts g).Perm (allTriples n)) (hall' : ∀ g, (ts' g).Perm (allTriples n))
    (plates : List (Nat × Plate ℝ)) (hkeys : (plates.map Prod.fst).Nodup) :
    scorerScore n (fun i j => D (σ i) (σ j)) mc' ts' (plates.map (fun kp => (kp.1, kp.2.map (Experiment.relabel σ))))
      = scorerScore n D mc ts plates := by
  have hk : ((plates.map (fun kp => (kp.1, kp.2.map (Experiment.relabel σ)))).map Prod.fst).Nodup := by
    simpa [List.map_map, Function.comp_def] using hkeys
  rw [C05_batchsize_invariant n _ mc' h' ts' hall' _ hk, C05_batchsize_invariant n D mc h ts hall plates hkeys,
    List.map_map]
  apply List.map_congr_left
  intro kp _
  simp only [Function.comp]
  rw [scoreDirect_relabel n D hD 1 kp.2 σ hσ]

/-- FINITENESS of the value the code computes (not only of the reference): on the padded arrays of
    a plate, with non-negative distances and some enumerated triple of positive summed distance,
    the kernel's value is the logarithm of a POSITIVE real: `exp score = Σ_t w_t > 0`. -/
theorem C05_code_score_finite (n : Nat) (D : Nat → Nat → ℝ) (factor : ℝ) (triples : List Triple)
    (ht : ∀ t ∈ triples, TripleValid n t) (hD : ∀ t ∈ triples, 0 ≤ distSum D t)
    (hex : ∃ t ∈ triples, 0 < distSum D t) (p : Plate ℝ) (hh hv P : Nat) (hP : p.length ≤ P) :
    Real.exp (scorePlateDense D factor triples (padArray 0 hh P (meansArray n p))
        (padArray none hv P (someArray (varsArray n p))))
      = (triples.map (tripleWeight D factor p)).sum
    ∧ 0 < (triples.map (tripleWeight D factor p)).sum := by
  rw [C05_padding_invariant n D factor triples ht p hh hv P hP]
  exact ⟨(C05_finite_iff D factor p triples hD).2 hex, (C05_finite_iff D factor p triples hD).1.2 hex⟩

/-! ### the bridge to C15: the triple lists are the ones the kernel really draws -/

section drawn
open Batchie.UnrankCallsite

/-- One kernel call with the triples it ACTUALLY uses (`triplesOf n choice`: the translator-generated
    unranking function applied to the indices returned by `rng.choice`, `Model/UnrankCallsite.lean`):
    whenever the budget covers `C(n,3)` and the draw satisfies numpy's contract, every plate of the
    group gets the direct estimator over ALL triples.  No hypothesis about the triple list is left:
    `C15_callsite` discharges it. -/
theorem C05_group_with_drawn_triples (n : Nat) (D : Nat → Nat → ℝ) (factor : ℝ) (maxCombos : Nat)
    (hbud : n.choose 3 ≤ maxCombos) (choice : List Nat)
    (hc : ChoiceContract (comb3 n) (nCombos n maxCombos) choice) (group : List (Plate ℝ)) :
    scoreGroup n D factor (triplesOf n choice) group
      = group.map (fun p => scoreDirect D factor p (allTriples n)) := by
  have hperm := (Batchie.Props.C15.C15_callsite n maxCombos choice hc).2.2.2 hbud
  rw [scoreGroup_eq n D factor _ (valid_of_perm hperm) group]
  apply List.map_congr_left
  intro p _
  exact scoreDirect_perm_triples D factor p hperm

/-- `GaussianDBALScorer.score` with the draws of its successive kernel calls (`choices g` is what
    `rng.choice` returned in the `g`-th sub-group): for every `max_chunk ≥ 1`, every `max_triples ≥
    C(n,3)` and every sequence of draws satisfying numpy's contract the returned dict maps each id to
    the direct estimator of its own plate over all triples. -/
theorem C05_scorer_with_drawn_triples (n : Nat) (D : Nat → Nat → ℝ) (maxChunk : Nat) (hmc : 1 ≤ maxChunk)
    (maxTriples : Nat) (hbud : n.choose 3 ≤ maxTriples) (choices : Nat → List Nat)
    (hc : ∀ g, ChoiceContract (comb3 n) (nCombos n maxTriples) (choices g))
    (plates : List (Nat × Plate ℝ)) (hkeys : (plates.map Prod.fst).Nodup) :
    scorerScore n D maxChunk (fun g => triplesOf n (choices g)) plates
      = plates.map (fun kp => (kp.1, scoreDirect D 1 kp.2 (allTriples n))) :=
  C05_batchsize_invariant n D maxChunk hmc _
    (fun g => (Batchie.Props.C15.C15_callsite n maxTriples (choices g) (hc g)).2.2.2 hbud) plates hkeys

end drawn

/-! ### the hypotheses are satisfiable (non-vacuity) -/

/-- `allTriples n` is a valid triple list, and so is every permutation of it -/
example : ∀ t ∈ allTriples 5, TripleValid 5 t := allTriples_valid 5
example : (allTriples 4).length = 4 ∧ (allTriples 4).reverse.Perm (allTriples 4) :=
  ⟨by decide, List.reverse_perm _⟩

/-- a group of plates of sizes 1, 3 and 2 over three posterior samples -/
noncomputable def exExperiment (k : Nat) : Experiment ℝ :=
  { m := fun i => (i : ℝ) * k, v := fun i => (i : ℝ) + 1 + k }

noncomputable def exGroup : List (Plate ℝ) :=
  [[exExperiment 1], [exExperiment 2, exExperiment 3, exExperiment 4], [exExperiment 5, exExperiment 6]]

example : scoreGroup 3 (fun i j => if i = j then 0 else 1) 1 (allTriples 3) exGroup
    = exGroup.map (fun p => scoreDirect (fun i j => if i = j then 0 else 1) 1 p (allTriples 3)) :=
  C05_independent_of_other_plates 3 _ 1 _ (allTriples_valid 3) exGroup

/-- the widths really differ inside that group, and padding really happens -/
example : (exGroup.map List.length) = [1, 3, 2] := by simp [exGroup]

/-- unique ids, `max_chunk = 2` on three plates: two sub-groups of sizes 2 and 1 -/
example : ([7, 3, 9].map id).Nodup ∧ arraySplit [7, 3, 9] (ceilDiv 3 2) = [[7, 3], [9]] := by decide

example : scorerScore 3 (fun i j => if i = j then 0 else 1) 2 (fun _ => (allTriples 3).reverse)
      ([7, 3, 9].zip exGroup)
    = ([7, 3, 9].zip exGroup).map (fun kp => (kp.1, scoreDirect (fun i j => if i = j then 0 else 1) 1 kp.2 (allTriples 3))) :=
  C05_batchsize_invariant 3 _ 2 (by decide) _ (fun _ => List.reverse_perm _) _ (by simp [exGroup])

/-- a non-trivial relabelling: swap samples 0 and 2 of 3 -/
example : ∀ i, (Equiv.swap 0 2 : Equiv.Perm Nat) i < 3 ↔ i < 3 := by
  intro i
  by_cases h0 : i = 0
  · subst h0; simp
  · by_cases h2 : i = 2
    · subst h2; simp
    · rw [Equiv.swap_apply_of_ne_of_ne h0 h2]

/-- a symmetric non-negative distance function with zeros and a positive entry; positive variances -/
example : (∀ i j : Nat, (if i = j then (0 : ℝ) else 1) = if j = i then 0 else 1)
    ∧ (∀ t ∈ allTriples 3, (0 : ℝ) ≤ distSum (fun i j => if i = j then (0 : ℝ) else 1) t)
    ∧ (∃ t ∈ allTriples 3, (0 : ℝ) < distSum (fun i j => if i = j then (0 : ℝ) else 1) t)
    ∧ (∀ e ∈ [exExperiment 1, exExperiment 2], ∀ i, 0 < e.v i) := by
  refine ⟨fun i j => by simp [eq_comm], ?_, ⟨(2, 1, 0), by decide, by simp [distSum]; norm_num⟩, ?_⟩
  · intro t _
    unfold distSum
    positivity
  · intro e he i
    simp only [List.mem_cons, List.not_mem_nil, or_false] at he
    rcases he with rfl | rfl <;> simp only [exExperiment] <;> positivity

/-- two plates of widths 2 and 1 over three posterior samples, as raw arrays -/
example : List.Forall₂ (fun M V => ∃ L, Rect 3 L M ∧ Rect 3 L V)
    [[[1, 2], [3, 4], [5, 6]], [[7], [8], [9]]]
    [[[(1 : ℝ), 1], [2, 2], [3, 3]], [[1], [1], [1]]] := by
  refine .cons ⟨2, ⟨rfl, ?_⟩, ⟨rfl, ?_⟩⟩ (.cons ⟨1, ⟨rfl, ?_⟩, ⟨rfl, ?_⟩⟩ .nil) <;>
    (intro r hr; simp only [List.mem_cons, List.not_mem_nil, or_false] at hr; rcases hr with rfl | rfl | rfl <;> rfl)

/-- homoscedastic plates exist in the experiment form used above -/
example : homPlate [fun i => (i : ℝ), fun i => 2 * (i : ℝ)] (fun i => (i : ℝ) + 1)
    = [{ m := fun i => (i : ℝ), v := fun i => (i : ℝ) + 1 }, { m := fun i => 2 * (i : ℝ), v := fun i => (i : ℝ) + 1 }] := rfl

/-- a draw for `n = 4` (`C(4,3) = 4`) under a budget of 5000 satisfying numpy's contract -/
example : Batchie.UnrankCallsite.ChoiceContract (Batchie.UnrankCallsite.comb3 4)
    (Batchie.UnrankCallsite.nCombos 4 5000) [2, 0, 3, 1] ∧ Nat.choose 4 3 ≤ 5000 := by decide

/-- two dicts with the same ids whose plates list the same experiments in another order -/
example : List.Forall₂ (fun (a b : Nat × Plate ℝ) => a.1 = b.1 ∧ a.2.Perm b.2)
    [(7, [exExperiment 1, exExperiment 2, exExperiment 3]), (3, [exExperiment 4])]
    [(7, [exExperiment 3, exExperiment 1, exExperiment 2]), (3, [exExperiment 4])] :=
  .cons ⟨rfl, List.perm_append_comm (l₁ := [exExperiment 1, exExperiment 2]) (l₂ := [exExperiment 3])⟩
    (.cons ⟨rfl, List.Perm.refl _⟩ .nil)

/-- the hypotheses of `C05_code_score_finite` hold for the all-ones off-diagonal distance on three samples -/
example : (∀ t ∈ allTriples 3, TripleValid 3 t)
    ∧ (∀ t ∈ allTriples 3, (0 : ℝ) ≤ distSum (fun i j => if i = j then (0 : ℝ) else 1) t)
    ∧ (∃ t ∈ allTriples 3, (0 : ℝ) < distSum (fun i j => if i = j then (0 : ℝ) else 1) t)
    ∧ ([exExperiment 1, exExperiment 2] : Plate ℝ).length ≤ 5 := by
  refine ⟨allTriples_valid 3, ?_, ⟨(2, 1, 0), by decide, by simp [distSum]; norm_num⟩, by simp⟩
  intro t _
  unfold distSum
  positivity

end Batchie.Props.C05
