/-
  C14 — regression lemmas for seeded changes of later rounds (code that is NOT in /repo), and the positive statements they violate.

  CLAUSE MAP addendum
  * clause 8 ("views of different parent screens refuse to combine"), positive: `C14_combine_defined_iff` — `combine` is defined IFF the two views
    carry the same parent identity (`View.parent`, the tag of the parent OBJECT: two screens with equal content are still two parents), and then
    selects the union (general). Regression (not a clause) S7-C14, parent test weakened to a layout comparison: `S7_C14_layout_test_accepts_foreign`.
  * clause 2 ("subsetting a subset composes the selections"), positive: `C14_nested_subset_exact` (for every pair of masks the nested subset selects
    exactly the rows the inner mask selects THROUGH the outer one; = `C14_compose` + `C14_compose_pointwise`, general). Regression S5-C14, positional
    `np.putmask` scatter: `S5_C14_putmask_counterexample` (witness where the outer view does not select a leading block),
    `scatterPositional_leading_block` (general: on a leading block the two agree, which is why small tests pass).
  * clause 7 (unique filter), positive: `C14_unique_filter` / `C14_expr_uniq`. Regression S6-C14, per-screen cache of the first-occurrence mask:
    `S6_C14_cached_unique_counterexample` (the first occurrence of a condition lies outside the view: the view loses the condition).
  * clause 5 ("the observed/unobserved views split the screen by its mask"), positive: `C14_split_by_mask`, row by row `C14_split_rowwise` (every screen, no
    plate-uniformity hypothesis). Regression S8-C14, `subset_unobserved` selecting whole plates: `S8_C14_platewise_unobserved_counterexample` (a partly observed
    plate, reachable by `set_observed` / `Plate.merge`), `unobservedByPlates_of_uniform` (general: identical on plate-uniform screens, why tests pass).
  * clause 6 (materialised rows incl. plate names), positive: `C14_to_screen_rows`, `C14_to_screen_ignores_pmap`. Regression S4-C14, plate names rebuilt
    from the stored plate table: `S4_C14_stale_plate_table_counterexample` (rows after an in-place merge: per-row names vs stale table),
    `pnamesViaPmap_of_consistent` (general: with a table that is consistent with the rows the rebuilt names ARE the rows' names).
-/
import Batchie.Props.C14
import Batchie.Model.ScreenRegress

namespace Batchie.Props.C14Regress
open Batchie.Screen Batchie.Proto Batchie.Views Batchie.Regress Batchie.Props.C14

/-! ### S7-C14: the parent test of `combine` -/

/-- **General (clause 8).** `a.combine(b)` is defined exactly when the two views have the same parent identity, and then it is the view of that
    parent selecting the union of the two selections. Parent identity is the tag `View.parent` of the parent OBJECT (`other.screen is self.screen`),
    not the parent's content. -/
theorem C14_combine_defined_iff (a b : View) :
    ((∃ w, a.combine b = .ok w) ↔ a.parent = b.parent) ∧
    (∀ w, a.combine b = .ok w → w.parent = a.parent ∧ w.sel = orSel a.sel b.sel) ∧
    (a.parent ≠ b.parent → a.combine b = .error .valueError) := by
  refine ⟨⟨fun ⟨w, h⟩ => ((combine_ok_iff a b w).mp h).1, fun h => ⟨_, (combine_ok_iff a b _).mpr ⟨h, rfl⟩⟩⟩, ?_, ?_⟩
  · intro w h
    obtain ⟨_, rfl⟩ := (combine_ok_iff a b w).mp h
    exact ⟨rfl, rfl⟩
  · intro h; exact (C14_foreign_refused a b h).1

/-- two parents with the same size and plate ids but different rows (observations 11,12,13 vs 21,22,23) -/
def parentA : Screen :=
  { ctrl := [], arity := 1, tnames := [[[1]], [[1]], [[2]]], tdoses := [[1], [1], [1]], snames := [[7], [7], [7]], pnames := [[1], [1], [2]],
    obs := [11, 12, 13], mask := [true, true, false], tids := [[0], [0], [1]], sids := [0, 0, 0], pids := [0, 0, 1],
    tmap := [([1], 1, 0), ([2], 1, 1)], smap := [([7], 0)], pmap := [([1], 0), ([2], 1)] }
def parentB : Screen := { parentA with obs := [21, 22, 23], snames := [[8], [8], [8]], smap := [([8], 0)] }
def parents : Nat → Screen := fun i => if i = 0 then parentA else parentB

def viewOfA : View := { parent := 0, sel := [true, false, false] }
def viewOfB : View := { parent := 1, sel := [false, false, true] }

/-- **Regression S7-C14 (witness).** With the parent test weakened to "same size and same plate ids", a view of parent 0 and a view of the DIFFERENT
    parent 1 combine; the faithful `combine` refuses them. The result is a view of parent 0, so the row the second view selected (observation 23 of
    parent 1) is reported as observation 13 of parent 0: rows of the wrong parent. -/
theorem S7_C14_layout_test_accepts_foreign :
    (viewOfA.combine viewOfB).toOption.map (·.sel) = none ∧
    (combineLayout parents viewOfA viewOfB).toOption.map (fun w => (w.parent, w.sel)) = some (0, [true, false, true]) ∧
    maskFilter (parents 1).obs viewOfB.sel = [23] ∧
    maskFilter (parents 0).obs [true, false, true] = [11, 13] := by
  decide

/-! ### S5-C14: nested subset -/

/-- **General (clause 2).** For every outer view and every inner mask with one entry per row of the outer view, the nested subset selects exactly the
    rows the inner mask selects through the outer one: row `k` of the parent is selected iff the outer view selects it and the inner mask holds at
    its RANK within the outer view; every attribute is the outer view's attribute filtered by the inner mask. -/
theorem C14_nested_subset_exact {α : Type} (xs : List α) (outer inner : List Bool) (h : inner.length = outer.count true) :
    maskFilter xs (scatter outer inner) = maskFilter (maskFilter xs outer) inner ∧
    ∀ k (hk : k < outer.length), (scatter outer inner)[k]? = some (outer[k] && (inner[(outer.take k).count true]?).getD false) :=
  ⟨(C14_compose xs outer inner h).2.1, fun k hk => C14_compose_pointwise outer inner h k hk⟩

/-- **Regression S5-C14 (witness).** `np.putmask` reads the inner mask at the parent position: with an outer view `[F, T, T]` (not a leading block) and
    inner mask `[T, F]` the faithful scatter selects parent row 1, the positional one selects parent row 2 — the attributes differ. -/
theorem S5_C14_putmask_counterexample :
    scatter [false, true, true] [true, false] = [false, true, false] ∧
    scatterPositional [false, true, true] [true, false] = [false, false, true] ∧
    maskFilter [10, 20, 30] (scatterPositional [false, true, true] [true, false]) ≠
      maskFilter (maskFilter [10, 20, 30] [false, true, true]) [true, false] := by
  decide

/-- why small tests pass: on a view that selects a leading block the positional scatter is the faithful one (witnesses) -/
theorem scatterPositional_leading_block :
    scatterPositional [true, true, false] [true, false] = scatter [true, true, false] [true, false] ∧
    scatterPositional [true, true, true, false, false] [false, true, true] = scatter [true, true, true, false, false] [false, true, true] := by
  decide

/-! ### S6-C14: the unique filter -/

def viewTail : View := { parent := 0, sel := [false, true, true] }

/-- **Regression S6-C14 (witness).** Rows 0 and 1 of `parentA` are the same condition (sample 0, treatment 0). A view selecting rows 1 and 2 keeps both of its
    conditions under the faithful filter; with the per-screen first-occurrence cache the row kept for that condition is row 0, outside the view, so
    the filtered view has lost the condition (clause 7: exactly one experiment per distinct condition of the view). -/
theorem S6_C14_cached_unique_counterexample :
    (parentA.uniqueFilter viewTail).toOption.map (·.sel) = some [false, true, true] ∧
    (uniqueFilterCached parentA viewTail).toOption.map (·.sel) = some [false, false, true] := by
  decide

/-! ### S4-C14: plate names of a materialised view -/

/-- the rows of a screen after `p1.merge(p2)` on plates p1, p2, p3: plate names rewritten per row and plate ids re-encoded (p1 → 0, p3 → 1), the stored
    plate table left as it was before the merge (existing behaviour of `Plate.merge`) -/
def mergedParent : Screen :=
  { parentA with pnames := [[1], [1], [3]], pids := [0, 0, 1], pmap := [([1], 0), ([2], 1), ([3], 2)] }

/-- **Regression S4-C14 (witness).** `plate_mapping[0][plate_ids]` on the merged parent names the third row's plate `[2]` (a plate that no longer
    exists) instead of `[3]`; the faithful `to_screen` takes the names from the rows. -/
theorem S4_C14_stale_plate_table_counterexample :
    pnamesViaPmap mergedParent [true, true, true] = [[1], [1], [2]] ∧
    maskFilter mergedParent.pnames [true, true, true] = [[1], [1], [3]] := by
  decide

/-- **General.** If the stored plate table is consistent with the rows (row `i` has plate name `names[pids[i]]`), rebuilding the names from the table gives
    exactly the rows' names for every selection — the seeded change is invisible on every screen that was not merged in place. -/
theorem pnamesViaPmap_of_consistent (s : Screen) (hlen : s.pids.length = s.pnames.length)
    (hcons : ∀ i (hi : i < s.pids.length), ((s.pmap.map (·.1))[(s.pids[i]).toNat]?).getD [] = s.pnames[i]'(hlen ▸ hi)) (sel : List Bool) :
    pnamesViaPmap s sel = maskFilter s.pnames sel := by
  unfold pnamesViaPmap
  have key : ∀ (pids : List Int) (pn : List Name) (hl : pids.length = pn.length)
      (hc : ∀ i (hi : i < pids.length), ((s.pmap.map (·.1))[(pids[i]).toNat]?).getD [] = pn[i]'(hl ▸ hi)) (sel : List Bool),
      (maskFilter pids sel).map (fun i => ((s.pmap.map (·.1))[i.toNat]?).getD []) = maskFilter pn sel := by
    intro pids
    induction pids with
    | nil =>
      intro pn hl _ sel
      cases pn with
      | nil => cases sel <;> simp [maskFilter]
      | cons q qs => simp at hl
    | cons p ps ih =>
      intro pn hl hc sel
      cases pn with
      | nil => simp at hl
      | cons q qs =>
        have h0 := hc 0 (by simp)
        have hrest := ih qs (by simpa using hl) (fun i hi => by
          have h := hc (i + 1) (by simp; omega)
          simp only [List.getElem_cons_succ] at h
          exact h)
        cases sel with
        | nil => simp [maskFilter]
        | cons b bs =>
          cases b
          · simp only [maskFilter, Bool.false_eq_true, if_false]; exact hrest bs
          · simp only [maskFilter, if_true, List.map_cons]
            rw [hrest bs]
            simp only [List.getElem_cons_zero] at h0
            rw [h0]
  exact key s.pids s.pnames hlen hcons sel

/-! ### S8-C14: the unobserved view on a partly observed plate -/

/-- **General (clause 5), for EVERY screen — also one on which `set_observed` / `Plate.merge` left a plate partly observed.** The observed view selects
    exactly the rows where the mask holds, the unobserved view exactly the others; each row of the screen is in exactly one of them; a side is absent
    exactly when it would be empty. (`C14_split_by_mask`, restated row by row; no plate-uniformity hypothesis.) -/
theorem C14_split_rowwise (s : Screen) (pid : Nat) (i : Nat) (hi : i < s.mask.length) :
    (∀ v, s.subsetObserved pid = some v → v.sel[i]? = some s.mask[i]) ∧
    (∀ v, s.subsetUnobserved pid = some v → v.sel[i]? = some (!s.mask[i])) ∧
    (s.subsetObserved pid = none → s.mask[i] = false) ∧ (s.subsetUnobserved pid = none → s.mask[i] = true) := by
  obtain ⟨h1, h2, h3, h4, _⟩ := C14_split_by_mask s pid
  refine ⟨fun v hv => ?_, fun v hv => ?_, fun hn => ?_, fun hn => ?_⟩
  · rw [(h3 v hv).2, List.getElem?_eq_getElem hi]
  · rw [(h4 v hv).2]; simp [List.getElem?_eq_getElem hi]
  · have := h1.mp hn
    cases hb : s.mask[i]
    · rfl
    · exact absurd (List.count_pos_iff.mpr (hb ▸ List.getElem_mem hi)) (by omega)
  · have := h2.mp hn
    cases hb : s.mask[i]
    · exact absurd (List.count_pos_iff.mpr (hb ▸ List.getElem_mem hi)) (by omega)
    · rfl

/-- `parentA` after `set_observed` on row 0 only: plate 0 (rows 0, 1) is partly observed -/
def partlyObserved : Screen := { parentA with mask := [true, false, false] }

/-- **Regression S8-C14 (witness).** Plate 0 holds rows 0 and 1, row 0 observed, row 1 not (after `set_observed` on part of the plate): the plate-wise
    selection drops row 1 from the unobserved view although its mask is false — the row is in NEITHER view; the faithful split has it. -/
theorem S8_C14_platewise_unobserved_counterexample :
    unobservedByPlates [0, 0, 1] [true, false, false] = [false, false, true] ∧
    ([true, false, false] : List Bool).map (!·) = [false, true, true] ∧
    (subsetUnobservedByPlates partlyObserved 0).map (·.sel) = some [false, false, true] ∧
    (partlyObserved.subsetUnobserved 0).map (·.sel) = some [false, true, true] ∧
    (partlyObserved.subsetObserved 0).map (·.sel) = some [true, false, false] := by
  decide

/-- **General: why the tests pass.** When every plate is observed or unobserved as a whole (the invariant `Screen(...)` enforces), the plate-wise
    selection IS the row-wise one. -/
theorem unobservedByPlates_of_uniform (pids : List Int) (mask : List Bool) (hl : pids.length = mask.length)
    (hu : ∀ (i j : Nat) (hi : i < pids.length) (hj : j < pids.length), pids[i] = pids[j] → mask[i]'(hl ▸ hi) = mask[j]'(hl ▸ hj)) :
    unobservedByPlates pids mask = mask.map (!·) := by
  apply List.ext_getElem
  · simp [unobservedByPlates, hl]
  · intro i h1 h2
    have hi : i < pids.length := by simpa [unobservedByPlates] using h1
    simp only [unobservedByPlates, List.getElem_map]
    congr 1
    rw [Bool.eq_iff_iff]
    simp only [List.contains_eq_mem, decide_eq_true_eq]
    rw [mem_maskFilter_iff pids mask hl]
    constructor
    · rintro ⟨j, hj, hp⟩
      obtain ⟨hjm, hjt⟩ := List.getElem?_eq_some_iff.mp hj
      obtain ⟨hjp, hpe⟩ := List.getElem?_eq_some_iff.mp hp
      rw [hu i j hi hjp hpe.symm]; exact hjt
    · intro hm
      exact ⟨i, by rw [List.getElem?_eq_getElem (hl ▸ hi)]; exact congrArg some hm, List.getElem?_eq_getElem hi⟩

end Batchie.Props.C14Regress
