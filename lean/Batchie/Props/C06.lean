/-
  C06 — every candidate plate is scored once; the minimum-score allowed plate is chosen.

  Theorems about the hand model `Batchie.Model.Scores` of `batchie.scoring.main`, `scoring/rand.py`,
  `scoring/size.py` and the two command line wrappers (tied to /repo by `harness/c06.py`).
  All statements are for every screen, batch, chunk count, scorer output and file order; nothing is bounded.

  Vocabulary (defined in `Batchie.Lemmas.Scores`):
    `ScreenWF s`      the id arrays of the screen have one entry per experiment
    `HolderWF h`      both arrays of a scores holder have the same length
    `TotalScorer sc`  the scorer returns exactly one score per plate it is given (any order)
    `PolicyFilters p` the policy returns a sub-list of the unobserved plates it was given
-/
/-
  CLAUSE MAP (property text → theorems; model = `Model/Scores.lean`, `Model/ScorePipeline.lean`)

  "the plates scored across all chunk indices are exactly the unobserved plates not already in the batch, each once"
        → `C06_chunks_cover_once` (flatten over chunk indices = `candidates`, `Nodup`, membership characterised);
          `C06_arraySplit_flatten`, `C06_arraySplit_balanced` (numpy's split); `C06_scoreInputs_succeeds` (the hypothesis
          "every chunk call answers" holds for every well-formed screen, n ≥ 1, idx < n, batch empty or naming a plate)
  "when a batch exists each candidate is scored on the union of its own and the batch plates' experiments reduced to one
   experiment per distinct condition"
        → `C06_conditioned_subset` (iff-characterisation of the selection), `C06_conditioned_unique`, `C06_conditioned_covers`;
          `ScreenWF` is discharged for constructed / loaded screens by `C06_constructed_screen_wf`, `C06_loaded_screen_wf`
  "scored": the scorer returns one score per plate handed over
        → `C06_shipped_scorers_total` (RandomScorer, SizeScorer), `C06_dbal_scorer_total` (GaussianDBALScorer = C05's `scorerScore`),
          `C06_total_scorer_holder` (holder of a chunk: the plates once, no zero-filled tail)
  "after chunk results are saved, loaded and combined in any order"
        → `C06_concat_perm_invariant` (multiset of cells invariant, = all cells of all files, in file order)
  "the plate returned is unobserved, not in the batch and allowed by the policy" / "no other allowed plate has a strictly lower score"
        → `C06_selection_correct` (pipeline), `C06_selection_sound_any_holder` (ANY holder), `C06_stale_scores_selection` (files of an
          earlier batch), `C06_dbal_pipeline_correct` (the concrete composed pipeline); `PolicyFilters` is the contract of the plug-in
          interface — for the shipped `KPerSamplePlatePolicy` it is `C16_subset` (Props/C16, own plate representation)
  "nothing is returned only when no plate is allowed"
        → `C06_none_iff_no_allowed`, `C06_none_iff_any_holder` (also: selection never raises under these hypotheses)
  quantifier "with and without a policy", "-inf, ties", "n_chunks > plates": `Option Policy`, `Score.negInf`, no bound on `n` in any theorem
  command line wrappers → `C06_cli_output`, `C06_cli_pipeline`
  not a clause, proved because the code fixes it: tie-break = first minimal cell in file order → `C06_tie_break_first`
  harness-only: h5py's round trip of two arrays and an attribute (container fidelity; modelled as a record), `Plate.plate_id` of
        `screen.get_plate(x)` is `x` (object identity of plug-in arguments), float comparison `<` on binary64 for finite values and -inf is
        represented exactly by `Score` (rationals), NaN scores are outside the quantifier.
  Props/C06Regress.lean (model growth after the seeded rounds):
    "-inf" scores through save / load / combine / select → `C06_save_load_keeps_every_cell`, `C06_neg_inf_is_selected`
    the text written by the command line is `-1` iff nothing is eligible (plate 0 is written `0`) → `C06_cli_writes_cliText`,
        `C06_sentinel_iff_nothing_eligible` (with `toString_plate_id_ne_sentinel`; hypothesis: plate ids are non-negative)
    Regression (not a clause): `C06_S7_load_drops_nonfinite_counterexample` (S7-C06: load keeps only finite scores)
    "no other allowed plate has a strictly lower score" with NO tolerance → `C06_selection_exact_minimiser`
    Regression (not a clause): `C06_S8_tolerance_tie_break_counterexample` (S8-C06: lowest id within np.isclose of the best)
    Regression (not a clause): `C06_S5_falsy_plate_zero_counterexample` (S5-C06: `if not selected_plate_id` writes -1 for plate 0)
-/
import Batchie.Lemmas.Scores
import Batchie.Lemmas.ScreenWF
import Batchie.Lemmas.ScorePipeline

namespace Batchie.Props.C06
open Batchie.Scores Batchie.Screen Batchie.Proto Batchie.Lemmas.Scores Batchie.ScorePipeline Batchie.Lemmas.ScorePipeline

/-- `np.array_split`: the sections concatenate to the input, there are exactly `n` of them, and section `i`
    has `len / n` elements plus one if `i < len % n` (so sizes differ by at most one and, when `n > len`,
    the trailing sections are empty). -/
theorem C06_arraySplit_flatten {α : Type} (l : List α) (n : Nat) (hn : 1 ≤ n) :
    (arraySplit l n).flatten = l ∧ (arraySplit l n).length = n ∧
    ∀ i, i < n → ((arraySplit l n)[i]?).map List.length = some (l.length / n + if i < l.length % n then 1 else 0) := by
  refine ⟨arraySplit_flatten l n (by omega), arraySplit_length l n (by omega), ?_⟩
  intro i hi
  unfold arraySplit
  rw [takeSizes_getElem? _ _ (by rw [splitSizes_sum _ _ (by omega)]; exact Nat.le_refl _), splitSizes_getElem? _ _ _ hi]

/-- sizes of any two sections differ by at most one -/
theorem C06_arraySplit_balanced {α : Type} (l : List α) (n : Nat) (hn : 1 ≤ n) (i j : Nat) (hi : i < n) (hj : j < n)
    (a b : List α) (ha : (arraySplit l n)[i]? = some a) (hb : (arraySplit l n)[j]? = some b) :
    a.length ≤ b.length + 1 := by
  have h := (C06_arraySplit_flatten l n hn).2.2
  have h1 := h i hi
  have h2 := h j hj
  rw [ha] at h1; rw [hb] at h2
  simp only [Option.map_some, Option.some.injEq] at h1 h2
  rw [h1, h2]
  split <;> split <;> omega

/-- Over all chunk indices `0 … n-1` the plates handed to the scorer are, in order, exactly the candidates
    (unobserved plates outside the batch); the candidates are pairwise distinct — so every candidate is
    scored exactly once and nothing else is. -/
theorem C06_chunks_cover_once (s : Screen) (pid : Nat) (batch : List Int) (n : Nat) (hn : 1 ≤ n)
    (inp : Nat → List (Int × View)) (h : ∀ i, i < n → scoreInputs s pid batch n i = .ok (inp i)) :
    ((List.range n).map (fun i => (inp i).map Prod.fst)).flatten = candidates s batch
    ∧ (candidates s batch).Nodup
    ∧ ∀ p, p ∈ candidates s batch ↔ (p ∈ s.pids ∧ plateObserved s p = false ∧ p ∉ batch) := by
  refine ⟨?_, candidates_nodup s batch, mem_candidates s batch⟩
  exact cover s batch n (fun i => (inp i).map Prod.fst)
    (fun i hi => scoreInputs_fst s pid batch n i (inp i) (h i hi)) (by omega)

/-- row `i` of the screen belongs to plate `p` or to a plate of the batch -/
def InUnion (s : Screen) (batch : List Int) (p : Int) (i : Nat) : Prop :=
  ∃ q, s.pids[i]? = some q ∧ (q = p ∨ q ∈ batch)

/-- the condition (sample id, treatment ids) of row `i` -/
def rowKey (s : Screen) (i : Nat) : Option (Int × List Int) := (s.sids.zip s.tids)[i]?

/-- With a non-empty batch, the subset scored for candidate `p` selects row `i` **iff** the row lies in
    plate `p` ∪ batch plates and no earlier row of that union has the same condition: exactly one
    experiment — the first — per distinct `(sample, treatment ids)` of the union. -/
theorem C06_conditioned_subset (s : Screen) (hwf : ScreenWF s) (pid : Nat) (batch : List Int) (hb : batch ≠ [])
    (n idx : Nat) (inp : List (Int × View)) (h : scoreInputs s pid batch n idx = .ok inp)
    (p : Int) (v : View) (hpv : (p, v) ∈ inp) :
    v.sel.length = s.pids.length ∧
    ∀ i, v.sel[i]? = some true ↔
      (InUnion s batch p i ∧ ∃ k, rowKey s i = some k ∧ ∀ j, j < i → InUnion s batch p j → rowKey s j ≠ some k) := by
  unfold scoreInputs at h
  obtain ⟨chunk, _, h⟩ := bind_ok h
  have hbe : batch.isEmpty = false := by cases batch <;> simp_all
  simp only [hbe, Bool.false_eq_true, if_false] at h
  obtain ⟨u, hu, h⟩ := bind_ok h
  have hcond := mapM_pair_mem (fun p => conditioned s pid u p) chunk inp h (p, v) hpv
  simp only at hcond
  -- the batch union
  have hqs : batchPlates s batch ≠ [] := by
    intro h0; rw [h0] at hu; simp [View.concat] at hu
  rw [concat_getPlates s pid _ hqs] at hu
  cases hu
  rw [conditioned_eq s hwf pid] at hcond
  cases hcond
  have hlen : (s.sids.zip s.tids).length = s.pids.length := by simp [hwf.sids, hwf.tids]
  refine ⟨by simp [firstOccGo_length, hlen], ?_⟩
  intro i
  -- membership of a row in the union, in the form the code computes it
  have hunion : ∀ j, (s.pids.map (fun x => x == p || (batchPlates s batch).any (fun q => x == q)))[j]? = some true
      ↔ InUnion s batch p j := by
    intro j
    unfold InUnion
    rw [List.getElem?_map]
    cases hq : s.pids[j]? with
    | none => simp
    | some q =>
      have hmem : q ∈ s.pids := List.mem_of_getElem? hq
      simp only [Option.map_some, Option.some.injEq, Bool.or_eq_true, beq_iff_eq, List.any_eq_true]
      constructor
      · rintro (h1 | ⟨q', hq', h2⟩)
        · exact ⟨q, rfl, Or.inl h1⟩
        · have : q = q' := by simpa using h2
          subst this
          exact ⟨q, rfl, Or.inr ((mem_batchPlates s batch q).mp hq').2⟩
      · rintro ⟨q', hq', h1 | h2⟩
        · cases hq'; exact Or.inl h1
        · cases hq'; exact Or.inr ⟨q, (mem_batchPlates s batch q).mpr ⟨hmem, h2⟩, by simp⟩
  have hzip : ∀ j k, ((s.pids.map (fun x => x == p || (batchPlates s batch).any (fun q => x == q))).zip (s.sids.zip s.tids))[j]?
      = some (true, k) ↔ (InUnion s batch p j ∧ rowKey s j = some k) := by
    intro j k
    rw [← hunion j, List.getElem?_zip_eq_some]
    simp [rowKey]
  rw [firstOccGo_spec]
  constructor
  · rintro ⟨k, hk, _, hall⟩
    obtain ⟨hu, hkey⟩ := (hzip i k).mp hk
    refine ⟨hu, k, hkey, ?_⟩
    intro j hj huj hkj
    exact hall j k hj ((hzip j k).mpr ⟨huj, hkj⟩) rfl
  · rintro ⟨hu, k, hkey, hall⟩
    refine ⟨k, (hzip i k).mpr ⟨hu, hkey⟩, by simp, ?_⟩
    intro j k' hj hjk hkk
    subst hkk
    obtain ⟨huj, hkj⟩ := (hzip j k').mp hjk
    exact hall j hj huj hkj

/-- consequence: two different selected rows never share a condition -/
theorem C06_conditioned_unique (s : Screen) (hwf : ScreenWF s) (pid : Nat) (batch : List Int) (hb : batch ≠ [])
    (n idx : Nat) (inp : List (Int × View)) (h : scoreInputs s pid batch n idx = .ok inp)
    (p : Int) (v : View) (hpv : (p, v) ∈ inp) (i j : Nat) (hij : j < i)
    (hi : v.sel[i]? = some true) (hj : v.sel[j]? = some true) : rowKey s i ≠ rowKey s j := by
  have hspec := (C06_conditioned_subset s hwf pid batch hb n idx inp h p v hpv).2
  obtain ⟨_, k, hk, hall⟩ := (hspec i).mp hi
  obtain ⟨huj, _⟩ := (hspec j).mp hj
  rw [hk]
  exact fun h => hall j hij huj h.symm

/-- consequence: every condition present in plate ∪ batch is represented by a selected row -/
theorem C06_conditioned_covers (s : Screen) (hwf : ScreenWF s) (pid : Nat) (batch : List Int) (hb : batch ≠ [])
    (n idx : Nat) (inp : List (Int × View)) (h : scoreInputs s pid batch n idx = .ok inp)
    (p : Int) (v : View) (hpv : (p, v) ∈ inp) (i : Nat) (k : Int × List Int)
    (hu : InUnion s batch p i) (hk : rowKey s i = some k) :
    ∃ j, j ≤ i ∧ v.sel[j]? = some true ∧ rowKey s j = some k := by
  have hspec := (C06_conditioned_subset s hwf pid batch hb n idx inp h p v hpv).2
  induction i using Nat.strongRecOn with
  | _ i ih =>
    by_cases hfirst : ∀ j, j < i → InUnion s batch p j → rowKey s j ≠ some k
    · exact ⟨i, Nat.le_refl _, (hspec i).mpr ⟨hu, k, hk, hfirst⟩, hk⟩
    · have : ∃ j, j < i ∧ InUnion s batch p j ∧ rowKey s j = some k := by
        apply Classical.byContradiction
        intro hno
        apply hfirst
        intro j hj huj hkj
        exact hno ⟨j, hj, huj, hkj⟩
      obtain ⟨j, hj, huj, hkj⟩ := this
      obtain ⟨j', hj', hsel, hkey⟩ := ih j hj huj hkj
      exact ⟨j', by omega, hsel, hkey⟩

/-- `score_chunk` succeeds for every chunk index `< n` as soon as the batch is empty or names a plate of the screen -/
theorem C06_scoreInputs_succeeds (s : Screen) (hwf : ScreenWF s) (pid : Nat) (batch : List Int) (n idx : Nat)
    (hidx : idx < n) (hbatch : batch = [] ∨ ∃ q, q ∈ s.pids ∧ q ∈ batch) :
    ∃ inp, scoreInputs s pid batch n idx = .ok inp := by
  have hn : 0 < n := by omega
  have hlen := arraySplit_length (candidates s batch) n hn
  obtain ⟨c, hc⟩ : ∃ c, (arraySplit (candidates s batch) n)[idx]? = some c :=
    ⟨_, List.getElem?_eq_getElem (by rw [hlen]; exact hidx)⟩
  have hchunk : chunkPlates s batch n idx = .ok c := by
    unfold chunkPlates
    have : (n == 0) = false := by simp; omega
    simp [this, hc]
  unfold scoreInputs
  simp only [hchunk, bind, Except.bind]
  cases hbe : batch.isEmpty with
  | true => exact ⟨c.map (fun p => (p, s.getPlate pid p)), by simp [pure, Except.pure]⟩
  | false =>
    have hb : batch ≠ [] := by intro h0; subst h0; simp at hbe
    obtain ⟨q, hq1, hq2⟩ := hbatch.resolve_left hb
    have hqs : batchPlates s batch ≠ [] := by
      intro h0
      have := (mem_batchPlates s batch q).mpr ⟨hq1, hq2⟩
      rw [h0] at this; cases this
    simp only [Bool.false_eq_true, if_false, concat_getPlates s pid _ hqs]
    have hall : ∀ (l : List Int), ∃ r, l.mapM (fun p => do
        let v ← conditioned s pid { parent := pid, sel := s.pids.map (fun x => (batchPlates s batch).any (fun q => x == q)) } p
        pure (p, v)) = .ok r := by
      intro l
      induction l with
      | nil => exact ⟨[], rfl⟩
      | cons a l ih =>
        obtain ⟨r, hr⟩ := ih
        rw [List.mapM_cons, conditioned_eq s hwf pid, hr]
        exact ⟨_, rfl⟩
    exact hall c

/-- the shipped `RandomScorer` and `SizeScorer` return exactly one score per plate given, in the order given -/
theorem C06_shipped_scorers_total :
    (∀ draws inp, (randomScorer draws inp).map Prod.fst = inp.map Prod.fst) ∧
    (∀ inp, (sizeScorer inp).map Prod.fst = inp.map Prod.fst) ∧
    (∀ draws, TotalScorer (randomScorer draws)) ∧ TotalScorer sizeScorer := by
  have h1 : ∀ draws inp, (randomScorer draws inp).map Prod.fst = inp.map Prod.fst := by
    intro draws inp
    unfold randomScorer
    rw [List.map_map]
    have : (Prod.fst ∘ fun (e : (Int × View) × Nat) => (e.1.1, Score.fin (draws e.2))) = (Prod.fst ∘ Prod.fst) := rfl
    rw [this, ← List.map_map, List.zipIdx_map_fst]
  have h2 : ∀ inp, (sizeScorer inp).map Prod.fst = inp.map Prod.fst := by
    intro inp; simp [sizeScorer, List.map_map, Function.comp_def]
  exact ⟨h1, h2, fun draws inp => by rw [h1], fun inp => by rw [h2]⟩

/-- with a total scorer the holder `score_chunk` returns lists exactly the scored plates once, with the scores
    the scorer returned, and has no zero-filled tail (`current_index = size = number of plates`) -/
theorem C06_total_scorer_holder (s : Screen) (pid : Nat) (batch : List Int) (n idx : Nat) (sc : Scorer)
    (ht : TotalScorer sc) (inp : List (Int × View)) (hi : scoreInputs s pid batch n idx = .ok inp) :
    ∃ h, scoreChunk s pid batch n idx sc = .ok h ∧ h.entries = sc inp ∧ h.cur = inp.length ∧ h.size = inp.length
      ∧ h.plateIds.Perm (inp.map Prod.fst) := by
  refine ⟨_, scoreChunk_total s pid batch n idx sc ht inp hi, ?_, rfl, rfl, ht inp⟩
  simp [Holder.entries, zip_map_fst_snd]

/-- Saving, loading and combining the chunk holders in any order gives the same multiset of (plate, score)
    cells — namely all cells of all holders. -/
theorem C06_concat_perm_invariant (hs hs' : List Holder) (hp : hs'.Perm hs) (hw : ∀ h ∈ hs, HolderWF h) (hne : hs ≠ []) :
    ∃ H H', Holder.concat (hs.map (fun h => Holder.load h.save)) = .ok H
      ∧ Holder.concat (hs'.map (fun h => Holder.load h.save)) = .ok H'
      ∧ H'.entries.Perm H.entries ∧ H.entries = (hs.map Holder.entries).flatten := by
  have hls : ∀ (l : List Holder), (l.map (fun h => Holder.load h.save)).map Holder.entries = l.map Holder.entries := by
    intro l; simp [List.map_map, Function.comp_def, Holder.load, Holder.save, Holder.entries]
  have hwl : ∀ (l : List Holder), (∀ h ∈ l, HolderWF h) → ∀ o ∈ l.map (fun h => Holder.load h.save), HolderWF o := by
    intro l hl o ho
    obtain ⟨h, hh, rfl⟩ := List.mem_map.mp ho
    simpa [HolderWF, Holder.load, Holder.save] using hl h hh
  have hw' : ∀ h ∈ hs', HolderWF h := fun h hh => hw h (hp.mem_iff.mp hh)
  have hne' : hs' ≠ [] := by
    intro h0; subst h0; exact hne (List.Perm.nil_eq hp).symm
  obtain ⟨H, hH, hHe, _⟩ := concat_entries _ (hwl hs hw) (by simpa using hne)
  obtain ⟨H', hH', hHe', _⟩ := concat_entries _ (hwl hs' hw') (by simpa using hne')
  refine ⟨H, H', hH, hH', ?_, by rw [hHe, hls]⟩
  rw [hHe, hHe', hls, hls]
  exact (hp.map Holder.entries).flatten

/-- The whole pipeline: every chunk `0 … n-1` scored by a total scorer, the chunk files saved, loaded and
    combined in any order, then `select_next_plate` with any filtering policy (or none).  If a plate is
    returned it is a plate of the screen, unobserved, not in the batch, allowed by the policy, it has a score
    in the combined holder and no allowed plate has a strictly smaller one.  Moreover the combined holder
    holds, up to order, exactly one score per candidate (so the minimum ranges over *all* allowed plates). -/
theorem C06_selection_correct (s : Screen) (pid : Nat) (batch : List Int) (n : Nat) (hn : 1 ≤ n)
    (sc : Nat → Scorer) (htot : ∀ i, TotalScorer (sc i)) (hold : Nat → Holder)
    (hchunks : ∀ i, i < n → scoreChunk s pid batch n i (sc i) = .ok (hold i))
    (files : List Holder) (hperm : files.Perm ((List.range n).map hold))
    (policy : Option Policy) (hpol : PolicyFilters policy)
    (H : Holder) (hH : Holder.concat (files.map (fun h => Holder.load h.save)) = .ok H)
    (p : Int) (hsel : selectNextPlate H s policy batch = .ok (some p)) :
    (H.entries.map Prod.fst).Perm (candidates s batch)
    ∧ p ∈ s.pids ∧ plateObserved s p = false ∧ p ∉ batch ∧ p ∈ eligible s policy batch
    ∧ ∃ sp, (p, sp) ∈ H.entries ∧ ∀ q sq, (q, sq) ∈ H.entries → q ∈ eligible s policy batch → sq.lt sp = false := by
  obtain ⟨H0, hH0, hHw, _, hkeys⟩ := pipeline_entries s pid batch n hn sc htot hold hchunks files hperm
  rw [hH] at hH0; cases hH0
  refine ⟨hkeys, ?_⟩
  have hsub : ∀ x, x ∈ eligible s policy batch → x ∈ candidates s batch := by
    intro x hx
    unfold eligible at hx
    cases policy with
    | none => exact hx
    | some f => exact hpol f rfl _ _ x hx
  unfold selectNextPlate at hsel
  simp only at hsel
  split at hsel
  · cases hsel
  · obtain ⟨best, hbest, hsel⟩ := bind_ok hsel
    split at hsel
    · cases hsel
      obtain ⟨h1, h2⟩ := plateIdWithMinimumScore_some H hHw (eligible s policy batch)
      by_cases hE : H.entries.filter (fun e => (eligible s policy batch).contains e.1) = []
      · rw [h1 hE] at hbest; cases hbest
      · obtain ⟨p', sp, hp', hmem, hmin⟩ := h2 hE
        rw [hp'] at hbest; cases hbest
        rw [List.mem_filter] at hmem
        have hel : p ∈ eligible s policy batch := by simpa using hmem.2
        have hc := (mem_candidates s batch p).mp (hsub p hel)
        refine ⟨hc.1, hc.2.1, hc.2.2, hel, sp, hmem.1, ?_⟩
        intro q sq hq hqel
        exact hmin (q, sq) (List.mem_filter.mpr ⟨hq, by simpa using hqel⟩)
    · cases hsel

/-- Under the same hypotheses `select_next_plate` never raises, and it returns nothing **iff** no plate is
    allowed (the policy's answer is empty; without a policy: there is no candidate). -/
theorem C06_none_iff_no_allowed (s : Screen) (pid : Nat) (batch : List Int) (n : Nat) (hn : 1 ≤ n)
    (sc : Nat → Scorer) (htot : ∀ i, TotalScorer (sc i)) (hold : Nat → Holder)
    (hchunks : ∀ i, i < n → scoreChunk s pid batch n i (sc i) = .ok (hold i))
    (files : List Holder) (hperm : files.Perm ((List.range n).map hold))
    (policy : Option Policy) (hpol : PolicyFilters policy)
    (H : Holder) (hH : Holder.concat (files.map (fun h => Holder.load h.save)) = .ok H) :
    (∃ r, selectNextPlate H s policy batch = .ok r) ∧
    (selectNextPlate H s policy batch = .ok none ↔ eligible s policy batch = []) := by
  obtain ⟨H0, hH0, hHw, _, hkeys⟩ := pipeline_entries s pid batch n hn sc htot hold hchunks files hperm
  rw [hH] at hH0; cases hH0
  have hsub : ∀ x, x ∈ eligible s policy batch → x ∈ candidates s batch := by
    intro x hx
    unfold eligible at hx
    cases policy with
    | none => exact hx
    | some f => exact hpol f rfl _ _ x hx
  cases hel : eligible s policy batch with
  | nil => simp [selectNextPlate, hel]
  | cons x xs =>
    have hx : x ∈ eligible s policy batch := by rw [hel]; simp
    have hxc := hsub x hx
    have hxk : x ∈ H.entries.map Prod.fst := hkeys.mem_iff.mpr hxc
    obtain ⟨e, he, hex⟩ := List.mem_map.mp hxk
    have hE : H.entries.filter (fun e => (eligible s policy batch).contains e.1) ≠ [] := by
      intro h0
      have : e ∈ H.entries.filter (fun e => (eligible s policy batch).contains e.1) :=
        List.mem_filter.mpr ⟨he, by simpa [hex] using hx⟩
      rw [h0] at this; cases this
    obtain ⟨p, sp, hp, hmem, _⟩ := (plateIdWithMinimumScore_some H hHw (eligible s policy batch)).2 hE
    rw [List.mem_filter] at hmem
    have hpel : p ∈ eligible s policy batch := by simpa using hmem.2
    have hpp : p ∈ s.pids := ((mem_candidates s batch p).mp (hsub p hpel)).1
    have hres : selectNextPlate H s policy batch = .ok (some p) := by
      unfold selectNextPlate
      simp only [hel, List.isEmpty_cons, Bool.false_eq_true, if_false]
      rw [← hel, hp]
      simp [bind, Except.bind, hpp]
    exact ⟨⟨_, hres⟩, by simp [hres]⟩

/-- The command line wrapper writes the selected plate id, or `-1` exactly when `select_next_plate` returned
    nothing; it is the composition load screen / load + concat files (in the order given) / select. -/
theorem C06_cli_output (f : Screen.File) (s : Screen) (hs : Screen.load f = .ok s) (files : List ScoreFile)
    (policy : Option Policy) (batch : List Int) (H : Holder) (hH : Holder.concat (files.map Holder.load) = .ok H) :
    cliSelectNextPlate f files policy batch
      = (selectNextPlate H s policy batch).map (fun r => match r with | some p => toString p | none => "-1") := by
  unfold cliSelectNextPlate
  simp only [hs, hH, bind, Except.bind]
  cases selectNextPlate H s policy batch with
  | error e => simp [Except.map]
  | ok r => cases r <;> simp [Except.map, pure, Except.pure]

/-! ### any holder, stale score files, the two programs composed (added by the audit) -/

/-- Selection is sound for **any** scores holder, whatever it contains (stale plates scored for an earlier batch,
    plates observed since, zero-filled cells, duplicates). -/
theorem C06_selection_sound_any_holder (H : Holder) (hHw : HolderWF H) (s : Screen) (policy : Option Policy)
    (hpol : PolicyFilters policy) (batch : List Int) (p : Int) (hsel : selectNextPlate H s policy batch = .ok (some p)) :
    p ∈ s.pids ∧ plateObserved s p = false ∧ p ∉ batch ∧ p ∈ eligible s policy batch
    ∧ ∃ sp, (p, sp) ∈ H.entries ∧ ∀ q sq, (q, sq) ∈ H.entries → q ∈ eligible s policy batch → sq.lt sp = false := by
  have hsub := eligible_sub s policy hpol batch
  unfold selectNextPlate at hsel
  simp only at hsel
  split at hsel
  · cases hsel
  · obtain ⟨best, hbest, hsel⟩ := bind_ok hsel
    split at hsel
    · cases hsel
      obtain ⟨h1, h2⟩ := plateIdWithMinimumScore_some H hHw (eligible s policy batch)
      by_cases hE : H.entries.filter (fun e => (eligible s policy batch).contains e.1) = []
      · rw [h1 hE] at hbest; cases hbest
      · obtain ⟨p', sp, hp', hmem, hmin⟩ := h2 hE
        rw [hp'] at hbest; cases hbest
        rw [List.mem_filter] at hmem
        have hel : p ∈ eligible s policy batch := by simpa using hmem.2
        have hc := (mem_candidates s batch p).mp (hsub p hel)
        refine ⟨hc.1, hc.2.1, hc.2.2, hel, sp, hmem.1, ?_⟩
        intro q sq hq hqel
        exact hmin (q, sq) (List.mem_filter.mpr ⟨hq, by simpa using hqel⟩)
    · cases hsel

/-- ... and it never raises and returns nothing exactly when nothing is allowed, as soon as one allowed plate has a cell -/
theorem C06_none_iff_any_holder (H : Holder) (hHw : HolderWF H) (s : Screen) (policy : Option Policy)
    (hpol : PolicyFilters policy) (batch : List Int)
    (hcov : ∀ x, x ∈ eligible s policy batch → x ∈ H.entries.map Prod.fst) :
    (∃ r, selectNextPlate H s policy batch = .ok r) ∧
    (selectNextPlate H s policy batch = .ok none ↔ eligible s policy batch = []) := by
  have hsub := eligible_sub s policy hpol batch
  cases hel : eligible s policy batch with
  | nil => simp [selectNextPlate, hel]
  | cons x xs =>
    have hx : x ∈ eligible s policy batch := by rw [hel]; simp
    have hxk := hcov x hx
    obtain ⟨e, he, hex⟩ := List.mem_map.mp hxk
    have hE : H.entries.filter (fun e => (eligible s policy batch).contains e.1) ≠ [] := by
      intro h0
      have : e ∈ H.entries.filter (fun e => (eligible s policy batch).contains e.1) :=
        List.mem_filter.mpr ⟨he, by simpa [hex] using hx⟩
      rw [h0] at this; cases this
    obtain ⟨p, sp, hp, hmem, _⟩ := (plateIdWithMinimumScore_some H hHw (eligible s policy batch)).2 hE
    rw [List.mem_filter] at hmem
    have hpel : p ∈ eligible s policy batch := by simpa using hmem.2
    have hpp : p ∈ s.pids := ((mem_candidates s batch p).mp (hsub p hpel)).1
    have hres : selectNextPlate H s policy batch = .ok (some p) := by
      unfold selectNextPlate
      simp only [hel, List.isEmpty_cons, Bool.false_eq_true, if_false]
      rw [← hel, hp]
      simp [bind, Except.bind, hpp]
    exact ⟨⟨_, hres⟩, by simp [hres]⟩

/-- Score files computed for an **earlier, smaller batch** `b0 ⊆ batch` (any chunk count, any total scorers, combined in
    any order) and selection run with the current batch: the plate returned is unobserved, outside the *current* batch,
    allowed, minimal among the allowed plates; selection never raises and returns nothing iff nothing is allowed. -/
theorem C06_stale_scores_selection (s : Screen) (pid : Nat) (b0 batch : List Int) (hb : ∀ x, x ∈ b0 → x ∈ batch)
    (n : Nat) (hn : 1 ≤ n) (sc : Nat → Scorer) (htot : ∀ i, TotalScorer (sc i)) (hold : Nat → Holder)
    (hchunks : ∀ i, i < n → scoreChunk s pid b0 n i (sc i) = .ok (hold i))
    (files : List Holder) (hperm : files.Perm ((List.range n).map hold))
    (policy : Option Policy) (hpol : PolicyFilters policy)
    (H : Holder) (hH : Holder.concat (files.map (fun h => Holder.load h.save)) = .ok H) :
    ((∃ r, selectNextPlate H s policy batch = .ok r) ∧
      (selectNextPlate H s policy batch = .ok none ↔ eligible s policy batch = [])) ∧
    ∀ p, selectNextPlate H s policy batch = .ok (some p) →
      p ∈ s.pids ∧ plateObserved s p = false ∧ p ∉ batch ∧ p ∈ eligible s policy batch
      ∧ ∃ sp, (p, sp) ∈ H.entries ∧ ∀ q sq, (q, sq) ∈ H.entries → q ∈ eligible s policy batch → sq.lt sp = false := by
  obtain ⟨H0, hH0, hHw, _, hkeys⟩ := pipeline_entries s pid b0 n hn sc htot hold hchunks files hperm
  rw [hH] at hH0; cases hH0
  refine ⟨C06_none_iff_any_holder H hHw s policy hpol batch ?_, fun p hp => C06_selection_sound_any_holder H hHw s policy hpol batch p hp⟩
  intro x hx
  exact hkeys.mem_iff.mpr (candidates_mono s b0 batch hb x (eligible_sub s policy hpol batch x hx))

/-- the two command line programs composed: every chunk through `calculate_scores`, the files in any order through
    `select_next_plate`.  The text written is the id of a plate that is unobserved, outside the batch, allowed and of
    minimal score among the allowed plates, or `-1` exactly when no plate is allowed; the second program never raises. -/
theorem C06_cli_pipeline (f : Screen.File) (s : Screen) (hs : Screen.load f = .ok s) (batch : List Int) (n : Nat) (hn : 1 ≤ n)
    (sc : Nat → Scorer) (htot : ∀ i, TotalScorer (sc i)) (file : Nat → ScoreFile)
    (hchunks : ∀ i, i < n → cliCalculateScores f batch n i (sc i) = .ok (file i))
    (files : List ScoreFile) (hperm : files.Perm ((List.range n).map file))
    (policy : Option Policy) (hpol : PolicyFilters policy) :
    ∃ H txt, Holder.concat (files.map Holder.load) = .ok H ∧ cliSelectNextPlate f files policy batch = .ok txt ∧
      (txt = "-1" ∧ eligible s policy batch = [] ∨
       ∃ p, txt = toString p ∧ p ∈ s.pids ∧ plateObserved s p = false ∧ p ∉ batch ∧ p ∈ eligible s policy batch
        ∧ ∃ sp, (p, sp) ∈ H.entries ∧ ∀ q sq, (q, sq) ∈ H.entries → q ∈ eligible s policy batch → sq.lt sp = false) := by
  -- the holders behind the files
  have hh : ∀ i, i < n → ∃ h, scoreChunk s 0 batch n i (sc i) = .ok h ∧ file i = h.save := by
    intro i hi
    have := hchunks i hi
    unfold cliCalculateScores at this
    simp only [hs, bind, Except.bind] at this
    cases hsc : scoreChunk s 0 batch n i (sc i) with
    | error e => simp [hsc] at this
    | ok h =>
      simp only [hsc, pure, Except.pure, Except.ok.injEq] at this
      exact ⟨h, rfl, this.symm⟩
  let hold : Nat → Holder := fun i => match scoreChunk s 0 batch n i (sc i) with
    | .ok h => h
    | .error _ => Holder.new 0
  have hhold : ∀ i, i < n → scoreChunk s 0 batch n i (sc i) = .ok (hold i) ∧ file i = (hold i).save := by
    intro i hi
    obtain ⟨h, h1, h2⟩ := hh i hi
    simp only [hold, h1]
    exact ⟨trivial, h2⟩
  let L := (List.range n).map hold
  have hfileL : (List.range n).map file = L.map Holder.save := by
    simp only [L, List.map_map]
    apply List.map_congr_left
    intro i hi
    exact (hhold i (by simpa using hi)).2
  obtain ⟨H0, hH0, hHw0, _, hkeys0⟩ := pipeline_entries s 0 batch n hn sc htot hold (fun i hi => (hhold i hi).1) L (List.Perm.refl _)
  have hLwf : ∀ o ∈ L.map (fun h => Holder.load h.save), HolderWF o := by
    intro o ho
    obtain ⟨h, hh', rfl⟩ := List.mem_map.mp ho
    obtain ⟨i, hi, rfl⟩ := List.mem_map.mp hh'
    obtain ⟨inp, hinp, _⟩ := bind_ok (show scoreChunk s 0 batch n i (sc i) = .ok (hold i) from (hhold i (by simpa using hi)).1)
    have := scoreChunk_total s 0 batch n i (sc i) (htot i) inp hinp
    rw [(hhold i (by simpa using hi)).1] at this
    have e := Except.ok.inj this
    rw [e]; simp [HolderWF, Holder.load, Holder.save]
  have hperm' : (files.map Holder.load).Perm (L.map (fun h => Holder.load h.save)) := by
    have := hperm.map Holder.load
    rw [hfileL, List.map_map] at this
    exact this
  have hwf : ∀ o ∈ files.map Holder.load, HolderWF o := fun o ho => hLwf o (hperm'.mem_iff.mp ho)
  have hne : files.map Holder.load ≠ [] := by
    intro h0
    have := hperm.length_eq
    simp at h0; subst h0; simp at this; omega
  obtain ⟨H, hH, hHe, hHw⟩ := concat_entries _ hwf hne
  have hLne : L.map (fun h => Holder.load h.save) ≠ [] := by
    intro h0; have := hperm'.length_eq; rw [h0] at this; simp at this; exact hne (by simpa using this)
  obtain ⟨H0', hH0', hHe0, _⟩ := concat_entries _ hLwf hLne
  rw [hH0] at hH0'; cases hH0'
  have hent : H.entries.Perm H0.entries := by
    rw [hHe, hHe0]
    exact (hperm'.map Holder.entries).flatten
  have hkeys : (H.entries.map Prod.fst).Perm (candidates s batch) := (hent.map Prod.fst).trans hkeys0
  have hcov : ∀ x, x ∈ eligible s policy batch → x ∈ H.entries.map Prod.fst :=
    fun x hx => hkeys.mem_iff.mpr (eligible_sub s policy hpol batch x hx)
  obtain ⟨⟨r, hr⟩, hnone⟩ := C06_none_iff_any_holder H hHw s policy hpol batch hcov
  refine ⟨H, (match r with | some p => toString p | none => "-1"), hH, ?_, ?_⟩
  · unfold cliSelectNextPlate
    simp only [hs, hH, hr, bind, Except.bind, pure, Except.pure]
    cases r <;> rfl
  · cases r with
    | none => exact Or.inl ⟨rfl, hnone.mp hr⟩
    | some p => exact Or.inr ⟨p, rfl, C06_selection_sound_any_holder H hHw s policy hpol batch p hr⟩

/-! ### the DBAL scorer and the composed pipeline (`Model/ScorePipeline.lean`) -/

section
set_option linter.unusedSectionVars false
variable {α : Type} [Add α] [Sub α] [Mul α] [Div α] [Neg α] [Zero α] [One α] [OfNat α 0] [OfNat α 1] [OfScientific α]
  [LT α] [DecidableLT α] [Max α] [Predict.ExpLog α] [Dbal.ExpLog α]

/-- `GaussianDBALScorer` is total, for every number type: (1) the scorer model of C05 (`Dbal.scorerScore`: sub-groups of `max_chunk`
    plates, one kernel call per group) returns exactly the keys it was given, in order, whatever the grouping, triples and values;
    (2) so does the scorer of the composed pipeline on the plates `score_chunk` hands it, whenever it answers;
    (3) its count check ("Expected {} plates to be scored") never fires for `max_chunk ≥ 1`: with the predictions of every plate
        and at least three samples it answers with `Dbal.scorerScore`'s value for every plate — the definition C05's theorems are about;
    (4) `score_chunk` with this scorer is `Batchie.Scores.scoreChunk` with `dbalScorer` plugged in, and the holder lists the plates of
        the chunk once each, in order, without a zero-filled tail. -/
theorem C06_dbal_scorer_total (num : Num α) (thetas : List (Predict.Theta α)) (D : Nat → Nat → α) (maxChunk : Nat) (hmc : 0 < maxChunk)
    (tripless : Nat → List Dbal.Triple) (s : Screen) :
    (∀ (n : Nat) (plates : List (Nat × Dbal.Plate α)),
        (Dbal.scorerScore n D maxChunk tripless plates).map Prod.fst = plates.map Prod.fst)
    ∧ (∀ inp out, dbalScore num thetas D maxChunk tripless s inp = .ok out → out.map Prod.fst = inp.map Prod.fst)
    ∧ (∀ inp ps, inp.isEmpty = false → inp.mapM (fun e => plateOfView num thetas s e.2) = .ok ps →
        UnrankCallsite.comb3 thetas.length ≠ 0 →
        dbalRaw num thetas D maxChunk tripless s inp
          = .ok ((inp.map Prod.fst).zip ((Dbal.scorerScore thetas.length D maxChunk tripless ((List.range ps.length).zip ps)).map Prod.snd)))
    ∧ (∀ batch n idx raw h, scoreChunkDbal num thetas D maxChunk tripless s batch n idx = .ok (raw, h) →
        scoreChunk s 0 batch n idx (dbalScorer num thetas D maxChunk tripless s) = .ok h
        ∧ ∃ inp, scoreInputs s 0 batch n idx = .ok inp ∧ h.plateIds = inp.map Prod.fst ∧ raw.map Prod.fst = inp.map Prod.fst
            ∧ h.cur = inp.length ∧ h.size = inp.length ∧ HolderWF h) :=
  ⟨fun n plates => scorerScore_keys n D maxChunk hmc tripless plates,
   fun inp out h => dbalScore_keys num thetas D maxChunk tripless s inp out h,
   fun inp ps hne hps hc => dbalRaw_ok_of num thetas D maxChunk hmc tripless s inp hne ps hps hc,
   fun batch n idx raw h hr => scoreChunkDbal_spec num thetas D maxChunk tripless s batch n idx raw h hr⟩

/-- The CONCRETE pipeline (`ScorePipeline.run`: predictions → MSE distance chunks → dense matrix → every score chunk through the DBAL
    scorer → holders saved, loaded, combined → `select_next_plate`), for every number type, every screen, samples, chunk counts,
    batch, draws and filtering policy: whenever it answers, the combined holder lists exactly the candidates (each once, in order), nothing
    is selected iff nothing is allowed, and a selected plate is unobserved, outside the batch, allowed and of minimal score. -/
theorem C06_dbal_pipeline_correct (num : Num α) (s : Screen) (thetas : List (Predict.Theta α)) (kDist kScore : Nat) (hk : 1 ≤ kScore)
    (batch : List Int) (maxChunk : Nat) (draws : Nat → Nat → List Nat) (policy : Option Policy) (hpol : PolicyFilters policy)
    (res : Result α) (hrun : run num s thetas kDist kScore batch maxChunk draws policy = .ok res) :
    res.combined.entries.map Prod.fst = candidates s batch
    ∧ (res.selected = none ↔ eligible s policy batch = [])
    ∧ ∀ p, res.selected = some p →
        p ∈ s.pids ∧ plateObserved s p = false ∧ p ∉ batch ∧ p ∈ eligible s policy batch
        ∧ ∃ sp, (p, sp) ∈ res.combined.entries ∧
            ∀ q sq, (q, sq) ∈ res.combined.entries → q ∈ eligible s policy batch → sq.lt sp = false := by
  unfold run at hrun
  obtain ⟨cdm, _, hrun⟩ := bind_ok hrun
  obtain ⟨dense, _, hrun⟩ := bind_ok hrun
  obtain ⟨chunks, hchunks, hrun⟩ := bind_ok hrun
  obtain ⟨combined, hcomb, hrun⟩ := bind_ok hrun
  obtain ⟨selected, hsel, hrun⟩ := bind_ok hrun
  have := pure_ok hrun
  subst this
  simp only
  obtain ⟨hlen, hget⟩ := mapM_range_ok _ _ _ hchunks
  simp only [List.length_range] at hlen
  -- every chunk
  have hspec : ∀ i (hi : i < chunks.length),
      chunkPlates s batch kScore i = .ok (chunks[i].2.plateIds) ∧ HolderWF chunks[i].2 := by
    intro i hi
    have h1 := hget i (by simpa [hlen] using hi) hi
    simp only [List.getElem_range] at h1
    obtain ⟨_, inp, hinp, hids, _, _, _, hwf⟩ := scoreChunkDbal_spec num thetas _ maxChunk _ s batch kScore i chunks[i].1 chunks[i].2 h1
    exact ⟨by rw [hids]; exact scoreInputs_fst s 0 batch kScore i inp hinp, hwf⟩
  let holders := chunks.map Prod.snd
  have hwfL : ∀ o ∈ holders.map (fun h => Holder.load h.save), HolderWF o := by
    intro o ho
    obtain ⟨h, hh, rfl⟩ := List.mem_map.mp ho
    obtain ⟨c, hc, rfl⟩ := List.mem_map.mp hh
    obtain ⟨i, hi, rfl⟩ := List.getElem_of_mem hc
    simpa [HolderWF, Holder.load, Holder.save] using (hspec i hi).2
  have hne : holders.map (fun h => Holder.load h.save) ≠ [] := by
    intro h0
    have : chunks.length = 0 := by simpa [holders] using congrArg List.length h0
    omega
  obtain ⟨H, hH, hHe, hHw⟩ := concat_entries _ hwfL hne
  rw [hcomb] at hH; cases hH
  have hkeys : combined.entries.map Prod.fst = candidates s batch := by
    rw [hHe, List.map_flatten, List.map_map, List.map_map, List.map_map]
    rw [← cover s batch kScore (fun i => (chunks.getD i ([], Holder.new 0)).2.plateIds) ?_ (by omega)]
    · congr 1
      apply List.ext_getElem
      · simp [hlen]
      · intro i h1 h2
        have hi : i < chunks.length := by simpa using h1
        have hw := (hspec i hi).2
        simp only [List.getElem_map, List.getElem_range, Function.comp_apply, List.getD_eq_getElem?_getD,
          List.getElem?_eq_getElem hi, Option.getD_some]
        simp only [Holder.entries, Holder.load, Holder.save]
        exact List.map_fst_zip (by rw [hw]; exact Nat.le_refl _)
    · intro i hi
      have hi' : i < chunks.length := by omega
      simp only [List.getD_eq_getElem?_getD, List.getElem?_eq_getElem hi', Option.getD_some]
      exact (hspec i hi').1
  have hcov : ∀ x, x ∈ eligible s policy batch → x ∈ combined.entries.map Prod.fst := by
    intro x hx; rw [hkeys]; exact eligible_sub s policy hpol batch x hx
  obtain ⟨_, hnone⟩ := C06_none_iff_any_holder combined hHw s policy hpol batch hcov
  rw [hsel] at hnone
  refine ⟨hkeys, ⟨fun h => hnone.mp (by rw [h]), fun h => by have := hnone.mpr h; exact Except.ok.inj this⟩, ?_⟩
  intro p hp
  subst hp
  exact C06_selection_sound_any_holder combined hHw s policy hpol batch p hsel

end

/-- The tie-break, which the property leaves open and the code fixes: among the allowed cells of the combined holder (cells are in
    FILE order, then in holder order inside a file: `C06_concat_perm_invariant`, last conjunct) the selected plate's cell has a
    minimal score and every allowed cell BEFORE it has a strictly larger one — `np.argmin` returns the first minimum. -/
theorem C06_tie_break_first (H : Holder) (hHw : HolderWF H) (s : Screen) (policy : Option Policy) (batch : List Int) (p : Int)
    (hsel : selectNextPlate H s policy batch = .ok (some p)) :
    let E := H.entries.filter (fun e => (eligible s policy batch).contains e.1)
    ∃ (i : Nat) (sp : Score), E[i]? = some (p, sp) ∧ (∀ e ∈ E, e.2.lt sp = false) ∧
      ∀ (j : Nat) (e : Int × Score), j < i → E[j]? = some e → sp.lt e.2 = true := by
  unfold selectNextPlate at hsel
  simp only at hsel
  split at hsel
  · cases hsel
  · obtain ⟨best, hbest, hsel⟩ := bind_ok hsel
    split at hsel
    · cases hsel
      exact plateIdWithMinimumScore_first H hHw (eligible s policy batch) p hbest
    · cases hsel

/-! ### the hypotheses are satisfiable (non-vacuity) -/

/-- the chunk holders assumed by `C06_selection_correct` / `C06_none_iff_no_allowed` exist for every
    well-formed screen, every `n ≥ 1`, every family of total scorers and every batch that is empty or names a plate -/
theorem C06_pipeline_exists (s : Screen) (hwf : ScreenWF s) (pid : Nat) (batch : List Int) (n : Nat)
    (sc : Nat → Scorer) (htot : ∀ i, TotalScorer (sc i)) (hbatch : batch = [] ∨ ∃ q, q ∈ s.pids ∧ q ∈ batch) :
    ∀ i, i < n → ∃ h, scoreChunk s pid batch n i (sc i) = .ok h := by
  intro i hi
  obtain ⟨inp, hinp⟩ := C06_scoreInputs_succeeds s hwf pid batch n i hi hbatch
  obtain ⟨h, hh, _⟩ := C06_total_scorer_holder s pid batch n i (sc i) (htot i) inp hinp
  exact ⟨h, hh⟩

/-- `ScreenWF` is not an extra assumption on real inputs: every screen the constructor model `mk?` returns, and
    every screen loaded from a file, satisfies it -/
theorem C06_constructed_screen_wf (r : Raw) (s : Screen) (h : mk? r = .ok s) : ScreenWF s := mk?_wf r s h

theorem C06_loaded_screen_wf (f : Screen.File) (s : Screen) (h : Screen.load f = .ok s) : ScreenWF s := by
  unfold Screen.load at h
  split at h
  · cases h
  · exact mk?_wf _ s h

/-- three plates (0 observed, 1 and 2 unobserved), plates 1 and 2 share the condition (sample 0, treatment 1) -/
def exScreen : Screen :=
  { ctrl := [], arity := 1, tnames := [], tdoses := [], snames := [], pnames := [], obs := [0, 0, 0, 0, 0],
    mask := [true, true, false, false, false], tids := [[0], [1], [1], [2], [1]], sids := [0, 0, 0, 0, 0],
    pids := [0, 0, 1, 1, 2], tmap := [], smap := [], pmap := [] }

example : ScreenWF exScreen := ⟨rfl, rfl⟩
example : (1 : Int) ∈ candidates exScreen [2] :=
  (mem_candidates exScreen [2] 1).mpr ⟨by decide, by decide, by decide⟩
example : (0 : Int) ∉ candidates exScreen [2] :=
  fun h => absurd ((mem_candidates exScreen [2] 0).mp h).2.1 (by decide)
example : ∀ i, i < 4 → ∃ h, scoreChunk exScreen 0 [2] 4 i sizeScorer = .ok h :=
  C06_pipeline_exists exScreen ⟨rfl, rfl⟩ 0 [2] 4 (fun _ => sizeScorer) (fun _ => C06_shipped_scorers_total.2.2.2)
    (Or.inr ⟨2, by decide, by decide⟩)
example : PolicyFilters none := fun f h => by cases h
example (g : Int → Bool) : PolicyFilters (some (fun _ u => u.filter g)) := by
  intro f h b u x hx
  cases h
  exact (List.mem_filter.mp hx).1
example : HolderWF (Holder.new 3) := by simp [HolderWF, Holder.new]
/-- the conditioned subset of plate 1 given batch {2}: rows 2,3 (plate 1) and 4 (plate 2); row 4 repeats the
    condition of row 2 and is dropped -/
example : conditioned exScreen 0 { parent := 0, sel := [false, false, false, false, true] } 1
    = .ok { parent := 0, sel := [false, false, true, true, false] } := by
  rfl

/-- stale score files: scored for the empty batch (plates 1 and 2 are candidates), selection with batch {2} -/
example : (∀ x, x ∈ ([] : List Int) → x ∈ [(2 : Int)]) := fun x h => by cases h
example : ∀ i, i < 3 → ∃ h, scoreChunk exScreen 0 [] 3 i sizeScorer = .ok h :=
  C06_pipeline_exists exScreen ⟨rfl, rfl⟩ 0 [] 3 (fun _ => sizeScorer) (fun _ => C06_shipped_scorers_total.2.2.2) (Or.inl rfl)
/-- `HolderWF` of a hand-written stale holder that still lists the batch plate 2 and the observed plate 0 -/
example : HolderWF { size := 3, scores := [.negInf, .fin 1, .negInf], plateIds := [2, 1, 0], cur := 3 } := rfl

/-- the hypothesis of `C06_tie_break_first` / `C06_selection_sound_any_holder` is satisfiable: this stale holder (it still lists the batch
    plate 2 and the observed plate 0) makes `select_next_plate` return a plate -/
example : ∃ p, selectNextPlate { size := 3, scores := [.negInf, .fin 1, .negInf], plateIds := [2, 1, 0], cur := 3 } exScreen none [2]
    = .ok (some p) := by
  have hpol : PolicyFilters none := fun f h => by cases h
  have hcov : ∀ x, x ∈ eligible exScreen none [2] →
      x ∈ (Holder.entries { size := 3, scores := [.negInf, .fin 1, .negInf], plateIds := [2, 1, 0], cur := 3 }).map Prod.fst := by
    intro x hx
    have hx' : x ∈ exScreen.pids := ((mem_candidates exScreen [2] x).mp hx).1
    simp [exScreen] at hx'
    rcases hx' with rfl | rfl | rfl <;> simp [Holder.entries]
  obtain ⟨⟨r, hr⟩, hnone⟩ := C06_none_iff_any_holder
    { size := 3, scores := [.negInf, .fin 1, .negInf], plateIds := [2, 1, 0], cur := 3 } (by simp [HolderWF]) exScreen none hpol [2] hcov
  cases r with
  | some p => exact ⟨p, hr⟩
  | none =>
    have h0 := hnone.mp hr
    have h1 : (1 : Int) ∈ eligible exScreen none [2] := (mem_candidates exScreen [2] 1).mpr ⟨by decide, by decide, by decide⟩
    rw [h0] at h1; cases h1

end Batchie.Props.C06
