/-
  C13 -- generated, smoothed and initial plates satisfy their documented shape guarantees.

  Only the property theorems.  Model: `Model/Prep.lean`, `Model/PrepShipped.lean` (validated against /repo by
  `harness/c13.py`); helper lemmas: `Lemmas/Prep*.lean`.

  Reading guide.  The public `generate_plates` / `smooth_plates` wrappers hand the inner operation the screen built from
  the unobserved rows (`build s.ctrl s.arity (unobservedRows s)`) and put the observed rows back behind its result;
  `C13_wrapper_unobserved_part` states exactly that.  The shape theorems below are therefore stated for an arbitrary
  screen `u` with `build c a rows = .ok u` -- every screen the wrappers can pass -- and an arbitrary choice log for which the
  operation returns.  `plateSize rows p` = number of rows carrying plate label `p`; `distinctPlates rows σ` = the distinct
  plate labels on the rows of sample `σ`.
-/
import Batchie.Lemmas.PrepOps
import Batchie.Lemmas.PrepExamples

namespace Batchie.Props.C13
open Batchie.Proto Batchie.Screen Batchie.Prep

/-- **The wrapper.** If the wrapped operation returns and something is unobserved, then the unobserved rows of the result are
    exactly the rows the inner operation returned for the screen built from the unobserved input rows, and the observed
    rows are those of the input. -/
theorem C13_wrapper_unobserved_part (op : Generator ⊕ Smoother) (s out : Screen)
    (h : (match op with | .inl g => g.wrapped s | .inr sm => sm.wrapped s) = .ok out) (hne : unobservedRows s ≠ []) :
    ∃ u nu, build s.ctrl s.arity (unobservedRows s) = .ok u ∧
      (match op with | .inl g => g.run u | .inr sm => sm.run u) = .ok nu ∧
      unobservedRows out = rowsOf nu ∧ observedRows out = observedRows s := by
  cases op with
  | inl g =>
    simp only at h ⊢
    rcases wrap_ok' h with ⟨he, _⟩ | ⟨u, nu, hu, hnu, hrows⟩
    · exact absurd he hne
    · obtain ⟨e1, e2⟩ := assemble_observed (generator_facts g hu unobserved_mask hnu).2 hrows
      exact ⟨u, nu, hu, hnu, e2, e1⟩
  | inr sm =>
    simp only at h ⊢
    rcases wrap_ok' h with ⟨he, _⟩ | ⟨u, nu, hu, hnu, hrows⟩
    · exact absurd he hne
    · obtain ⟨e1, e2⟩ := assemble_observed (smoother_facts sm hu unobserved_mask hnu).2 hrows
      exact ⟨u, nu, hu, hnu, e2, e1⟩

/-! ### generators -/

/-- **Sample-segregating generator.** Every generated plate holds a single sample and at most `maxSize` experiments
    (and a non-empty screen is only accepted with a positive limit). -/
theorem C13_segregating_single_sample_and_size (c : Name) (a : Nat) (rows : List Row) (u nu : Screen) (maxSize : Int)
    (perms : List (List Nat)) (hu : build c a rows = .ok u) (h : genSegregating maxSize perms u = .ok nu) :
    (∀ r1 ∈ rowsOf nu, ∀ r2 ∈ rowsOf nu, r1.plate = r2.plate → r1.sample = r2.sample) ∧
    (∀ p : Name, p ∈ (rowsOf nu).map (·.plate) → (plateSize (rowsOf nu) p : Int) ≤ maxSize) ∧
    (rows ≠ [] → 0 < maxSize) :=
  genSegregating_shape hu h

/-- regression: the generator as it was before the fix (plates only for samples **above** the limit) lumps the rows of two
    small samples into the plate `""`: samples of 2, 2 and 5 rows, limit 3 (DESIGN section 7 #3) -/
theorem C13_segregating_old_violates :
    segChunksOld [0,0,1,1,2,2,2,2,2] 3 [0,1,2] [[4,5,6,7,8]] = .ok [[4,5,6],[7,8]] ∧
      labelOf [[4,5,6],[7,8]] 0 = [] ∧ labelOf [[4,5,6],[7,8]] 2 = [] :=
  segregating_old_lumps_witness

/-- ... and the current generator separates them -/
theorem C13_segregating_new_separates :
    segChunks [0,0,1,1,2,2,2,2,2] 3 [0,1,2] [[0,1],[2,3],[4,5,6,7,8]] = .ok [[0,1],[2,3],[4,5,6],[7,8]] ∧
      labelOf [[0,1],[2,3],[4,5,6],[7,8]] 0 = genName 0 ∧ labelOf [[0,1],[2,3],[4,5,6],[7,8]] 2 = genName 1 ∧
      labelOf [[0,1],[2,3],[4,5,6],[7,8]] 0 ≠ labelOf [[0,1],[2,3],[4,5,6],[7,8]] 2 :=
  segregating_new_separates_witness

/-- **Pairwise generator.** Every generated plate holds a single sample. -/
theorem C13_pairwise_single_sample (sub anc : Int) (anchor : List Int) (perms : List (List Int)) (assign : List (List Name))
    (u nu : Screen) (h : genPairwise sub anc anchor perms assign u = .ok nu) :
    ∀ r1 ∈ rowsOf nu, ∀ r2 ∈ rowsOf nu, r1.plate = r2.plate → r1.sample = r2.sample :=
  genPairwise_single_sample h

/-! ### initial plate (sparse cover) and combination filter -/

/-- **Sparse cover.** For every constructed, fully observed screen and every choice log for which the generator returns:
    (1) every sample id has an observed experiment on the initial plate, (2) every treatment id of the id table (the
    control sentinel included) occurs in an observed experiment on the initial plate, (3) observed rows are on the plate
    `initial_plate` and all the others on one plate (`unobserved_pl`, numpy's truncation of `unobserved_plate`), and the
    two names differ. -/
theorem C13_cover (r : Raw) (reveal : Bool) (log : List Nat) (s out : Screen) (hs : mk? r = .ok s)
    (h : sparseCover reveal log s = .ok out) :
    (∀ i (hi : i < s.sids.length), ∃ (j : Nat) (h1 : j < (rowsOf out).length) (h2 : j < s.sids.length),
        (rowsOf out)[j].mask = true ∧ (rowsOf out)[j].plate = initialPlateName ∧ s.sids[j] = s.sids[i]) ∧
    (∀ t ∈ s.tids, ∀ x ∈ t, ∃ (j : Nat) (h1 : j < (rowsOf out).length) (h2 : j < s.tids.length),
        (rowsOf out)[j].mask = true ∧ (rowsOf out)[j].plate = initialPlateName ∧ x ∈ s.tids[j]) ∧
    (∀ x ∈ rowsOf out, (x.mask = true → x.plate = initialPlateName) ∧ (x.mask = false → x.plate = unobservedPlateName)) ∧
    initialPlateName ≠ unobservedPlateName := by
  have F := facts_of_mk hs
  exact ⟨fun i hi => sparseCover_samples h F.tids_len F.sids_len i hi,
    fun t ht x hx => sparseCover_treatments h F.tids_len t ht x hx, sparseCover_plates h, initial_ne_unobserved⟩

/-- **The greedy loop terminates because each round covers a new id**: choosing any row that holds a still uncovered id
    strictly shrinks the set of uncovered ids, and a successful greedy phase consumed at most as many choices as there
    were uncovered ids (at most the number of distinct ids). -/
theorem C13_cover_terminates (tids : List (List Int)) :
    (∀ (covered : List Int) (c : Nat) (hc : c < tids.length), (∃ x ∈ tids[c], x ∈ remaining tids covered) →
        (remaining tids (covered ++ tids[c]!)).length < (remaining tids covered).length) ∧
    (∀ (log : List Nat) (st st' : CoverSt), coverGreedy tids log st = .ok st' →
        st'.chosen.length - st.chosen.length ≤ (remaining tids st.covered).length ∧
        (remaining tids st.covered).length ≤ (uniqueSorted tids.flatten).length ∧ remaining tids st'.covered = []) :=
  ⟨fun covered c hc hx => remaining_lt tids covered c hc hx,
   fun log st st' h => ⟨coverGreedy_rounds h, length_remaining_le _ _, (coverGreedy_ok log st st' h).2.2⟩⟩

/-- **Combination filter.** The result consists of exactly the rows selected by `comboFilterSel`, untouched and in order;
    and row `i` is selected iff every non-control treatment id of the row occurs in some row without any control. -/
theorem C13_combo_filter (s t : Screen) (h : comboFilter s = .ok t) :
    rowsOf t = maskFilter (rowsOf s) (comboFilterSel s.tids) ∧ (comboFilterSel s.tids).length = s.tids.length ∧
    ∀ (i : Nat) (hi : i < s.tids.length),
      ((comboFilterSel s.tids)[i]'(by rw [length_comboFilterSel]; exact hi) = true ↔
        ∀ x ∈ s.tids[i], x ≠ -1 → ∃ row ∈ s.tids, (∀ y ∈ row, y ≠ -1) ∧ x ∈ row) :=
  ⟨comboFilter_rows h, length_comboFilterSel _, fun i hi => comboFilterSel_getElem s.tids i hi⟩

/-! ### size smoothers -/

/-- **Fixed size.** Every plate label keeps none of its experiments (the plate was smaller than the size) or exactly
    `k` of them -- so only plates of the one size `k` remain, and every plate that was large enough is retained. -/
theorem C13_fixed_size (c : Name) (a : Nat) (rows : List Row) (u nu : Screen) (k : Int) (choices : List (List Nat))
    (hu : build c a rows = .ok u) (h : fixedSize k choices u = .ok nu) (p : Name) :
    plateSize (rowsOf nu) p = if plateSize rows p < k.toNat then 0 else k.toNat :=
  fixedSize_shape hu h p

/-- **Optimal size.** There is one size `k`, the size of an existing plate, such that every plate label keeps none or exactly
    `k` of its experiments, and `k` retains at least as many experiments as **any** size `t` whatsoever
    (`retained sizes t = t · #{plates of size ≥ t}`), not only the existing sizes. -/
theorem C13_optimal_size (c : Name) (a : Nat) (rows : List Row) (u nu : Screen) (choices : List (List Nat))
    (hu : build c a rows = .ok u) (h : optimalSizeSmoother choices u = .ok nu) :
    ∃ k, k ∈ plateSizes rows ∧
      (∀ p : Name, plateSize (rowsOf nu) p = if plateSize rows p < k then 0 else k) ∧
      (∀ t : Nat, retained (plateSizes rows) t ≤ retained (plateSizes rows) k) :=
  optimal_shape hu h

/-- **Per-sample minimum.** Exactly the experiments of the samples with at least `minN` distinct plates are kept
    (untouched, in order); hence no sample is left with fewer plates than configured.  Also for the ensemble, which ends
    with this smoother. -/
theorem C13_min_plates_per_sample (c : Name) (a : Nat) (rows : List Row) (u nu : Screen) (minN : Int)
    (hu : build c a rows = .ok u) (h : nPlate minN u = .ok nu) :
    rowsOf nu = rows.filter (fun x => decide (minN ≤ ((distinctPlates rows x.sample).length : Int))) ∧
    ∀ x ∈ rowsOf nu, minN ≤ ((distinctPlates (rowsOf nu) x.sample).length : Int) :=
  ⟨nPlate_spec hu h, nPlate_min hu h⟩

/-- regression (DESIGN section 7 #11): the smoother as it was before the fix -- dropping one sample at a time through
    `to_screen()`, which renumbers the sample ids it is still iterating over -- on samples `s1`, `s2` (one plate each) and
    `s3` (two plates) with minimum 2 keeps `s2` with its single plate and loses `s3`: the post-condition fails ... -/
theorem C13_nplate_old_violates :
    sampleAndPlateCols (build [] 2 wRows >>= fun u => nPlateOld 2 u) = some ([[115, 50]], [[112, 50]]) :=
  nplate_old_violates

/-- ... while the current smoother keeps exactly `s3` with its two plates -/
theorem C13_nplate_new_keeps :
    sampleAndPlateCols (build [] 2 wRows >>= fun u => nPlate 2 u) = some ([[115, 51], [115, 51]], [[112, 51], [112, 52]]) :=
  nplate_new_keeps

theorem C13_min_plates_per_sample_ensemble (c : Name) (a : Nat) (rows : List Row) (u nu : Screen)
    (minSize nIter minN : Int) (pops : List Nat) (choices : List (List Nat))
    (hu : build c a rows = .ok u) (hm : ∀ x ∈ rows, x.mask = false)
    (h : ensemble minSize nIter minN pops choices u = .ok nu) :
    ∀ x ∈ rowsOf nu, minN ≤ ((distinctPlates (rowsOf nu) x.sample).length : Int) :=
  ensemble_min hu hm h

/-! ### merge smoothers -/

/-- **Merges stay within a sample.** For both merge smoothers the result is the input with plate labels renamed by a
    function `ρ` of the old label (plates are only ever united), and two rows share a plate afterwards only if they
    shared it before or belong to the same sample. -/
theorem C13_merge_same_sample (sm : Smoother) (hsm : (∃ k pops, sm = .mergeMin k pops) ∨ (∃ n, sm = .mergeTopBottom n))
    (c : Name) (a : Nat) (rows : List Row) (u nu : Screen) (hu : build c a rows = .ok u) (h : sm.run u = .ok nu) :
    ∃ ρ : Name → Name, rowsOf nu = renamePlates ρ rows ∧
      ∀ r1 ∈ rows, ∀ r2 ∈ rows, ρ r1.plate = ρ r2.plate → r1.plate = r2.plate ∨ r1.sample = r2.sample := by
  rcases hsm with ⟨k, pops, rfl⟩ | ⟨n, rfl⟩
  · exact (mergeMin_shape hu h).rename
  · exact (mergeTopBottom_shape hu h).rename

/-- **Min-merging stops exactly when it may.** For every log of popped plates satisfying the heap contract: afterwards
    any two distinct plates of one sample together exceed the limit (so the loop did not stop early: with at least two
    plates left, the two smallest exceed the limit), and every plate that was produced by merging respects the limit
    (it never merged when the two smallest together exceeded it). -/
theorem C13_mergemin_stops_exactly (c : Name) (a : Nat) (rows : List Row) (u nu : Screen) (k : Int) (pops : List Nat)
    (hu : build c a rows = .ok u) (h : mergeMin k pops u = .ok nu) :
    (∀ r1 ∈ rowsOf nu, ∀ r2 ∈ rowsOf nu, r1.sample = r2.sample → r1.plate ≠ r2.plate →
        k < (plateSize (rowsOf nu) r1.plate + plateSize (rowsOf nu) r2.plate : Int)) ∧
    (∀ ρ : Name → Name, rowsOf nu = renamePlates ρ rows → ∀ r1 ∈ rows, ∀ r2 ∈ rows, ρ r1.plate = ρ r2.plate →
        r1.plate ≠ r2.plate → (plateSize (rowsOf nu) (ρ r1.plate) : Int) ≤ k) :=
  mergeMin_stops_rows hu h

/-- **Top-bottom merging halves, rounding up.** For every sample of the screen the number of distinct plates after `n`
    iterations is `m ↦ m - ⌊m/2⌋ = ⌈m/2⌉` applied `n` times to the number before (the `⌊m/2⌋` pairs of an iteration are
    disjoint). -/
theorem C13_topbottom_halves (c : Name) (a : Nat) (rows : List Row) (u nu : Screen) (n : Int)
    (hu : build c a rows = .ok u) (h : mergeTopBottom n u = .ok nu) (σ : Name) (hσ : σ ∈ rows.map (·.sample)) :
    (distinctPlates (rowsOf nu) σ).length = halve^[n.toNat] (distinctPlates rows σ).length :=
  mergeTopBottom_halves_rows hu h σ hσ

/-! ### the hypotheses are satisfiable (concrete screens of `Lemmas/PrepExamples.lean`, evaluated by `decide`) -/

example : ∃ u nu, build [] 2 exU = .ok u ∧ genSegregating 2 [[0,3,2],[5,1,4]] u = .ok nu := ex_inner_segregating
example : ∃ u nu, build [] 2 exU = .ok u ∧ genPairwise 1 0 [] [[2,0,4,1,3]] [[genName 3]] u = .ok nu := ex_inner_pairwise
example : ∃ u nu, build [] 2 exU = .ok u ∧ fixedSize 2 [[1,4]] u = .ok nu := ex_inner_fixedSize
example : ∃ u nu, build [] 2 exU = .ok u ∧ optimalSizeSmoother [[4,5]] u = .ok nu := ex_inner_optimalSize
example : ∃ u nu, build [] 2 exU = .ok u ∧ nPlate 2 u = .ok nu := ex_inner_nPlate
example : ∃ u nu, build [] 2 exU = .ok u ∧ mergeMin 3 [3,0] u = .ok nu := ex_inner_mergeMin
example : ∃ u nu, build [] 2 exOne = .ok u ∧ mergeTopBottom 2 u = .ok nu := ex_inner_mergeTopBottom
example : ∃ s out, mk? (rawOfRows [] 2 exFull none none) = .ok s ∧ sparseCover true [0, 1, 3, 5] s = .ok out := ex_sparse_cover
example : ∃ s out, mk? exRaw = .ok s ∧ comboFilter s = .ok out := ex_combo_filter
example : ∃ s out, mk? exRaw = .ok s ∧ (Smoother.ensemble 3 1 1 [3,0] []).wrapped s = .ok out := ex_wrapped_ensemble

end Batchie.Props.C13
