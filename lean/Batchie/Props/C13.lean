/-
  C13 -- generated, smoothed and initial plates satisfy their documented shape guarantees.

  CLAUSE MAP (property text -> theorem).  Inner theorems are about `_generate_plates` / `_smooth_plates` on the screen the public
  wrapper builds from the unobserved rows; the `C13_wrapped_*` theorems state the same clause for the public entry point the driver
  executes (`Generator.wrapped` / `Smoother.wrapped`), on the unobserved rows of the result (`C13_wrapped_transfer` is the bridge).

   1. "the sample-segregating ... generators produce unobserved plates that each contain a single sample and, for the former, at most
       the configured number of experiments"   -> C13_segregating_single_sample_and_size, C13_wrapped_segregating
   2. "... and pairwise generators ... single sample"          -> C13_pairwise_single_sample, C13_wrapped_pairwise
   3. "the sparse-cover initial plate observes at least one experiment of every sample and of every treatment and leaves everything
       else in one unobserved plate"           -> C13_cover (+ C13_cover_terminates: the greedy loop makes progress)
   4. "the combination filter keeps exactly the experiments all of whose treatments occur in some full combination" -> C13_combo_filter
   5. "Fixed-size and optimal-size smoothing leave only unobserved plates of one common size, the optimal size being one that retains
       the most experiments"                   -> C13_fixed_size, C13_optimal_size, C13_wrapped_fixed_size, C13_wrapped_optimal_size
   6. "the per-sample minimum smoother leaves no sample with fewer unobserved plates than configured"
                                               -> C13_min_plates_per_sample, C13_min_plates_per_sample_ensemble, C13_wrapped_min_plates
   7. "Merge smoothers only merge plates of the same sample"   -> C13_merge_same_sample, C13_wrapped_merge_same_sample
   8. "min-merging stops exactly when the two smallest unobserved plates of a sample together exceed the configured size"
                                               -> C13_mergemin_stops_exactly, C13_wrapped_mergemin_stops
   9. "each top-bottom iteration halves, rounding up, the number of unobserved plates of every sample"
                                               -> C13_topbottom_halves (n iterations = halve^[n]; n = 1 is the single iteration),
                                                  C13_wrapped_topbottom_halves
   quantifier "whenever they return ... all parameter values and generator states" -> hypotheses `... = .ok nu` over every choice log
   end to end (CLI)                            -> Props/C11Pipeline.lean: Prepare_initial_plate_covers, Prepare_unobserved_plates_single_sample
                                                  (every smoother, the ensemble included)
   regression witnesses                        -> C13_segregating_old_violates / _new_separates, C13_nplate_old_violates / _new_keeps

   Regression (not a clause): S7-C13 -> positive: C13_combo_filter (membership by treatment ID = (name, dose) pair, C01's encoding);
                              C13_S7_filter_by_name_counterexample (dose-blind filter keeps A@10 although only A@1 occurs in a combination)
   Regression (not a clause): S6-C13 -> positive: C13_optimal_size (the chosen size maximises size x #{plates >= size} over ALL sizes);
                              C13_S6_optimal_distinct_counterexample (retained count taken from the position among the DISTINCT sizes:
                              sizes 2,2,2,3 -> chooses 3, which retains 3 experiments instead of 8)

   harness-only: numpy's generator laws (`permutation`, `choice`, `heappop` contracts checked on the recorded log; which of several
   equally frequent anchors `argsort` returns), numpy's fixed-width truncation of "unobserved_plate" in a `<U13` array (modelled as
   observed), container fidelity of `np.unique` / `array_split` / boolean masks, aliasing of `Plate.merge` with the caller's screen.
-/
import Batchie.Lemmas.PrepOps
import Batchie.Lemmas.PrepExamples
import Batchie.Lemmas.PrepRegress

namespace Batchie.Props.C13
open Batchie.Proto Batchie.Screen Batchie.Prep

/-- **The wrapper.** If the wrapped operation returns and something is unobserved, then the unobserved rows of the result are
    exactly the rows the inner operation returned for the screen built from the unobserved input rows, and the observed
    rows are those of the input. -/
theorem C13_wrapper_unobserved_part (op : Generator ⊕ Smoother) (s out : Screen)
    (h : (match op with | .inl g => g.wrapped s | .inr sm => sm.wrapped s) = .ok out) (hne : unobservedRows s ≠ []) :
    ∃ u nu, build s.ctrl s.arity (unobservedRows s) = .ok u ∧
      (match op with | .inl g => g.run u | .inr sm => sm.run u) = .ok nu ∧
      unobservedRows out = rowsOf nu ∧ observedRows out = observedRows s := by
  cases op with
  | inl g =>
    simp only at h ⊢
    rcases wrap_ok' h with ⟨he, _⟩ | ⟨u, nu, hu, hnu, hrows⟩
    · exact absurd he hne
    · obtain ⟨e1, e2⟩ := assemble_observed (generator_facts g hu unobserved_mask hnu).2 hrows
      exact ⟨u, nu, hu, hnu, e2, e1⟩
  | inr sm =>
    simp only at h ⊢
    rcases wrap_ok' h with ⟨he, _⟩ | ⟨u, nu, hu, hnu, hrows⟩
    · exact absurd he hne
    · obtain ⟨e1, e2⟩ := assemble_observed (smoother_facts sm hu unobserved_mask hnu).2 hrows
      exact ⟨u, nu, hu, hnu, e2, e1⟩

/-! ### generators -/

/-- **Sample-segregating generator.** Every generated plate holds a single sample and at most `maxSize` experiments
    (and a non-empty screen is only accepted with a positive limit). -/
theorem C13_segregating_single_sample_and_size (c : Name) (a : Nat) (rows : List Row) (u nu : Screen) (maxSize : Int)
    (perms : List (List Nat)) (hu : build c a rows = .ok u) (h : genSegregating maxSize perms u = .ok nu) :
    (∀ r1 ∈ rowsOf nu, ∀ r2 ∈ rowsOf nu, r1.plate = r2.plate → r1.sample = r2.sample) ∧
    (∀ p : Name, p ∈ (rowsOf nu).map (·.plate) → (plateSize (rowsOf nu) p : Int) ≤ maxSize) ∧
    (rows ≠ [] → 0 < maxSize) :=
  genSegregating_shape hu h

/-- regression: the generator as it was before the fix (plates only for samples **above** the limit) lumps the rows of two
    small samples into the plate `""`: samples of 2, 2 and 5 rows, limit 3 (DESIGN section 7 #3) -/
theorem C13_segregating_old_violates :
    segChunksOld [0,0,1,1,2,2,2,2,2] 3 [0,1,2] [[4,5,6,7,8]] = .ok [[4,5,6],[7,8]] ∧
      labelOf [[4,5,6],[7,8]] 0 = [] ∧ labelOf [[4,5,6],[7,8]] 2 = [] :=
  segregating_old_lumps_witness

/-- ... and the current generator separates them -/
theorem C13_segregating_new_separates :
    segChunks [0,0,1,1,2,2,2,2,2] 3 [0,1,2] [[0,1],[2,3],[4,5,6,7,8]] = .ok [[0,1],[2,3],[4,5,6],[7,8]] ∧
      labelOf [[0,1],[2,3],[4,5,6],[7,8]] 0 = genName 0 ∧ labelOf [[0,1],[2,3],[4,5,6],[7,8]] 2 = genName 1 ∧
      labelOf [[0,1],[2,3],[4,5,6],[7,8]] 0 ≠ labelOf [[0,1],[2,3],[4,5,6],[7,8]] 2 :=
  segregating_new_separates_witness

/-- **Pairwise generator.** Every generated plate holds a single sample. -/
theorem C13_pairwise_single_sample (sub anc : Int) (anchor : List Int) (perms : List (List Int)) (assign : List (List Name))
    (u nu : Screen) (h : genPairwise sub anc anchor perms assign u = .ok nu) :
    ∀ r1 ∈ rowsOf nu, ∀ r2 ∈ rowsOf nu, r1.plate = r2.plate → r1.sample = r2.sample :=
  genPairwise_single_sample h

/-! ### initial plate (sparse cover) and combination filter -/

/-- **Sparse cover.** For every constructed, fully observed screen and every choice log for which the generator returns:
    (1) every sample id has an observed experiment on the initial plate, (2) every treatment id of the id table (the
    control sentinel included) occurs in an observed experiment on the initial plate, (3) observed rows are on the plate
    `initial_plate` and all the others on one plate (`unobserved_pl`, numpy's truncation of `unobserved_plate`), and the
    two names differ. -/
theorem C13_cover (r : Raw) (reveal : Bool) (log : List Nat) (s out : Screen) (hs : mk? r = .ok s)
    (h : sparseCover reveal log s = .ok out) :
    (∀ i (hi : i < s.sids.length), ∃ (j : Nat) (h1 : j < (rowsOf out).length) (h2 : j < s.sids.length),
        (rowsOf out)[j].mask = true ∧ (rowsOf out)[j].plate = initialPlateName ∧ s.sids[j] = s.sids[i]) ∧
    (∀ t ∈ s.tids, ∀ x ∈ t, ∃ (j : Nat) (h1 : j < (rowsOf out).length) (h2 : j < s.tids.length),
        (rowsOf out)[j].mask = true ∧ (rowsOf out)[j].plate = initialPlateName ∧ x ∈ s.tids[j]) ∧
    (∀ x ∈ rowsOf out, (x.mask = true → x.plate = initialPlateName) ∧ (x.mask = false → x.plate = unobservedPlateName)) ∧
    initialPlateName ≠ unobservedPlateName := by
  have F := facts_of_mk hs
  exact ⟨fun i hi => sparseCover_samples h F.tids_len F.sids_len i hi,
    fun t ht x hx => sparseCover_treatments h F.tids_len t ht x hx, sparseCover_plates h, initial_ne_unobserved⟩

/-- **The greedy loop terminates because each round covers a new id**: choosing any row that holds a still uncovered id
    strictly shrinks the set of uncovered ids, and a successful greedy phase consumed at most as many choices as there
    were uncovered ids (at most the number of distinct ids). -/
theorem C13_cover_terminates (tids : List (List Int)) :
    (∀ (covered : List Int) (c : Nat) (hc : c < tids.length), (∃ x ∈ tids[c], x ∈ remaining tids covered) →
        (remaining tids (covered ++ tids[c]!)).length < (remaining tids covered).length) ∧
    (∀ (log : List Nat) (st st' : CoverSt), coverGreedy tids log st = .ok st' →
        st'.chosen.length - st.chosen.length ≤ (remaining tids st.covered).length ∧
        (remaining tids st.covered).length ≤ (uniqueSorted tids.flatten).length ∧ remaining tids st'.covered = []) :=
  ⟨fun covered c hc hx => remaining_lt tids covered c hc hx,
   fun log st st' h => ⟨coverGreedy_rounds h, length_remaining_le _ _, (coverGreedy_ok log st st' h).2.2⟩⟩

/-- **Combination filter.** The result consists of exactly the rows selected by `comboFilterSel`, untouched and in order;
    and row `i` is selected iff every non-control treatment id of the row occurs in some row without any control. -/
theorem C13_combo_filter (s t : Screen) (h : comboFilter s = .ok t) :
    rowsOf t = maskFilter (rowsOf s) (comboFilterSel s.tids) ∧ (comboFilterSel s.tids).length = s.tids.length ∧
    ∀ (i : Nat) (hi : i < s.tids.length),
      ((comboFilterSel s.tids)[i]'(by rw [length_comboFilterSel]; exact hi) = true ↔
        ∀ x ∈ s.tids[i], x ≠ -1 → ∃ row ∈ s.tids, (∀ y ∈ row, y ≠ -1) ∧ x ∈ row) :=
  ⟨comboFilter_rows h, length_comboFilterSel _, fun i hi => comboFilterSel_getElem s.tids i hi⟩

/-- Regression S7-C13 (combination filter by treatment NAME).  Witness: A@1 + B@1 is a full combination, A@10 occurs only alone.
    The faithful filter drops the A@10 row -- as `C13_combo_filter` demands: its treatment id 1 occurs in no row without control --
    while the dose-blind definition keeps it. -/
theorem C13_S7_filter_by_name_counterexample :
    ∃ s, mk? (rawOfRows [] 2 wDoseRows none none) = .ok s ∧ s.tids = [[0, 2], [1, -1]] ∧
      comboFilterSel s.tids = [true, false] ∧ comboFilterSelByName s.tnames s.tids = [true, true] ∧
      ¬ (∀ x ∈ ([1, -1] : List Int), x ≠ -1 → ∃ row ∈ s.tids, (∀ y ∈ row, y ≠ -1) ∧ x ∈ row) := by
  have w := filter_by_name_witness
  cases hm : mk? (rawOfRows [] 2 wDoseRows none none) with
  | error e => rw [hm] at w; simp [Except.toOption] at w
  | ok s =>
    rw [hm] at w
    simp only [Except.toOption, Option.map_some, Option.some.injEq, Prod.mk.injEq] at w
    obtain ⟨w1, w2, w3⟩ := w
    refine ⟨s, rfl, w3, w1, w2, ?_⟩
    rw [w3]
    decide

/-! ### size smoothers -/

/-- **Fixed size.** Every plate label keeps none of its experiments (the plate was smaller than the size) or exactly
    `k` of them -- so only plates of the one size `k` remain, and every plate that was large enough is retained. -/
theorem C13_fixed_size (c : Name) (a : Nat) (rows : List Row) (u nu : Screen) (k : Int) (choices : List (List Nat))
    (hu : build c a rows = .ok u) (h : fixedSize k choices u = .ok nu) (p : Name) :
    plateSize (rowsOf nu) p = if plateSize rows p < k.toNat then 0 else k.toNat :=
  fixedSize_shape hu h p

/-- **Optimal size.** There is one size `k`, the size of an existing plate, such that every plate label keeps none or exactly
    `k` of its experiments, and `k` retains at least as many experiments as **any** size `t` whatsoever
    (`retained sizes t = t · #{plates of size ≥ t}`), not only the existing sizes. -/
theorem C13_optimal_size (c : Name) (a : Nat) (rows : List Row) (u nu : Screen) (choices : List (List Nat))
    (hu : build c a rows = .ok u) (h : optimalSizeSmoother choices u = .ok nu) :
    ∃ k, k ∈ plateSizes rows ∧
      (∀ p : Name, plateSize (rowsOf nu) p = if plateSize rows p < k then 0 else k) ∧
      (∀ t : Nat, retained (plateSizes rows) t ≤ retained (plateSizes rows) k) :=
  optimal_shape hu h

/-- Regression S6-C13 (optimal size searched over the distinct sizes, retained-plate count = total − position among the DISTINCT
    sizes): on plate sizes 2,2,2,3 the seeded definition chooses 3, which retains 3 experiments, although size 2 retains 8 --
    contradicting the maximality clause of `C13_optimal_size` (`retained`, the same quantity). -/
theorem C13_S6_optimal_distinct_counterexample :
    optimalSizeDistinct [2, 2, 2, 3] = 3 ∧ retained [2, 2, 2, 3] 3 = 3 ∧ retained [2, 2, 2, 3] 2 = 8 ∧
    ¬ (∀ t : Nat, retained [2, 2, 2, 3] t ≤ retained [2, 2, 2, 3] (optimalSizeDistinct [2, 2, 2, 3])) := by
  have w := optimalSizeDistinct_witness
  have e : ∀ t, retained [2, 2, 2, 3] t = retainedBy [2, 2, 2, 3] t := fun _ => rfl
  refine ⟨w.1, by rw [e]; exact w.2.1, by rw [e]; exact w.2.2, fun h => ?_⟩
  have := h 2
  rw [w.1, e, e, w.2.1, w.2.2] at this
  omega

/-- **Per-sample minimum.** Exactly the experiments of the samples with at least `minN` distinct plates are kept
    (untouched, in order); hence no sample is left with fewer plates than configured.  Also for the ensemble, which ends
    with this smoother. -/
theorem C13_min_plates_per_sample (c : Name) (a : Nat) (rows : List Row) (u nu : Screen) (minN : Int)
    (hu : build c a rows = .ok u) (h : nPlate minN u = .ok nu) :
    rowsOf nu = rows.filter (fun x => decide (minN ≤ ((distinctPlates rows x.sample).length : Int))) ∧
    ∀ x ∈ rowsOf nu, minN ≤ ((distinctPlates (rowsOf nu) x.sample).length : Int) :=
  ⟨nPlate_spec hu h, nPlate_min hu h⟩

/-- regression (DESIGN section 7 #11): the smoother as it was before the fix -- dropping one sample at a time through
    `to_screen()`, which renumbers the sample ids it is still iterating over -- on samples `s1`, `s2` (one plate each) and
    `s3` (two plates) with minimum 2 keeps `s2` with its single plate and loses `s3`: the post-condition fails ... -/
theorem C13_nplate_old_violates :
    sampleAndPlateCols (build [] 2 wRows >>= fun u => nPlateOld 2 u) = some ([[115, 50]], [[112, 50]]) :=
  nplate_old_violates

/-- ... while the current smoother keeps exactly `s3` with its two plates -/
theorem C13_nplate_new_keeps :
    sampleAndPlateCols (build [] 2 wRows >>= fun u => nPlate 2 u) = some ([[115, 51], [115, 51]], [[112, 51], [112, 52]]) :=
  nplate_new_keeps

theorem C13_min_plates_per_sample_ensemble (c : Name) (a : Nat) (rows : List Row) (u nu : Screen)
    (minSize nIter minN : Int) (pops : List Nat) (choices : List (List Nat))
    (hu : build c a rows = .ok u) (hm : ∀ x ∈ rows, x.mask = false)
    (h : ensemble minSize nIter minN pops choices u = .ok nu) :
    ∀ x ∈ rowsOf nu, minN ≤ ((distinctPlates (rowsOf nu) x.sample).length : Int) :=
  ensemble_min hu hm h

/-! ### merge smoothers -/

/-- **Merges stay within a sample.** For both merge smoothers the result is the input with plate labels renamed by a
    function `ρ` of the old label (plates are only ever united), and two rows share a plate afterwards only if they
    shared it before or belong to the same sample. -/
theorem C13_merge_same_sample (sm : Smoother) (hsm : (∃ k pops, sm = .mergeMin k pops) ∨ (∃ n, sm = .mergeTopBottom n))
    (c : Name) (a : Nat) (rows : List Row) (u nu : Screen) (hu : build c a rows = .ok u) (h : sm.run u = .ok nu) :
    ∃ ρ : Name → Name, rowsOf nu = renamePlates ρ rows ∧
      ∀ r1 ∈ rows, ∀ r2 ∈ rows, ρ r1.plate = ρ r2.plate → r1.plate = r2.plate ∨ r1.sample = r2.sample := by
  rcases hsm with ⟨k, pops, rfl⟩ | ⟨n, rfl⟩
  · exact (mergeMin_shape hu h).rename
  · exact (mergeTopBottom_shape hu h).rename

/-- **Min-merging stops exactly when it may.** For every log of popped plates satisfying the heap contract: afterwards
    any two distinct plates of one sample together exceed the limit (so the loop did not stop early: with at least two
    plates left, the two smallest exceed the limit), and every plate that was produced by merging respects the limit
    (it never merged when the two smallest together exceeded it). -/
theorem C13_mergemin_stops_exactly (c : Name) (a : Nat) (rows : List Row) (u nu : Screen) (k : Int) (pops : List Nat)
    (hu : build c a rows = .ok u) (h : mergeMin k pops u = .ok nu) :
    (∀ r1 ∈ rowsOf nu, ∀ r2 ∈ rowsOf nu, r1.sample = r2.sample → r1.plate ≠ r2.plate →
        k < (plateSize (rowsOf nu) r1.plate + plateSize (rowsOf nu) r2.plate : Int)) ∧
    (∀ ρ : Name → Name, rowsOf nu = renamePlates ρ rows → ∀ r1 ∈ rows, ∀ r2 ∈ rows, ρ r1.plate = ρ r2.plate →
        r1.plate ≠ r2.plate → (plateSize (rowsOf nu) (ρ r1.plate) : Int) ≤ k) :=
  mergeMin_stops_rows hu h

/-- **Top-bottom merging halves, rounding up.** For every sample of the screen the number of distinct plates after `n`
    iterations is `m ↦ m - ⌊m/2⌋ = ⌈m/2⌉` applied `n` times to the number before (the `⌊m/2⌋` pairs of an iteration are
    disjoint). -/
theorem C13_topbottom_halves (c : Name) (a : Nat) (rows : List Row) (u nu : Screen) (n : Int)
    (hu : build c a rows = .ok u) (h : mergeTopBottom n u = .ok nu) (σ : Name) (hσ : σ ∈ rows.map (·.sample)) :
    (distinctPlates (rowsOf nu) σ).length = halve^[n.toNat] (distinctPlates rows σ).length :=
  mergeTopBottom_halves_rows hu h σ hσ

/-! ### the same clauses for the public entry points `generate_plates` / `smooth_plates` -/

/-- **Transfer.** Any statement `P rows result` proved for the inner operation on the screen built from the unobserved rows holds
    for the public wrapper between the unobserved rows of its input and of its result (`P [] []` covers "nothing is unobserved":
    the wrapper then returns the input). -/
theorem C13_wrapped_transfer (op : Generator ⊕ Smoother) (s out : Screen)
    (h : (match op with | .inl g => g.wrapped s | .inr sm => sm.wrapped s) = .ok out)
    (P : List Row → List Row → Prop) (h0 : unobservedRows s = [] → P [] [])
    (hP : ∀ u nu, build s.ctrl s.arity (unobservedRows s) = .ok u →
      (match op with | .inl g => g.run u | .inr sm => sm.run u) = .ok nu → P (unobservedRows s) (rowsOf nu)) :
    P (unobservedRows s) (unobservedRows out) := by
  by_cases hne : unobservedRows s = []
  · have hout : unobservedRows out = [] := by
      cases op with
      | inl g => rcases wrap_ok' h with ⟨_, rfl⟩ | ⟨u, nu, hu, hnu, hrows⟩
                 · exact hne
                 · have B := build_ok hu
                   have := (generator_facts g hu unobserved_mask hnu).1.length_eq
                   rw [hne] at this
                   have hnil : rowsOf nu = [] := by simpa using this
                   rw [(assemble_observed (generator_facts g hu unobserved_mask hnu).2 hrows).2, hnil]
      | inr sm => rcases wrap_ok' h with ⟨_, rfl⟩ | ⟨u, nu, hu, hnu, hrows⟩
                  · exact hne
                  · have := (smoother_facts sm hu unobserved_mask hnu).1.length_le
                    rw [hne] at this
                    have hnil : rowsOf nu = [] := by simpa using this
                    rw [(assemble_observed (smoother_facts sm hu unobserved_mask hnu).2 hrows).2, hnil]
    rw [hne, hout]; exact h0 hne
  · obtain ⟨u, nu, hu, hnu, e, _⟩ := C13_wrapper_unobserved_part op s out h hne
    rw [e]; exact hP u nu hu hnu

theorem C13_wrapped_segregating (mx : Int) (perms : List (List Nat)) (s out : Screen)
    (h : (Generator.segregating mx perms).wrapped s = .ok out) :
    (∀ r1 ∈ unobservedRows out, ∀ r2 ∈ unobservedRows out, r1.plate = r2.plate → r1.sample = r2.sample) ∧
    (∀ p : Name, p ∈ (unobservedRows out).map (·.plate) → (plateSize (unobservedRows out) p : Int) ≤ mx) :=
  C13_wrapped_transfer (.inl (.segregating mx perms)) s out h
    (fun _ res => (∀ r1 ∈ res, ∀ r2 ∈ res, r1.plate = r2.plate → r1.sample = r2.sample) ∧
      (∀ p : Name, p ∈ res.map (·.plate) → (plateSize res p : Int) ≤ mx))
    (fun _ => ⟨fun _ h1 => (by cases h1), fun _ hp => (by cases hp)⟩)
    (fun u nu hu hnu => let t := genSegregating_shape hu hnu; ⟨t.1, t.2.1⟩)

theorem C13_wrapped_pairwise (sub anc : Int) (anchor : List Int) (perms : List (List Int)) (assign : List (List Name)) (s out : Screen)
    (h : (Generator.pairwise sub anc anchor perms assign).wrapped s = .ok out) :
    ∀ r1 ∈ unobservedRows out, ∀ r2 ∈ unobservedRows out, r1.plate = r2.plate → r1.sample = r2.sample :=
  C13_wrapped_transfer (.inl (.pairwise sub anc anchor perms assign)) s out h
    (fun _ res => ∀ r1 ∈ res, ∀ r2 ∈ res, r1.plate = r2.plate → r1.sample = r2.sample)
    (fun _ _ h1 => (by cases h1)) (fun _ _ _ hnu => genPairwise_single_sample hnu)

theorem C13_wrapped_fixed_size (k : Int) (choices : List (List Nat)) (s out : Screen)
    (h : (Smoother.fixedSize k choices).wrapped s = .ok out) (p : Name) :
    plateSize (unobservedRows out) p = if plateSize (unobservedRows s) p < k.toNat then 0 else k.toNat :=
  C13_wrapped_transfer (.inr (.fixedSize k choices)) s out h
    (fun rows res => plateSize res p = if plateSize rows p < k.toNat then 0 else k.toNat)
    (fun _ => by
      simp only [plateSize, List.filter_nil, List.length_nil]
      by_cases hk : 0 < k.toNat
      · simp [hk]
      · simp only [hk, if_false]; omega)
    (fun _ _ hu hnu => fixedSize_shape hu hnu p)

theorem C13_wrapped_optimal_size (choices : List (List Nat)) (s out : Screen)
    (h : (Smoother.optimalSize choices).wrapped s = .ok out) (hne : unobservedRows s ≠ []) :
    ∃ k, k ∈ plateSizes (unobservedRows s) ∧
      (∀ p : Name, plateSize (unobservedRows out) p = if plateSize (unobservedRows s) p < k then 0 else k) ∧
      (∀ t : Nat, retained (plateSizes (unobservedRows s)) t ≤ retained (plateSizes (unobservedRows s)) k) :=
  C13_wrapped_transfer (.inr (.optimalSize choices)) s out h
    (fun rows res => ∃ k, k ∈ plateSizes rows ∧ (∀ p : Name, plateSize res p = if plateSize rows p < k then 0 else k) ∧
      (∀ t : Nat, retained (plateSizes rows) t ≤ retained (plateSizes rows) k))
    (fun he => absurd he hne) (fun _ _ hu hnu => optimal_shape hu hnu)

/-- per-sample minimum (also when it is the last stage of the ensemble) -/
theorem C13_wrapped_min_plates (sm : Smoother) (minN : Int)
    (hsm : sm = .nPlate minN ∨ ∃ a b pops ch, sm = .ensemble a b minN pops ch) (s out : Screen) (h : sm.wrapped s = .ok out) :
    ∀ x ∈ unobservedRows out, minN ≤ ((distinctPlates (unobservedRows out) x.sample).length : Int) :=
  C13_wrapped_transfer (.inr sm) s out h
    (fun _ res => ∀ x ∈ res, minN ≤ ((distinctPlates res x.sample).length : Int))
    (fun _ _ hx => (by cases hx))
    (fun u nu hu hnu => by
      rcases hsm with rfl | ⟨a, b, pops, ch, rfl⟩
      · exact nPlate_min hu hnu
      · exact ensemble_min hu unobserved_mask hnu)

theorem C13_wrapped_merge_same_sample (sm : Smoother) (hsm : (∃ k pops, sm = .mergeMin k pops) ∨ (∃ n, sm = .mergeTopBottom n))
    (s out : Screen) (h : sm.wrapped s = .ok out) :
    ∃ ρ : Name → Name, unobservedRows out = renamePlates ρ (unobservedRows s) ∧
      ∀ r1 ∈ unobservedRows s, ∀ r2 ∈ unobservedRows s, ρ r1.plate = ρ r2.plate → r1.plate = r2.plate ∨ r1.sample = r2.sample :=
  C13_wrapped_transfer (.inr sm) s out h
    (fun rows res => ∃ ρ : Name → Name, res = renamePlates ρ rows ∧
      ∀ r1 ∈ rows, ∀ r2 ∈ rows, ρ r1.plate = ρ r2.plate → r1.plate = r2.plate ∨ r1.sample = r2.sample)
    (fun _ => ⟨id, rfl, fun _ h1 => (by cases h1)⟩)
    (fun u nu hu hnu => C13_merge_same_sample sm hsm _ _ _ u nu hu hnu)

theorem C13_wrapped_mergemin_stops (k : Int) (pops : List Nat) (s out : Screen) (h : (Smoother.mergeMin k pops).wrapped s = .ok out) :
    ∀ r1 ∈ unobservedRows out, ∀ r2 ∈ unobservedRows out, r1.sample = r2.sample → r1.plate ≠ r2.plate →
      k < (plateSize (unobservedRows out) r1.plate + plateSize (unobservedRows out) r2.plate : Int) :=
  C13_wrapped_transfer (.inr (.mergeMin k pops)) s out h
    (fun _ res => ∀ r1 ∈ res, ∀ r2 ∈ res, r1.sample = r2.sample → r1.plate ≠ r2.plate →
      k < (plateSize res r1.plate + plateSize res r2.plate : Int))
    (fun _ _ h1 => (by cases h1)) (fun u nu hu hnu => (mergeMin_stops_rows hu hnu).1)

theorem C13_wrapped_topbottom_halves (n : Int) (s out : Screen) (h : (Smoother.mergeTopBottom n).wrapped s = .ok out)
    (σ : Name) (hσ : σ ∈ (unobservedRows s).map (·.sample)) :
    (distinctPlates (unobservedRows out) σ).length = halve^[n.toNat] (distinctPlates (unobservedRows s) σ).length :=
  C13_wrapped_transfer (.inr (.mergeTopBottom n)) s out h
    (fun rows res => σ ∈ rows.map (·.sample) → (distinctPlates res σ).length = halve^[n.toNat] (distinctPlates rows σ).length)
    (fun _ hx => (by cases hx)) (fun u nu hu hnu hx => mergeTopBottom_halves_rows hu hnu σ hx) hσ

/-! ### the hypotheses are satisfiable (concrete screens of `Lemmas/PrepExamples.lean`, evaluated by `decide`) -/

-- hypotheses of the `C13_wrapped_*` theorems
example : ∃ s out, mk? exRaw = .ok s ∧ (Generator.segregating 2 [[0,3,2],[5,1,4]]).wrapped s = .ok out := ex_wrapped_segregating
example : ∃ s out, mk? exRaw = .ok s ∧ (Generator.pairwise 1 0 [] [[2,0,4,1,3]] [[genName 3]]).wrapped s = .ok out := ex_wrapped_pairwise
example : ∃ s out, mk? exRaw = .ok s ∧ (Smoother.fixedSize 2 [[1,4]]).wrapped s = .ok out := ex_wrapped_fixedSize
example : ∃ s out, mk? exRaw = .ok s ∧ (Smoother.optimalSize [[4,5]]).wrapped s = .ok out := ex_wrapped_optimalSize
example : ∃ s out, mk? exRaw = .ok s ∧ (Smoother.nPlate 2).wrapped s = .ok out := ex_wrapped_nPlate
example : ∃ s out, mk? exRaw = .ok s ∧ (Smoother.mergeMin 3 [3,0]).wrapped s = .ok out := ex_wrapped_mergeMin
example : ∃ s out, mk? (rawOfRows [] 2 exOne none none) = .ok s ∧ (Smoother.mergeTopBottom 2).wrapped s = .ok out := ex_wrapped_mergeTopBottom
example : ∃ u nu, build [] 2 exU = .ok u ∧ genSegregating 2 [[0,3,2],[5,1,4]] u = .ok nu := ex_inner_segregating
example : ∃ u nu, build [] 2 exU = .ok u ∧ genPairwise 1 0 [] [[2,0,4,1,3]] [[genName 3]] u = .ok nu := ex_inner_pairwise
example : ∃ u nu, build [] 2 exU = .ok u ∧ fixedSize 2 [[1,4]] u = .ok nu := ex_inner_fixedSize
example : ∃ u nu, build [] 2 exU = .ok u ∧ optimalSizeSmoother [[4,5]] u = .ok nu := ex_inner_optimalSize
example : ∃ u nu, build [] 2 exU = .ok u ∧ nPlate 2 u = .ok nu := ex_inner_nPlate
example : ∃ u nu, build [] 2 exU = .ok u ∧ mergeMin 3 [3,0] u = .ok nu := ex_inner_mergeMin
example : ∃ u nu, build [] 2 exOne = .ok u ∧ mergeTopBottom 2 u = .ok nu := ex_inner_mergeTopBottom
example : ∃ s out, mk? (rawOfRows [] 2 exFull none none) = .ok s ∧ sparseCover true [0, 1, 3, 5] s = .ok out := ex_sparse_cover
example : ∃ s out, mk? exRaw = .ok s ∧ comboFilter s = .ok out := ex_combo_filter
example : ∃ s out, mk? exRaw = .ok s ∧ (Smoother.ensemble 3 1 1 [3,0] []).wrapped s = .ok out := ex_wrapped_ensemble

end Batchie.Props.C13
