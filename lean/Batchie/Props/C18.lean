/-
  C18 -- randomised steps are deterministic in their inputs and the given generator/seed.

  Property theorems about the draw-source model `Batchie.Model.Rand` (three entropy streams:
  `supplied` = the given generator G, `global` = process-global numpy/torch state Γ,
  `fresh` = unseeded `default_rng()` Ω).

  Honest label: Lean decides the DATAFLOW MODEL -- a program all of whose draws are tagged G
  computes an output that is a function of its inputs and of G alone and returns Γ and Ω
  untouched; every modelled operation of batchie that is claimed is such a program.  That the
  model's tags are the code's is decided on every run by harness/c18.py, which instruments all
  three sources of the real code at once and compares the (source, kind) event sequences.

  Full-strength statement "for EVERY modelled operation" is false on the current tree (see
  `C18_vi_model_interferes`: the pyro/torch VI model never reads the generator it is given --
  known finding `C18:vi-model-ignores-rng`); library calls made WITHOUT a generator
  (`rng=None` fallbacks) are outside the property ("the given generator").  Those operations are
  tagged as the code behaves and excluded BY NAME (`Op.excluded`) from
  `C18_noninterference_partial`; `C18_excluded_exactly` shows the exclusion list is exactly the
  set of operations with a non-G draw.
-/
import Batchie.Lemmas.Rand

namespace Batchie.Props.C18
open Batchie.Rand

/-! ### the semantic theorem -/

/-- Non-interference: a program whose draws all come from the supplied generator, run with the
same inputs (closed over in `p`) and the same supplied stream `g` under ANY two states of the
process-global generator and of the OS entropy, produces the same output -- for every way `out`
of computing the output from the values drawn -- makes the same draws, leaves the supplied
generator in the same state, and returns the global state and the entropy source unchanged. -/
theorem C18_noninterference {α β : Type} (p : Prog α) (h : OnlyG p) (out : α → β)
    (g γ γ' ω ω' : Stream) :
    out (run p ⟨g, γ, ω⟩).out = out (run p ⟨g, γ', ω'⟩).out ∧
    (run p ⟨g, γ, ω⟩).trace = (run p ⟨g, γ', ω'⟩).trace ∧
    (run p ⟨g, γ, ω⟩).world.g = (run p ⟨g, γ', ω'⟩).world.g ∧
    (run p ⟨g, γ, ω⟩).world.γ = γ ∧ (run p ⟨g, γ, ω⟩).world.ω = ω := by
  have := run_onlyG h g γ γ' ω ω'
  exact ⟨by rw [this.1], this.2.1, this.2.2.1, this.2.2.2.1, this.2.2.2.2⟩

/-! ### per-operation theorems: every draw is tagged G (for all shapes of the input) -/

theorem C18_sparseCover (a : Args) : OnlyG (prog .sparseCover a) :=
  (onlyG_fromEvents _ (allG_rep _ _)).bind (fun vs => onlyG_drawWhile _ _ _ vs)

theorem C18_generatePlates (a : Args) : OnlyG (prog .generatePlates a) :=
  onlyG_fromEvents _ (allG_wrapped _ _ (allG_genEvents _ _ _ _))

theorem C18_smoothPlates (a : Args) : OnlyG (prog .smoothPlates a) :=
  onlyG_fromEvents _ (allG_wrapped _ _ (allG_smootherEvents _ _))

theorem C18_randomHoldout (a : Args) : OnlyG (prog .randomHoldout a) :=
  onlyG_fromEvents _ (by simp [randomHoldoutEvents, ev])

theorem C18_plateBalancedHoldout (a : Args) : OnlyG (prog .plateBalancedHoldout a) :=
  onlyG_fromEvents _ (allG_rep _ _)

/-- RandomScorer, DBAL triple sub-sampling, SizeScorer -/
theorem C18_scorer (a : Args) : OnlyG (prog .scorer a) :=
  onlyG_fromEvents _ (allG_scorerEvents _ _)

theorem C18_kPerSamplePolicy (a : Args) : OnlyG (prog .kPerSamplePolicy a) := OnlyG.ret []

theorem C18_selectNextPlate (a : Args) : OnlyG (prog .selectNextPlate a) :=
  onlyG_fromEvents _ rfl

theorem C18_scoreChunk (a : Args) : OnlyG (prog .scoreChunk a) :=
  onlyG_fromEvents _ (by simpa [scoreChunkEvents] using allG_scorerEvents _ _)

theorem C18_sampleMvn (a : Args) : OnlyG (prog .sampleMvn a) := onlyG_fromEvents _ allG_mvn

/-- one Gibbs sweep of either sampler after `set_rng` -/
theorem C18_gibbsSweep (a : Args) : OnlyG (prog .gibbsSweep a) :=
  onlyG_fromEvents _ (allG_sweep _ _)

/-- `sampling.sample` with an MCMC model -/
theorem C18_sampleMCMC (a : Args) : OnlyG (prog .sampleMCMC a) :=
  onlyG_fromEvents _ (allG_sampleMCMC _ _ _)

theorem C18_cliPrepareRetrospective (a : Args) : OnlyG (prog .cliPrepareRetrospective a) := by
  apply onlyG_seqAll
  intro p hp
  simp only [List.mem_cons, List.not_mem_nil, or_false] at hp
  rcases hp with rfl | rfl | rfl | rfl | rfl
  · cases a.initCover
    · exact OnlyG.ret []
    · exact C18_sparseCover a
  · exact onlyG_fromEvents _ (allG_wrapped _ _ (allG_genEvents _ _ _ _))
  · exact onlyG_fromEvents _ (by cases a.initCover <;> simp [ev])
  · exact onlyG_fromEvents _ (allG_wrapped _ _ (allG_smootherEvents _ _))
  · exact onlyG_fromEvents _ (allG_rep _ _)

theorem C18_cliCalculateScores (a : Args) : OnlyG (prog .cliCalculateScores a) := C18_scoreChunk a
theorem C18_cliSelectNextPlate (a : Args) : OnlyG (prog .cliSelectNextPlate a) := C18_selectNextPlate a
theorem C18_cliTrainModel (a : Args) : OnlyG (prog .cliTrainModel a) := C18_sampleMCMC a
/-- `evaluate_model --seed`: no draw from any source -/
theorem C18_cliEvaluateModel (a : Args) : OnlyG (prog .cliEvaluateModel a) ∧ trace .cliEvaluateModel a = [] :=
  ⟨OnlyG.ret [], rfl⟩

/-! ### assembly -/

/-- every operation that is not excluded by name draws from G only, whatever its arguments -/
theorem C18_claimed_onlyG (op : Op) (hop : op.excluded = false) (a : Args) : OnlyG (prog op a) := by
  cases op <;> first
    | (simp [Op.excluded] at hop; done)
    | exact C18_sparseCover a | exact C18_generatePlates a | exact C18_smoothPlates a
    | exact C18_randomHoldout a | exact C18_plateBalancedHoldout a | exact C18_scorer a
    | exact C18_kPerSamplePolicy a | exact C18_selectNextPlate a | exact C18_scoreChunk a
    | exact C18_sampleMvn a | exact C18_gibbsSweep a | exact C18_sampleMCMC a
    | exact C18_cliPrepareRetrospective a | exact C18_cliCalculateScores a
    | exact C18_cliSelectNextPlate a | exact C18_cliTrainModel a | exact (C18_cliEvaluateModel a).1

/-- Non-interference for every modelled operation except those excluded by name: for all
arguments `a` (input shapes, options, the value-dependent loop decision of the greedy cover), all
ways `out` of computing the output from the inputs and the values drawn, every supplied stream
`g` and all `Γ, Γ', Ω, Ω'`: same output, same draws, `Γ` and `Ω` returned unchanged. -/
theorem C18_noninterference_partial {β : Type} (op : Op) (hop : op.excluded = false) (a : Args)
    (out : List Nat → β) (g γ γ' ω ω' : Stream) :
    out (run (prog op a) ⟨g, γ, ω⟩).out = out (run (prog op a) ⟨g, γ', ω'⟩).out ∧
    (run (prog op a) ⟨g, γ, ω⟩).trace = (run (prog op a) ⟨g, γ', ω'⟩).trace ∧
    (run (prog op a) ⟨g, γ, ω⟩).world.γ = γ ∧ (run (prog op a) ⟨g, γ, ω⟩).world.ω = ω ∧
    (∀ e ∈ (run (prog op a) ⟨g, γ, ω⟩).trace, e.src = .supplied) := by
  have h := C18_claimed_onlyG op hop a
  have := C18_noninterference (prog op a) h out g γ γ' ω ω'
  exact ⟨this.1, this.2.1, this.2.2.2.1, this.2.2.2.2, trace_onlyG h _⟩

/-- the exclusion list is exact: an operation is excluded iff (for the default arguments with at
least one unit of work) its trace contains a draw that is not from G -/
theorem C18_excluded_exactly (op : Op) :
    op.excluded = true ↔
      ∃ e ∈ trace op { n := 1, cfg := { clines := [true], dds := [true] }, steps := 1 },
        e.src ≠ .supplied := by
  cases op <;> decide

/-! ### the command-line steps -/

/-- Each command-line step's generator is a function of `--seed` (for train_model: of
`(seed, n_chains, chain_index)`, which `genOfSeed` abstracts) and it is the one passed down (the
CLI programs ARE the library operations run with the generator given -- `rfl`): the result of a
claimed CLI step is the same for equal seeds whatever the global state and the OS entropy, and
both are returned unchanged. -/
theorem C18_cli_seed (genOfSeed : Nat → Stream) (seed : Nat) (a : Args) (γ γ' ω ω' : Stream)
    (op : Op) (hop : op = .cliPrepareRetrospective ∨ op = .cliCalculateScores ∨
      op = .cliSelectNextPlate ∨ op = .cliTrainModel ∨ op = .cliEvaluateModel) :
    (runCli genOfSeed seed op a γ ω).out = (runCli genOfSeed seed op a γ' ω').out ∧
    (runCli genOfSeed seed op a γ ω).world.γ = γ ∧
    (∀ e ∈ (runCli genOfSeed seed op a γ ω).trace, e.src = .supplied) ∧
    prog .cliCalculateScores a = prog .scoreChunk a ∧
    prog .cliSelectNextPlate a = prog .selectNextPlate a ∧
    prog .cliTrainModel a = prog .sampleMCMC a := by
  have hex : op.excluded = false := by rcases hop with rfl | rfl | rfl | rfl | rfl <;> rfl
  have := C18_noninterference_partial op hex a id (genOfSeed seed) γ γ' ω ω'
  exact ⟨this.1, this.2.2.1, this.2.2.2.2, rfl, rfl, rfl⟩

/-! ### what is excluded really interferes (the full-strength statement is false) -/

/-- The VI model's sampling reads the process-global state: two runs with the same inputs and the
same supplied generator but different global states give different outputs, and the global state
is perturbed.  (Known finding `C18:vi-model-ignores-rng`.) -/
theorem C18_vi_model_interferes :
    ∃ (a : Args) (g γ γ' ω : Stream),
      (run (prog .sampleVI a) ⟨g, γ, ω⟩).out ≠ (run (prog .sampleVI a) ⟨g, γ', ω⟩).out ∧
      (run (prog .sampleVI a) ⟨g, γ, ω⟩).world.γ 0 ≠ γ 0 := by
  refine ⟨{}, fun _ => 0, fun i => i, fun i => i + 7, fun _ => 0, ?_, ?_⟩ <;> decide

/-- a library call made without a generator draws from fresh entropy: its output depends on Ω
(outside the property; shown so that the tags of the fallbacks are not vacuous) -/
theorem C18_no_rng_fallback_depends_on_entropy :
    ∃ (a : Args) (g γ ω ω' : Stream),
      (run (prog .sampleMvnNoRng a) ⟨g, γ, ω⟩).out ≠ (run (prog .sampleMvnNoRng a) ⟨g, γ, ω'⟩).out := by
  refine ⟨{}, fun _ => 0, fun _ => 0, fun i => i, fun i => i + 1, ?_⟩; decide

/-! ### `sampling.sample` installs this call's generator unconditionally -/

/-- Whatever generator the model object held before (constructor argument, earlier `set_rng`,
an earlier call of `sample`), every draw of every call of `sampling.sample` comes from the
generator created by THAT call: training is a function of the seed given to `sample`, not of a
generator the model happened to hold, and calling `sample` again on the same object is the same as
calling it on a fresh one. -/
theorem C18_sample_installs_generator (held : Option GenId) (gens : List GenId) :
    sampleCalls held gens = gens.map some ∧ sampleCalls held gens = sampleCalls none gens := by
  have h : ∀ (held : Option GenId), sampleCalls held gens = gens.map some := by
    induction gens with
    | nil => intro _; rfl
    | cons g gs ih => intro held; simp [sampleCalls, sampleCall, installRng, stepGen, ih]
  exact ⟨h held, by rw [h held, h none]⟩

/-- the conditional variant (`if model.rng is None: model.set_rng(rng)`) does NOT have the
property: a model that holds generator 7 keeps drawing from it, and a second call draws from the
first call's generator -/
theorem C18_conditional_install_interferes :
    sampleCallsIfNone (some 7) [1] = [some 7] ∧ sampleCallsIfNone none [1, 2] = [some 1, some 1] := by
  decide

/-! ### non-vacuity -/

/-- the claimed operations do draw: e.g. the greedy cover with 2 samples and one completion
round makes three G-tagged `choice` draws, and a sweep of the combo sampler on 1 sample with data
and 2 treatments (one without data) makes 24 G-tagged draws -/
example : trace .sparseCover { n := 2, k := 5, more := fun vs => vs.length < 3 }
    = [ev .supplied .choice, ev .supplied .choice, ev .supplied .choice] := by decide

example : (trace .gibbsSweep { cfg := { clines := [true], dds := [true, false], dims := 2 } }).length = 24 ∧
    ∀ e ∈ trace .gibbsSweep { cfg := { clines := [true], dds := [true, false], dims := 2 } },
      e.src = .supplied := by decide

end Batchie.Props.C18
