/-
  C18 -- randomised steps are deterministic in their inputs and the given generator/seed.

  Property theorems about the draw-source model `Batchie.Model.Rand` (three entropy streams:
  `supplied` = the given generator G, `global` = process-global numpy/torch state Γ,
  `fresh` = unseeded `default_rng()` Ω).

  Honest label: Lean decides the DATAFLOW MODEL -- a program all of whose draws are tagged G
  computes an output that is a function of its inputs and of G alone and returns Γ and Ω
  untouched; every modelled operation of batchie that is claimed is such a program.  That the
  model's tags are the code's is decided on every run by harness/c18.py, which instruments all
  three sources of the real code at once and compares the (source, kind) event sequences.

  Full-strength statement "for EVERY modelled operation" is false on the current tree (see
  `C18_vi_model_interferes`: the pyro/torch VI model never reads the generator it is given --
  known finding `C18:vi-model-ignores-rng`); library calls made WITHOUT a generator
  (`rng=None` fallbacks) are outside the property ("the given generator").  Those operations are
  tagged as the code behaves and excluded BY NAME (`Op.excluded`) from
  `C18_noninterference_partial`; `C18_excluded_exactly` shows the exclusion list is exactly the
  set of operations with a non-G draw.
-/
import Batchie.Lemmas.Rand

/-!
## CLAUSE MAP (property text of C18 → theorems)

| clause of the statement | stated by |
|---|---|
| "every randomised operation … produces identical output when repeated with identical inputs and an identically seeded generator" (semantic core) | `C18_noninterference` (any G-only program, any way `out` of computing the output from the values drawn); per operation `C18_noninterference_partial` |
| … plate generators | `C18_generatePlates` (pairwise / plate-permutation / sample-segregating, wrapped) |
| … smoothers | `C18_smoothPlates` (all six, incl. the ensemble) |
| … the initial cover | `C18_sparseCover` (value-dependent number of draws) |
| … the hold-out split | `C18_randomHoldout`, `C18_plateBalancedHoldout` |
| … the random scorer, DBAL triple sub-sampling | `C18_scorer` (`ScorerKind.random / .dbal / .size`), through `score_chunk`: `C18_scoreChunk` |
| … policy filtering | `C18_kPerSamplePolicy`, `C18_selectNextPlate` |
| … model training | `C18_sampleMvn`, `C18_gibbsSweep` (prior and posterior branches, all sampler options), `C18_sampleMCMC`, `C18_sample_installs_generator` (the generator is the one of THIS call; negative: `C18_conditional_install_interferes`) |
| … each command-line step given --seed | `C18_cliPrepareRetrospective`, `C18_cliCalculateScores`, `C18_cliSelectNextPlate`, `C18_cliTrainModel`, `C18_cliEvaluateModel`, `C18_cli_seed` |
| "for EVERY operation" assembled | `C18_claimed_onlyG`, `C18_noninterference_partial`; exclusions exact: `C18_excluded_exactly`; the excluded ones really interfere: `C18_vi_model_interferes` (known finding), `C18_no_rng_fallback_depends_on_entropy` (outside "the given generator") |
| "neither depends on … the process-global random state" | `C18_noninterference` (∀ Γ Γ' Ω Ω': equal outputs, equal traces, equal final G) |
| "… nor perturbs the process-global random state" | `C18_noninterference` (`world.γ = γ`, `world.ω = ω`), `C18_noninterference_partial` (every event tagged G) |
| quantifier "any prior state of the global generator, any interleaving of unrelated global draws between two runs" | the ∀ Γ Γ' Ω Ω' of the above; for whole HISTORIES of calls in one process (other operations, other seeds, excluded operations in between): `C18_history_independent`; the trace as a function of the arguments: `C18_trace_function_of_arguments` |
| "all inputs and seeds" | ∀ `a : Args` (every input shape the trace depends on), ∀ `g` (the stream of ANY seed), ∀ `out` (uninterpreted function of inputs and drawn values) |

| "each command-line step given --seed", all six commands at once, every seed incl. 0 | `C18_seeded_commands` (`Op.isSeededCommand`), `C18_cliAnalyzeModelEvaluation`, `C18_cli_generator_function_of_seed` |
| iteration order of the items that receive draws is a function of the SET of items | `C18_sorted_iteration_order_independent` |

Regression (not a clause) -- definitions that are NOT the code, each refuted on a witness:
* fix 1fd9f14 `analyzeEventsOld` (analyze_model_evaluation ignored --seed: unseeded bootstrap): `C18_analyze_old_counterexample`;
* S7-C18 `cliGeneratorOld` (`if args.seed:`, seed 0 = no seed): `C18_seed0_old_counterexample` (and: agrees with the code for every seed ≠ 0);
* S5-C18 `dbalCachedOld` (scorer object keeps the triples of its first call): `C18_triple_cache_old_counterexample`; positive side `C18_history_independent`;
* S8-C18 `selectOnTableOld` (tie for the minimum score broken from a fresh generator): `C18_tie_break_old_counterexample`; positive side, every score
  table incl. ties: `C18_selectNextPlate_every_table`;
* S3-C18 iteration over a hash-ordered set: `C18_set_order_old_counterexample`; positive side `C18_sorted_iteration_order_independent`;
* fix-era: `C18_conditional_install_interferes`, `C18_no_rng_fallback_depends_on_entropy`, `C18_vi_model_interferes`.

harness-only (cannot be stated in this functional model):
* that the model's source tags ARE the code's (trace correspondence, all three sources instrumented);
* numpy's generator laws ("an identically seeded generator delivers identical values", SeedSequence.spawn);
* that an operation's output is a function of its inputs and of the values drawn and of nothing else -- no clock, no
  per-process string-hash salt, no identity-keyed cache, no per-object memory (two-run, cross-process, object-reuse and
  object-lifetime oracles);
* torch's global generator (VI model, known finding).
-/

namespace Batchie.Props.C18
open Batchie.Rand

/-! ### the semantic theorem -/

/-- Non-interference: a program whose draws all come from the supplied generator, run with the
same inputs (closed over in `p`) and the same supplied stream `g` under ANY two states of the
process-global generator and of the OS entropy, produces the same output -- for every way `out`
of computing the output from the values drawn -- makes the same draws, leaves the supplied
generator in the same state, and returns the global state and the entropy source unchanged. -/
theorem C18_noninterference {α β : Type} (p : Prog α) (h : OnlyG p) (out : α → β)
    (g γ γ' ω ω' : Stream) :
    out (run p ⟨g, γ, ω⟩).out = out (run p ⟨g, γ', ω'⟩).out ∧
    (run p ⟨g, γ, ω⟩).trace = (run p ⟨g, γ', ω'⟩).trace ∧
    (run p ⟨g, γ, ω⟩).world.g = (run p ⟨g, γ', ω'⟩).world.g ∧
    (run p ⟨g, γ, ω⟩).world.γ = γ ∧ (run p ⟨g, γ, ω⟩).world.ω = ω := by
  have := run_onlyG h g γ γ' ω ω'
  exact ⟨by rw [this.1], this.2.1, this.2.2.1, this.2.2.2.1, this.2.2.2.2⟩

/-! ### per-operation theorems: every draw is tagged G (for all shapes of the input) -/

theorem C18_sparseCover (a : Args) : OnlyG (prog .sparseCover a) :=
  (onlyG_fromEvents _ (allG_rep _ _)).bind (fun vs => onlyG_drawWhile _ _ _ vs)

theorem C18_generatePlates (a : Args) : OnlyG (prog .generatePlates a) :=
  onlyG_fromEvents _ (allG_wrapped _ _ (allG_genEvents _ _ _ _))

theorem C18_smoothPlates (a : Args) : OnlyG (prog .smoothPlates a) :=
  onlyG_fromEvents _ (allG_wrapped _ _ (allG_smootherEvents _ _))

theorem C18_randomHoldout (a : Args) : OnlyG (prog .randomHoldout a) :=
  onlyG_fromEvents _ (by simp [randomHoldoutEvents, ev])

theorem C18_plateBalancedHoldout (a : Args) : OnlyG (prog .plateBalancedHoldout a) :=
  onlyG_fromEvents _ (allG_rep _ _)

/-- RandomScorer, DBAL triple sub-sampling, SizeScorer -/
theorem C18_scorer (a : Args) : OnlyG (prog .scorer a) :=
  onlyG_fromEvents _ (allG_scorerEvents _ _)

theorem C18_kPerSamplePolicy (a : Args) : OnlyG (prog .kPerSamplePolicy a) := OnlyG.ret []

theorem C18_selectNextPlate (a : Args) : OnlyG (prog .selectNextPlate a) :=
  onlyG_fromEvents _ rfl

theorem C18_scoreChunk (a : Args) : OnlyG (prog .scoreChunk a) :=
  onlyG_fromEvents _ (by simpa [scoreChunkEvents] using allG_scorerEvents _ _)

theorem C18_sampleMvn (a : Args) : OnlyG (prog .sampleMvn a) := onlyG_fromEvents _ allG_mvn

/-- one Gibbs sweep of either sampler after `set_rng` -/
theorem C18_gibbsSweep (a : Args) : OnlyG (prog .gibbsSweep a) :=
  onlyG_fromEvents _ (allG_sweep _ _)

/-- `sampling.sample` with an MCMC model -/
theorem C18_sampleMCMC (a : Args) : OnlyG (prog .sampleMCMC a) :=
  onlyG_fromEvents _ (allG_sampleMCMC _ _ _)

theorem C18_cliPrepareRetrospective (a : Args) : OnlyG (prog .cliPrepareRetrospective a) := by
  apply onlyG_seqAll
  intro p hp
  simp only [List.mem_cons, List.not_mem_nil, or_false] at hp
  rcases hp with rfl | rfl | rfl | rfl | rfl
  · cases a.initCover
    · exact OnlyG.ret []
    · exact C18_sparseCover a
  · exact onlyG_fromEvents _ (allG_wrapped _ _ (allG_genEvents _ _ _ _))
  · exact onlyG_fromEvents _ (by cases a.initCover <;> simp [ev])
  · exact onlyG_fromEvents _ (allG_wrapped _ _ (allG_smootherEvents _ _))
  · exact onlyG_fromEvents _ (allG_rep _ _)

theorem C18_cliCalculateScores (a : Args) : OnlyG (prog .cliCalculateScores a) := C18_scoreChunk a
theorem C18_cliSelectNextPlate (a : Args) : OnlyG (prog .cliSelectNextPlate a) := C18_selectNextPlate a
theorem C18_cliTrainModel (a : Args) : OnlyG (prog .cliTrainModel a) := C18_sampleMCMC a
/-- `evaluate_model --seed`: no draw from any source -/
theorem C18_cliEvaluateModel (a : Args) : OnlyG (prog .cliEvaluateModel a) ∧ trace .cliEvaluateModel a = [] :=
  ⟨OnlyG.ret [], rfl⟩

/-- `analyze_model_evaluation --seed` (after fix 1fd9f14): the bootstrap draws of all regression plots come from the generator of `--seed` -/
theorem C18_cliAnalyzeModelEvaluation (a : Args) : OnlyG (prog .cliAnalyzeModelEvaluation a) :=
  onlyG_fromEvents _ (allG_flatten _ (fun l hl => by rw [List.eq_of_mem_replicate hl]; exact allG_rep _ _))

/-! ### assembly -/

/-- every operation that is not excluded by name draws from G only, whatever its arguments -/
theorem C18_claimed_onlyG (op : Op) (hop : op.excluded = false) (a : Args) : OnlyG (prog op a) := by
  cases op <;> first
    | (simp [Op.excluded] at hop; done)
    | exact C18_sparseCover a | exact C18_generatePlates a | exact C18_smoothPlates a
    | exact C18_randomHoldout a | exact C18_plateBalancedHoldout a | exact C18_scorer a
    | exact C18_kPerSamplePolicy a | exact C18_selectNextPlate a | exact C18_scoreChunk a
    | exact C18_sampleMvn a | exact C18_gibbsSweep a | exact C18_sampleMCMC a
    | exact C18_cliPrepareRetrospective a | exact C18_cliCalculateScores a
    | exact C18_cliSelectNextPlate a | exact C18_cliTrainModel a | exact (C18_cliEvaluateModel a).1 | exact C18_cliAnalyzeModelEvaluation a

/-- Non-interference for every modelled operation except those excluded by name: for all
arguments `a` (input shapes, options, the value-dependent loop decision of the greedy cover), all
ways `out` of computing the output from the inputs and the values drawn, every supplied stream
`g` and all `Γ, Γ', Ω, Ω'`: same output, same draws, `Γ` and `Ω` returned unchanged. -/
theorem C18_noninterference_partial {β : Type} (op : Op) (hop : op.excluded = false) (a : Args)
    (out : List Nat → β) (g γ γ' ω ω' : Stream) :
    out (run (prog op a) ⟨g, γ, ω⟩).out = out (run (prog op a) ⟨g, γ', ω'⟩).out ∧
    (run (prog op a) ⟨g, γ, ω⟩).trace = (run (prog op a) ⟨g, γ', ω'⟩).trace ∧
    (run (prog op a) ⟨g, γ, ω⟩).world.γ = γ ∧ (run (prog op a) ⟨g, γ, ω⟩).world.ω = ω ∧
    (∀ e ∈ (run (prog op a) ⟨g, γ, ω⟩).trace, e.src = .supplied) := by
  have h := C18_claimed_onlyG op hop a
  have := C18_noninterference (prog op a) h out g γ γ' ω ω'
  exact ⟨this.1, this.2.1, this.2.2.2.1, this.2.2.2.2, trace_onlyG h _⟩

/-- the exclusion list is exact: an operation is excluded iff (for the default arguments with at
least one unit of work) its trace contains a draw that is not from G -/
theorem C18_excluded_exactly (op : Op) :
    op.excluded = true ↔
      ∃ e ∈ trace op { n := 1, cfg := { clines := [true], dds := [true] }, steps := 1 },
        e.src ≠ .supplied := by
  cases op <;> decide

/-! ### the command-line steps -/

/-- Each command-line step's generator is a function of `--seed` (for train_model: of
`(seed, n_chains, chain_index)`, which `genOfSeed` abstracts) and it is the one passed down (the
CLI programs ARE the library operations run with the generator given -- `rfl`): the result of a
claimed CLI step is the same for equal seeds whatever the global state and the OS entropy, and
both are returned unchanged. -/
theorem C18_cli_seed (genOfSeed : Nat → Stream) (seed : Nat) (a : Args) (γ γ' ω ω' : Stream)
    (op : Op) (hop : op = .cliPrepareRetrospective ∨ op = .cliCalculateScores ∨
      op = .cliSelectNextPlate ∨ op = .cliTrainModel ∨ op = .cliEvaluateModel ∨
      op = .cliAnalyzeModelEvaluation) :
    (runCli genOfSeed seed op a γ ω).out = (runCli genOfSeed seed op a γ' ω').out ∧
    (runCli genOfSeed seed op a γ ω).world.γ = γ ∧
    (∀ e ∈ (runCli genOfSeed seed op a γ ω).trace, e.src = .supplied) ∧
    prog .cliCalculateScores a = prog .scoreChunk a ∧
    prog .cliSelectNextPlate a = prog .selectNextPlate a ∧
    prog .cliTrainModel a = prog .sampleMCMC a := by
  have hex : op.excluded = false := by rcases hop with rfl | rfl | rfl | rfl | rfl | rfl <;> rfl
  have := C18_noninterference_partial op hex a id (genOfSeed seed) γ γ' ω ω'
  exact ⟨this.1, this.2.2.1, this.2.2.2.2, rfl, rfl, rfl⟩

/-- EVERY command of the model that takes `--seed` (`Op.isSeededCommand`: prepare_retrospective_simulation, calculate_scores,
select_next_plate, train_model with a Gibbs model, evaluate_model, analyze_model_evaluation), for every value of the seed argument
-- 0 included --, all arguments, all states of the global generator and of the OS entropy: the result is a function of the seed,
every draw comes from the generator built from the seed, the global state and the entropy source are returned untouched. -/
theorem C18_seeded_commands (op : Op) (hop : op.isSeededCommand = true) (genOfSeed : Nat → Stream) (seed : Nat)
    (a : Args) (γ γ' ω ω' : Stream) :
    (runCli genOfSeed seed op a γ ω).out = (runCli genOfSeed seed op a γ' ω').out ∧
    (runCli genOfSeed seed op a γ ω).trace = (runCli genOfSeed seed op a γ' ω').trace ∧
    (runCli genOfSeed seed op a γ ω).world.γ = γ ∧ (runCli genOfSeed seed op a γ ω).world.ω = ω ∧
    (∀ e ∈ (runCli genOfSeed seed op a γ ω).trace, e.src = .supplied) := by
  have hex : op.excluded = false := by cases op <;> first | rfl | (simp [Op.isSeededCommand] at hop)
  have := C18_noninterference_partial op hex a id (genOfSeed seed) γ γ' ω ω'
  exact ⟨this.1, this.2.1, this.2.2.1, this.2.2.2.1, this.2.2.2.2⟩

/-- the generator of a command is a function of the seed argument alone, for ALL seeds -- in particular for the falsy seed 0 --
and the OS entropy is not consulted -/
theorem C18_cli_generator_function_of_seed (genOfSeed : Nat → Stream) (seed : Nat) (ω ω' : Stream) :
    cliGenerator genOfSeed seed ω = genOfSeed seed ∧ cliGenerator genOfSeed seed ω = cliGenerator genOfSeed seed ω' ∧
    cliGenerator genOfSeed 0 ω = genOfSeed 0 :=
  ⟨rfl, rfl, rfl⟩

/-! ### regression lemmas (seeded changes of later rounds and the pre-fix tree; the definitions are NOT the code) -/

/-- fix 1fd9f14 (`analyze_model_evaluation` ignored `--seed`): with the pre-fix definition -- every regression plot bootstraps from its own
unseeded generator -- the command's result depends on the OS entropy, consumes it, and none of its draws is from G; one plot with two
bootstrap draws is a witness -/
theorem C18_analyze_old_counterexample :
    ∃ (g γ ω ω' : Stream),
      (run (fromEvents (analyzeEventsOld 1 2)) ⟨g, γ, ω⟩).out ≠ (run (fromEvents (analyzeEventsOld 1 2)) ⟨g, γ, ω'⟩).out ∧
      (run (fromEvents (analyzeEventsOld 1 2)) ⟨g, γ, ω⟩).world.ω 0 ≠ ω 0 ∧
      (∀ e ∈ (run (fromEvents (analyzeEventsOld 1 2)) ⟨g, γ, ω⟩).trace, e.src = .fresh) ∧
      (∀ e ∈ trace .cliAnalyzeModelEvaluation { n := 1, k := 2 }, e.src = .supplied) := by
  refine ⟨fun _ => 0, fun _ => 0, fun i => i, fun i => i + 1, ?_, ?_, ?_, ?_⟩ <;> decide

/-- S7-C18 (`if args.seed:` -- `--seed 0` treated as no seed): with the regression definition the generator at seed 0 IS the OS entropy, so a
seeded step (the random hold-out) run twice with `--seed 0` gives different results; for every other seed the regression definition agrees
with the code (which is why only the falsy boundary shows it) -/
theorem C18_seed0_old_counterexample :
    (∃ (genOfSeed : Nat → Stream) (γ ω ω' : Stream),
      (run (prog .randomHoldout {}) ⟨cliGeneratorOld genOfSeed 0 ω, γ, ω⟩).out ≠
        (run (prog .randomHoldout {}) ⟨cliGeneratorOld genOfSeed 0 ω', γ, ω'⟩).out) ∧
    (∀ (genOfSeed : Nat → Stream) (seed : Nat) (ω : Stream), seed ≠ 0 →
      cliGeneratorOld genOfSeed seed ω = cliGenerator genOfSeed seed ω) := by
  constructor
  · refine ⟨fun _ _ => 0, fun _ => 0, fun i => i, fun i => i + 1, ?_⟩; decide
  · intro genOfSeed seed ω h; simp [cliGeneratorOld, cliGenerator, h]

/-- S5-C18 (a scorer object that keeps the triples of its first call): the second call on the used object, handed a generator that delivers 2,
returns the first call's value 1 and makes NO draw, whereas the same call on a fresh object returns 2 with one G draw.  The model of the code has
no object memory: `C18_history_independent`. -/
theorem C18_triple_cache_old_counterexample :
    let first := dbalCachedOld none (fun _ => 1)
    let second := dbalCachedOld first.2 (fun _ => 2)
    let fresh := dbalCachedOld none (fun _ => 2)
    second.1 = (1, []) ∧ fresh.1 = (2, [ev .supplied .choice]) ∧ second.1 ≠ fresh.1 := by
  decide

/-- S3-C18 (iteration over a `set` of names: the order depends on the per-process hash salt): the same two items visited in the two possible
orders receive different draws -/
theorem C18_set_order_old_counterexample :
    assigned [0, 1] (fun i => i + 10) 0 = some 10 ∧ assigned [1, 0] (fun i => i + 10) 0 = some 11 := by
  decide

/-- `select_next_plate` with the generator given draws NOTHING, from any source, for EVERY score table -- distinct scores, exact ties for
the minimum, all-equal tables, several `-inf` (the selection is `argmin`, the first minimal entry): its result is a function of the table and the
arguments alone, under any global / entropy state -/
theorem C18_selectNextPlate_every_table (scores : List Int) (g γ γ' ω ω' : Stream) :
    selectOnTable true scores = [] ∧ OnlyG (fromEvents (selectOnTable true scores)) ∧
    (run (fromEvents (selectOnTable true scores)) ⟨g, γ, ω⟩).out = (run (fromEvents (selectOnTable true scores)) ⟨g, γ', ω'⟩).out ∧
    (run (fromEvents (selectOnTable true scores)) ⟨g, γ, ω⟩).world.ω = ω ∧
    fromEvents (selectOnTable true scores) = prog .selectNextPlate {} :=
  ⟨rfl, onlyG_fromEvents _ rfl, rfl, rfl, rfl⟩

/-- S8-C18 (ties for the minimum broken with `rng.choice`, the caller passes no generator): on the tied table `[3, 3]` the regression definition
makes a FRESH generator and draws from it -- the selected plate depends on the OS entropy and consumes it -- whereas on the distinct table `[3, 4]` it
draws nothing (which is why distinct score tables never showed it); the code's definition draws nothing on either (`C18_selectNextPlate_every_table`) -/
theorem C18_tie_break_old_counterexample :
    minTied [3, 3] = true ∧ minTied [3, 4] = false ∧ minTied [5, -7, 2, -7] = true ∧
    selectOnTableOld true [3, 3] = [ev .fresh .newgen, ev .fresh .choice] ∧ selectOnTableOld true [3, 4] = [] ∧
    (∃ (g γ ω ω' : Stream),
      (run (fromEvents (selectOnTableOld true [3, 3])) ⟨g, γ, ω⟩).out ≠ (run (fromEvents (selectOnTableOld true [3, 3])) ⟨g, γ, ω'⟩).out ∧
      (run (fromEvents (selectOnTableOld true [3, 3])) ⟨g, γ, ω⟩).world.ω 0 ≠ ω 0) := by
  refine ⟨by decide, by decide, by decide, by decide, by decide, fun _ => 0, fun _ => 0, fun i => i, fun i => i + 1, ?_, ?_⟩ <;> decide

/-- … whereas the code iterates over `np.unique(names)`: the SORTED items.  Whatever order the container lists the items in (any permutation),
every item receives the same draw. -/
theorem C18_sorted_iteration_order_independent (items items' : List Nat) (hperm : items.Perm items') (g : Stream) :
    assignSorted items g = assignSorted items' g := by
  unfold assignSorted
  congr 1
  refine List.Perm.eq_of_pairwise (le := fun a b => decide (a ≤ b)) ?_ ?_ ?_
    ((List.mergeSort_perm _ _).trans (hperm.trans (List.mergeSort_perm _ _).symm))
  · intro a b _ _ hab hba
    exact Nat.le_antisymm (of_decide_eq_true hab) (of_decide_eq_true hba)
  · apply List.pairwise_mergeSort
    · intro a b c hab hbc; exact decide_eq_true (Nat.le_trans (of_decide_eq_true hab) (of_decide_eq_true hbc))
    · intro a b; simpa using Nat.le_total a b
  · apply List.pairwise_mergeSort
    · intro a b c hab hbc; exact decide_eq_true (Nat.le_trans (of_decide_eq_true hab) (of_decide_eq_true hbc))
    · intro a b; simpa using Nat.le_total a b

/-! ### what is excluded really interferes (the full-strength statement is false) -/

/-- The VI model's sampling reads the process-global state: two runs with the same inputs and the
same supplied generator but different global states give different outputs, and the global state
is perturbed.  (Known finding `C18:vi-model-ignores-rng`.) -/
theorem C18_vi_model_interferes :
    ∃ (a : Args) (g γ γ' ω : Stream),
      (run (prog .sampleVI a) ⟨g, γ, ω⟩).out ≠ (run (prog .sampleVI a) ⟨g, γ', ω⟩).out ∧
      (run (prog .sampleVI a) ⟨g, γ, ω⟩).world.γ 0 ≠ γ 0 := by
  refine ⟨{}, fun _ => 0, fun i => i, fun i => i + 7, fun _ => 0, ?_, ?_⟩ <;> decide

/-- a library call made without a generator draws from fresh entropy: its output depends on Ω
(outside the property; shown so that the tags of the fallbacks are not vacuous) -/
theorem C18_no_rng_fallback_depends_on_entropy :
    ∃ (a : Args) (g γ ω ω' : Stream),
      (run (prog .sampleMvnNoRng a) ⟨g, γ, ω⟩).out ≠ (run (prog .sampleMvnNoRng a) ⟨g, γ, ω'⟩).out := by
  refine ⟨{}, fun _ => 0, fun _ => 0, fun i => i, fun i => i + 1, ?_⟩; decide

/-! ### history independence -/

private theorem runSeq_append (pre cs : List Call) : ∀ (γ ω : Stream),
    ∃ γ₁ ω₁, runSeq (pre ++ cs) γ ω = runSeq pre γ ω ++ runSeq cs γ₁ ω₁ ∧
      (runSeq pre γ ω).length = pre.length := by
  induction pre with
  | nil => intro γ ω; exact ⟨γ, ω, rfl, rfl⟩
  | cons c pre ih =>
    intro γ ω
    obtain ⟨op, a, g⟩ := c
    obtain ⟨γ₁, ω₁, h1, h2⟩ := ih (run (prog op a) ⟨g, γ, ω⟩).world.γ (run (prog op a) ⟨g, γ, ω⟩).world.ω
    refine ⟨γ₁, ω₁, ?_, ?_⟩
    · simp only [List.cons_append, runSeq, h1]
    · simp only [runSeq, List.length_cons, h2]

/-- The trace, the output and the final state of the supplied generator of a claimed operation are
a function of its arguments and of the generator handed to THIS call only -- not of the history of
the process: whatever calls `pre` were made before (any operations, also the excluded ones that
perturb `Γ` and consume `Ω`, with any generators -- e.g. the same object called with another seed)
and whatever follows (`post`), the call's result inside the history is the result of the same call
made first thing in a fresh process, in ANY state `Γ', Ω'`.  ("`obj.op(x, rng(s1))` then
`obj.op(x, rng(s2))` equals `fresh.op(x, rng(s2))` in output, draw trace and final generator state".) -/
theorem C18_history_independent (pre post : List Call) (op : Op) (hop : op.excluded = false)
    (a : Args) (g γ ω γ' ω' : Stream) :
    ∃ r, (runSeq (pre ++ (op, a, g) :: post) γ ω)[pre.length]? = some r ∧
      r.out = (run (prog op a) ⟨g, γ', ω'⟩).out ∧
      r.trace = (run (prog op a) ⟨g, γ', ω'⟩).trace ∧
      r.world.g = (run (prog op a) ⟨g, γ', ω'⟩).world.g := by
  obtain ⟨γ₁, ω₁, h1, h2⟩ := runSeq_append pre ((op, a, g) :: post) γ ω
  refine ⟨run (prog op a) ⟨g, γ₁, ω₁⟩, ?_, ?_⟩
  · rw [h1, List.getElem?_append_right (by omega), h2]
    simp [runSeq]
  · have := run_onlyG (C18_claimed_onlyG op hop a) g γ₁ γ' ω₁ ω'
    exact ⟨this.1, this.2.1, this.2.2.1⟩

/-- For every modelled operation other than the greedy cover (whose NUMBER of draws depends on the
values drawn, see `sparseCover`) and the preparation command that may contain it, the draw trace
is a function of the operation and its arguments alone -- the same in every world, whatever the
supplied generator delivers: it is the driver's `trace op a`.  (For the cover the trace is a
function of the arguments and of the supplied stream: `C18_noninterference_partial`.) -/
theorem C18_trace_function_of_arguments (op : Op) (hop : op ≠ .sparseCover ∧ op ≠ .cliPrepareRetrospective)
    (a : Args) (w : World) : (run (prog op a) w).trace = trace op a := by
  obtain ⟨h1, h2⟩ := hop
  cases op <;> first
    | exact absurd rfl h1
    | exact absurd rfl h2
    | (simp only [prog, trace, trace_fromEvents]; done)
    | rfl

/-- non-vacuity: a history whose first call is the (excluded) VI training, which perturbs `Γ`,
followed by the random scorer on two plates with a generator delivering 5, 6, …: the second call
returns exactly the two values of ITS generator, with two G-tagged draws -/
example : ((runSeq [(.sampleVI, {}, fun _ => 0), (.scorer, { n := 2, scorer := .random }, fun i => i + 5)]
      (fun i => i) (fun _ => 0))[1]?).map (fun r => (r.out, r.trace))
    = some ([5, 6], [ev .supplied .random, ev .supplied .random]) := by decide

/-! ### `sampling.sample` installs this call's generator unconditionally -/

/-- Whatever generator the model object held before (constructor argument, earlier `set_rng`,
an earlier call of `sample`), every draw of every call of `sampling.sample` comes from the
generator created by THAT call: training is a function of the seed given to `sample`, not of a
generator the model happened to hold, and calling `sample` again on the same object is the same as
calling it on a fresh one. -/
theorem C18_sample_installs_generator (held : Option GenId) (gens : List GenId) :
    sampleCalls held gens = gens.map some ∧ sampleCalls held gens = sampleCalls none gens := by
  have h : ∀ (held : Option GenId), sampleCalls held gens = gens.map some := by
    induction gens with
    | nil => intro _; rfl
    | cons g gs ih => intro held; simp [sampleCalls, sampleCall, installRng, stepGen, ih]
  exact ⟨h held, by rw [h held, h none]⟩

/-- the conditional variant (`if model.rng is None: model.set_rng(rng)`) does NOT have the
property: a model that holds generator 7 keeps drawing from it, and a second call draws from the
first call's generator -/
theorem C18_conditional_install_interferes :
    sampleCallsIfNone (some 7) [1] = [some 7] ∧ sampleCallsIfNone none [1, 2] = [some 1, some 1] := by
  decide

/-! ### non-vacuity -/

/-- the claimed operations do draw: e.g. the greedy cover with 2 samples and one completion
round makes three G-tagged `choice` draws, and a sweep of the combo sampler on 1 sample with data
and 2 treatments (one without data) makes 24 G-tagged draws -/
example : trace .sparseCover { n := 2, k := 5, more := fun vs => vs.length < 3 }
    = [ev .supplied .choice, ev .supplied .choice, ev .supplied .choice] := by decide

example : (trace .gibbsSweep { cfg := { clines := [true], dds := [true, false], dims := 2 } }).length = 24 ∧
    ∀ e ∈ trace .gibbsSweep { cfg := { clines := [true], dds := [true, false], dims := 2 } },
      e.src = .supplied := by decide

end Batchie.Props.C18
