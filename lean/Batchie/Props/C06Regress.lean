/-
  C06 — model growth for seeded changes that the C06 oracles catch (S5-C06, S7-C06): the positive clause as a theorem about the model,
  and the mutated definition kept as a REGRESSION definition refuted on a concrete witness.
-/
import Batchie.Props.C06
import Batchie.Model.ScoresRegress

namespace Batchie.Props.C06
open Batchie.Scores Batchie.Screen Batchie.Proto Batchie.Lemmas.Scores

/-! ### S7-C06: scores in the extended reals (−∞ is a genuine score) through save / load / combine / select -/

/-- S7-C06, positive and general: save → load returns EXACTLY the stored (plate, score) cells, whatever the scores are — `Score` is the
    ordered type "rationals with a bottom −∞", so a cell with score −∞ survives like any other; combining the loaded files gives all
    cells of all files (`C06_concat_perm_invariant`). -/
theorem C06_save_load_keeps_every_cell (h : Holder) :
    (Holder.load h.save).entries = h.entries
    ∧ ∀ p, (p, Score.negInf) ∈ h.entries → (p, Score.negInf) ∈ (Holder.load h.save).entries := by
  have := (load_save h).1
  exact ⟨this, fun p hp => by rw [this]; exact hp⟩

/-- S7-C06, positive and general: −∞ is the bottom of the order, so when an allowed plate carries −∞ in the combined holder (any holder),
    the selected plate is a minimiser: its own score is −∞. -/
theorem C06_neg_inf_is_selected (H : Holder) (hHw : HolderWF H) (s : Screen) (policy : Option Policy) (hpol : PolicyFilters policy)
    (batch : List Int) (p q : Int) (hsel : selectNextPlate H s policy batch = .ok (some p))
    (hq : (q, Score.negInf) ∈ H.entries) (hqe : q ∈ eligible s policy batch) :
    (p, Score.negInf) ∈ H.entries ∧ p ∈ eligible s policy batch := by
  obtain ⟨_, _, _, hel, sp, hmem, hmin⟩ := C06_selection_sound_any_holder H hHw s policy hpol batch p hsel
  have := hmin q .negInf hq hqe
  cases sp with
  | negInf => exact ⟨hmem, hel⟩
  | fin x => simp [Score.lt] at this

/-- the witness: plate 1 scored −∞, plate 2 scored 0 -/
def exNegInfHolder : Holder := { size := 2, scores := [.negInf, .fin 0], plateIds := [1, 2], cur := 2 }

/-- S7-C06, regression witness: a load that keeps only finite scores loses the cell of plate 1, and the minimum over the allowed plates
    {1, 2} becomes plate 2 although plate 1 has the strictly lower score; the real load keeps the cell and plate 1 wins. -/
theorem C06_S7_load_drops_nonfinite_counterexample :
    (Holder.loadFinite exNegInfHolder.save).entries = [(2, .fin 0)]
    ∧ ((Holder.loadFinite exNegInfHolder.save).plateIdWithMinimumScore (some [1, 2])).toOption = some 2
    ∧ (Holder.load exNegInfHolder.save).entries = [(1, .negInf), (2, .fin 0)]
    ∧ ((Holder.load exNegInfHolder.save).plateIdWithMinimumScore (some [1, 2])).toOption = some 1
    ∧ Score.lt .negInf (.fin 0) = true := by
  decide

/-! ### S5-C06: the text written by the command line -/

theorem natRepr_ne_sentinel (n : Nat) : Nat.repr n ≠ "-1" := by
  intro h
  have h2 : (Nat.repr n).toList = ['-', '1'] := by rw [h]; rfl
  have h3 : '-' ∈ Nat.toDigits 10 n := by
    have : (Nat.repr n).toList = Nat.toDigits 10 n := by simp [Nat.repr]
    rw [← this, h2]; simp
  have := Nat.isDigit_of_mem_toDigits (by decide) (by decide) h3
  exact absurd this (by decide)

/-- the decimal text of a plate id (a non-negative integer) is never the sentinel -/
theorem toString_plate_id_ne_sentinel (p : Int) (hp : 0 ≤ p) : toString p ≠ "-1" := by
  obtain ⟨n, rfl⟩ := Int.eq_ofNat_of_zero_le hp
  show toString (Int.ofNat n) ≠ "-1"
  simp only [toString]
  exact natRepr_ne_sentinel n

/-- the wrapper of the model writes `cliText` of the selection -/
theorem C06_cli_writes_cliText (f : Screen.File) (s : Screen) (hs : Screen.load f = .ok s) (files : List ScoreFile)
    (policy : Option Policy) (batch : List Int) (H : Holder) (hH : Holder.concat (files.map Holder.load) = .ok H) :
    cliSelectNextPlate f files policy batch = (selectNextPlate H s policy batch).map cliText := by
  rw [C06_cli_output f s hs files policy batch H hH]; rfl

/-- S5-C06, positive and general: in the composed command line pipeline the text written is `-1` IF AND ONLY IF no plate is eligible —
    in particular plate id 0 is written as `0`.  Hypothesis `hnn`: plate ids are non-negative (they are positions in the sorted plate
    names for every constructed screen; not derived here from `mk?`). -/
theorem C06_sentinel_iff_nothing_eligible (f : Screen.File) (s : Screen) (hs : Screen.load f = .ok s) (hnn : ∀ p ∈ s.pids, 0 ≤ p)
    (batch : List Int) (n : Nat) (hn : 1 ≤ n)
    (sc : Nat → Scorer) (htot : ∀ i, TotalScorer (sc i)) (file : Nat → ScoreFile)
    (hchunks : ∀ i, i < n → cliCalculateScores f batch n i (sc i) = .ok (file i))
    (files : List ScoreFile) (hperm : files.Perm ((List.range n).map file))
    (policy : Option Policy) (hpol : PolicyFilters policy) :
    ∃ txt, cliSelectNextPlate f files policy batch = .ok txt ∧ (txt = "-1" ↔ eligible s policy batch = []) := by
  obtain ⟨H, txt, _, htxt, hcase⟩ := C06_cli_pipeline f s hs batch n hn sc htot file hchunks files hperm policy hpol
  refine ⟨txt, htxt, ?_⟩
  rcases hcase with ⟨h1, h2⟩ | ⟨p, hp, hmem, _, _, hel, _⟩
  · exact ⟨fun _ => h2, fun _ => h1⟩
  · constructor
    · intro h
      exact absurd (hp ▸ h) (toString_plate_id_ne_sentinel p (hnn p hmem))
    · intro h
      rw [h] at hel; cases hel

example : ∀ p ∈ exScreen.pids, (0 : Int) ≤ p := by decide

/-- S5-C06, regression witness: with `if not selected_plate_id` the selection of plate 0 is written as `-1`, i.e. "nothing eligible";
    the real wrapper writes `0`. -/
theorem C06_S5_falsy_plate_zero_counterexample :
    cliTextOld (some 0) = "-1" ∧ cliText (some 0) = "0" ∧ cliTextOld (some 3) = cliText (some 3) ∧ cliTextOld none = cliText none := by
  decide

/-! ### S8-C06: no tolerance in the minimum -/

/-- S8-C06, positive and general: the model's selection is an EXACT minimiser — for any holder, any two allowed cells are compared with
    the exact order of their values (rationals with −∞): an allowed cell whose score is strictly lower than the selected one's, by however
    small a margin, does not exist. -/
theorem C06_selection_exact_minimiser (H : Holder) (hHw : HolderWF H) (s : Screen) (policy : Option Policy) (hpol : PolicyFilters policy)
    (batch : List Int) (p : Int) (hsel : selectNextPlate H s policy batch = .ok (some p)) :
    ∃ sp, (p, sp) ∈ H.entries ∧ p ∈ eligible s policy batch ∧
      ¬ ∃ q sq, (q, sq) ∈ H.entries ∧ q ∈ eligible s policy batch ∧ sq.lt sp = true := by
  obtain ⟨_, _, _, hel, sp, hmem, hmin⟩ := C06_selection_sound_any_holder H hHw s policy hpol batch p hsel
  refine ⟨sp, hmem, hel, ?_⟩
  rintro ⟨q, sq, hq, hqe, hlt⟩
  rw [hmin q sq hq hqe] at hlt
  cases hlt

/-- plate 4 scored 1, plate 1 scored 1.000004 -/
def exNearTie : Holder := { size := 2, scores := [.fin 1, .fin (1000004 / 1000000)], plateIds := [4, 1], cur := 2 }

/-- S8-C06, regression witness: with the lowest id among the allowed cells within a tolerance (1e-5) of the best, plate 1 is returned
    although the allowed plate 4 has a strictly lower score; the real `plate_id_with_minimum_score` returns plate 4. -/
theorem C06_S8_tolerance_tie_break_counterexample :
    exNearTie.lowestIdWithinTol [1, 4] (1 / 100000) = some 1
    ∧ (exNearTie.plateIdWithMinimumScore (some [1, 4])).toOption = some 4
    ∧ Score.lt (.fin 1) (.fin (1000004 / 1000000)) = true := by
  decide +kernel

end Batchie.Props.C06
